/-
Helpers for `SatisfierTheory.lean`, part 2: what `satisfier`, `find_satisfier`, `max_by_key` return.
-/
import PubgrubProofs.SatisfierTheoryAux1

set_option linter.unusedSectionVars false
set_option linter.unusedVariables false

namespace Pubgrub
open VersionSet

section
variable {P S V M Pr : Type} [DecidableEq P] [VersionSet S V] [DecidableEq S] [LawfulVersionSet S V]

namespace PartialSolution

theorem WF'.entry_of_mem {ps : PartialSolution P S V Pr} (h : ps.WF') {p : P} {pa : PackageAssignments S V}
    (hm : (p, pa) ∈ ps.assignments) :
    ∃ i, ps.assignments[i]? = some (p, pa) ∧ pa.WFAt ps.currentDecisionLevel ps.nextGlobalIndex i ∧ pa.WFX := by
  obtain ⟨i, hi⟩ := List.getElem?_of_mem hm
  exact ⟨i, hi, h.wf.entries i p pa hi, h.wfx _ hm⟩

theorem WF'.entry_of_getPA {ps : PartialSolution P S V Pr} (h : ps.WF') {p : P} {pa : PackageAssignments S V}
    (hp : ps.getPA p = some pa) :
    ∃ i, ps.assignments[i]? = some (p, pa) ∧ pa.WFAt ps.currentDecisionLevel ps.nextGlobalIndex i ∧ pa.WFX :=
  h.entry_of_mem (SmallMap.mem_of_get hp)

theorem getPA_of_mem {ps : PartialSolution P S V Pr} (h : ps.WF) {p : P} {pa : PackageAssignments S V}
    (hm : (p, pa) ∈ ps.assignments) : ps.getPA p = some pa :=
  SmallMap.get_of_mem h.keys hm

end PartialSolution

/-- what `satisfier` returns -/
def PackageAssignments.IsSat (pa : PackageAssignments S V) (start : Term S) (r : Option Nat × Nat × Nat) : Prop :=
  (∃ dd ∈ pa.dated, dd.accumulated.isDisjoint start = true ∧
      r = (some dd.cause, dd.globalIndex, dd.decisionLevel)) ∨
  ((∀ dd ∈ pa.dated, dd.accumulated.isDisjoint start = false) ∧
      ∃ g v t, pa.inter = .decision g v t ∧ r = (none, g, pa.highest))

/-- when `satisfier` does not panic -/
def PackageAssignments.SatOK (pa : PackageAssignments S V) (start : Term S) : Prop :=
  (∃ g v t, pa.inter = .decision g v t) ∨ ∃ dd ∈ pa.dated, dd.accumulated.isDisjoint start = true

theorem PartialSolution.satisfier_safe {pa : PackageAssignments S V} {start : Term S} (h : pa.SatOK start) :
    Safe (PartialSolution.satisfier pa start) (pa.IsSat start) := by
  unfold PartialSolution.satisfier
  split
  · rename_i dd hdd
    exact Safe.ok (Or.inl ⟨dd, List.mem_of_find?_eq_some hdd, by simpa using List.find?_some hdd, rfl⟩)
  · rename_i hnone
    have hall : ∀ dd ∈ pa.dated, dd.accumulated.isDisjoint start = false := by
      intro dd hdd
      have := List.find?_eq_none.1 hnone dd hdd
      simpa using this
    split
    · rename_i g v t hinter
      exact Safe.ok (Or.inr ⟨hall, g, v, t, hinter, rfl⟩)
    · rename_i t hinter
      rcases h with ⟨g, v, t', h'⟩ | ⟨dd, hdd, hdis⟩
      · rw [hinter] at h'; cases h'
      · rw [hall dd hdd] at hdis; cases hdis

theorem PackageAssignments.satOK_of_disjoint {dl n i : Nat} {pa : PackageAssignments S V} (h : pa.WFAt dl n i)
    {start : Term S} (hd : pa.inter.term.isDisjoint start = true) : pa.SatOK start := by
  rcases h.inter_cases with ⟨g, v, h1, _⟩ | ⟨t, l, f, h1, _, h3, _, h5, _⟩
  · exact Or.inl ⟨g, v, _, h1⟩
  · refine Or.inr ⟨l, List.mem_of_getLast? h3, ?_⟩
    rw [h5]; rw [h1] at hd; exact hd

/-- the satisfier is an assignment of the package -/
theorem PackageAssignments.IsSat.event {pa : PackageAssignments S V} {start : Term S}
    {r : Option Nat × Nat × Nat} (h : pa.IsSat start r) : ∃ b, (r.2.1, r.2.2, b) ∈ pa.events := by
  rcases h with ⟨dd, hdd, _, rfl⟩ | ⟨_, g, v, t, hinter, rfl⟩
  · exact ⟨false, PackageAssignments.mem_events_dated hdd⟩
  · exact ⟨true, PackageAssignments.mem_events_decision hinter⟩

theorem PackageAssignments.IsSat.level_le {pa : PackageAssignments S V} (hx : pa.WFX) {start : Term S}
    {r : Option Nat × Nat × Nat} (h : pa.IsSat start r) : r.2.2 ≤ pa.highest := by
  rcases h with ⟨dd, hdd, _, rfl⟩ | ⟨_, g, v, t, hinter, rfl⟩
  · exact hx.le_highest dd hdd
  · exact Nat.le_refl _

namespace PartialSolution

/-- the satisfier map of `find_satisfier` -/
structure SatMap (ps : PartialSolution P S V Pr) (terms : List (P × Term S))
    (m : SmallMap P (Option Nat × Nat × Nat)) : Prop where
  nodup : SmallMap.NoDupKeys m
  sound : ∀ q s, (q, s) ∈ m → ∃ t pa, (q, t) ∈ terms ∧ ps.getPA q = some pa ∧ pa.IsSat t.negate s
  complete : ∀ q t, (q, t) ∈ terms → (SmallMap.get m q).isSome = true

theorem findSatisfier_go_safe (ps : PartialSolution P S V Pr) (all : List (P × Term S)) :
    ∀ (terms : List (P × Term S)) (acc : SmallMap P (Option Nat × Nat × Nat)),
    (∀ q t, (q, t) ∈ terms → (q, t) ∈ all ∧ ∃ pa, ps.getPA q = some pa ∧ pa.SatOK t.negate) →
    SmallMap.NoDupKeys acc →
    (∀ q s, (q, s) ∈ acc → ∃ t pa, (q, t) ∈ all ∧ ps.getPA q = some pa ∧ pa.IsSat t.negate s) →
    Safe (terms.foldlM (m := R) (fun acc (pt : P × Term S) => do
        let pa ← unwrapOr (ps.getPA pt.1) "find_satisfier: Must exist"
        let s ← satisfier pa pt.2.negate
        pure (SmallMap.insert acc pt.1 s)) acc)
      (fun m => SmallMap.NoDupKeys m ∧
        (∀ q s, (q, s) ∈ m → ∃ t pa, (q, t) ∈ all ∧ ps.getPA q = some pa ∧ pa.IsSat t.negate s) ∧
        (∀ q, (SmallMap.get acc q).isSome = true → (SmallMap.get m q).isSome = true) ∧
        (∀ q t, (q, t) ∈ terms → (SmallMap.get m q).isSome = true)) := by
  intro terms
  induction terms with
  | nil =>
    intro acc _ hn hs
    exact Safe.ok ⟨hn, hs, fun q h => h, fun q t h => by cases h⟩
  | cons pt rest ih =>
    intro acc hpre hn hs
    rw [List.foldlM_cons]
    obtain ⟨q0, t0⟩ := pt
    obtain ⟨hall0, pa0, hpa0, hok0⟩ := hpre q0 t0 List.mem_cons_self
    refine Safe.bind (Q := fun acc1 => SmallMap.NoDupKeys acc1 ∧
        (∀ q s, (q, s) ∈ acc1 → ∃ t pa, (q, t) ∈ all ∧ ps.getPA q = some pa ∧ pa.IsSat t.negate s) ∧
        (∀ q, (SmallMap.get acc q).isSome = true ∨ q = q0 → (SmallMap.get acc1 q).isSome = true)) ?_ ?_
    · refine Safe.bind_ok (unwrapOr_some hpa0) ?_
      refine Safe.bind (satisfier_safe hok0) ?_
      intro s _ hsat
      refine Safe.ok ⟨SmallMap.nodup_insert _ hn _ _, ?_, ?_⟩
      · intro q s' hm
        rcases SmallMap.mem_insert_sub hm with e | e
        · injection e with e1 e2; subst e1; subst e2
          exact ⟨t0, pa0, hall0, hpa0, hsat⟩
        · exact hs q s' e
      · intro q hq
        rw [SmallMap.get_insert]
        by_cases hqq : q = q0
        · rw [if_pos hqq]; rfl
        · rw [if_neg hqq]
          rcases hq with hq | hq
          · exact hq
          · exact absurd hq hqq
    · intro acc1 _ ⟨hn1, hs1, hc1⟩
      refine (ih acc1 (fun q t hm => hpre q t (List.mem_cons_of_mem _ hm)) hn1 hs1).mono ?_
      intro m _ ⟨h1, h2, h3, h4⟩
      refine ⟨h1, h2, fun q hq => h3 q (hc1 q (Or.inl hq)), ?_⟩
      intro q t hm
      rcases List.mem_cons.1 hm with e | e
      · injection e with e1 e2; subst e1
        exact h3 q (hc1 q (Or.inr rfl))
      · exact h4 q t e

theorem findSatisfier_safe (ps : PartialSolution P S V Pr) (terms : List (P × Term S))
    (hpre : ∀ q t, (q, t) ∈ terms → ∃ pa, ps.getPA q = some pa ∧ pa.SatOK t.negate) :
    Safe (ps.findSatisfier terms) (ps.SatMap terms) := by
  unfold findSatisfier
  refine (findSatisfier_go_safe ps terms terms [] (fun q t hm => ⟨hm, hpre q t hm⟩)
    (by simp [SmallMap.NoDupKeys]) (by intro q s h; cases h)).mono ?_
  intro m _ ⟨h1, h2, _, h4⟩
  exact ⟨h1, h2, h4⟩

/-- `max_by_key` returns an element with the largest global index -/
theorem maxByIndex_max : ∀ (m : List (P × (Option Nat × Nat × Nat))) (y : P × (Option Nat × Nat × Nat)),
    maxByIndex m = some y → ∀ x ∈ m, x.2.2.1 ≤ y.2.2.1 := by
  intro m
  induction m with
  | nil => intro y h; simp [maxByIndex] at h
  | cons x rest ih =>
    intro y h
    unfold maxByIndex at h
    split at h
    · rename_i hnone
      injection h with h; subst h
      intro z hz
      rcases List.mem_cons.1 hz with e | e
      · subst e; exact Nat.le_refl _
      · cases rest with
        | nil => cases e
        | cons r rs =>
          unfold maxByIndex at hnone
          split at hnone
          · cases hnone
          · split at hnone <;> cases hnone
    · rename_i y0 hy0
      have ih0 := ih y0 hy0
      split at h
      · rename_i hgt
        injection h with h; subst h
        intro z hz
        rcases List.mem_cons.1 hz with e | e
        · subst e; exact Nat.le_refl _
        · exact Nat.le_trans (ih0 z e) (Nat.le_of_lt hgt)
      · rename_i hgt
        injection h with h; subst h
        intro z hz
        rcases List.mem_cons.1 hz with e | e
        · subst e; exact Nat.le_of_not_lt hgt
        · exact ih0 z e

theorem maxByIndex_isSome : ∀ (m : List (P × (Option Nat × Nat × Nat))), m ≠ [] →
    ∃ y, maxByIndex m = some y := by
  intro m hm
  cases m with
  | nil => exact absurd rfl hm
  | cons x rest =>
    unfold maxByIndex
    split
    · exact ⟨_, rfl⟩
    · split <;> exact ⟨_, rfl⟩


/-- the tail of `find_previous_satisfier` -/
def prevTail (inc : Incompat P S V M) (sp : P) (m : SmallMap P (Option Nat × Nat × Nat))
    (pa : PackageAssignments S V) (accumTerm : Term S) : R Nat := do
  let incompatTerm ← unwrapOr (inc.get sp) "satisfier package not in incompat"
  let s ← satisfier pa (accumTerm.intersection incompatTerm.negate)
  let y ← unwrapOr (maxByIndex (SmallMap.insert m sp s)) "find_previous_satisfier: max_by_key().unwrap()"
  pure (max y.2.2.2 1)

/-- the accumulated term `find_previous_satisfier` starts from -/
def prevAccum (sp : P) (pa : PackageAssignments S V) (store : List (Incompat P S V M)) (sc : Option Nat) :
    R (Term S) :=
  match sc with
  | some cause => do
    let c ← storeGet store cause
    let t ← unwrapOr (c.get sp) "find_previous_satisfier: store[cause].get().unwrap()"
    pure t.negate
  | none =>
    match pa.inter with
    | .derivations _ => throw (.panic "must be a decision")
    | .decision _ _ t => pure t

theorem findPreviousSatisfier_eq (ps : PartialSolution P S V Pr) (inc : Incompat P S V M) (sp : P)
    (m : SmallMap P (Option Nat × Nat × Nat)) (store : List (Incompat P S V M)) :
    ps.findPreviousSatisfier inc sp m store = (do
      let pa ← unwrapOr (ps.getPA sp) "find_previous_satisfier: get(satisfier_package).unwrap()"
      let sat ← unwrapOr (SmallMap.get m sp) "find_previous_satisfier: satisfied_map.get().unwrap()"
      let accum ← prevAccum sp pa store sat.1
      prevTail inc sp m pa accum) := by
  unfold findPreviousSatisfier prevAccum prevTail
  cases h1 : unwrapOr (ps.getPA sp) "find_previous_satisfier: get(satisfier_package).unwrap()" with
  | error e => rfl
  | ok pa =>
    cases h2 : unwrapOr (SmallMap.get m sp) "find_previous_satisfier: satisfied_map.get().unwrap()" with
    | error e => rfl
    | ok sat =>
      obtain ⟨sc, sg, sl⟩ := sat
      cases sc with
      | some cause =>
        simp only [bind, Except.bind, pure, Except.pure]
        cases storeGet store cause with
        | error e => rfl
        | ok c =>
          simp only
          cases unwrapOr (c.get sp) "find_previous_satisfier: store[cause].get().unwrap()" with
          | error e => rfl
          | ok t => rfl
      | none =>
        simp only [bind, Except.bind, pure, Except.pure]
        cases pa.inter <;> rfl

theorem satisfierSearch_eq (ps : PartialSolution P S V Pr) (inc : Incompat P S V M)
    (store : List (Incompat P S V M)) :
    ps.satisfierSearch inc store = (do
      let m ← findSatisfier ps inc.terms
      let y ← unwrapOr (maxByIndex m) "satisfier_search: max_by_key().unwrap()"
      let prev ← findPreviousSatisfier ps inc y.1 m store
      if prev ≥ y.2.2.2 then do
        let c ← unwrapOr y.2.1 "satisfier_search: satisfier_cause.unwrap()"
        pure (y.1, .sameDecisionLevels c)
      else
        pure (y.1, .differentDecisionLevels prev)) := by
  unfold satisfierSearch
  cases findSatisfier ps inc.terms with
  | error e => rfl
  | ok m =>
    simp only [bind, Except.bind, pure, Except.pure]

end PartialSolution

/-- the term is satisfied by an assignment of level at most `lvl` -/
def PackageAssignments.SatBy (pa : PackageAssignments S V) (tr : Term S) (lvl : Nat) : Prop :=
  (∃ dd ∈ pa.dated, dd.decisionLevel ≤ lvl ∧ dd.accumulated.Imp tr) ∨
  (pa.highest ≤ lvl ∧ pa.inter.term.Imp tr)

theorem PackageAssignments.SatBy.mono {pa : PackageAssignments S V} {tr : Term S} {l l' : Nat}
    (h : pa.SatBy tr l) (hl : l ≤ l') : pa.SatBy tr l' := by
  rcases h with ⟨dd, h1, h2, h3⟩ | ⟨h1, h2⟩
  · exact Or.inl ⟨dd, h1, Nat.le_trans h2 hl, h3⟩
  · exact Or.inr ⟨Nat.le_trans h1 hl, h2⟩

/-- every term of the incompatibility is satisfied by the partial solution -/
def PartialSolution.Satisfies (ps : PartialSolution P S V Pr) (inc : Incompat P S V M) : Prop :=
  ∀ q t, (q, t) ∈ inc.terms → ∃ pa, ps.getPA q = some pa ∧ pa.inter.term.Imp t

/-- what the satisfier search needs to know of the partial solution -/
structure SearchCtx (root : P) (rv : V) (ps : PartialSolution P S V Pr) (store : List (Incompat P S V M)) :
    Prop where
  wf : ps.WF'
  tv : ps.TermsValid
  gmono : ps.GMono
  causes : ∀ p pa, (p, pa) ∈ ps.assignments → ∀ dd ∈ pa.dated,
    ∃ inc t, store[dd.cause]? = some inc ∧ inc.get p = some t ∧ t.Valid
  dated0 : ∀ p pa, (p, pa) ∈ ps.assignments → ∀ dd ∈ pa.dated, dd.decisionLevel = 0 → p = root
  first : ∀ p pa, (p, pa) ∈ ps.assignments → ∀ g v t, pa.inter = .decision g v t → pa.highest = 1 →
    p = root ∧ v = rv

/-- the postcondition of the satisfier search -/
def SearchPost (ps : PartialSolution P S V Pr) (inc : Incompat P S V M) (r : P × SatisfierSearch) : Prop :=
  (inc.get r.1).isSome = true ∧
  match r.2 with
  | .differentDecisionLevels prev => 1 ≤ prev ∧ (∃ pa, ps.getPA r.1 = some pa ∧ prev < pa.highest) ∧
      ∀ q t, (q, t) ∈ inc.terms → q ≠ r.1 → ∃ pa, ps.getPA q = some pa ∧ pa.SatBy t prev
  | .sameDecisionLevels c => ∃ pa dd, ps.getPA r.1 = some pa ∧ dd ∈ pa.dated ∧ dd.cause = c

theorem SmallMap.eq_singleton_of_keys {K T : Type} [DecidableEq K] {l : SmallMap K T} (hn : SmallMap.NoDupKeys l)
    {k : K} {t : T} (hall : ∀ kv ∈ l, kv.1 = k) (hm : (k, t) ∈ l) : l = [(k, t)] := by
  cases l with
  | nil => cases hm
  | cons x rest =>
    obtain ⟨a, b⟩ := x
    rw [SmallMap.nodup_cons] at hn
    have ha : a = k := hall (a, b) List.mem_cons_self
    subst ha
    cases rest with
    | nil =>
      rcases List.mem_cons.1 hm with e | e
      · rw [e]
      · cases e
    | cons y ys =>
      obtain ⟨c, d⟩ := y
      have hc : c = a := hall (c, d) (List.mem_cons_of_mem _ List.mem_cons_self)
      subst hc
      exact absurd List.mem_cons_self (hn.1 d)

theorem PackageAssignments.events_level0 {dl n i : Nat} {pa : PackageAssignments S V} (h : pa.WFAt dl n i)
    {g : Nat} {b : Bool} (he : (g, 0, b) ∈ pa.events) : ∃ dd ∈ pa.dated, dd.decisionLevel = 0 := by
  unfold PackageAssignments.events at he
  rcases List.mem_append.1 he with he | he
  · rw [List.mem_map] at he
    obtain ⟨dd, hdd, e⟩ := he
    injection e with _ e; injection e with e _
    exact ⟨dd, hdd, e⟩
  · split at he
    · rename_i g' v t hinter
      rw [List.mem_singleton] at he
      injection he with _ he; injection he with he _
      rcases h.inter_cases with ⟨g'', v', h1, h2, _⟩ | ⟨t', l, f, h1, _⟩
      · omega
      · rw [hinter] at h1; cases h1
    · cases he

end
end Pubgrub

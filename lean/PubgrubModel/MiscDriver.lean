/-
Driver side of the SemanticVersion / OfflineDependencyProvider / serde requests.
-/
import PubgrubModel.SemVer
import PubgrubModel.Offline
import PubgrubModel.Serde
import PubgrubModel.SolveDriver

namespace Pubgrub.MiscDriver
open Pubgrub Pubgrub.Protocol Pubgrub.SolveDriver

def svText (v : SemVer) : String := String.ofList v.display

def sv1 (ma mi pa : Nat) : String :=
  let v : SemVer := ⟨ma, mi, pa⟩
  let rt := match SemVer.parse v.display with
    | .ok w => decide (w = v)
    | .error _ => false
  let b (o : Option SemVer) : String := match o with | some w => svText w | none => "overflow"
  let t := v.toTuple
  s!"DISP={svText v}|RT={bit rt}|TUP={t.1},{t.2.1},{t.2.2}|BP={b v.bumpPatch}|BMI={b v.bumpMinor}|BMA={b v.bumpMajor}"

def parseDotted (s : String) : Option SemVer :=
  match s.splitOn "." with
  | [a, b, c] =>
    match a.toNat?, b.toNat?, c.toNat? with
    | some a, some b, some c => some ⟨a, b, c⟩
    | _, _, _ => none
  | _ => none

def svparse (text : String) : String :=
  match SemVer.parse text.toList with
  | .ok v => "ok " ++ svText v
  | .error (.notThreeParts _) => "err3"
  | .error (.parseIntError _ part e) => "errint|" ++ String.ofList part ++ "|" ++ e.message

/-! ### offline provider -/

abbrev Off := Offline String (Range Nat) Nat

def parseOps (s : String) : Option (List (String × Nat × List (String × Range Nat))) :=
  ((s.splitOn ";").filter (· ≠ "")).mapM fun (e : String) =>
    match e.splitOn ":" with
    | pv :: rest =>
      let depsText := ":".intercalate rest
      match pv.splitOn "@" with
      | [p, v] =>
        match v.toNat? with
        | none => none
        | some v =>
          if depsText == "" then some (p, v, [])
          else
            ((depsText.splitOn ",").mapM fun (d : String) =>
              match d.splitOn "=" with
              | [q, set] => (parseSegs set).map fun x => (q, x)
              | _ => none).map fun ds => (p, v, ds)
      | _ => none
    | _ => none

def runOps (ops : List (String × Nat × List (String × Range Nat))) : Off :=
  ops.foldl (fun o (p, v, ds) => Offline.addDependencies o p v ds) Offline.empty

def sortNats (l : List Nat) : List Nat := (l.toArray.qsort (· < ·)).toList

def depsText (ds : List (String × Range Nat)) : String :=
  ",".intercalate (sortStrings (ds.map fun (q, s) => q ++ "=" ++ fmtSegs s))

def offlineLine (opsS setsS : String) : String :=
  match parseOps opsS, ((setsS.splitOn ";").filter (· ≠ "")).mapM parseSegs with
  | some ops, some sets =>
    let o := runOps ops
    let pkgs := sortStrings (Offline.packages o)
    let perPkg (p : String) : List String :=
      let known := pkgs.contains p
      let vs := sortNats (Offline.versionsOf o p)
      let vsLine := "VS " ++ p ++ "=" ++ (if known then ",".intercalate (vs.map toString) else "none")
      let gd := (vs ++ [77]).map fun v =>
        s!"GD {p} {v}=" ++ (match Offline.getDependencies o p v with
          | none => "U its dependencies could not be determined"
          | some ds => "A " ++ depsText ds)
      let cv := sets.map fun s =>
        s!"CV {p} {fmtSegs s}=" ++ (match Offline.chooseVersion o p s with
          | some v => toString v | none => "-") ++ ";" ++ toString (Offline.matchingCount o p s)
      vsLine :: gd ++ cv
    " ## ".intercalate (("PK=" ++ ",".intercalate pkgs) :: (pkgs ++ ["nosuch"]).flatMap perPkg)
  | _, _ => "bad-request"

/-! ### serde -/

def serdeRange (a : Range Nat) : String :=
  let j := Serde.encRange Serde.encNat a
  let text := j.render
  let back := (Json.parse text).bind (Serde.decRange Serde.decNat)
  "J=" ++ text ++ "|RT=" ++ (match back with | some r => fmtSegs r | none => "error")

def serdeLegacy (json pairs : String) : String :=
  let fromJson := (Json.parse json).bind (Serde.decRange Serde.decNat)
  let ps := ((pairs.splitOn ";").filter (· ≠ "")).mapM fun (p : String) =>
    match p.splitOn "," with
    | [a, b] =>
      match a.toNat? with
      | none => none
      | some a => if b == "-" then some (Json.arr [.num a, .null]) else b.toNat?.map fun b => Json.arr [.num a, .num b]
    | _ => none
  let fromPairs := ps.bind fun items => Serde.decRange Serde.decNat (.arr items)
  let show' (o : Option (Range Nat)) : String := match o with | some r => fmtSegs r | none => "error"
  "J=" ++ show' fromJson ++ "|R=" ++ show' fromPairs

def serdeSemver (ma mi pa : Nat) : String :=
  let v : SemVer := ⟨ma, mi, pa⟩
  let j := Serde.encSemVer v
  let back := (Json.parse j.render).bind Serde.decSemVer
  "J=" ++ j.render ++ "|RT=" ++ bit (match back with | some w => decide (w = v) | none => false)

def serdeProvider (opsS : String) : String :=
  match parseOps opsS with
  | none => "bad-request"
  | some ops =>
    let o := runOps ops
    let pkgs := sortStrings (Offline.packages o)
    let obj := Json.obj (pkgs.map fun p =>
      let vs := sortStrings ((Offline.versionsOf o p).map toString)
      (p, Json.obj (vs.map fun vt =>
        let ds := match vt.toNat?.bind (fun v => Offline.getDependencies o p v) with
          | some ds => ds | none => []
        let keys := sortStrings (ds.map (·.1))
        (vt, Json.obj (keys.map fun q =>
          (q, match SmallMap.get ds q with
              | some s => Serde.encRange Serde.encNat s
              | none => Json.null))))))
    "J=" ++ obj.render ++ "|SAME=1"

end Pubgrub.MiscDriver

/-
The derivation trees returned by `resolve` satisfy the hypotheses of the reporter theorems (C08) and
of the collapse theorems (C09): they are sound, resolution-shaped, shared-consistent, their leaves are
true of the provider and contain valid sets.  This closes the chain C03 → C08/C09.
-/
import PubgrubProofs.StoreInvariant
import PubgrubProofs.TreeSound
import PubgrubProofs.CollapseSound
import PubgrubProofs.ReportSound

set_option linter.unusedSectionVars false

namespace Pubgrub
open VersionSet

variable {P S V M Pr E : Type} [DecidableEq P] [VersionSet S V] [DecidableEq S] [DecidableEq V]
  [LE Pr] [DecidableLE Pr] [LawfulVersionSet S V]

/-! ### helpers -/

/-- the keys of the result of a resolution step: the pivot is a key of both causes, and every key of
the result is a key of one of the causes -/
theorem Incompat.priorCause_keys (ia ib : Incompat P S V M)
    (na : SmallMap.NoDupKeys ia.terms) (nb : SmallMap.NoDupKeys ib.terms) (a b : Nat) (pivot : P)
    (r : Incompat P S V M) (hr : Incompat.priorCause a b ia ib pivot = .ok r) :
    pivot ∈ ia.terms.map Prod.fst ∧ pivot ∈ ib.terms.map Prod.fst ∧
      ∀ k ∈ r.terms.map Prod.fst, k ∈ ia.terms.map Prod.fst ∨ k ∈ ib.terms.map Prod.fst := by
  obtain ⟨t1, t2, merged, h1, h2, hnm, hm, -, hterms⟩ :=
    Incompat.priorCause_spec ia ib na nb a b pivot r hr
  have hp1 : pivot ∈ ia.terms.map Prod.fst := SmallMap.key_mem_of_mem (SmallMap.mem_of_get h1)
  have hp2 : pivot ∈ ib.terms.map Prod.fst := SmallMap.key_mem_of_mem (SmallMap.mem_of_get h2)
  refine ⟨hp1, hp2, ?_⟩
  have hmerged : ∀ k v, (k, v) ∈ merged →
      k ∈ ia.terms.map Prod.fst ∨ k ∈ ib.terms.map Prod.fst := by
    intro k v hkv
    have hg := SmallMap.get_of_mem hnm hkv
    rw [hm k] at hg
    by_cases hk : k = pivot
    · simp [hk] at hg
    · rw [if_neg hk] at hg
      cases hga : SmallMap.get ia.terms k with
      | some ta => exact Or.inl (SmallMap.key_mem_of_mem (SmallMap.mem_of_get hga))
      | none =>
        cases hgb : SmallMap.get ib.terms k with
        | some tb => exact Or.inr (SmallMap.key_mem_of_mem (SmallMap.mem_of_get hgb))
        | none => simp [hga, hgb, SmallMap.mergeOpt] at hg
  intro k hk
  obtain ⟨⟨k', v⟩, hkv, rfl⟩ := List.mem_map.1 hk
  rw [hterms] at hkv
  split at hkv
  · rcases (SmallMap.mem_insert_iff merged hnm pivot _ k' v).1 hkv with ⟨rfl, -⟩ | ⟨-, hmem⟩
    · exact Or.inl hp1
    · exact hmerged k' v hmem
  · exact hmerged k' v hkv

/-- the leaf of an external entry of an invariant-satisfying store carries valid sets -/
theorem External.setsValid_of_good (W : World P S V M) (root : P) (rv : V)
    (store : List (Incompat P S V M)) (id : Nat) (inc : Incompat P S V M)
    (g : inc.Good W root rv store id) (e : External P S V M) (hke : inc.kind.toExternal = some e) :
    e.SetsValid := by
  have gk := g.kind
  have gs := g.sets
  unfold Incompat.KindTrue at gk
  cases hk : inc.kind with
  | derivedFrom a b => simp [hk, Kind.toExternal] at hke
  | notRoot p v =>
    simp only [hk, Kind.toExternal, Option.some.injEq] at hke; subst hke
    trivial
  | noVersions p s =>
    simp only [hk, Kind.toExternal, Option.some.injEq] at hke gk; subst hke
    have := gs p (Term.pos s) (by rw [gk.2]; simp)
    exact this
  | fromDependencyOf p s q t' =>
    simp only [hk, Kind.toExternal, Option.some.injEq] at hke gk; subst hke
    exact ⟨gk.2.1, gk.2.2.1⟩
  | custom p s m =>
    simp only [hk, Kind.toExternal, Option.some.injEq] at hke gk; subst hke
    obtain ⟨v, rfl, -, -⟩ := gk
    exact LawfulVersionSet.valid_singleton v

/-- the tree of an entry of an invariant-satisfying store is resolution-shaped and its leaves carry
valid sets -/
theorem IsTreeOf.shape (W : World P S V M) (root : P) (rv : V)
    (store : List (Incompat P S V M)) (hinv : StoreInv W root rv store) (sh : Nat → Bool)
    (id : Nat) (t : DerivationTree P S V M) (h : IsTreeOf store sh id t) :
    t.ResolutionShaped ∧ ∀ e ∈ t.externals, e.SetsValid := by
  induction h with
  | external id inc e hs hke =>
    refine ⟨trivial, ?_⟩
    intro e' he'
    simp only [DerivationTree.externals, List.mem_singleton] at he'
    subst he'
    exact External.setsValid_of_good W root rv store id inc (hinv id inc hs) e' hke
  | derived id inc a b c1 c2 hs hkd ha hb ih1 ih2 =>
    have g := (hinv id inc hs).kind
    unfold Incompat.KindTrue at g
    simp only [hkd] at g
    obtain ⟨_, _, ia, ib, pivot, r, hsa, hsb, hr, hterms⟩ := g
    obtain ⟨-, ia', hsa', ht1⟩ := IsTreeOf.checkable W root rv store hinv sh a c1 ha
    obtain ⟨-, ib', hsb', ht2⟩ := IsTreeOf.checkable W root rv store hinv sh b c2 hb
    rw [hsa] at hsa'; cases hsa'
    rw [hsb] at hsb'; cases hsb'
    have ga := hinv a ia hsa
    have gb := hinv b ib hsb
    obtain ⟨k1, k2, k3⟩ := Incompat.priorCause_keys ia ib ga.nodup gb.nodup a b pivot r hr
    refine ⟨⟨⟨pivot, ?_, ?_, ?_⟩, ih1.1, ih2.1⟩, ?_⟩
    · rw [ht1]; exact k1
    · rw [ht2]; exact k2
    · rw [ht1, ht2, hterms]; exact k3
    · intro e he
      simp only [DerivationTree.externals, List.mem_append] at he
      exact he.elim (ih1.2 e) (ih2.2 e)

/-! ### the targets -/

/-- a checkable tree is sound over every universe of versions -/
theorem DerivationTree.Checkable.sound (W : World P S V M) (root : P) (rv : V)
    (t : DerivationTree P S V M) (h : t.Checkable W root rv) (U : P → V → Prop) : t.Sound U := by
  induction h with
  | external e _ => exact .external e
  | derived terms sid c1 c2 _ _ hent ih1 ih2 =>
    refine .derived terms sid c1 c2 ih1 ih2 ?_
    intro σ _ hT
    rcases hent σ hT with h | h
    · exact ⟨_, by simp, h⟩
    · exact ⟨_, by simp, h⟩

/-- … and its leaves are true in the existing-versions reading -/
theorem DerivationTree.Checkable.leavesTrueExisting (W : World P S V M) (root : P) (rv : V)
    (t : DerivationTree P S V M) (h : t.Checkable W root rv) : t.LeavesTrueExisting W root rv := by
  induction h with
  | external e he =>
    intro e' he'
    simp only [DerivationTree.externals, List.mem_singleton] at he'
    subst he'
    exact External.trueInExisting_of_trueIn W root rv e' he
  | derived terms sid c1 c2 _ _ _ ih1 ih2 =>
    intro e he
    simp only [DerivationTree.externals, List.mem_append] at he
    exact he.elim (ih1 e) (ih2 e)

/-- the tree built for an id of an invariant-satisfying store is resolution-shaped, its leaves carry
valid sets, and its shared ids are consistent -/
theorem buildDerivationTree_shape (W : World P S V M) (root : P) (rv : V)
    (st : State P S V M Pr) (hinv : StoreInv W root rv st.store) (id : Nat)
    (tree : DerivationTree P S V M) (h : st.buildDerivationTree id = .ok tree) :
    tree.ResolutionShaped ∧ (∀ e ∈ tree.externals, e.SetsValid) ∧ tree.SharedConsistent := by
  obtain ⟨all, shared, _, ht⟩ := buildDerivationTree_spec st id tree h
  obtain ⟨h1, h2⟩ := IsTreeOf.shape W root rv st.store hinv _ id tree ht
  refine ⟨h1, h2, ?_⟩
  intro k t1 t2 hk1 hk2
  exact buildDerivationTree_shared_same W root rv st hinv id tree h k t1 t2 hk1 hk2

/-- everything the reporter and collapse theorems assume holds of the tree of a `NoSolution` result -/
theorem noSolution_tree_hypotheses (W : World P S V M) (hW : W.SetsValid) (debug : Bool) (fuel : Nat)
    (root : P) (rv : V) (s : SolverState P S V M Pr) (tree : DerivationTree P S V M)
    (h : Reachable (E := E) W debug fuel root rv (s, .noSolution tree)) :
    (∀ U : P → V → Prop, tree.Sound U) ∧ tree.SharedConsistent ∧ tree.ResolutionShaped ∧
      tree.LeavesTrueExisting W root rv ∧ (∀ e ∈ tree.externals, e.SetsValid) ∧
      (∀ σ : P → Option V, σ root = some rv → TermsTrue σ tree.terms) := by
  obtain ⟨terminal, inc, hinc, hterm, htree, hinv, -, -⟩ :=
    noSolution_tree_origin W hW debug fuel root rv s tree h
  obtain ⟨hc, hterms⟩ := buildDerivationTree_checkable W root rv s.st hinv terminal inc hinc tree htree
  obtain ⟨hr, hv, hsc⟩ := buildDerivationTree_shape W root rv s.st hinv terminal tree htree
  refine ⟨fun U => hc.sound W root rv tree U, hsc, hr, hc.leavesTrueExisting W root rv tree, hv, ?_⟩
  intro σ hσ
  rw [hterms]
  exact terminal_forbids_root root rv inc hterm σ hσ

/-- C09 on resolve's trees: after `collapse_no_versions` (if it does not panic) the explanation is
still true of the existing versions and the top still forbids the root -/
theorem noSolution_collapse_sound (W : World P S V M) (hW : W.SetsValid) (debug : Bool) (fuel : Nat)
    (root : P) (rv : V) (s : SolverState P S V M Pr) (tree : DerivationTree P S V M)
    (h : Reachable (E := E) W debug fuel root rv (s, .noSolution tree))
    (t' : DerivationTree P S V M) (hc : tree.collapseNoVersions = .ok t') :
    t'.Sound W.Exists ∧ t'.LeavesTrueExisting W root rv ∧ t'.NoVersionsOnlyBesideLeaf ∧
      (∀ σ : P → Option V, Within W.Exists σ → σ root = some rv → TermsTrue σ t'.terms) := by
  obtain ⟨hs, -, hr, hl, hv, htop⟩ := noSolution_tree_hypotheses (E := E) W hW debug fuel root rv s tree h
  obtain ⟨g1, g2, -, g4, -⟩ :=
    collapse_sound_of_resolutionShaped W root rv tree (hs W.Exists) hl hv hr t' hc
  refine ⟨g1, g2, g4, ?_⟩
  intro σ hw hσ
  exact collapse_top_forbids_root_of_resolutionShaped W root rv tree (hs W.Exists) hl hv hr htop t' hc
    σ hw hσ

/-- C08 on resolve's trees: the default report of a `NoSolution` tree is produced (no fuel problem) and
every step is entailed by the premises it cites, for all versions -/
theorem noSolution_report_sound (W : World P S V M) (hW : W.SetsValid) (debug : Bool) (fuel : Nat)
    (root : P) (rv : V) (s : SolverState P S V M Pr) (tree : DerivationTree P S V M)
    (h : Reachable (E := E) W debug fuel root rv (s, .noSolution tree)) :
    (∃ r, reportSteps tree = .ok r) ∧
    ∀ lines, reportSteps tree = .ok (.inr lines) →
      ∀ i l, lines[i]? = some l → ∀ c, l.step.conclusion = some c →
        Entails (fun _ _ => True) (stepPremises lines i l.step) c := by
  obtain ⟨hs, hsc, -⟩ := noSolution_tree_hypotheses (E := E) W hW debug fuel root rv s tree h
  refine ⟨report_terminates tree hsc, ?_⟩
  intro lines hl i l hli c hcl
  exact report_steps_sound (fun _ _ => True) tree (hs _) hsc lines hl i l hli c hcl

end Pubgrub

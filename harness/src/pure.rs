//! Pure layer: Range (C10, C15, C16) and Term (C11) requests.
use crate::cases::Case;
use crate::util::*;
use pubgrub::{Range, Term};
use std::cmp::Ordering;
use std::collections::hash_map::DefaultHasher;
use std::hash::{Hash, Hasher};
use std::ops::Bound::{self, Excluded, Included, Unbounded};

fn ord_s(o: Ordering) -> &'static str {
    match o {
        Ordering::Less => "lt",
        Ordering::Equal => "eq",
        Ordering::Greater => "gt",
    }
}

fn bound_values(segs: &[Seg]) -> Vec<u32> {
    let mut v = vec![];
    for (s, e) in segs {
        for b in [s, e] {
            if let Included(x) | Excluded(x) = b {
                v.push(*x);
            }
        }
    }
    v
}

fn hash_of(r: &Range<u32>) -> u64 {
    let mut h = DefaultHasher::new();
    r.hash(&mut h);
    h.finish()
}

/// the same set built through other public operations
fn alt_builds(r: &Range<u32>, segs: &[Seg]) -> Vec<(&'static str, Range<u32>)> {
    let mut pieces = Range::empty();
    for (s, e) in segs.iter().rev().take(if segs.len() > 40 { 0 } else { usize::MAX }) {
        pieces = pieces.union(&Range::from_range_bounds((s.clone(), e.clone())));
    }
    let mut cut = Range::full();
    for (s, e) in segs.iter().take(if segs.len() > 40 { 0 } else { usize::MAX }) {
        cut = cut.intersection(&Range::from_range_bounds((s.clone(), e.clone())).complement());
    }
    if segs.len() > 40 {
        // long ranges: the linear-time rebuilds only (the two segment-by-segment ones are quadratic)
        return vec![
            ("complement of complement", r.complement().complement()),
            ("union with empty then intersection with full", r.union(&Range::empty()).intersection(&Range::full())),
            ("intersection with itself", r.intersection(r)),
            ("union with itself", r.union(r)),
        ];
    }
    vec![
        ("complement of complement", r.complement().complement()),
        ("union with empty then intersection with full", r.union(&Range::empty()).intersection(&Range::full())),
        ("union of its segments", pieces),
        ("complement of the intersection of the segments' complements", cut.complement()),
        ("intersection with itself", r.intersection(r)),
        ("union with itself", r.union(r)),
    ]
}

/// `rbin|A|B` : all binary operations (C10, C16)
pub fn eval_rbin(req: &str, a_s: &str, b_s: &str) -> Case {
    let (sa, sb) = (parse_segs(a_s), parse_segs(b_s));
    let (a, b) = (range_from_segs(&sa), range_from_segs(&sb));
    let (mut imp, mut fail, tags, nontrivial, results) = rbin_core(&a, &sa, &b, &sb, true);
    // second level: the RESULTS of the operations, as the objects the real code returned (their storage has
    // another history than a freshly built range), must satisfy every clause again and behave like a fresh build
    // (the second level is exhaustive over 3 bound values; over exactly 4 — the thorough tier's 262 144 pairs —
    // it is done for every 8th pair)
    let mut bv = bound_values(&sa);
    bv.extend(bound_values(&sb));
    bv.sort();
    bv.dedup();
    let sampled_out = bv.len() == 4 && (sa.len() * 31 + sb.len() * 17 + bv.iter().sum::<u32>() as usize + a_s.len() * 7 + b_s.len()) % 8 != 0;
    for (what, r) in &results {
        if !sampled_out {
            deep_check(what, r, &mut imp, &mut fail);
        }
    }
    Case { req: req.to_string(), imp, nontrivial, oracle_fail: fail, tags }
}

/// all binary operations on the two OBJECTS `a`, `b` whose segments are `sa`, `sb`
#[allow(clippy::type_complexity)]
fn rbin_core(a: &Range<u32>, sa: &[Seg], b: &Range<u32>, sb: &[Seg], with_alt: bool) -> (String, Option<String>, Vec<&'static str>, bool, Vec<(&'static str, Range<u32>)>) {
    let (sa, sb) = (sa.to_vec(), sb.to_vec());
    let u = a.union(&b);
    let i = a.intersection(&b);
    let d = a.is_disjoint(&b);
    let s = a.subset_of(&b);
    let eq = a == b;
    let c = a.cmp(&b);
    let pc = a.partial_cmp(&b);
    let imp = format!(
        "U={}|I={}|D={}|S={}|EQ={}|C={}",
        fmt_range(&u),
        fmt_range(&i),
        bit(d),
        bit(s),
        bit(eq),
        ord_s(c)
    );
    // ---- direct oracle: the statement of C10 / C16 evaluated pointwise on the doubled grid
    let grid = grid_for(&[&sa, &sb]);
    let (su, si) = (segs_of(&u), segs_of(&i));
    let mut fail: Option<String> = None;
    let mut set = |m: String| {
        if fail.is_none() {
            fail = Some(m)
        }
    };
    let mut common = false;
    let mut a_in_b = true;
    let mut same = true;
    let top = *grid.last().unwrap_or(&0);
    let (ma, mb) = (membership(&sa, top), membership(&sb, top));
    for &g in &grid {
        let (ca, cb) = (ma[g as usize], mb[g as usize]);
        if a.contains(&g) != ca || b.contains(&g) != cb {
            set(format!("contains disagrees with the reference membership at {}", g));
        }
        if u.contains(&g) != (ca || cb) {
            set(format!("union membership wrong at {}", g));
        }
        if i.contains(&g) != (ca && cb) {
            set(format!("intersection membership wrong at {}", g));
        }
        common |= ca && cb;
        a_in_b &= !ca || cb;
        same &= ca == cb;
    }
    if !segs_wf(&su) {
        set("union result is not canonical".into());
    }
    if !segs_wf(&si) {
        set("intersection result is not canonical".into());
    }
    if d != !common {
        set(format!("is_disjoint={} but common point exists={}", d, common));
    }
    if s != a_in_b {
        set(format!("subset_of={} but pointwise inclusion={}", s, a_in_b));
    }
    if eq != same {
        set(format!("==  is {} but same points is {}", eq, same));
    }
    if (&i == a) != a_in_b {
        set("a∩b == a  disagrees with inclusion".into());
    }
    if (i == Range::empty()) != !common {
        set("a∩b == ∅  disagrees with disjointness".into());
    }
    // C16 on the pair
    if (c == Ordering::Equal) != eq {
        set("cmp == Equal disagrees with ==".into());
    }
    if pc != Some(c) {
        set("partial_cmp disagrees with cmp".into());
    }
    if b.cmp(&a) != c.reverse() {
        set("cmp is not antisymmetric".into());
    }
    if eq {
        if hash_of(&a) != hash_of(&b) {
            set("equal ranges hash differently".into());
        }
    }
    // representation independence: the same set reached through other operations (another SmallVec
    // history / capacity / variant) must be ==, compare Equal and hash alike
    for (r, segs) in [(a, &sa), (b, &sb)] {
        if !with_alt {
            break;
        }
        for (how, alt) in alt_builds(r, segs) {
            if &alt != r || alt.cmp(r) != Ordering::Equal || r.cmp(&alt) != Ordering::Equal {
                set(format!("{} is not == / Equal to the range itself", how));
            } else if hash_of(&alt) != hash_of(r) {
                set(format!("equal ranges hash differently ({})", how));
            }
        }
    }
    // ---- tags
    let (va, vb) = (bound_values(&sa), bound_values(&sb));
    let shares = va.iter().any(|x| vb.contains(x));
    let mut tags = vec![];
    if shares {
        tags.push("pair_shares_bound_value");
    }
    if sa.is_empty() || sb.is_empty() {
        tags.push("pair_has_empty");
    }
    if eq {
        tags.push("pair_equal");
    }
    if su.len() < sa.len() + sb.len() && !sa.is_empty() && !sb.is_empty() {
        tags.push("union_merged_segments");
    }
    if s && !eq {
        tags.push("pair_strict_subset");
    }
    if d {
        tags.push("pair_disjoint");
    }
    (imp, fail, tags, shares && !eq, vec![("union", u), ("intersection", i)])
}

thread_local! {
    /// number of second-level (result object) checks done, for the evidence
    pub static DEEP_CHECKS: std::cell::Cell<u64> = const { std::cell::Cell::new(0) };
}

/// version lists for the second-level checks of a range with segments `sr`
fn probe_lists(sr: &[Seg]) -> Vec<Vec<u32>> {
    let mut pts: Vec<u32> = vec![];
    for v in bound_values(sr) {
        for d in [0i64, -1, 1] {
            let x = v as i64 + d;
            if x >= 0 {
                pts.push(x as u32);
            }
        }
    }
    pts.sort();
    pts.dedup();
    if pts.len() > 12 {
        // long ranges: the neighbourhood of the first two and the last two bound values
        let n = pts.len();
        pts = pts[..6].iter().chain(pts[n - 6..].iter()).cloned().collect();
    }
    let mut out: Vec<Vec<u32>> = pts.iter().map(|p| vec![*p]).collect();
    for w in pts.windows(2) {
        out.push(w.to_vec());
    }
    out.push(pts.clone());
    out
}

/// Second level: `r` is an object RETURNED by the real code.  (1) every unary / query / binary clause is
/// evaluated on it again (a concrete failing input when one fails); (2) everything it answers must equal what
/// a range freshly built from the same segments answers — if not, and no clause failed, the implementation's
/// line is marked so that the mirror (which knows segments only) reports the difference.
fn deep_check(what: &str, r: &Range<u32>, imp: &mut String, fail: &mut Option<String>) {
    DEEP_CHECKS.with(|c| c.set(c.get() + 1));
    let sr = segs_of(r);
    let fresh = range_from_segs(&sr);
    let mut differs: Option<String> = None;
    let mut note = |f: Option<String>, i1: &str, i2: &str, ctx: String| {
        if let Some(m) = f {
            if fail.is_none() {
                *fail = Some(format!("on the result of {} (= {}): {} [{}]", what, fmt_segs(&sr), m, ctx));
            }
        }
        if i1 != i2 && differs.is_none() {
            differs = Some(format!("{}: {} vs fresh {}", ctx, i1, i2));
        }
    };
    let (i1, f1, _, _) = run_core(r, &sr);
    let (i2, _, _, _) = run_core(&fresh, &sr);
    note(f1, &i1, &i2, "unary".into());
    for vs in probe_lists(&sr) {
        let (i1, f1, _, _, _) = rvs_core(r, &sr, &vs);
        let (i2, _, _, _, _) = rvs_core(&fresh, &sr, &vs);
        note(f1, &i1, &i2, format!("versions {}", fmt_versions(&vs)));
    }
    let mut probes: Vec<Vec<Seg>> = vec![sr.clone(), segs_of(&fresh.complement())];
    if let Some((s, e)) = sr.first().cloned() {
        probes.push(vec![(s, e)]);
    }
    if sr.len() >= 2 {
        probes.push(sr[1..].to_vec());
        probes.push(sr[..sr.len() - 1].to_vec());
    }
    if sr.len() > 40 {
        // long results: the first segment and the all-but-last prefix only (each probe costs O(length))
        probes = vec![vec![sr[0].clone()], sr[..sr.len() - 1].to_vec()];
    }
    for sp in probes {
        let p = range_from_segs(&sp);
        let (i1, f1, _, _, _) = rbin_core(r, &sr, &p, &sp, false);
        let (i2, _, _, _, _) = rbin_core(&fresh, &sr, &p, &sp, false);
        note(f1, &i1, &i2, format!("paired with {}", fmt_segs(&sp)));
        let (i1, f1, _, _, _) = rbin_core(&p, &sp, r, &sr, false);
        let (i2, _, _, _, _) = rbin_core(&p, &sp, &fresh, &sr, false);
        note(f1, &i1, &i2, format!("{} paired with it", fmt_segs(&sp)));
    }
    if hash_of(r) != hash_of(&fresh) || r != &fresh {
        if fail.is_none() {
            *fail = Some(format!("the result of {} (= {}) is not == / does not hash like the same segments built afresh", what, fmt_segs(&sr)));
        }
    }
    if let Some(d) = differs {
        if fail.is_none() {
            imp.push_str(&format!("|REPRESENTATION-DEPENDENT({}: {})", what, d));
        }
    }
}

fn fmt_opt_bound(b: Bound<&u32>) -> String {
    match b {
        Included(v) => format!("i{}", v),
        Excluded(v) => format!("e{}", v),
        Unbounded => "u".into(),
    }
}

/// the usual reading of the Display grammar, written independently of the crate
pub fn read_display(text: &str) -> Option<Vec<Seg>> {
    if text == "∅" {
        return Some(vec![]);
    }
    let mut out = vec![];
    for part in text.split(" | ") {
        if part == "*" {
            out.push((Unbounded, Unbounded));
            continue;
        }
        let mut lo = Unbounded;
        let mut hi = Unbounded;
        for c in part.split(", ") {
            if let Some(v) = c.strip_prefix(">=") {
                lo = Included(v.parse().ok()?);
            } else if let Some(v) = c.strip_prefix("<=") {
                hi = Included(v.parse().ok()?);
            } else if let Some(v) = c.strip_prefix('>') {
                lo = Excluded(v.parse().ok()?);
            } else if let Some(v) = c.strip_prefix('<') {
                hi = Excluded(v.parse().ok()?);
            } else {
                let v: u32 = c.parse().ok()?;
                lo = Included(v);
                hi = Included(v);
            }
        }
        out.push((lo, hi));
    }
    Some(out)
}

/// `run|A` : unary operations and queries (C10 complement, C15)
pub fn eval_run(req: &str, a_s: &str) -> Case {
    let sa = parse_segs(a_s);
    let a = range_from_segs(&sa);
    let (mut imp, mut fail, tags, nontrivial) = run_core(&a, &sa);
    deep_check("complement", &a.complement(), &mut imp, &mut fail);
    Case { req: req.to_string(), imp, nontrivial, oracle_fail: fail, tags }
}

fn run_core(a: &Range<u32>, sa: &[Seg]) -> (String, Option<String>, Vec<&'static str>, bool) {
    let sa = sa.to_vec();
    let n = a.complement();
    let e = a.is_empty();
    let sg = a.as_singleton().map(|v| v.to_string()).unwrap_or("none".into());
    let br = a
        .bounding_range()
        .map(|(s, e)| format!("{}:{}", fmt_opt_bound(s), fmt_opt_bound(e)))
        .unwrap_or("none".into());
    let disp = format!("{}", a);
    let it: Vec<Seg> = a.iter().map(|(s, e)| (s.clone(), e.clone())).collect();
    let imp = format!(
        "N={}|E={}|SG={}|BR={}|DISP={}|IT={}",
        fmt_range(&n),
        bit(e),
        sg,
        br,
        disp,
        fmt_segs(&it)
    );
    let grid = grid_for(&[&sa]);
    let top = *grid.last().unwrap_or(&0);
    let m_sa = membership(&sa, top);
    let m_it = membership(&it, top);
    // (the read-back Display text may mention bound values beyond the grid if it is wrong: fall back to the slow test)
    let m_back_get = |back: &[Seg], g: u32| -> bool { segs_contain(back, g) };
    let sn = segs_of(&n);
    let mut fail: Option<String> = None;
    let mut set = |m: String| {
        if fail.is_none() {
            fail = Some(m)
        }
    };
    let mut members = vec![];
    for &g in &grid {
        let ca = m_sa[g as usize];
        if ca {
            members.push(g);
        }
        if n.contains(&g) == ca {
            set(format!("complement membership wrong at {}", g));
        }
    }
    if !segs_wf(&sn) {
        set("complement is not canonical".into());
    }
    if &n.complement() != a {
        set("double complement is not the identity".into());
    }
    if e != members.is_empty() {
        set("is_empty disagrees with membership".into());
    }
    // as_singleton: Some(v) exactly for the set {v}: on the dense reading a set is {v} iff its
    // only segment is [v, v]; on the grid: members == [v] and v is a bound value (odd)
    let single = if sa.len() == 1 {
        match &sa[0] {
            (Included(x), Included(y)) if x == y => Some(*x),
            _ => None,
        }
    } else {
        None
    };
    if a.as_singleton().copied() != single {
        set("as_singleton wrong".into());
    }
    match a.bounding_range() {
        None => {
            if !members.is_empty() {
                set("bounding_range None for a non-empty range".into());
            }
        }
        Some((s, e)) => {
            // (the property does not require `None` for the empty range, only `None` ⇒ empty)
            let bs = (s.cloned(), e.cloned());
            for &g in &members {
                if !seg_contains(&bs, g) {
                    set(format!("bounding_range does not cover {}", g));
                }
            }
        }
    }
    match read_display(&disp) {
        None => set(format!("Display text not readable: {}", disp)),
        Some(back) => {
            let m_back = membership(&back, top);
            let _ = &m_back_get;
            for &g in &grid {
                if m_back[g as usize] != m_sa[g as usize] {
                    set(format!("Display text {} denotes another set at {}", disp, g));
                }
            }
        }
    }
    for &g in &grid {
        if m_it[g as usize] != m_sa[g as usize] {
            set("iter() does not cover the set".into());
        }
    }
    let mut tags = vec![];
    if sa.len() >= 2 {
        tags.push("unary_multi_segment");
    }
    if single.is_some() {
        tags.push("unary_singleton");
    }
    let nontrivial = !sa.is_empty() && sa != vec![(Unbounded, Unbounded)];
    (imp, fail, tags, nontrivial)
}

/// `rvs|A|v1,v2,…` : contains, contains_many, simplify on a sorted version sequence (C15)
pub fn eval_rvs(req: &str, a_s: &str, vs_s: &str) -> Case {
    let sa = parse_segs(a_s);
    let a = range_from_segs(&sa);
    let vs = parse_versions(vs_s);
    let (mut imp, mut fail, tags, nontrivial, si) = rvs_core(&a, &sa, &vs);
    deep_check("simplify", &si, &mut imp, &mut fail);
    Case { req: req.to_string(), imp, nontrivial, oracle_fail: fail, tags }
}

fn rvs_core(a: &Range<u32>, sa: &[Seg], vs: &[u32]) -> (String, Option<String>, Vec<&'static str>, bool, Range<u32>) {
    let sa = sa.to_vec();
    let vs = vs.to_vec();
    let ct: String = vs.iter().map(|v| bit(a.contains(v))).collect();
    let cm: String = a.contains_many(vs.iter()).map(bit).collect();
    let si = a.simplify(vs.iter());
    let imp = format!("CT={}|CM={}|SI={}", ct, cm, fmt_range(&si));
    let mut fail: Option<String> = None;
    let mut set = |m: String| {
        if fail.is_none() {
            fail = Some(m)
        }
    };
    let reference: String = vs.iter().map(|v| bit(segs_contain(&sa, *v))).collect();
    if ct != reference {
        set("contains disagrees with reference membership".into());
    }
    if cm != ct {
        set("contains_many differs from mapping contains".into());
    }
    let ssi = segs_of(&si);
    for v in &vs {
        if segs_contain(&ssi, *v) != segs_contain(&sa, *v) {
            set(format!("simplify disagrees with the range on listed version {}", v));
        }
    }
    if ssi.len() > sa.len() {
        set("simplify has more segments".into());
    }
    let any_match = reference.contains('1');
    if (a.as_singleton().is_some() || !any_match) && &si != a {
        set("simplify must return the original (singleton / nothing matches)".into());
    }
    // (canonicity of the result is not part of the property; the mirror compares the exact result)
    let mut tags = vec![];
    let bv = bound_values(&sa);
    if vs.iter().any(|v| bv.contains(v)) {
        tags.push("version_on_bound");
    }
    if vs.windows(2).any(|w| w[0] == w[1]) {
        tags.push("repeated_version");
    }
    if ssi.len() < sa.len() {
        tags.push("simplify_reduced");
    }
    let nontrivial = any_match && reference.contains('0');
    (imp, fail, tags, nontrivial, si)
}

/// `rfrb|start|end` : from_range_bounds (C15) ; `rcon|kind|v1|v2` : constructors (C10)
pub fn eval_rfrb(req: &str, s: &str, e: &str) -> Case {
    let (bs, be) = (parse_bound(s), parse_bound(e));
    let r: Range<u32> = Range::from_range_bounds::<(Bound<u32>, Bound<u32>), u32>((bs.clone(), be.clone()));
    let imp = fmt_range(&r);
    let sr = segs_of(&r);
    let grid = grid_for(&[&[(bs.clone(), be.clone())]]);
    let mut fail = None;
    let mut any = false;
    for &g in &grid {
        let want = seg_contains(&(bs.clone(), be.clone()), g);
        any |= want;
        if segs_contain(&sr, g) != want {
            fail = Some(format!("from_range_bounds membership wrong at {}", g));
        }
    }
    // an interval with no point on the doubled grid is empty on the dense reading too
    if !any && !sr.is_empty() {
        fail = Some("from_range_bounds of an empty interval is not the empty range".into());
    }
    if !segs_wf(&sr) {
        fail = Some("from_range_bounds result not canonical".into());
    }
    let mut imp = imp;
    deep_check("from_range_bounds", &r, &mut imp, &mut fail);
    Case { req: req.to_string(), imp, nontrivial: true, oracle_fail: fail, tags: vec![] }
}

pub fn eval_rcon(req: &str, kind: &str, v1: u32, v2: u32) -> Case {
    let (r, want): (Range<u32>, Vec<Seg>) = match kind {
        "empty" => (Range::empty(), vec![]),
        "full" => (Range::full(), vec![(Unbounded, Unbounded)]),
        "singleton" => (Range::singleton(v1), vec![(Included(v1), Included(v1))]),
        "higher_than" => (Range::higher_than(v1), vec![(Included(v1), Unbounded)]),
        "strictly_higher_than" => (Range::strictly_higher_than(v1), vec![(Excluded(v1), Unbounded)]),
        "lower_than" => (Range::lower_than(v1), vec![(Unbounded, Included(v1))]),
        "strictly_lower_than" => (Range::strictly_lower_than(v1), vec![(Unbounded, Excluded(v1))]),
        "between" => (Range::between(v1, v2), vec![(Included(v1), Excluded(v2))]),
        _ => panic!("kind"),
    };
    let sr = segs_of(&r);
    let grid: Vec<u32> = (0..=v1.max(v2) + 1).collect();
    let mut fail = None;
    for &g in &grid {
        if segs_contain(&sr, g) != segs_contain(&want, g) || r.contains(&g) != segs_contain(&want, g) {
            fail = Some(format!("constructor {} membership wrong at {}", kind, g));
        }
    }
    let mut imp = fmt_range(&r);
    deep_check("the constructor", &r, &mut imp, &mut fail);
    Case { req: req.to_string(), imp, nontrivial: true, oracle_fail: fail, tags: vec![] }
}

/// `rcmp3|A|B|C` : transitivity of the order (C16)
pub fn eval_rcmp3(req: &str, a: &str, b: &str, c: &str) -> Case {
    let (a, b, c) = (parse_range(a), parse_range(b), parse_range(c));
    let (ab, bc, ac) = (a.cmp(&b), b.cmp(&c), a.cmp(&c));
    let imp = format!("{} {} {}", ord_s(ab), ord_s(bc), ord_s(ac));
    let mut fail = None;
    if ab != Ordering::Greater && bc != Ordering::Greater {
        let want = if ab == Ordering::Equal && bc == Ordering::Equal { Ordering::Equal } else { Ordering::Less };
        if ac != want {
            fail = Some("cmp is not transitive".to_string());
        }
    }
    Case { req: req.to_string(), imp, nontrivial: ab != Ordering::Equal && bc != Ordering::Equal, oracle_fail: fail, tags: vec![] }
}

// ---------------------------------------------------------------- terms (C11)

pub fn parse_term(s: &str) -> Term<Range<u32>> {
    let r = parse_range(&s[1..]);
    match s.as_bytes()[0] {
        b'+' => Term::Positive(r),
        b'~' => Term::Negative(r),
        _ => panic!("term"),
    }
}
pub fn fmt_term(t: &Term<Range<u32>>) -> String {
    match t {
        Term::Positive(r) => format!("+{}", fmt_range(r)),
        Term::Negative(r) => format!("~{}", fmt_range(r)),
    }
}
/// reference semantics: truth of a term under a choice (None = package not selected)
fn term_eval(t: &Term<Range<u32>>, c: Option<u32>) -> bool {
    match (t, c) {
        (Term::Positive(r), Some(v)) => segs_contain(&segs_of(r), v),
        (Term::Positive(_), None) => false,
        (Term::Negative(r), Some(v)) => !segs_contain(&segs_of(r), v),
        (Term::Negative(_), None) => true,
    }
}

/// `term2|T1|T2`
pub fn eval_term2(req: &str, t1s: &str, t2s: &str) -> Case {
    use pubgrub::verif::*;
    let (t1, t2) = (parse_term(t1s), parse_term(t2s));
    let n = term_negate(&t1);
    let i = term_intersection(&t1, &t2);
    let u = term_union(&t1, &t2);
    let s = term_subset_of(&t1, &t2);
    let d = term_is_disjoint(&t1, &t2);
    let rel = term_relation_with(&t1, &t2);
    let rels = match rel {
        TermRelation::Satisfied => "sat",
        TermRelation::Contradicted => "con",
        TermRelation::Inconclusive => "inc",
    };
    let imp = format!(
        "N={}|I={}|U={}|S={}|D={}|R={}|P={}",
        fmt_term(&n),
        fmt_term(&i),
        fmt_term(&u),
        bit(s),
        bit(d),
        rels,
        bit(term_is_positive(&t1))
    );
    let seg1 = match &t1 { Term::Positive(r) | Term::Negative(r) => segs_of(r) };
    let seg2 = match &t2 { Term::Positive(r) | Term::Negative(r) => segs_of(r) };
    let grid = grid_for(&[&seg1, &seg2]);
    let mut choices: Vec<Option<u32>> = vec![None];
    choices.extend(grid.iter().map(|g| Some(*g)));
    let mut fail: Option<String> = None;
    let mut set = |m: String| {
        if fail.is_none() {
            fail = Some(m)
        }
    };
    let mut sub = true; // t1 ⊆ t2
    let mut sub21 = true; // t2 ⊆ t1
    let mut dis = true;
    for c in &choices {
        let (e1, e2) = (term_eval(&t1, *c), term_eval(&t2, *c));
        if term_eval(&n, *c) == e1 {
            set(format!("negate wrong at {:?}", c));
        }
        if term_eval(&i, *c) != (e1 && e2) {
            set(format!("intersection wrong at {:?}", c));
        }
        if term_eval(&u, *c) != (e1 || e2) {
            set(format!("union wrong at {:?}", c));
        }
        if let Some(v) = c {
            if term_contains(&t1, v) != e1 {
                set(format!("contains wrong at {}", v));
            }
        }
        sub &= !e1 || e2;
        sub21 &= !e2 || e1;
        dis &= !(e1 && e2);
    }
    if s != sub {
        set(format!("subset_of={} but pointwise={}", s, sub));
    }
    if d != dis {
        set(format!("is_disjoint={} but pointwise={}", d, dis));
    }
    // relation_with(self=t1, other=t2): satisfied iff t2 ⊆ t1, else contradicted iff disjoint
    let want = if sub21 { "sat" } else if dis { "con" } else { "inc" };
    if rels != want {
        set(format!("relation_with={} but pointwise={}", rels, want));
    }
    let mut tags = vec![];
    match (&t1, &t2) {
        (Term::Positive(_), Term::Positive(_)) => tags.push("pos_pos"),
        (Term::Positive(_), Term::Negative(_)) => tags.push("pos_neg"),
        (Term::Negative(_), Term::Positive(_)) => tags.push("neg_pos"),
        (Term::Negative(_), Term::Negative(_)) => tags.push("neg_neg"),
    }
    if seg1.is_empty() || seg2.is_empty() {
        tags.push("term_with_empty_set");
    }
    Case { req: req.to_string(), imp, nontrivial: !seg1.is_empty() && !seg2.is_empty() && seg1 != seg2, oracle_fail: fail, tags }
}

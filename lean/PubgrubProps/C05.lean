/-
Property C05 — resolve terminates with Ok or NoSolution; no panic, no internal Failure.

The model makes every `panic!` / `unwrap` / `expect` / `unreachable!` / out-of-bounds index of the
modelled Rust an explicit outcome `fault (panic site)`, both `Failure`s explicit outcomes, and the
exhaustion of the model's fuel the outcome `fault outOfFuel`.

Proved (every world, every consistent answer sequence, any strategy):
* the partial solution is well-formed in every reachable state (`C05_ps_wf`: the decided prefix, levels,
  indices — this is what the `IndexMap` prefix trick, `swap_indices`, `get_range` rely on);
* at the pop of the queue none of the following can happen: `extract_solution` panicking on
  "Derivations in the Decision part", `unwrap_positive` panicking on a negative term, the Failure
  "a package was chosen but we don't have a term." (`C05_no_fault_at_pick`);
* a provider error is reported only when a callback failed, and `Failure(incompatible version)` only
  after an out-of-set answer (C13's theorems).
* none of the 15 panic sites of the satisfier search, conflict resolution, `prior_cause`, `backtrack`
  and of the derivation that follows a backjump is reachable (`C05_no_satisfier_panic`: the classical
  backjump argument — the conflicting incompatibility stays satisfied through resolution steps, the
  previous satisfier's level is below the satisfier's, the level-1 decision is always the root).
* NO PANIC AT ALL (`C05_no_panic*`): no reachable state of the coroutine is `fault (panic site)`, for every
  site of the model (arena and index lookups, `swap_indices`/`get_range` bounds, `merge_dependents`
  unwraps, `build_derivation_tree`'s two sites, every `debug_assert`), for every world, strategy, fuel;
  answers consistent with the world, callbacks may fail, `choose_version` may answer outside its set.
  With `debug = false` (release build) for every lawful version set; with `debug = true` under
  `UnionCanon` (a union with a non-empty set is not `empty`), which `Range` has over ANY linear order
  (`C05_range_unionCanon`) and which follows from canonical emptiness.  Without it the debug statement
  is FALSE: `C05_no_panic_needs_canonical_union` is a lawful (pathological) version set and a 23-answer
  run that trips `assert_ne!(term, Term::any())` in `merge_incompatibility`.
* `Failure` is never returned to a well-behaved provider (`C05_no_failure`), and every finished run of a
  well-behaved provider ended in `Ok`, `NoSolution` or ran out of the model's fuel (`C05_outcomes*`;
  `protocolError` is the model's answer to an ill-typed answer, which a Rust provider cannot give).
* TERMINATION (`C05_resolve_terminates`, `C05_resolve_total`; `Termination*.lean`, 3 100 lines): over a
  finite registry (`FiniteWorld`: finitely many packages, and finitely many *test versions* that tell
  apart all the sets the solver can build — constructed explicitly for `Range` from the bound values
  occurring in the registry, `FiniteRegistry.finiteWorld`) there are explicit bounds
  `N = (2·|pkgs|+12)·(B+1)^D + |pkgs| + 6` on the number of provider calls and `fuel0 = 3·(B+1)^D + 3` on
  the iterations of the internal loops (`B = Σ_p (|tests p|+2) + 1`, `D = |pkgs|+2`) such that every
  well-behaved run has returned within `N` answers, not by fuel exhaustion, hence with `Ok` or
  `NoSolution`.  Measure: per decision level the total size of the terms on the test versions, read as
  a base-(B+1) numeral; derivations, decisions and backjump+learned-derivation strictly decrease it; the
  satisfier's global index strictly decreases along resolution steps.  For `Range` over any linear order:
  `C05_range_resolve_terminates`, `C05_range_resolve_total`.  Non-vacuity: a concrete two-package
  registry over the bit set (`C05_example_terminates`).
-/
import PubgrubProofs.PSInvariant
import PubgrubProofs.SatisfierTheory
import PubgrubProofs.NoPanic
import PubgrubProofs.NoPanicCex
import PubgrubProofs.RangeAnyOrder
import PubgrubProofs.RangeAnyOrder2
import PubgrubProofs.Termination
import PubgrubProofs.RangeTermination
import PubgrubProofs.Decides
import PubgrubProofs.Typed
import PubgrubProofs.Examples
import PubgrubProofs.CounterBounds

namespace Pubgrub.C05
open Pubgrub

variable {P S V M Pr E : Type} [DecidableEq P] [VersionSet S V] [DecidableEq S] [DecidableEq V]
  [LE Pr] [DecidableLE Pr] [LawfulVersionSet S V]

theorem C05_ps_wf (W : World P S V M) (hW : W.SetsValid) (debug : Bool) (fuel : Nat)
    (root : P) (rv : V) (x : SolverState P S V M Pr × Request P S V M Pr E)
    (h : Reachable W debug fuel root rv x) (hph : x.2.isFinal = false) : x.1.st.ps.WF :=
  reachable_psWF W hW debug fuel root rv x h hph

theorem C05_no_fault_at_pick (W : World P S V M) (hW : W.SetsValid) (debug : Bool) (fuel : Nat)
    (root : P) (rv : V) (s : SolverState P S V M Pr) (q : List (P × Pr)) (o : Option P)
    (h : Reachable (E := E) W debug fuel root rv (s, .pick q)) :
    (Solver.step (E := E) s (.picked o)).2 ≠ .fault (.panic "Derivations in the Decision part") ∧
    (Solver.step (E := E) s (.picked o)).2 ≠ .fault (.panic "Negative term cannot unwrap positive set") ∧
    (Solver.step (E := E) s (.picked o)).2 ≠ .failure "a package was chosen but we don't have a term." :=
  no_fault_at_pick W hW debug fuel root rv s q o h

theorem C05_no_satisfier_panic (W : World P S V M) (hW : W.SetsValid) (debug : Bool) (fuel : Nat)
    (root : P) (rv : V) (s : SolverState P S V M Pr) (site : String)
    (h : Reachable (E := E) W debug fuel root rv (s, .fault (.panic site))) :
    site ≠ "find_satisfier: Must exist" ∧
    site ≠ "satisfier: unreachable, the last assignment should have been a decision" ∧
    site ≠ "must be a decision" ∧
    site ≠ "satisfier package not in incompat" ∧
    site ≠ "satisfier_search: max_by_key().unwrap()" ∧
    site ≠ "find_previous_satisfier: max_by_key().unwrap()" ∧
    site ≠ "satisfier_search: satisfier_cause.unwrap()" ∧
    site ≠ "find_previous_satisfier: get(satisfier_package).unwrap()" ∧
    site ≠ "find_previous_satisfier: satisfied_map.get().unwrap()" ∧
    site ≠ "find_previous_satisfier: store[cause].get().unwrap()" ∧
    site ≠ "prior_cause: split_one(package).unwrap()" ∧
    site ≠ "prior_cause: satisfier_cause_terms.get(package).unwrap()" ∧
    site ≠ "backtrack: dated_derivations.last().unwrap()" ∧
    site ≠ "add_derivation should not be called after a decision" ∧
    site ≠ "add_derivation: store[cause].get(package).unwrap()" :=
  no_satisfier_panic W hW debug fuel root rv s site h

theorem C05_no_panic_unionCanon (W : World P S V M) (hW : W.SetsValid) (debug : Bool) (fuel : Nat)
    (root : P) (rv : V) (hU : debug = true → UnionCanon S V) (s : SolverState P S V M Pr) (site : String) :
    ¬ Reachable (E := E) W debug fuel root rv (s, .fault (.panic site)) :=
  no_panic_unionCanon W hW debug fuel root rv hU s site

theorem C05_no_panic [CanonicalEmpty S V] (W : World P S V M) (hW : W.SetsValid) (debug : Bool)
    (fuel : Nat) (root : P) (rv : V) (s : SolverState P S V M Pr) (site : String) :
    ¬ Reachable (E := E) W debug fuel root rv (s, .fault (.panic site)) :=
  no_panic W hW debug fuel root rv s site

theorem C05_no_panic_release (W : World P S V M) (hW : W.SetsValid) (fuel : Nat)
    (root : P) (rv : V) (s : SolverState P S V M Pr) (site : String) :
    ¬ Reachable (E := E) W false fuel root rv (s, .fault (.panic site)) :=
  no_panic_release W hW fuel root rv s site

theorem C05_range_unionCanon {T : Type} [LinearOrder T] [LawfulVersionSet (Range T) T] :
    UnionCanon (Range T) T := unionCanon_range

theorem C05_no_panic_needs_canonical_union :
    ¬ (∀ (P S V M Pr E : Type) [DecidableEq P] [VersionSet S V] [DecidableEq S] [DecidableEq V]
      [LE Pr] [DecidableLE Pr] [LawfulVersionSet S V]
      (W : World P S V M) (hW : W.SetsValid) (debug : Bool) (fuel : Nat)
      (root : P) (rv : V) (s : SolverState P S V M Pr) (site : String),
      ¬ Reachable (E := E) W debug fuel root rv (s, .fault (.panic site))) :=
  NoPanicCex.no_panic_false_without_canonicalEmpty

theorem C05_no_failure (W : World P S V M) (hW : W.SetsValid) (debug : Bool) (fuel : Nat)
    (root : P) (rv : V) (s : SolverState P S V M Pr) (msg : String) :
    ¬ ReachableWB (E := E) W debug fuel root rv (s, .failure msg) :=
  fun h => failure_only_out_of_set W hW debug fuel root rv s msg h

theorem C05_outcomes_unionCanon (W : World P S V M) (hW : W.SetsValid) (debug : Bool) (fuel : Nat)
    (root : P) (rv : V) (hU : debug = true → UnionCanon S V)
    (s : SolverState P S V M Pr) (req : Request P S V M Pr E)
    (h : ReachableWB W debug fuel root rv (s, req)) (hfin : req.isFinal = true) :
    (∃ sel, req = .solution sel) ∨ (∃ t, req = .noSolution t) ∨ req = .fault .outOfFuel ∨
      (∃ m, req = .protocolError m) :=
  wellBehaved_outcomes_unionCanon W hW debug fuel root rv hU s req h hfin

theorem C05_outcomes_release (W : World P S V M) (hW : W.SetsValid)
    (fuel : Nat) (root : P) (rv : V) (s : SolverState P S V M Pr) (req : Request P S V M Pr E)
    (h : ReachableWB W false fuel root rv (s, req)) (hfin : req.isFinal = true) :
    (∃ sel, req = .solution sel) ∨ (∃ t, req = .noSolution t) ∨ req = .fault .outOfFuel ∨
      (∃ m, req = .protocolError m) :=
  wellBehaved_outcomes_release W hW fuel root rv s req h hfin

/-! ### `Range V` over ANY linear order (the discrete `u32`, `SemanticVersion` included), where `Range` is
not a `LawfulVersionSet`: pulled back along the embedding into `Range (V ×ₗ ℚ)` (RangeHom, HomSolver,
RangeAnyOrder) -/
section AnyOrder
variable {P V M Pr E : Type} [DecidableEq P] [LinearOrder V] [LE Pr] [DecidableLE Pr]

theorem C05_range_no_panic (W : World P (Range V) V M) (hW : W.RangesWF) (debug : Bool) (fuel : Nat)
    (root : P) (rv : V) (s : SolverState P (Range V) V M Pr) (site : String) :
    ¬ Reachable (E := E) W debug fuel root rv (s, .fault (.panic site)) :=
  range_no_panic W hW debug fuel root rv s site

theorem C05_range_no_failure (W : World P (Range V) V M) (hW : W.RangesWF) (debug : Bool) (fuel : Nat)
    (root : P) (rv : V) (s : SolverState P (Range V) V M Pr) (msg : String) :
    ¬ ReachableWB (E := E) W debug fuel root rv (s, .failure msg) :=
  range_no_failure W hW debug fuel root rv s msg

theorem C05_range_outcomes (W : World P (Range V) V M) (hW : W.RangesWF) (debug : Bool) (fuel : Nat)
    (root : P) (rv : V) (s : SolverState P (Range V) V M Pr) (req : Request P (Range V) V M Pr E)
    (h : ReachableWB W debug fuel root rv (s, req)) (hfin : req.isFinal = true) :
    (∃ sel, req = .solution sel) ∨ (∃ t, req = .noSolution t) ∨ req = .fault .outOfFuel ∨
      (∃ m, req = .protocolError m) :=
  range_outcomes W hW debug fuel root rv s req h hfin

end AnyOrder

/-! ### `Range V` over ANY linear order (second batch of pull-backs, RangeAnyOrder2) -/
section AnyOrder2
variable {P V M Pr E : Type} [DecidableEq P] [LinearOrder V] [LE Pr] [DecidableLE Pr]

theorem C05_range_ps_wf (W : World P (Range V) V M) (hW : W.RangesWF) (debug : Bool) (fuel : Nat)
    (root : P) (rv : V) (x : SolverState P (Range V) V M Pr × Request P (Range V) V M Pr E)
    (h : Reachable W debug fuel root rv x) (hph : x.2.isFinal = false) : x.1.st.ps.WF :=
  by apply range_C05_ps_wf (P := P) (V := V) (M := M) (Pr := Pr) (E := E) <;> assumption

end AnyOrder2

section Termination
variable [CanonicalEmpty S V]

theorem C05_resolve_terminates (W : World P S V M) (hW : W.SetsValid) (root : P) (rv : V)
    (fw : FiniteWorld W root rv) (debug : Bool) :
    ∃ N fuel0 : Nat, ∀ fuel, fuel0 ≤ fuel → ∀ as : List (Answer P S V M Pr E), N ≤ as.length →
      WellBehavedRun W debug fuel root rv as →
      (Solver.after (Solver.start debug fuel root rv) as).2.isFinal = true ∧
      (Solver.after (Solver.start debug fuel root rv) as).2 ≠ .fault .outOfFuel :=
  resolve_terminates W hW root rv fw debug

/-- "does not overflow", as far as it can be had: along every well-behaved run over a finite registry, while
`resolve` has not returned, the decision level is at most the number of packages of the registry (the Rust
`DecisionLevel(u32)` cannot wrap for a registry with fewer than 2^32 packages) and the next global index is at
most `Cmax fw` -/
theorem C05_counters_bounded (W : World P S V M) (hW : W.SetsValid) (root : P) (rv : V)
    (fw : FiniteWorld W root rv) (debug : Bool) :
    ∃ fuel0 : Nat, ∀ fuel, fuel0 ≤ fuel → ∀ as : List (Answer P S V M Pr E),
      WellBehavedRun W debug fuel root rv as →
      (Solver.after (Solver.start debug fuel root rv) as).1.phase ≠ .finished →
      (Solver.after (Solver.start debug fuel root rv) as).1.st.ps.currentDecisionLevel ≤ fw.pkgs.length ∧
      (Solver.after (Solver.start debug fuel root rv) as).1.st.ps.nextGlobalIndex ≤ Cmax fw :=
  counters_bounded W hW root rv fw debug

/-- the sharp form: the FIRST final request comes within `N` answers and is `Ok(sel)` with `sel` a
solution, or `NoSolution` with no solution existing (or the model's `protocolError` for an ill-typed
answer).  `C05_resolve_terminates` / `C05_resolve_total` below speak about the state after ALL the
answers of a long run, where a run that returned earlier shows `protocolError "already finished"`; this
theorem is the one that carries "returns Ok or NoSolution, not by fuel exhaustion". -/
theorem C05_resolve_returns (W : World P S V M) (hW : W.SetsValid) (root : P) (rv : V)
    (fw : FiniteWorld W root rv) (debug : Bool) :
    ∃ N fuel0 : Nat, ∀ fuel, fuel0 ≤ fuel → ∀ as : List (Answer P S V M Pr E), N ≤ as.length →
      WellBehavedRun W debug fuel root rv as →
      ∃ k, k ≤ N ∧
        (Solver.after (Solver.start debug fuel root rv) (as.take k)).2.isFinal = true ∧
        (∀ j, j < k → (Solver.after (Solver.start debug fuel root rv) (as.take j)).2.isFinal = false) ∧
        DecidedBy W root rv (Solver.after (Solver.start debug fuel root rv) (as.take k)).2 :=
  resolve_returns W hW root rv fw debug

theorem C05_resolve_total (W : World P S V M) (hW : W.SetsValid) (root : P) (rv : V)
    (fw : FiniteWorld W root rv) (debug : Bool) :
    ∃ N fuel0 : Nat, ∀ fuel, fuel0 ≤ fuel → ∀ as : List (Answer P S V M Pr E), N ≤ as.length →
      WellBehavedRun W debug fuel root rv as →
      (∃ sel, (Solver.after (Solver.start debug fuel root rv) as).2 = .solution sel) ∨
      (∃ t, (Solver.after (Solver.start debug fuel root rv) as).2 = .noSolution t) ∨
      (∃ m, (Solver.after (Solver.start debug fuel root rv) as).2 = .protocolError m) :=
  resolve_total W hW root rv fw debug

end Termination

section TerminationAnyOrder
variable {P V M Pr E : Type} [DecidableEq P] [LinearOrder V] [LE Pr] [DecidableLE Pr]

theorem C05_range_resolve_terminates (W : World P (Range V) V M) (hW : W.RangesWF) (root : P) (rv : V)
    (fr : FiniteRegistry W root) (debug : Bool) :
    ∃ N fuel0 : Nat, ∀ fuel, fuel0 ≤ fuel → ∀ as : List (Answer P (Range V) V M Pr E), N ≤ as.length →
      WellBehavedRun W debug fuel root rv as →
      (Solver.after (Solver.start debug fuel root rv) as).2.isFinal = true ∧
      (Solver.after (Solver.start debug fuel root rv) as).2 ≠ .fault .outOfFuel :=
  range_resolve_terminates W hW root rv fr debug

theorem C05_range_resolve_total (W : World P (Range V) V M) (hW : W.RangesWF) (root : P) (rv : V)
    (fr : FiniteRegistry W root) (debug : Bool) :
    ∃ N fuel0 : Nat, ∀ fuel, fuel0 ≤ fuel → ∀ as : List (Answer P (Range V) V M Pr E), N ≤ as.length →
      WellBehavedRun W debug fuel root rv as →
      (∃ sel, (Solver.after (Solver.start debug fuel root rv) as).2 = .solution sel) ∨
      (∃ t, (Solver.after (Solver.start debug fuel root rv) as).2 = .noSolution t) ∨
      (∃ m, (Solver.after (Solver.start debug fuel root rv) as).2 = .protocolError m) :=
  range_resolve_total W hW root rv fr debug

end TerminationAnyOrder

/-! ### `protocolError` is an artefact of the model: typed answers never produce it

`AnswerTyped`: the answer is of the callback's return type, and the `pick` pseudo-answer names a maximal
queued package (`none` exactly for an empty queue) — what Rust's type system and the priority queue
guarantee.  For typed, well-behaved runs over a finite registry `resolve` returns, within `N` calls,
`Ok(sel)` with `sel` a solution or `NoSolution` with no solution existing: nothing else. -/
section Typed

theorem C05_typed_no_protocolError (W : World P S V M) (debug : Bool) (fuel : Nat) (root : P) (rv : V)
    (s : SolverState P S V M Pr) (req : Request P S V M Pr E) (a : Answer P S V M Pr E)
    (h : Reachable W debug fuel root rv (s, req)) (hfin : req.isFinal = false)
    (ht : AnswerTyped req a) (m : String) : (Solver.step s a).2 ≠ .protocolError m :=
  step_typed_no_protocolError W debug fuel root rv s req a h hfin ht m

theorem C05_resolve_returns_typed [CanonicalEmpty S V] (W : World P S V M) (hW : W.SetsValid) (root : P) (rv : V)
    (fw : FiniteWorld W root rv) (debug : Bool) :
    ∃ N fuel0 : Nat, ∀ fuel, fuel0 ≤ fuel → ∀ as : List (Answer P S V M Pr E), N ≤ as.length →
      WellBehavedRun W debug fuel root rv as → TypedRun debug fuel root rv as →
      ∃ k, k ≤ N ∧
        (Solver.after (Solver.start debug fuel root rv) (as.take k)).2.isFinal = true ∧
        (∀ j, j < k → (Solver.after (Solver.start debug fuel root rv) (as.take j)).2.isFinal = false) ∧
        Decided W root rv (Solver.after (Solver.start debug fuel root rv) (as.take k)).2 :=
  resolve_returns_typed W hW root rv fw debug

end Typed

section TypedAnyOrder
variable {P V M Pr E : Type} [DecidableEq P] [LinearOrder V] [LE Pr] [DecidableLE Pr]

theorem C05_range_resolve_returns_typed (W : World P (Range V) V M) (hW : W.RangesWF) (root : P) (rv : V)
    (fr : FiniteRegistry W root) (debug : Bool) :
    ∃ N fuel0 : Nat, ∀ fuel, fuel0 ≤ fuel → ∀ as : List (Answer P (Range V) V M Pr E), N ≤ as.length →
      WellBehavedRun W debug fuel root rv as → TypedRun debug fuel root rv as →
      ∃ k, k ≤ N ∧
        (Solver.after (Solver.start debug fuel root rv) (as.take k)).2.isFinal = true ∧
        (∀ j, j < k → (Solver.after (Solver.start debug fuel root rv) (as.take j)).2.isFinal = false) ∧
        ((∃ sel, (Solver.after (Solver.start debug fuel root rv) (as.take k)).2 = .solution sel ∧
            IsSolution W root rv (fun p => SmallMap.get sel p)) ∨
         ((∃ t, (Solver.after (Solver.start debug fuel root rv) (as.take k)).2 = .noSolution t) ∧
            ¬ ∃ σ : P → Option V, IsSolution W root rv σ)) :=
  range_resolve_returns_typed W hW root rv fr debug

end TypedAnyOrder

attribute [local instance] BitSet.instVersionSetBitSetFin BitSet.lawful in
/-- non-vacuity: the termination theorem applied to a concrete two-package registry over the bit set -/
theorem C05_example_terminates (debug : Bool) :
    ∃ N fuel0 : Nat, ∀ fuel, fuel0 ≤ fuel →
      ∀ as : List (Answer (Fin 2) (BitSet 3) (Fin 3) Unit Nat Unit),
      N ≤ as.length → WellBehavedRun BitSet.exampleWorld debug fuel (0 : Fin 2) (0 : Fin 3) as →
      (Solver.after (Solver.start debug fuel (0 : Fin 2) (0 : Fin 3)) as).2.isFinal = true ∧
      (Solver.after (Solver.start debug fuel (0 : Fin 2) (0 : Fin 3)) as).2 ≠ .fault .outOfFuel :=
  BitSet.example_terminates debug

/-! Non-vacuity on concrete runs (PubgrubProofs/Examples.lean, evaluated by `decide +kernel`; registered in
obligations.json so that their axioms are audited too): `Examples.example_C_psWF`, `Examples.example_D_resolve_returns_typed`. -/

end Pubgrub.C05

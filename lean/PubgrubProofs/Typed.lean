/-
TARGET FILE: PubgrubProofs/Typed.lean
`protocolError` is an outcome of the MODEL only: `Solver.step` answers with it when the provider's
answer does not fit the pending request (a Rust provider cannot do that: the callbacks are typed),
when the `pick` pseudo-answer (which package the priority queue popped) is not a maximal queued package
or is `none` although the queue is not empty (the real heap cannot do that), or when an answer arrives
after `resolve` has returned.  Make this precise: for TYPED answers `protocolError` is unreachable, and
the outcome theorems lose their third alternative.
Available, all proved: PubgrubProofs/Protocol*.lean (`reachable_coherent` / `Solver.Coherent`: the pending
request determines the phase), NoPanic.lean (`wellBehaved_outcomes`), Termination.lean (`run_rinvM`,
`run_reachableWB`, `GoodRunFrom`, `goodRunFrom_of_wellBehavedRun`), Decides.lean (`resolve_returns`,
`DecidedBy`, `decidedBy_of_final`, `exists_least_true`, `GoodRunFrom.take`), RangeTermination.lean,
RangeAnyOrder.lean, HomSolver.lean (`Answer.mapH`, `Request.mapH`, `trace_mapH`, `after_mapH`).
Replace every `sorry`; helpers above or in PubgrubProofs/TypedAux*.lean; keep the target statements.
-/
import PubgrubProofs.Decides

set_option linter.unusedSectionVars false

namespace Pubgrub
open VersionSet

section
variable {P S V M Pr E : Type} [DecidableEq P] [LE Pr] [DecidableLE Pr]

/-- the answer fits the request: the right callback's return type, and for the `pick` pseudo-request a
maximal queued package (or `none` exactly when the queue is empty) -/
def AnswerTyped : Request P S V M Pr E → Answer P S V M Pr E → Prop
  | .shouldCancel, .ok => True
  | .shouldCancel, .error _ => True
  | .prioritize _ _, .priority _ => True
  | .pick q, .picked none => q = []
  | .pick q, .picked (some p) => Solver.isMaximal q p = true
  | .chooseVersion _ _, .version _ => True
  | .chooseVersion _ _, .error _ => True
  | .getDependencies _ _, .unavailable _ => True
  | .getDependencies _ _, .available _ => True
  | .getDependencies _ _, .error _ => True
  | _, _ => False
end

/-! ### helpers: the pending `pick` request carries the queue the step function inspects -/
section Core
variable {P S V M Pr E : Type} [DecidableEq P] [VersionSet S V] [DecidableEq S] [DecidableEq V]
  [LE Pr] [DecidableLE Pr]

namespace Solver

/-- in phase `picking acc` the pending request is `pick` of exactly the queue `step` will inspect -/
def PickCoherent (x : SR P S V M Pr E) : Prop :=
  ∀ acc, x.1.phase = .picking acc → x.2 = .pick (x.1.st.ps.afterPrioritize acc).queue

theorem pickCoherent_start (debug : Bool) (fuel : Nat) (root : P) (rv : V) :
    PickCoherent (start (M := M) (Pr := Pr) (E := E) (S := S) debug fuel root rv) := by
  intro acc h; simp [start] at h

theorem pickCoherent_step (s : SolverState P S V M Pr) (a : Answer P S V M Pr E) :
    PickCoherent (step s a) := by
  unfold step
  repeat' first | split | dsimp only
  all_goals (intro acc h; simp_all [finish, loopAgain])

theorem pickCoherent_after (x : SR P S V M Pr E) (hx : PickCoherent x) (as : List (Answer P S V M Pr E)) :
    PickCoherent (after x as) := by
  induction as generalizing x with
  | nil => simpa [after_nil] using hx
  | cons a as ih => rw [after_cons]; exact ih _ (pickCoherent_step _ _)

theorem pickCoherent_run (debug : Bool) (fuel : Nat) (root : P) (rv : V) (as : List (Answer P S V M Pr E)) :
    PickCoherent (after (start debug fuel root rv) as) :=
  pickCoherent_after _ (pickCoherent_start debug fuel root rv) as

end Solver

/-- unfold `step` in a known phase and close every leaf -/
local macro "typed_leaf" h:ident : tactic =>
  `(tactic| (unfold Solver.step; simp only [$h:ident]; repeat' split
             all_goals (simp_all [Solver.finish, Solver.loopAgain]; done)))

/-- the typed-answer lemma from the two coherence invariants alone (no world, no lawfulness) -/
theorem step_typed_core (s : SolverState P S V M Pr) (req : Request P S V M Pr E)
    (a : Answer P S V M Pr E) (hco : Solver.Coherent (s, req)) (hpc : Solver.PickCoherent (s, req))
    (hfin : req.isFinal = false) (ht : AnswerTyped req a) (m : String) :
    (Solver.step s a).2 ≠ .protocolError m := by
  have hpc' := hpc
  simp only [Solver.Coherent] at hco
  simp only [Solver.PickCoherent] at hpc'
  cases hph : s.phase with
  | finished => rw [hph] at hco; simp only at hco; rw [hfin] at hco; cases hco
  | cancel =>
    rw [hph] at hco; simp only at hco; subst hco
    cases a <;> simp only [AnswerTyped] at ht
    all_goals typed_leaf hph
  | prioritizing cur rest acc =>
    rw [hph] at hco; simp only at hco; subst hco
    cases a <;> simp only [AnswerTyped] at ht
    all_goals typed_leaf hph
  | picking acc =>
    have hq := hpc' acc hph
    subst hq
    cases a <;> simp only [AnswerTyped] at ht
    rename_i o
    cases o <;> simp only at ht
    all_goals typed_leaf hph
  | choosing p t =>
    rw [hph] at hco; simp only at hco
    obtain ⟨set, rfl, rfl⟩ := hco
    cases a <;> simp only [AnswerTyped] at ht
    case version v => cases v <;> typed_leaf hph
    all_goals typed_leaf hph
  | fetching p v =>
    rw [hph] at hco; simp only at hco; subst hco
    cases a <;> simp only [AnswerTyped] at ht
    all_goals typed_leaf hph

/-- both coherence invariants hold in every reachable state -/
theorem reachable_pickCoherent (W : World P S V M) (debug : Bool) (fuel : Nat) (root : P) (rv : V)
    (x : SolverState P S V M Pr × Request P S V M Pr E) (h : Reachable W debug fuel root rv x) :
    Solver.Coherent x ∧ Solver.PickCoherent x := by
  induction h with
  | start => exact ⟨Solver.coherent_start debug fuel root rv, Solver.pickCoherent_start debug fuel root rv⟩
  | step _ _ _ => exact ⟨Solver.coherent_step _ _, Solver.pickCoherent_step _ _⟩

/-- (1) without lawfulness of the version sets -/
theorem step_typed_no_protocolError' (W : World P S V M) (debug : Bool) (fuel : Nat) (root : P) (rv : V)
    (s : SolverState P S V M Pr) (req : Request P S V M Pr E) (a : Answer P S V M Pr E)
    (h : Reachable W debug fuel root rv (s, req)) (hfin : req.isFinal = false)
    (ht : AnswerTyped req a) (m : String) : (Solver.step s a).2 ≠ .protocolError m :=
  have hc := reachable_pickCoherent W debug fuel root rv _ h
  step_typed_core s req a hc.1 hc.2 hfin ht m

/-- the request at the first final index of a run with typed answers is not `protocolError`
(arbitrary answers otherwise: no world, no lawfulness) -/
theorem typed_first_final_ne (debug : Bool) (fuel : Nat) (root : P) (rv : V)
    (as : List (Answer P S V M Pr E))
    (ht : ∀ (k : Nat) (a : Answer P S V M Pr E), as[k]? = some a →
      ∃ r, (Solver.trace debug fuel root rv as)[k]? = some r ∧ (r.isFinal = false → AnswerTyped r a))
    (k : Nat)
    (hfin : (Solver.after (Solver.start debug fuel root rv) (as.take k)).2.isFinal = true)
    (hmin : ∀ j, j < k → (Solver.after (Solver.start debug fuel root rv) (as.take j)).2.isFinal = false)
    (m : String) :
    (Solver.after (Solver.start debug fuel root rv) (as.take k)).2 ≠ .protocolError m := by
  cases k with
  | zero => simp [Solver.after_nil, Solver.start, Request.isFinal] at hfin
  | succ j =>
    have hj : j < as.length := by
      apply Classical.byContradiction
      intro hge
      have : as.take (j + 1) = as.take j := by
        rw [List.take_of_length_le (by omega), List.take_of_length_le (by omega)]
      rw [this] at hfin
      have := hmin j (by omega)
      rw [hfin] at this; cases this
    rw [Solver.take_succ_snoc _ _ hj, Solver.after_snoc]
    obtain ⟨r, hr, htr⟩ := ht j as[j] (List.getElem?_eq_getElem hj)
    rw [Solver.trace_eq, Solver.traceFrom_getElem?_eq_some] at hr
    obtain ⟨-, hr⟩ := hr
    have hnf := hmin j (by omega)
    have hco := Solver.coherent_run (E := E) (M := M) (Pr := Pr) (S := S) debug fuel root rv (as.take j)
    have hpc := Solver.pickCoherent_run (E := E) (M := M) (Pr := Pr) (S := S) debug fuel root rv (as.take j)
    generalize Solver.after (Solver.start (E := E) (M := M) (Pr := Pr) (S := S) debug fuel root rv)
      (as.take j) = x at hr hnf hco hpc ⊢
    obtain ⟨s, req⟩ := x
    simp only at hr hnf
    subst hr
    exact step_typed_core s req _ hco hpc hnf (htr hnf) m

end Core

section Lawful
variable {P S V M Pr E : Type} [DecidableEq P] [VersionSet S V] [DecidableEq S] [DecidableEq V]
  [LE Pr] [DecidableLE Pr] [LawfulVersionSet S V]

/-- a typed answer to a pending (non-final) request of a reachable state never yields `protocolError` -/
theorem step_typed_no_protocolError (W : World P S V M) (debug : Bool) (fuel : Nat) (root : P) (rv : V)
    (s : SolverState P S V M Pr) (req : Request P S V M Pr E) (a : Answer P S V M Pr E)
    (h : Reachable W debug fuel root rv (s, req)) (hfin : req.isFinal = false)
    (ht : AnswerTyped req a) (m : String) : (Solver.step s a).2 ≠ .protocolError m :=
  step_typed_no_protocolError' W debug fuel root rv s req a h hfin ht m

/-- a run all of whose answers (while `resolve` has not returned) are typed -/
def TypedRun (debug : Bool) (fuel : Nat) (root : P) (rv : V) (as : List (Answer P S V M Pr E)) : Prop :=
  ∀ (k : Nat) (a : Answer P S V M Pr E), as[k]? = some a →
    ∃ r, (Solver.trace debug fuel root rv as)[k]? = some r ∧ (r.isFinal = false → AnswerTyped r a)

/-- what `resolve` returned is what the registry decides (no `protocolError` alternative) -/
def Decided (W : World P S V M) (root : P) (rv : V) (r : Request P S V M Pr E) : Prop :=
  (∃ sel, r = .solution sel ∧ IsSolution W root rv (fun p => SmallMap.get sel p)) ∨
  ((∃ t, r = .noSolution t) ∧ ¬ ∃ σ : P → Option V, IsSolution W root rv σ)

/-- C05 + C02 for typed, well-behaved runs over a finite registry: within `N` provider calls `resolve`
returns `Ok(sel)` with `sel` a solution, or `NoSolution` and no solution exists — nothing else -/
theorem resolve_returns_typed [CanonicalEmpty S V] (W : World P S V M) (hW : W.SetsValid) (root : P) (rv : V)
    (fw : FiniteWorld W root rv) (debug : Bool) :
    ∃ N fuel0 : Nat, ∀ fuel, fuel0 ≤ fuel → ∀ as : List (Answer P S V M Pr E), N ≤ as.length →
      WellBehavedRun W debug fuel root rv as → TypedRun debug fuel root rv as →
      ∃ k, k ≤ N ∧
        (Solver.after (Solver.start debug fuel root rv) (as.take k)).2.isFinal = true ∧
        (∀ j, j < k → (Solver.after (Solver.start debug fuel root rv) (as.take j)).2.isFinal = false) ∧
        Decided W root rv (Solver.after (Solver.start debug fuel root rv) (as.take k)).2 := by
  obtain ⟨N, fuel0, hN⟩ := resolve_returns (Pr := Pr) (E := E) W hW root rv fw debug
  refine ⟨N, fuel0, ?_⟩
  intro fuel hfuel as hlen hwb htyped
  obtain ⟨k, hk, hfin, hmin, hdec⟩ := hN fuel hfuel as hlen hwb
  refine ⟨k, hk, hfin, hmin, ?_⟩
  rcases hdec with h | h | ⟨m, hm⟩
  · exact Or.inl h
  · exact Or.inr h
  · exact absurd hm (typed_first_final_ne debug fuel root rv as htyped k hfin hmin m)

end Lawful

section AnyOrder
variable {P V M Pr E : Type} [DecidableEq P] [LinearOrder V] [LE Pr] [DecidableLE Pr]

/-- the same for `Range` over any linear order and a finite registry -/
theorem range_resolve_returns_typed (W : World P (Range V) V M) (hW : W.RangesWF) (root : P) (rv : V)
    (fr : FiniteRegistry W root) (debug : Bool) :
    ∃ N fuel0 : Nat, ∀ fuel, fuel0 ≤ fuel → ∀ as : List (Answer P (Range V) V M Pr E), N ≤ as.length →
      WellBehavedRun W debug fuel root rv as → TypedRun debug fuel root rv as →
      ∃ k, k ≤ N ∧
        (Solver.after (Solver.start debug fuel root rv) (as.take k)).2.isFinal = true ∧
        (∀ j, j < k → (Solver.after (Solver.start debug fuel root rv) (as.take j)).2.isFinal = false) ∧
        ((∃ sel, (Solver.after (Solver.start debug fuel root rv) (as.take k)).2 = .solution sel ∧
            IsSolution W root rv (fun p => SmallMap.get sel p)) ∨
         ((∃ t, (Solver.after (Solver.start debug fuel root rv) (as.take k)).2 = .noSolution t) ∧
            ¬ ∃ σ : P → Option V, IsSolution W root rv σ)) := by
  obtain ⟨N, fuel0, hN⟩ := range_resolve_returns (Pr := Pr) (E := E) W hW root rv fr debug
  refine ⟨N, fuel0, ?_⟩
  intro fuel hfuel as hlen hwb htyped
  obtain ⟨k, hk, hfin, hmin, hdec⟩ := hN fuel hfuel as hlen hwb
  refine ⟨k, hk, hfin, hmin, ?_⟩
  rcases hdec with h | h | ⟨m, hm⟩
  · exact Or.inl h
  · exact Or.inr h
  · exact absurd hm (typed_first_final_ne debug fuel root rv as htyped k hfin hmin m)

end AnyOrder
end Pubgrub

/-
Termination of `resolve` (property C05: "returns Ok or NoSolution after a bounded number of provider
calls"; property C02: strategy independence): definitions only.
-/
import PubgrubProofs.SolverDefs
import PubgrubProofs.NonEmpty

namespace Pubgrub
open VersionSet

section
variable {P S V M : Type} [DecidableEq P] [VersionSet S V] [DecidableEq S]

/-- the sets the solver can ever build for package `p`: dependency sets on `p` declared by offered
versions of the packages `pkgs`, singletons of offered
versions of `p` and of the requested root version, closed under the set operations -/
inductive GeneratedSet (W : World P S V M) (root : P) (rv : V) (pkgs : List P) (p : P) : S → Prop
  | dep (q : P) (v : V) (ds : List (P × S)) (s : S) :
      q ∈ pkgs → v ∈ W.versions q → W.deps q v = .available ds → (p, s) ∈ ds →
      GeneratedSet W root rv pkgs p s
  | version (v : V) : v ∈ W.versions p → GeneratedSet W root rv pkgs p (singleton v)
  | rootVersion : p = root → GeneratedSet W root rv pkgs p (singleton rv)
  | empty : GeneratedSet W root rv pkgs p (empty : S)
  | full : GeneratedSet W root rv pkgs p (full : S)
  | complement (a : S) : GeneratedSet W root rv pkgs p a → GeneratedSet W root rv pkgs p (complement a)
  | intersection (a b : S) : GeneratedSet W root rv pkgs p a → GeneratedSet W root rv pkgs p b →
      GeneratedSet W root rv pkgs p (intersection a b)
  | union (a b : S) : GeneratedSet W root rv pkgs p a → GeneratedSet W root rv pkgs p b →
      GeneratedSet W root rv pkgs p (union a b)

/-- The registry is finite: finitely many packages are involved (the root and, transitively, the
dependencies of offered versions; `versions p` is a list, hence finite, already), and for each package finitely many
*test versions* tell apart all the sets the solver can build for it (for any finite family of sets such
test versions exist — one representative per non-empty cell of the Venn diagram; for `Range` take the
bounds and a point in every gap). -/
structure FiniteWorld (W : World P S V M) (root : P) (rv : V) where
  pkgs : List P
  root_mem : root ∈ pkgs
  deps_mem : ∀ p v ds, v ∈ W.versions p → W.deps p v = .available ds → ∀ d ∈ ds, d.1 ∈ pkgs
  tests : P → List V
  separated : ∀ p a b, GeneratedSet W root rv pkgs p a → GeneratedSet W root rv pkgs p b →
    (∀ v ∈ tests p, contains a v = contains b v) → ∀ v : V, contains a v = contains b v

end

section
variable {P S V M Pr E : Type} [DecidableEq P] [VersionSet S V] [DecidableEq S] [DecidableEq V]
  [LE Pr] [DecidableLE Pr]

/-- a run whose every answer, as long as `resolve` has not returned, is consistent with the world and
well-behaved (no callback error, `choose_version` inside the offered set) -/
def WellBehavedRun (W : World P S V M) (debug : Bool) (fuel : Nat) (root : P) (rv : V)
    (as : List (Answer P S V M Pr E)) : Prop :=
  ∀ (k : Nat) (a : Answer P S V M Pr E), as[k]? = some a →
    ∃ r, (Solver.trace debug fuel root rv as)[k]? = some r ∧
      (r.isFinal = false → AnswerOK W r a ∧ AnswerWellBehaved r a)

end
end Pubgrub

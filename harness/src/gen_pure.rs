//! Request generators for the pure properties.
use crate::cases::Sink;
use crate::eval::eval_line;
use crate::util::*;

fn all_ranges(k: u32) -> Vec<String> {
    (0u64..(1u64 << (2 * k + 1))).map(|m| fmt_segs(&segs_of_mask(m, k))).collect()
}

fn random_range(rng: &mut Rng, k: u32) -> String {
    // random point set on the doubled grid, with runs so that several segments and touching
    // bounds appear
    let bits = 2 * k + 1;
    let mut mask = 0u64;
    let mut on = rng.chance(1, 2);
    for g in 0..bits {
        if rng.chance(1, 3) {
            on = !on;
        }
        if on {
            mask |= 1 << g;
        }
    }
    fmt_segs(&segs_of_mask(mask, k))
}

fn sorted_seqs(vals: &[u32], max_len: usize) -> Vec<Vec<u32>> {
    let mut out: Vec<Vec<u32>> = vec![vec![]];
    let mut frontier: Vec<Vec<u32>> = vec![vec![]];
    for _ in 0..max_len {
        let mut next = vec![];
        for s in &frontier {
            let lo = s.last().copied().unwrap_or(0);
            for &v in vals {
                if v >= lo {
                    let mut t = s.clone();
                    t.push(v);
                    next.push(t);
                }
            }
        }
        out.extend(next.iter().cloned());
        frontier = next;
    }
    out
}

/// Long ranges (15..65 segments: a length threshold in a fast path shows) against short ranges anchored
/// at each kind of coincidence with one of the long range's bounds.
/// Bound values are ODD (the doubled-grid convention of this harness: even numbers are the gaps between
/// bound values, 0 lies below all of them), so that the pointwise oracles see every structural difference.
/// pattern 0: singletons {1} {9} {17} …; 1: closed intervals [1,3] [9,11] …; 2: half-open [1,5) [9,13) …;
/// 3: open-closed (1,5] (9,13] …
fn long_range(pattern: u32, n: u32) -> String {
    let segs: Vec<String> = (0..n)
        .map(|i| {
            let a = 8 * i + 1;
            match pattern {
                0 => format!("i{}:i{}", a, a),
                1 => format!("i{}:i{}", a, a + 2),
                2 => format!("i{}:e{}", a, a + 4),
                _ => format!("e{}:i{}", a, a + 4),
            }
        })
        .collect();
    segs.join(" ")
}

pub fn long_range_pairs(thorough: bool) -> Vec<(String, String)> {
    let mut lens: Vec<u32> = if thorough { vec![15, 16, 17, 31, 32, 33, 63, 64, 65] } else { vec![15, 16, 17, 33] };
    for n in around_thresholds(400) {
        if n >= 4 && !lens.contains(&(n as u32)) {
            lens.push(n as u32);
        }
    }
    let mut out = vec![];
    for &n in &lens {
        for pattern in 0..4 {
            let long = long_range(pattern, n);
            // anchors: bounds of the first, a middle, the 16th/17th and the last segment, and the gaps next to them
            let mut anchors: Vec<u32> = vec![];
            for i in [0, 1, n / 2, 14.min(n - 1), 15.min(n - 1), 16.min(n - 1), n - 2, n - 1] {
                for d in [1, 3, 5, 7] {
                    anchors.push(8 * i + d);
                }
            }
            anchors.sort();
            anchors.dedup();
            for x in anchors {
                for short in [
                    format!("i{}:u", x), format!("e{}:u", x), format!("u:i{}", x), format!("u:e{}", x), format!("i{}:i{}", x, x),
                    format!("i{}:e{}", x, x + 6), format!("e{}:i{}", x, x + 10), format!("i{}:i{} i{}:u", x, x, x + 18),
                ] {
                    out.push((long.clone(), short.clone()));
                    out.push((short, long.clone()));
                }
            }
            // two long ranges of different patterns
            out.push((long.clone(), long_range((pattern + 1) % 4, n)));
        }
    }
    out
}

/// Structured pairs of LONG ranges (up to 300 segments): `b` is derived from `a` by a local edit, so that the
/// two share long prefixes, `b` is a (non-)subset with several pieces inside one segment of `a`, the lengths
/// differ by a factor of 16 and more, … — the shapes at which length-dependent fast paths (binary search,
/// block-wise comparison, skipping) part from the plain sweeps.  Bound values follow the odd / even convention.
/// Wide segment i of `a` is [16i+1, 16i+13] (pattern 0), (16i+1, 16i+13) (1), [16i+1, 16i+13) (2).
pub fn derived_long_pairs(thorough: bool) -> Vec<(String, String)> {
    let mut lens: Vec<usize> = if thorough {
        vec![7, 8, 9, 15, 16, 17, 31, 32, 33, 47, 48, 63, 64, 65, 96, 127, 128, 129, 160, 255, 256, 257, 300]
    } else {
        vec![8, 16, 17, 32, 33, 64, 65, 128, 129, 257]
    };
    // constants new in a changed source file: lengths on both sides of t, of 2t and of 16t
    for t in thresholds(1200) {
        for n in [t - 1, t, t + 1, 2 * t - 1, 2 * t + 1, 16 * t - 1, 16 * t + 1] {
            if n >= 3 && n <= 1300 && !lens.contains(&n) {
                lens.push(n);
            }
        }
    }
    let seg = |pattern: usize, i: usize| -> String {
        let a = 16 * i + 1;
        match pattern {
            0 => format!("i{}:i{}", a, a + 12),
            1 => format!("e{}:e{}", a, a + 12),
            _ => format!("i{}:e{}", a, a + 12),
        }
    };
    let sub = |i: usize, k: usize| -> String {
        // k-th small piece strictly inside wide segment i
        let a = 16 * i + 3 + 4 * k;
        format!("i{}:i{}", a, a)
    };
    let mut out = vec![];
    for (li, &n) in lens.iter().enumerate() {
        let pattern = li % 3;
        let a: Vec<String> = (0..n).map(|i| seg(pattern, i)).collect();
        let a_s = a.join(" ");
        let mut bs: Vec<String> = vec![];
        // prefixes, prefix + last, prefix + changed segment + rest
        for m in [1usize, n / 2, 31, 32, 33, n - 1] {
            if m == 0 || m >= n {
                continue;
            }
            bs.push(a[..m].join(" "));
            bs.push(format!("{} {}", a[..m].join(" "), a[n - 1]));
            let changed = format!("i{}:i{}", 16 * m + 1, 16 * m + 5);
            let mut v: Vec<String> = a[..m].to_vec();
            v.push(changed);
            v.extend_from_slice(&a[m + 1..]);
            bs.push(v.join(" "));
            // one segment removed
            let mut v: Vec<String> = a[..m].to_vec();
            v.extend_from_slice(&a[m + 1..]);
            bs.push(v.join(" "));
        }
        // several small pieces inside ONE segment, inside several segments, one piece sticking out
        for j in [0usize, n / 2, n - 1] {
            bs.push(format!("{} {}", sub(j, 0), sub(j, 1)));
            bs.push(format!("{} {} {}", sub(j, 0), sub(j, 1), sub(j, 2)));
            bs.push(format!("{} i{}:i{}", sub(j, 0), 16 * j + 11, 16 * j + 15));
        }
        if n >= 3 {
            bs.push(format!("{} {} {}", sub(0, 0), sub(n / 2, 1), sub(n - 1, 2)));
            bs.push(format!("{} {} {} {}", sub(0, 0), sub(0, 2), sub(n - 1, 0), sub(n - 1, 1)));
        }
        // every 2nd / every 16th / every 17th segment; the same with pieces
        for step in [2usize, 16, 17] {
            let v: Vec<String> = (0..n).step_by(step).map(|i| a[i].clone()).collect();
            bs.push(v.join(" "));
            let v: Vec<String> = (0..n).step_by(step).map(|i| format!("{} {}", sub(i, 0), sub(i, 2))).collect();
            bs.push(v.join(" "));
        }
        // shifted copy (every segment overlaps two), and the gaps (the complement's inner part)
        bs.push((0..n).map(|i| format!("i{}:i{}", 16 * i + 9, 16 * i + 19)).collect::<Vec<_>>().join(" "));
        bs.push((0..n).map(|i| format!("i{}:i{}", 16 * i + 15, 16 * i + 15)).collect::<Vec<_>>().join(" "));
        // every alignment along ONE long range (the longest of the tier, and those next to a new constant): a
        // piece in segment j, an interval from inside segment j to inside segment j + 2, for every j
        let all_alignments = n <= 300 && (n == *lens.iter().filter(|l| **l <= 300).max().unwrap_or(&0) || around_thresholds(300).contains(&n));
        if all_alignments {
            for j in 0..n {
                bs.push(sub(j, 1));
                if j + 2 < n {
                    bs.push(format!("i{}:i{}", 16 * j + 5, 16 * (j + 2) + 5));
                    bs.push(format!("e{}:e{}", 16 * j + 13, 16 * (j + 2) + 1));
                }
            }
        }
        for b in bs {
            out.push((a_s.clone(), b.clone()));
            out.push((b, a_s.clone()));
        }
        out.push((a_s.clone(), a_s.clone()));
    }
    out
}

pub fn gen_c10(sink: &mut Sink, thorough: bool, seed: u64) {
    let mut rng = Rng::new(seed);
    let pairs = long_range_pairs(thorough);
    for (a, b) in &pairs {
        sink.push(eval_line(&format!("rbin|{}|{}", a, b)));
    }
    for (a, _) in pairs.iter().step_by(97) {
        sink.push(eval_line(&format!("run|{}", a)));
    }
    sink.notes.push(format!("{} pairs of a long range (15..65 segments, 4 patterns) with a short range anchored at every kind of coincidence with its bounds", pairs.len()));
    let derived = derived_long_pairs(thorough);
    for (a, b) in &derived {
        sink.push(eval_line(&format!("rbin|{}|{}", a, b)));
    }
    sink.notes.push(format!("{} structured pairs of long ranges (8..300 segments): shared prefixes, removed / changed segments, several pieces inside one segment, length ratios of 16 and more, shifted copies", derived.len()));
    for (kind, v1, v2) in [
        ("empty", 0, 0), ("full", 0, 0), ("singleton", 3, 0), ("higher_than", 3, 0),
        ("strictly_higher_than", 3, 0), ("lower_than", 3, 0), ("strictly_lower_than", 3, 0),
        ("between", 1, 3), ("between", 1, 5), ("between", 3, 5), ("singleton", 1, 0), ("higher_than", 1, 0),
    ] {
        sink.push(eval_line(&format!("rcon|{}|{}|{}", kind, v1, v2)));
    }
    let r3 = all_ranges(3);
    for a in &r3 {
        sink.push(eval_line(&format!("run|{}", a)));
    }
    for a in &r3 {
        for b in &r3 {
            sink.push(eval_line(&format!("rbin|{}|{}", a, b)));
        }
    }
    sink.notes.push("exhaustive: all 128 canonical ranges over 3 bound values, all 16384 ordered pairs".into());
    // random larger ranges (seeded)
    let n_random = if thorough { 200_000 } else { 4_000 };
    for _ in 0..n_random {
        let k = 4 + rng.below(9) as u32;
        let a = random_range(&mut rng, k);
        let b = random_range(&mut rng, k);
        sink.push(eval_line(&format!("rbin|{}|{}", a, b)));
        if rng.chance(1, 4) {
            sink.push(eval_line(&format!("run|{}", a)));
        }
    }
    if thorough {
        let r4 = all_ranges(4);
        for a in &r4 {
            sink.push(eval_line(&format!("run|{}", a)));
            for b in &r4 {
                sink.push(eval_line(&format!("rbin|{}|{}", a, b)));
            }
        }
        sink.notes.push("exhaustive: all 512 canonical ranges over 4 bound values, all 262144 ordered pairs".into());
    }
}

pub fn gen_c15(sink: &mut Sink, thorough: bool, seed: u64) {
    let mut rng = Rng::new(seed);
    let r3 = all_ranges(3);
    let grid: Vec<u32> = (0..=6).collect();
    let seqs = sorted_seqs(&grid, if thorough { 5 } else { 3 });
    for a in &r3 {
        sink.push(eval_line(&format!("run|{}", a)));
        for s in &seqs {
            sink.push(eval_line(&format!("rvs|{}|{}", a, fmt_versions(s))));
        }
    }
    sink.notes.push(format!(
        "exhaustive: 128 canonical ranges over 3 bound values x all {} sorted version sequences (with repeats) over the doubled grid 0..=6",
        seqs.len()
    ));
    // long ranges against long version lists (a length threshold in contains_many / simplify shows)
    let mut n_long = 0;
    for (i, (a, b)) in derived_long_pairs(thorough).iter().enumerate() {
        if i % 4 != 0 {
            continue;
        }
        // the versions: every bound value of the other range and its neighbours, thinned out in three ways
        let mut vs: Vec<u32> = vec![];
        for tok in b.split(|c: char| !c.is_ascii_digit()).filter(|t| !t.is_empty()) {
            if let Ok(v) = tok.parse::<u32>() {
                vs.extend_from_slice(&[v.saturating_sub(1), v, v + 1]);
            }
        }
        vs.sort();
        for keep in [1usize, 3, 7] {
            let sel: Vec<u32> = vs.iter().cloned().step_by(keep).take(900).collect();
            sink.push(eval_line(&format!("rvs|{}|{}", a, fmt_versions(&sel))));
            n_long += 1;
        }
    }
    sink.notes.push(format!("{} long ranges (8..300 segments) against version lists of up to 900 entries on and next to the bounds", n_long));
    let bs = ["u", "i1", "e1", "i3", "e3", "i5", "e5"];
    for s in bs {
        for e in bs {
            sink.push(eval_line(&format!("rfrb|{}|{}", s, e)));
        }
    }
    let n_random = if thorough { 100_000 } else { 3_000 };
    for _ in 0..n_random {
        let k = 4 + rng.below(7) as u32;
        let a = random_range(&mut rng, k);
        let mut vs: Vec<u32> = (0..rng.below(9)).map(|_| rng.below(2 * k as u64 + 2) as u32).collect();
        vs.sort();
        sink.push(eval_line(&format!("rvs|{}|{}", a, fmt_versions(&vs))));
        if rng.chance(1, 3) {
            sink.push(eval_line(&format!("run|{}", a)));
        }
    }
}

pub fn gen_c16(sink: &mut Sink, thorough: bool, seed: u64) {
    let mut rng = Rng::new(seed);
    for (i, (a, b)) in long_range_pairs(thorough).iter().enumerate() {
        if i % 7 == 0 {
            sink.push(eval_line(&format!("rbin|{}|{}", a, b)));
        }
    }
    let derived = derived_long_pairs(thorough);
    for (a, b) in &derived {
        sink.push(eval_line(&format!("rbin|{}|{}", a, b)));
    }
    // transitivity on long ranges: triples of ranges derived from the same long range
    for w in derived.chunks(6) {
        if w.len() == 6 {
            sink.push(eval_line(&format!("rcmp3|{}|{}|{}", w[0].1, w[2].1, w[4].1)));
            sink.push(eval_line(&format!("rcmp3|{}|{}|{}", w[4].1, w[0].0, w[2].1)));
            sink.push(eval_line(&format!("rcmp3|{}|{}|{}", w[2].1, w[4].1, w[0].1)));
        }
    }
    sink.notes.push(format!("{} structured pairs of long ranges (8..300 segments, long shared prefixes) and triples of them", derived.len()));
    let r3 = all_ranges(3);
    for a in &r3 {
        for b in &r3 {
            sink.push(eval_line(&format!("rbin|{}|{}", a, b)));
        }
    }
    let r2 = all_ranges(2);
    for a in &r2 {
        for b in &r2 {
            for c in &r2 {
                sink.push(eval_line(&format!("rcmp3|{}|{}|{}", a, b, c)));
            }
        }
    }
    sink.notes.push("exhaustive: all pairs over 3 bound values (cmp, partial_cmp, ==, hash), all 32768 triples over 2 bound values (transitivity)".into());
    if thorough {
        for a in &r3 {
            for b in &r3 {
                for c in &r3 {
                    sink.push(eval_line(&format!("rcmp3|{}|{}|{}", a, b, c)));
                }
            }
        }
        sink.notes.push("exhaustive: all 2097152 triples over 3 bound values".into());
    } else {
        for _ in 0..20_000 {
            let a = &r3[rng.below(128) as usize];
            let b = &r3[rng.below(128) as usize];
            let c = &r3[rng.below(128) as usize];
            sink.push(eval_line(&format!("rcmp3|{}|{}|{}", a, b, c)));
        }
    }
    let n_random = if thorough { 100_000 } else { 3_000 };
    for _ in 0..n_random {
        let k = 4 + rng.below(7) as u32;
        let (a, b, c) = (random_range(&mut rng, k), random_range(&mut rng, k), random_range(&mut rng, k));
        sink.push(eval_line(&format!("rcmp3|{}|{}|{}", a, b, c)));
    }
}

pub fn gen_c11(sink: &mut Sink, thorough: bool, seed: u64) {
    let mut rng = Rng::new(seed);
    for (i, (a, b)) in long_range_pairs(thorough).iter().enumerate() {
        if i % 5 == 0 {
            let (sa, sb) = (if i % 2 == 0 { "+" } else { "~" }, if i % 3 == 0 { "+" } else { "~" });
            sink.push(eval_line(&format!("term2|{}{}|{}{}", sa, a, sb, b)));
        }
    }
    let derived = derived_long_pairs(thorough);
    for (i, (a, b)) in derived.iter().enumerate() {
        let signs: &[(&str, &str)] = if i % 3 == 0 { &[("+", "+"), ("~", "~")] } else if i % 3 == 1 { &[("+", "~")] } else { &[("~", "+"), ("+", "+")] };
        for (sa, sb) in signs {
            sink.push(eval_line(&format!("term2|{}{}|{}{}", sa, a, sb, b)));
        }
    }
    sink.notes.push(format!("{} structured pairs of long ranges (8..300 segments) as term pairs", derived.len()));
    let k = 3;
    let rs = all_ranges(k);
    let mut terms = vec![];
    for r in &rs {
        terms.push(format!("+{}", r));
        terms.push(format!("~{}", r));
    }
    for a in &terms {
        for b in &terms {
            sink.push(eval_line(&format!("term2|{}|{}", a, b)));
        }
    }
    sink.notes.push("exhaustive: all 256 terms over the 128 canonical ranges with 3 bound values (incl. any = ~-, empty = +-, +u:u, ~u:u), all 65536 ordered pairs".into());
    let n_random = if thorough { 300_000 } else { 3_000 };
    for _ in 0..n_random {
        let k = 4 + rng.below(7) as u32;
        let a = random_range(&mut rng, k);
        let b = random_range(&mut rng, k);
        let sa = if rng.chance(1, 2) { '+' } else { '~' };
        let sb = if rng.chance(1, 2) { '+' } else { '~' };
        sink.push(eval_line(&format!("term2|{}{}|{}{}", sa, a, sb, b)));
    }
}

/-
Helpers for `OwnInvariant.lean`, part 8: the run-level invariant (semantic bundle with the obligations
of the package in flight waived until the next unit propagation, index completeness, bookkeeping of
`added_dependencies`) and its preservation by `Solver.step`.
-/
import PubgrubProofs.OwnInvariantAux7
import PubgrubProofs.PSInvariant

set_option linter.unusedSectionVars false
set_option linter.unusedVariables false

namespace Pubgrub
open VersionSet

section First
variable {P S V M Pr : Type} [DecidableEq P] [VersionSet S V] [DecidableEq S] [LawfulVersionSet S V]

theorem PartialSolution.relation_empty_notRoot (root : P) (rv : V) :
    (PartialSolution.empty : PartialSolution P S V Pr).relation (Incompat.notRoot root rv : Incompat P S V M) =
      .almostSatisfied root := by
  simp [PartialSolution.relation, Incompat.relation, Incompat.notRoot, Incompat.relationGo,
    PartialSolution.termIntersectionForPackage, PartialSolution.getPA, PartialSolution.empty, SmallMap.get]

/-- the very first unit propagation derives the root package from `notRoot` -/
theorem State.start_unitPropagation (W : World P S V M) (root : P) (rv : V) (debug : Bool)
    {fuel : Nat} {st' : State P S V M Pr}
    (hr : State.unitPropagation fuel (State.init debug root rv : State P S V M Pr) root = .ok (st', none)) :
    Sem W root rv st' noWaive ∧ st'.IndexComplete ∧
      (∀ (p : P) (pa : PackageAssignments S V) (g : Nat) (v : V) (t : Term S),
        st'.ps.getPA p = some pa → pa.inter ≠ .decision g v t) := by
  unfold State.unitPropagation at hr
  cases fuel with
  | zero => simp [State.unitPropagationLoop] at hr
  | succ fuel =>
    unfold State.unitPropagationLoop at hr
    simp only [State.init, List.getLast?_singleton, List.dropLast_singleton, SmallMap.get, if_true,
      List.reverse_cons, List.reverse_nil, List.nil_append] at hr
    unfold State.propagateIncompats at hr
    simp only [SmallMap.containsKey, SmallMap.get, Option.isSome_none, Bool.false_eq_true, if_false,
      storeGet, unwrapOr, List.getElem?_cons_zero] at hr
    rw [PartialSolution.relation_empty_notRoot] at hr
    simp only at hr
    split at hr
    · cases hr
    · rename_i st1 hp
      split at hp
      · cases hp
      rename_i ps hps
      simp only [State.propagateIncompats] at hp
      injection hp with hp; injection hp with hp1 hp2; subst hp1
      have hwf0 : (PartialSolution.empty : PartialSolution P S V Pr).WF' := by
        refine ⟨⟨Nat.le_refl _, Nat.le_refl _, List.nodup_nil, ?_, List.nodup_nil, ?_⟩, ?_⟩
        · intro i p pa h; simp [PartialSolution.empty] at h
        · intro p pr h; simp [PartialSolution.empty] at h
        · intro kv h; simp [PartialSolution.empty] at h
      have hv0 : (PartialSolution.empty : PartialSolution P S V Pr).TermsValid :=
        PartialSolution.termsValid_empty
      have hstore : StoreInv W root rv [(Incompat.notRoot root rv : Incompat P S V M)] := storeInv_init W root rv
      have hw1 := PartialSolution.addDerivation_wf' hwf0 hps
      have hv1 := PartialSolution.addDerivation_termsValid W root rv hstore hv0 hps
      have htop := PartialSolution.termsAt_top hw1.wf (Nat.le_refl _)
      obtain ⟨inc, t, o', hinc, hget, hnew, hsub, _⟩ := PartialSolution.terms_addDerivation_self hwf0 hv0 hps
      simp only [List.getElem?_cons_zero, Option.some.injEq] at hinc
      subst hinc
      have htv := Incompat.get_valid W root rv hstore (id := 0) rfl hget
      have hc : (Incompat.notRoot root rv : Incompat P S V M).SContra ps.terms :=
        ⟨root, t, o', SmallMap.mem_of_get hget, hnew, (Term.disj_negate t).mono (hsub htv)⟩
      have hcache : ∀ id l0, (id, l0) ∈ SmallMap.insert ([] : List (Nat × Nat)) 0 ps.currentDecisionLevel →
          id = 0 ∧ l0 = ps.currentDecisionLevel := by
        intro id l0 hm
        simp only [SmallMap.insert, List.mem_singleton, Prod.mk.injEq] at hm
        exact hm
      have hnodec : ∀ (p : P) (pa : PackageAssignments S V) (g : Nat) (v : V) (t : Term S),
          ps.getPA p = some pa → pa.inter ≠ .decision g v t := by
        intro p pa g v t' e1 e2
        have := PartialSolution.addDerivation_decided hwf0 hps e1 e2
        simp [PartialSolution.getPA, PartialSolution.empty, SmallMap.get] at this
      have hsem : Sem W root rv
          ({ rootPackage := root, rootVersion := rv, incompatibilities := [(root, [0])],
             contradicted := SmallMap.insert [] 0 ps.currentDecisionLevel, mergedDependencies := [], ps := ps,
             store := [Incompat.notRoot root rv],
             buffer := if ([] : List P).contains root = true then [] else [] ++ [root],
             debug := debug } : State P S V M Pr) noWaive := by
        refine ⟨⟨hstore, rfl, rfl, hv1⟩, ⟨hw1, ?_⟩, ?_, ?_, ?_, ?_⟩
        · intro kv hkv
          obtain ⟨e, _⟩ := hcache kv.1 kv.2 hkv
          show kv.1 < 1
          omega
        · intro p pa g v t' e1 e2
          exact absurd e2 (hnodec p pa g v t' e1)
        · intro id l0 hm
          obtain ⟨rfl, rfl⟩ := hcache id l0 hm
          refine ⟨Nat.le_refl _, ?_⟩
          intro inc hinc l l1 l2
          simp only [List.getElem?_cons_zero, Option.some.injEq] at hinc
          subst hinc
          have : l = ps.currentDecisionLevel := Nat.le_antisymm l2 l1
          subst this
          show (Incompat.notRoot root rv : Incompat P S V M).SContra (ps.termsAt _)
          rw [htop]; exact hc
        · refine ⟨rfl, ?_⟩
          intro l l2
          have hl0 : ps.currentDecisionLevel = 0 := PartialSolution.addDerivation_level hps
          have : l = ps.currentDecisionLevel := by
            have : l ≤ ps.currentDecisionLevel := l2
            omega
          subst this
          show (Incompat.notRoot root rv : Incompat P S V M).SContra (ps.termsAt _)
          rw [htop]; exact hc
        · intro p id hid
          unfold State.indexOf at hid
          simp only [SmallMap.get] at hid
          split at hid
          · simp only [Option.getD_some, List.mem_singleton] at hid
            subst hid; show 0 < 1; omega
          · simp at hid
      have hic : State.IndexComplete
          ({ rootPackage := root, rootVersion := rv, incompatibilities := [(root, [0])],
             contradicted := SmallMap.insert [] 0 ps.currentDecisionLevel, mergedDependencies := [], ps := ps,
             store := [Incompat.notRoot root rv],
             buffer := if ([] : List P).contains root = true then [] else [] ++ [root],
             debug := debug } : State P S V M Pr) := by
        intro id inc hinc
        have hlt := (List.getElem?_eq_some_iff.1 hinc).1
        have : id = 0 := by simp at hlt; omega
        subst this
        simp only [List.getElem?_cons_zero, Option.some.injEq] at hinc
        subst hinc
        simp [Incompat.notRoot]
      have hres := State.unitPropagationLoop_sem W root rv _ _ hr
        (Sem.reWaive W root rv hsem (fun _ _ _ hw => hw.elim)) hic
      refine ⟨hres.1, hres.2.1, ?_⟩
      intro p pa g v t' e1 e2
      obtain ⟨pa0, g0, t0, e3, e4⟩ := hres.2.2.dec p pa g v t' e1 e2
      exact hnodec p pa0 g0 v t0 e3 e4
    · rename_i st1 c hp
      split at hp
      · cases hp
      simp only [State.propagateIncompats] at hp
      injection hp with hp; injection hp with hp1 hp2; cases hp2

end First

section Run
variable {P S V M Pr E : Type} [DecidableEq P] [VersionSet S V] [DecidableEq S] [DecidableEq V]
  [LE Pr] [DecidableLE Pr] [LawfulVersionSet S V]

/-- the dependency answer of `(p, v)` has been turned into stored incompatibilities -/
def DepsDone (W : World P S V M) (store : List (Incompat P S V M)) (p : P) (v : V) : Prop :=
  match W.deps p v with
  | .unavailable m => ∃ (id : Nat) (inc : Incompat P S V M), store[id]? = some inc ∧
      inc.kind = .custom p (VersionSet.singleton v) m
  | .available ds => ∀ d ∈ ds, ∃ (id : Nat) (inc : Incompat P S V M), store[id]? = some inc ∧
      inc.kind = .fromDependencyOf p (VersionSet.singleton v) d.1 d.2

theorem DepsDone.mono {W : World P S V M} {store store' : List (Incompat P S V M)} {p : P} {v : V}
    (h : DepsDone W store p v)
    (hpre : ∀ (i : Nat) (x : Incompat P S V M), store[i]? = some x → store'[i]? = some x) :
    DepsDone W store' p v := by
  unfold DepsDone at h ⊢
  cases hd : W.deps p v with
  | unavailable m =>
    rw [hd] at h; simp only at h ⊢
    obtain ⟨id, inc, e1, e2⟩ := h
    exact ⟨id, inc, hpre _ _ e1, e2⟩
  | available ds =>
    rw [hd] at h; simp only at h ⊢
    intro d hdm
    obtain ⟨id, inc, e1, e2⟩ := h d hdm
    exact ⟨id, inc, hpre _ _ e1, e2⟩

/-- the run-level invariant of the soundness proof -/
structure JMain (W : World P S V M) (root : P) (rv : V) (s : SolverState P S V M Pr) : Prop where
  sem : Sem W root rv s.st (fun p _ => s.phase = .cancel ∧ p = s.next)
  ic : s.st.IndexComplete
  offered : ∀ p v, (p, v) ∈ s.added → v ∈ W.versions p
  deps : ∀ p v, (p, v) ∈ s.added → s.phase ≠ .fetching p v → DepsDone W s.st.store p v
  dec : ∀ p pa g v t, s.st.ps.getPA p = some pa → pa.inter = .decision g v t → (p, v) ∈ s.added
  fetch : ∀ p v, s.phase = .fetching p v → (p, v) ∈ s.added

/-- the invariant holds from the first unit propagation on, as long as the run has not ended otherwise
than by a solution -/
def JInv (W : World P S V M) (debug : Bool) (fuel : Nat) (root : P) (rv : V)
    (x : SolverState P S V M Pr × Request P S V M Pr E) : Prop :=
  x = Solver.start debug fuel root rv ∨ (x.1.phase = .finished ∧ ∀ sel, x.2 ≠ .solution sel) ∨
    JMain W root rv x.1

theorem jinv_finish (W : World P S V M) (debug : Bool) (fuel : Nat) (root : P) (rv : V)
    (s : SolverState P S V M Pr) (r : Request P S V M Pr E) (hr : ∀ sel, r ≠ .solution sel) :
    JInv W debug fuel root rv (Solver.finish s r) :=
  Or.inr (Or.inl ⟨rfl, hr⟩)

/-- `JMain` after a change of phase / `next` that leaves the state alone and does not enter `cancel` or
`fetching` -/
theorem JMain.rephase {W : World P S V M} {root : P} {rv : V} {s s' : SolverState P S V M Pr}
    (h : JMain W root rv s) (hst : s'.st = s.st) (hadd : s'.added = s.added)
    (hoc : s.phase ≠ .cancel) (hnf : ∀ p v, s'.phase ≠ .fetching p v)
    (hof : ∀ p v, s.phase ≠ .fetching p v) : JMain W root rv s' := by
  refine ⟨?_, hst ▸ h.ic, hadd ▸ h.offered, ?_, ?_, ?_⟩
  · rw [hst]
    exact Sem.reWaive W root rv h.sem (fun _ _ _ hw => absurd hw.1 hoc)
  · intro p v hm _
    rw [hst]; rw [hadd] at hm
    exact h.deps p v hm (hof p v)
  · intro p pa g v t e1 e2
    rw [hst] at e1; rw [hadd]
    exact h.dec p pa g v t e1 e2
  · intro p v hp; exact absurd hp (hnf p v)

end Run
end Pubgrub

/-
Helpers for `Termination.lean`, part 5: the invariant `AccInv` — the accumulated term of a derivation
contains every choice of the package's previous term that the cause's term for the package excludes
(it IS the previous term intersected with the negation of that term) — and its preservation by the
operations of the partial solution.  It is what makes the resolvent of conflict resolution satisfied by
strictly earlier assignments (F1 of the plan).
-/
import PubgrubProofs.TerminationAux4

set_option linter.unusedSectionVars false
set_option linter.unusedVariables false

namespace Pubgrub
open VersionSet

section
variable {P S V M Pr : Type} [DecidableEq P] [VersionSet S V] [DecidableEq S] [LawfulVersionSet S V]

/-- what one derivation of package `p` (entry `pa`) satisfies -/
def AccAt (store : List (Incompat P S V M)) (p : P) (pa : PackageAssignments S V) (dd : DatedDerivation S) :
    Prop :=
  ∃ inc c, store[dd.cause]? = some inc ∧ inc.get p = some c ∧
    ∀ x : Option V, (∀ t, pa.termBefore dd.globalIndex = some t → t.eval x = true) → c.eval x = false →
      dd.accumulated.eval x = true

/-- AccInv -/
def State.AccInv (st : State P S V M Pr) : Prop :=
  ∀ p pa, (p, pa) ∈ st.ps.assignments → ∀ dd ∈ pa.dated, AccAt st.store p pa dd

theorem AccAt.store_mono {store store' : List (Incompat P S V M)} {p : P} {pa : PackageAssignments S V}
    {dd : DatedDerivation S} (h : AccAt store p pa dd)
    (hs : ∀ (i : Nat) (inc : Incompat P S V M), store[i]? = some inc → store'[i]? = some inc) :
    AccAt store' p pa dd := by
  obtain ⟨inc, c, h1, h2, h3⟩ := h
  exact ⟨inc, c, hs _ _ h1, h2, h3⟩

theorem AccAt.congr {store : List (Incompat P S V M)} {p : P} {pa pa' : PackageAssignments S V}
    {dd : DatedDerivation S} (h : AccAt store p pa dd)
    (e : pa'.termBefore dd.globalIndex = pa.termBefore dd.globalIndex) : AccAt store p pa' dd := by
  obtain ⟨inc, c, h1, h2, h3⟩ := h
  refine ⟨inc, c, h1, h2, ?_⟩
  intro x hx
  rw [e] at hx
  exact h3 x hx

theorem State.AccInv.storeExt {st st' : State P S V M Pr} (h : st.AccInv)
    (e1 : st'.ps.assignments = st.ps.assignments)
    (e2 : ∀ (i : Nat) (inc : Incompat P S V M), st.store[i]? = some inc → st'.store[i]? = some inc) :
    st'.AccInv := by
  intro p pa hm dd hdd
  rw [e1] at hm
  exact (h p pa hm dd hdd).store_mono e2

/-- a derivation keeps AccInv -/
theorem State.AccInv.derive {W : World P S V M} {root : P} {rv : V} {st : State P S V M Pr} (h : st.AccInv)
    (hs : SInv W root rv st) (hw : st.ps.WF')
    {q : P} {id : Nat} {ps : PartialSolution P S V Pr} (hps : st.ps.addDerivation q id st.store = .ok ps)
    {st' : State P S V M Pr} (e1 : st'.ps = ps) (e2 : st'.store = st.store) : st'.AccInv := by
  obtain ⟨inc, t, t', pa', hinc, ht, hnone, hstep⟩ :=
    PartialSolution.addDerivation_step W root rv hs.store hw.wf hps
  have htv : t.Valid := Incompat.get_valid W root rv hs.store hinc ht
  intro k ka hkv dd hdd
  rw [e1] at hkv
  rw [e2]
  rcases hstep.mem k ka hkv with hold | ⟨rfl, rfl⟩
  · exact h k ka hold dd hdd
  · rcases hstep.mem_dated hdd with ⟨pa, hpa, hdd'⟩ | rfl
    · have hm := SmallMap.mem_of_get hpa
      obtain ⟨i, _, hwf, _⟩ := hw.entry_of_mem hm
      exact (h k pa hm dd hdd').congr
        (hstep.before pa _ hpa (Nat.le_of_lt (hwf.indices_lt dd hdd')))
    · refine ⟨inc, t, hinc, ht, ?_⟩
      simp only
      intro x hx hcx
      cases ho : st.ps.termIntersectionForPackage k with
      | none =>
        have : st.ps.getPA k = none := by
          simp only [PartialSolution.termIntersectionForPackage, Option.map_eq_none_iff] at ho; exact ho
        rw [hnone this, Term.eval_negate, hcx]; rfl
      | some o =>
        obtain ⟨inc2, t2, hinc2, ht2, hnew⟩ := PartialSolution.addDerivation_term_self hw.wf hps ho
        rw [hinc] at hinc2; injection hinc2 with hinc2; subst hinc2
        rw [ht] at ht2; injection ht2 with ht2; subst ht2
        have : ps.termIntersectionForPackage k = some t' := by
          simp only [PartialSolution.termIntersectionForPackage, hstep.getPA_self, Option.map_some, hstep.inter,
            AssignInter.term]
        rw [hnew] at this; injection this with this
        rw [← this]
        simp only [PartialSolution.termIntersectionForPackage, Option.map_eq_some_iff] at ho
        obtain ⟨pa, hpa, rfl⟩ := ho
        have hm := SmallMap.mem_of_get hpa
        obtain ⟨i, _, hwf, _⟩ := hw.entry_of_mem hm
        have hb := hstep.before pa st.ps.nextGlobalIndex hpa (Nat.le_refl _)
        rw [PackageAssignments.termBefore_current hwf (Nat.le_refl _)] at hb
        have hox := hx _ hb
        rw [Term.eval_intersection _ _ (hs.ps _ hm).inter (Term.valid_negate _ htv), Term.eval_negate, hox, hcx]
        rfl

/-- a decision keeps AccInv -/
theorem State.AccInv.decide {st : State P S V M Pr} (h : st.AccInv) (hw : st.ps.WF)
    {ps' : PartialSolution P S V Pr} {debug : Bool} {p : P} {v : V}
    (hr : PartialSolution.addDecision debug st.ps p v = .ok ps') (hw' : ps'.WF)
    {t : Term S} {pa : PackageAssignments S V} (hpa : st.ps.getPA p = some pa)
    (ht : pa.inter = .derivations t)
    {st' : State P S V M Pr} (e1 : st'.ps = ps') (e2 : st'.store = st.store) : st'.AccInv := by
  have hstep := PartialSolution.addDecision_step hw hr hw' hpa ht
  have hm := SmallMap.mem_of_get hpa
  obtain ⟨i, hi⟩ := List.getElem?_of_mem hm
  have hwf := hw.entries i p pa hi
  intro k ka hkv dd hdd
  rw [e1] at hkv
  rw [e2]
  rcases hstep.mem k ka hkv with hold | ⟨rfl, rfl⟩
  · exact h k ka hold dd hdd
  · have hdd' : dd ∈ pa.dated := hdd
    exact (h k pa hm dd hdd').congr
      (PackageAssignments.termBefore_decide ht _ _ v (Nat.le_of_lt (hwf.indices_lt dd hdd')))

/-- the term before one of the derivations a backtrack keeps is not changed by the cut -/
theorem PackageAssignments.cut_termBefore {pa : PackageAssignments S V} {dl0 n i : Nat} (hw : pa.WFAt dl0 n i)
    (dl : Nat) (last : DatedDerivation S) {dd : DatedDerivation S}
    (hdd : dd ∈ PartialSolution.popWhileAbove dl pa.dated) :
    (pa.cut dl last).termBefore dd.globalIndex = pa.termBefore dd.globalIndex := by
  obtain ⟨suf, hsuf, _⟩ := PartialSolution.popWhileAbove_split dl pa.dated
  have hddm : dd ∈ pa.dated := (PartialSolution.popWhileAbove_sublist dl pa.dated).subset hdd
  have hfilter : (PartialSolution.popWhileAbove dl pa.dated).filter
        (fun d => Decidable.decide (d.globalIndex < dd.globalIndex)) =
      pa.dated.filter (fun d => Decidable.decide (d.globalIndex < dd.globalIndex)) := by
    conv => rhs; rw [hsuf]
    rw [List.filter_append]
    have : suf.filter (fun d => Decidable.decide (d.globalIndex < dd.globalIndex)) = [] := by
      rw [List.filter_eq_nil_iff]
      intro d hd
      simp only [decide_eq_true_eq]
      have hidx := hw.indices
      rw [hsuf, List.map_append, List.pairwise_append] at hidx
      have := hidx.2.2 dd.globalIndex (List.mem_map.2 ⟨dd, hdd, rfl⟩) d.globalIndex (List.mem_map.2 ⟨d, hd, rfl⟩)
      omega
    rw [this, List.append_nil]
  unfold PackageAssignments.termBefore PackageAssignments.cut
  simp only
  rw [hfilter]
  split
  · rename_i gd v t' hinter
    rcases hw.inter_cases with ⟨g', v', h1, _, _, h4, _⟩ | ⟨t'', l, f', h1, _⟩
    · rw [hinter] at h1; injection h1 with e1 _ _; subst e1
      have := h4 dd hddm
      rw [if_neg (by omega)]
    · rw [hinter] at h1; cases h1
  · rfl

/-- a backtrack keeps AccInv -/
theorem State.AccInv.backtrack {st : State P S V M Pr} (h : st.AccInv) (hw : st.ps.WF')
    {ps' : PartialSolution P S V Pr} {dl : Nat} (hbt : BtStep st.ps ps' dl)
    {st' : State P S V M Pr} (e1 : st'.ps = ps')
    (e2 : ∀ (i : Nat) (inc : Incompat P S V M), st.store[i]? = some inc → st'.store[i]? = some inc) :
    st'.AccInv := by
  intro k ka hkv dd hdd
  rw [e1] at hkv
  obtain ⟨qa, hm, hg⟩ := hbt.mem hkv
  obtain ⟨i, _, hwf, hwx⟩ := hw.entry_of_mem hm
  rcases (PartialSolution.btG_eq_some hwx hg).2 with ⟨_, e⟩ | ⟨_, _, last, hl, e⟩
  · simp only at e; subst e
    exact (h k ka hm dd hdd).store_mono e2
  · simp only at e; subst e
    have hdd' : dd ∈ PartialSolution.popWhileAbove dl qa.dated := hdd
    have hddm : dd ∈ qa.dated := (PartialSolution.popWhileAbove_sublist dl qa.dated).subset hdd'
    exact ((h k qa hm dd hddm).store_mono e2).congr (PackageAssignments.cut_termBefore hwf dl last hdd')

end
end Pubgrub

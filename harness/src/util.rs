//! Shared helpers: PRNG, machine text format of ranges, raw construction of ranges.
use pubgrub::Range;
use std::ops::Bound::{self, Excluded, Included, Unbounded};

/// splitmix64: every random choice of the harness derives from one of these.
#[derive(Clone)]
pub struct Rng(pub u64);
impl Rng {
    pub fn new(seed: u64) -> Self {
        Rng(seed.wrapping_mul(0x9E3779B97F4A7C15) ^ 0xD1B54A32D192ED03)
    }
    pub fn next(&mut self) -> u64 {
        self.0 = self.0.wrapping_add(0x9E3779B97F4A7C15);
        let mut z = self.0;
        z = (z ^ (z >> 30)).wrapping_mul(0xBF58476D1CE4E5B9);
        z = (z ^ (z >> 27)).wrapping_mul(0x94D049BB133111EB);
        z ^ (z >> 31)
    }
    pub fn below(&mut self, n: u64) -> u64 {
        if n == 0 {
            0
        } else {
            self.next() % n
        }
    }
    pub fn chance(&mut self, num: u64, den: u64) -> bool {
        self.below(den) < num
    }
}

pub type Seg = (Bound<u32>, Bound<u32>);

pub fn fmt_bound(b: &Bound<u32>) -> String {
    match b {
        Included(v) => format!("i{}", v),
        Excluded(v) => format!("e{}", v),
        Unbounded => "u".to_string(),
    }
}

pub fn fmt_segs(segs: &[Seg]) -> String {
    if segs.is_empty() {
        return "-".to_string();
    }
    segs.iter()
        .map(|(s, e)| format!("{}:{}", fmt_bound(s), fmt_bound(e)))
        .collect::<Vec<_>>()
        .join(" ")
}

pub fn segs_of(r: &Range<u32>) -> Vec<Seg> {
    r.iter().map(|(s, e)| (s.clone(), e.clone())).collect()
}

/// machine text of a range: `-` or `i1:e3 i5:u`
pub fn fmt_range(r: &Range<u32>) -> String {
    fmt_segs(&segs_of(r))
}

fn json_bound(b: &Bound<u32>) -> String {
    match b {
        Included(v) => format!("{{\"Included\":{}}}", v),
        Excluded(v) => format!("{{\"Excluded\":{}}}", v),
        Unbounded => "\"Unbounded\"".to_string(),
    }
}

/// Build a range with exactly these segments, without going through any operation under test
/// (the serde `Deserialize` impl stores the segments as given).
pub fn range_from_segs(segs: &[Seg]) -> Range<u32> {
    let body: Vec<String> = segs
        .iter()
        .map(|(s, e)| format!("[{},{}]", json_bound(s), json_bound(e)))
        .collect();
    let text = format!("[{}]", body.join(","));
    serde_json::from_str(&text).expect("raw range")
}

/// The canonical range over the bound values `1,3,…,2k-1` whose points on the doubled grid
/// `0..=2k` are exactly the set bits of `mask` (bit g = grid point g).
pub fn segs_of_mask(mask: u64, k: u32) -> Vec<Seg> {
    let top = 2 * k;
    let mut segs = Vec::new();
    let mut g = 0u32;
    while g <= top {
        if mask >> g & 1 == 1 {
            let a = g;
            let mut b = g;
            while b < top && mask >> (b + 1) & 1 == 1 {
                b += 1;
            }
            let start = if a == 0 {
                Unbounded
            } else if a % 2 == 1 {
                Included(a)
            } else {
                Excluded(a - 1)
            };
            let end = if b == top {
                Unbounded
            } else if b % 2 == 1 {
                Included(b)
            } else {
                Excluded(b + 1)
            };
            segs.push((start, end));
            g = b + 1;
        } else {
            g += 1;
        }
    }
    segs
}

/// reference membership of a grid point in a segment list (independent of the crate)
pub fn seg_contains(seg: &Seg, v: u32) -> bool {
    let lo = match seg.0 {
        Included(s) => v >= s,
        Excluded(s) => v > s,
        Unbounded => true,
    };
    let hi = match seg.1 {
        Included(e) => v <= e,
        Excluded(e) => v < e,
        Unbounded => true,
    };
    lo && hi
}
pub fn segs_contain(segs: &[Seg], v: u32) -> bool {
    segs.iter().any(|s| seg_contains(s, v))
}

/// reference well-formedness: valid, strictly increasing, non-touching
pub fn segs_wf(segs: &[Seg]) -> bool {
    for (s, e) in segs {
        let ok = match (s, e) {
            (Included(a), Included(b)) => a <= b,
            (Included(a), Excluded(b)) | (Excluded(a), Included(b)) | (Excluded(a), Excluded(b)) => a < b,
            _ => true,
        };
        if !ok {
            return false;
        }
    }
    for w in segs.windows(2) {
        let ok = match (&w[0].1, &w[1].0) {
            (Unbounded, _) | (_, Unbounded) => false,
            (Excluded(a), Excluded(b)) => a <= b,
            (Included(a), Included(b)) | (Included(a), Excluded(b)) | (Excluded(a), Included(b)) => a < b,
        };
        if !ok {
            return false;
        }
    }
    true
}

pub fn bit(b: bool) -> char {
    if b {
        '1'
    } else {
        '0'
    }
}

pub fn parse_bound(s: &str) -> Bound<u32> {
    match s.as_bytes()[0] {
        b'u' => Unbounded,
        b'i' => Included(s[1..].parse().unwrap()),
        b'e' => Excluded(s[1..].parse().unwrap()),
        _ => panic!("bad bound {}", s),
    }
}
pub fn parse_segs(s: &str) -> Vec<Seg> {
    let s = s.trim();
    if s == "-" || s.is_empty() {
        return vec![];
    }
    s.split(' ')
        .map(|p| {
            let (a, b) = p.split_once(':').expect("seg");
            (parse_bound(a), parse_bound(b))
        })
        .collect()
}
pub fn parse_range(s: &str) -> Range<u32> {
    range_from_segs(&parse_segs(s))
}
pub fn parse_versions(s: &str) -> Vec<u32> {
    let s = s.trim();
    if s.is_empty() {
        return vec![];
    }
    s.split(',').map(|x| x.parse().unwrap()).collect()
}
pub fn fmt_versions(vs: &[u32]) -> String {
    vs.iter().map(|v| v.to_string()).collect::<Vec<_>>().join(",")
}
/// the doubled grid covering every bound of the given segment lists
pub fn grid_for(all: &[&[Seg]]) -> Vec<u32> {
    let mut top = 0u32;
    for segs in all {
        for (s, e) in segs.iter() {
            for b in [s, e] {
                if let Included(v) | Excluded(v) = b {
                    top = top.max(*v);
                }
            }
        }
    }
    (0..=top + 1).collect()
}

/// `VERIF_SCALE_PCT` (default 100) scales the number of RANDOM cases of a tier; the exhaustive scopes are
/// not affected.  Used by the check script's drift escalation (thorough scopes, a quarter of the random cases).
pub fn scaled(n: usize) -> usize {
    let pct = std::env::var("VERIF_SCALE_PCT").ok().and_then(|s| s.parse::<usize>().ok()).unwrap_or(100);
    (n * pct / 100).max(1)
}

/// `VERIF_THRESHOLDS=16,128,…` : integer constants that are new in a changed source file (tools/fingerprint.py);
/// the generators add inputs on both sides of each (capped at `cap`)
pub fn thresholds(cap: usize) -> Vec<usize> {
    std::env::var("VERIF_THRESHOLDS")
        .ok()
        .map(|s| s.split(',').filter_map(|x| x.trim().parse::<usize>().ok()).filter(|t| *t >= 3 && *t <= cap).collect())
        .unwrap_or_default()
}
/// t-1, t, t+1 for every threshold
pub fn around_thresholds(cap: usize) -> Vec<usize> {
    let mut v = vec![];
    for t in thresholds(cap) {
        v.extend([t - 1, t, t + 1]);
    }
    v.sort();
    v.dedup();
    v
}

/// membership of every grid point 0..=top in a segment list, in one pass per segment (the reference oracle's
/// `segs_contain` for all points at once; segments need not be sorted or disjoint)
pub fn membership(segs: &[Seg], top: u32) -> Vec<bool> {
    let mut m = vec![false; top as usize + 1];
    for (s, e) in segs {
        let lo: u64 = match s {
            Included(x) => *x as u64,
            Excluded(x) => *x as u64 + 1,
            Unbounded => 0,
        };
        let hi: i64 = match e {
            Included(x) => *x as i64,
            Excluded(x) => *x as i64 - 1,
            Unbounded => top as i64,
        };
        let hi = hi.min(top as i64);
        let mut g = lo as i64;
        while g <= hi {
            m[g as usize] = true;
            g += 1;
        }
    }
    m
}

/// run `f` with the `log` sink switched off (the scale / deep / soak runs: formatting every log line of a run
/// over tens of thousands of packages is quadratic)
pub fn quiet<T>(f: impl FnOnce() -> T) -> T {
    let prev = log::max_level();
    log::set_max_level(log::LevelFilter::Off);
    let r = f();
    log::set_max_level(prev);
    r
}

/-
Helpers for `Termination.lean`, part 11: the unit propagation loop stays within its fuel (F2 of the
plan: the potential `2·rank + |buffer|` decreases with every iteration, and conflict resolution needs
at most `nextGlobalIndex + 1` units), keeps the invariants and does not increase the measure.
-/
import PubgrubProofs.TerminationAux10

set_option linter.unusedSectionVars false
set_option linter.unusedVariables false

namespace Pubgrub
open VersionSet

section
variable {P S V M Pr : Type} [DecidableEq P] [VersionSet S V] [DecidableEq S] [DecidableEq V]
  [LawfulVersionSet S V]
variable {W : World P S V M} {root : P} {rv : V} (fw : FiniteWorld W root rv)

/-- the derivation that follows a conflict -/
theorem MInv.afterConflict (ce : CanonEmpty S V) {st : State P S V M Pr} (hm : MInv fw st) {pkg : P} {rc : Nat}
    (hac : AfterConflict st pkg rc) (hacne : AfterConflictNE st pkg rc)
    (hmeet : ∃ inc c, st.store[rc]? = some inc ∧ inc.get pkg = some c ∧
      ∀ t, st.ps.terms pkg = some t → ∃ x : Option V, t.eval x = true ∧ c.eval x = true)
    {ps : PartialSolution P S V Pr} (hps : st.ps.addDerivation pkg rc st.store = .ok ps)
    (buffer : List P) (lvl : Nat) :
    MInv fw ({ st with buffer := buffer, ps := ps, contradicted := SmallMap.insert st.contradicted rc lvl } :
      State P S V M Pr) ∧
    (ps.currentDecisionLevel = st.ps.currentDecisionLevel ∧
      (∀ i, i < st.ps.currentDecisionLevel → comp fw ps i = comp fw st.ps i) ∧
      comp fw ps st.ps.currentDecisionLevel < comp fw st.ps st.ps.currentDecisionLevel) ∧
    ps.nextGlobalIndex = st.ps.nextGlobalIndex + 1 := by
  have hs := hm.s
  have hp := hm.p
  have ht := hm.t
  have hw := hp.wf
  obtain ⟨inc, hinc, hget, hoth⟩ := hac.stored
  obtain ⟨inc', t', hinc', hget', hnimp⟩ := hacne
  rw [hinc] at hinc'; injection hinc' with hinc'; subst hinc'
  obtain ⟨inc'', c, hinc'', hgetc, hmt⟩ := hmeet
  rw [hinc] at hinc''; injection hinc'' with hinc''; subst hinc''
  rw [hget'] at hgetc; injection hgetc with hgetc; subst hgetc
  have gi := hs.store rc inc hinc
  have hid : rc < st.store.length := (List.getElem?_eq_some_iff.1 hinc).1
  have htv : t'.Valid := Incompat.get_valid W root rv hs.store hinc hget'
  obtain ⟨inc2, t0, t2, pa', hinc2, ht0, hnone, hstep⟩ :=
    PartialSolution.addDerivation_step W root rv hs.store hw.wf hps
  rw [hinc] at hinc2; injection hinc2 with hinc2; subst hinc2
  refine ⟨⟨⟨hs.store, hs.root, hs.rv, PartialSolution.addDerivation_termsValid W root rv hs.store hs.ps hps⟩,
    hp.derive hid hps _ _, ?_, State.derivation_ne ce W root rv hs hinc hget' hnimp hm.ne hps,
    hm.k.derive fw hs hw.wf hps rfl rfl, hm.acc.derive hs hw hps rfl rfl⟩, ?_, hstep.next⟩
  · refine tinv_deriv W root rv hs hp ht hstep hinc ht0 hnone hoth ?_ rfl rfl
    intro h0
    have := hac.level
    omega
  · exact comp_addDerivation fw hw hs.ps hps hinc hget' htv (hm.k.get fw hinc hget')
      (fun o ho => hm.k.terms fw ho) hmt

/-- the package on top of the buffer has a trigger among its incompatibilities -/
def Trig (st : State P S V M Pr) : Prop :=
  ∃ cur ids id, st.buffer.getLast? = some cur ∧ SmallMap.get st.incompatibilities cur = some ids ∧ id ∈ ids ∧
    Trigger st cur id

namespace State

/-- F2: the unit propagation loop -/
theorem unitPropagationLoop_term (ce : CanonEmpty S V) (C : Nat) :
    ∀ (fuel : Nat) (st : State P S V M Pr), MInv fw st →
    st.ps.nextGlobalIndex + rank fw st.ps ≤ C →
    2 * rank fw st.ps + st.buffer.length + C + 2 ≤ fuel →
    Fueled (unitPropagationLoop fuel st) (fun x => x.2 = none → MInv fw x.1 ∧ Desc fw st x.1 ∧
      (Trig st → rank fw x.1.ps < rank fw st.ps)) := by
  intro fuel
  induction fuel with
  | zero => intro st _ _ hf; omega
  | succ fuel ih =>
    intro st hm hC hf
    unfold unitPropagationLoop
    split
    · rename_i hnone
      refine Fueled.ok (fun _ => ⟨hm, Desc.refl fw st, ?_⟩)
      intro ⟨cur, ids, id, h1, _⟩
      rw [hnone] at h1; cases h1
    rename_i current hcur
    dsimp only
    split
    · exact Fueled.panic
    rename_i ids hids
    have hblen : st.buffer.dropLast.length + 1 = st.buffer.length := by
      obtain ⟨ys, hys⟩ := List.getLast?_eq_some_iff.1 hcur
      rw [hys]; simp
    have hm0 : MInv fw ({ st with buffer := st.buffer.dropLast } : State P S V M Pr) :=
      hm.congr fw rfl rfl rfl rfl hm.p.cache
    split
    · rename_i e he
      exact Fueled.error_of_eq he (propagateIncompats_nooof _ _)
    · rename_i st1 he
      obtain ⟨hm1, hd1, _, htrig⟩ := propagateIncompats_term fw ce ids.reverse _ hm0 he
      have hd : Desc fw st st1 := ⟨hd1.rk, hd1.idx, by
        have := hd1.pot
        simp only at this
        omega⟩
      have hpot := hd1.pot
      simp only at hpot
      refine (ih st1 hm1 (Nat.le_trans hd1.idx hC) (by omega)).mono ?_
      intro x _ hx hn
      obtain ⟨h1, h2, _⟩ := hx hn
      refine ⟨h1, hd.trans fw h2, ?_⟩
      intro ⟨cur, ids', id, k1, k2, k3, k4⟩
      rw [hcur] at k1; injection k1 with k1; subst k1
      rw [hids] at k2; injection k2 with k2; subst k2
      have := htrig current id k4 (List.mem_reverse.2 k3) rfl
      exact Nat.lt_of_le_of_lt h2.rk this
    · rename_i st1 cid he
      obtain ⟨hm1, hd1, hsat, _⟩ := propagateIncompats_term fw ce ids.reverse _ hm0 he
      have hpot := hd1.pot
      have hidx := hd1.idx
      simp only at hpot hidx
      obtain ⟨inc, hinc, hrel⟩ := hsat cid rfl
      have hs1 := hm1.s
      have hp1 := hm1.p
      have ht1 := hm1.t
      have hsat1 : st1.ps.Satisfies inc := PartialSolution.satisfies_of_relation W root rv hs1 hinc hrel
      have hex : ∃ inc, st1.store[cid]? = some inc ∧ st1.ps.Satisfies inc := ⟨inc, hinc, hsat1⟩
      have hcr := conflictResolution_term fw ce fuel st1 cid false st1.ps.nextGlobalIndex inc hm1 hinc hsat1
        (PartialSolution.satBefore_of_satisfies hp1.wf hsat1) (by omega)
      have hsafe := conflictResolution_safe W root rv fuel st1 cid false hs1 hp1 ht1 hex
      have hcrne := conflictResolution_ne W root rv fuel st1 cid false hs1 hp1 ht1 hex hm1.ne
      split
      · rename_i e he2
        exact Fueled.error_of_eq he2 hcr.nooof
      · exact Fueled.ok (fun h => by cases h)
      · rename_i st2 pkg rc he2
        obtain ⟨hs2, _⟩ := conflictResolution_inv W root rv _ _ _ _ he2 hs1
        obtain ⟨hp2, _⟩ := conflictResolution_pinv _ _ _ _ he2 hp1
        obtain ⟨ht2, hac⟩ := hsafe.of_ok he2 pkg rc rfl
        obtain ⟨hne2, hacne⟩ := hcrne.of_ok he2 pkg rc rfl
        have hpost := hcr.of_ok he2 pkg rc rfl
        simp only at hpost
        have hm2 : MInv fw st2 := ⟨hs2, hp2, ht2, hne2, hpost.k, hpost.acc⟩
        obtain ⟨inc2, hinc2, hget2, _⟩ := hac.stored
        obtain ⟨ps', hps⟩ := PartialSolution.addDerivation_ok hinc2 hget2 hac.undecided
        rw [hps]
        dsimp only
        obtain ⟨hm3, ⟨hlev, hlow, hcomp⟩, hnext⟩ := hm2.afterConflict fw ce hac hacne hpost.meet hps
          [pkg] ps'.currentDecisionLevel
        obtain ⟨prev, hbt, hprev⟩ := hpost.bt
        have hrank : rank fw ps' < rank fw st1.ps :=
          rank_backtrack_derive fw hp1.wf hbt hprev (by have := hm1.level_lt fw; omega) hlev hlow hcomp
        have hngi : ps'.nextGlobalIndex = st1.ps.nextGlobalIndex + 1 := by rw [hnext, hbt.next]
        have hd3 : Desc fw st ({ st2 with
            buffer := [pkg], ps := ps'
            contradicted := SmallMap.insert st2.contradicted rc ps'.currentDecisionLevel } :
            State P S V M Pr) := by
          refine ⟨?_, ?_, ?_⟩
          · show rank fw ps' ≤ _
            have := hd1.rk; simp only at this; omega
          · show ps'.nextGlobalIndex + rank fw ps' ≤ _
            omega
          · show 2 * rank fw ps' + [pkg].length ≤ _
            simp only [List.length_cons, List.length_nil]
            omega
        refine (ih _ hm3 ?_ ?_).mono ?_
        · show ps'.nextGlobalIndex + rank fw ps' ≤ C
          omega
        · show 2 * rank fw ps' + [pkg].length + C + 2 ≤ fuel
          simp only [List.length_cons, List.length_nil]
          omega
        · intro x _ hx hn
          obtain ⟨h1, h2, _⟩ := hx hn
          refine ⟨h1, hd3.trans fw h2, ?_⟩
          intro _
          have h3 := h2.rk
          have h4 := hd1.rk
          simp only at h3 h4
          omega

end State
end
end Pubgrub

/-
TARGET FILE: PubgrubProofs/ContainersLaws.lean
The exact models of the crate's two private containers (PubgrubModel/Containers.lean: `SmallVecX` =
`SmallVec<T>`, the storage of a `Range`'s segments; `SmallMapX` = `SmallMap<K, V>`, the storage of an
incompatibility's terms; variants `Empty | One | Two | Flexible`) refine the abstractions the rest of the
model works with: `Range V` is the list `SmallVecX.toList`, `SmallMap K T` (PubgrubModel/SmallMap.lean,
an association list) is `SmallMapX.toAssoc`.  Every operation commutes with the abstraction; `==` and
`Hash` of a `SmallVec` depend on `toList` only (C16: equal ranges hash equally, whatever the history of
pushes and pops that built them); the result of `merge` as a map does not depend on the order in which
the second map is enumerated (it is a hash map).
Replace every `sorry`; helpers above; keep the target statements.  If a statement is false as given,
give the counterexample (`#eval`), prove the closest true statement as `<name>_partial`, and report.
-/
import PubgrubModel.Containers
import PubgrubProofs.Defs

namespace Pubgrub

/-! ### helper lemmas on the association-list model (prefixed `cl_`) -/
namespace SmallMap
variable {K T : Type} [DecidableEq K]

theorem cl_get_insert (d : SmallMap K T) (key k : K) (v : T) :
    get (insert d key v) k = if k = key then some v else get d k := by
  induction d with
  | nil => simp [insert, get]
  | cons p d ih =>
    obtain ⟨k0, v0⟩ := p
    by_cases h1 : key = k0
    · subst h1
      by_cases h2 : k = key <;> simp [insert, get, h2]
    · by_cases h2 : k = k0
      · subst h2
        have : ¬ k = key := fun h => h1 h.symm
        simp [insert, get, h1, this]
      · simp [insert, get, h1, h2, ih]

theorem cl_get_none_of_not_mem (d : SmallMap K T) (k : K) (h : k ∉ d.map Prod.fst) : get d k = none := by
  induction d with
  | nil => simp [get]
  | cons p d ih =>
    obtain ⟨k0, v0⟩ := p
    simp only [List.map_cons, List.mem_cons, not_or] at h
    simp [get, h.1, ih h.2]

theorem cl_keys_remove_sublist (d : SmallMap K T) (key : K) :
    ((remove d key).map Prod.fst).Sublist (d.map Prod.fst) := by
  induction d with
  | nil => simp [remove]
  | cons p d ih =>
    obtain ⟨k0, v0⟩ := p
    by_cases h1 : key = k0
    · simp [remove, h1]
    · simp [remove, h1, ih]

theorem cl_nodup_remove (d : SmallMap K T) (h : (d.map Prod.fst).Nodup) (key : K) :
    ((remove d key).map Prod.fst).Nodup :=
  List.Nodup.sublist (cl_keys_remove_sublist d key) h

theorem cl_mem_keys_insert (d : SmallMap K T) (key : K) (v : T) (k : K) :
    k ∈ (insert d key v).map Prod.fst ↔ k = key ∨ k ∈ d.map Prod.fst := by
  induction d with
  | nil => simp [insert]
  | cons p d ih =>
    obtain ⟨k0, v0⟩ := p
    by_cases h1 : key = k0
    · subst h1
      simp [insert]
    · simp only [insert, h1, if_false, List.map_cons, List.mem_cons, ih]
      constructor
      · rintro (h | h | h) <;> simp [h]
      · rintro (h | h | h) <;> simp [h]

theorem cl_nodup_insert (d : SmallMap K T) (h : (d.map Prod.fst).Nodup) (key : K) (v : T) :
    ((insert d key v).map Prod.fst).Nodup := by
  induction d with
  | nil => simp [insert]
  | cons p d ih =>
    obtain ⟨k0, v0⟩ := p
    simp only [List.map_cons, List.nodup_cons] at h
    by_cases h1 : key = k0
    · subst h1
      simpa [insert] using h
    · simp only [insert, h1, if_false, List.map_cons, List.nodup_cons]
      refine ⟨?_, ih h.2⟩
      rw [cl_mem_keys_insert]
      rintro (h3 | h3)
      · exact h1 h3.symm
      · exact h.1 h3

theorem cl_get_remove (d : SmallMap K T) (h : (d.map Prod.fst).Nodup) (key k : K) :
    get (remove d key) k = if k = key then none else get d k := by
  induction d with
  | nil => simp [remove, get]
  | cons p d ih =>
    obtain ⟨k0, v0⟩ := p
    simp only [List.map_cons, List.nodup_cons] at h
    by_cases h1 : key = k0
    · subst h1
      by_cases h2 : k = key
      · subst h2
        simp [remove, cl_get_none_of_not_mem d k h.1]
      · simp [remove, get, h2]
    · by_cases h2 : k = k0
      · subst h2
        have : ¬ k = key := fun h => h1 h.symm
        simp [remove, get, h1, this]
      · simp [remove, get, h1, h2, ih h.2]

theorem cl_get_eq_some_iff_mem (d : SmallMap K T) (h : (d.map Prod.fst).Nodup) (k : K) (v : T) :
    get d k = some v ↔ (k, v) ∈ d := by
  induction d with
  | nil => simp [get]
  | cons p d ih =>
    obtain ⟨k0, v0⟩ := p
    simp only [List.map_cons, List.nodup_cons] at h
    by_cases h2 : k = k0
    · subst h2
      have hn : (k, v) ∉ d := fun hm => h.1 (List.mem_map.mpr ⟨(k, v), hm, rfl⟩)
      simp [get, hn, eq_comm]
    · simp [get, h2, ih h.2]

theorem cl_get_perm (d d' : SmallMap K T) (hp : d.Perm d') (h : (d.map Prod.fst).Nodup) (k : K) :
    get d k = get d' k := by
  have h' : (d'.map Prod.fst).Nodup := (hp.map Prod.fst).nodup_iff.mp h
  apply Option.ext
  intro v
  rw [cl_get_eq_some_iff_mem d h, cl_get_eq_some_iff_mem d' h', hp.mem_iff]

end SmallMap

namespace SmallVecX
variable {T : Type}

theorem toList_push (s : SmallVecX T) (x : T) : (s.push x).toList = s.toList ++ [x] := by
  cases s <;> simp [push, toList]

theorem pop_spec (s : SmallVecX T) :
    s.pop.1 = s.toList.getLast? ∧ s.pop.2.toList = s.toList.dropLast := by
  cases s <;> simp [pop, toList]

theorem toList_clear (s : SmallVecX T) : s.clear.toList = [] := by
  cases s <;> simp [clear, toList]

/-- operations of a script -/
inductive Op (T : Type) where
  | push (x : T) | pop | clear

def run : SmallVecX T → List (Op T) → SmallVecX T
  | s, [] => s
  | s, .push x :: ops => run (s.push x) ops
  | s, .pop :: ops => run s.pop.2 ops
  | s, .clear :: ops => run s.clear ops

def runList : List T → List (Op T) → List T
  | l, [] => l
  | l, .push x :: ops => runList (l ++ [x]) ops
  | l, .pop :: ops => runList l.dropLast ops
  | _, .clear :: ops => runList [] ops

/-- any history of operations: the slice is what a plain list doing the same operations holds -/
theorem toList_run (s : SmallVecX T) (ops : List (Op T)) :
    (run s ops).toList = runList s.toList ops := by
  induction ops generalizing s with
  | nil => simp [run, runList]
  | cons op ops ih =>
    cases op with
    | push x => simp [run, runList, ih, toList_push]
    | pop => simp [run, runList, ih, (pop_spec s).2]
    | clear => simp [run, runList, ih, toList_clear]

/-- `==` is equality of the slices -/
theorem beq_iff [DecidableEq T] (a b : SmallVecX T) : a.beq b = true ↔ a.toList = b.toList := by
  simp [beq]

/-- C16: equal vectors feed the hasher identically, whatever their variants / histories -/
theorem hashFeed_eq_of_beq [DecidableEq T] (a b : SmallVecX T) (h : a.beq b = true) :
    a.hashFeed = b.hashFeed := by
  have h' := (beq_iff a b).mp h
  simp [hashFeed, len, h']

/-- … in particular two histories that end with the same slice -/
theorem hashFeed_run_eq (ops1 ops2 : List (Op T))
    (h : runList [] ops1 = runList [] ops2) :
    (run (.empty : SmallVecX T) ops1).hashFeed = (run .empty ops2).hashFeed := by
  have h1 : (run (.empty : SmallVecX T) ops1).toList = runList [] ops1 := toList_run _ _
  have h2 : (run (.empty : SmallVecX T) ops2).toList = runList [] ops2 := toList_run _ _
  simp [hashFeed, len, h1, h2, h]

end SmallVecX

namespace SmallMapX
variable {K V : Type} [DecidableEq K]

theorem get_eq (m : SmallMapX K V) (key : K) : m.get key = SmallMap.get m.toAssoc key := by
  cases m with
  | empty => simp [get, toAssoc, SmallMap.get]
  | one k v => simp [get, toAssoc, SmallMap.get, eq_comm]
  | two k1 v1 k2 v2 => simp [get, toAssoc, SmallMap.get]
  | flexible d => simp [get, toAssoc]

theorem toAssoc_insert (m : SmallMapX K V) (key : K) (value : V) :
    (m.insert key value).toAssoc = SmallMap.insert m.toAssoc key value := by
  cases m with
  | empty => simp [insert, toAssoc, SmallMap.insert]
  | one k v =>
    by_cases h : key = k <;> simp [insert, toAssoc, SmallMap.insert, h]
  | two k1 v1 k2 v2 =>
    by_cases h1 : key = k1
    · subst h1
      simp [insert, toAssoc, SmallMap.insert]
    · by_cases h2 : key = k2
      · subst h2
        simp [insert, toAssoc, SmallMap.insert, h1]
      · simp [insert, toAssoc, SmallMap.insert, h1, h2]
  | flexible d => simp [insert, toAssoc]

theorem remove_spec (m : SmallMapX K V) (key : K) :
    (m.remove key).1 = SmallMap.get m.toAssoc key ∧
      (m.remove key).2.toAssoc = SmallMap.remove m.toAssoc key := by
  cases m with
  | empty => simp [remove, toAssoc, SmallMap.get, SmallMap.remove]
  | one k v =>
    by_cases h : key = k <;> simp [remove, toAssoc, SmallMap.get, SmallMap.remove, h]
  | two k1 v1 k2 v2 =>
    by_cases h1 : key = k1
    · subst h1
      simp [remove, toAssoc, SmallMap.get, SmallMap.remove]
    · by_cases h2 : key = k2
      · subst h2
        simp [remove, toAssoc, SmallMap.get, SmallMap.remove, h1]
      · simp [remove, toAssoc, SmallMap.get, SmallMap.remove, h1, h2]
  | flexible d => simp [remove, toAssoc]

theorem splitOne_spec (m : SmallMapX K V) (key : K) :
    (m.splitOne key).map (fun x => (x.1, x.2.toAssoc)) = SmallMap.splitOne m.toAssoc key := by
  cases m with
  | empty => simp [splitOne, toAssoc, SmallMap.splitOne, SmallMap.get]
  | one k v =>
    by_cases h : key = k
    · subst h
      simp [splitOne, toAssoc, SmallMap.splitOne, SmallMap.get, SmallMap.remove]
    · have h' : ¬ k = key := fun e => h e.symm
      simp [splitOne, toAssoc, SmallMap.splitOne, SmallMap.get, h, h']
  | two k1 v1 k2 v2 =>
    by_cases h1 : key = k1
    · subst h1
      simp [splitOne, toAssoc, SmallMap.splitOne, SmallMap.get, SmallMap.remove]
    · have h1' : ¬ k1 = key := fun e => h1 e.symm
      by_cases h2 : key = k2
      · subst h2
        simp [splitOne, toAssoc, SmallMap.splitOne, SmallMap.get, SmallMap.remove, h1, h1']
      · have h2' : ¬ k2 = key := fun e => h2 e.symm
        simp [splitOne, toAssoc, SmallMap.splitOne, SmallMap.get, h1, h1', h2, h2']
  | flexible d =>
    simp only [splitOne, toAssoc, SmallMap.splitOne]
    cases SmallMap.get d key <;> simp

theorem mergeStep_none (f : V → V → Option V) (m : SmallMapX K V) (kv : K × V)
    (h : m.get kv.1 = none) : mergeStep f m kv = m.insert kv.1 kv.2 := by
  simp [mergeStep, h]

theorem mergeStep_some_none (f : V → V → Option V) (m : SmallMapX K V) (kv : K × V) (v1 : V)
    (h : m.get kv.1 = some v1) (hf : f v1 kv.2 = none) : mergeStep f m kv = (m.remove kv.1).2 := by
  simp [mergeStep, h, hf]

theorem mergeStep_some_some (f : V → V → Option V) (m : SmallMapX K V) (kv : K × V) (v1 w : V)
    (h : m.get kv.1 = some v1) (hf : f v1 kv.2 = some w) : mergeStep f m kv = m.insert kv.1 w := by
  simp [mergeStep, h, hf]

theorem toAssoc_mergeStep (f : V → V → Option V) (m : SmallMapX K V) (kv : K × V) :
    (mergeStep f m kv).toAssoc =
      (match SmallMap.get m.toAssoc kv.1 with
      | none => SmallMap.insert m.toAssoc kv.1 kv.2
      | some v1 =>
        match f v1 kv.2 with
        | none => SmallMap.remove m.toAssoc kv.1
        | some merged => SmallMap.insert m.toAssoc kv.1 merged) := by
  cases hm : m.get kv.1 with
  | none =>
    rw [mergeStep_none f m kv hm, ← get_eq, hm, toAssoc_insert]
  | some v1 =>
    cases hf : f v1 kv.2 with
    | none =>
      rw [mergeStep_some_none f m kv v1 hm hf, ← get_eq, hm, (remove_spec m kv.1).2]
      simp [hf]
    | some merged =>
      rw [mergeStep_some_some f m kv v1 merged hm hf, ← get_eq, hm, toAssoc_insert]
      simp [hf]

theorem toAssoc_merge (m : SmallMapX K V) (m2 : List (K × V)) (f : V → V → Option V) :
    (m.merge m2 f).toAssoc = SmallMap.merge m.toAssoc m2 f := by
  induction m2 generalizing m with
  | nil => simp [merge, SmallMap.merge]
  | cons kv m2 ih =>
    have ih' := ih (mergeStep f m kv)
    simp only [merge, SmallMap.merge, List.foldl_cons] at ih' ⊢
    rw [ih', toAssoc_mergeStep]
    rfl

omit [DecidableEq K] in
theorem len_eq (m : SmallMapX K V) : m.len = m.toAssoc.length := by
  cases m <;> simp [len, toAssoc]

/-- keys are distinct -/
def WF (m : SmallMapX K V) : Prop := (m.toAssoc.map Prod.fst).Nodup

omit [DecidableEq K] in
theorem wf_empty : (SmallMapX.empty : SmallMapX K V).WF := by
  simp [WF, toAssoc]

theorem wf_insert (m : SmallMapX K V) (h : m.WF) (key : K) (value : V) : (m.insert key value).WF := by
  unfold WF at *
  rw [toAssoc_insert]
  exact SmallMap.cl_nodup_insert _ h key value

theorem wf_remove (m : SmallMapX K V) (h : m.WF) (key : K) : (m.remove key).2.WF := by
  unfold WF at *
  rw [(remove_spec m key).2]
  exact SmallMap.cl_nodup_remove _ h key

theorem wf_mergeStep (f : V → V → Option V) (m : SmallMapX K V) (h : m.WF) (kv : K × V) :
    (mergeStep f m kv).WF := by
  cases hm : m.get kv.1 with
  | none => rw [mergeStep_none f m kv hm]; exact wf_insert m h _ _
  | some v1 =>
    cases hf : f v1 kv.2 with
    | none => rw [mergeStep_some_none f m kv v1 hm hf]; exact wf_remove m h _
    | some merged => rw [mergeStep_some_some f m kv v1 merged hm hf]; exact wf_insert m h _ _

theorem wf_merge (m : SmallMapX K V) (h : m.WF) (m2 : List (K × V)) (f : V → V → Option V) :
    (m.merge m2 f).WF := by
  induction m2 generalizing m with
  | nil => simpa [merge] using h
  | cons kv m2 ih =>
    have ih' := ih (mergeStep f m kv) (wf_mergeStep f m h kv)
    simpa only [merge, List.foldl_cons] using ih'

/-- the map semantics of the operations -/
theorem get_insert (m : SmallMapX K V) (key k : K) (value : V) :
    (m.insert key value).get k = if k = key then some value else m.get k := by
  rw [get_eq, toAssoc_insert, SmallMap.cl_get_insert, get_eq]

theorem get_remove (m : SmallMapX K V) (h : m.WF) (key k : K) :
    (m.remove key).2.get k = if k = key then none else m.get k := by
  rw [get_eq, (remove_spec m key).2, SmallMap.cl_get_remove _ h, get_eq]

theorem get_mergeStep_self (f : V → V → Option V) (m : SmallMapX K V) (h : m.WF) (k : K) (v : V) :
    (mergeStep f m (k, v)).get k =
      match m.get k with
      | none => some v
      | some a => f a v := by
  cases hm : m.get k with
  | none => rw [mergeStep_none f m (k, v) hm]; simp [get_insert]
  | some a =>
    cases hf : f a v with
    | none => rw [mergeStep_some_none f m (k, v) a hm hf]; simp [get_remove m h, hf]
    | some merged => rw [mergeStep_some_some f m (k, v) a merged hm hf]; simp [get_insert, hf]

theorem get_mergeStep_ne (f : V → V → Option V) (m : SmallMapX K V) (h : m.WF) (k' : K) (v : V)
    (k : K) (hk : ¬ k = k') :
    (mergeStep f m (k', v)).get k = m.get k := by
  cases hm : m.get k' with
  | none => rw [mergeStep_none f m (k', v) hm]; simp [get_insert, hk]
  | some a =>
    cases hf : f a v with
    | none => rw [mergeStep_some_none f m (k', v) a hm hf]; simp [get_remove m h, hk]
    | some merged => rw [mergeStep_some_some f m (k', v) a merged hm hf]; simp [get_insert, hk]

/-- `merge` as a map: pointwise combination (keys of the second map distinct, as a map's iterator
provides them) -/
theorem get_merge (m : SmallMapX K V) (h : m.WF) (m2 : List (K × V)) (h2 : (m2.map Prod.fst).Nodup)
    (f : V → V → Option V) (k : K) :
    (m.merge m2 f).get k =
      match m.get k, SmallMap.get m2 k with
      | some a, some b => f a b
      | some a, none => some a
      | none, some b => some b
      | none, none => none := by
  induction m2 generalizing m with
  | nil =>
    simp only [merge, List.foldl_nil, SmallMap.get]
    cases m.get k <;> rfl
  | cons kv m2 ih =>
    obtain ⟨k', v'⟩ := kv
    simp only [List.map_cons, List.nodup_cons] at h2
    have ih' := ih (mergeStep f m (k', v')) (wf_mergeStep f m h (k', v')) h2.2
    simp only [merge, List.foldl_cons] at ih' ⊢
    rw [ih']
    by_cases hk : k = k'
    · subst hk
      rw [SmallMap.cl_get_none_of_not_mem m2 k h2.1]
      simp only [SmallMap.get, if_true]
      rw [get_mergeStep_self f m h k v']
      cases hm : m.get k with
      | none => simp
      | some a => cases hf : f a v' <;> simp [hf]
    · rw [get_mergeStep_ne f m h k' v' k hk]
      simp only [SmallMap.get, hk, if_false]

/-- hence the result does not depend on the enumeration order of the second map (a hash map) -/
theorem get_merge_perm (m : SmallMapX K V) (h : m.WF) (m2 m2' : List (K × V))
    (hp : m2.Perm m2') (h2 : (m2.map Prod.fst).Nodup) (f : V → V → Option V) (k : K) :
    (m.merge m2 f).get k = (m.merge m2' f).get k := by
  have h2' : (m2'.map Prod.fst).Nodup := (hp.map Prod.fst).nodup_iff.mp h2
  rw [get_merge m h m2 h2, get_merge m h m2' h2', SmallMap.cl_get_perm m2 m2' hp h2 k]

end SmallMapX
end Pubgrub


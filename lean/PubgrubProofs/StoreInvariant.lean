/-
TARGET FILE: PubgrubProofs/StoreInvariant.lean
The store invariant holds in every reachable state of the solver (properties C06, C02).
`PubgrubProofs/IncompatSound.lean` (in your workspace: statements with `sorry`, being proved by another
agent) provides the local soundness lemmas (`Incompat.notRoot_good`, `noVersions_good`,
`customVersion_good`, `fromDependency_good`, `priorCause_good`, `mergeDependents_good`, `good_append`,
`isTerminal_no_solution`); use them freely, do not re-prove them.
Replace every `sorry` below; add helpers; keep the target statements.
-/
import PubgrubProofs.IncompatSound
import PubgrubProofs.StoreInvariantAux3

set_option linter.unusedSectionVars false

namespace Pubgrub
open VersionSet

variable {P S V M Pr E : Type} [DecidableEq P] [VersionSet S V] [DecidableEq S] [DecidableEq V]
  [LE Pr] [DecidableLE Pr] [LawfulVersionSet S V]

/-- the invariant of the coroutine: state-level invariant plus coherence of the pending request
with the phase, plus the origin of a reported `noSolution` tree -/
structure RInv (W : World P S V M) (root : P) (rv : V)
    (x : SolverState P S V M Pr × Request P S V M Pr E) : Prop where
  sinv : SInv W root rv x.1.st
  choosing : ∀ p t, x.1.phase = .choosing p t →
    t.Valid ∧ ∃ set, x.2 = .chooseVersion p set ∧ t = .pos set
  fetching : ∀ p v, x.1.phase = .fetching p v → x.2 = .getDependencies p v
  noSol : ∀ tree, x.2 = .noSolution tree → ∃ terminal inc, x.1.st.store[terminal]? = some inc ∧
    inc.isTerminal root rv = true ∧ x.1.st.buildDerivationTree terminal = .ok tree

theorem rinv_start (W : World P S V M) (debug : Bool) (fuel : Nat) (root : P) (rv : V) :
    RInv W root rv (Solver.start (Pr := Pr) (E := E) (M := M) debug fuel root rv) := by
  refine ⟨⟨storeInv_init W root rv, rfl, rfl, PartialSolution.termsValid_empty⟩, ?_, ?_, ?_⟩
  · intro p t h; simp [Solver.start] at h
  · intro p v h; simp [Solver.start] at h
  · intro tree h; simp [Solver.start] at h

/-- ending the run with a request that is not `noSolution` -/
theorem rinv_finish (W : World P S V M) (root : P) (rv : V) (s : SolverState P S V M Pr)
    (r : Request P S V M Pr E) (h : SInv W root rv s.st) (hr : ∀ tree, r ≠ .noSolution tree) :
    RInv W root rv (Solver.finish s r) := by
  refine ⟨h, ?_, ?_, ?_⟩
  · intro p t h; simp [Solver.finish] at h
  · intro p v h; simp [Solver.finish] at h
  · intro tree h; exact absurd h (hr tree)

theorem rinv_loopAgain (W : World P S V M) (root : P) (rv : V) (s : SolverState P S V M Pr)
    (st : State P S V M Pr) (h : SInv W root rv st) :
    RInv (E := E) W root rv (Solver.loopAgain s st) := by
  refine ⟨h, ?_, ?_, ?_⟩
  · intro p t h; simp [Solver.loopAgain] at h
  · intro p v h; simp [Solver.loopAgain] at h
  · intro tree h; simp [Solver.loopAgain] at h

theorem rinv_step (W : World P S V M) (hW : W.SetsValid) (root : P) (rv : V)
    (s : SolverState P S V M Pr) (req : Request P S V M Pr E) (a : Answer P S V M Pr E)
    (h : RInv W root rv (s, req)) (ha : AnswerOK W req a) : RInv W root rv (Solver.step s a) := by
  have hs : SInv W root rv s.st := h.sinv
  unfold Solver.step
  split
  · -- finished
    refine ⟨hs, ?_, ?_, ?_⟩
    · intro p t h'; simp_all
    · intro p v h'; simp_all
    · intro tree h'; simp at h'
  · exact rinv_finish W root rv s _ hs (by intro tree h'; cases h')
  · -- cancel, ok
    split
    · exact rinv_finish W root rv s _ hs (by intro tree h'; cases h')
    · rename_i st terminal hu
      obtain ⟨h1, ht⟩ := State.unitPropagation_inv W root rv hu hs
      obtain ⟨inc, hinc, hterm⟩ := ht terminal rfl
      split
      · exact rinv_finish W root rv _ _ h1 (by intro tree h'; cases h')
      · rename_i tree htree
        refine ⟨h1, ?_, ?_, ?_⟩
        · intro p t h'; simp [Solver.finish] at h'
        · intro p v h'; simp [Solver.finish] at h'
        · intro tree' h'
          simp only [Solver.finish] at h'
          injection h' with h'; subst h'
          exact ⟨terminal, inc, hinc, hterm, htree⟩
    · rename_i st hu
      obtain ⟨h1, _⟩ := State.unitPropagation_inv W root rv hu hs
      split
      · exact rinv_finish W root rv _ _ h1 (by intro tree h'; cases h')
      · refine ⟨h1, ?_, ?_, ?_⟩
        · intro p t h'; simp at h'
        · intro p v h'; simp at h'
        · intro tree h'; simp at h'
      · refine ⟨h1, ?_, ?_, ?_⟩
        · intro p t h'; simp at h'
        · intro p v h'; simp at h'
        · intro tree h'; simp at h'
  · -- prioritizing
    simp only
    split
    · refine ⟨hs, ?_, ?_, ?_⟩
      · intro p t h'; simp at h'
      · intro p v h'; simp at h'
      · intro tree h'; simp at h'
    · refine ⟨hs, ?_, ?_, ?_⟩
      · intro p t h'; simp at h'
      · intro p v h'; simp at h'
      · intro tree h'; simp at h'
  · -- picking
    rename_i acc o hph
    simp only
    have hs1 : SInv W root rv { s.st with ps := s.st.ps.afterPrioritize acc } :=
      ⟨hs.store, hs.root, hs.rv, hs.ps⟩
    split
    · split
      · exact rinv_finish W root rv s _ hs (by intro tree h'; cases h')
      · split
        · exact rinv_finish W root rv _ _ hs1 (by intro tree h'; cases h')
        · exact rinv_finish W root rv _ _ hs1 (by intro tree h'; cases h')
    · rename_i p
      split
      · exact rinv_finish W root rv s _ hs (by intro tree h'; cases h')
      · have hs2 : SInv W root rv { s.st with ps :=
            { s.st.ps.afterPrioritize acc with
              queue := SmallMap.remove (s.st.ps.afterPrioritize acc).queue p } } :=
          ⟨hs.store, hs.root, hs.rv, hs.ps⟩
        split
        · exact rinv_finish W root rv _ _ hs2 (by intro tree h'; cases h')
        · rename_i t ht
          have htv : t.Valid := PartialSolution.termIntersection_valid hs2.ps ht
          split
          · exact rinv_finish W root rv _ _ hs2 (by intro tree h'; cases h')
          · rename_i set hset
            refine ⟨hs2, ?_, ?_, ?_⟩
            · intro p' t' h'
              simp only [Phase.choosing.injEq] at h'
              obtain ⟨rfl, rfl⟩ := h'
              refine ⟨htv, set, rfl, ?_⟩
              cases t <;> simp_all [Incompat.unwrapPositive]
            · intro p v h'; simp at h'
            · intro tree h'; simp at h'
  · -- choosing, error
    exact rinv_finish W root rv s _ hs (by intro tree h'; cases h')
  · -- choosing, none
    rename_i p t hph
    obtain ⟨htv, set, hreq, hts⟩ := h.choosing p t hph
    simp only at hreq
    subst hreq
    split
    · exact rinv_finish W root rv s _ hs (by intro tree h'; cases h')
    · rename_i inc hinc
      have g : inc.Good W root rv s.st.store s.st.store.length :=
        Incompat.noVersions_good W root rv _ _ p t htv set (by subst hts; rfl) ha inc hinc
      split
      · exact rinv_finish W root rv s _ hs (by intro tree h'; cases h')
      · rename_i st hadd
        exact rinv_loopAgain W root rv s st (State.addIncompatibility_inv W root rv hadd hs g)
  · -- choosing, some v
    rename_i p t v hph
    split
    · exact rinv_finish W root rv s _ hs (by intro tree h'; cases h')
    · simp only
      split
      · refine ⟨hs, ?_, ?_, ?_⟩
        · intro p' t' h'; simp at h'
        · intro p' v' h'
          simp only [Phase.fetching.injEq] at h'
          obtain ⟨rfl, rfl⟩ := h'; rfl
        · intro tree h'; simp at h'
      · split
        · exact rinv_finish W root rv _ _ hs (by intro tree h'; cases h')
        · rename_i ps hps
          exact rinv_loopAgain W root rv _ _
            ⟨hs.store, hs.root, hs.rv, PartialSolution.addDecision_termsValid hs.ps hps⟩
  · -- fetching, error
    exact rinv_finish W root rv s _ hs (by intro tree h'; cases h')
  · -- fetching, unavailable
    rename_i p v m hph
    have hreq := h.fetching p v hph
    simp only at hreq
    subst hreq
    split
    · exact rinv_finish W root rv s _ hs (by intro tree h'; cases h')
    · rename_i st hadd
      exact rinv_loopAgain W root rv s st (State.addIncompatibility_inv W root rv hadd hs
        (Incompat.customVersion_good W root rv _ _ p v m ha))
  · -- fetching, available
    rename_i p v deps hph
    have hreq := h.fetching p v hph
    simp only at hreq
    subst hreq
    split
    · exact rinv_finish W root rv s _ hs (by intro tree h'; cases h')
    · rename_i st start stop hadd
      have h1 := State.addIncompatibilityFromDependencies_inv W hW root rv hadd hs ha
      simp only
      split
      · exact rinv_finish W root rv _ _ h1 (by intro tree h'; cases h')
      · rename_i ps hps
        exact rinv_loopAgain W root rv _ _
          ⟨h1.store, h1.root, h1.rv, PartialSolution.addVersion_termsValid h1.ps hps⟩
  · -- anything else
    exact rinv_finish W root rv s _ hs (by intro tree h'; cases h')

/-- the invariant holds in every reachable state -/
theorem reachable_rinv (W : World P S V M) (hW : W.SetsValid) (debug : Bool) (fuel : Nat)
    (root : P) (rv : V) (x : SolverState P S V M Pr × Request P S V M Pr E)
    (h : Reachable W debug fuel root rv x) : RInv W root rv x := by
  induction h with
  | start => exact rinv_start W debug fuel root rv
  | step _ ha ih => exact rinv_step W hW root rv _ _ _ ih ha

/-- C06, main theorem: in every state reachable by answers consistent with the world, whatever the
strategy, the fuel, and however the run ends, every stored incompatibility is good (valid of all
solutions, distinct keys, valid sets, true kind) -/
theorem reachable_storeInv (W : World P S V M) (hW : W.SetsValid) (debug : Bool) (fuel : Nat)
    (root : P) (rv : V) (x : SolverState P S V M Pr × Request P S V M Pr E)
    (h : Reachable W debug fuel root rv x) : StoreInv W root rv x.1.st.store :=
  (reachable_rinv W hW debug fuel root rv x h).sinv.store

/-- C02: `NoSolution` is only reported when no solution exists -/
theorem noSolution_sound (W : World P S V M) (hW : W.SetsValid) (debug : Bool) (fuel : Nat)
    (root : P) (rv : V) (s : SolverState P S V M Pr) (tree : DerivationTree P S V M)
    (h : Reachable (E := E) W debug fuel root rv (s, .noSolution tree)) :
    ¬ ∃ σ, IsSolution W root rv σ := by
  have hi := reachable_rinv W hW debug fuel root rv _ h
  obtain ⟨terminal, inc, hinc, hterm, _⟩ := hi.noSol tree rfl
  exact Incompat.isTerminal_no_solution W root rv inc (hi.sinv.store terminal inc hinc).valid hterm

/-- when a run ends in `NoSolution`, the reported tree was built from a terminal incompatibility of
an invariant-satisfying store (interface for the tree theorems of C03) -/
theorem noSolution_tree_origin (W : World P S V M) (hW : W.SetsValid) (debug : Bool) (fuel : Nat)
    (root : P) (rv : V) (s : SolverState P S V M Pr) (tree : DerivationTree P S V M)
    (h : Reachable (E := E) W debug fuel root rv (s, .noSolution tree)) :
    ∃ terminal inc, s.st.store[terminal]? = some inc ∧ inc.isTerminal root rv = true ∧
      s.st.buildDerivationTree terminal = .ok tree ∧ StoreInv W root rv s.st.store ∧
      s.st.rootPackage = root ∧ s.st.rootVersion = rv := by
  have hi := reachable_rinv W hW debug fuel root rv _ h
  obtain ⟨terminal, inc, hinc, hterm, htree⟩ := hi.noSol tree rfl
  exact ⟨terminal, inc, hinc, hterm, htree, hi.sinv.store, hi.sinv.root, hi.sinv.rv⟩

end Pubgrub

/-
TARGET FILE: PubgrubProofs/ReportCollapsed.lean
Property C08 quantifies over resolve's trees "before and after collapse_no_versions", and lists, besides
step soundness: numbering, references, externals cited, last step concludes the top.  The general
theorems (PubgrubProofs/ReportSound.lean: `report_steps_sound`, `report_numbering`, `report_refs_resolve`,
`report_externals_cited`, `report_last_concludes_top`, `report_terminates`) need `t.Sound U` and
`t.SharedConsistent`.  For resolve's trees these come from TreeLink.lean (`noSolution_tree_hypotheses`);
for the COLLAPSED tree `Sound W.Exists` comes from `noSolution_collapse_sound`, and what is missing is
(1) `collapseNoVersions` preserves `SharedConsistent`  [every derived node `(some k, t')` of the collapsed
    tree is the collapse of a derived node `(some k, t)` of the input — `collapseNoVersions` is a function
    of the subtree, the dropped wrappers are the nodes one of whose causes is a `NoVersions` leaf,
    `mergeNoVersions` returns a derived other-cause unchanged — hence equal ids ⇒ equal subtrees];
(2) the bundled statement for resolve's trees, before and after collapse;
(3) the same for `Range` over any linear order (pull-back as in RangeAnyOrder2.lean: `range_C03_*`,
    `range_C09_on_resolve_trees`, `DerivationTree.collapseNoVersions_mapH`, …), and the missing pull-back
    of C09's no-panic clause (`noSolution_collapse_no_panic`, CollapseNoPanic.lean).
All targets proved; the structural induction for (1) is `collapse_derivedNodes_image` in
PubgrubProofs/ReportCollapsedAux1.lean.
-/
import PubgrubProofs.TreeLink
import PubgrubProofs.ReportSound
import PubgrubProofs.CollapseSound
import PubgrubProofs.CollapseNoPanic
import PubgrubProofs.RangeAnyOrder2
import PubgrubProofs.ReportCollapsedAux1

set_option linter.unusedSectionVars false

namespace Pubgrub
open VersionSet

section General
variable {P S V M : Type} [DecidableEq P] [VersionSet S V] [DecidableEq S]

/-- (1) equal ids ⇒ equal subtrees survives `collapse_no_versions` -/
theorem collapse_sharedConsistent (t t' : DerivationTree P S V M) (h : t.SharedConsistent)
    (hc : t.collapseNoVersions = .ok t') : t'.SharedConsistent := by
  intro k t1 t2 h1 h2
  obtain ⟨d1, hd1, e1⟩ := collapse_derivedNodes_image t t' hc (some k) t1 h1
  obtain ⟨d2, hd2, e2⟩ := collapse_derivedNodes_image t t' hc (some k) t2 h2
  have := h k d1 d2 hd1 hd2
  subst this
  rw [e1] at e2
  exact Except.ok.inj e2

/-- everything property C08 lists about the default report of a tree, in one statement -/
def ReportWellFormed (U : P → V → Prop) (t : DerivationTree P S V M) : Prop :=
  (∃ r, reportSteps t = .ok r) ∧
  ∀ lines, reportSteps t = .ok (.inr lines) →
    (∀ i l, lines[i]? = some l → ∀ c, l.step.conclusion = some c →
      Entails U (stepPremises lines i l.step) c) ∧
    (allRefs lines = List.range' 1 (allRefs lines).length ∧ ∀ l ∈ lines, l.refs.length ≤ 1) ∧
    (∀ i l, lines[i]? = some l → ∀ k terms, (k, terms) ∈ l.step.citedRefs →
      conclusionOfRef (lines.take i) k = some terms ∧
        ((lines.take i).filter fun l' => l'.refs.contains k).length = 1) ∧
    (∀ e ∈ t.externals, ∃ l ∈ lines, e ∈ l.step.namedExternals) ∧
    (∃ l, lines.getLast? = some l ∧ l.step.conclusion = some t.terms)

theorem reportWellFormed_of (U : P → V → Prop) (t : DerivationTree P S V M) (hs : t.Sound U)
    (hc : t.SharedConsistent) : ReportWellFormed U t := by
  refine ⟨report_terminates t hc, ?_⟩
  intro lines hl
  exact ⟨fun i l hli c hcl => report_steps_sound U t hs hc lines hl i l hli c hcl,
    report_numbering t hc lines hl,
    fun i l hli k terms hk => report_refs_resolve t hc lines hl i l hli k terms hk,
    fun e he => report_externals_cited t hc lines hl e he,
    report_last_concludes_top t hc lines hl⟩

end General

section Lawful
variable {P S V M Pr E : Type} [DecidableEq P] [VersionSet S V] [DecidableEq S] [DecidableEq V]
  [LE Pr] [DecidableLE Pr] [LawfulVersionSet S V]

/-- (2) C08 on resolve's trees, before `collapse_no_versions` (entailment over all versions) … -/
theorem noSolution_report_wellFormed (W : World P S V M) (hW : W.SetsValid) (debug : Bool) (fuel : Nat)
    (root : P) (rv : V) (s : SolverState P S V M Pr) (tree : DerivationTree P S V M)
    (h : Reachable (E := E) W debug fuel root rv (s, .noSolution tree)) :
    ReportWellFormed (fun _ _ => True) tree := by
  obtain ⟨hs, hsc, -⟩ := noSolution_tree_hypotheses (E := E) W hW debug fuel root rv s tree h
  exact reportWellFormed_of _ tree (hs _) hsc

/-- … and after it (entailment over the existing versions) -/
theorem noSolution_collapsed_report_wellFormed (W : World P S V M) (hW : W.SetsValid) (debug : Bool)
    (fuel : Nat) (root : P) (rv : V) (s : SolverState P S V M Pr) (tree : DerivationTree P S V M)
    (h : Reachable (E := E) W debug fuel root rv (s, .noSolution tree))
    (t' : DerivationTree P S V M) (hc : tree.collapseNoVersions = .ok t') :
    ReportWellFormed W.Exists t' := by
  obtain ⟨-, hsc, -⟩ := noSolution_tree_hypotheses (E := E) W hW debug fuel root rv s tree h
  obtain ⟨g1, -⟩ := noSolution_collapse_sound (E := E) W hW debug fuel root rv s tree h t' hc
  exact reportWellFormed_of _ t' g1 (collapse_sharedConsistent tree t' hsc hc)

end Lawful

section AnyOrder
variable {P V M Pr E : Type} [DecidableEq P] [LinearOrder V] [LE Pr] [DecidableLE Pr]

/-- (3) the same for `Range` over any linear order -/
theorem range_report_wellFormed (W : World P (Range V) V M) (hW : W.RangesWF) (debug : Bool) (fuel : Nat)
    (root : P) (rv : V) (s : SolverState P (Range V) V M Pr) (tree : DerivationTree P (Range V) V M)
    (h : Reachable (E := E) W debug fuel root rv (s, .noSolution tree)) :
    ReportWellFormed (fun _ _ => True) tree := by
  have hck := range_C03_tree_checkable W hW debug fuel root rv s tree h
  have hsc : tree.SharedConsistent := fun k t1 t2 h1 h2 =>
    range_C03_shared_same W hW debug fuel root rv s tree h k t1 t2 h1 h2
  exact reportWellFormed_of _ tree (hck.sound' W root rv tree _) hsc

theorem range_collapsed_report_wellFormed (W : World P (Range V) V M) (hW : W.RangesWF) (debug : Bool)
    (fuel : Nat) (root : P) (rv : V) (s : SolverState P (Range V) V M Pr)
    (tree : DerivationTree P (Range V) V M)
    (h : Reachable (E := E) W debug fuel root rv (s, .noSolution tree))
    (t' : DerivationTree P (Range V) V M) (hc : tree.collapseNoVersions = .ok t') :
    ReportWellFormed W.Exists t' := by
  have hsc : tree.SharedConsistent := fun k t1 t2 h1 h2 =>
    range_C03_shared_same W hW debug fuel root rv s tree h k t1 t2 h1 h2
  obtain ⟨g1, -⟩ := range_C09_on_resolve_trees (E := E) W hW debug fuel root rv s tree h t' hc
  exact reportWellFormed_of _ t' g1 (collapse_sharedConsistent tree t' hsc hc)

/-- C09's no-panic clause for `Range` over any linear order -/
theorem range_collapse_no_panic (W : World P (Range V) V M) (hW : W.RangesWF) (debug : Bool)
    (fuel : Nat) (root : P) (rv : V) (s : SolverState P (Range V) V M Pr)
    (tree : DerivationTree P (Range V) V M)
    (h : Reachable (E := E) W debug fuel root rv (s, .noSolution tree)) :
    ∃ t', tree.collapseNoVersions = .ok t' := by
  have : Nonempty V := ⟨rv⟩
  obtain ⟨hW', h'⟩ := range_tree_image W hW debug fuel root rv s tree h
  obtain ⟨t'', ht''⟩ := noSolution_collapse_no_panic _ hW' debug fuel root _ _ _ h'
  rw [DerivationTree.collapseNoVersions_mapH] at ht''
  cases hc : tree.collapseNoVersions with
  | error e => rw [hc] at ht''; cases ht''
  | ok t' => exact ⟨t', rfl⟩

end AnyOrder
end Pubgrub

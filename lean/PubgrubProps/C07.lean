/-
Property C07 — resolve is deterministic: same answers in, same result and call trace out.

What a theorem can say: the model of `resolve` is a function of (root, version, answers) — true of
any Lean function, stated as `C07_function` — and it is *causal*: the first k+1 requests depend only
on the first k answers (`C07_causal`), so a provider that answers identically sees the identical
call sequence.  That the REAL `resolve` is this function is exactly the exact-mirror correspondence:
on every recorded run the model, given only the provider's answers (and which maximal package the
queue popped), predicts every request, every snapshot and the result.

What a theorem cannot say (runtime facts, covered by the correspondence only): `FxHashMap` iteration
order (the text of a clause with two same-sign terms or ≥ 3 terms in the default report follows it:
seedless, hence reproducible, but not modelled), the randomly seeded `std::HashSet` inside
`build_derivation_tree` (sorted by id before use: the model's `sortIds`).  The check runs every case
twice in-process (String and u32 package names) and the whole request file in two fresh processes,
and compares results, derivation trees, report texts and full callback traces byte for byte.
-/
import PubgrubProofs.Protocol

namespace Pubgrub.C07
open Pubgrub Pubgrub.Solver

variable {P S V M Pr E : Type} [DecidableEq P] [VersionSet S V] [DecidableEq S] [DecidableEq V]
  [LE Pr] [DecidableLE Pr]

/-- the trace and the final state are functions of the inputs -/
theorem C07_function (debug : Bool) (fuel : Nat) (root : P) (rv : V)
    (as bs : List (Answer P S V M Pr E)) (h : as = bs) :
    trace debug fuel root rv as = trace debug fuel root rv bs ∧
    (after (start debug fuel root rv) as).2 = (after (start debug fuel root rv) bs).2 := by
  subst h; exact ⟨rfl, rfl⟩

/-- causality: two answer sequences that agree on their first k answers produce the same first k+1
requests -/
theorem C07_causal (debug : Bool) (fuel : Nat) (root : P) (rv : V)
    (common as bs : List (Answer P S V M Pr E)) :
    (trace debug fuel root rv (common ++ as)).take (common.length + 1) =
    (trace debug fuel root rv (common ++ bs)).take (common.length + 1) := by
  rw [trace_prefix, trace_prefix]

end Pubgrub.C07

/-
Helpers for `Termination.lean`, part 1: pure arithmetic and list facts — the base-`b` numeral the rank
is read as, sums of maps, counting by `filter`, and the pigeonhole principle for lists.
-/
import PubgrubProofs.TermDefs
import PubgrubProofs.NoPanic

set_option linter.unusedSectionVars false
set_option linter.unusedVariables false

namespace Pubgrub
namespace Tm

/-! ### the numeral -/

/-- the digits `d 0 … d (n-1)` read as a base-`b` numeral, `d 0` most significant -/
def numeral (b : Nat) (d : Nat → Nat) : Nat → Nat
  | 0 => 0
  | n + 1 => numeral b d n * b + d n

theorem numeral_congr {b : Nat} {d d' : Nat → Nat} : ∀ {n : Nat}, (∀ i, i < n → d i = d' i) →
    numeral b d n = numeral b d' n := by
  intro n
  induction n with
  | zero => intro _; rfl
  | succ n ih =>
    intro h
    simp only [numeral]
    rw [ih (fun i hi => h i (Nat.lt_succ_of_lt hi)), h n (Nat.lt_succ_self n)]

theorem numeral_le {b : Nat} {d d' : Nat → Nat} : ∀ {n : Nat}, (∀ i, i < n → d i ≤ d' i) →
    numeral b d n ≤ numeral b d' n := by
  intro n
  induction n with
  | zero => intro _; exact Nat.le_refl _
  | succ n ih =>
    intro h
    simp only [numeral]
    have h1 := ih (fun i hi => h i (Nat.lt_succ_of_lt hi))
    have h2 := h n (Nat.lt_succ_self n)
    exact Nat.add_le_add (Nat.mul_le_mul_right b h1) h2

theorem numeral_lt_pow {b : Nat} {d : Nat → Nat} : ∀ {n : Nat}, (∀ i, i < n → d i < b) →
    numeral b d n + 1 ≤ b ^ n := by
  intro n
  induction n with
  | zero => intro _; simp [numeral]
  | succ n ih =>
    intro h
    simp only [numeral]
    have h1 := ih (fun i hi => h i (Nat.lt_succ_of_lt hi))
    have h2 := h n (Nat.lt_succ_self n)
    have h3 : (numeral b d n + 1) * b ≤ b ^ n * b := Nat.mul_le_mul_right b h1
    rw [Nat.pow_succ]
    rw [Nat.add_mul, Nat.one_mul] at h3
    omega

/-- a numeral that agrees on the digits before `k`, is smaller at `k`, and whose digits are all below the
base, is smaller -/
theorem numeral_lt {b : Nat} {d d' : Nat → Nat} {k : Nat} (hagree : ∀ i, i < k → d i = d' i)
    (hlt : d k < d' k) : ∀ {n : Nat}, k < n → (∀ i, i < n → d i < b) →
    numeral b d n < numeral b d' n := by
  intro n
  induction n with
  | zero => intro h; omega
  | succ n ih =>
    intro hk hb
    simp only [numeral]
    by_cases hkn : k = n
    · subst hkn
      rw [numeral_congr hagree]
      omega
    · have h1 := ih (by omega) (fun i hi => hb i (Nat.lt_succ_of_lt hi))
      have h2 := hb n (Nat.lt_succ_self n)
      have h3 : (numeral b d n + 1) * b ≤ numeral b d' n * b := Nat.mul_le_mul_right b h1
      rw [Nat.add_mul, Nat.one_mul] at h3
      omega

/-! ### sums -/

theorem sum_map_le {α : Type} (f g : α → Nat) : ∀ (l : List α), (∀ x ∈ l, f x ≤ g x) →
    (l.map f).sum ≤ (l.map g).sum := by
  intro l
  induction l with
  | nil => intro _; simp
  | cons a t ih =>
    intro h
    simp only [List.map_cons, List.sum_cons]
    have h1 := h a List.mem_cons_self
    have h2 := ih (fun x hx => h x (List.mem_cons_of_mem _ hx))
    omega

theorem sum_map_congr {α : Type} (f g : α → Nat) : ∀ (l : List α), (∀ x ∈ l, f x = g x) →
    (l.map f).sum = (l.map g).sum := by
  intro l h
  have h1 := sum_map_le f g l (fun x hx => Nat.le_of_eq (h x hx))
  have h2 := sum_map_le g f l (fun x hx => Nat.le_of_eq (h x hx).symm)
  omega

theorem sum_map_lt {α : Type} (f g : α → Nat) : ∀ (l : List α), (∀ x ∈ l, f x ≤ g x) →
    (∃ x ∈ l, f x < g x) → (l.map f).sum < (l.map g).sum := by
  intro l
  induction l with
  | nil => intro _ ⟨x, hx, _⟩; cases hx
  | cons a t ih =>
    intro h ⟨x, hx, hlt⟩
    simp only [List.map_cons, List.sum_cons]
    have h1 := h a List.mem_cons_self
    have h2 := sum_map_le f g t (fun x hx => h x (List.mem_cons_of_mem _ hx))
    rcases List.mem_cons.1 hx with e | e
    · subst e; omega
    · have h3 := ih (fun x hx => h x (List.mem_cons_of_mem _ hx)) ⟨x, e, hlt⟩
      omega

/-! ### counting -/

theorem filter_length_le_of_imp {α : Type} (f g : α → Bool) : ∀ (l : List α),
    (∀ x ∈ l, f x = true → g x = true) → (l.filter f).length ≤ (l.filter g).length := by
  intro l
  induction l with
  | nil => intro _; simp
  | cons a t ih =>
    intro h
    have h1 := h a List.mem_cons_self
    have h2 := ih (fun x hx => h x (List.mem_cons_of_mem _ hx))
    simp only [List.filter_cons]
    cases hf : f a <;> cases hg : g a <;> simp only [hf, hg] at h1 ⊢ <;>
      simp only [List.length_cons, Bool.false_eq_true, if_false, if_true] <;> first | omega | simp at h1

theorem filter_length_lt {α : Type} (f g : α → Bool) : ∀ (l : List α),
    (∀ x ∈ l, f x = true → g x = true) → (∃ x ∈ l, g x = true ∧ f x = false) →
    (l.filter f).length < (l.filter g).length := by
  intro l
  induction l with
  | nil => intro _ ⟨x, hx, _⟩; cases hx
  | cons a t ih =>
    intro h ⟨x, hx, hgx, hfx⟩
    have h1 := h a List.mem_cons_self
    have h2 := filter_length_le_of_imp f g t (fun x hx => h x (List.mem_cons_of_mem _ hx))
    simp only [List.filter_cons]
    rcases List.mem_cons.1 hx with e | e
    · subst e
      simp only [hgx, hfx, List.length_cons, Bool.false_eq_true, if_false, if_true]
      omega
    · have h3 := ih (fun x hx => h x (List.mem_cons_of_mem _ hx)) ⟨x, e, hgx, hfx⟩
      cases hf : f a <;> cases hg : g a <;> simp only [hf, hg] at h1 ⊢ <;>
        simp only [List.length_cons, Bool.false_eq_true, if_false, if_true] <;> first | omega | simp at h1

theorem filter_length_le {α : Type} (f : α → Bool) (l : List α) : (l.filter f).length ≤ l.length :=
  List.length_filter_le f l

/-! ### pigeonhole -/

theorem nodup_subset_length_le {α : Type} [DecidableEq α] : ∀ (l m : List α), l.Nodup → (∀ x ∈ l, x ∈ m) →
    l.length ≤ m.length := by
  intro l
  induction l with
  | nil => intro m _ _; simp
  | cons a t ih =>
    intro m hn hsub
    rw [List.nodup_cons] at hn
    have ha : a ∈ m := hsub a List.mem_cons_self
    have h1 : ∀ x ∈ t, x ∈ m.erase a := by
      intro x hx
      have hxm := hsub x (List.mem_cons_of_mem _ hx)
      have hne : x ≠ a := by intro e; subst e; exact hn.1 hx
      exact (List.mem_erase_of_ne hne).2 hxm
    have h2 := ih (m.erase a) hn.2 h1
    have h3 : (m.erase a).length = m.length - 1 := List.length_erase_of_mem ha
    have h4 : 0 < m.length := List.length_pos_of_mem ha
    simp only [List.length_cons]
    omega

end Tm
end Pubgrub

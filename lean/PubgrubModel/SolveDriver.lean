/-
Replay of one recorded `resolve` run against the coroutine model: the model consumes the provider's
recorded answers and produces its own transcript (requests, partial-solution snapshots, final
store, result) in the text format of the Rust harness.
-/
import PubgrubModel.Solver
import PubgrubModel.Protocol

namespace Pubgrub.SolveDriver
open Pubgrub

abbrev Pk := String
abbrev St (S : Type) := SolverState Pk S Nat String Nat
abbrev Rq (S : Type) := Request Pk S Nat String Nat String
abbrev An (S : Type) := Answer Pk S Nat String Nat String

def sortStrings (l : List String) : List String := (l.toArray.qsort (· < ·)).toList

structure SetIO (S : Type) where
  parse : String → Option S
  disp : S → String

def rangeIO : SetIO (Range Nat) := { parse := Protocol.parseSegs, disp := Protocol.dispRange }

def bitsOfMask (m : Nat) : BitSet 8 := ⟨(List.range 8).map fun i => (m >>> i) % 2 == 1⟩

def bitsIO : SetIO (BitSet 8) :=
  { parse := fun s => s.trimAscii.toString.toNat?.map bitsOfMask,
    disp := fun b =>
      "{" ++ ",".intercalate (((List.range 8).filter fun i => b.bits.getD i false).map toString) ++ "}" }

/-- the harness's `BlurSet8`: member `i` prints as `i % 4` (a non-injective `Display`) -/
def blurIO : SetIO (BitSet 8) :=
  { parse := fun s => s.trimAscii.toString.toNat?.map bitsOfMask,
    disp := fun b =>
      "{" ++ ",".intercalate ((((List.range 8).filter fun i => b.bits.getD i false).map (· % 4)).eraseReps.map toString) ++ "}" }

def bits2OfMask (m : Nat) : BitSet 2 := ⟨(List.range 2).map fun i => (m >>> i) % 2 == 1⟩

def bits2IO : SetIO (BitSet 2) :=
  { parse := fun s => s.trimAscii.toString.toNat?.map bits2OfMask,
    disp := fun b =>
      "{" ++ ",".intercalate (((List.range 2).filter fun i => b.bits.getD i false).map toString) ++ "}" }

variable {S : Type}

def dispTerm (io : SetIO S) (t : Term S) : String := Term.display io.disp t

def kindText (io : SetIO S) : Kind Pk S Nat String → String
  | .notRoot p v => s!"notroot({p} {v})"
  | .noVersions p s => s!"novers({p} {io.disp s})"
  | .fromDependencyOf p s q t => s!"dep({p} {io.disp s} {q} {io.disp t})"
  | .derivedFrom a b => s!"derived({a} {b})"
  | .custom p s m => s!"custom({p} {io.disp s} {m})"

def termsText (io : SetIO S) (terms : List (Pk × Term S)) : String :=
  ";".intercalate (sortStrings (terms.map fun (p, t) => p ++ " " ++ dispTerm io t))

def idsText (ids : List Nat) : String := " ".intercalate (ids.map toString)

def storeSnapshot (io : SetIO S) (st : State Pk S Nat String Nat) : String :=
  let entries := (List.zip (List.range st.store.length) st.store).map fun (id, inc) =>
    s!"I{id};{kindText io inc.kind};{termsText io inc.terms}"
  let idx := sortStrings (st.incompatibilities.map fun (p, ids) => s!"idx;{p};{idsText ids}")
  let merged := sortStrings (st.mergedDependencies.map fun ((p, q), ids) => s!"merged;{p} {q};{idsText ids}")
  " ## ".intercalate ("store" :: entries ++ idx ++ merged)

def psSnapshot (io : SetIO S) (ps : PartialSolution Pk S Nat Nat) : String :=
  let queue := ",".intercalate (sortStrings (ps.queue.map (·.1)))
  let head := s!"ps;dl={ps.currentDecisionLevel};next={ps.nextGlobalIndex};changed={ps.changed};bt={if ps.hasEverBacktracked then 1 else 0};queue={queue}"
  let pas := ps.assignments.map fun (p, pa) =>
    let cur := match pa.inter with
      | .decision g v _ => s!"D {g} {v}"
      | .derivations t => "T " ++ dispTerm io t
    let dds := pa.dated.map fun dd =>
      s!";dd {dd.globalIndex}/{dd.decisionLevel}/{dd.cause}/{dispTerm io dd.accumulated}"
    s!"pa;{p};{pa.smallest}..{pa.highest};{cur}" ++ String.join dds
  " ## ".intercalate (head :: pas)

partial def treeSexp (io : SetIO S) : DerivationTree Pk S Nat String → String
  | .external (.notRoot p v) => s!"(notroot {p} {v})"
  | .external (.noVersions p s) => s!"(novers {p} {io.disp s})"
  | .external (.fromDependencyOf p s q t) => s!"(dep {p} {io.disp s} {q} {io.disp t})"
  | .external (.custom p s m) => s!"(custom {p} {io.disp s} {m})"
  | .derived terms sid c1 c2 =>
    let sidT := match sid with | some i => toString i | none => "-"
    "(derived " ++ sidT ++ " {" ++ termsText io terms ++ "} " ++ treeSexp io c1 ++ " " ++ treeSexp io c2 ++ ")"

def parseDeps (io : SetIO S) (s : String) : Option (List (Pk × S)) :=
  if s == "" then some [] else
  (s.splitOn ",").mapM fun d =>
    match d.splitOn "=" with
    | [q, set] => (io.parse set).map fun x => (q, x)
    | _ => none

/-- text after the two-character tag -/
def payload (a : String) : String := (a.drop 2).toString

def parseAnswer (io : SetIO S) (a : String) : Option (An S) :=
  if a == "ok" then some .ok
  else if a.startsWith "E " || a == "E" then some (.error (payload a))
  else if a.startsWith "P " then (payload a).toNat?.map .priority
  else if a == "K -" then some (.picked none)
  else if a.startsWith "K " then some (.picked (some (payload a)))
  else if a == "V -" then some (.version none)
  else if a.startsWith "V " then (payload a).toNat?.map fun v => .version (some v)
  else if a.startsWith "U " || a == "U" then some (.unavailable (payload a))
  else if a.startsWith "A " || a == "A" then (parseDeps io (payload a)).map .available
  else none

def resultText (io : SetIO S) : Rq S → Option String
  | .solution sel =>
    some ("result ok " ++ ",".intercalate (sortStrings (sel.map fun (p, v) => s!"{p}={v}")))
  | .noSolution t => some ("result nosolution " ++ treeSexp io t)
  | .errorInShouldCancel e => some ("result err cancel " ++ e)
  | .errorChoosingPackageVersion e => some ("result err choose " ++ e)
  | .errorRetrievingDependencies p v e => some s!"result err deps {p} {v} {e}"
  | .failure m => some ("result failure " ++ m)
  | .fault (.panic _) => some "result panic"
  | .fault .outOfFuel => some "result outoffuel"
  | .protocolError m => some ("result protocol " ++ m)
  | _ => none

def requestText (io : SetIO S) : Rq S → Option String
  | .shouldCancel => some "cancel"
  | .prioritize p s => some s!"prio {p} {io.disp s}"
  | .chooseVersion p s => some s!"choose {p} {io.disp s}"
  | .getDependencies p v => some s!"deps {p} {v}"
  | _ => none

variable [VersionSet S Nat] [DecidableEq S]

/-- the replay loop -/
def replay (io : SetIO S) : (n : Nat) → St S → Rq S → List String → List String → List String
  | 0, _, _, _, out => out ++ ["result driver-fuel"]
  | n + 1, s, req, answers, out =>
    match resultText io req with
    | some r =>
      let snap := match req with
        | .solution _ | .noSolution _ => ["snap " ++ storeSnapshot io s.st]
        | _ => []
      out ++ snap ++ [r]
    | none =>
      let out := match requestText io req with
        | some t => out ++ [t]
        | none => out
      match answers with
      | [] => out ++ ["result desync answers exhausted"]
      | a :: rest =>
        match parseAnswer io a with
        | none => out ++ ["result desync unreadable answer " ++ a]
        | some ans =>
          let wasCancel := match s.phase, ans with
            | .cancel, .ok => true
            | _, _ => false
          let (s', req') := Solver.step s ans
          let out := match wasCancel, s'.phase with
            | true, .finished => out
            | true, _ => out ++ ["snap " ++ psSnapshot io s'.st.ps]
            | false, _ => out
          replay io n s' req' rest out

def solveLine (io : SetIO S) (debug : Bool) (root : String) (rv : Nat) (answers : String) : String :=
  let (s, req) := Solver.start (P := Pk) (S := S) (V := Nat) (M := String) (Pr := Nat) (E := String)
    debug 1000000 root rv
  let ans := if answers == "" then [] else answers.splitOn ";;"
  ";;".intercalate (replay io (ans.length + 5) s req ans [])

end Pubgrub.SolveDriver

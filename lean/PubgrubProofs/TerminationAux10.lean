/-
Helpers for `Termination.lean`, part 10: a derivation keeps the bundle of invariants and decreases the
measure; `propagateIncompats` keeps the bundle, does not increase the potential, and strictly decreases
the measure when it meets a trigger without ending in a conflict.
-/
import PubgrubProofs.TerminationAux9

set_option linter.unusedSectionVars false
set_option linter.unusedVariables false

namespace Pubgrub
open VersionSet

section
variable {P S V M Pr : Type} [DecidableEq P] [VersionSet S V] [DecidableEq S] [DecidableEq V]
  [LawfulVersionSet S V]
variable {W : World P S V M} {root : P} {rv : V} (fw : FiniteWorld W root rv)

/-- what the unit propagation may do to the measure, the global index and the buffer -/
structure Desc (st st' : State P S V M Pr) : Prop where
  rk : rank fw st'.ps ≤ rank fw st.ps
  idx : st'.ps.nextGlobalIndex + rank fw st'.ps ≤ st.ps.nextGlobalIndex + rank fw st.ps
  pot : 2 * rank fw st'.ps + st'.buffer.length ≤ 2 * rank fw st.ps + st.buffer.length

theorem Desc.refl (st : State P S V M Pr) : Desc fw st st :=
  ⟨Nat.le_refl _, Nat.le_refl _, Nat.le_refl _⟩

theorem Desc.trans {a b c : State P S V M Pr} (h1 : Desc fw a b) (h2 : Desc fw b c) : Desc fw a c :=
  ⟨Nat.le_trans h2.rk h1.rk, Nat.le_trans h2.idx h1.idx, Nat.le_trans h2.pot h1.pot⟩

theorem MInv.level_lt {st : State P S V M Pr} (hm : MInv fw st) : st.ps.currentDecisionLevel + 2 ≤ Dim fw :=
  level_lt_Dim fw hm.p.wf.wf (fun kv hkv => (hm.k.ps kv hkv).1.1)

theorem MInv.congr {st st' : State P S V M Pr} (hm : MInv fw st) (e1 : st'.ps = st.ps)
    (e2 : st'.store = st.store) (e3 : st'.rootPackage = st.rootPackage) (e4 : st'.rootVersion = st.rootVersion)
    (hc : ∀ kv ∈ st'.contradicted, kv.1 < st.store.length) : MInv fw st' := by
  refine ⟨⟨by rw [e2]; exact hm.s.store, by rw [e3]; exact hm.s.root, by rw [e4]; exact hm.s.rv,
    by rw [e1]; exact hm.s.ps⟩, ⟨by rw [e1]; exact hm.p.wf, by rw [e2]; exact hc⟩, hm.t.congr e1 e2,
    by rw [e1]; exact hm.ne, hm.k.congr fw (by rw [e1]) e2, ?_⟩
  exact hm.acc.storeExt (by rw [e1]) (by rw [e2]; exact fun _ _ h => h)

/-- the derivation made for an almost satisfied incompatibility -/
theorem MInv.almost (ce : CanonEmpty S V) {st : State P S V M Pr} (hm : MInv fw st) {id : Nat}
    {inc : Incompat P S V M} (hinc : st.store[id]? = some inc) {p : P}
    (hrel : st.ps.relation inc = .almostSatisfied p)
    {ps : PartialSolution P S V Pr} (hps : st.ps.addDerivation p id st.store = .ok ps)
    (buffer : List P) (lvl : Nat) :
    MInv fw ({ st with buffer := buffer, ps := ps, contradicted := SmallMap.insert st.contradicted id lvl } :
      State P S V M Pr) ∧
    rank fw ps < rank fw st.ps ∧ ps.nextGlobalIndex = st.ps.nextGlobalIndex + 1 := by
  have hs := hm.s
  have hp := hm.p
  have ht := hm.t
  have hw := hp.wf
  have gi := hs.store id inc hinc
  have hid : id < st.store.length := (List.getElem?_eq_some_iff.1 hinc).1
  obtain ⟨_, t, hpt, hself⟩ := Incompat.relationGo_almost _ p inc.terms hrel
  have hget : inc.get p = some t := SmallMap.get_of_mem gi.nodup hpt
  have htv : t.Valid := gi.sets p t hpt
  obtain ⟨_, _, _, _, _, _, _, hstep⟩ := PartialSolution.addDerivation_step W root rv hs.store hw.wf hps
  refine ⟨⟨⟨hs.store, hs.root, hs.rv, PartialSolution.addDerivation_termsValid W root rv hs.store hs.ps hps⟩,
    hp.derive hid hps _ _, (State.almost_derivation W root rv hs hp ht hinc hrel).2 ps hps _ rfl rfl,
    State.almost_ne ce W root rv hs hinc hrel hm.ne hps, hm.k.derive fw hs hw.wf hps rfl rfl,
    hm.acc.derive hs hw hps rfl rfl⟩, ?_, hstep.next⟩
  refine rank_addDerivation fw hw hs.ps hps hinc hget htv (hm.k.get fw hinc hget)
    (fun o ho => hm.k.terms fw ho) ?_ (by have := hm.level_lt fw; omega)
  intro o ho
  have ho' : st.ps.termIntersectionForPackage p = some o := ho
  rcases hself with hn | ⟨o', ho'', hinc'⟩
  · rw [ho'] at hn; cases hn
  · rw [ho'] at ho''; injection ho'' with ho''; subst ho''
    have hov : o.Valid := PartialSolution.termIntersection_valid hs.ps ho'
    have h2 := ((Term.relationWith_inconclusive_iff t o htv hov).1 hinc').2
    apply Classical.byContradiction
    intro hno
    apply h2
    intro c ⟨hc1, hc2⟩
    exact hno ⟨c, hc2, hc1⟩

namespace State

/-- `propagateIncompats` keeps the invariants and does not increase the potential; a trigger among the
ids makes it end in a conflict or strictly decrease the measure -/
theorem propagateIncompats_term (ce : CanonEmpty S V) :
    ∀ (ids : List Nat) (st : State P S V M Pr), MInv fw st →
    ∀ {st' : State P S V M Pr} {r : Option Nat}, propagateIncompats st ids = .ok (st', r) →
    MInv fw st' ∧ Desc fw st st' ∧
    (∀ id, r = some id → ∃ inc, st'.store[id]? = some inc ∧ st'.ps.relation inc = .satisfied) ∧
    (∀ p id0, Trigger st p id0 → id0 ∈ ids → r = none → rank fw st'.ps < rank fw st.ps) := by
  intro ids
  induction ids with
  | nil =>
    intro st hm st' r hr
    simp only [propagateIncompats] at hr
    injection hr with hr; injection hr with h1 h2; subst h1; subst h2
    exact ⟨hm, Desc.refl fw st, fun id h => (by cases h), fun p id0 _ h _ => (by cases h)⟩
  | cons id rest ih =>
    intro st hm st' r hr
    have hs := hm.s
    have hp := hm.p
    unfold propagateIncompats at hr
    split at hr
    · rename_i hck
      obtain ⟨h1, h2, h3, h4⟩ := ih st hm hr
      refine ⟨h1, h2, h3, ?_⟩
      intro p id0 htr hid0 hrn
      have hne : id0 ≠ id := by
        intro e; subst e
        unfold SmallMap.containsKey at hck
        rw [htr.1] at hck; cases hck
      exact h4 p id0 htr (by
        rcases List.mem_cons.1 hid0 with e | e
        · exact absurd e hne
        · exact e) hrn
    split at hr
    · cases hr
    rename_i inc hinc
    have hlt := storeGet_lt hinc
    have hinc' := storeGet_ok hinc
    -- if the head is the trigger, the relation is `satisfied` or `almostSatisfied p`
    have hrel : ∀ p id0, Trigger st p id0 → id = id0 →
        st.ps.relation inc = .satisfied ∨ st.ps.relation inc = .almostSatisfied p := by
      intro p id0 htr e; subst e; exact Trigger.relation W root rv hs.store htr hinc'
    have hmem : ∀ id0, id0 ∈ id :: rest → id ≠ id0 → id0 ∈ rest := by
      intro id0 hid0 hne
      rcases List.mem_cons.1 hid0 with e | e
      · exact absurd e.symm hne
      · exact e
    split at hr
    · rename_i hsat
      injection hr with hr; injection hr with h1 h2; subst h1; subst h2
      exact ⟨hm, Desc.refl fw st, fun id' h => (by injection h with h; subst h; exact ⟨inc, hinc', hsat⟩),
        fun p id0 _ _ h => (by cases h)⟩
    · rename_i q hq'
      split at hr
      · cases hr
      rename_i ps hps
      obtain ⟨hm1, hrank, hnext⟩ := hm.almost fw ce hinc' hq' hps
        (if st.buffer.contains q then st.buffer else st.buffer ++ [q]) ps.currentDecisionLevel
      obtain ⟨h1, h2, h3, _⟩ := ih _ hm1 hr
      have hd1 : Desc fw st ({ st with
          buffer := if st.buffer.contains q then st.buffer else st.buffer ++ [q], ps := ps,
          contradicted := SmallMap.insert st.contradicted id ps.currentDecisionLevel } : State P S V M Pr) := by
        refine ⟨Nat.le_of_lt hrank, ?_, ?_⟩
        · show ps.nextGlobalIndex + rank fw ps ≤ _
          omega
        · show 2 * rank fw ps + (if st.buffer.contains q then st.buffer else st.buffer ++ [q]).length ≤ _
          split
          · omega
          · simp only [List.length_append, List.length_cons, List.length_nil]; omega
      refine ⟨h1, hd1.trans fw h2, h3, ?_⟩
      intro p id0 _ _ _
      exact Nat.lt_of_le_of_lt h2.rk hrank
    · rename_i q hq'
      have hm1 : MInv fw ({ st with
          contradicted := SmallMap.insert st.contradicted id st.ps.currentDecisionLevel } : State P S V M Pr) :=
        hm.congr fw rfl rfl rfl rfl (hp.cacheInsert hlt _).cache
      obtain ⟨h1, h2, h3, h4⟩ := ih _ hm1 hr
      refine ⟨h1, ⟨h2.rk, h2.idx, h2.pot⟩, h3, ?_⟩
      intro p id0 htr hid0 hrn
      have hne : id ≠ id0 := by
        intro e
        rcases hrel p id0 htr e with e' | e'
        · rw [hq'] at e'; cases e'
        · rw [hq'] at e'; cases e'
      exact h4 p id0 (htr.cache hne _) (hmem id0 hid0 hne) hrn
    · rename_i hq'
      obtain ⟨h1, h2, h3, h4⟩ := ih st hm hr
      refine ⟨h1, h2, h3, ?_⟩
      intro p id0 htr hid0 hrn
      have hne : id ≠ id0 := by
        intro e
        rcases hrel p id0 htr e with e' | e'
        · rw [hq'] at e'; cases e'
        · rw [hq'] at e'; cases e'
      exact h4 p id0 htr (hmem id0 hid0 hne) hrn

end State
end
end Pubgrub

/-
Property C17 and the link that makes every theorem stated for a `LawfulVersionSet` apply to the two
concrete implementations of the model:

1. `Range V` over a non-empty dense linear order without end points is a `LawfulVersionSet`
   (`Range.lawful`), with `Valid := Range.WF`; over any linear order it satisfies the weaker
   `LawfulVersionSetStructural` (`Range.lawfulStructural`), and the pointwise characterisations of
   `is_disjoint` / `subset_of` are false over `Nat` (`Range.isDisjoint_iff_needs_dense`,
   `Range.subsetOf_iff_needs_dense`).
2. `BitSet n` with versions `Fin n`, which writes only the five required methods, is a
   `LawfulRequired` (`BitSet.lawfulRequired`) hence a `LawfulVersionSet` (`BitSet.lawful`).
3. `C17_*`: for any implementation of the five required methods satisfying `LawfulRequired`, the
   provided bodies of `full`, `union`, `is_disjoint`, `subset_of` are correct.
-/
import PubgrubProofs.RangeSet
import PubgrubProofs.RangeRel
import PubgrubProofs.TermLaws

set_option linter.unusedSectionVars false

namespace Pubgrub
open VersionSet

/-! ### 1. `Range` -/

section Structural

/-- The laws that hold for `Range` over *any* linear order: identical to `LawfulVersionSet` except
that `is_disjoint` and `subset_of` are characterised structurally (through the canonical result of
`intersection`) rather than pointwise. -/
class LawfulVersionSetStructural (S V : Type) [VersionSet S V] where
  Valid : S → Prop
  valid_empty : Valid (empty : S)
  valid_singleton : ∀ v : V, Valid (singleton v : S)
  valid_complement : ∀ s : S, Valid s → Valid (complement s)
  valid_intersection : ∀ a b : S, Valid a → Valid b → Valid (intersection a b)
  valid_full : Valid (full : S)
  valid_union : ∀ a b : S, Valid a → Valid b → Valid (union a b)
  contains_empty : ∀ v : V, contains (empty : S) v = false
  contains_singleton : ∀ v w : V, contains (singleton v : S) w = true ↔ w = v
  contains_complement : ∀ (s : S) (v : V), Valid s → contains (complement s) v = !contains s v
  contains_intersection : ∀ (a b : S) (v : V), Valid a → Valid b →
    contains (intersection a b) v = (contains a v && contains b v)
  contains_full : ∀ v : V, contains (full : S) v = true
  contains_union : ∀ (a b : S) (v : V), Valid a → Valid b →
    contains (union a b) v = (contains a v || contains b v)
  isDisjoint_iff_inter : ∀ a b : S, Valid a → Valid b →
    (isDisjoint a b = true ↔ intersection a b = (empty : S))
  subsetOf_iff_inter : ∀ a b : S, Valid a → Valid b →
    (subsetOf a b = true ↔ intersection a b = a)

end Structural

namespace Range
open Bound
variable {V : Type} [LinearOrder V]

/-- `Range` over any linear order: all membership laws, and the dedicated `is_disjoint` /
`subset_of` sweeps agree with the `intersection` sweep. -/
instance lawfulStructural : LawfulVersionSetStructural (Range V) V where
  Valid := Range.WF
  valid_empty := wf_empty
  valid_singleton := wf_singleton
  valid_complement := wf_complement
  valid_intersection := wf_intersection
  valid_full := wf_full
  valid_union := wf_union
  contains_empty := contains_empty
  contains_singleton := contains_singleton
  contains_complement := fun s v hs => contains_complement s hs v
  contains_intersection := fun a b v ha hb => contains_intersection a b ha hb v
  contains_full := contains_full
  contains_union := fun a b v ha hb => contains_union a b ha hb v
  isDisjoint_iff_inter := fun a b ha hb => isDisjoint_iff_inter_empty a b ha hb
  subsetOf_iff_inter := fun a b ha hb => subsetOf_iff_inter_eq a b ha hb

/-- soundness half of the pointwise characterisation of `is_disjoint`, in any linear order -/
theorem isDisjoint_sound (a b : Range V) (ha : WF a) (hb : WF b)
    (h : Range.isDisjoint a b = true) (v : V) :
    ¬ (Range.contains a v = true ∧ Range.contains b v = true) := by
  rw [isDisjoint_iff_inter_empty a b ha hb] at h
  intro hv
  have := contains_intersection a b ha hb v
  rw [h, hv.1, hv.2] at this
  simp [Range.contains] at this

/-- soundness half of the pointwise characterisation of `subset_of`, in any linear order -/
theorem subsetOf_sound (a b : Range V) (ha : WF a) (hb : WF b)
    (h : Range.subsetOf a b = true) (v : V) (hv : Range.contains a v = true) :
    Range.contains b v = true := by
  rw [subsetOf_iff_inter_eq a b ha hb] at h
  have := contains_intersection a b ha hb v
  rw [h, hv] at this
  simpa using this.symm

theorem contains_eq_iff_mem (a b : Range V) :
    (∀ v, Range.contains a v = Range.contains b v) ↔ ∀ v, Range.Mem v a ↔ Range.Mem v b := by
  constructor
  · intro h v
    rw [← contains_iff_mem, ← contains_iff_mem, h v]
  · intro h v
    rw [Bool.eq_iff_iff, contains_iff_mem, contains_iff_mem]
    exact h v

section Dense
variable [DenselyOrdered V] [NoMinOrder V] [NoMaxOrder V] [Nonempty V]

/-- canonical equality: canonical ranges with the same members are equal (dense order) -/
theorem ext_valid {a b : Range V} (ha : WF a) (hb : WF b)
    (h : ∀ v, Range.contains a v = Range.contains b v) : a = b :=
  ext_of_dense a b ha hb ((contains_eq_iff_mem a b).1 h)

/-- `is_disjoint` agrees with its pointwise definition on canonical ranges (dense order) -/
theorem isDisjoint_iff_pointwise (a b : Range V) (ha : WF a) (hb : WF b) :
    Range.isDisjoint a b = true ↔
      ∀ v, ¬ (Range.contains a v = true ∧ Range.contains b v = true) := by
  constructor
  · exact isDisjoint_sound a b ha hb
  · intro h
    rw [isDisjoint_iff_inter_empty a b ha hb]
    by_contra hne
    obtain ⟨v, hv⟩ := exists_mem_of_ne_nil _ (wf_intersection a b ha hb) hne
    have hc := (contains_iff_mem _ v).2 hv
    rw [contains_intersection a b ha hb v, Bool.and_eq_true] at hc
    exact h v hc

/-- `subset_of` agrees with its pointwise definition on canonical ranges (dense order) -/
theorem subsetOf_iff_pointwise (a b : Range V) (ha : WF a) (hb : WF b) :
    Range.subsetOf a b = true ↔
      ∀ v, Range.contains a v = true → Range.contains b v = true := by
  constructor
  · exact subsetOf_sound a b ha hb
  · intro h
    rw [subsetOf_iff_inter_eq a b ha hb]
    apply ext_valid (wf_intersection a b ha hb) ha
    intro v
    rw [contains_intersection a b ha hb v]
    cases hav : Range.contains a v
    · simp
    · simp [h v hav]

/-- **`Range` is a lawful version set** over a non-empty dense linear order without end points,
on the canonical segment lists. -/
instance lawful : LawfulVersionSet (Range V) V where
  Valid := Range.WF
  valid_empty := wf_empty
  valid_singleton := wf_singleton
  valid_complement := wf_complement
  valid_intersection := wf_intersection
  valid_full := wf_full
  valid_union := wf_union
  contains_empty := contains_empty
  contains_singleton := contains_singleton
  contains_complement := fun s v hs => contains_complement s hs v
  contains_intersection := fun a b v ha hb => contains_intersection a b ha hb v
  contains_full := contains_full
  contains_union := fun a b v ha hb => contains_union a b ha hb v
  isDisjoint_iff := isDisjoint_iff_pointwise
  subsetOf_iff := subsetOf_iff_pointwise

/-- the validity predicate of the instance is `WF` (definitional) -/
theorem lawful_valid_iff (r : Range V) : LawfulVersionSet.Valid V r ↔ Range.WF r := Iff.rfl

/-- `Range` also satisfies the required-methods class (canonical equality included) -/
instance lawfulRequired : LawfulRequired (Range V) V where
  Valid := Range.WF
  valid_empty := wf_empty
  valid_singleton := wf_singleton
  valid_complement := wf_complement
  valid_intersection := wf_intersection
  contains_empty := contains_empty
  contains_singleton := contains_singleton
  contains_complement := fun s v hs => contains_complement s hs v
  contains_intersection := fun a b v ha hb => contains_intersection a b ha hb v
  ext := fun _ _ ha hb h => ext_valid ha hb h

end Dense

/-! Density is genuinely needed for the pointwise characterisations: over `Nat` the canonical
range `(excl 1, excl 2)` is a non-empty segment list without points. -/

theorem isDisjoint_iff_needs_dense :
    ¬ (∀ a b : Range Nat, WF a → WF b →
        (Range.isDisjoint a b = true ↔
          ∀ v, ¬ (Range.contains a v = true ∧ Range.contains b v = true))) := by
  intro h
  have hw : WF ([(excl 1, excl 2)] : Range Nat) := by
    simp [WF, checkInvariants, validSegment]
  have h1 := (h [(excl 1, excl 2)] [(excl 1, excl 2)] hw hw).2 (by
    intro v hv
    have := (contains_iff_mem _ v).1 hv.1
    simp [Range.Mem, Seg.Mem, Bound.aboveStart, Bound.belowEnd] at this
    omega)
  rw [isDisjoint_iff_inter_empty _ _ hw hw] at h1
  simp [Range.intersection, Range.interStart, validSegment, leftEndIsSmaller] at h1

theorem subsetOf_iff_needs_dense :
    ¬ (∀ a b : Range Nat, WF a → WF b →
        (Range.subsetOf a b = true ↔
          ∀ v, Range.contains a v = true → Range.contains b v = true)) := by
  intro h
  have hw : WF ([(excl 1, excl 2)] : Range Nat) := by
    simp [WF, checkInvariants, validSegment]
  have h1 := (h [(excl 1, excl 2)] [] hw wf_empty).2 (by
    intro v hv
    have := (contains_iff_mem _ v).1 hv
    simp [Range.Mem, Seg.Mem, Bound.aboveStart, Bound.belowEnd] at this
    omega)
  have h2 := (subsetOf_iff_inter_eq _ _ hw wf_empty).1 h1
  simp [Range.intersection, Range.empty] at h2

end Range

/-! ### 3. C17, generic form: the provided methods of the trait -/

section C17
variable {S V : Type} [DecidableEq S]
variable (empty : S) (singleton : V → S) (complement : S → S) (intersection : S → S → S)
  (contains : S → V → Bool)
  (R : @LawfulRequired S V (VersionSet.ofRequired empty singleton complement intersection contains))
include R

/-- provided `full()` contains every version -/
theorem C17_full (v : V) :
    contains (VersionSet.Default.full empty complement) v = true :=
  (lawful_ofRequired empty singleton complement intersection contains R).contains_full v

/-- provided `full()` is valid -/
theorem C17_full_valid : R.Valid (VersionSet.Default.full empty complement) :=
  (lawful_ofRequired empty singleton complement intersection contains R).valid_full

/-- provided `union()` is the pointwise "or" -/
theorem C17_union (a b : S) (ha : R.Valid a) (hb : R.Valid b) (v : V) :
    contains (VersionSet.Default.union complement intersection a b) v =
      (contains a v || contains b v) :=
  (lawful_ofRequired empty singleton complement intersection contains R).contains_union a b v ha hb

/-- provided `union()` is valid -/
theorem C17_union_valid (a b : S) (ha : R.Valid a) (hb : R.Valid b) :
    R.Valid (VersionSet.Default.union complement intersection a b) :=
  (lawful_ofRequired empty singleton complement intersection contains R).valid_union a b ha hb

/-- provided `is_disjoint()` is true exactly when no version is in both -/
theorem C17_isDisjoint (a b : S) (ha : R.Valid a) (hb : R.Valid b) :
    VersionSet.Default.isDisjoint empty intersection a b = true ↔
      ∀ v : V, ¬ (contains a v = true ∧ contains b v = true) :=
  (lawful_ofRequired empty singleton complement intersection contains R).isDisjoint_iff a b ha hb

/-- provided `subset_of()` is true exactly when every version of `a` is in `b` -/
theorem C17_subsetOf (a b : S) (ha : R.Valid a) (hb : R.Valid b) :
    VersionSet.Default.subsetOf intersection a b = true ↔
      ∀ v : V, contains a v = true → contains b v = true :=
  (lawful_ofRequired empty singleton complement intersection contains R).subsetOf_iff a b ha hb

/-- **C17**: a custom implementation that writes only the five required methods, lawfully and
with canonical equality, gets correct `full`, `union`, `is_disjoint`, `subset_of`. -/
theorem C17_provided_methods :
    (∀ v : V, contains (VersionSet.Default.full empty complement) v = true) ∧
    (∀ a b : S, R.Valid a → R.Valid b → ∀ v : V,
      contains (VersionSet.Default.union complement intersection a b) v =
        (contains a v || contains b v)) ∧
    (∀ a b : S, R.Valid a → R.Valid b →
      (VersionSet.Default.isDisjoint empty intersection a b = true ↔
        ∀ v : V, ¬ (contains a v = true ∧ contains b v = true))) ∧
    (∀ a b : S, R.Valid a → R.Valid b →
      (VersionSet.Default.subsetOf intersection a b = true ↔
        ∀ v : V, contains a v = true → contains b v = true)) :=
  ⟨C17_full empty singleton complement intersection contains R,
   fun a b ha hb v => C17_union empty singleton complement intersection contains R a b ha hb v,
   C17_isDisjoint empty singleton complement intersection contains R,
   C17_subsetOf empty singleton complement intersection contains R⟩

end C17

/-! ### 2. `BitSet n` over the versions `Fin n` -/

namespace BitSet
variable {n : Nat}

/-- the bit set as a version set over its own universe `Fin n`, writing only the five required
methods (all four provided methods are the trait's default bodies) -/
@[reducible] def instVersionSetBitSetFin (n : Nat) : VersionSet (BitSet n) (Fin n) :=
  VersionSet.ofRequired BitSet.empty (fun v => BitSet.singleton v.val) BitSet.complement
    BitSet.intersection (fun s v => s.contains v.val)

attribute [local instance] instVersionSetBitSetFin

/-- validity: the list has exactly `n` bits -/
def Valid (s : BitSet n) : Prop := s.bits.length = n

theorem valid_empty : Valid (BitSet.empty : BitSet n) := by
  simp [Valid, BitSet.empty]
theorem valid_singleton (v : Nat) : Valid (BitSet.singleton v : BitSet n) := by
  simp [Valid, BitSet.singleton]
theorem valid_complement (s : BitSet n) (h : Valid s) : Valid (BitSet.complement s) := by
  simpa [Valid, BitSet.complement] using h
theorem valid_intersection (a b : BitSet n) (ha : Valid a) (hb : Valid b) :
    Valid (BitSet.intersection a b) := by
  simp only [Valid] at ha hb
  simp [Valid, BitSet.intersection, ha, hb]

theorem contains_empty (v : Nat) : (BitSet.empty : BitSet n).contains v = false := by
  simp only [BitSet.empty, BitSet.contains, List.getD_eq_getElem?_getD, List.getElem?_replicate]
  split <;> rfl

theorem contains_singleton (v w : Nat) (hw : w < n) :
    (BitSet.singleton v : BitSet n).contains w = true ↔ w = v := by
  simp [BitSet.singleton, BitSet.contains, List.getD_eq_getElem?_getD, hw]

/-- the five required methods are lawful, with canonical equality -/
@[reducible] def lawfulRequired (n : Nat) : LawfulRequired (BitSet n) (Fin n) where
  Valid := Valid
  valid_empty := valid_empty
  valid_singleton := fun v => valid_singleton v.val
  valid_complement := valid_complement
  valid_intersection := valid_intersection
  contains_empty := fun v => contains_empty v.val
  contains_singleton := fun v w => by
    show (BitSet.singleton v.val : BitSet n).contains w.val = true ↔ w = v
    rw [contains_singleton v.val w.val w.isLt, Fin.ext_iff]
  contains_complement := fun s v hs => BitSet.contains_complement s hs v.val v.isLt
  contains_intersection := fun a b v ha hb => BitSet.contains_intersection a b ha hb v.val
  ext := fun a b ha hb h => BitSet.ext a b ha hb fun v hv => h ⟨v, hv⟩

/-- **C17 for the bit set**: hence all nine methods are lawful -/
@[reducible] def lawful (n : Nat) : LawfulVersionSet (BitSet n) (Fin n) :=
  lawful_ofRequired _ _ _ _ _ (lawfulRequired n)

attribute [local instance] lawful

theorem lawful_valid_iff (s : BitSet n) :
    LawfulVersionSet.Valid (Fin n) s ↔ s.bits.length = n := Iff.rfl

/-- provided `full()` of the bit set contains every version of the universe -/
theorem full_spec (v : Fin n) :
    (VersionSet.full : BitSet n).bits.length = n ∧
      VersionSet.contains (VersionSet.full : BitSet n) v = true :=
  ⟨(lawful n).valid_full, (lawful n).contains_full v⟩

/-- provided `union()` of the bit set is the pointwise "or" -/
theorem union_spec (a b : BitSet n) (ha : a.bits.length = n) (hb : b.bits.length = n)
    (v : Fin n) :
    (VersionSet.union a b).bits.length = n ∧
      VersionSet.contains (VersionSet.union a b) v =
        (VersionSet.contains a v || VersionSet.contains b v) :=
  ⟨(lawful n).valid_union a b ha hb, (lawful n).contains_union a b v ha hb⟩

/-- provided `is_disjoint()` of the bit set -/
theorem isDisjoint_spec (a b : BitSet n) (ha : a.bits.length = n) (hb : b.bits.length = n) :
    VersionSet.isDisjoint a b = true ↔
      ∀ v : Fin n, ¬ (VersionSet.contains a v = true ∧ VersionSet.contains b v = true) :=
  (lawful n).isDisjoint_iff a b ha hb

/-- provided `subset_of()` of the bit set -/
theorem subsetOf_spec (a b : BitSet n) (ha : a.bits.length = n) (hb : b.bits.length = n) :
    VersionSet.subsetOf a b = true ↔
      ∀ v : Fin n, VersionSet.contains a v = true → VersionSet.contains b v = true :=
  (lawful n).subsetOf_iff a b ha hb

/-- the same four statements with the model's functions spelled out (no instance in sight) -/
theorem provided_spec_unfolded (a b : BitSet n) (ha : a.bits.length = n) (hb : b.bits.length = n) :
    (∀ v : Fin n, (BitSet.complement (BitSet.empty : BitSet n)).contains v.val = true) ∧
    (∀ v : Fin n,
      (BitSet.complement (BitSet.intersection (BitSet.complement a) (BitSet.complement b))).contains
        v.val = (a.contains v.val || b.contains v.val)) ∧
    ((BitSet.intersection a b == BitSet.empty) = true ↔
      ∀ v : Fin n, ¬ (a.contains v.val = true ∧ b.contains v.val = true)) ∧
    ((a == BitSet.intersection a b) = true ↔
      ∀ v : Fin n, a.contains v.val = true → b.contains v.val = true) :=
  ⟨fun v => (full_spec v).2, fun v => (union_spec a b ha hb v).2, isDisjoint_spec a b ha hb,
   subsetOf_spec a b ha hb⟩

/-- non-vacuity: a concrete run of the four provided methods over `Fin 3` -/
example :
    let a : BitSet 3 := ⟨[true, false, false]⟩
    let b : BitSet 3 := ⟨[false, true, false]⟩
    (VersionSet.full : BitSet 3) = ⟨[true, true, true]⟩ ∧
    VersionSet.union a b = ⟨[true, true, false]⟩ ∧
    VersionSet.isDisjoint a b = true ∧
    VersionSet.subsetOf a (VersionSet.union a b) = true ∧
    VersionSet.subsetOf (VersionSet.union a b) a = false := by
  decide

end BitSet

end Pubgrub

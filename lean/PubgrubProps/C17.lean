/-
Property C17 — VersionSet provided methods are correct and the solver is generic over them.

(a) For ANY implementation whose five required methods behave as set operations with canonical
equality (`LawfulRequired`), the trait's provided bodies of `full`, `union`, `is_disjoint`, `subset_of`
(`VersionSet.Default.*`, transcribed from `/repo/src/version_set.rs`) compute the universe, the union,
emptiness of the intersection and inclusion.  Instantiated for the finite bit set (the custom
implementation the harness runs through the real `resolve`) and for `Range` (which overrides them).
(b) "resolve gives the guarantees C01–C05 with such an implementation exactly as with Range": the
solver model never mentions `Range`; every solver theorem is stated for an arbitrary `LawfulVersionSet`
(some with `CanonicalEmpty`), and `lawful_ofRequired` / `canonicalEmpty_ofRequired` turn a
`LawfulRequired` implementation into one.  `C17_solver_guarantees` spells the clause out: for ANY
implementation of the five required methods that is lawful with canonical equality, `resolve` returns
only valid solutions all of whose packages are reachable from the root (C01, C04), reports `NoSolution`
only when no solution exists, with a checkable derivation tree (C02, C03), never panics (debug assertions included) and never returns `Failure`
(C05), and over a finite registry returns within a bounded number of calls (C05).
-/
import PubgrubProofs.VSetInstances
import PubgrubProofs.CanonInstances
import PubgrubProofs.Decides
import PubgrubProofs.ReachabilityC04
import PubgrubProofs.TreeSound

set_option linter.unusedSectionVars false
set_option warn.classDefReducibility false
namespace Pubgrub.C17
open Pubgrub

variable {S V : Type} [DecidableEq S]

/-- (a) the four provided methods -/
theorem C17_provided (empty : S) (singleton : V → S) (complement : S → S)
    (intersection : S → S → S) (contains : S → V → Bool)
    (R : @LawfulRequired S V (VersionSet.ofRequired empty singleton complement intersection contains)) :
    (∀ v : V, contains (VersionSet.Default.full empty complement) v = true) ∧
    (∀ a b : S, R.Valid a → R.Valid b → ∀ v : V,
      contains (VersionSet.Default.union complement intersection a b) v = (contains a v || contains b v)) ∧
    (∀ a b : S, R.Valid a → R.Valid b →
      (VersionSet.Default.isDisjoint empty intersection a b = true ↔
        ∀ v : V, ¬ (contains a v = true ∧ contains b v = true))) ∧
    (∀ a b : S, R.Valid a → R.Valid b →
      (VersionSet.Default.subsetOf intersection a b = true ↔
        ∀ v : V, contains a v = true → contains b v = true)) :=
  ⟨C17_full empty singleton complement intersection contains R,
   fun a b ha hb v => C17_union empty singleton complement intersection contains R a b ha hb v,
   fun a b ha hb => C17_isDisjoint empty singleton complement intersection contains R a b ha hb,
   fun a b ha hb => C17_subsetOf empty singleton complement intersection contains R a b ha hb⟩

/-- (b) such an implementation is a lawful version set in the sense every solver theorem assumes -/
def C17_lawful (empty : S) (singleton : V → S) (complement : S → S)
    (intersection : S → S → S) (contains : S → V → Bool)
    (R : @LawfulRequired S V (VersionSet.ofRequired empty singleton complement intersection contains)) :
    @LawfulVersionSet S V (VersionSet.ofRequired empty singleton complement intersection contains) :=
  lawful_ofRequired empty singleton complement intersection contains R

/-- the bit set over `Fin n` is such an implementation -/
def C17_bitset_lawful (n : Nat) : @LawfulVersionSet (BitSet n) (Fin n) (BitSet.instVersionSetBitSetFin n) :=
  BitSet.lawful n

/-- `Range` over a dense order without end points is one too (with its overriding sweeps) -/
def C17_range_lawful {V : Type} [LinearOrder V] [DenselyOrdered V] [NoMinOrder V] [NoMaxOrder V]
    [Nonempty V] : LawfulVersionSet (Range V) V := Range.lawful

/-- (b) spelled out: the guarantees C01–C05 for any lawful implementation of the five required methods -/
theorem C17_solver_guarantees {P M Pr E : Type} [DecidableEq P] [DecidableEq V] [LE Pr] [DecidableLE Pr]
    (empty : S) (singleton : V → S) (complement : S → S)
    (intersection : S → S → S) (contains : S → V → Bool)
    (R : @LawfulRequired S V (VersionSet.ofRequired empty singleton complement intersection contains)) :
    letI := VersionSet.ofRequired empty singleton complement intersection contains
    letI := lawful_ofRequired empty singleton complement intersection contains R
    ∀ (W : World P S V M) (_hW : W.SetsValid) (root : P) (rv : V),
      -- C01, C04
      (∀ debug fuel (s : SolverState P S V M Pr) sel,
        ReachableWB (E := E) W debug fuel root rv (s, .solution sel) →
          IsSolution W root rv (fun p => SmallMap.get sel p) ∧
          ∀ p v, SmallMap.get sel p = some v → ReachableFrom W root (fun q => SmallMap.get sel q) p) ∧
      -- C02, C03
      (∀ debug fuel (s : SolverState P S V M Pr) tree,
        Reachable (E := E) W debug fuel root rv (s, .noSolution tree) →
          (¬ ∃ σ : P → Option V, IsSolution W root rv σ) ∧ tree.Checkable W root rv) ∧
      -- C05: no panic, no Failure
      (∀ debug fuel (s : SolverState P S V M Pr) site,
        ¬ Reachable (E := E) W debug fuel root rv (s, .fault (.panic site))) ∧
      (∀ debug fuel (s : SolverState P S V M Pr) msg,
        ¬ ReachableWB (E := E) W debug fuel root rv (s, .failure msg)) ∧
      -- C05 + C02: returns within a bounded number of calls, with the answer the registry decides
      (∀ (_fw : FiniteWorld W root rv) (debug : Bool),
        ∃ N fuel0 : Nat, ∀ fuel, fuel0 ≤ fuel → ∀ as : List (Answer P S V M Pr E), N ≤ as.length →
          WellBehavedRun W debug fuel root rv as →
          ∃ k, k ≤ N ∧
            (Solver.after (Solver.start debug fuel root rv) (as.take k)).2.isFinal = true ∧
            (∀ j, j < k → (Solver.after (Solver.start debug fuel root rv) (as.take j)).2.isFinal = false) ∧
            DecidedBy W root rv (Solver.after (Solver.start debug fuel root rv) (as.take k)).2) := by
  letI := VersionSet.ofRequired empty singleton complement intersection contains
  letI := lawful_ofRequired empty singleton complement intersection contains R
  haveI := canonicalEmpty_ofRequired empty singleton complement intersection contains R
  intro W hW root rv
  refine ⟨?_, ?_, ?_, ?_, ?_⟩
  · intro debug fuel s sel h
    exact ⟨(solution_valid W hW debug fuel root rv s sel h).1,
      fun p v hp => solution_reachable W hW debug fuel root rv s sel h p v hp⟩
  · intro debug fuel s tree h
    refine ⟨noSolution_sound W hW debug fuel root rv s tree h, ?_⟩
    obtain ⟨terminal, inc, hinc, _, hbuild, hinv, _, _⟩ :=
      noSolution_tree_origin W hW debug fuel root rv s tree h
    exact (buildDerivationTree_checkable W root rv s.st hinv terminal inc hinc tree hbuild).1
  · intro debug fuel s site
    exact no_panic W hW debug fuel root rv s site
  · intro debug fuel s msg h
    exact failure_only_out_of_set W hW debug fuel root rv s msg h
  · intro fw debug
    exact resolve_returns W hW root rv fw debug

end Pubgrub.C17

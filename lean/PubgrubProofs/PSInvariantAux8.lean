/-
Helpers for `PSInvariant.lean`, part 8: after `choose_version` answered `None`, or the dependencies
were `Unavailable`, the new incompatibility is a trigger for the package in flight.
-/
import PubgrubProofs.PSInvariantAux7

set_option linter.unusedSectionVars false
set_option linter.unusedVariables false

namespace Pubgrub
open VersionSet

section PS
variable {P S V M Pr : Type} [DecidableEq P] [VersionSet S V] [DecidableEq S]
  [LawfulVersionSet S V]

theorem Term.relationWith_ne_contradicted_of_common (tp cur : Term S) (v : V) (h1 : tp.Valid) (h2 : cur.Valid)
    (hv1 : tp.contains v = true) (hv2 : cur.contains v = true) : tp.relationWith cur ≠ .contradicted := by
  intro h
  have := ((Term.relationWith_contradicted_iff tp cur h1 h2).1 h).2 (some v)
  rw [Term.contains_eq_eval] at hv1 hv2
  exact this ⟨hv1, hv2⟩

namespace State

theorem get_updIndex_self (idx : List (P × List Nat)) (p : P) (f : List Nat → List Nat) :
    SmallMap.get (updIndex idx p f) p = some (f ((SmallMap.get idx p).getD [])) := by
  unfold updIndex
  cases h : SmallMap.get idx p with
  | none => simp only [SmallMap.get_insert, if_true, Option.getD_none]
  | some ids => simp only [SmallMap.get_insert, if_true, Option.getD_some]

theorem get_updIndex_ne (idx : List (P × List Nat)) (p q : P) (f : List Nat → List Nat) (h : q ≠ p) :
    SmallMap.get (updIndex idx p f) q = SmallMap.get idx q := by
  unfold updIndex
  cases h' : SmallMap.get idx p with
  | none => simp only [SmallMap.get_insert, if_neg h]
  | some ids => simp only [SmallMap.get_insert, if_neg h]

/-- `add_incompatibility` of an incompatibility with the single term of `p` that is not a dependency -/
theorem addIncompatibility_single {st st' : State P S V M Pr} {inc : Incompat P S V M} {p : P} {tp : Term S}
    (hterms : inc.terms = [(p, tp)]) (hdep : inc.asDependency = none)
    (hr : addIncompatibility st inc = .ok st') :
    st'.ps = st.ps ∧ st'.contradicted = st.contradicted ∧ st'.store = st.store ++ [inc] ∧
    ∃ ids, SmallMap.get st'.incompatibilities p = some ids ∧ st.store.length ∈ ids := by
  unfold addIncompatibility at hr
  obtain ⟨e1, e2, _, inc', hinc', hc⟩ := mergeIncompatibility_spec hr
  simp only at hinc'
  rw [List.getElem?_append_right (Nat.le_refl _)] at hinc'
  simp only [Nat.sub_self, List.getElem?_cons_zero] at hinc'
  injection hinc' with hinc'; subst hinc'
  rcases hc with ⟨e3, e4⟩ | ⟨past, pastInc, merged, _, hm, _, _⟩
  · refine ⟨e1, e2, e3, ?_⟩
    rw [e4, hterms]
    simp only [List.foldl_cons, List.foldl_nil]
    exact ⟨_, get_updIndex_self _ _ _, by simp⟩
  · unfold Incompat.mergeDependents at hm
    rw [hdep] at hm
    simp only at hm
    cases hm

/-- the new single-term incompatibility is a trigger -/
theorem pending_single (W : World P S V M) (root : P) (rv : V) {st st' : State P S V M Pr}
    {inc : Incompat P S V M} {p : P} {tp cur : Term S}
    (hterms : inc.terms = [(p, tp)]) (hdep : inc.asDependency = none)
    (hr : addIncompatibility st inc = .ok st') (h : PInv st) (hpos : st.ps.InflightPos p)
    (hcur : st.ps.termIntersectionForPackage p = some cur) (hrel : tp.relationWith cur ≠ .contradicted) :
    Pending st' p := by
  obtain ⟨e1, e2, e3, ids, hids, hmem⟩ := addIncompatibility_single hterms hdep hr
  refine Or.inr ⟨e1 ▸ hpos, ids, hids, _, hmem, ?_, inc, ?_, ?_, tp, cur, ?_, e1 ▸ hcur, hrel⟩
  · rw [e2]
    cases hg : SmallMap.get st.contradicted st.store.length with
    | none => rfl
    | some lvl => exact absurd (h.cache _ (SmallMap.mem_of_get hg)) (Nat.lt_irrefl _)
  · rw [e3, List.getElem?_append_right (Nat.le_refl _)]; simp
  · intro q t hm hq
    rw [hterms, List.mem_singleton] at hm
    injection hm with hm; exact absurd hm hq
  · unfold Incompat.get
    rw [hterms]; simp [SmallMap.get]

theorem _root_.Pubgrub.PInv.storeAppend {st : State P S V M Pr} (h : PInv st) (extra : List (Incompat P S V M)) :
    PInv { st with store := st.store ++ extra } := by
  refine ⟨h.wf, ?_⟩
  intro kv hkv
  simp only [List.length_append]
  exact Nat.lt_of_lt_of_le (h.cache kv hkv) (Nat.le_add_right _ _)

theorem addIncompatibility_pinv {st st' : State P S V M Pr} {inc : Incompat P S V M}
    (hr : addIncompatibility st inc = .ok st') (h : PInv st) : PInv st' ∧ st'.ps = st.ps := by
  unfold addIncompatibility at hr
  have := mergeIncompatibility_pinv hr (h.storeAppend [inc])
  exact this

theorem foldlM_merge_pinv :
    ∀ (ids : List Nat) {st st' : State P S V M Pr},
    ids.foldlM (m := R) (fun st id => mergeIncompatibility st id) st = .ok st' →
    PInv st → PInv st' ∧ st'.ps = st.ps := by
  intro ids
  induction ids with
  | nil =>
    intro st st' hr h
    simp only [List.foldlM_nil, pure, Except.pure] at hr
    injection hr with hr; subst hr; exact ⟨h, rfl⟩
  | cons a rest ih =>
    intro st st' hr h
    simp only [List.foldlM_cons, bind, Except.bind] at hr
    split at hr
    · cases hr
    rename_i st1 h1
    obtain ⟨h2, e2⟩ := mergeIncompatibility_pinv h1 h
    obtain ⟨h3, e3⟩ := ih hr h2
    exact ⟨h3, e3.trans e2⟩

theorem addIncompatibilityFromDependencies_pinv {st st' : State P S V M Pr} {p : P} {v : V}
    {deps : List (P × S)} {start stop : Nat}
    (hr : addIncompatibilityFromDependencies st p v deps = .ok (st', start, stop)) (h : PInv st) :
    PInv st' ∧ st'.ps = st.ps := by
  unfold addIncompatibilityFromDependencies at hr
  simp only [bind, Except.bind, pure, Except.pure] at hr
  split at hr
  · cases hr
  rename_i st1 h1
  injection hr with hr; injection hr with hr; subst hr
  have := foldlM_merge_pinv _ h1 (h.storeAppend _)
  exact this

end State
end PS
end Pubgrub

/-
Helpers for `RangeTermination.lean`, part 1 (continued): the test points of `Dense V = V ×ₗ ℚ` for a
finite list `L` of values of `V` — `(b, -1), (b, 0), (b, 1)` for `b ∈ L` — realise every comparison
profile with `ι '' L`; the generated sets of the image registry have their bound values in
`ι '' boundsOf p`.
-/
import PubgrubProofs.RangeTerminationAux1
import PubgrubProofs.RangeAnyOrder
import PubgrubProofs.TermDefs

set_option linter.unusedSectionVars false

namespace Pubgrub
open VersionSet

namespace Dense
variable {V : Type} [LinearOrder V]

/-- the point `(x, q)` of the dense order -/
def mk (x : V) (q : ℚ) : Dense V := toLex (x, q)

theorem exists_mk (d : Dense V) : ∃ x q, d = mk x q :=
  ⟨(ofLex (show V ×ₗ ℚ from d)).1, (ofLex (show V ×ₗ ℚ from d)).2, rfl⟩

theorem mk_lt_ι (x b : V) (q : ℚ) : mk x q < ι b ↔ x < b ∨ (x = b ∧ q < 0) :=
  Prod.Lex.toLex_lt_toLex (α := V) (β := ℚ)

theorem mk_eq_ι (x b : V) (q : ℚ) : mk x q = ι b ↔ x = b ∧ q = 0 := by
  unfold mk ι
  constructor
  · intro h
    have := congrArg (fun z : V ×ₗ ℚ => ofLex z) h
    simpa using this
  · rintro ⟨rfl, rfl⟩; rfl

/-- the test points for a list of values -/
def testsOf (L : List V) : List (Dense V) :=
  L.flatMap fun b => [mk b (-1), mk b 0, mk b 1]

theorem mem_testsOf (L : List V) (b : V) (hb : b ∈ L) :
    mk b (-1) ∈ testsOf L ∧ mk b 0 ∈ testsOf L ∧ mk b 1 ∈ testsOf L := by
  refine ⟨?_, ?_, ?_⟩ <;> exact List.mem_flatMap.2 ⟨b, hb, by simp⟩

theorem exists_max (L : List V) (hL : L ≠ []) : ∃ m ∈ L, ∀ b ∈ L, b ≤ m := by
  induction L with
  | nil => exact absurd rfl hL
  | cons a t ih =>
    by_cases ht : t = []
    · subst ht
      exact ⟨a, by simp, by simp⟩
    · obtain ⟨m, hm, hmax⟩ := ih ht
      by_cases ham : a ≤ m
      · refine ⟨m, List.mem_cons_of_mem _ hm, ?_⟩
        intro b hb
        rcases List.mem_cons.1 hb with rfl | hb
        · exact ham
        · exact hmax b hb
      · refine ⟨a, by simp, ?_⟩
        intro b hb
        rcases List.mem_cons.1 hb with rfl | hb
        · exact le_refl _
        · have := hmax b hb
          order

theorem exists_min (L : List V) (hL : L ≠ []) : ∃ m ∈ L, ∀ b ∈ L, m ≤ b := by
  induction L with
  | nil => exact absurd rfl hL
  | cons a t ih =>
    by_cases ht : t = []
    · subst ht
      exact ⟨a, by simp, by simp⟩
    · obtain ⟨m, hm, hmin⟩ := ih ht
      by_cases ham : m ≤ a
      · refine ⟨m, List.mem_cons_of_mem _ hm, ?_⟩
        intro b hb
        rcases List.mem_cons.1 hb with rfl | hb
        · exact ham
        · exact hmin b hb
      · refine ⟨a, by simp, ?_⟩
        intro b hb
        rcases List.mem_cons.1 hb with rfl | hb
        · exact le_refl _
        · have := hmin b hb
          order

/-- every point of `Dense V` has the comparison profile (with `ι '' L`) of a test point -/
theorem exists_test (L : List V) (hL : L ≠ []) (d : Dense V) :
    ∃ t ∈ testsOf L, Range.SameProfile (fun d' => ∃ b ∈ L, d' = ι b) d t := by
  obtain ⟨x, q, rfl⟩ := exists_mk d
  by_cases hx : x ∈ L
  · -- same first component, the sign of `q`
    obtain ⟨h1, h2, h3⟩ := mem_testsOf L x hx
    rcases lt_trichotomy q 0 with hq | hq | hq
    · refine ⟨_, h1, ?_⟩
      rintro _ ⟨b, hb, rfl⟩
      simp only [mk_lt_ι, mk_eq_ι]
      have : ¬ q = 0 := ne_of_lt hq
      simp [hq, this]
    · subst hq
      exact ⟨_, h2, fun _ _ => ⟨Iff.rfl, Iff.rfl⟩⟩
    · refine ⟨_, h3, ?_⟩
      rintro _ ⟨b, hb, rfl⟩
      simp only [mk_lt_ι, mk_eq_ι]
      have h0 : ¬ q = 0 := ne_of_gt hq
      have h0' : ¬ q < 0 := not_lt.2 (le_of_lt hq)
      simp [h0, h0']
  · by_cases hlow : L.filter (fun b => decide (b < x)) = []
    · -- `x` is below every bound: the smallest bound, `-1`
      obtain ⟨m, hm, hmin⟩ := exists_min L hL
      refine ⟨_, (mem_testsOf L m hm).1, ?_⟩
      rintro _ ⟨b, hb, rfl⟩
      simp only [mk_lt_ι, mk_eq_ι]
      have hxb : x < b := by
        have hne : x ≠ b := fun h => hx (h ▸ hb)
        have hnb : ¬ b < x := by
          intro hbx
          have : b ∈ L.filter (fun b => decide (b < x)) := List.mem_filter.2 ⟨hb, by simpa using hbx⟩
          rw [hlow] at this
          cases this
        order
      have hmb := hmin b hb
      have hne : x ≠ b := ne_of_lt hxb
      constructor
      · constructor
        · intro _
          rcases lt_or_eq_of_le hmb with h | h
          · exact Or.inl h
          · exact Or.inr ⟨h, by norm_num⟩
        · intro _; exact Or.inl hxb
      · constructor
        · rintro ⟨h, _⟩; exact absurd h hne
        · rintro ⟨_, h⟩; norm_num at h
    · -- the largest bound below `x`, `+1`
      obtain ⟨m, hm, hmax⟩ := exists_max _ hlow
      obtain ⟨hmL, hmx⟩ := List.mem_filter.1 hm
      have hmx : m < x := by simpa using hmx
      refine ⟨_, (mem_testsOf L m hmL).2.2, ?_⟩
      rintro _ ⟨b, hb, rfl⟩
      simp only [mk_lt_ι, mk_eq_ι]
      have hne : x ≠ b := fun h => hx (h ▸ hb)
      have h10 : ¬ (1 : ℚ) < 0 := by norm_num
      have h10' : ¬ (1 : ℚ) = 0 := by norm_num
      constructor
      · constructor
        · rintro (h | ⟨h, _⟩)
          · exact Or.inl (lt_trans hmx h)
          · exact absurd h hne
        · rintro (h | ⟨_, h⟩)
          · left
            by_contra hnx
            have hbx : b < x := by order
            have := hmax b (List.mem_filter.2 ⟨hb, by simpa using hbx⟩)
            order
          · exact absurd h h10
      · constructor
        · rintro ⟨h, _⟩; exact absurd h hne
        · rintro ⟨_, h⟩; exact absurd h h10'

end Dense

section Registry
variable {P V M : Type} [DecidableEq P] [LinearOrder V]

/-- the bound values of the dependency sets on `p` declared by offered versions of packages of `pkgs` -/
def depBounds (W : World P (Range V) V M) (pkgs : List P) (p : P) : List V :=
  pkgs.flatMap fun q => (W.versions q).flatMap fun v =>
    match W.deps q v with
    | .available ds => ds.flatMap fun d => if d.1 = p then Range.boundVals d.2 else []
    | .unavailable _ => []

theorem mem_depBounds (W : World P (Range V) V M) (pkgs : List P) (p q : P) (v : V)
    (ds : List (P × Range V)) (s : Range V) (x : V) (hq : q ∈ pkgs) (hv : v ∈ W.versions q)
    (hds : W.deps q v = .available ds) (hs : (p, s) ∈ ds) (hx : x ∈ Range.boundVals s) :
    x ∈ depBounds W pkgs p := by
  refine List.mem_flatMap.2 ⟨q, hq, List.mem_flatMap.2 ⟨v, hv, ?_⟩⟩
  rw [hds]
  exact List.mem_flatMap.2 ⟨(p, s), hs, by simpa using hx⟩

/-- all values that can occur as bounds of a set generated for `p` -/
def boundsOf (W : World P (Range V) V M) (pkgs : List P) (rv : V) (p : P) : List V :=
  rv :: (W.versions p ++ depBounds W pkgs p)

theorem boundsOf_ne_nil (W : World P (Range V) V M) (pkgs : List P) (rv : V) (p : P) :
    boundsOf W pkgs rv p ≠ [] := by simp [boundsOf]

/-- every generated set of the image registry has its bound values in `ι '' boundsOf p` -/
theorem generated_boundsIn (W : World P (Range V) V M) (root : P) (rv : V) (pkgs : List P) (p : P)
    (s : Range (Dense V))
    (hg : GeneratedSet (World.mapH Range.denseHom Dense.back W) root (Range.denseHom.ι rv) pkgs p s) :
    Range.BoundsIn (fun d' => ∃ b ∈ boundsOf W pkgs rv p, d' = Dense.ι b) s := by
  induction hg with
  | dep q v' ds' s' hq hv' hds' hs' =>
    simp only [World.mapH, List.mem_map] at hv'
    obtain ⟨v, hv, rfl⟩ := hv'
    rw [World.mapH_deps Range.denseHom Dense.back Dense.back_ι] at hds'
    obtain ⟨ds, hds, rfl⟩ := DepsAnswer.mapH_available _ _ _ hds'
    obtain ⟨s, hs, rfl⟩ := (mem_depsMapH _ ds p s').1 hs'
    apply Range.boundsIn_mapR
    intro x hx
    refine ⟨x, ?_, rfl⟩
    exact List.mem_cons_of_mem _
      (List.mem_append_right _ (mem_depBounds W pkgs p q v ds s x hq hv hds hs hx))
  | version v' hv' =>
    simp only [World.mapH, List.mem_map] at hv'
    obtain ⟨v, hv, rfl⟩ := hv'
    apply Range.boundsIn_singleton
    exact ⟨v, List.mem_cons_of_mem _ (List.mem_append_left _ hv), rfl⟩
  | rootVersion _ =>
    apply Range.boundsIn_singleton
    exact ⟨rv, List.mem_cons_self, rfl⟩
  | empty => exact Range.boundsIn_empty _
  | full => exact Range.boundsIn_full _
  | complement a _ ih => exact Range.boundsIn_complement _ a ih
  | intersection a b _ _ iha ihb => exact Range.boundsIn_intersection _ a b iha ihb
  | union a b _ _ iha ihb => exact Range.boundsIn_union _ a b iha ihb

/-- the test versions of the image registry separate the generated sets -/
theorem generated_separated (W : World P (Range V) V M) (root : P) (rv : V) (pkgs : List P) (p : P)
    (a b : Range (Dense V))
    (ha : GeneratedSet (World.mapH Range.denseHom Dense.back W) root (Range.denseHom.ι rv) pkgs p a)
    (hb : GeneratedSet (World.mapH Range.denseHom Dense.back W) root (Range.denseHom.ι rv) pkgs p b)
    (h : ∀ v ∈ Dense.testsOf (boundsOf W pkgs rv p), contains a v = contains b v) (d : Dense V) :
    contains a d = contains b d := by
  obtain ⟨t, ht, hp⟩ := Dense.exists_test (boundsOf W pkgs rv p) (boundsOf_ne_nil W pkgs rv p) d
  have h1 := Range.contains_profile _ d t hp a (generated_boundsIn W root rv pkgs p a ha)
  have h2 := Range.contains_profile _ d t hp b (generated_boundsIn W root rv pkgs p b hb)
  show Range.contains a d = Range.contains b d
  rw [h1, h2]
  exact h t ht

end Registry
end Pubgrub

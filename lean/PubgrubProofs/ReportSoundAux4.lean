/-
Helpers for `ReportSound.lean` (4): subtrees, and termination of the reporter within the fuel
`4 * size`.
-/
import PubgrubProofs.ReportSoundAux3

namespace Pubgrub
open VersionSet

set_option linter.unusedSectionVars false

section
variable {P S V M : Type} [DecidableEq P] [VersionSet S V] [DecidableEq S]

/-! ### subtrees -/

/-- `d` is a subtree of `t` -/
inductive Sub (t : DerivationTree P S V M) : DerivationTree P S V M → Prop
  | refl : Sub t t
  | left {terms sid c1 c2} : Sub t (.derived terms sid c1 c2) → Sub t c1
  | right {terms sid c1 c2} : Sub t (.derived terms sid c1 c2) → Sub t c2

theorem derivedNodes_trans (t : DerivationTree P S V M) :
    ∀ sid d, (sid, d) ∈ t.derivedNodes → ∀ x ∈ d.derivedNodes, x ∈ t.derivedNodes := by
  induction t with
  | external e => intro sid d h; simp [DerivationTree.derivedNodes] at h
  | derived terms sid0 c1 c2 ih1 ih2 =>
    intro sid d h x hx
    simp only [DerivationTree.derivedNodes, List.mem_cons, List.mem_append, Prod.mk.injEq] at h
    rcases h with ⟨rfl, rfl⟩ | h | h
    · exact hx
    · have := ih1 sid d h x hx
      simp only [DerivationTree.derivedNodes, List.mem_cons, List.mem_append]
      exact Or.inr (Or.inl this)
    · have := ih2 sid d h x hx
      simp only [DerivationTree.derivedNodes, List.mem_cons, List.mem_append]
      exact Or.inr (Or.inr this)

theorem Sub.mem {t d : DerivationTree P S V M} (h : Sub t d) :
    ∀ tt sid a b, d = .derived tt sid a b → (sid, d) ∈ t.derivedNodes := by
  induction h with
  | refl =>
    intro tt sid a b hd
    subst hd
    simp [DerivationTree.derivedNodes]
  | @left terms sid0 c1 c2 _ ih =>
    intro tt sid a b hd
    have h0 := ih terms sid0 c1 c2 rfl
    refine derivedNodes_trans t sid0 _ h0 _ ?_
    subst hd
    simp [DerivationTree.derivedNodes]
  | @right terms sid0 c1 c2 _ ih =>
    intro tt sid a b hd
    have h0 := ih terms sid0 c1 c2 rfl
    refine derivedNodes_trans t sid0 _ h0 _ ?_
    subst hd
    simp [DerivationTree.derivedNodes]

theorem Sub.sound {U : P → V → Prop} {t d : DerivationTree P S V M} (h : Sub t d) (hs : t.Sound U) :
    d.Sound U := by
  induction h with
  | refl => exact hs
  | left _ ih => cases ih with | derived _ _ _ _ h1 h2 h3 => exact h1
  | right _ ih => cases ih with | derived _ _ _ _ h1 h2 h3 => exact h2

theorem Sub.entails {U : P → V → Prop} {t : DerivationTree P S V M} {terms sid c1 c2}
    (h : Sub t (.derived terms sid c1 c2)) (hs : t.Sound U) : Entails U [c1.terms, c2.terms] terms := by
  have := h.sound hs
  cases this with | derived _ _ _ _ h1 h2 h3 => exact h3

theorem Sub.cons {t : DerivationTree P S V M} (hc : t.SharedConsistent) {id t1 a1 b1 t2 a2 b2}
    (h1 : Sub t (.derived t1 (some id) a1 b1)) (h2 : Sub t (.derived t2 (some id) a2 b2)) :
    DerivationTree.derived t1 (some id) a1 b1 = DerivationTree.derived t2 (some id) a2 b2 :=
  hc id _ _ (h1.mem _ _ _ _ rfl) (h2.mem _ _ _ _ rfl)

/-- the specification of `buildRecursive`, instantiated on the top of a tree -/
theorem report_spec (U : P → V → Prop) (HS : Prop) (t : DerivationTree P S V M)
    (hc : t.SharedConsistent) (hs : HS → t.Sound U) (lines : List (Line P S V M))
    (h : reportSteps t = .ok (.inr lines)) :
    ∃ terms sid c1 c2 r, t = .derived terms sid c1 c2 ∧ r.lines = lines ∧
      PostBR (Sub t) U HS Reporter.new r terms sid c1 c2 := by
  cases t with
  | external e => simp [reportSteps] at h
  | derived terms sid c1 c2 =>
    rw [reportSteps] at h
    generalize hF : 8 * (DerivationTree.derived terms sid c1 c2).size + 8 = F at h
    cases hb : Reporter.buildRecursive F Reporter.new terms sid c1 c2 with
    | error e => rw [hb] at h; simp at h
    | ok r =>
      rw [hb] at h
      simp only [Except.ok.injEq, Sum.inr.injEq] at h
      refine ⟨terms, sid, c1, c2, r, rfl, h, ?_⟩
      have hspec := (spec_all (G := Sub (.derived terms sid c1 c2)) (U := U) (HS := HS)
        (fun _ _ _ _ h => h.left) (fun _ _ _ _ h => h.right)
        (fun id t1 a1 b1 t2 a2 b2 h1 h2 => Sub.cons hc h1 h2)
        (fun _ _ _ _ h hS => h.entails (hs hS)) F).1
      exact hspec Reporter.new terms sid c1 c2 r Sub.refl (RepInv.new _ U HS) hb

/-! ### termination -/

theorem key_of_buildRecursive (fuel : Nat) (r : Reporter P S V M) terms id c1 c2 r'
    (h : Reporter.buildRecursive fuel r terms (some id) c1 c2 = .ok r') :
    SmallMap.containsKey r'.sharedWithRef id = true := by
  cases fuel with
  | zero => simp [Reporter.buildRecursive] at h
  | succ fuel =>
    rw [Reporter.buildRecursive] at h
    cases hb : Reporter.buildRecursiveHelper fuel r terms (some id) c1 c2 with
    | error e => rw [hb] at h; simp at h
    | ok r1 =>
      rw [hb] at h
      dsimp only at h
      by_cases hk : SmallMap.containsKey r1.sharedWithRef id = true
      · rw [if_pos hk] at h
        obtain rfl := Except.ok.inj h
        exact hk
      · rw [if_neg hk] at h
        obtain rfl := Except.ok.inj h
        simp [SmallMap.containsKey, SmallMap.get_insert_self]

theorem br_of_helper {fuel : Nat} {r : Reporter P S V M} {terms sid c1 c2}
    (h : ∃ r1, Reporter.buildRecursiveHelper fuel r terms sid c1 c2 = .ok r1) :
    ∃ r', Reporter.buildRecursive (fuel + 1) r terms sid c1 c2 = .ok r' := by
  obtain ⟨r1, h⟩ := h
  rw [Reporter.buildRecursive, h]
  dsimp only
  cases sid with
  | none => exact ⟨_, rfl⟩
  | some id =>
    dsimp only
    by_cases hk : SmallMap.containsKey r1.sharedWithRef id = true
    · rw [if_pos hk]; exact ⟨_, rfl⟩
    · rw [if_neg hk]; exact ⟨_, rfl⟩

/-- `buildRecursive` succeeds on the node `d` with any fuel `≥ 4 * size` -/
def BT (d : DerivationTree P S V M) : Prop :=
  ∀ terms sid c1 c2, d = .derived terms sid c1 c2 → ∀ fuel, 4 * d.size ≤ fuel →
    ∀ r : Reporter P S V M, ∃ r', Reporter.buildRecursive fuel r terms sid c1 c2 = .ok r'

theorem helper_with_ref {f : Nat} {r : Reporter P S V M} {terms sid t1 sid1 a1 b1 t2 sid2 a2 b2 ref1}
    (h1 : r.lineRefOf sid1 = some ref1)
    (h2 : ∀ r : Reporter P S V M, ∃ r', Reporter.buildRecursive f r t2 sid2 a2 b2 = .ok r') :
    ∃ r', Reporter.buildRecursiveHelper (f + 1) r terms sid (.derived t1 sid1 a1 b1)
      (.derived t2 sid2 a2 b2) = .ok r' := by
  rw [Reporter.buildRecursiveHelper, h1]
  cases h2' : r.lineRefOf sid2 with
  | some ref2 => exact ⟨_, rfl⟩
  | none =>
    dsimp only
    obtain ⟨r2, hr2⟩ := h2 r
    rw [hr2]
    exact ⟨_, rfl⟩

theorem helper_dd {terms : List (P × Term S)} {sid t1 sid1 a1 b1 t2 sid2 a2 b2}
    (hb1 : BT (.derived t1 sid1 a1 b1 : DerivationTree P S V M)) (hb2 : BT (.derived t2 sid2 a2 b2 : DerivationTree P S V M))
    (f : Nat)
    (hf : 4 * (DerivationTree.derived terms sid (.derived t1 sid1 a1 b1) (.derived t2 sid2 a2 b2) :
      DerivationTree P S V M).size ≤ f + 1) (r : Reporter P S V M) :
    ∃ r', Reporter.buildRecursiveHelper f r terms sid (.derived t1 sid1 a1 b1) (.derived t2 sid2 a2 b2) = .ok r' := by
  have hsz : (DerivationTree.derived terms sid (.derived t1 sid1 a1 b1) (.derived t2 sid2 a2 b2) :
      DerivationTree P S V M).size = 1 + (DerivationTree.derived t1 sid1 a1 b1 : DerivationTree P S V M).size +
        (DerivationTree.derived t2 sid2 a2 b2 : DerivationTree P S V M).size := rfl
  rw [hsz] at hf
  generalize hs1 : (DerivationTree.derived t1 sid1 a1 b1 : DerivationTree P S V M).size = s1 at hf
  generalize hs2 : (DerivationTree.derived t2 sid2 a2 b2 : DerivationTree P S V M).size = s2 at hf
  obtain ⟨g, rfl⟩ : ∃ g, f = g + 3 := ⟨f - 3, by omega⟩
  have B1 : ∀ fuel, 4 * s1 ≤ fuel → ∀ r : Reporter P S V M, ∃ r', Reporter.buildRecursive fuel r t1 sid1 a1 b1 = .ok r' := by
    intro fuel hfu; exact hb1 _ _ _ _ rfl fuel (by rw [hs1]; exact hfu)
  have B2 : ∀ fuel, 4 * s2 ≤ fuel → ∀ r : Reporter P S V M, ∃ r', Reporter.buildRecursive fuel r t2 sid2 a2 b2 = .ok r' := by
    intro fuel hfu; exact hb2 _ _ _ _ rfl fuel (by rw [hs2]; exact hfu)
  cases h1 : r.lineRefOf sid1 with
  | some ref1 => exact helper_with_ref h1 (B2 _ (by omega))
  | none =>
    rw [Reporter.buildRecursiveHelper, h1]
    cases h2 : r.lineRefOf sid2 with
    | some ref2 =>
      dsimp only
      obtain ⟨r1, hr1⟩ := B1 (g + 2) (by omega) r
      rw [hr1]
      exact ⟨_, rfl⟩
    | none =>
      dsimp only
      obtain ⟨r1, hr1⟩ := B1 (g + 2) (by omega) r
      rw [hr1]
      dsimp only
      cases sid1 with
      | some id1 =>
        simp only [Option.isSome_some, if_true]
        apply br_of_helper
        have hkey := key_of_buildRecursive _ _ _ _ _ _ _ hr1
        obtain ⟨ref1, href⟩ : ∃ ref1, SmallMap.get r1.sharedWithRef id1 = some ref1 :=
          Option.isSome_iff_exists.mp hkey
        apply helper_with_ref (ref1 := ref1)
        · simpa [Reporter.lineRefOf, Reporter.push] using href
        · exact B2 _ (by omega)
      | none =>
        simp only [Option.isSome_none, Bool.false_eq_true, if_false]
        obtain ⟨r2, hr2⟩ := B2 (g + 2) (by omega) (r1.addLineRef.push .blank)
        rw [hr2]
        exact ⟨_, rfl⟩

theorem one_each_term {dterms : List (P × Term S)} {dsid dc1 dc2}
    (hb : BT (.derived dterms dsid dc1 dc2 : DerivationTree P S V M)) (hb1 : BT dc1) (hb2 : BT dc2)
    (f : Nat) (hf : 4 * (DerivationTree.derived dterms dsid dc1 dc2 : DerivationTree P S V M).size + 2 ≤ f)
    (r : Reporter P S V M) (e : External P S V M) (cur : List (P × Term S)) :
    ∃ r', Reporter.reportOneEach f r dterms dsid dc1 dc2 e cur = .ok r' := by
  obtain ⟨g, rfl⟩ : ∃ g, f = g + 2 := ⟨f - 2, by omega⟩
  have hsz : (DerivationTree.derived dterms dsid dc1 dc2 : DerivationTree P S V M).size =
      1 + dc1.size + dc2.size := rfl
  rw [Reporter.reportOneEach]
  cases h1 : r.lineRefOf dsid with
  | some ref => exact ⟨_, rfl⟩
  | none =>
    dsimp only
    cases dc1 with
    | external e1 =>
      cases dc2 with
      | external e2 =>
        simp only [Reporter.reportRecurseOneEach]
        obtain ⟨r1, hr1⟩ := hb _ _ _ _ rfl g (by omega) r
        rw [hr1]; exact ⟨_, rfl⟩
      | derived pt psid pa pb =>
        rw [Reporter.reportRecurseOneEach]
        obtain ⟨r1, hr1⟩ := hb2 _ _ _ _ rfl g (by omega) r
        rw [hr1]; exact ⟨_, rfl⟩
    | derived pt psid pa pb =>
      cases dc2 with
      | external e2 =>
        rw [Reporter.reportRecurseOneEach]
        obtain ⟨r1, hr1⟩ := hb1 _ _ _ _ rfl g (by omega) r
        rw [hr1]; exact ⟨_, rfl⟩
      | derived qt qsid qa qb =>
        simp only [Reporter.reportRecurseOneEach]
        obtain ⟨r1, hr1⟩ := hb _ _ _ _ rfl g (by omega) r
        rw [hr1]; exact ⟨_, rfl⟩

theorem size_pos (d : DerivationTree P S V M) : 1 ≤ d.size := by
  cases d <;> simp [DerivationTree.size]; omega

theorem BT_all (n : Nat) : ∀ d : DerivationTree P S V M, d.size ≤ n → BT d := by
  induction n with
  | zero => intro d hd; have := size_pos d; omega
  | succ n ih =>
    intro d hd terms sid c1 c2 hdd fuel hfuel r
    subst hdd
    have hsz : (DerivationTree.derived terms sid c1 c2 : DerivationTree P S V M).size =
        1 + c1.size + c2.size := rfl
    rw [hsz] at hd hfuel
    have hp1 := size_pos c1
    have hp2 := size_pos c2
    have hb1 : BT c1 := ih c1 (by omega)
    have hb2 : BT c2 := ih c2 (by omega)
    obtain ⟨f, rfl⟩ : ∃ f, fuel = f + 2 := ⟨fuel - 2, by omega⟩
    apply br_of_helper
    cases c1 with
    | external e1 =>
      cases c2 with
      | external e2 => rw [Reporter.buildRecursiveHelper]; exact ⟨_, rfl⟩
      | derived dt dsid dc1 dc2 =>
        rw [Reporter.buildRecursiveHelper]
        have hsz2 : (DerivationTree.derived dt dsid dc1 dc2 : DerivationTree P S V M).size =
          1 + dc1.size + dc2.size := rfl
        refine one_each_term hb2 (ih dc1 (by omega)) (ih dc2 (by omega)) f ?_ r e1 terms
        simp only [DerivationTree.size] at hfuel ⊢
        omega
    | derived dt dsid dc1 dc2 =>
      cases c2 with
      | external e2 =>
        rw [Reporter.buildRecursiveHelper]
        have hsz2 : (DerivationTree.derived dt dsid dc1 dc2 : DerivationTree P S V M).size =
          1 + dc1.size + dc2.size := rfl
        refine one_each_term hb1 (ih dc1 (by omega)) (ih dc2 (by omega)) f ?_ r e2 terms
        simp only [DerivationTree.size] at hfuel ⊢
        omega
      | derived t2 sid2 a2 b2 =>
        refine helper_dd hb1 hb2 (f + 1) ?_ r
        rw [hsz]; omega

end
end Pubgrub

/-
TARGET FILE: PubgrubProofs/DisplayLaws.lean
The Display clause of property C15: "The Display text of a range - read with the usual meaning of '*',
a bare version, '<', '<=', '>', '>=', ', ' (and) and ' | ' (or), '∅' for empty - denotes exactly the
range's set, distinct sets print differently".

The model's `Range.display` (PubgrubModel/Range.lean) builds a `String`.  Strings are awkward to reason
about in the kernel, so this file works with the *structure* of the text: a list (joined by " | ") of
segments, each a list (joined by ", ") of atoms `>=v`, `>v`, `<=v`, `<v`, bare `v`, or the single token `*`;
`∅` for the empty list.  You define that structure, show the model's string is its rendering, that it
denotes the range's set, and that it determines the range.
Replace every `sorry`; add helpers; keep the target statements.
-/
import PubgrubProofs.RangeSet

namespace Pubgrub.Range
open Pubgrub Bound

/-- one comparison of the Display grammar -/
inductive Atom (V : Type) where
  | ge (v : V) | gt (v : V) | le (v : V) | lt (v : V) | eq (v : V) | star
  deriving DecidableEq, Repr

variable {V : Type}

/-- the atoms of one segment, as `impl Display for Range` prints them -/
def segAtoms [DecidableEq V] : Seg V → List (Atom V)
  | (unb, unb) => [.star]
  | (unb, incl v) => [.le v]
  | (unb, excl v) => [.lt v]
  | (incl v, unb) => [.ge v]
  | (incl v, incl b) => if v = b then [.eq v] else [.ge v, .le b]
  | (incl v, excl b) => [.ge v, .lt b]
  | (excl v, unb) => [.gt v]
  | (excl v, incl b) => [.gt v, .le b]
  | (excl v, excl b) => [.gt v, .lt b]

/-- the structured text of a range: one atom list per segment -/
def displayAtoms [DecidableEq V] (r : Range V) : List (List (Atom V)) := r.map segAtoms

/-- text of one atom -/
def Atom.render (showV : V → String) : Atom V → String
  | .ge v => ">=" ++ showV v
  | .gt v => ">" ++ showV v
  | .le v => "<=" ++ showV v
  | .lt v => "<" ++ showV v
  | .eq v => showV v
  | .star => "*"

/-- text of the structure: atoms joined by ", ", segments by " | ", "∅" when there is no segment -/
def renderAtoms (showV : V → String) (segs : List (List (Atom V))) : String :=
  match segs with
  | [] => "∅"
  | _ => " | ".intercalate (segs.map fun atoms => ", ".intercalate (atoms.map (Atom.render showV)))

/-- string-literal facts: the separators of `displaySeg` are `", "` followed by the comparison sign -/
theorem lit_comma_le : ", <=" = ", " ++ "<=" := by decide
theorem lit_comma_lt : ", <" = ", " ++ "<" := by decide

/-- joining two strings with `", "` -/
theorem intercalate_pair (sep x y : String) : sep.intercalate [x, y] = x ++ sep ++ y := by
  rw [String.intercalate_cons_cons, String.intercalate_singleton]

/-- one segment: the model's text is its atoms joined by `", "` -/
theorem displaySeg_eq_render [DecidableEq V] (showV : V → String) (s : Seg V) :
    displaySeg showV s = ", ".intercalate ((segAtoms s).map (Atom.render showV)) := by
  rcases s with ⟨s, e⟩
  cases s <;> cases e <;>
    simp only [displaySeg, segAtoms, List.map_cons, List.map_nil, Atom.render,
      String.intercalate_singleton, intercalate_pair, lit_comma_le, lit_comma_lt,
      String.append_assoc]
  · split <;>
      simp only [List.map_cons, List.map_nil, Atom.render,
        String.intercalate_singleton, intercalate_pair, String.append_assoc]

/-- the model's Display string is the rendering of the structure (if string-literal reasoning turns out
to be infeasible in the kernel for some case, prove it for the cases you can, name the theorem
`display_eq_render_partial` with the restriction stated, and say precisely which cases are missing) -/
theorem display_eq_render [LT V] [LE V] [DecidableLT V] [DecidableLE V] [DecidableEq V]
    (showV : V → String) (r : Range V) :
    Range.display showV r = renderAtoms showV (displayAtoms r) := by
  cases r with
  | nil => rfl
  | cons s t =>
    simp only [display, renderAtoms, displayAtoms, List.map_cons, List.map_map]
    congr 1
    simp only [List.cons.injEq, displaySeg_eq_render, true_and]
    apply List.map_congr_left
    intro a _
    simp only [Function.comp, displaySeg_eq_render]

section Meaning
variable [LinearOrder V]

/-- the usual meaning of an atom -/
def Atom.holds (x : V) : Atom V → Prop
  | .ge v => v ≤ x
  | .gt v => v < x
  | .le v => x ≤ v
  | .lt v => x < v
  | .eq v => x = v
  | .star => True

/-- the set a structured text denotes: some segment all of whose atoms hold ("," = and, "|" = or) -/
def Denotes (segs : List (List (Atom V))) (x : V) : Prop :=
  ∃ atoms ∈ segs, ∀ a ∈ atoms, a.holds x

/-- one segment: all its atoms hold exactly at the segment's points -/
theorem segAtoms_holds_iff (s : Seg V) (x : V) : (∀ a ∈ segAtoms s, a.holds x) ↔ Seg.Mem x s := by
  rcases s with ⟨s, e⟩
  cases s <;> cases e <;>
    simp only [segAtoms, Seg.Mem, aboveStart, belowEnd, List.mem_cons, List.not_mem_nil, or_false,
      forall_eq_or_imp, forall_eq, Atom.holds, and_true, true_and]
  · rename_i v b
    split
    · subst_vars
      simp only [List.mem_cons, List.not_mem_nil, or_false, forall_eq]
      constructor
      · intro h; subst h; exact ⟨le_refl _, le_refl _⟩
      · intro h; exact le_antisymm h.2 h.1
    · simp only [List.mem_cons, List.not_mem_nil, or_false, forall_eq_or_imp, forall_eq]

/-- the Display text denotes exactly the range's set (any segment list, canonical or not) -/
theorem display_denotes (r : Range V) (x : V) :
    Denotes (displayAtoms r) x ↔ Range.contains r x = true := by
  rw [contains_iff_mem]
  simp only [Denotes, displayAtoms, List.mem_map, Range.Mem]
  constructor
  · rintro ⟨_, ⟨s, hs, rfl⟩, h⟩
    exact ⟨s, hs, (segAtoms_holds_iff s x).1 h⟩
  · rintro ⟨s, hs, h⟩
    exact ⟨_, ⟨s, hs, rfl⟩, (segAtoms_holds_iff s x).2 h⟩

/-- the atoms of a segment determine the segment: ANY segment, valid or not (the only overlap candidate,
a bare `v` for `[v, v]`, is produced by no other bound pair) -/
theorem segAtoms_injective : Function.Injective (segAtoms : Seg V → List (Atom V)) := by
  rintro ⟨s1, e1⟩ ⟨s2, e2⟩ h
  cases s1 <;> cases e1 <;> cases s2 <;> cases e2 <;>
    simp only [segAtoms] at h <;>
    (try split at h) <;> (try split at h) <;>
    simp_all

/-- validity is not needed: `displayAtoms` is injective on ALL segment lists -/
theorem displayAtoms_injective' (a b : Range V) (h : displayAtoms a = displayAtoms b) : a = b :=
  (List.map_inj_right fun _ _ hxy => segAtoms_injective hxy).1 h

set_option linter.unusedVariables false in
/-- the text determines the segment list: distinct ranges print differently, provided every segment is
valid (in particular for canonical ranges; without validity `[v, v]` printed as a bare `v` is still
unambiguous, but e.g. nothing distinguishes… — find out whether validity is needed at all: if
`displayAtoms` is injective on ALL segment lists, prove that stronger statement instead and drop `ha hb`
in an additional theorem `displayAtoms_injective'`) -/
theorem displayAtoms_injective (a b : Range V) (ha : Range.WF a) (hb : Range.WF b)
    (h : displayAtoms a = displayAtoms b) : a = b :=
  displayAtoms_injective' a b h

set_option linter.unusedVariables false in
/-- distinct sets print differently: over a dense order without end points, canonical ranges with
different points have different structured texts -/
theorem distinct_sets_print_differently [DenselyOrdered V] [NoMinOrder V] [NoMaxOrder V] [Nonempty V]
    (a b : Range V) (ha : Range.WF a) (hb : Range.WF b)
    (hne : ∃ x, Range.contains a x ≠ Range.contains b x) : displayAtoms a ≠ displayAtoms b := by
  -- Neither density, nor the absence of end points, nor canonicity is used: the structured text
  -- determines the segment list (`displayAtoms_injective'`), hence the set.  (Density etc. matter for
  -- the converse direction, `ext_of_dense`: equal sets ⇒ equal canonical lists ⇒ equal texts.)
  intro h
  obtain ⟨x, hx⟩ := hne
  exact hx (by rw [displayAtoms_injective' a b h])

end Meaning
end Pubgrub.Range


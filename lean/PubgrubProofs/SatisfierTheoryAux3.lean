/-
Helpers for `SatisfierTheory.lean`, part 3: the satisfier search does not panic on a satisfied,
non-terminal incompatibility, and what it returns.
-/
import PubgrubProofs.SatisfierTheoryAux2

set_option linter.unusedSectionVars false
set_option linter.unusedVariables false

namespace Pubgrub
open VersionSet

section
variable {P S V M Pr : Type} [DecidableEq P] [VersionSet S V] [DecidableEq S] [LawfulVersionSet S V]

namespace PartialSolution

theorem prevAccum_safe {root : P} {rv : V} {ps : PartialSolution P S V Pr} {store : List (Incompat P S V M)}
    (ctx : SearchCtx root rv ps store) {sp : P} {pa : PackageAssignments S V} (hpa : ps.getPA sp = some pa)
    {start : Term S} {sc : Option Nat} {sg sl : Nat} (hsat : pa.IsSat start (sc, sg, sl)) :
    Safe (prevAccum sp pa store sc) (fun accum => accum.Valid ∧ (sc = none → accum = pa.inter.term)) := by
  have hmem := SmallMap.mem_of_get hpa
  unfold prevAccum
  cases sc with
  | some cause =>
    simp only
    rcases hsat with ⟨dd, hdd, _, e⟩ | ⟨_, g, v, t, _, e⟩
    · injection e with e1 _
      injection e1 with e1; subst e1
      obtain ⟨inc, t, hinc, ht, htv⟩ := ctx.causes sp pa hmem dd hdd
      refine Safe.bind_ok (storeGet_some hinc) ?_
      refine Safe.bind_ok (unwrapOr_some ht) ?_
      exact Safe.ok ⟨Term.valid_negate _ htv, fun h => by cases h⟩
    · injection e with e1 _; cases e1
  | none =>
    simp only
    rcases hsat with ⟨dd, hdd, _, e⟩ | ⟨_, g, v, t, hinter, e⟩
    · injection e with e1 _; cases e1
    · rw [hinter]
      simp only
      refine Safe.ok ⟨?_, fun _ => rfl⟩
      have := (ctx.tv _ hmem).inter
      rw [hinter] at this; exact this

theorem prevTail_safe {inc : Incompat P S V M} {sp : P} {m : SmallMap P (Option Nat × Nat × Nat)}
    {pa : PackageAssignments S V} {accum t : Term S} {dl n i : Nat} (hw : pa.WFAt dl n i)
    (hv : pa.TermsValid) (hget : inc.get sp = some t) (htv : t.Valid) (hav : accum.Valid)
    (himp : pa.inter.term.Imp t) :
    Safe (prevTail inc sp m pa accum) (fun prev => ∃ s' y', pa.IsSat (accum.intersection t.negate) s' ∧
      maxByIndex (SmallMap.insert m sp s') = some y' ∧ prev = max y'.2.2.2 1) := by
  unfold prevTail
  refine Safe.bind_ok (unwrapOr_some hget) ?_
  refine Safe.bind (satisfier_safe (PackageAssignments.satOK_of_disjoint hw
    (Term.disjoint_inter_negate_of_imp hv.inter htv hav himp))) ?_
  intro s' _ hs'
  have hne : SmallMap.insert m sp s' ≠ [] := by
    intro e
    have := SmallMap.get_insert m sp sp s'
    rw [e, if_pos rfl] at this
    simp [SmallMap.get] at this
  obtain ⟨y', hy'⟩ := maxByIndex_isSome _ hne
  refine Safe.bind_ok (unwrapOr_some hy') ?_
  exact Safe.ok ⟨s', y', hs', hy', rfl⟩

/-- the satisfier search on a satisfied, non-terminal incompatibility -/
theorem satisfierSearch_safe {root : P} {rv : V} {ps : PartialSolution P S V Pr}
    {store : List (Incompat P S V M)} (ctx : SearchCtx root rv ps store) {inc : Incompat P S V M}
    (hn : SmallMap.NoDupKeys inc.terms) (hsv : inc.SetsValid) (hsat : ps.Satisfies inc)
    (hnt : inc.isTerminal root rv = false) :
    Safe (ps.satisfierSearch inc store) (SearchPost ps inc) := by
  have hw := ctx.wf
  rw [satisfierSearch_eq]
  -- find_satisfier
  refine Safe.bind (findSatisfier_safe ps inc.terms ?_) ?_
  · intro q t hm
    obtain ⟨pa, hpa, himp⟩ := hsat q t hm
    obtain ⟨i, _, hwf, _⟩ := hw.entry_of_getPA hpa
    exact ⟨pa, hpa, PackageAssignments.satOK_of_disjoint hwf
      (Term.disjoint_negate_of_imp (ctx.tv _ (SmallMap.mem_of_get hpa)).inter (hsv q t hm) himp)⟩
  intro m _ hm
  -- the incompatibility has a term
  have hterms : inc.terms ≠ [] := by
    intro e
    unfold Incompat.isTerminal at hnt
    rw [e] at hnt; cases hnt
  have hmne : m ≠ [] := by
    intro e
    cases hT : inc.terms with
    | nil => exact hterms hT
    | cons x xs =>
      have := hm.complete x.1 x.2 (by rw [hT]; exact List.mem_cons_self)
      rw [e] at this; simp [SmallMap.get] at this
  obtain ⟨y, hy⟩ := maxByIndex_isSome m hmne
  refine Safe.bind_ok (unwrapOr_some hy) ?_
  obtain ⟨sp, sc, sg, sl⟩ := y
  have hymem := maxByIndex_mem m _ hy
  have hymax := maxByIndex_max m _ hy
  obtain ⟨tsp, pa, htsp, hpa, hissat⟩ := hm.sound sp _ hymem
  have hgetsp : inc.get sp = some tsp := SmallMap.get_of_mem hn htsp
  have hpamem := SmallMap.mem_of_get hpa
  obtain ⟨i, hi, hwf, hwx⟩ := hw.entry_of_getPA hpa
  have hpav := ctx.tv _ hpamem
  have htspv : tsp.Valid := hsv sp tsp htsp
  have himp : pa.inter.term.Imp tsp := by
    obtain ⟨pa', hpa', himp⟩ := hsat sp tsp htsp
    rw [hpa] at hpa'; injection hpa' with hpa'; subst hpa'; exact himp
  -- find_previous_satisfier
  simp only
  rw [findPreviousSatisfier_eq]
  refine Safe.bind ?_ (Q := fun prev => ∃ accum s' y', accum.Valid ∧ (sc = none → accum = pa.inter.term) ∧
      pa.IsSat (accum.intersection tsp.negate) s' ∧
      maxByIndex (SmallMap.insert m sp s') = some y' ∧ prev = max y'.2.2.2 1) ?_
  · refine Safe.bind_ok (unwrapOr_some hpa) ?_
    refine Safe.bind_ok (unwrapOr_some (SmallMap.get_of_mem hm.nodup hymem)) ?_
    refine Safe.bind (prevAccum_safe ctx hpa hissat) ?_
    intro accum _ ⟨hav, hanone⟩
    refine (prevTail_safe hwf hpav hgetsp htspv hav himp).mono ?_
    intro prev _ ⟨s', y', h1, h2, h3⟩
    exact ⟨accum, s', y', hav, hanone, h1, h2, h3⟩
  intro prev _ ⟨accum, s', y', hav, hanone, hs', hy', hprev⟩
  -- the entries of the updated map are assignments
  have hn' : SmallMap.NoDupKeys (SmallMap.insert m sp s') := SmallMap.nodup_insert m hm.nodup sp s'
  have hy'mem := maxByIndex_mem _ _ hy'
  have hy'max := maxByIndex_max _ _ hy'
  have hev : ∀ q s, (q, s) ∈ SmallMap.insert m sp s' →
      ∃ qa b, (q, qa) ∈ ps.assignments ∧ (s.2.1, s.2.2, b) ∈ qa.events := by
    intro q s hqs
    rw [SmallMap.mem_insert_iff m hm.nodup] at hqs
    rcases hqs with ⟨rfl, rfl⟩ | ⟨_, hqs⟩
    · obtain ⟨b, hb⟩ := hs'.event
      exact ⟨pa, b, hpamem, hb⟩
    · obtain ⟨t, qa, _, hqa, hq⟩ := hm.sound q s hqs
      obtain ⟨b, hb⟩ := hq.event
      exact ⟨qa, b, SmallMap.mem_of_get hqa, hb⟩
  have hevm : ∀ q s, (q, s) ∈ m → ∃ qa b, (q, qa) ∈ ps.assignments ∧ (s.2.1, s.2.2, b) ∈ qa.events := by
    intro q s hqs
    obtain ⟨t, qa, _, hqa, hq⟩ := hm.sound q s hqs
    obtain ⟨b, hb⟩ := hq.event
    exact ⟨qa, b, SmallMap.mem_of_get hqa, hb⟩
  have hgetsp' : (inc.get sp).isSome = true := by rw [hgetsp]; rfl
  by_cases hge : prev ≥ sl
  · rw [if_pos hge]
    -- the satisfier is a derivation
    cases sc with
    | some c =>
      simp only [unwrapOr]
      refine Safe.ok ⟨hgetsp', ?_⟩
      rcases hissat with ⟨dd, hdd, _, e⟩ | ⟨_, g, v, t, _, e⟩
      · injection e with e1 _
        injection e1 with e1
        exact ⟨pa, dd, hpa, hdd, e1.symm⟩
      · injection e with e1 _; cases e1
    | none =>
      exfalso
      rcases hissat with ⟨dd, hdd, _, e⟩ | ⟨hall, g, v, t0, hinter, e⟩
      · injection e with e1 _; cases e1
      injection e with _ e; injection e with e1 e2
      subst e1; subst e2
      have hacc := hanone rfl
      rw [hinter] at hacc himp; simp only [AssignInter.term] at hacc himp
      subst hacc
      rcases hwf.inter_cases with ⟨g', v', h1, h2, h3, h4, h5⟩ | ⟨t', l, f, h1, _⟩
      swap
      · rw [hinter] at h1; cases h1
      rw [hinter] at h1; injection h1 with e1 e2 e3
      subst e1; subst e2; subst e3
      have hdec := PackageAssignments.mem_events_decision hinter
      -- the previous satisfier is a dated derivation
      have hs'lt : s'.2.2 < pa.highest := by
        rcases hs' with ⟨dd, hdd, _, rfl⟩ | ⟨hall', _⟩
        · have := (ctx.gmono sp pa sp pa hpamem hpamem _ (PackageAssignments.mem_events_dated hdd) _ hdec).1
            (h4 dd hdd)
          exact this.2 rfl
        · obtain ⟨f, hf, _⟩ := hwx.head
          have hfm := List.mem_of_mem_head? hf
          have := Term.disjoint_of_empty (hpav.dated f hfm) htspv hav himp
          rw [hall' f hfm] at this; cases this
      have hall_lt : ∀ q s, (q, s) ∈ SmallMap.insert m sp s' → s.2.2 < pa.highest := by
        intro q s hqs
        rw [SmallMap.mem_insert_iff m hm.nodup] at hqs
        rcases hqs with ⟨rfl, rfl⟩ | ⟨hq, hqs⟩
        · exact hs'lt
        · obtain ⟨qa, b, hqa, hb⟩ := hevm q s hqs
          have hle := hymax _ hqs
          simp only at hle
          have hg := ctx.gmono q qa sp pa hqa hpamem _ hb _ hdec
          rcases Nat.lt_or_ge s.2.1 sg with hlt | hge'
          · exact (hg.1 hlt).2 rfl
          · exact absurd (hg.2 (Nat.le_antisymm hle hge')) hq
      have hy'lt := hall_lt _ _ hy'mem
      have hhigh : pa.highest = 1 := by omega
      obtain ⟨hroot, hrv⟩ := ctx.first sp pa hpamem _ _ _ hinter hhigh
      subst hroot; subst hrv
      -- every satisfier belongs to the root
      have hkeys : ∀ q s, (q, s) ∈ m → q = sp := by
        intro q s hqs
        by_contra hq
        have hlt := hall_lt q s ((SmallMap.mem_insert_iff m hm.nodup _ _ _ _).2 (Or.inr ⟨hq, hqs⟩))
        obtain ⟨qa, b, hqa, hb⟩ := hevm q s hqs
        have hs0 : s.2.2 = 0 := by omega
        rw [hs0] at hb
        obtain ⟨j, _, hwfq, _⟩ := hw.entry_of_mem hqa
        obtain ⟨dd, hdd, hdd0⟩ := PackageAssignments.events_level0 hwfq hb
        exact hq (ctx.dated0 q qa hqa dd hdd hdd0)
      have hterms1 : inc.terms = [(sp, tsp)] := by
        refine SmallMap.eq_singleton_of_keys hn ?_ htsp
        intro kv hkv
        have := hm.complete kv.1 kv.2 hkv
        cases hg : SmallMap.get m kv.1 with
        | none => rw [hg] at this; cases this
        | some s => exact hkeys _ _ (SmallMap.mem_of_get hg)
      unfold Incompat.isTerminal at hnt
      rw [hterms1] at hnt
      simp only [decide_true, Bool.true_and] at hnt
      rw [(Term.exact_imp_iff tsp v).1 himp] at hnt
      cases hnt
  · rw [if_neg hge]
    refine Safe.ok ⟨hgetsp', ?_⟩
    simp only
    refine ⟨by omega, ⟨pa, hpa, ?_⟩, ?_⟩
    · have := hissat.level_le hwx
      simp only at this
      omega
    · intro q t hqt hq
      obtain ⟨qa, hqa, himpq⟩ := hsat q t hqt
      refine ⟨qa, hqa, ?_⟩
      have hc := hm.complete q t hqt
      cases hg : SmallMap.get m q with
      | none => rw [hg] at hc; cases hc
      | some s =>
        have hqs := SmallMap.mem_of_get hg
        have hqs' : (q, s) ∈ SmallMap.insert m sp s' :=
          (SmallMap.mem_insert_iff m hm.nodup _ _ _ _).2 (Or.inr ⟨hq, hqs⟩)
        -- its level is at most the level of the previous satisfier
        have hlvl : s.2.2 ≤ y'.2.2.2 := by
          obtain ⟨qa', b, hqa', hb⟩ := hev q s hqs'
          obtain ⟨ya, b', hya, hb'⟩ := hev y'.1 y'.2 hy'mem
          have hle := hy'max _ hqs'
          simp only at hle
          have hg := ctx.gmono q qa' y'.1 ya hqa' hya _ hb _ hb'
          rcases Nat.lt_or_ge s.2.1 y'.2.2.1 with hlt | hge'
          · exact (hg.1 hlt).1
          · have hqy := hg.2 (Nat.le_antisymm hle hge')
            have h1 := SmallMap.get_of_mem hn' hqs'
            have h2 := SmallMap.get_of_mem hn' hy'mem
            rw [hqy] at h1
            rw [h1] at h2; injection h2 with h2
            rw [h2]
        obtain ⟨t', qa', hqt', hqa', hq'⟩ := hm.sound q s hqs
        rw [hqa] at hqa'; injection hqa' with hqa'; subst hqa'
        have ht' : t' = t := by
          have h1 := SmallMap.get_of_mem hn hqt'
          have h2 := SmallMap.get_of_mem hn hqt
          rw [h1] at h2; injection h2
        subst ht'
        have hsb : qa.SatBy t' s.2.2 := by
          rcases hq' with ⟨dd, hdd, hdis, rfl⟩ | ⟨_, g, v, t0, hinter, rfl⟩
          · exact Or.inl ⟨dd, hdd, Nat.le_refl _, Term.imp_of_disjoint_negate
              ((ctx.tv _ (SmallMap.mem_of_get hqa)).dated dd hdd) (hsv q t' hqt) hdis⟩
          · exact Or.inr ⟨Nat.le_refl _, himpq⟩
        exact hsb.mono (by omega)

end PartialSolution
end
end Pubgrub

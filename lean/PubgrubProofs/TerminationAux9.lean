/-
Helpers for `Termination.lean`, part 9: the bundle of state-level invariants, and conflict resolution:
it needs at most (global index of the satisfier) + 1 units of fuel (F1 of the plan) and ends in a
backtrack after which the learned clause's term for the returned package meets that package's term.
-/
import PubgrubProofs.TerminationAux8

set_option linter.unusedSectionVars false
set_option linter.unusedVariables false

namespace Pubgrub
open VersionSet

section
variable {P S V M Pr : Type} [DecidableEq P] [VersionSet S V] [DecidableEq S] [DecidableEq V]
  [LawfulVersionSet S V]
variable {W : World P S V M} {root : P} {rv : V} (fw : FiniteWorld W root rv)

/-- all the state-level invariants used by the termination proof -/
structure MInv (st : State P S V M Pr) : Prop where
  s : SInv W root rv st
  p : PInv st
  t : TInv root rv st
  ne : st.ps.NE
  k : KInv fw st
  acc : st.AccInv

/-- an inhabited term is made true by some choice -/
theorem Term.Inh.exists_eval {t : Term S} (h : t.Inh (V := V)) : ∃ x : Option V, t.eval x = true := by
  cases t with
  | pos s => obtain ⟨v, hv⟩ := h; exact ⟨some v, hv⟩
  | neg s => exact ⟨none, rfl⟩

namespace State

/-- `State.backtrack` keeps `KInv` -/
theorem backtrack_kinv {st st' : State P S V M Pr} {cur : Nat} {changed : Bool} {dl : Nat}
    (hr : st.backtrack cur changed dl = .ok st') (hp : PInv st) (hs : StoreInv W root rv st.store)
    (h : KInv fw st) : KInv fw st' := by
  unfold State.backtrack at hr
  simp only [bind, Except.bind, pure, Except.pure] at hr
  split at hr
  · cases hr
  rename_i ps hps
  have hbt : BtStep st.ps ps dl := (PartialSolution.backtrack_step hp.wf dl).of_ok hps
  have h1 : KInv fw ({ st with ps := ps, contradicted := SmallMap.retainVals st.contradicted (fun l => l ≤ dl) } :
      State P S V M Pr) := h.backtrack fw hp.wf hbt rfl rfl
  split at hr
  · exact mergeIncompatibility_kinv fw hr hs h1
  · injection hr with hr; subst hr; exact h1

/-- what is new about the result of conflict resolution -/
structure CRPost (ps : PartialSolution P S V Pr) (st' : State P S V M Pr) (pkg : P) (rc : Nat) : Prop where
  k : KInv fw st'
  acc : st'.AccInv
  bt : ∃ prev, BtStep ps st'.ps prev ∧ prev ≤ ps.currentDecisionLevel
  meet : ∃ inc c, st'.store[rc]? = some inc ∧ inc.get pkg = some c ∧
    ∀ t, st'.ps.terms pkg = some t → ∃ x : Option V, t.eval x = true ∧ c.eval x = true

/-- F1: conflict resolution on an incompatibility satisfied before the global index `g` needs `g + 1`
units of fuel -/
theorem conflictResolution_term (ce : CanonEmpty S V) :
    ∀ (fuel : Nat) (st : State P S V M Pr) (cur : Nat) (changed : Bool) (g : Nat) (inc : Incompat P S V M),
    MInv fw st → st.store[cur]? = some inc → st.ps.Satisfies inc → st.ps.SatBefore inc g → g + 1 ≤ fuel →
    Fueled (conflictResolution fuel st cur changed)
      (fun x => ∀ pkg rc, x.2 = .ok (pkg, rc) → CRPost fw st.ps x.1 pkg rc) := by
  intro fuel
  induction fuel with
  | zero => intro st cur changed g inc _ _ _ _ hf; omega
  | succ fuel ih =>
    intro st cur changed g inc hm hinc hsat hbefore hf
    have hs := hm.s
    have hp := hm.p
    have ht := hm.t
    have hw := hp.wf
    have gi := hs.store cur inc hinc
    unfold conflictResolution
    refine Fueled.bind_ok (storeGet_some hinc) ?_
    have hterm : inc.isTerminal st.rootPackage st.rootVersion = inc.isTerminal root rv := by
      rw [hs.root, hs.rv]
    rw [hterm]
    split
    · exact Fueled.ok (fun pkg rc h => by cases h)
    rename_i hnt
    have hnt' : inc.isTerminal root rv = false := by
      cases h : inc.isTerminal root rv with
      | true => exact absurd h hnt
      | false => rfl
    have hlvl : st.ps.currentDecisionLevel ≠ 0 := by
      intro h0
      rw [terminal_of_level0 W root rv hs ht hinc hsat h0] at hnt'; cases hnt'
    have hctx := TInv.searchCtx hs hp ht
    have hsearch := PartialSolution.satisfierSearch_safe hctx gi.nodup gi.sets hsat hnt'
    refine Fueled.bind (Fueled.intro (PartialSolution.satisfierSearch_nooof _ _ _)
      (fun a ha => (⟨ha, hsearch.of_ok ha⟩ :
        st.ps.satisfierSearch inc st.store = .ok a ∧ SearchPost st.ps inc a))) ?_
    intro ⟨pkg, search⟩ _ ⟨hss, hpost⟩
    dsimp only
    cases search with
    | differentDecisionLevels prev =>
      dsimp only
      refine Fueled.bind (Fueled.intro (State.backtrack_nooof hw cur changed prev)
        (fun a ha => (⟨ha, (backtrack_safe hp cur changed prev).of_ok ha⟩ :
          st.backtrack cur changed prev = .ok a ∧ (BtStep st.ps a.ps prev ∧
            ∀ (i : Nat) (inc : Incompat P S V M), st.store[i]? = some inc → a.store[i]? = some inc)))) ?_
      intro st1 _ ⟨hst1, hbt, hstore⟩
      refine Fueled.ok ?_
      intro pkg' rc' h
      injection h with h; injection h with h1 h2; subst h1; subst h2
      obtain ⟨hgetp, hprev1, ⟨pa, hpa, hlt⟩, _⟩ := hpost
      simp only at hgetp hprev1 hpa hlt
      have hdl : prev ≤ st.ps.currentDecisionLevel := by
        have := PartialSolution.highest_le hw.wf hpa; omega
      obtain ⟨tp, htp⟩ := Option.isSome_iff_exists.1 hgetp
      refine ⟨backtrack_kinv fw hst1 hp hs.store hm.k, hm.acc.backtrack hw hbt rfl hstore,
        ⟨prev, hbt, hdl⟩, inc, tp, hstore _ _ hinc, htp, ?_⟩
      -- the term left of the package meets its term in the incompatibility
      intro t1 ht1
      simp only [PartialSolution.terms, PartialSolution.termIntersectionForPackage,
        Option.map_eq_some_iff] at ht1
      obtain ⟨pa1, hpa1, rfl⟩ := ht1
      obtain ⟨pa0, k1, k2⟩ := hbt.getPA_inv hw.wf hpa1
      rw [hpa] at k1; injection k1 with k1; subst k1
      have hpam := SmallMap.mem_of_get hpa
      obtain ⟨i, _, hwf, hwx⟩ := hw.entry_of_mem hpam
      have himp : pa.inter.term.Imp tp := by
        obtain ⟨pa', hpa', himp⟩ := hsat pkg tp (SmallMap.mem_of_get htp)
        rw [hpa] at hpa'; injection hpa' with hpa'; subst hpa'; exact himp
      obtain ⟨x, hx⟩ := (hm.ne pkg pa hpam).1.exists_eval
      refine ⟨x, ?_, himp x hx⟩
      rcases (PartialSolution.btG_eq_some hwx k2).2 with ⟨_, e⟩ | ⟨_, _, last, hl, e⟩
      · simp only at e; subst e; exact hx
      · simp only at e; subst e
        have hlm : last ∈ pa.dated :=
          (PartialSolution.popWhileAbove_sublist prev pa.dated).subset (List.mem_of_getLast? hl)
        exact PackageAssignments.term_imp_dated hwf (ht.shrink _ hpam) hlm x hx
    | sameDecisionLevels c =>
      dsimp only
      obtain ⟨pa, dd, tp, hpa, hdd, hc, htp, himp, hlt, hoth⟩ :=
        PartialSolution.satisfierSearch_same hctx ht.shrink gi.nodup gi.sets hsat hbefore hss
      have hgetp : (inc.get pkg).isSome = true := by rw [htp]; rfl
      obtain ⟨causeInc, hcause, hcget, _⟩ := ht.cause pkg pa (SmallMap.mem_of_get hpa) dd hdd
      rw [hc] at hcause
      refine Fueled.bind_ok (storeGet_some hcause) ?_
      obtain ⟨prior, hprior⟩ := Incompat.priorCause_ok cur c hgetp hcget
      refine Fueled.bind_ok hprior ?_
      have gp := Incompat.priorCause_good W root rv st.store cur c inc causeInc hinc hcause gi
        (hs.store _ _ hcause) pkg prior hprior st.store.length (List.getElem?_eq_some_iff.1 hinc).1
        (List.getElem?_eq_some_iff.1 hcause).1
      have hs2 : SInv W root rv ({ st with store := st.store ++ [prior] } : State P S V M Pr) :=
        ⟨storeInv_push W root rv st.store prior hs.store gp, hs.root, hs.rv, hs.ps⟩
      have hp2 : PInv ({ st with store := st.store ++ [prior] } : State P S V M Pr) := hp.storeAppend [prior]
      have hne' : st.ps.assignments ≠ [] := by
        intro e
        have := SmallMap.mem_of_get hpa
        rw [e] at this; cases this
      have hext : ∀ (i : Nat) (inc' : Incompat P S V M), st.store[i]? = some inc' →
          (st.store ++ [prior])[i]? = some inc' := by
        intro i inc' hi
        rw [List.getElem?_append_left (List.getElem?_eq_some_iff.1 hi).1]; exact hi
      have ht2 : TInv root rv ({ st with store := st.store ++ [prior] } : State P S V M Pr) :=
        ht.storeExt rfl hext hne' (fun h0 => absurd h0 hlvl)
      have hk2 : KInv fw ({ st with store := st.store ++ [prior] } : State P S V M Pr) :=
        hm.k.storeAppend fw [prior] (by
          intro i hi
          rw [List.mem_singleton] at hi; subst hi
          exact oki_priorCause fw (hm.k.oki fw hinc) (hm.k.oki fw hcause) gi.nodup
            (hs.store _ _ hcause).nodup hprior)
      have hacc2 : State.AccInv ({ st with store := st.store ++ [prior] } : State P S V M Pr) :=
        hm.acc.storeExt rfl hext
      have hpriorAt : ({ st with store := st.store ++ [prior] } : State P S V M Pr).store[st.store.length]? =
          some prior := by
        show (st.store ++ [prior])[st.store.length]? = some prior
        rw [List.getElem?_append_right (Nat.le_refl _)]; simp
      have hres := ih ({ st with store := st.store ++ [prior] } : State P S V M Pr) st.store.length true
        dd.globalIndex prior ⟨hs2, hp2, ht2, hm.ne, hk2, hacc2⟩ hpriorAt
        (satisfies_priorCause W root rv hs hp ht hinc hcause hsat hpa hdd hc hprior)
        (satBefore_priorCause ce W root rv hs hp ht hm.acc hinc hcause hpa hdd hc htp himp hoth hprior)
        (by omega)
      exact hres

end State
end
end Pubgrub

/-
Homomorphisms of version sets, part 2: commutation lemmas for `PubgrubModel/Incompat.lean`.
-/
import PubgrubProofs.HomSolverAux1

set_option linter.unusedSectionVars false

namespace Pubgrub
open VersionSet

section IncompatLemmas
variable {P S V S' V' M : Type} [DecidableEq P] [VersionSet S V] [VersionSet S' V']
  [DecidableEq S] [DecidableEq S']

@[simp] theorem Incompat.mapH_terms (h : VSetHom S V S' V') (i : Incompat P S V M) :
    (Incompat.mapH h i).terms = i.terms.map fun kv => (kv.1, Term.mapH h kv.2) := rfl

@[simp] theorem Incompat.mapH_kind (h : VSetHom S V S' V') (i : Incompat P S V M) :
    (Incompat.mapH h i).kind = Kind.mapH h i.kind := rfl

theorem termsMapH_eq (h : VSetHom S V S' V') (l : List (P × Term S)) :
    termsMapH h l = l.map fun kv => (kv.1, Term.mapH h kv.2) := rfl

theorem depsMapH_eq (h : VSetHom S V S' V') (l : List (P × S)) :
    depsMapH h l = l.map fun kv => (kv.1, h.f kv.2) := rfl

theorem Incompat.mapH_mk (h : VSetHom S V S' V') (t : SmallMap P (Term S)) (k : Kind P S V M) :
    Incompat.mapH h { terms := t, kind := k } =
      { terms := t.map fun kv => (kv.1, Term.mapH h kv.2), kind := Kind.mapH h k } := rfl

@[simp] theorem Incompat.notRoot_mapH (h : VSetHom S V S' V') (p : P) (v : V) :
    (Incompat.notRoot p (h.ι v) : Incompat P S' V' M) = Incompat.mapH h (Incompat.notRoot p v) := by
  simp [Incompat.notRoot, Incompat.mapH, termsMapH, Kind.mapH, h.map_singleton]

@[simp] theorem Incompat.noVersions_mapH (h : VSetHom S V S' V') (p : P) (t : Term S) :
    (Incompat.noVersions p (Term.mapH h t) : R (Incompat P S' V' M)) =
      (Incompat.noVersions p t).map (Incompat.mapH h) := by
  cases t <;> simp [Incompat.noVersions, Incompat.mapH, termsMapH, Kind.mapH]

@[simp] theorem Incompat.customVersion_mapH (h : VSetHom S V S' V') (p : P) (v : V) (m : M) :
    (Incompat.customVersion p (h.ι v) m : Incompat P S' V' M) =
      Incompat.mapH h (Incompat.customVersion p v m) := by
  simp [Incompat.customVersion, Incompat.mapH, termsMapH, Kind.mapH, h.map_singleton]

@[simp] theorem Incompat.fromDependency_mapH (h : VSetHom S V S' V') (p : P) (versions : S) (dep : P × S) :
    (Incompat.fromDependency p (h.f versions) (dep.1, h.f dep.2) : Incompat P S' V' M) =
      Incompat.mapH h (Incompat.fromDependency p versions dep) := by
  simp only [Incompat.fromDependency, Incompat.mapH, termsMapH, Kind.mapH, VSetHom.f_eq_empty_iff]
  split
  · simp [h.map_intersection, h.map_complement]
  · split <;> simp

@[simp] theorem Incompat.asDependency_mapH (h : VSetHom S V S' V') (i : Incompat P S V M) :
    (Incompat.mapH h i).asDependency = i.asDependency := by
  obtain ⟨t, k⟩ := i
  cases k <;> simp [Incompat.asDependency, Incompat.mapH, Kind.mapH]

@[simp] theorem Incompat.get_mapH (h : VSetHom S V S' V') (i : Incompat P S V M) (p : P) :
    (Incompat.mapH h i).get p = (i.get p).map (Term.mapH h) := by
  simp [Incompat.get]

@[simp] theorem Incompat.unwrapPositive_mapH (h : VSetHom S V S' V') (t : Term S) :
    Incompat.unwrapPositive (Term.mapH h t) = (Incompat.unwrapPositive t).map h.f := by
  cases t <;> rfl

@[simp] theorem Incompat.unwrapNegative_mapH (h : VSetHom S V S' V') (t : Term S) :
    Incompat.unwrapNegative (Term.mapH h t) = (Incompat.unwrapNegative t).map h.f := by
  cases t <;> rfl

@[simp] theorem Incompat.causes_mapH (h : VSetHom S V S' V') (i : Incompat P S V M) :
    (Incompat.mapH h i).causes = i.causes := by
  obtain ⟨t, k⟩ := i
  cases k <;> rfl

@[simp] theorem Incompat.isTerminal_mapH (h : VSetHom S V S' V') (i : Incompat P S V M) (root : P) (rv : V) :
    (Incompat.mapH h i).isTerminal root (h.ι rv) = i.isTerminal root rv := by
  obtain ⟨t, k⟩ := i
  match t with
  | [] => rfl
  | [(p, t)] => simp [Incompat.isTerminal, Incompat.mapH, termsMapH]
  | _ :: _ :: _ => rfl

theorem Incompat.relationGo_mapH (h : VSetHom S V S' V') (terms : P → Option (Term S)) (rel : Relation P)
    (l : List (P × Term S)) :
    Incompat.relationGo (fun p => (terms p).map (Term.mapH h)) rel
        (l.map fun kv => (kv.1, Term.mapH h kv.2)) = Incompat.relationGo terms rel l := by
  induction l generalizing rel with
  | nil => rfl
  | cons x l ih =>
    obtain ⟨p, t⟩ := x
    simp only [List.map_cons, Incompat.relationGo, Option.map_map]
    cases terms p with
    | none => simp only [Option.map_none, ih]
    | some o =>
      simp only [Option.map_some, Function.comp, Term.relationWith_mapH, ih]

@[simp] theorem Incompat.relation_mapH (h : VSetHom S V S' V') (i : Incompat P S V M)
    (terms : P → Option (Term S)) :
    (Incompat.mapH h i).relation (fun p => (terms p).map (Term.mapH h)) = i.relation terms := by
  simp only [Incompat.relation, Incompat.mapH_terms, Incompat.relationGo_mapH]

theorem Incompat.mergeDependents_mapH (h : VSetHom S V S' V') (a b : Incompat P S V M) :
    (Incompat.mapH h a).mergeDependents (Incompat.mapH h b) =
      (a.mergeDependents b).map (Option.map (Incompat.mapH h)) := by
  unfold Incompat.mergeDependents
  simp only [Incompat.asDependency_mapH, Incompat.get_mapH]
  cases ha : a.asDependency with
  | none => rfl
  | some pp =>
    obtain ⟨p1, p2⟩ := pp
    cases hb : b.asDependency with
    | none => rfl
    | some o =>
      simp only [ne_eq, Term.optMapH_eq_iff]
      split
      · rfl
      split
      · rfl
      cases a.get p1 with
      | none => rfl
      | some t1 =>
        cases t1 with
        | neg s => rfl
        | pos s1 =>
          cases b.get p1 with
          | none => rfl
          | some t2 =>
            cases t2 with
            | neg s => rfl
            | pos s2 =>
              cases a.get p2 with
              | none =>
                simp [Incompat.unwrapPositive, ← h.map_union, ← h.map_empty,
                  ← Incompat.fromDependency_mapH]
              | some t =>
                cases t with
                | pos s => rfl
                | neg s =>
                  simp [Incompat.unwrapPositive, Incompat.unwrapNegative, ← h.map_union,
                    ← Incompat.fromDependency_mapH]

theorem Incompat.priorCause_mapH (h : VSetHom S V S' V') (id1 id2 : Nat) (a b : Incompat P S V M) (p : P) :
    Incompat.priorCause id1 id2 (Incompat.mapH h a) (Incompat.mapH h b) p =
      (Incompat.priorCause id1 id2 a b p).map (Incompat.mapH h) := by
  unfold Incompat.priorCause
  simp only [Incompat.mapH_terms, SmallMap.splitOne_mapVals, SmallMap.get_mapVals]
  cases SmallMap.splitOne a.terms p with
  | none => rfl
  | some x =>
    obtain ⟨t1, rest⟩ := x
    cases SmallMap.get b.terms p with
    | none => rfl
    | some t2 =>
      have hfil : List.filter (fun kv => decide (kv.1 ≠ p)) (b.terms.map fun kv => (kv.1, Term.mapH h kv.2)) =
          (List.filter (fun kv => decide (kv.1 ≠ p)) b.terms).map fun kv => (kv.1, Term.mapH h kv.2) := by
        rw [List.filter_map]; rfl
      have hm := SmallMap.merge_mapVals (Term.mapH h) rest
        (List.filter (fun kv => decide (kv.1 ≠ p)) b.terms)
        (fun a b => some (Term.intersection a b)) (fun a b => some (Term.intersection a b))
        (by intro a b; simp)
      simp only [Option.map_some, hom_unwrapOr_some, except_ok_bind, hfil, hm, Term.union_mapH, ne_eq,
        Term.mapH_eq_any_iff, except_pure_eq, exceptMap_ok, Incompat.mapH_mk, Kind.mapH]
      split <;> simp

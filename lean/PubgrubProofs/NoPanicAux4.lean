/-
Helpers for `NoPanic.lean`, part 4: the satisfier search only panics at the sites excluded by
`no_satisfier_panic`; conflict resolution, the propagation loops and `unit_propagation` do not panic
and keep `XInv`.
-/
import PubgrubProofs.NoPanicAux3

set_option linter.unusedSectionVars false
set_option linter.unusedVariables false

namespace Pubgrub
open VersionSet

section
variable {P S V M Pr : Type} [DecidableEq P] [VersionSet S V] [DecidableEq S] [DecidableEq V]
  [LawfulVersionSet S V]

namespace PartialSolution

theorem satisfier_fine (pa : PackageAssignments S V) (start : Term S) :
    Fine (satisfier pa start) (fun r => ∀ c, r.1 = some c → ∃ dd ∈ pa.dated, dd.cause = c) := by
  unfold satisfier
  split
  · rename_i dd hdd
    refine Fine.ok ?_
    intro c hc
    injection hc with hc
    exact ⟨dd, List.mem_of_find?_eq_some hdd, hc⟩
  · split
    · exact Fine.ok (fun c hc => by cases hc)
    · exact Fine.panic (by is_listed)

/-- the causes recorded in the satisfier map are causes of dated derivations -/
def CausesFrom (ps : PartialSolution P S V Pr) (m : SmallMap P (Option Nat × Nat × Nat)) : Prop :=
  ∀ q r, (q, r) ∈ m → ∀ c, r.1 = some c → ∃ p pa dd, ps.getPA p = some pa ∧ dd ∈ pa.dated ∧ dd.cause = c

theorem findSatisfier_go_fine (ps : PartialSolution P S V Pr) :
    ∀ (terms : List (P × Term S)) (acc : SmallMap P (Option Nat × Nat × Nat)), ps.CausesFrom acc →
    Fine (terms.foldlM (m := R) (fun acc (pt : P × Term S) => do
      let pa ← unwrapOr (ps.getPA pt.1) "find_satisfier: Must exist"
      let s ← satisfier pa pt.2.negate
      pure (SmallMap.insert acc pt.1 s)) acc) ps.CausesFrom := by
  intro terms
  induction terms with
  | nil => intro acc h; exact Fine.pure' h
  | cons x rest ih =>
    intro acc h
    simp only [List.foldlM_cons]
    refine Fine.bind (Q := ps.CausesFrom) ?_ (fun acc' _ h' => ih acc' h')
    refine Fine.bind (Fine.unwrapOr (Q := fun pa => ps.getPA x.1 = some pa) (fun _ => by is_listed)
      (fun a ha => ha)) ?_
    intro pa _ hpa
    refine Fine.bind (satisfier_fine pa x.2.negate) ?_
    intro s _ hs
    refine Fine.pure' ?_
    intro q r hm c hc
    rcases SmallMap.mem_insert_sub hm with e | hm'
    · injection e with e1 e2; subst e2
      obtain ⟨dd, hdd, hcc⟩ := hs c hc
      exact ⟨x.1, pa, dd, hpa, hdd, hcc⟩
    · exact h q r hm' c hc

theorem findSatisfier_fine (ps : PartialSolution P S V Pr) (terms : List (P × Term S)) :
    Fine (ps.findSatisfier terms) ps.CausesFrom := by
  unfold findSatisfier
  exact findSatisfier_go_fine ps terms [] (fun q r hm => by cases hm)

theorem prevAccum_fine (sp : P) (pa : PackageAssignments S V) (store : List (Incompat P S V M))
    (sc : Option Nat) (hsc : ∀ c, sc = some c → c < store.length) :
    Fine (prevAccum sp pa store sc) (fun _ => True) := by
  unfold prevAccum
  split
  · rename_i cause
    have hlt := hsc cause rfl
    have hget : store[cause]? = some store[cause] := List.getElem?_eq_getElem hlt
    rw [storeGet_some hget]
    refine Fine.bind (Q := fun _ => True) (Fine.ok trivial) ?_
    intro c _ _
    refine Fine.bind (Fine.unwrapOr (Q := fun _ => True) (fun _ => by is_listed) (fun _ _ => trivial)) ?_
    intro t _ _
    exact Fine.pure' trivial
  · split
    · exact Fine.throw' (by is_listed)
    · exact Fine.pure' trivial

theorem prevTail_fine (inc : Incompat P S V M) (sp : P) (m : SmallMap P (Option Nat × Nat × Nat))
    (pa : PackageAssignments S V) (accum : Term S) :
    Fine (prevTail inc sp m pa accum) (fun _ => True) := by
  unfold prevTail
  refine Fine.bind (Fine.unwrapOr (Q := fun _ => True) (fun _ => by is_listed) (fun _ _ => trivial)) ?_
  intro t _ _
  refine Fine.bind (satisfier_fine pa _) ?_
  intro s _ _
  refine Fine.bind (Fine.unwrapOr (Q := fun _ => True) (fun _ => by is_listed) (fun _ _ => trivial)) ?_
  intro y _ _
  exact Fine.pure' trivial

/-- the satisfier search panics at listed sites only, provided the causes of the dated derivations are
valid ids -/
theorem satisfierSearch_fine (ps : PartialSolution P S V Pr) (inc : Incompat P S V M)
    (store : List (Incompat P S V M))
    (hc : ∀ p pa, ps.getPA p = some pa → ∀ dd ∈ pa.dated, dd.cause < store.length) :
    Fine (ps.satisfierSearch inc store) (fun _ => True) := by
  rw [satisfierSearch_eq]
  refine Fine.bind (findSatisfier_fine ps inc.terms) ?_
  intro m _ hm
  refine Fine.bind (Fine.unwrapOr (Q := fun _ => True) (fun _ => by is_listed) (fun _ _ => trivial)) ?_
  intro y _ _
  refine Fine.bind (Q := fun _ => True) ?_ ?_
  · rw [findPreviousSatisfier_eq]
    refine Fine.bind (Fine.unwrapOr (Q := fun _ => True) (fun _ => by is_listed) (fun _ _ => trivial)) ?_
    intro pa _ _
    refine Fine.bind (Fine.unwrapOr (Q := fun sat => SmallMap.get m y.1 = some sat) (fun _ => by is_listed)
      (fun _ h => h)) ?_
    intro sat _ hsat
    refine Fine.bind (prevAccum_fine y.1 pa store sat.1 ?_) ?_
    · intro c hcc
      obtain ⟨p, pa', dd, hpa', hdd, hcause⟩ := hm y.1 sat (SmallMap.mem_of_get hsat) c hcc
      rw [← hcause]; exact hc p pa' hpa' dd hdd
    · intro accum _ _
      exact prevTail_fine inc y.1 m pa accum
  · intro prev _ _
    split
    · refine Fine.bind (Fine.unwrapOr (Q := fun _ => True) (fun _ => by is_listed) (fun _ _ => trivial)) ?_
      intro c _ _
      exact Fine.pure' trivial
    · exact Fine.pure' trivial

end PartialSolution

/-- `CauseInv` makes the causes of dated derivations valid ids -/
theorem State.CauseInv.valid {st : State P S V M Pr} (h : st.CauseInv) :
    ∀ p pa, st.ps.getPA p = some pa → ∀ dd ∈ pa.dated, dd.cause < st.store.length := by
  intro p pa hpa dd hdd
  obtain ⟨inc, hinc, _⟩ := h p pa (SmallMap.mem_of_get hpa) dd hdd
  exact (List.getElem?_eq_some_iff.1 hinc).1

theorem Incompat.asDependency_derived {i : Incompat P S V M} {a b : Nat} (h : i.kind = .derivedFrom a b) :
    i.asDependency = none := by
  unfold Incompat.asDependency; rw [h]

/-- an indexed incompatibility stays so when the store grows -/
def Indexed (st : State P S V M Pr) (id : Nat) : Prop :=
  ∃ inc, st.store[id]? = some inc ∧ KeysIndexed st.incompatibilities inc

namespace State

/-- conflict resolution does not panic -/
theorem conflictResolution_np (W : World P S V M) (root : P) (rv : V) :
    ∀ (fuel : Nat) (st : State P S V M Pr) (cur : Nat) (changed : Bool),
    SInv W root rv st → PInv st → TInv root rv st → XInv st →
    (∃ inc, st.store[cur]? = some inc ∧ st.ps.Satisfies inc ∧ (changed = true → inc.asDependency = none) ∧
      (changed = false → KeysIndexed st.incompatibilities inc)) →
    NoPanic (conflictResolution fuel st cur changed)
      (fun x => XInv x.1 ∧ (∀ pkg rc, x.2 = .ok (pkg, rc) → Indexed x.1 rc) ∧
        ∀ t, x.2 = .error t → t < x.1.store.length) := by
  intro fuel
  induction fuel with
  | zero => intro st cur changed _ _ _ _ _; unfold conflictResolution; exact NoPanic.fuel
  | succ fuel ih =>
    intro st cur changed hs hp ht hx ⟨inc, hinc, hsat, hdep, hkeys⟩
    have hw := hp.wf
    have gi := hs.store cur inc hinc
    unfold conflictResolution
    refine NoPanic.bind_ok (storeGet_some hinc) ?_
    have hterm : inc.isTerminal st.rootPackage st.rootVersion = inc.isTerminal root rv := by
      rw [hs.root, hs.rv]
    rw [hterm]
    split
    · refine NoPanic.ok ⟨hx, (fun pkg rc h => by cases h), ?_⟩
      intro t h
      injection h with h; subst h
      exact (List.getElem?_eq_some_iff.1 hinc).1
    rename_i hnt
    have hnt' : inc.isTerminal root rv = false := by
      cases h : inc.isTerminal root rv with
      | true => exact absurd h hnt
      | false => rfl
    have hlvl : st.ps.currentDecisionLevel ≠ 0 := by
      intro h0
      rw [terminal_of_level0 W root rv hs ht hinc hsat h0] at hnt'; cases hnt'
    have hsearch := NoPanic.of_safe_fine
      (PartialSolution.satisfierSearch_safe (TInv.searchCtx hs hp ht) gi.nodup gi.sets hsat hnt')
      (PartialSolution.satisfierSearch_fine st.ps inc st.store ht.cause.valid)
    refine NoPanic.bind hsearch ?_
    intro ⟨pkg, search⟩ hss ⟨hpost, _⟩
    dsimp only
    cases search with
    | differentDecisionLevels prev =>
      dsimp only
      refine NoPanic.bind (backtrack_np W root rv hs hp hx hinc changed prev hdep hkeys) ?_
      intro st1 hst1 ⟨hx1, hk1⟩
      refine NoPanic.ok ⟨hx1, ?_, fun t h => by cases h⟩
      intro pkg' rc' h
      injection h with h; injection h with h1 h2; subst h1; subst h2
      obtain ⟨_, hstore⟩ := (backtrack_safe hp cur changed prev).of_ok hst1
      exact ⟨inc, hstore cur inc hinc, hk1⟩
    | sameDecisionLevels c =>
      dsimp only
      obtain ⟨hgetp, pa, dd, hpa, hdd, hc⟩ := hpost
      simp only at hgetp hpa hc
      obtain ⟨causeInc, hcause, hcget, _⟩ := ht.cause pkg pa (SmallMap.mem_of_get hpa) dd hdd
      rw [hc] at hcause
      refine NoPanic.bind_ok (storeGet_some hcause) ?_
      obtain ⟨prior, hprior⟩ := Incompat.priorCause_ok cur c hgetp hcget
      refine NoPanic.bind_ok hprior ?_
      have gc := hs.store _ _ hcause
      have gp := Incompat.priorCause_good W root rv st.store cur c inc causeInc hinc hcause gi
        gc pkg prior hprior st.store.length (List.getElem?_eq_some_iff.1 hinc).1
        (List.getElem?_eq_some_iff.1 hcause).1
      have hs2 : SInv W root rv ({ st with store := st.store ++ [prior] } : State P S V M Pr) :=
        ⟨storeInv_push W root rv st.store prior hs.store gp, hs.root, hs.rv, hs.ps⟩
      have hp2 : PInv ({ st with store := st.store ++ [prior] } : State P S V M Pr) := hp.storeAppend [prior]
      have hne : st.ps.assignments ≠ [] := by
        intro e
        have := SmallMap.mem_of_get hpa
        rw [e] at this; cases this
      have ht2 : TInv root rv ({ st with store := st.store ++ [prior] } : State P S V M Pr) :=
        ht.storeExt rfl (fun i inc' hi => by
          show (st.store ++ [prior])[i]? = some inc'
          rw [List.getElem?_append_left (List.getElem?_eq_some_iff.1 hi).1]; exact hi) hne
          (fun h0 => absurd h0 hlvl)
      have hx2 : XInv ({ st with store := st.store ++ [prior] } : State P S V M Pr) := by
        refine hx.storeAppend [prior] ?_
        intro hd i hi
        rw [List.mem_singleton.1 hi]
        obtain ⟨hU, hall⟩ := hx.noAny hd
        exact Incompat.noAny_priorCause hU gi.nodup gc.nodup gi.sets gc.sets
          (hall inc (List.mem_of_getElem? hinc)) (hall causeInc (List.mem_of_getElem? hcause)) hprior
      have hpk : prior.kind = .derivedFrom cur c := by
        obtain ⟨_, _, _, _, _, _, _, hk, _⟩ :=
          Incompat.priorCause_spec inc causeInc gi.nodup gc.nodup cur c pkg prior hprior
        exact hk
      refine ih _ _ _ hs2 hp2 ht2 hx2 ⟨prior, ?_, ?_, fun _ => Incompat.asDependency_derived hpk,
        fun h => by cases h⟩
      · show (st.store ++ [prior])[st.store.length]? = some prior
        rw [List.getElem?_append_right (Nat.le_refl _)]; simp
      · exact satisfies_priorCause W root rv hs hp ht hinc hcause hsat hpa hdd hc hprior

/-- the state after a derivation for a key of an indexed incompatibility -/
theorem XInv.derive {st : State P S V M Pr} (hx : XInv st) (hw : st.ps.WF) {p : P} {id : Nat}
    {ps : PartialSolution P S V Pr} (hps : st.ps.addDerivation p id st.store = .ok ps)
    (hidx : (SmallMap.get st.incompatibilities p).isSome = true)
    (buffer : List P) (hb : ∀ q ∈ buffer, (SmallMap.get st.incompatibilities q).isSome = true)
    (contradicted : List (Nat × Nat)) :
    XInv ({ st with buffer := buffer, ps := ps, contradicted := contradicted } : State P S V M Pr) := by
  refine ⟨hx.idx, hx.md, ?_, hb, hx.noAny⟩
  intro q qa hq
  by_cases hqp : q = p
  · subst hqp; exact hidx
  · have := PartialSolution.addDerivation_getPA_ne hw hps hqp
    simp only at hq
    rw [this] at hq
    exact hx.asg q qa hq

theorem propagateIncompats_np (W : World P S V M) (root : P) (rv : V) :
    ∀ (ids : List Nat) (st : State P S V M Pr), SInv W root rv st → PInv st → TInv root rv st → XInv st →
    (∀ id ∈ ids, Indexed st id) →
    NoPanic (propagateIncompats st ids) (fun x => XInv x.1 ∧ ∀ id, x.2 = some id → Indexed x.1 id) := by
  intro ids
  induction ids with
  | nil =>
    intro st hs hp ht hx _
    unfold propagateIncompats
    exact NoPanic.ok ⟨hx, fun id h => by cases h⟩
  | cons id rest ih =>
    intro st hs hp ht hx hids
    have hrest : ∀ x ∈ rest, Indexed st x := fun x hx' => hids x (List.mem_cons_of_mem _ hx')
    obtain ⟨inc, hinc, hkeys⟩ := hids id List.mem_cons_self
    unfold propagateIncompats
    split
    · exact ih st hs hp ht hx hrest
    rw [storeGet_some hinc]
    dsimp only
    have hid := (List.getElem?_eq_some_iff.1 hinc).1
    split
    · exact NoPanic.ok ⟨hx, fun id' h => by injection h with h; subst h; exact ⟨inc, hinc, hkeys⟩⟩
    · rename_i p hrel
      obtain ⟨⟨ps', hps⟩, hnext⟩ := almost_derivation W root rv hs hp ht hinc hrel
      rw [hps]
      dsimp only
      obtain ⟨_, t, hpt, _⟩ := Incompat.relationGo_almost _ p inc.terms hrel
      have hpidx : (SmallMap.get st.incompatibilities p).isSome = true := hkeys (p, t) hpt
      refine ih _ ⟨hs.store, hs.root, hs.rv, PartialSolution.addDerivation_termsValid W root rv hs.store hs.ps hps⟩
        (hp.derive hid hps _ _) (hnext ps' hps _ rfl rfl) (XInv.derive hx hp.wf.wf hps hpidx _ ?_ _) hrest
      intro q hq
      split at hq
      · exact hx.buf q hq
      · rcases List.mem_append.1 hq with h | h
        · exact hx.buf q h
        · rw [List.mem_singleton.1 h]; exact hpidx
    · exact ih _ ⟨hs.store, hs.root, hs.rv, hs.ps⟩ (hp.cacheInsert hid _) (ht.congr rfl rfl)
        ⟨hx.idx, hx.md, hx.asg, hx.buf, hx.noAny⟩ hrest
    · exact ih st hs hp ht hx hrest

theorem unitPropagationLoop_np (W : World P S V M) (root : P) (rv : V) :
    ∀ (fuel : Nat) (st : State P S V M Pr), SInv W root rv st → PInv st → TInv root rv st → XInv st →
    NoPanic (unitPropagationLoop fuel st) (fun x => XInv x.1 ∧ ∀ t, x.2 = some t → t < x.1.store.length) := by
  intro fuel
  induction fuel with
  | zero => intro st _ _ _ _; unfold unitPropagationLoop; exact NoPanic.fuel
  | succ fuel ih =>
    intro st hs hp ht hx
    unfold unitPropagationLoop
    split
    · exact NoPanic.ok ⟨hx, fun t h => by cases h⟩
    rename_i current hcur
    dsimp only
    have hcidx : (SmallMap.get st.incompatibilities current).isSome = true :=
      hx.buf current (List.mem_of_getLast? hcur)
    split
    · rename_i hnone
      rw [hnone] at hcidx; cases hcidx
    rename_i ids hids
    have hs0 : SInv W root rv ({ st with buffer := st.buffer.dropLast } : State P S V M Pr) :=
      ⟨hs.store, hs.root, hs.rv, hs.ps⟩
    have hp0 : PInv ({ st with buffer := st.buffer.dropLast } : State P S V M Pr) := ⟨hp.wf, hp.cache⟩
    have ht0 : TInv root rv ({ st with buffer := st.buffer.dropLast } : State P S V M Pr) := ht.congr rfl rfl
    have hx0 : XInv ({ st with buffer := st.buffer.dropLast } : State P S V M Pr) :=
      ⟨hx.idx, hx.md, hx.asg, fun q hq => hx.buf q (List.dropLast_subset _ hq), hx.noAny⟩
    have hprop := propagateIncompats_safe W root rv ids.reverse _ hs0 hp0 ht0
    have hpropx := propagateIncompats_np W root rv ids.reverse _ hs0 hp0 ht0 hx0
      (fun id hid => hx.idx current ids hids id (List.mem_reverse.1 hid))
    split
    · rename_i e he
      exact hpropx.of_error he
    · rename_i st1 he
      have hs1 := propagateIncompats_inv W root rv _ _ he hs0
      have hp1 := (propagateIncompats_pinv (o := none) _ _ he hp0).1
      have ht1 := (hprop.of_ok he).1
      exact ih st1 hs1 hp1 ht1 (hpropx.of_ok he).1
    · rename_i st1 cid he
      have hs1 := propagateIncompats_inv W root rv _ _ he hs0
      have hp1 := (propagateIncompats_pinv (o := none) _ _ he hp0).1
      obtain ⟨ht1, hsat⟩ := hprop.of_ok he
      obtain ⟨hx1, hcidx1⟩ := hpropx.of_ok he
      obtain ⟨inc, hinc, hrel⟩ := hsat cid rfl
      obtain ⟨inc', hinc', hkeys⟩ := hcidx1 cid rfl
      simp only at hinc hinc'
      rw [hinc] at hinc'; injection hinc' with hinc'; subst hinc'
      have hsatis := PartialSolution.satisfies_of_relation W root rv hs1 hinc hrel
      have hcr := conflictResolution_safe W root rv fuel st1 cid false hs1 hp1 ht1 ⟨inc, hinc, hsatis⟩
      have hcrx := conflictResolution_np W root rv fuel st1 cid false hs1 hp1 ht1 hx1
        ⟨inc, hinc, hsatis, (fun h => by cases h), fun _ => hkeys⟩
      split
      · rename_i e he2
        exact hcrx.of_error he2
      · rename_i st2 terminal he2
        obtain ⟨hx2, _, hterm⟩ := hcrx.of_ok he2
        exact NoPanic.ok ⟨hx2, fun t h => by injection h with h; subst h; exact hterm _ rfl⟩
      · rename_i st2 pkg rc he2
        obtain ⟨hs2, _⟩ := conflictResolution_inv W root rv _ _ _ _ he2 hs1
        obtain ⟨hp2, _⟩ := conflictResolution_pinv _ _ _ _ he2 hp1
        obtain ⟨ht2, hac⟩ := hcr.of_ok he2 pkg rc rfl
        obtain ⟨hx2, hidx2, _⟩ := hcrx.of_ok he2
        obtain ⟨inc2, hinc2, hget2, hoth2⟩ := hac.stored
        obtain ⟨inc2', hinc2', hkeys2⟩ := hidx2 pkg rc rfl
        simp only at hinc2 hinc2'
        rw [hinc2] at hinc2'; injection hinc2' with hinc2'; subst hinc2'
        obtain ⟨ps', hps⟩ := PartialSolution.addDerivation_ok hinc2 hget2 hac.undecided
        rw [hps]
        dsimp only
        obtain ⟨inc', t0, t', pa', hinc', ht0, hnone, hstep⟩ :=
          PartialSolution.addDerivation_step W root rv hs2.store hp2.wf.wf hps
        rw [hinc2] at hinc'; injection hinc' with hinc'; subst hinc'
        have hpidx : (SmallMap.get st2.incompatibilities pkg).isSome = true :=
          hkeys2 (pkg, t0) (SmallMap.mem_of_get ht0)
        refine ih _ ⟨hs2.store, hs2.root, hs2.rv,
            PartialSolution.addDerivation_termsValid W root rv hs2.store hs2.ps hps⟩
          (hp2.derive (List.getElem?_eq_some_iff.1 hinc2).1 hps _ _) ?_
          (XInv.derive hx2 hp2.wf.wf hps hpidx _ (fun q hq => by rw [List.mem_singleton.1 hq]; exact hpidx) _)
        refine tinv_deriv W root rv hs2 hp2 ht2 hstep hinc2 ht0 hnone hoth2 ?_ rfl rfl
        intro h0
        have := hac.level
        simp only at this h0
        omega

theorem unitPropagation_np (W : World P S V M) (root : P) (rv : V) (fuel : Nat) (st : State P S V M Pr)
    (p : P) (hs : SInv W root rv st) (hp : PInv st) (ht : TInv root rv st) (hx : XInv st)
    (hpidx : (SmallMap.get st.incompatibilities p).isSome = true) :
    NoPanic (unitPropagation fuel st p) (fun x => XInv x.1 ∧ ∀ t, x.2 = some t → t < x.1.store.length) := by
  unfold unitPropagation
  exact unitPropagationLoop_np W root rv fuel _ ⟨hs.store, hs.root, hs.rv, hs.ps⟩ ⟨hp.wf, hp.cache⟩
    (ht.congr rfl rfl)
    ⟨hx.idx, hx.md, hx.asg, fun q hq => by rw [List.mem_singleton.1 hq]; exact hpidx, hx.noAny⟩

end State
end
end Pubgrub

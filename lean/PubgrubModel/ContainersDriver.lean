/-
Driver side of the `SmallVec` / `SmallMap` scripts (requests `svx|…`, `smx|…`).
-/
import PubgrubModel.Containers

namespace Pubgrub.ContainersDriver
open Pubgrub

def hexDigit (n : Nat) : Char := "0123456789abcdef".toList.getD n '?'
def hexByte (b : Nat) : String := String.ofList [hexDigit (b / 16), hexDigit (b % 16)]
/-- a `u32` in little-endian bytes -/
def hexU32 (x : Nat) : String :=
  hexByte (x % 256) ++ hexByte (x / 256 % 256) ++ hexByte (x / 65536 % 256) ++ hexByte (x / 16777216 % 256)

def natList (l : List Nat) : String := ",".intercalate (l.map toString)

/-- what the recording hasher sees: `write_usize(len)`, then one `write` with the bytes of the slice -/
def feedText (f : Nat × List Nat) : String :=
  "U" ++ toString f.1 ++ ";B" ++ String.join (f.2.map hexU32) ++ ";"

def svState (s : SmallVecX Nat) : String := s.tag ++ ":" ++ natList s.toList

def svStep (s : SmallVecX Nat) (op : String) : Option (SmallVecX Nat × String) :=
  if op == "O" then
    let (o, s') := s.pop
    some (s', svState s' ++ ":" ++ (match o with | some x => toString x | none => "none"))
  else if op == "C" then
    let s' := s.clear
    some (s', svState s')
  else if op.startsWith "P" then
    match (op.drop 1).toString.toNat? with
    | some x => let s' := s.push x; some (s', svState s')
    | none => none
  else none

def svRun : SmallVecX Nat → List String → List String → Option (SmallVecX Nat × List String)
  | s, [], out => some (s, out)
  | s, op :: ops, out =>
    match svStep s op with
    | none => none
    | some (s', line) => svRun s' ops (out ++ [line])

/-- `svx|P1 P2 O C …` -/
def svx (script : String) : String :=
  let ops := (script.splitOn " ").filter (· ≠ "")
  match svRun .empty ops [] with
  | none => "bad-op"
  | some (s, out) => ";".intercalate out ++ "|hash=" ++ feedText s.hashFeed ++ "|len=" ++ toString s.len

/-! ### SmallMap -/

def sortPairs (l : List (Nat × Nat)) : List (Nat × Nat) :=
  (l.toArray.qsort (fun a b => a.1 < b.1 || (a.1 == b.1 && a.2 < b.2))).toList

def smState (m : SmallMapX Nat Nat) : String :=
  -- inline variants keep their order (it is observable through `iter`), the hash map is printed sorted
  let l := match m with | .flexible d => sortPairs d | _ => m.toAssoc
  m.tag ++ ":" ++ ",".intercalate (l.map fun kv => toString kv.1 ++ "=" ++ toString kv.2)

def optS (o : Option Nat) : String := match o with | some x => toString x | none => "none"

/-- the merge function of the scripts: sums, dropping the key when the sum is divisible by 3 -/
def mergeF (a b : Nat) : Option Nat := if (a + b) % 3 == 0 then none else some (a + b)

def parsePairs (s : String) : Option (List (Nat × Nat)) :=
  ((s.splitOn ",").filter (· ≠ "")).mapM fun (e : String) =>
    match e.splitOn "=" with
    | [k, v] => match k.toNat?, v.toNat? with
      | some k, some v => some (k, v)
      | _, _ => none
    | _ => none

def smStep (m : SmallMapX Nat Nat) (op : String) : Option (SmallMapX Nat Nat × String) :=
  match op.splitOn " " with
  | ["I", k, v] => match k.toNat?, v.toNat? with
    | some k, some v => let m' := m.insert k v; some (m', smState m')
    | _, _ => none
  | ["R", k] => match k.toNat? with
    | some k => let (o, m') := m.remove k; some (m', smState m' ++ ":" ++ optS o)
    | none => none
  | ["G", k] => match k.toNat? with
    | some k => some (m, smState m ++ ":" ++ optS (m.get k))
    | none => none
  | ["S", k] => match k.toNat? with
    | some k => match m.splitOne k with
      | some (v, rest) => some (m, smState m ++ ":" ++ toString v ++ ":" ++ smState rest)
      | none => some (m, smState m ++ ":none")
    | none => none
  | ["L"] => some (m, smState m ++ ":" ++ toString m.len)
  | ["M", pairs] => match parsePairs pairs with
    | some ps => let m' := m.merge ps mergeF; some (m', smState m')
    | none => none
  | ["M"] => some (m.merge [] mergeF, smState m)
  | _ => none

def smRun : SmallMapX Nat Nat → List String → List String → Option (List String)
  | _, [], out => some out
  | m, op :: ops, out =>
    match smStep m op with
    | none => none
    | some (m', line) => smRun m' ops (out ++ [line])

/-- `smx|I 1 2;R 1;G 3;S 1;L;M 1=2,3=4` -/
def smx (script : String) : String :=
  let ops := (script.splitOn ";").filter (· ≠ "")
  match smRun .empty ops [] with
  | none => "bad-op"
  | some out => ";".intercalate out

end Pubgrub.ContainersDriver

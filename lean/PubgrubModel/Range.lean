/-
Model of `/repo/src/range.rs`.

`Range<V>` is a `SmallVec<(Bound<V>, Bound<V>)>`; here it is the list of its segments.  Every function
below is a transcription of the Rust function of the same (snake-case) name: same case analysis,
same cursor movements, same bounds cloned.  No Mathlib import: this file is linked into the
executable model driver.
-/

namespace Pubgrub

/-- `std::ops::Bound<V>`. -/
inductive Bound (V : Type) where
  | incl (v : V)
  | excl (v : V)
  | unb
  deriving DecidableEq, Repr

open Bound

/-- `Interval<V> = (Bound<V>, Bound<V>)`. -/
abbrev Seg (V : Type) := Bound V × Bound V

/-- The segments of a `Range<V>` (what `SmallVec::as_slice` returns). -/
abbrev Range (V : Type) := List (Seg V)

variable {V : Type} [LT V] [LE V] [DecidableLT V] [DecidableLE V] [DecidableEq V]

namespace Range

/-! ### Constructors -/

def empty : Range V := []
def full : Range V := [(unb, unb)]
def higherThan (v : V) : Range V := [(incl v, unb)]
def strictlyHigherThan (v : V) : Range V := [(excl v, unb)]
def strictlyLowerThan (v : V) : Range V := [(unb, excl v)]
def lowerThan (v : V) : Range V := [(unb, incl v)]
def between (v1 v2 : V) : Range V := [(incl v1, excl v2)]
def singleton (v : V) : Range V := [(incl v, incl v)]
def isEmpty (r : Range V) : Bool := List.isEmpty r

/-! ### Bound predicates (`range.rs`, free functions) -/

/-- `valid_segment` -/
def validSegment : Bound V → Bound V → Bool
  | incl s, incl e => s ≤ e
  | incl s, excl e => s < e
  | excl s, incl e => s < e
  | excl s, excl e => s < e
  | unb, _ => true
  | _, unb => true

/-- `end_before_start_with_gap` -/
def endBeforeStartWithGap : Bound V → Bound V → Bool
  | _, unb => false
  | unb, _ => false
  | incl l, incl r => l < r
  | incl l, excl r => l < r
  | excl l, incl r => l < r
  | excl l, excl r => l ≤ r

/-- `left_start_is_smaller` -/
def leftStartIsSmaller : Bound V → Bound V → Bool
  | unb, _ => true
  | _, unb => false
  | incl l, incl r => l ≤ r
  | excl l, excl r => l ≤ r
  | incl l, excl r => l ≤ r
  | excl l, incl r => l < r

/-- `left_end_is_smaller` -/
def leftEndIsSmaller : Bound V → Bound V → Bool
  | _, unb => true
  | unb, _ => false
  | incl l, incl r => l ≤ r
  | excl l, excl r => l ≤ r
  | excl l, incl r => l ≤ r
  | incl l, excl r => l < r

/-- `within_bounds` : position of a version relative to a segment. -/
def withinBounds (v : V) (seg : Seg V) : Ordering :=
  let belowLower : Bool := match seg.1 with
    | excl s => v ≤ s
    | incl s => v < s
    | unb => false
  if belowLower then .lt else
  let belowUpper : Bool := match seg.2 with
    | unb => true
    | incl e => v ≤ e
    | excl e => v < e
  if belowUpper then .eq else .gt

/-! ### complement -/

/-- the bound flip done inline in `negate_segments` -/
def flipB : Bound V → Bound V
  | incl v => excl v
  | excl v => incl v
  | unb => unb

/-- `negate_segments`.  (Rust: `unreachable!()` on an unbounded *start* of a listed segment; that
cannot happen for a canonical range and the model maps it to `unb`.) -/
def negateSegments (start : Bound V) : List (Seg V) → Range V
  | [] => match start with
    | unb => []
    | s => [(s, unb)]
  | (v1, v2) :: t => (start, flipB v1) :: negateSegments (flipB v2) t

/-- `complement` -/
def complement : Range V → Range V
  | [] => full
  | (unb, unb) :: _ => empty
  | (incl v, unb) :: _ => strictlyLowerThan v
  | (excl v, unb) :: _ => lowerThan v
  | (unb, incl v) :: t => negateSegments (excl v) t
  | (unb, excl v) :: t => negateSegments (incl v) t
  | (incl a, incl b) :: t => negateSegments unb ((incl a, incl b) :: t)
  | (incl a, excl b) :: t => negateSegments unb ((incl a, excl b) :: t)
  | (excl a, incl b) :: t => negateSegments unb ((excl a, incl b) :: t)
  | (excl a, excl b) :: t => negateSegments unb ((excl a, excl b) :: t)

/-! ### membership -/

/-- `contains`: the Rust is `binary_search_by(within_bounds(v, seg).reverse()).is_ok()`.  On a slice
that is sorted for the comparator (every canonical range is) the documented result of
`binary_search_by` is `Ok` iff some element compares `Equal`; that documented behaviour is what is
modelled here (the search order of `std` is not). -/
def contains (r : Range V) (v : V) : Bool :=
  r.any fun seg => withinBounds v seg == .eq

/-- The cursor loop shared by `contains_many` and `simplify`:
for each version (ascending), the index of the segment containing it, advancing a cursor `i` over
the remaining segments `rest`. -/
def locations : (rest : List (Seg V)) → (i : Nat) → List V → List (Option Nat)
  | _, _, [] => []
  | [], i, _ :: vs => none :: locations [] i vs
  | seg :: rest, i, v :: vs =>
    match withinBounds v seg with
    | .lt => none :: locations (seg :: rest) i vs
    | .eq => some i :: locations (seg :: rest) i vs
    | .gt => locations rest (i + 1) (v :: vs)
termination_by rest _ vs => rest.length + vs.length

/-- `contains_many` (argument sorted ascending; Rust debug-asserts that). -/
def containsMany (r : Range V) (vs : List V) : List Bool :=
  (locations r 0 vs).map Option.isSome

/-! ### small queries -/

/-- `as_singleton` -/
def asSingleton : Range V → Option V
  | [(incl v1, incl v2)] => if v1 = v2 then some v1 else none
  | _ => none

/-- `bounding_range` -/
def boundingRange (r : Range V) : Option (Bound V × Bound V) :=
  match r.head?, r.getLast? with
  | some (s, _), some (_, e) => some (s, e)
  | _, _ => none

/-- `from_range_bounds` on the two `std` bounds. -/
def fromRangeBounds (start end_ : Bound V) : Range V :=
  if validSegment start end_ then [(start, end_)] else empty

/-- `check_invariants` as a predicate (the Rust asserts it in debug builds). -/
def checkInvariants : Range V → Bool
  | [] => true
  | [(s, e)] => validSegment s e
  | (s, e) :: (s', e') :: t =>
    validSegment s e && endBeforeStartWithGap e s' && checkInvariants ((s', e') :: t)

/-! ### union -/

/-- the `accumulator_end` match inside `union` -/
def unionEnd : Bound V → Bound V → Bound V
  | _, unb => unb
  | unb, _ => unb
  | incl l, excl r => if l = r then incl l else if l > r then incl l else excl r
  | incl l, incl r => if l = r then incl l else if l > r then incl l else incl r
  | excl l, incl r => if l > r then excl l else incl r
  | excl l, excl r => if l > r then excl l else excl r

/-- one pass of the `if let Some(accumulator_) = accumulator` block: segments pushed to the output
and the new accumulator. -/
def unionAccum (acc : Option (Seg V)) (s : Seg V) : List (Seg V) × Seg V :=
  match acc with
  | none => ([], s)
  | some a =>
    if endBeforeStartWithGap a.2 s.1 then ([a], s)
    else ([], (a.1, unionEnd a.2 s.2))

/-- the `loop` of `union` -/
def unionGo (acc : Option (Seg V)) : List (Seg V) → List (Seg V) → List (Seg V)
  | l :: ls, r :: rs =>
    if leftStartIsSmaller l.1 r.1 then
      (unionAccum acc l).1 ++ unionGo (some (unionAccum acc l).2) ls (r :: rs)
    else
      (unionAccum acc r).1 ++ unionGo (some (unionAccum acc r).2) (l :: ls) rs
  | l :: ls, [] => (unionAccum acc l).1 ++ unionGo (some (unionAccum acc l).2) ls []
  | [], r :: rs => (unionAccum acc r).1 ++ unionGo (some (unionAccum acc r).2) [] rs
  | [], [] => match acc with
    | some a => [a]
    | none => []
termination_by a b => a.length + b.length

/-- `union` -/
def union (a b : Range V) : Range V := unionGo none a b

/-! ### intersection -/

/-- the `start` match inside `intersection` -/
def interStart : Bound V → Bound V → Bound V
  | incl l, incl r => if l ≤ r then incl r else incl l   -- `max(l, r)`: `r` when equal
  | excl l, excl r => if l ≤ r then excl r else excl l
  | incl i, excl e => if i ≤ e then excl e else incl i
  | excl e, incl i => if i ≤ e then excl e else incl i
  | s, unb => s
  | unb, s => s

/-- `intersection` -/
def intersection : Range V → Range V → Range V
  | (ls, le) :: l, (rs, re) :: r =>
    if leftEndIsSmaller le re then
      if validSegment rs le then (interStart ls rs, le) :: intersection l ((rs, re) :: r)
      else intersection l ((rs, re) :: r)
    else
      if validSegment ls re then (interStart ls rs, re) :: intersection ((ls, le) :: l) r
      else intersection ((ls, le) :: l) r
  | [], _ => []
  | _ :: _, [] => []
termination_by a b => a.length + b.length

/-! ### is_disjoint, subset_of -/

/-- `is_disjoint` -/
def isDisjoint : Range V → Range V → Bool
  | (ls, le) :: l, (rs, re) :: r =>
    if !validSegment rs le then isDisjoint l ((rs, re) :: r)
    else if !validSegment ls re then isDisjoint ((ls, le) :: l) r
    else false
  | [], _ => true
  | _ :: _, [] => true
termination_by a b => a.length + b.length

/-- the `for subset_elem in subset_iter` loop of `subset_of`, with the current containing element
`c` and the rest of the containing iterator `cs`. -/
def subsetGo : List (Seg V) → Seg V → List (Seg V) → Bool
  | [], _, _ => true
  | s :: ss, c, cs =>
    if !validSegment s.1 c.2 then
      match cs with
      | [] => false
      | c' :: cs' => subsetGo (s :: ss) c' cs'
    else if !leftStartIsSmaller c.1 s.1 then false
    else if !leftEndIsSmaller s.2 c.2 then false
    else subsetGo ss c cs
termination_by ss _ cs => ss.length + cs.length

/-- `subset_of` -/
def subsetOf (a b : Range V) : Bool :=
  match b with
  | [] => a.isEmpty
  | c :: cs => subsetGo a c cs

/-! ### simplify -/

/-- the `from_fn` state machine of `group_adjacent_locations`, with the pending segment `seg`. -/
def groupAdj : Option (Option Nat × Option Nat) → List (Option Nat) →
    List (Option Nat × Option Nat)
  | seg, [] => match seg with
    | some (s, _) => [(s, none)]
    | none => []
  | seg, some ver :: t =>
    groupAdj (some ((match seg with | some (s, _) => s | none => some ver), some ver)) t
  | some sg, none :: t => sg :: groupAdj none t
  | none, none :: t => groupAdj none t

/-- `group_adjacent_locations` -/
def groupAdjacentLocations : List (Option Nat) → List (Option Nat × Option Nat)
  | [] => []
  | h :: t => groupAdj (h.map fun ver => (none, some ver)) t

/-- `keep_segments` -/
def keepSegments (r : Range V) (kept : List (Option Nat × Option Nat)) : Range V :=
  kept.map fun (s, e) =>
    ((match s with | none => unb | some s => match r[s]? with | some sg => sg.1 | none => unb),
     (match e with | none => unb | some e => match r[e]? with | some sg => sg.2 | none => unb))

/-- `simplify` (argument sorted ascending) -/
def simplify (r : Range V) (vs : List V) : Range V :=
  if (asSingleton r).isSome then r else
  let kept := groupAdjacentLocations (locations r 0 vs)
  if kept.isEmpty then r else keepSegments r kept

/-! ### Ord -/

/-- `V::partial_cmp` for a totally ordered `V` -/
def cmpV (a b : V) : Ordering := if a < b then .lt else if a = b then .eq else .gt

/-- `cmp_bounds_start` -/
def cmpBoundsStart : Bound V → Bound V → Ordering
  | unb, unb => .eq
  | incl _, unb => .gt
  | excl _, unb => .gt
  | unb, incl _ => .lt
  | incl l, incl r => cmpV l r
  | excl l, incl r => match cmpV l r with
    | .lt => .lt
    | .eq => .gt
    | .gt => .gt
  | unb, excl _ => .lt
  | incl l, excl r => match cmpV l r with
    | .lt => .lt
    | .eq => .lt
    | .gt => .gt
  | excl l, excl r => cmpV l r

/-- `cmp_bounds_end` -/
def cmpBoundsEnd : Bound V → Bound V → Ordering
  | unb, unb => .eq
  | incl _, unb => .lt
  | excl _, unb => .lt
  | unb, incl _ => .gt
  | incl l, incl r => cmpV l r
  | excl l, incl r => match cmpV l r with
    | .lt => .lt
    | .eq => .lt
    | .gt => .gt
  | unb, excl _ => .gt
  | incl l, excl r => match cmpV l r with
    | .lt => .lt
    | .eq => .gt
    | .gt => .gt
  | excl l, excl r => cmpV l r

/-- `Ord::cmp` / `PartialOrd::partial_cmp` for `Range<V>` -/
def cmp : Range V → Range V → Ordering
  | (ls, le) :: l, (rs, re) :: r =>
    match cmpBoundsStart ls rs with
    | .eq => match cmpBoundsEnd le re with
      | .eq => cmp l r
      | o => o
    | o => o
  | [], [] => .eq
  | [], _ :: _ => .lt
  | _ :: _, [] => .gt

/-! ### Display -/

/-- one segment of `impl Display for Range` -/
def displaySeg (showV : V → String) : Seg V → String
  | (unb, unb) => "*"
  | (unb, incl v) => "<=" ++ showV v
  | (unb, excl v) => "<" ++ showV v
  | (incl v, unb) => ">=" ++ showV v
  | (incl v, incl b) => if v = b then showV v else ">=" ++ showV v ++ ", <=" ++ showV b
  | (incl v, excl b) => ">=" ++ showV v ++ ", <" ++ showV b
  | (excl v, unb) => ">" ++ showV v
  | (excl v, incl b) => ">" ++ showV v ++ ", <=" ++ showV b
  | (excl v, excl b) => ">" ++ showV v ++ ", <" ++ showV b

/-- `impl Display for Range` -/
def display (showV : V → String) (r : Range V) : String :=
  match r with
  | [] => "∅"
  | _ => " | ".intercalate (r.map (displaySeg showV))

end Range
end Pubgrub

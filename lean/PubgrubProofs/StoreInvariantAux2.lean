/-
Helpers for `StoreInvariant.lean`, part 2: the operations of the partial solution keep its terms valid.
-/
import PubgrubProofs.StoreInvariantAux1
set_option linter.unusedSectionVars false
namespace Pubgrub
open VersionSet
variable {P S V M Pr : Type} [DecidableEq P] [VersionSet S V] [DecidableEq S]
  [LawfulVersionSet S V]

theorem bind_eq_ok {ε α β : Type} {x : Except ε α} {f : α → Except ε β} {b : β}
    (h : (x >>= f) = .ok b) : ∃ a, x = .ok a ∧ f a = .ok b := by
  cases x with
  | error e => cases h
  | ok a => exact ⟨a, rfl, h⟩

theorem Incompat.get_valid (W : World P S V M) (root : P) (rv : V) {store : List (Incompat P S V M)}
    (hs : StoreInv W root rv store) {id : Nat} {inc : Incompat P S V M} (hi : store[id]? = some inc)
    {p : P} {t : Term S} (ht : inc.get p = some t) : t.Valid :=
  (hs id inc hi).sets p t (SmallMap.mem_of_get ht)

namespace PartialSolution

theorem addDerivation_termsValid (W : World P S V M) (root : P) (rv : V)
    {ps ps' : PartialSolution P S V Pr} {p : P} {cause : Nat} {store : List (Incompat P S V M)}
    (hs : StoreInv W root rv store) (h : ps.TermsValid)
    (hr : ps.addDerivation p cause store = .ok ps') : ps'.TermsValid := by
  unfold addDerivation at hr
  simp only [bind, Except.bind, pure, Except.pure] at hr
  split at hr
  · cases hr
  rename_i inc hinc
  split at hr
  · cases hr
  rename_i t ht
  have htv : t.negate.Valid :=
    Term.valid_negate _ (Incompat.get_valid W root rv hs (storeGet_ok hinc) (unwrapOr_ok ht))
  split at hr
  · rename_i idx pa hidx hpa
    have hpav := termsValid_of_getPA h hpa
    split at hr
    · cases hr
    · rename_i t0 ht0
      injection hr with hr; subst hr
      have ht0v : t0.Valid := by have := hpav.inter; rwa [ht0] at this
      have hnew := Term.valid_intersection _ _ ht0v htv
      apply termsValid_set h
      refine ⟨hnew, ?_⟩
      intro dd hdd
      simp only [List.mem_append, List.mem_singleton] at hdd
      rcases hdd with hdd | rfl
      · exact hpav.dated dd hdd
      · exact hnew
  · injection hr with hr; subst hr
    intro kv hkv
    simp only [List.mem_append, List.mem_singleton] at hkv
    rcases hkv with hkv | rfl
    · exact h kv hkv
    · refine ⟨htv, ?_⟩
      intro dd hdd
      simp only [List.mem_singleton] at hdd
      subst hdd; exact htv

/-- `addDecision` without its debug assertions -/
def addDecisionCore (ps : PartialSolution P S V Pr) (p : P) (v : V) :
    R (PartialSolution P S V Pr) := do
  let newIdx := ps.currentDecisionLevel
  let dl := ps.currentDecisionLevel + 1
  let oldIdx ← unwrapOr (ps.indexOf p) "Derivations must already exist"
  let pa ← unwrapOr (ps.getPA p) "Derivations must already exist"
  let pa' : PackageAssignments S V :=
    { pa with highest := dl,
              inter := .decision ps.nextGlobalIndex v (Term.exact v) }
  let assignments := ps.assignments.set oldIdx (p, pa')
  let assignments ← if newIdx ≠ oldIdx then swapIndices assignments newIdx oldIdx else pure assignments
  pure { ps with currentDecisionLevel := dl, assignments := assignments,
                 nextGlobalIndex := ps.nextGlobalIndex + 1 }

theorem addDecision_core {ps ps' : PartialSolution P S V Pr} {debug : Bool} {p : P} {v : V}
    (hr : addDecision debug ps p v = .ok ps') : addDecisionCore ps p v = .ok ps' := by
  unfold addDecision at hr
  unfold addDecisionCore
  simp only [bind, Except.bind, pure, Except.pure, throw, throwThe, MonadExceptOf.throw] at hr ⊢
  split at hr
  · split at hr
    · cases hr
    split at hr
    · cases hr
    split at hr
    · cases hr
    split at hr
    · cases hr
    exact hr
  · exact hr

theorem addDecision_termsValid {ps ps' : PartialSolution P S V Pr} {debug : Bool} {p : P} {v : V}
    (h : ps.TermsValid) (hr : addDecision debug ps p v = .ok ps') : ps'.TermsValid := by
  replace hr := addDecision_core hr
  unfold addDecisionCore at hr
  simp only [bind, Except.bind, pure, Except.pure] at hr
  split at hr
  · cases hr
  rename_i oldIdx hold
  split at hr
  · cases hr
  rename_i pa hpa
  have hpav := termsValid_of_getPA h (unwrapOr_ok hpa)
  have hset : ∀ kv ∈ ps.assignments.set oldIdx
      (p, { pa with highest := ps.currentDecisionLevel + 1,
                    inter := .decision ps.nextGlobalIndex v (Term.exact v) }), kv.2.TermsValid :=
    termsValid_set h _ _ ⟨Term.valid_exact v, hpav.dated⟩
  split at hr
  · split at hr
    · cases hr
    rename_i asg hasg
    injection hr with hr; subst hr
    exact termsValid_swap hset _ _ hasg
  · injection hr with hr; subst hr; exact hset

theorem addVersion_termsValid {ps ps' : PartialSolution P S V Pr} {debug : Bool} {p : P} {v : V}
    {news : List (Incompat P S V M)}
    (h : ps.TermsValid) (hr : addVersion debug ps p v news = .ok ps') : ps'.TermsValid := by
  unfold addVersion at hr
  split at hr
  · exact addDecision_termsValid h hr
  · simp only at hr
    split at hr
    · exact addDecision_termsValid h hr
    · injection hr with hr; subst hr; exact h

theorem afterPrioritize_termsValid {ps : PartialSolution P S V Pr} (acc : List (P × Pr))
    (h : ps.TermsValid) : (ps.afterPrioritize acc).TermsValid := h

end PartialSolution

theorem filterMapM_ok_mem {α β : Type} (f : α → R (Option β)) :
    ∀ (l : List α) (l' : List β), l.filterMapM f = .ok l' → ∀ y ∈ l', ∃ x ∈ l, f x = .ok (some y) := by
  intro l
  induction l with
  | nil =>
    intro l' h y hy
    simp only [List.filterMapM_nil, pure, Except.pure] at h
    injection h with h; subst h; simp at hy
  | cons a l ih =>
    intro l' h y hy
    rw [List.filterMapM_cons] at h
    simp only [bind, Except.bind, pure, Except.pure] at h
    split at h
    · cases h
    rename_i o ho
    cases o with
    | none =>
      simp only at h
      obtain ⟨x, hx, hfx⟩ := ih l' h y hy
      exact ⟨x, List.mem_cons_of_mem _ hx, hfx⟩
    | some b =>
      simp only at h
      split at h
      · cases h
      rename_i l'' hl''
      injection h with h; subst h
      rcases List.mem_cons.1 hy with rfl | hy
      · exact ⟨a, List.mem_cons_self, ho⟩
      · obtain ⟨x, hx, hfx⟩ := ih l'' hl'' y hy
        exact ⟨x, List.mem_cons_of_mem _ hx, hfx⟩

namespace PartialSolution

theorem mem_popWhileAbove (dl : Nat) (l : List (DatedDerivation S)) (dd : DatedDerivation S)
    (h : dd ∈ popWhileAbove dl l) : dd ∈ l := by
  unfold popWhileAbove at h
  split at h
  · exact h
  · rw [List.mem_reverse] at h
    have := (List.dropWhile_sublist _).mem h
    simpa [or_comm] using this

theorem backtrack_termsValid {ps ps' : PartialSolution P S V Pr} {dl : Nat}
    (h : ps.TermsValid) (hr : ps.backtrack dl = .ok ps') : ps'.TermsValid := by
  unfold backtrack at hr
  simp only [bind, Except.bind, pure, Except.pure] at hr
  split at hr
  · cases hr
  rename_i asg hasg
  injection hr with hr; subst hr
  intro kv hkv
  obtain ⟨x, hx, hfx⟩ := filterMapM_ok_mem _ _ _ hasg kv hkv
  obtain ⟨p, pa⟩ := x
  have hpa := h _ hx
  simp only at hfx
  split at hfx
  · cases hfx
  split at hfx
  · injection hfx with hfx; injection hfx with hfx; subst hfx; exact hpa
  split at hfx
  · cases hfx
  rename_i last hlast
  injection hfx with hfx; injection hfx with hfx; subst hfx
  have hmem : ∀ dd ∈ popWhileAbove dl pa.dated, dd.accumulated.Valid :=
    fun dd hdd => hpa.dated dd (mem_popWhileAbove dl _ dd hdd)
  have hl := List.mem_of_getLast? (unwrapOr_ok hlast)
  exact ⟨hmem last hl, hmem⟩

end PartialSolution
end Pubgrub

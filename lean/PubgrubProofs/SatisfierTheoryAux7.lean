/-
Helpers for `SatisfierTheory.lean`, part 7: the invariant after a backtrack, and what is known of the
incompatibility that caused it.
-/
import PubgrubProofs.SatisfierTheoryAux6

set_option linter.unusedSectionVars false
set_option linter.unusedVariables false

namespace Pubgrub
open VersionSet

section
variable {P S V M Pr : Type} [DecidableEq P] [VersionSet S V] [DecidableEq S] [LawfulVersionSet S V]

/-- what a backtrack does to the partial solution -/
structure BtStep (ps ps' : PartialSolution P S V Pr) (dl : Nat) : Prop where
  asg : ps'.assignments = ps.assignments.filterMap (PartialSolution.btG dl)
  level : ps'.currentDecisionLevel = dl
  next : ps'.nextGlobalIndex = ps.nextGlobalIndex

theorem PartialSolution.btG_key (dl : Nat) (x y : P × PackageAssignments S V)
    (h : PartialSolution.btG dl x = some y) : y.1 = x.1 := by
  obtain ⟨q, qa⟩ := x
  unfold PartialSolution.btG optOfR at h
  split at h
  · rename_i o ho
    subst h
    unfold PartialSolution.btF at ho
    simp only at ho
    split at ho
    · cases ho
    split at ho
    · injection ho with ho; injection ho with ho; rw [← ho]
    · simp only [bind, Except.bind, pure, Except.pure] at ho
      split at ho
      · cases ho
      injection ho with ho; injection ho with ho; rw [← ho]
  · cases h

namespace BtStep
variable {ps ps' : PartialSolution P S V Pr} {dl : Nat}

theorem mem (h : BtStep ps ps' dl) {q : P} {qa' : PackageAssignments S V} (hq : (q, qa') ∈ ps'.assignments) :
    ∃ qa, (q, qa) ∈ ps.assignments ∧ PartialSolution.btG dl (q, qa) = some (q, qa') := by
  rw [h.asg, List.mem_filterMap] at hq
  obtain ⟨⟨q0, qa⟩, hm, hg⟩ := hq
  have := PartialSolution.btG_key dl _ _ hg
  simp only at this
  subst this
  exact ⟨qa, hm, hg⟩

theorem getPA_eq (h : BtStep ps ps' dl) (hw : ps.WF) (q : P) :
    ps'.getPA q = (ps.getPA q).bind (fun qa => (PartialSolution.btG dl (q, qa)).map Prod.snd) := by
  unfold PartialSolution.getPA
  rw [h.asg]
  exact SmallMap.get_filterMap _ (PartialSolution.btG_key dl) _ hw.keys q

theorem getPA_some (h : BtStep ps ps' dl) (hw : ps.WF) {q : P} {qa qa' : PackageAssignments S V}
    (hq : ps.getPA q = some qa) (hg : PartialSolution.btG dl (q, qa) = some (q, qa')) :
    ps'.getPA q = some qa' := by
  rw [h.getPA_eq hw, hq]; simp [hg]

theorem getPA_inv (h : BtStep ps ps' dl) (hw : ps.WF) {q : P} {qa' : PackageAssignments S V}
    (hq : ps'.getPA q = some qa') :
    ∃ qa, ps.getPA q = some qa ∧ PartialSolution.btG dl (q, qa) = some (q, qa') := by
  rw [h.getPA_eq hw] at hq
  cases hg : ps.getPA q with
  | none => rw [hg] at hq; cases hq
  | some qa =>
    rw [hg] at hq
    simp only [Option.bind_some, Option.map_eq_some_iff] at hq
    obtain ⟨y, hy, e⟩ := hq
    have := PartialSolution.btG_key dl _ _ hy
    obtain ⟨y1, y2⟩ := y
    simp only at this e
    subst this; subst e
    exact ⟨qa, rfl, hy⟩

end BtStep

theorem PartialSolution.backtrack_step {ps : PartialSolution P S V Pr} (h : ps.WF') (dl : Nat) :
    Safe (ps.backtrack dl) (fun ps' => BtStep ps ps' dl) :=
  (PartialSolution.backtrack_safe h dl).mono (fun ps' _ e => by subst e; exact ⟨rfl, rfl, rfl⟩)

/-- the invariant after a backtrack to a level that is at least 1 -/
theorem tinv_backtrack (W : World P S V M) (root : P) (rv : V) {st st' : State P S V M Pr}
    (hs : SInv W root rv st) (hp : PInv st) (ht : TInv root rv st)
    {ps' : PartialSolution P S V Pr} {dl : Nat} (hbt : BtStep st.ps ps' dl) (h1 : 1 ≤ dl) (hw' : ps'.WF')
    (e1 : st'.ps = ps') (e2 : ∀ (i : Nat) (inc : Incompat P S V M), st.store[i]? = some inc → st'.store[i]? = some inc) :
    TInv root rv st' := by
  have hw := hp.wf
  subst e1
  refine ⟨?_, ?_, ?_, ?_⟩
  · intro q1 qa1 q2 qa2 hq1 hq2 a ha b hb
    obtain ⟨pa1, hm1, hg1⟩ := hbt.mem hq1
    obtain ⟨pa2, hm2, hg2⟩ := hbt.mem hq2
    exact ht.gmono q1 pa1 q2 pa2 hm1 hm2 a (PartialSolution.btG_events (hw.wfx _ hm1) hg1 a ha) b
      (PartialSolution.btG_events (hw.wfx _ hm2) hg2 b hb)
  · intro kv hkv
    obtain ⟨q, qa'⟩ := kv
    obtain ⟨qa, hm, hg⟩ := hbt.mem hkv
    exact PartialSolution.btG_shrink (hw.wfx _ hm) (ht.shrink _ hm) hg
  · intro q qa' hq dd hdd
    obtain ⟨qa, hm, hg⟩ := hbt.mem hq
    obtain ⟨i, _, hwf, hwx⟩ := hw.entry_of_mem hm
    have hdd0 : dd ∈ qa.dated := (PartialSolution.btG_dated hwx hg).subset hdd
    have hlvl : dd.decisionLevel ≤ dl := PartialSolution.btG_levels hwf hwx hg dd hdd
    obtain ⟨inc0, g1, g2, g3⟩ := ht.cause q qa hm dd hdd0
    refine ⟨inc0, e2 _ _ g1, g2, ?_⟩
    intro r tr hr hrq
    obtain ⟨par, t1, k1, k2, k3⟩ := g3 r tr hr hrq
    have hparm := SmallMap.mem_of_get k1
    obtain ⟨j, _, hwfr, hwxr⟩ := hw.entry_of_mem hparm
    obtain ⟨par', k4, k5⟩ := PartialSolution.btG_termBefore (p := r) (dl := dl) hwfr hwxr (by
      intro e he hlt
      have := (ht.gmono r par q qa hparm hm e he _ (PackageAssignments.mem_events_dated hdd0)).1 hlt
      simp only at this
      omega) k2
    exact ⟨par', t1, hbt.getPA_some hw.wf k1 k4, k5, k3⟩
  · have hr := ht.rootinv
    refine ⟨?_, ?_, ?_, ?_⟩
    · intro h0; rw [hbt.level] at h0; omega
    · intro h
      have := hw'.wf.level_le
      rw [hbt.level, h] at this
      simp at this; omega
    · intro q qa' hq dd hdd h0
      obtain ⟨qa, hm, hg⟩ := hbt.mem hq
      exact hr.dated0 q qa hm dd ((PartialSolution.btG_dated (hw.wfx _ hm) hg).subset hdd) h0
    · intro q qa' hq g v t hinter hh
      obtain ⟨qa, hm, hg⟩ := hbt.mem hq
      have := PartialSolution.btG_decided (hw.wfx _ hm) hg hinter
      simp only at this
      subst this
      exact hr.first q qa' hm g v t hinter hh

/-- what is known, after the backtrack, of the incompatibility that conflict resolution returns -/
structure AfterConflict (st : State P S V M Pr) (pkg : P) (rc : Nat) : Prop where
  stored : ∃ inc, st.store[rc]? = some inc ∧ (inc.get pkg).isSome = true ∧
    ∀ r tr, (r, tr) ∈ inc.terms → r ≠ pkg → ∃ par, st.ps.getPA r = some par ∧ par.inter.term.Imp tr
  undecided : ∀ pa, st.ps.getPA pkg = some pa → ∃ t, pa.inter = .derivations t
  level : 1 ≤ st.ps.currentDecisionLevel

theorem afterConflict_backtrack {st st' : State P S V M Pr} (hp : PInv st) (hsh : ∀ kv ∈ st.ps.assignments, kv.2.Shrink)
    {ps' : PartialSolution P S V Pr} {prev : Nat} (hbt : BtStep st.ps ps' prev)
    {inc : Incompat P S V M} {cur : Nat} (hinc : st.store[cur]? = some inc) {sp : P}
    (hpost : SearchPost st.ps inc (sp, .differentDecisionLevels prev))
    (e1 : st'.ps = ps') (e2 : ∀ (i : Nat) (inc : Incompat P S V M), st.store[i]? = some inc → st'.store[i]? = some inc) :
    AfterConflict st' sp cur := by
  have hw := hp.wf
  subst e1
  obtain ⟨hget, h1, ⟨pa, hpa, hlt⟩, hoth⟩ := hpost
  simp only at hget h1 hpa hlt hoth
  refine ⟨⟨inc, e2 _ _ hinc, hget, ?_⟩, ?_, by rw [hbt.level]; exact h1⟩
  · intro r tr hr hrs
    obtain ⟨par, k1, k2⟩ := hoth r tr hr hrs
    have hparm := SmallMap.mem_of_get k1
    obtain ⟨j, _, hwfr, hwxr⟩ := hw.entry_of_mem hparm
    obtain ⟨par', k3, k4⟩ := PartialSolution.btG_survive (p := r) hwfr hwxr (hsh _ hparm) k2
    exact ⟨par', hbt.getPA_some hw.wf k1 k3, k4⟩
  · intro pa' hpa'
    obtain ⟨pa0, k1, k2⟩ := hbt.getPA_inv hw.wf hpa'
    rw [hpa] at k1; injection k1 with k1; subst k1
    rcases (PartialSolution.btG_eq_some (hw.wfx _ (SmallMap.mem_of_get hpa)) k2).2 with ⟨k3, _⟩ | ⟨_, _, last, _, k3⟩
    · simp only at k3; omega
    · simp only at k3; rw [k3]; exact ⟨_, rfl⟩

end
end Pubgrub

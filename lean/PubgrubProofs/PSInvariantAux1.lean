/-
Helpers for `PSInvariant.lean`, part 1: association lists by index, the strengthened per-entry
invariant, and preservation of I-PS by `addDerivation`.
-/
import PubgrubProofs.PSDefs
import PubgrubProofs.StoreInvariant

set_option linter.unusedSectionVars false
set_option linter.unusedVariables false

namespace Pubgrub
open VersionSet

/-! ### association lists by index -/
namespace SmallMap
variable {K T : Type} [DecidableEq K]

theorem nodup_iff_index (m : SmallMap K T) :
    NoDupKeys m ↔ ∀ (i j : Nat) (k : K) (v w : T), m[i]? = some (k, v) → m[j]? = some (k, w) → i = j := by
  unfold NoDupKeys
  rw [List.nodup_iff_pairwise_ne, List.pairwise_iff_getElem]
  constructor
  · intro h i j k v w hi hj
    obtain ⟨hi', hie⟩ := List.getElem?_eq_some_iff.1 hi
    obtain ⟨hj', hje⟩ := List.getElem?_eq_some_iff.1 hj
    rcases Nat.lt_trichotomy i j with hlt | heq | hgt
    · have := h i j (by simpa using hi') (by simpa using hj') hlt
      simp [hie, hje] at this
    · exact heq
    · have := h j i (by simpa using hj') (by simpa using hi') hgt
      simp [hie, hje] at this
  · intro h i j hi hj hlt heq
    simp only [List.length_map] at hi hj
    simp only [List.getElem_map] at heq
    have := h i j (m[i]).1 (m[i]).2 (m[j]).2 (by simp [hi]) (by rw [heq]; simp [hj])
    omega

theorem get_of_getElem {m : SmallMap K T} (hn : NoDupKeys m) {i : Nat} {k : K} {v : T}
    (h : m[i]? = some (k, v)) : get m k = some v :=
  get_of_mem hn (List.mem_of_getElem? h)

/-- `get` finds the first entry with the key, at the index computed by `findIdx` -/
theorem get_findIdx {m : SmallMap K T} {k : K} {v : T} (h : get m k = some v) :
    m[m.findIdx (fun kv => decide (kv.1 = k))]? = some (k, v) := by
  induction m with
  | nil => simp [get] at h
  | cons x m ih =>
    obtain ⟨a, b⟩ := x
    by_cases hk : k = a
    · subst hk; simp [get] at h; subst h; simp [List.findIdx_cons]
    · have hk' : ¬ a = k := fun e => hk e.symm
      simp [get, hk] at h
      simp [List.findIdx_cons, hk', ih h]

theorem findIdx_lt_of_get {m : SmallMap K T} {k : K} {v : T} (h : get m k = some v) :
    m.findIdx (fun kv => decide (kv.1 = k)) < m.length :=
  (List.getElem?_eq_some_iff.1 (get_findIdx h)).1

theorem findIdx_ge_of_get_none {m : SmallMap K T} {k : K} (h : get m k = none) :
    m.length ≤ m.findIdx (fun kv => decide (kv.1 = k)) := by
  induction m with
  | nil => simp
  | cons x m ih =>
    obtain ⟨a, b⟩ := x
    by_cases hk : k = a
    · subst hk; simp [get] at h
    · have hk' : ¬ a = k := fun e => hk e.symm
      simp [get, hk] at h
      simp [List.findIdx_cons, hk', ih h]

theorem findIdx_of_getElem {m : SmallMap K T} (hn : NoDupKeys m) {i : Nat} {k : K} {v : T}
    (h : m[i]? = some (k, v)) : m.findIdx (fun kv => decide (kv.1 = k)) = i :=
  ((nodup_iff_index m).1 hn _ _ k _ _ (get_findIdx (get_of_getElem hn h)) h)

theorem get_none_of_not_mem_keys {m : SmallMap K T} {k : K} (h : k ∉ m.map Prod.fst) :
    get m k = none := by
  rw [get_eq_none_iff]; intro v hv; exact h (key_mem_of_mem hv)

theorem not_mem_keys_of_get_none {m : SmallMap K T} {k : K} (h : get m k = none) :
    k ∉ m.map Prod.fst := by
  intro hk
  rw [List.mem_map] at hk
  obtain ⟨⟨a, b⟩, hm, rfl⟩ := hk
  exact (get_eq_none_iff m a).1 h b hm

theorem get_append_left {m m2 : SmallMap K T} {k : K} {v : T} (h : get m k = some v) :
    get (m ++ m2) k = some v := by
  induction m with
  | nil => simp [get] at h
  | cons x m ih =>
    obtain ⟨a, b⟩ := x
    by_cases hk : k = a
    · subst hk; simpa [get] using h
    · simp [get, hk] at h ⊢; exact ih h

theorem get_append_none {m m2 : SmallMap K T} {k : K} (h : get m k = none) :
    get (m ++ m2) k = get m2 k := by
  induction m with
  | nil => rfl
  | cons x m ih =>
    obtain ⟨a, b⟩ := x
    by_cases hk : k = a
    · subst hk; simp [get] at h
    · simp [get, hk] at h ⊢; exact ih h

end SmallMap

section PS
variable {P S V M Pr : Type} [DecidableEq P] [VersionSet S V] [DecidableEq S]

/-- what I-PS does not say about one entry but is needed to re-establish it after a backtrack -/
structure PackageAssignments.WFX (pa : PackageAssignments S V) : Prop where
  head : ∃ f, pa.dated.head? = some f ∧ f.decisionLevel = pa.smallest
  le_highest : ∀ dd ∈ pa.dated, dd.decisionLevel ≤ pa.highest

/-- I-PS, strengthened -/
structure PartialSolution.WF' (ps : PartialSolution P S V Pr) : Prop where
  wf : ps.WF
  wfx : ∀ kv ∈ ps.assignments, kv.2.WFX

theorem PackageAssignments.WFAt.mono_next {dl n n' i : Nat} {pa : PackageAssignments S V}
    (h : pa.WFAt dl n i) (hn : n ≤ n') : pa.WFAt dl n' i := by
  refine ⟨?_, h.undecided, h.levels, h.indices, fun dd hdd => Nat.lt_of_lt_of_le (h.indices_lt dd hdd) hn,
    h.range⟩
  intro hi
  obtain ⟨g, v, h1, h2, h3, h4, h5⟩ := h.decided hi
  exact ⟨g, v, h1, h2, Nat.lt_of_lt_of_le h3 hn, h4, h5⟩

namespace PartialSolution

theorem getPA_of_getElem {ps : PartialSolution P S V Pr} (h : ps.WF) {i : Nat} {p : P}
    {pa : PackageAssignments S V} (hi : ps.assignments[i]? = some (p, pa)) : ps.getPA p = some pa :=
  SmallMap.get_of_getElem h.keys hi

theorem indexOf_of_getElem {ps : PartialSolution P S V Pr} (h : ps.WF) {i : Nat} {p : P}
    {pa : PackageAssignments S V} (hi : ps.assignments[i]? = some (p, pa)) : ps.indexOf p = some i := by
  unfold indexOf
  have := SmallMap.findIdx_of_getElem h.keys hi
  simp only [this, (List.getElem?_eq_some_iff.1 hi).1, if_true]

theorem getElem_of_getPA {ps : PartialSolution P S V Pr} {p : P} {pa : PackageAssignments S V}
    (h : ps.getPA p = some pa) : ∃ i, ps.indexOf p = some i ∧ ps.assignments[i]? = some (p, pa) := by
  refine ⟨_, ?_, SmallMap.get_findIdx h⟩
  unfold indexOf
  simp only [SmallMap.findIdx_lt_of_get h, if_true]

theorem indexOf_none_of_getPA {ps : PartialSolution P S V Pr} {p : P}
    (h : ps.getPA p = none) : ps.indexOf p = none := by
  unfold indexOf
  have := SmallMap.findIdx_ge_of_get_none h
  simp only [Nat.not_lt.2 this, if_false]

theorem getElem_of_indexOf_getPA {ps : PartialSolution P S V Pr} {p : P} {pa : PackageAssignments S V}
    {i : Nat} (hi : ps.indexOf p = some i) (h : ps.getPA p = some pa) :
    ps.assignments[i]? = some (p, pa) := by
  obtain ⟨j, hj, hj'⟩ := getElem_of_getPA h
  rw [hi] at hj; injection hj with hj; subst hj; exact hj'

theorem undecided_ge {ps : PartialSolution P S V Pr} (h : ps.WF) {i : Nat} {p : P}
    {pa : PackageAssignments S V} {t : Term S} (hi : ps.assignments[i]? = some (p, pa))
    (ht : pa.inter = .derivations t) : ps.currentDecisionLevel ≤ i := by
  apply Nat.le_of_not_lt
  intro hlt
  obtain ⟨g, v, h1, _⟩ := (h.entries i p pa hi).decided hlt
  rw [ht] at h1; cases h1

theorem decided_lt {ps : PartialSolution P S V Pr} (h : ps.WF) {i : Nat} {p : P}
    {pa : PackageAssignments S V} {g : Nat} {v : V} {t : Term S} (hi : ps.assignments[i]? = some (p, pa))
    (ht : pa.inter = .decision g v t) : i < ps.currentDecisionLevel := by
  apply Nat.lt_of_not_le
  intro hle
  obtain ⟨t, l, f, h1, _⟩ := (h.entries i p pa hi).undecided hle
  rw [ht] at h1; cases h1

/-- what `addDerivation` does -/
theorem addDerivation_spec {ps ps' : PartialSolution P S V Pr} {p : P} {cause : Nat}
    {store : List (Incompat P S V M)} (hr : ps.addDerivation p cause store = .ok ps') :
    ∃ inc t, store[cause]? = some inc ∧ inc.get p = some t ∧
      ((∃ idx pa t0, ps.indexOf p = some idx ∧ ps.getPA p = some pa ∧ pa.inter = .derivations t0 ∧
          ps' = { ps with
            nextGlobalIndex := ps.nextGlobalIndex + 1,
            changed := if (t0.intersection t.negate).isPositive then min ps.changed idx else ps.changed,
            assignments := ps.assignments.set idx (p,
              { pa with highest := ps.currentDecisionLevel,
                        inter := .derivations (t0.intersection t.negate),
                        dated := pa.dated ++ [{ globalIndex := ps.nextGlobalIndex,
                                                decisionLevel := ps.currentDecisionLevel,
                                                cause := cause,
                                                accumulated := t0.intersection t.negate }] }) }) ∨
       (ps.getPA p = none ∧
          ps' = { ps with
            nextGlobalIndex := ps.nextGlobalIndex + 1,
            changed := if t.negate.isPositive then min ps.changed (ps.assignments.length - 1) else ps.changed,
            assignments := ps.assignments ++ [(p,
              { smallest := ps.currentDecisionLevel, highest := ps.currentDecisionLevel,
                dated := [{ globalIndex := ps.nextGlobalIndex,
                            decisionLevel := ps.currentDecisionLevel,
                            cause := cause, accumulated := t.negate }],
                inter := .derivations t.negate })] })) := by
  unfold addDerivation at hr
  simp only [bind, Except.bind, pure, Except.pure] at hr
  split at hr
  · cases hr
  rename_i inc hinc
  split at hr
  · cases hr
  rename_i t ht
  refine ⟨inc, t, storeGet_ok hinc, unwrapOr_ok ht, ?_⟩
  split at hr
  · rename_i idx pa hidx hpa
    split at hr
    · cases hr
    · rename_i t0 ht0
      injection hr with hr; subst hr
      exact Or.inl ⟨idx, pa, t0, hidx, hpa, ht0, rfl⟩
  · rename_i hno
    injection hr with hr; subst hr
    refine Or.inr ⟨?_, rfl⟩
    cases hpa : ps.getPA p with
    | none => rfl
    | some pa =>
      obtain ⟨i, hi, _⟩ := getElem_of_getPA hpa
      exact absurd hpa (hno i pa hi)

theorem _root_.Pubgrub.Term.intersection_pos (s : S) (x : Term S) :
    ∃ s', Term.intersection (.pos s) x = .pos s' := by
  cases x <;> exact ⟨_, rfl⟩

theorem _root_.Pubgrub.SmallMap.map_fst_set_same {K T : Type} {m : List (K × T)} {i : Nat} {k : K} {v v' : T}
    (h : m[i]? = some (k, v)) : (m.set i (k, v')).map Prod.fst = m.map Prod.fst := by
  apply List.ext_getElem?
  intro j
  simp only [List.getElem?_map, List.getElem?_set]
  split
  · rename_i hij; subst hij
    rw [h]; simp [(List.getElem?_eq_some_iff.1 h).1]
  · rfl

/-- the entry after one more derivation -/
def _root_.Pubgrub.PackageAssignments.pushDD (pa : PackageAssignments S V) (dl next cause : Nat) (t' : Term S) :
    PackageAssignments S V :=
  { pa with highest := dl, inter := .derivations t',
            dated := pa.dated ++ [{ globalIndex := next, decisionLevel := dl, cause := cause,
                                    accumulated := t' }] }

/-- `addDerivation` on a package that has assignments already -/
theorem wf'_addDerivation_old {ps : PartialSolution P S V Pr} (h : ps.WF') {p : P} {idx : Nat}
    {pa : PackageAssignments S V} {t0 t' : Term S} {cause : Nat} {ch : Nat} (hch : ch ≤ ps.changed)
    (hidx : ps.indexOf p = some idx) (hpa : ps.getPA p = some pa) (ht0 : pa.inter = .derivations t0)
    (hpos : ∀ s, t0 = .pos s → ∃ s', t' = .pos s') :
    ({ ps with
        nextGlobalIndex := ps.nextGlobalIndex + 1,
        changed := ch,
        assignments := ps.assignments.set idx (p,
          (pa.pushDD ps.currentDecisionLevel ps.nextGlobalIndex cause t')) } : PartialSolution P S V Pr).WF' := by
  have hw := h.wf
  have hget := getElem_of_indexOf_getPA hidx hpa
  have hlt := (List.getElem?_eq_some_iff.1 hget).1
  have hx := h.wfx _ (List.mem_of_getElem? hget)
  have he := hw.entries idx p pa hget
  have hge : ps.currentDecisionLevel ≤ idx := undecided_ge hw hget ht0
  obtain ⟨t, l, f, h1, h2, h3, h4, h5, h6, h7⟩ := he.undecided hge
  have hkeys : (ps.assignments.set idx (p,
          (pa.pushDD ps.currentDecisionLevel ps.nextGlobalIndex cause t'))).map Prod.fst =
      ps.assignments.map Prod.fst := SmallMap.map_fst_set_same hget
  have hnew : PackageAssignments.WFAt ps.currentDecisionLevel (ps.nextGlobalIndex + 1) idx
      (pa.pushDD ps.currentDecisionLevel ps.nextGlobalIndex cause t') ∧
      PackageAssignments.WFX (pa.pushDD ps.currentDecisionLevel ps.nextGlobalIndex cause t') := by
    obtain ⟨f', hf', hf''⟩ := hx.head
    unfold PackageAssignments.pushDD
    refine ⟨⟨fun hi => absurd hi (Nat.not_lt.2 hge), fun _ => ⟨t', ⟨ps.nextGlobalIndex, ps.currentDecisionLevel, cause, t'⟩, f, rfl, Nat.le_refl _, ?_, ?_, rfl, rfl, h7⟩, ?_, ?_, ?_, ?_⟩,
      ⟨⟨f', ?_, hf''⟩, ?_⟩⟩
    · simp
    · simp [List.head?_append, h4]
    · simp only [List.map_append, List.map_cons, List.map_nil, List.pairwise_append]
      refine ⟨he.levels, List.pairwise_singleton _ _, ?_⟩
      intro a ha b hb
      simp only [List.mem_singleton] at hb; subst hb
      rw [List.mem_map] at ha
      obtain ⟨dd, hdd, rfl⟩ := ha
      exact Nat.le_trans (hx.le_highest dd hdd) h2
    · simp only [List.map_append, List.map_cons, List.map_nil, List.pairwise_append]
      refine ⟨he.indices, List.pairwise_singleton _ _, ?_⟩
      intro a ha b hb
      simp only [List.mem_singleton] at hb; subst hb
      rw [List.mem_map] at ha
      obtain ⟨dd, hdd, rfl⟩ := ha
      exact he.indices_lt dd hdd
    · intro dd hdd
      simp only [List.mem_append, List.mem_singleton] at hdd
      rcases hdd with hdd | rfl
      · exact Nat.lt_succ_of_lt (he.indices_lt dd hdd)
      · exact Nat.lt_succ_self _
    · exact Nat.le_trans he.range h2
    · simp [List.head?_append, hf']
    · intro dd hdd
      simp only [List.mem_append, List.mem_singleton] at hdd
      rcases hdd with hdd | rfl
      · exact Nat.le_trans (hx.le_highest dd hdd) h2
      · exact Nat.le_refl _
  refine ⟨⟨?_, ?_, ?_, ?_, hw.queue_keys, ?_⟩, ?_⟩
  · simp only [List.length_set]; exact Nat.le_trans hch hw.changed_le
  · simp only [List.length_set]; exact hw.level_le
  · show ((ps.assignments.set idx _).map Prod.fst).Nodup
    rw [hkeys]; exact hw.keys
  · intro i q qa hq
    simp only [List.getElem?_set] at hq
    split at hq
    · rename_i hi; subst hi
      injection hq with hq; injection hq with hq1 hq2; subst hq1; subst hq2
      exact hnew.1
    · exact (hw.entries i q qa hq).mono_next (Nat.le_succ _)
  · intro q pr hq
    obtain ⟨qa, s, hqa, hs⟩ := hw.queue_sub q pr hq
    obtain ⟨j, _, hj⟩ := getElem_of_getPA hqa
    by_cases hji : idx = j
    · subst hji
      rw [hget] at hj; injection hj with hj; injection hj with hj1 hj2; subst hj1; subst hj2
      rw [ht0] at hs; injection hs with hs
      obtain ⟨s', hs'⟩ := hpos s hs
      refine ⟨pa.pushDD ps.currentDecisionLevel ps.nextGlobalIndex cause t', s',
        SmallMap.get_of_getElem (m := ps.assignments.set idx _) (i := idx) (by unfold SmallMap.NoDupKeys; rw [hkeys]; exact hw.keys) (by simp [hlt]), ?_⟩
      simp [PackageAssignments.pushDD, hs']
    · refine ⟨qa, s, SmallMap.get_of_getElem (m := ps.assignments.set idx _) (i := j) (by unfold SmallMap.NoDupKeys; rw [hkeys]; exact hw.keys) ?_, hs⟩
      simp [hji, hj]
  · intro kv hkv
    rcases List.mem_or_eq_of_mem_set hkv with h' | h'
    · exact h.wfx kv h'
    · subst h'; exact hnew.2

/-- a fresh entry with one derivation -/
def _root_.Pubgrub.PackageAssignments.single (dl next cause : Nat) (t' : Term S) : PackageAssignments S V :=
  { smallest := dl, highest := dl,
    dated := [{ globalIndex := next, decisionLevel := dl, cause := cause, accumulated := t' }],
    inter := .derivations t' }

/-- `addDerivation` on a package without assignments -/
theorem wf'_addDerivation_new {ps : PartialSolution P S V Pr} (h : ps.WF') {p : P}
    {t' : Term S} {cause : Nat} {ch : Nat} (hch : ch ≤ ps.changed) (hpa : ps.getPA p = none) :
    ({ ps with
        nextGlobalIndex := ps.nextGlobalIndex + 1,
        changed := ch,
        assignments := ps.assignments ++
          [(p, PackageAssignments.single ps.currentDecisionLevel ps.nextGlobalIndex cause t')] } :
      PartialSolution P S V Pr).WF' := by
  have hw := h.wf
  have hnk := SmallMap.not_mem_keys_of_get_none hpa
  refine ⟨⟨?_, ?_, ?_, ?_, hw.queue_keys, ?_⟩, ?_⟩
  · simp only [List.length_append, List.length_singleton]
    exact Nat.le_trans hch (Nat.le_trans hw.changed_le (Nat.le_succ _))
  · simp only [List.length_append, List.length_singleton]
    exact Nat.le_trans hw.level_le (Nat.le_succ _)
  · simp only [List.map_append, List.map_cons, List.map_nil]
    rw [List.nodup_append]
    refine ⟨hw.keys, by simp, ?_⟩
    intro a ha b hb
    simp only [List.mem_singleton] at hb; subst hb
    intro e; subst e; exact hnk ha
  · intro i q qa hq
    simp only [List.getElem?_append] at hq
    split at hq
    · exact (hw.entries i q qa hq).mono_next (Nat.le_succ _)
    · rename_i hi
      have hi' : ps.assignments.length ≤ i := Nat.le_of_not_lt hi
      cases hk : i - ps.assignments.length with
      | zero =>
        rw [hk] at hq
        simp only [List.getElem?_cons_zero] at hq
        injection hq with hq; injection hq with hq1 hq2; subst hq1; subst hq2
        have hge : ps.currentDecisionLevel ≤ i := Nat.le_trans hw.level_le hi'
        unfold PackageAssignments.single
        refine ⟨fun hlt => absurd hlt (Nat.not_lt.2 hge),
          fun _ => ⟨t', ⟨ps.nextGlobalIndex, ps.currentDecisionLevel, cause, t'⟩,
            ⟨ps.nextGlobalIndex, ps.currentDecisionLevel, cause, t'⟩, rfl, Nat.le_refl _, rfl, rfl, rfl, rfl, rfl⟩,
          by simp, by simp, ?_, Nat.le_refl _⟩
        intro dd hdd
        simp only [List.mem_singleton] at hdd
        subst hdd; exact Nat.lt_succ_self _
      | succ k => rw [hk] at hq; simp at hq
  · intro q pr hq
    obtain ⟨qa, s, hqa, hs⟩ := hw.queue_sub q pr hq
    exact ⟨qa, s, SmallMap.get_append_left hqa, hs⟩
  · intro kv hkv
    simp only [List.mem_append, List.mem_singleton] at hkv
    rcases hkv with hkv | rfl
    · exact h.wfx kv hkv
    · unfold PackageAssignments.single
      refine ⟨⟨_, rfl, rfl⟩, ?_⟩
      intro dd hdd
      simp only [List.mem_singleton] at hdd
      subst hdd; exact Nat.le_refl _

/-- `addDerivation` preserves the strengthened I-PS -/
theorem addDerivation_wf' {ps ps' : PartialSolution P S V Pr} {p : P} {cause : Nat}
    {store : List (Incompat P S V M)} (h : ps.WF')
    (hr : ps.addDerivation p cause store = .ok ps') : ps'.WF' := by
  obtain ⟨inc, t, _, _, hcase⟩ := addDerivation_spec hr
  rcases hcase with ⟨idx, pa, t0, hidx, hpa, ht0, rfl⟩ | ⟨hpa, rfl⟩
  · refine wf'_addDerivation_old h ?_ hidx hpa ht0 ?_
    · split
      · exact Nat.min_le_left _ _
      · exact Nat.le_refl _
    · intro s hs; subst hs; exact Term.intersection_pos s _
  · refine wf'_addDerivation_new h ?_ hpa
    split
    · exact Nat.min_le_left _ _
    · exact Nat.le_refl _

end PartialSolution
end PS
end Pubgrub

//! Request generators for the solver properties.
use crate::cases::Sink;
use crate::hset::{BitSet8, HSet};
use crate::solver::*;
use crate::util::Rng;
use pubgrub::Range;
use std::collections::BTreeMap;

fn corpus<VS: HSet>() -> Vec<(Registry<VS>, &'static str, u32)> {
    // degenerate inputs of property C05, as registry texts (machine format depends on VS: only
    // the structure is fixed here, sets are `full`/`empty`/singletons built through the API)
    let full = VS::full().to_machine();
    let empty = VS::empty().to_machine();
    let s1 = VS::singleton(1).to_machine();
    let s3 = VS::singleton(3).to_machine();
    let texts: Vec<String> = vec![
        // root without versions
        "a@1:".to_string(),
        // self-dependency satisfied / unsatisfied
        format!("root@1:root={}", full),
        format!("root@1:root={}", s3),
        // the F1 registry: an unsatisfiable self-dependency met after a backtrack
        format!("root@1:b={f},a={f};b@3:c={s5};b@1:;c@1:;a@3:a={s1};a@1:", f = full, s5 = VS::singleton(5).to_machine(), s1 = s1),
        // cycle
        format!("root@1:a={f};a@1:b={f};b@1:a={f}", f = full),
        format!("root@1:a={f};a@1:b={f};b@1:a={s3}", f = full, s3 = s3),
        // dependency on the empty set / on an unknown package / unavailable
        format!("root@1:a={}", empty),
        format!("root@1:zz={}", full),
        format!("root@1:a={f};a@1:!gone;a@3:!gone", f = full),
        format!("root@1:a={f};a@3:b={s1};a@1:;b@3:", f = full, s1 = s1),
    ];
    texts.into_iter().map(|t| (Registry::from_text(&t), "root", 1)).collect()
}

fn push_solve<VS: HSet>(sink: &mut Sink, prop: &str, r: &SolveReq<VS>) -> usize {
    if BUDGET_HITS.load(std::sync::atomic::Ordering::Relaxed) > 10 {
        return 0;
    }
    let e = eval_solve(r);
    let calls = e.run.events.iter().filter(|e| matches!(e, Ev::Cancel { .. } | Ev::Choose { .. } | Ev::Deps { .. })).count();
    for (p, w) in &e.failures {
        if *p != prop {
            sink.tag(&format!("oracle_failure_of_other_property_{}", p), 1);
            if sink.notes.len() < 20 {
                sink.notes.push(format!("other property {} failed on this request: {} :: {}", p, w, e.req));
            }
        }
    }
    sink.push(eval_to_case(e, prop));
    calls
}

pub fn gen_solver<VS: HSet>(sink: &mut Sink, prop: &str, thorough: bool, seed: u64, debug: bool, n_random: usize) {
    let mut rng = Rng::new(seed ^ 0x5151);
    let versions: Vec<u32> = if VS::KIND == "range" { vec![1, 3, 5] } else if VS::KIND == "bits2" { vec![0, 1] } else { vec![0, 1, 2, 5] };
    let strategies = [Strat::NewestFewest, Strat::OldestFewest, Strat::Const, Strat::Random(7)];
    for (reg, root, rv) in corpus::<VS>() {
        for st in &strategies {
            let r = SolveReq { debug, root: root.to_string(), rv, reg: reg.clone(), strat: st.clone(), fault: Fault::None };
            push_solve(sink, prop, &r);
        }
    }
    if VS::KIND == "range" {
        exhaustive_scope::<VS>(sink, prop, thorough, debug);
    }
    // VERIF_LIGHT=1 (the quick tier's pass over a DEBUG build of the crate: debug assertions and every
    // `cfg!(debug_assertions)` path on): corpus, the exhaustive scope and a tenth of the random cases only
    let light = std::env::var("VERIF_LIGHT").map(|v| v == "1").unwrap_or(false);
    let n_random = if light { n_random / 10 } else { n_random };
    // wide runs: incompatibilities with dozens of terms
    if VS::KIND == "range" && !light {
        let mut ns: Vec<u32> = if thorough { vec![8, 15, 16, 17, 23, 24, 25, 31, 32, 33, 40] } else { vec![8, 24, 33] };
        ns.extend(crate::util::around_thresholds(300).iter().map(|n| *n as u32).filter(|n| *n >= 3));
        ns.sort();
        ns.dedup();
        for &n in &ns {
            for solvable in [true, false] {
                let r = SolveReq { debug, root: "a_root".into(), rv: 1, reg: wide_registry::<VS>(n, solvable), strat: Strat::Alphabetical, fault: Fault::None };
                crate::util::quiet(|| push_solve(sink, prop, &r));
            }
        }
        sink.notes.push(format!("wide runs: a hub with n leaves constraining one package, n in {:?}, solvable and not: learned incompatibilities with up to n + 2 terms", ns));
    }
    // deep runs: a few hundred decision levels (8-bit narrowing of levels / indices shows)
    let n_deep = if light { 0 } else if thorough { 40 } else { 8 };
    let mut crossing = 0usize;
    for _ in 0..n_deep {
        // rejection sampling: prefer a run with a backjump from above decision level 256 to below it
        let mut chosen: Option<SolveEval<VS>> = None;
        for attempt in 0..12 {
            let reg = deep_registry::<VS>(&mut rng, &versions);
            let rvs = reg.versions("root");
            let rv = if rvs.is_empty() { 1 } else { rvs[rng.below(rvs.len() as u64) as usize] };
            let r = SolveReq { debug, root: "root".into(), rv, reg, strat: Strat::FillersFirst, fault: Fault::None };
            let e = crate::util::quiet(|| eval_solve(&r));
            let dls: Vec<u32> = e.imp.split("ps;dl=").skip(1).filter_map(|t| t.split(|c: char| !c.is_ascii_digit()).next().and_then(|d| d.parse().ok())).collect();
            let crosses = dls.windows(2).any(|w| w[0] >= 256 && w[0] <= 262 && w[1] < 250 && w[1] > 1);
            if crosses || attempt == 11 {
                if crosses {
                    crossing += 1;
                }
                chosen = Some(e);
                break;
            }
            // a rejected sample is still a run of the real code: keep it if any oracle objected
            if !e.failures.is_empty() {
                for (p, _) in &e.failures {
                    if *p != prop {
                        sink.tag(&format!("oracle_failure_of_other_property_{}", p), 1);
                    }
                }
                sink.push(eval_to_case(e, prop));
            }
        }
        let e = chosen.unwrap();
        for (p, w) in &e.failures {
            if *p != prop {
                sink.tag(&format!("oracle_failure_of_other_property_{}", p), 1);
            }
        }
        sink.push(eval_to_case(e, prop));
    }
    sink.tag("deep_runs_with_a_backjump_across_level_256", crossing as u64);
    sink.notes.push(format!("{} deep runs: 248..255 filler packages decided (after the first layer) (one decision level each) in front of a layered registry, so that conflicts and backjumps straddle decision level 256 ({} of them with a backjump from above 256 to below it)", n_deep, crossing));
    // package names with a colliding Hash (direct oracles only): layered and random registries
    if VS::KIND == "range" && matches!(prop, "C01" | "C02" | "C05" | "C06" | "C17") {
        let n_weak = (n_random / 8).max(200);
        for i in 0..n_weak {
            let reg = if i % 2 == 0 { layered_registry::<pubgrub::Range<u32>>(&mut rng, &[1, 3, 5]) } else { random_registry::<pubgrub::Range<u32>>(&mut rng, &[1, 3, 5]) };
            let rvs = reg.versions("root");
            let rv = if rvs.is_empty() { 1 } else { rvs[rng.below(rvs.len() as u64) as usize] };
            sink.push(crate::eval::eval_line(&format!("weak|{}|{}|{}", reg.to_text(), rv, i % 3 % 2)));
        }
        sink.notes.push(format!("{} runs over package names whose Hash collides (only the parity of the length is hashed)", n_weak));
    }
    for i in 0..n_random {
        let reg = if i % 12 == 11 {
            big_registry::<VS>(&mut rng, &versions)
        } else if i % 3 == 2 {
            layered_registry::<VS>(&mut rng, &versions)
        } else {
            random_registry::<VS>(&mut rng, &versions)
        };
        let rvs = reg.versions("root");
        let rv = if rvs.is_empty() || rng.chance(1, 30) { 1 } else { rvs[rng.below(rvs.len() as u64) as usize] };
        let r = SolveReq { debug, root: "root".into(), rv, reg, strat: random_strat(&mut rng), fault: Fault::None };
        push_solve(sink, prop, &r);
    }
}

/// Exhaustive small scopes (every registry of the shape, not a sample):
/// scope A (thorough): packages root (version 1) and a (versions 1, 3), every version may depend on `a`
///   (8 choices: none or one of 7 sets incl. the empty set, the full set and the member-free `1<v<3`)
///   and on `root` (4 choices: none, full, {1}, empty) - self-dependencies and cycles through the root
///   included: 32^3 = 32 768 registries;
/// scope B (both tiers): packages root (1), a (1, 3), b (1, 3); root depends on a and on b, each a@v on
///   b, each b@v on a (a cycle), every dependency none or one of 4 sets: 5^6 = 15 625 registries.
fn exhaustive_scope<VS: HSet>(sink: &mut Sink, prop: &str, thorough: bool, debug: bool) {
    let sets7: Vec<Option<VS>> = std::iter::once(None)
        .chain(["-", "u:u", "i1:i1", "i3:i3", "i3:u", "u:e3", "e1:e3"].iter().map(|m| Some(VS::from_machine(m))))
        .collect();
    let sets4: Vec<Option<VS>> = std::iter::once(None)
        .chain(["u:u", "i1:i1", "i3:i3", "-"].iter().map(|m| Some(VS::from_machine(m))))
        .collect();
    let rootsets: Vec<Option<VS>> = std::iter::once(None)
        .chain(["u:u", "i1:i1", "-"].iter().map(|m| Some(VS::from_machine(m))))
        .collect();
    let dep = |q: &str, s: &Option<VS>| -> Vec<(String, VS)> {
        match s {
            None => vec![],
            Some(x) => vec![(q.to_string(), VS::from_machine(&x.to_machine()))],
        }
    };
    let strategies: &[Strat] = if thorough { &[Strat::NewestFewest, Strat::OldestFewest] } else { &[Strat::NewestFewest] };
    let mut count = 0u64;
    // scope B
    for ra in &sets4 { for rb in &sets4 { for a1 in &sets4 { for a3 in &sets4 { for b1 in &sets4 { for b3 in &sets4 {
        let mut entries = BTreeMap::new();
        let mut d = dep("a", ra); d.extend(dep("b", rb));
        entries.insert(("root".to_string(), 1u32), Ok(d));
        entries.insert(("a".to_string(), 1u32), Ok(dep("b", a1)));
        entries.insert(("a".to_string(), 3u32), Ok(dep("b", a3)));
        entries.insert(("b".to_string(), 1u32), Ok(dep("a", b1)));
        entries.insert(("b".to_string(), 3u32), Ok(dep("a", b3)));
        for st in strategies {
            let r = SolveReq { debug, root: "root".into(), rv: 1, reg: Registry { entries: entries.clone() }, strat: st.clone(), fault: Fault::None };
            push_solve(sink, prop, &r);
            count += 1;
        }
    }}}}}}
    sink.notes.push(format!("exhaustive scope B: all 5^6 = 15625 registries root(1) a(1,3) b(1,3), root->a,b; a@v->b; b@v->a (cyclic), sets in {{none,*,{{1}},{{3}},empty}}, {} strategies: {} runs mirrored", strategies.len(), count));
    if !thorough {
        return;
    }
    let mut count_a = 0u64;
    for ra in &sets7 { for rr in &rootsets { for a1a in &sets7 { for a1r in &rootsets { for a3a in &sets7 { for a3r in &rootsets {
        let mut entries = BTreeMap::new();
        let mut d = dep("a", ra); d.extend(dep("root", rr));
        entries.insert(("root".to_string(), 1u32), Ok(d));
        let mut d = dep("a", a1a); d.extend(dep("root", a1r));
        entries.insert(("a".to_string(), 1u32), Ok(d));
        let mut d = dep("a", a3a); d.extend(dep("root", a3r));
        entries.insert(("a".to_string(), 3u32), Ok(d));
        let r = SolveReq { debug, root: "root".into(), rv: 1, reg: Registry { entries }, strat: if count_a % 2 == 0 { Strat::NewestFewest } else { Strat::OldestFewest }, fault: Fault::None };
        push_solve(sink, prop, &r);
        count_a += 1;
    }}}}}}
    sink.notes.push(format!("exhaustive scope A: all 32^3 = 32768 registries root(1) a(1,3) with dependencies on a (8 choices incl. the member-free set 1<v<3) and on root (4 choices) - self-dependencies and cycles through the root: {} runs mirrored", count_a));
}

/// C13: for every base case and every index k of its fault-free callback trace, the run in which
/// the k-th callback fails, and (for choose_version callbacks) answers outside the set
pub fn gen_c13(sink: &mut Sink, thorough: bool, seed: u64, debug: bool) {
    let mut rng = Rng::new(seed ^ 0x1313);
    let versions = vec![1u32, 3, 5];
    let n_base = crate::util::scaled(if thorough { 3000 } else { 250 });
    let mut bases: Vec<SolveReq<Range<u32>>> = vec![];
    for (reg, root, rv) in corpus::<Range<u32>>() {
        bases.push(SolveReq { debug, root: root.to_string(), rv, reg, strat: Strat::NewestFewest, fault: Fault::None });
    }
    for _ in 0..n_base {
        let reg = random_registry::<Range<u32>>(&mut rng, &versions);
        let rvs = reg.versions("root");
        let rv = if rvs.is_empty() { 1 } else { rvs[rng.below(rvs.len() as u64) as usize] };
        bases.push(SolveReq { debug, root: "root".into(), rv, reg, strat: random_strat(&mut rng), fault: Fault::None });
    }
    let mut faults = 0u64;
    for b in &bases {
        let base_eval = eval_solve(b);
        let calls: Vec<Ev> = base_eval.run.events.iter().filter(|e| matches!(e, Ev::Cancel { .. } | Ev::Choose { .. } | Ev::Deps { .. })).cloned().collect();
        let base_trace: Vec<String> = base_eval.imp.split(";;").filter(|s| !s.starts_with("snap ") && !s.starts_with("result ")).map(|s| s.to_string()).collect();
        sink.push(eval_to_case(base_eval, "C13"));
        for (k, ev) in calls.iter().enumerate() {
            let mut kinds = vec![Fault::Fail(k)];
            if let Ev::Choose { set_m, .. } = ev {
                if set_m != "u:u" {
                    kinds.push(Fault::OutOfSet(k)); // (the full set has nothing outside it)
                }
            }
            for f in kinds {
                let r = SolveReq { debug, root: b.root.clone(), rv: b.rv, reg: b.reg.clone(), strat: b.strat.clone(), fault: f.clone() };
                let e = eval_solve(&r);
                // prefix property: up to the fault the trace equals the fault-free one
                let tr: Vec<String> = e.imp.split(";;").filter(|s| !s.starts_with("snap ") && !s.starts_with("result ")).map(|s| s.to_string()).collect();
                let mut c = eval_to_case(e, "C13");
                let n = tr.len();
                if let Fault::Fail(_) = f {
                    if n > base_trace.len() || tr[..] != base_trace[..n] {
                        c.oracle_fail = Some("the call trace up to the failing callback differs from the fault-free run".into());
                    }
                }
                c.nontrivial = true;
                c.tags.push("fault_injected");
                sink.push(c);
                faults += 1;
            }
        }
    }
    sink.notes.push(format!("fault enumeration: {} base cases, every callback index of each fault-free trace failed once (and answered out of set once for choose_version): {} faulty runs", bases.len(), faults));
}

pub fn gen_c17(sink: &mut Sink, thorough: bool, seed: u64, debug: bool) {
    // (a) the provided methods on all pairs of the 256 sets
    for a in 0..256u32 {
        for b in 0..256u32 {
            if !thorough && (a * 7 + b * 13) % 4 != 0 && a > 16 && b > 16 {
                continue;
            }
            sink.push(crate::eval::eval_line(&format!("bset2|{}|{}", a, b)));
        }
    }
    // (b) the solver with the custom version set
    gen_solver::<BitSet8>(sink, "C17", thorough, seed, debug, crate::util::scaled(if thorough { 100_000 } else { 6_000 }));
    gen_solver::<crate::hset::BitSet2>(sink, "C17", thorough, seed ^ 0x22, debug, crate::util::scaled(if thorough { 40_000 } else { 3_000 }));
    gen_solver::<crate::hset::BlurSet8>(sink, "C17", thorough, seed ^ 0xa4, debug, crate::util::scaled(if thorough { 40_000 } else { 3_000 }));
    sink.notes.push("the solver also over a custom set whose Display is not injective ({1} and {5} print alike)".into());
    sink.notes.push("the solver also over a custom set with a 2-element universe (the versions of one package cover it: a merged dependent set equals full())".into());
    let _: BTreeMap<u8, u8> = BTreeMap::new();
}

/// C08 / C09: every NoSolution tree of a solver pass (before and after collapse) and synthetic DAGs
pub fn gen_trees(sink: &mut Sink, prop: &str, thorough: bool, seed: u64, debug: bool) {
    use crate::treeck::tree_tokens;
    let mut rng = Rng::new(seed ^ 0x0808);
    let versions = vec![1u32, 3, 5];
    let n_cases = crate::util::scaled(if thorough { 60_000 } else { 5_000 });
    let mut regs: Vec<(Registry<Range<u32>>, String, u32, Strat)> = corpus::<Range<u32>>()
        .into_iter()
        .map(|(r, root, rv)| (r, root.to_string(), rv, Strat::NewestFewest))
        .collect();
    for i in 0..n_cases {
        let reg = if i % 2 == 1 { layered_registry::<Range<u32>>(&mut rng, &versions) } else { random_registry::<Range<u32>>(&mut rng, &versions) };
        let rvs = reg.versions("root");
        let rv = if rvs.is_empty() { 1 } else { rvs[rng.below(rvs.len() as u64) as usize] };
        regs.push((reg, "root".into(), rv, random_strat(&mut rng)));
    }
    let mut n_trees = 0u64;
    for (reg, root, rv, strat) in regs {
        let run = run_resolve(&reg, &root, rv, &strat, &Fault::None);
        if let Outcome::NoSolution(tree) = &run.outcome {
            n_trees += 1;
            let toks = tree_tokens(tree);
            if prop == "C08" {
                sink.push(crate::eval::eval_line(&format!("report|{}|-", toks)));
                let mut t2 = tree.clone();
                if std::panic::catch_unwind(std::panic::AssertUnwindSafe(|| t2.collapse_no_versions())).is_ok() {
                    let mut c = crate::eval::eval_line(&format!("report|{}|{}", tree_tokens(&t2), reg.to_text()));
                    c.tags.push("report_after_collapse");
                    sink.push(c);
                }
            } else {
                sink.push(crate::eval::eval_line(&format!("collapse|{}|{}|{}|{}", toks, reg.to_text(), root, rv)));
            }
        }
    }
    let n_syn = crate::util::scaled(if thorough { 200_000 } else { 8_000 });
    let mut made = 0u64;
    let mut relabelled = 0u64;
    for _ in 0..n_syn {
        if let Some(t) = crate::report::synthetic_tree(&mut rng) {
            made += 1;
            let toks = tree_tokens(&t);
            if prop == "C08" {
                sink.push(crate::eval::eval_line(&format!("report|{}|-", toks)));
            } else {
                sink.push(crate::eval::eval_line(&format!("collapse|{}|-|root|1", toks)));
            }
            // the same DAG with its shared ids renamed injectively to values that are all congruent modulo
            // 2^8, 2^16 and 2^32 (`shared_id` is a public `Option<usize>`): ids are names, nothing may depend
            // on their size or on a truncation of them
            if made % 4 == 0 && toks.matches("!D!").count() + usize::from(toks.starts_with("D!")) >= 2 {
                let mut map = std::collections::BTreeMap::new();
                let t2 = relabel_ids(&t, &mut map);
                if map.len() >= 2 {
                    relabelled += 1;
                    let toks2 = tree_tokens(&t2);
                    if prop == "C08" {
                        sink.push(crate::eval::eval_line(&format!("report|{}|-", toks2)));
                    } else {
                        sink.push(crate::eval::eval_line(&format!("collapse|{}|-|root|1", toks2)));
                    }
                }
            }
        }
    }
    sink.notes.push(format!("{} of the synthetic DAGs again with their shared ids renamed to values congruent modulo 2^32 (7 + k * 2^32)", relabelled));
    let _ = debug;
    sink.notes.push(format!("{} NoSolution trees from solver runs, {} synthetic DAGs of sound resolution steps with arbitrary sharing", n_trees, made));
}

/// rename the shared ids of a tree injectively: the k-th distinct id becomes 7 + k * 2^32
fn relabel_ids(t: &crate::treeck::Tree<Range<u32>>, map: &mut std::collections::BTreeMap<usize, usize>) -> crate::treeck::Tree<Range<u32>> {
    use pubgrub::{DerivationTree, Derived};
    match t {
        DerivationTree::External(e) => DerivationTree::External(e.clone()),
        DerivationTree::Derived(d) => {
            let sid = d.shared_id.map(|i| {
                let n = map.len();
                *map.entry(i).or_insert(7 + n * (1usize << 32))
            });
            DerivationTree::Derived(Derived {
                terms: d.terms.clone(),
                shared_id: sid,
                cause1: std::sync::Arc::new(relabel_ids(&d.cause1, map)),
                cause2: std::sync::Arc::new(relabel_ids(&d.cause2, map)),
            })
        }
    }
}

/-
Invariants behind properties C04 (reachability) and C05 (no panic in the satisfier search):
definitions only.  `CauseInv` and `LevelMono` were evaluated as executable checks
(PubgrubModel/Diag.lean: checkCause, checkLevelMono) on every step of 12 000 mirrored runs (208 321
states) before being stated here.
-/
import PubgrubProofs.PSDefs
import PubgrubProofs.StoreDefs

namespace Pubgrub
open VersionSet

section
variable {P S V M Pr : Type} [DecidableEq P] [VersionSet S V] [DecidableEq S]

/-- the term of a package restricted to its assignments with global index `< g` -/
def PackageAssignments.termBefore (pa : PackageAssignments S V) (g : Nat) : Option (Term S) :=
  let fromDated := ((pa.dated.filter fun dd => dd.globalIndex < g).getLast?).map (·.accumulated)
  match pa.inter with
  | .decision gd _ t => if gd < g then some t else fromDated
  | .derivations _ => fromDated

/-- all assignments of the partial solution as (global index, decision level, is a decision) -/
def PartialSolution.allAssignments (ps : PartialSolution P S V Pr) : List (Nat × Nat × Bool) :=
  ps.assignments.flatMap fun kv =>
    kv.2.dated.map (fun dd => (dd.globalIndex, dd.decisionLevel, false)) ++
    (match kv.2.inter with | .decision g _ _ => [(g, kv.2.highest, true)] | _ => [])

/-- LevelMono: global indices and decision levels are ordered alike, and a decision opens a level that
no earlier assignment has -/
def PartialSolution.LevelMono (ps : PartialSolution P S V Pr) : Prop :=
  ∀ a ∈ ps.allAssignments, ∀ b ∈ ps.allAssignments, a.1 < b.1 →
    a.2.1 ≤ b.2.1 ∧ (b.2.2 = true → a.2.1 < b.2.1)

/-- CauseInv: when a derivation was made, its cause contained the package, and every *other* term of
the cause was satisfied by the assignments made before the derivation (the cause was almost satisfied) -/
def State.CauseInv (st : State P S V M Pr) : Prop :=
  ∀ p pa, (p, pa) ∈ st.ps.assignments → ∀ dd ∈ pa.dated,
    ∃ inc : Incompat P S V M, st.store[dd.cause]? = some inc ∧ (inc.get p).isSome = true ∧
      ∀ r tr, (r, tr) ∈ inc.terms → r ≠ p →
        ∃ par t, st.ps.getPA r = some par ∧ par.termBefore dd.globalIndex = some t ∧
          t.subsetOf tr = true

/-- a package is reachable from the root through dependencies of the selected versions -/
inductive ReachableFrom (W : World P S V M) (root : P) (σ : P → Option V) : P → Prop
  | root : ReachableFrom W root σ root
  | dep (p q : P) (v : V) (ds : List (P × S)) (s : S) :
      ReachableFrom W root σ p → σ p = some v → W.deps p v = .available ds → (q, s) ∈ ds →
      ReachableFrom W root σ q

end
end Pubgrub

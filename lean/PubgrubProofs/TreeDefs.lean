/-
What it means for a derivation tree to be a checkable proof (properties C03, C08, C09): definitions only.
-/
import PubgrubProofs.StoreDefs

namespace Pubgrub
open VersionSet

section
variable {P S V M : Type} [DecidableEq P] [VersionSet S V] [DecidableEq S]

/-- the clause a leaf stands for: the terms the constructor of that kind builds -/
def External.terms : External P S V M → List (P × Term S)
  | .notRoot p v => [(p, Term.neg (VersionSet.singleton v))]
  | .noVersions p s => [(p, Term.pos s)]
  | .fromDependencyOf p s q t => (Incompat.fromDependency (M := M) p s (q, t)).terms
  | .custom p s _ => [(p, Term.pos s)]

/-- the clause at the top of a tree -/
def DerivationTree.terms : DerivationTree P S V M → List (P × Term S)
  | .external e => e.terms
  | .derived terms _ _ _ => terms

/-- every term of a clause is true under the selection -/
def TermsTrue (σ : P → Option V) (terms : List (P × Term S)) : Prop :=
  ∀ p t, (p, t) ∈ terms → t.eval (σ p) = true

/-- the fact stated by a leaf is true of the provider's answers -/
def External.TrueIn (W : World P S V M) (root : P) (rv : V) : External P S V M → Prop
  | .notRoot p v => p = root ∧ v = rv
  | .noVersions p s => ∀ v ∈ W.versions p, contains s v = false
  | .fromDependencyOf p s q t =>
      ∀ w, contains s w = true → ∃ ds, W.deps p w = .available ds ∧ (q, t) ∈ ds
  | .custom p s m => ∃ v, s = VersionSet.singleton v ∧ W.deps p v = .unavailable m

/-- a checkable proof: every leaf true of the world, every derived node entailed by its two causes
(every selection making all terms of the node true makes all terms of one cause true) -/
inductive DerivationTree.Checkable (W : World P S V M) (root : P) (rv : V) :
    DerivationTree P S V M → Prop
  | external (e : External P S V M) : e.TrueIn W root rv → Checkable W root rv (.external e)
  | derived (terms : List (P × Term S)) (sid : Option Nat) (c1 c2 : DerivationTree P S V M) :
      Checkable W root rv c1 → Checkable W root rv c2 →
      (∀ σ : P → Option V, TermsTrue σ terms → TermsTrue σ c1.terms ∨ TermsTrue σ c2.terms) →
      Checkable W root rv (.derived terms sid c1 c2)

/-- all derived nodes of a tree, as (shared id, subtree) -/
def DerivationTree.derivedNodes : DerivationTree P S V M → List (Option Nat × DerivationTree P S V M)
  | .external _ => []
  | .derived terms sid c1 c2 =>
      (sid, .derived terms sid c1 c2) :: (c1.derivedNodes ++ c2.derivedNodes)

end
end Pubgrub

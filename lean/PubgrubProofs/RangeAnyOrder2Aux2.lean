/-
Helpers for `RangeAnyOrder2.lean`, part 2: transport of the trace vocabulary (`lastPrio`, `AnswersOK`,
the state after `k` answers) and of the partial-solution invariant I-PS (`PartialSolution.WF`) along an
injective version-set homomorphism.
-/
import PubgrubProofs.RangeAnyOrderAux1
import PubgrubProofs.Freshness

set_option linter.unusedSectionVars false

namespace Pubgrub
open VersionSet

section TraceTransport
variable {P S V S' V' M Pr E : Type} [DecidableEq P] [VersionSet S V] [VersionSet S' V']
  [DecidableEq S] [DecidableEq V] [DecidableEq S'] [DecidableEq V'] [LE Pr] [DecidableLE Pr]

theorem findSome?_optMap {α β γ : Type} (g : β → γ) (f : α → Option β) (l : List α) :
    (l.findSome? fun j => (f j).map g) = (l.findSome? f).map g := by
  induction l with
  | nil => rfl
  | cons a l ih =>
    simp only [List.findSome?_cons]
    cases f a with
    | none => simpa using ih
    | some b => rfl

/-- the most recent `prioritize` call of the image run is the image of the most recent one -/
theorem lastPrio_mapH (h : VSetHom S V S' V') (tr : List (Request P S V M Pr E))
    (as : List (Answer P S V M Pr E)) (k : Nat) (q : P) :
    lastPrio (tr.map (Request.mapH h)) (as.map (Answer.mapH h)) k q =
      (lastPrio tr as k q).map fun x => (h.f x.1, x.2) := by
  unfold lastPrio
  rw [← findSome?_optMap]
  congr 1
  funext j
  simp only [List.getElem?_map]
  cases tr[j]? with
  | none => rfl
  | some r =>
    cases as[j]? with
    | none => cases r <;> rfl
    | some a =>
      cases r <;> cases a <;> try rfl
      rename_i q' s pr
      simp only [Option.map_some, Request.mapH, Answer.mapH]
      split <;> rfl

theorem lastPrio_mapH_eq_some (h : VSetHom S V S' V') (tr : List (Request P S V M Pr E))
    (as : List (Answer P S V M Pr E)) (k : Nat) (q : P) (s : S) (pr : Pr)
    (hl : lastPrio (tr.map (Request.mapH h)) (as.map (Answer.mapH h)) k q = some (h.f s, pr)) :
    lastPrio tr as k q = some (s, pr) := by
  rw [lastPrio_mapH, Option.map_eq_some_iff] at hl
  obtain ⟨⟨s0, pr0⟩, h0, e⟩ := hl
  simp only [Prod.mk.injEq] at e
  obtain ⟨e1, e2⟩ := e
  rw [h0, h.f_inj _ _ e1, e2]

theorem lastPrio_mapH_eq_some' (h : VSetHom S V S' V') (tr : List (Request P S V M Pr E))
    (as : List (Answer P S V M Pr E)) (k : Nat) (q : P) (s' : S') (pr : Pr)
    (hl : lastPrio (tr.map (Request.mapH h)) (as.map (Answer.mapH h)) k q = some (s', pr)) :
    ∃ s, lastPrio tr as k q = some (s, pr) := by
  rw [lastPrio_mapH, Option.map_eq_some_iff] at hl
  obtain ⟨⟨s0, pr0⟩, h0, e⟩ := hl
  simp only [Prod.mk.injEq] at e
  obtain ⟨_, e2⟩ := e
  exact ⟨s0, by rw [h0, e2]⟩

/-- the image of a run whose answers are consistent with the world has answers consistent with the
image world -/
theorem answersOK_mapH (h : VSetHom S V S' V') (back : V' → Option V)
    (hback : ∀ v, back (h.ι v) = some v) (W : World P S V M) (debug : Bool) (fuel : Nat) (root : P)
    (rv : V) (as : List (Answer P S V M Pr E)) (hok : AnswersOK W debug fuel root rv as) :
    AnswersOK (World.mapH h back W) debug fuel root (h.ι rv) (as.map (Answer.mapH h)) := by
  intro k a' ha'
  rw [List.getElem?_map, Option.map_eq_some_iff] at ha'
  obtain ⟨a, ha, rfl⟩ := ha'
  obtain ⟨r, hr, hra⟩ := hok k a ha
  refine ⟨Request.mapH h r, ?_, answerOK_mapH h back hback W r a hra⟩
  rw [trace_mapH, List.getElem?_map, hr]
  rfl

/-- the state of the image run after `k` answers -/
theorem after_take_mapH (h : VSetHom S V S' V') (debug : Bool) (fuel : Nat) (root : P) (rv : V)
    (as : List (Answer P S V M Pr E)) (k : Nat) :
    (Solver.after (Solver.start (M := M) (Pr := Pr) (E := E) debug fuel root (h.ι rv))
        ((as.map (Answer.mapH h)).take k)).1 =
      SolverState.mapH h (Solver.after (Solver.start debug fuel root rv) (as.take k)).1 := by
  rw [← List.map_take, start_mapH, after_mapH]

end TraceTransport

section WFTransport
variable {P S V S' V' Pr : Type} [DecidableEq P] [VersionSet S V] [VersionSet S' V']
  [DecidableEq S] [DecidableEq S']

theorem AssignInter.mapH_eq_decision (h : VSetHom S V S' V') (i : AssignInter S V) (g : Nat) (v' : V')
    (t' : Term S') (hi : AssignInter.mapH h i = .decision g v' t') :
    ∃ v t, i = .decision g v t ∧ h.ι v = v' ∧ Term.mapH h t = t' := by
  cases i with
  | decision g0 v t =>
    simp only [AssignInter.mapH, AssignInter.decision.injEq] at hi
    obtain ⟨rfl, e2, e3⟩ := hi
    exact ⟨v, t, rfl, e2, e3⟩
  | derivations t => simp [AssignInter.mapH] at hi

theorem AssignInter.mapH_eq_derivations (h : VSetHom S V S' V') (i : AssignInter S V) (t' : Term S')
    (hi : AssignInter.mapH h i = .derivations t') : ∃ t, i = .derivations t ∧ Term.mapH h t = t' := by
  cases i with
  | decision g0 v t => simp [AssignInter.mapH] at hi
  | derivations t =>
    simp only [AssignInter.mapH, AssignInter.derivations.injEq] at hi
    exact ⟨t, rfl, hi⟩

theorem PackageAssignments.WFAt.pull (h : VSetHom S V S' V') (dl next i : Nat)
    (pa : PackageAssignments S V) (hw : (PackageAssignments.mapH h pa).WFAt dl next i) :
    pa.WFAt dl next i := by
  have hlev : (PackageAssignments.mapH h pa).dated.map (·.decisionLevel) =
      pa.dated.map (·.decisionLevel) := by
    simp [PackageAssignments.mapH, DatedDerivation.mapH, Function.comp_def]
  have hidx : (PackageAssignments.mapH h pa).dated.map (·.globalIndex) =
      pa.dated.map (·.globalIndex) := by
    simp [PackageAssignments.mapH, DatedDerivation.mapH, Function.comp_def]
  have hmem : ∀ dd ∈ pa.dated, DatedDerivation.mapH h dd ∈ (PackageAssignments.mapH h pa).dated :=
    fun dd hdd => List.mem_map.2 ⟨dd, hdd, rfl⟩
  have hlast : ∀ l', (PackageAssignments.mapH h pa).dated.getLast? = some l' →
      ∃ l, pa.dated.getLast? = some l ∧ DatedDerivation.mapH h l = l' := by
    intro l' hl'
    simp only [PackageAssignments.mapH, List.getLast?_map, Option.map_eq_some_iff] at hl'
    exact hl'
  have hhead : ∀ l', (PackageAssignments.mapH h pa).dated.head? = some l' →
      ∃ l, pa.dated.head? = some l ∧ DatedDerivation.mapH h l = l' := by
    intro l' hl'
    simp only [PackageAssignments.mapH, List.head?_map, Option.map_eq_some_iff] at hl'
    exact hl'
  refine ⟨?_, ?_, ?_, ?_, ?_, ?_⟩
  · intro hi
    obtain ⟨g, v', hinter, hhigh, hg, hdd, hl⟩ := hw.decided hi
    obtain ⟨v, t, hi0, rfl, ht⟩ := AssignInter.mapH_eq_decision h pa.inter g v' _ hinter
    rw [← Term.mapH_exact, Term.mapH_eq_iff] at ht
    subst ht
    refine ⟨g, v, hi0, hhigh, hg, fun dd hd => hdd _ (hmem dd hd), ?_⟩
    intro dd hlastdd
    have := hl (DatedDerivation.mapH h dd)
      (by simp only [PackageAssignments.mapH, List.getLast?_map, hlastdd, Option.map_some])
    simp only [DatedDerivation.mapH, Term.contains_mapH] at this
    exact this
  · intro hi
    obtain ⟨t', l', f', hinter, hhigh, hl, hf, hacc, hlv, hfv⟩ := hw.undecided hi
    obtain ⟨t, hi0, rfl⟩ := AssignInter.mapH_eq_derivations h pa.inter t' hinter
    obtain ⟨l, hl0, rfl⟩ := hlast l' hl
    obtain ⟨f, hf0, rfl⟩ := hhead f' hf
    refine ⟨t, l, f, hi0, hhigh, hl0, hf0, ?_, hlv, hfv⟩
    simp only [DatedDerivation.mapH, Term.mapH_eq_iff] at hacc
    exact hacc
  · rw [← hlev]; exact hw.levels
  · rw [← hidx]; exact hw.indices
  · intro dd hd; exact hw.indices_lt _ (hmem dd hd)
  · exact hw.range

/-- I-PS is reflected by the map on partial solutions (it only speaks about levels, indices, keys and
the shape of the entries) -/
theorem PartialSolution.WF.pull (h : VSetHom S V S' V') (ps : PartialSolution P S V Pr)
    (hw : (PartialSolution.mapH h ps).WF) : ps.WF := by
  have hlen : (PartialSolution.mapH h ps).assignments.length = ps.assignments.length := by
    simp [PartialSolution.mapH]
  have hkeys : (PartialSolution.mapH h ps).assignments.map Prod.fst = ps.assignments.map Prod.fst := by
    simp [PartialSolution.mapH, Function.comp_def]
  refine ⟨?_, ?_, ?_, ?_, ?_, ?_⟩
  · rw [← hlen]; exact hw.changed_le
  · rw [← hlen]; exact hw.level_le
  · rw [← hkeys]; exact hw.keys
  · intro i p pa hi
    apply PackageAssignments.WFAt.pull h
    apply hw.entries i p
    simp only [PartialSolution.mapH, List.getElem?_map, hi, Option.map_some]
  · exact hw.queue_keys
  · intro p pr hp
    obtain ⟨pa', s', hpa', hint'⟩ := hw.queue_sub p pr hp
    rw [PartialSolution.getPA_mapH, Option.map_eq_some_iff] at hpa'
    obtain ⟨pa, hpa, rfl⟩ := hpa'
    obtain ⟨t, ht, e⟩ := AssignInter.mapH_eq_derivations h pa.inter _ hint'
    cases t with
    | pos s => exact ⟨pa, s, hpa, ht⟩
    | neg s => simp [Term.mapH] at e

end WFTransport
end Pubgrub

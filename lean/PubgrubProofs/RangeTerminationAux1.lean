/-
Helpers for `RangeTermination.lean`, part 1 (pure `Range` facts, any linear order, arbitrary segment
lists — no well-formedness):
* `BoundsIn B r`: every bound VALUE of the segment list `r` satisfies `B`;  the results of
  `empty / full / singleton / complement / intersection / union` have their bound values among the bound
  values of the inputs;
* membership of a point in a segment list with `BoundsIn B` depends only on the comparison profile
  (`<`, `=`) of the point with the values satisfying `B`.
-/
import PubgrubProofs.RangeHom

set_option linter.unusedSectionVars false

namespace Pubgrub
namespace Range
open Pubgrub.Bound

variable {V : Type} [LinearOrder V]

/-- the value of a bound (if any) satisfies `B` -/
def bIn (B : V → Prop) : Bound V → Prop
  | .unb => True
  | .incl v => B v
  | .excl v => B v

/-- every bound value of the segment list satisfies `B` -/
def BoundsIn (B : V → Prop) (r : Range V) : Prop := ∀ seg ∈ r, bIn B seg.1 ∧ bIn B seg.2

@[simp] theorem bIn_unb (B : V → Prop) : bIn B (unb : Bound V) := trivial
@[simp] theorem bIn_incl (B : V → Prop) (v : V) : bIn B (incl v) ↔ B v := Iff.rfl
@[simp] theorem bIn_excl (B : V → Prop) (v : V) : bIn B (excl v) ↔ B v := Iff.rfl

theorem boundsIn_nil (B : V → Prop) : BoundsIn B ([] : Range V) := by
  intro seg h; cases h

theorem boundsIn_cons (B : V → Prop) (s : Seg V) (t : Range V) :
    BoundsIn B (s :: t) ↔ (bIn B s.1 ∧ bIn B s.2) ∧ BoundsIn B t := by
  simp [BoundsIn]

theorem boundsIn_append (B : V → Prop) (a b : Range V) :
    BoundsIn B (a ++ b) ↔ BoundsIn B a ∧ BoundsIn B b := by
  simp only [BoundsIn, List.mem_append]
  constructor
  · intro h; exact ⟨fun s hs => h s (Or.inl hs), fun s hs => h s (Or.inr hs)⟩
  · rintro ⟨h1, h2⟩ s (hs | hs)
    · exact h1 s hs
    · exact h2 s hs

theorem boundsIn_empty (B : V → Prop) : BoundsIn B (Range.empty : Range V) := boundsIn_nil B

theorem boundsIn_full (B : V → Prop) : BoundsIn B (Range.full : Range V) := by
  simp [Range.full, boundsIn_cons, boundsIn_nil]

theorem boundsIn_singleton (B : V → Prop) (v : V) (hv : B v) :
    BoundsIn B (Range.singleton v : Range V) := by
  simp [Range.singleton, boundsIn_cons, boundsIn_nil, hv]

/-! ### complement -/

theorem bIn_flipB (B : V → Prop) (b : Bound V) : bIn B (flipB b) ↔ bIn B b := by
  cases b <;> simp [flipB]

theorem boundsIn_negateSegments (B : V → Prop) (s : Bound V) (t : Range V) (hs : bIn B s)
    (ht : BoundsIn B t) : BoundsIn B (negateSegments s t) := by
  induction t generalizing s with
  | nil =>
    cases s <;> simp_all [negateSegments, boundsIn_cons, boundsIn_nil]
  | cons x t ih =>
    obtain ⟨v1, v2⟩ := x
    rw [boundsIn_cons] at ht
    simp only [negateSegments, boundsIn_cons, bIn_flipB]
    exact ⟨⟨hs, ht.1.1⟩, ih _ ((bIn_flipB B v2).2 ht.1.2) ht.2⟩

theorem boundsIn_complement (B : V → Prop) (r : Range V) (hr : BoundsIn B r) :
    BoundsIn B (complement r) := by
  have hn := boundsIn_negateSegments B
  match r, hr with
  | [], _ => exact boundsIn_full B
  | (unb, unb) :: _, _ => exact boundsIn_empty B
  | (incl v, unb) :: _, hr =>
    simp_all [complement, strictlyLowerThan, boundsIn_cons, boundsIn_nil]
  | (excl v, unb) :: _, hr =>
    simp_all [complement, lowerThan, boundsIn_cons, boundsIn_nil]
  | (unb, incl v) :: t, hr =>
    rw [boundsIn_cons] at hr
    exact hn (excl v) t hr.1.2 hr.2
  | (unb, excl v) :: t, hr =>
    rw [boundsIn_cons] at hr
    exact hn (incl v) t hr.1.2 hr.2
  | (incl a, incl b) :: t, hr => exact hn unb _ trivial hr
  | (incl a, excl b) :: t, hr => exact hn unb _ trivial hr
  | (excl a, incl b) :: t, hr => exact hn unb _ trivial hr
  | (excl a, excl b) :: t, hr => exact hn unb _ trivial hr

/-! ### intersection -/

theorem bIn_interStart (B : V → Prop) (a b : Bound V) (ha : bIn B a) (hb : bIn B b) :
    bIn B (interStart a b) := by
  cases a <;> cases b <;> simp only [interStart] <;> (try split_ifs) <;> assumption

theorem boundsIn_intersection (B : V → Prop) (a b : Range V) (ha : BoundsIn B a)
    (hb : BoundsIn B b) : BoundsIn B (intersection a b) := by
  fun_induction intersection a b with
  | case1 ls le l rs re r h1 h2 ih =>
    rw [boundsIn_cons] at ha hb ⊢
    exact ⟨⟨bIn_interStart B _ _ ha.1.1 hb.1.1, ha.1.2⟩, ih ha.2 ((boundsIn_cons B _ _).2 hb)⟩
  | case2 ls le l rs re r h1 h2 ih =>
    rw [boundsIn_cons] at ha
    exact ih ha.2 hb
  | case3 ls le l rs re r h1 h2 ih =>
    rw [boundsIn_cons] at ha hb ⊢
    exact ⟨⟨bIn_interStart B _ _ ha.1.1 hb.1.1, hb.1.2⟩, ih ((boundsIn_cons B _ _).2 ha) hb.2⟩
  | case4 ls le l rs re r h1 h2 ih =>
    rw [boundsIn_cons] at hb
    exact ih ha hb.2
  | case5 b => exact boundsIn_nil B
  | case6 a => exact boundsIn_nil B

/-! ### union -/

theorem bIn_unionEnd (B : V → Prop) (a b : Bound V) (ha : bIn B a) (hb : bIn B b) :
    bIn B (unionEnd a b) := by
  cases a <;> cases b <;> simp only [unionEnd] <;> (try split_ifs) <;> assumption

/-- the accumulator of the union sweep has its bound values in `B` -/
def accIn (B : V → Prop) (acc : Option (Seg V)) : Prop :=
  ∀ a, acc = some a → bIn B a.1 ∧ bIn B a.2

theorem unionAccum_in (B : V → Prop) (acc : Option (Seg V)) (s : Seg V) (hacc : accIn B acc)
    (hs : bIn B s.1 ∧ bIn B s.2) :
    BoundsIn B (unionAccum acc s).1 ∧ accIn B (some (unionAccum acc s).2) := by
  cases acc with
  | none =>
    refine ⟨boundsIn_nil B, ?_⟩
    intro a ha; cases ha; exact hs
  | some a =>
    have ha := hacc a rfl
    simp only [unionAccum]
    split_ifs
    · refine ⟨by simp [boundsIn_cons, boundsIn_nil, ha], ?_⟩
      intro a' ha'; cases ha'; exact hs
    · refine ⟨boundsIn_nil B, ?_⟩
      intro a' ha'; cases ha'
      exact ⟨ha.1, bIn_unionEnd B _ _ ha.2 hs.2⟩

theorem boundsIn_unionGo (B : V → Prop) (acc : Option (Seg V)) (a b : Range V)
    (hacc : accIn B acc) (ha : BoundsIn B a) (hb : BoundsIn B b) :
    BoundsIn B (unionGo acc a b) := by
  fun_induction unionGo acc a b with
  | case1 acc l ls r rs h ih =>
    rw [boundsIn_cons] at ha
    obtain ⟨h1, h2⟩ := unionAccum_in B acc l hacc ha.1
    exact (boundsIn_append B _ _).2 ⟨h1, ih h2 ha.2 hb⟩
  | case2 acc l ls r rs h ih =>
    rw [boundsIn_cons] at hb
    obtain ⟨h1, h2⟩ := unionAccum_in B acc r hacc hb.1
    exact (boundsIn_append B _ _).2 ⟨h1, ih h2 ha hb.2⟩
  | case3 acc l ls ih =>
    rw [boundsIn_cons] at ha
    obtain ⟨h1, h2⟩ := unionAccum_in B acc l hacc ha.1
    exact (boundsIn_append B _ _).2 ⟨h1, ih h2 ha.2 hb⟩
  | case4 acc r rs ih =>
    rw [boundsIn_cons] at hb
    obtain ⟨h1, h2⟩ := unionAccum_in B acc r hacc hb.1
    exact (boundsIn_append B _ _).2 ⟨h1, ih h2 ha hb.2⟩
  | case5 a =>
    have := hacc a rfl
    simp [boundsIn_cons, boundsIn_nil, this]
  | case6 => exact boundsIn_nil B

theorem boundsIn_union (B : V → Prop) (a b : Range V) (ha : BoundsIn B a) (hb : BoundsIn B b) :
    BoundsIn B (union a b) :=
  boundsIn_unionGo B none a b (by intro a h; cases h) ha hb

/-! ### images -/

/-- the list of bound values of a segment list -/
def bvals : Bound V → List V
  | .unb => []
  | .incl v => [v]
  | .excl v => [v]

def boundVals (r : Range V) : List V := r.flatMap fun seg => bvals seg.1 ++ bvals seg.2

theorem bIn_mapBound {V' : Type} [LinearOrder V'] (ι : V → V') (B : V' → Prop) (b : Bound V)
    (h : ∀ v ∈ bvals b, B (ι v)) : bIn B (mapBound ι b) := by
  cases b <;> simp_all [bvals]

theorem boundsIn_mapR {V' : Type} [LinearOrder V'] (ι : V → V') (B : V' → Prop) (r : Range V)
    (h : ∀ v ∈ boundVals r, B (ι v)) : BoundsIn B (mapR ι r) := by
  intro seg hseg
  simp only [mapR, List.mem_map] at hseg
  obtain ⟨s, hs, rfl⟩ := hseg
  constructor
  · apply bIn_mapBound
    intro v hv
    exact h v (List.mem_flatMap.2 ⟨s, hs, List.mem_append_left _ hv⟩)
  · apply bIn_mapBound
    intro v hv
    exact h v (List.mem_flatMap.2 ⟨s, hs, List.mem_append_right _ hv⟩)

/-! ### membership depends only on the comparison profile -/

/-- `d` and `d'` compare in the same way with every value satisfying `B` -/
def SameProfile (B : V → Prop) (d d' : V) : Prop :=
  ∀ b, B b → (d < b ↔ d' < b) ∧ (d = b ↔ d' = b)

theorem SameProfile.le {B : V → Prop} {d d' : V} (h : SameProfile B d d') (b : V) (hb : B b) :
    d ≤ b ↔ d' ≤ b := by
  obtain ⟨h1, h2⟩ := h b hb
  rw [le_iff_lt_or_eq, le_iff_lt_or_eq, h1, h2]

def belowLower (v : V) : Bound V → Bool
  | excl s => v ≤ s
  | incl s => v < s
  | unb => false

def belowUpper (v : V) : Bound V → Bool
  | unb => true
  | incl e => v ≤ e
  | excl e => v < e

theorem withinBounds_eq (v : V) (seg : Seg V) :
    withinBounds v seg =
      if belowLower v seg.1 then .lt else if belowUpper v seg.2 then .eq else .gt := by
  obtain ⟨s, e⟩ := seg
  cases s <;> cases e <;> rfl

theorem belowLower_profile (B : V → Prop) (d d' : V) (h : SameProfile B d d') (s : Bound V)
    (hs : bIn B s) : belowLower d s = belowLower d' s := by
  cases s with
  | unb => rfl
  | incl v => simp only [belowLower, (h v hs).1]
  | excl v => simp only [belowLower, h.le v hs]

theorem belowUpper_profile (B : V → Prop) (d d' : V) (h : SameProfile B d d') (s : Bound V)
    (hs : bIn B s) : belowUpper d s = belowUpper d' s := by
  cases s with
  | unb => rfl
  | incl v => simp only [belowUpper, h.le v hs]
  | excl v => simp only [belowUpper, (h v hs).1]

theorem withinBounds_profile (B : V → Prop) (d d' : V) (h : SameProfile B d d') (seg : Seg V)
    (hs : bIn B seg.1 ∧ bIn B seg.2) : withinBounds d seg = withinBounds d' seg := by
  rw [withinBounds_eq, withinBounds_eq, belowLower_profile B d d' h _ hs.1,
    belowUpper_profile B d d' h _ hs.2]

theorem contains_profile (B : V → Prop) (d d' : V) (h : SameProfile B d d') (r : Range V)
    (hr : BoundsIn B r) : contains r d = contains r d' := by
  induction r with
  | nil => rfl
  | cons s t ih =>
    rw [boundsIn_cons] at hr
    simp only [contains, List.any_cons] at ih ⊢
    rw [ih hr.2, withinBounds_profile B d d' h s hr.1]

end Range
end Pubgrub

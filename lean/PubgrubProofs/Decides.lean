/-
TARGET FILE: PubgrubProofs/Decides.lean
Properties C02 ("whether a solution is found never depends on the prioritize / choose_version strategy,
only on the registry") and C05 ("resolve returns Ok or NoSolution after a bounded number of provider
calls") in their final form: within `N` provider calls `resolve` RETURNS (the first final request of the
trace), and what it returns is decided by the registry alone: `Ok(sel)` with `sel` a solution when a
solution exists, `NoSolution` when none exists.
Ingredients, all proved: PubgrubProofs/Termination.lean (`run_rinvM`: no `outOfFuel` at any point of a
good run and final after the budget; `run_reachableWB`; `goodRunFrom_of_wellBehavedRun`; `rinvM_start`;
`resolve_terminates`), NoPanic.lean (`wellBehaved_outcomes`), OwnInvariant.lean (`solution_valid`),
StoreInvariant.lean (`noSolution_sound`), C13's `final_is_last` (Protocol*.lean: once final, always
final), and for the `Range` version RangeTermination.lean (`FiniteRegistry`, `FiniteRegistry.finiteWorld`,
`WellBehavedRun.image`, `after_image`), RangeAnyOrder.lean (`range_solution_valid`,
`range_noSolution_sound`, `range_outcomes`), HomSolver.lean.
`protocolError` is the model's reaction to an ill-typed answer (or to a `pick` answer that is not a maximal
queued package) — it stays as a third alternative; a Rust provider cannot produce it.
Proof idea for `resolve_returns`: take `N, fuel0` from `resolve_terminates`; the run is final after
`as`; let `k` be the least index with `(after start (as.take k)).2.isFinal` (exists, `k ≤ as.length`; use
`Nat.find` or a simple induction — the predicate is decidable since `isFinal` is a `Bool`); `as.take k` is
still a good run (`GoodRunFrom` only looks at prefixes), so `run_rinvM` gives "not `outOfFuel`" at `k` and
`run_reachableWB` gives `ReachableWB` at `k` or `protocolError`; then `wellBehaved_outcomes`,
`solution_valid`, `noSolution_sound` (via `c04_reachable_of_wb` to pass from `ReachableWB` to `Reachable`).
(All four targets proved; helpers `exists_least_true`, `GoodRunFrom.take`, `decidedBy_of_final` above them.)
-/
import PubgrubProofs.Termination
import PubgrubProofs.RangeTermination
import PubgrubProofs.OwnInvariant

set_option linter.unusedSectionVars false

namespace Pubgrub
open VersionSet

/-- the least index at which a Boolean predicate holds -/
theorem exists_least_true (p : Nat → Bool) : ∀ n, p n = true →
    ∃ k, k ≤ n ∧ p k = true ∧ ∀ j, j < k → p j = false := by
  intro n
  induction n using Nat.strong_induction_on with
  | _ n ih =>
    intro hn
    by_cases h : ∃ j, j < n ∧ p j = true
    · obtain ⟨j, hj, hpj⟩ := h
      obtain ⟨k, hk, h1, h2⟩ := ih j hj hpj
      exact ⟨k, by omega, h1, h2⟩
    · refine ⟨n, Nat.le_refl n, hn, ?_⟩
      intro j hj
      cases hp : p j with
      | false => rfl
      | true => exact absurd ⟨j, hj, hp⟩ h

section Lawful
variable {P S V M Pr E : Type} [DecidableEq P] [VersionSet S V] [DecidableEq S] [DecidableEq V]
  [LE Pr] [DecidableLE Pr] [LawfulVersionSet S V] [CanonicalEmpty S V]

/-- what `resolve` returned is what the registry decides -/
def DecidedBy (W : World P S V M) (root : P) (rv : V) (r : Request P S V M Pr E) : Prop :=
  (∃ sel, r = .solution sel ∧ IsSolution W root rv (fun p => SmallMap.get sel p)) ∨
  ((∃ t, r = .noSolution t) ∧ ¬ ∃ σ : P → Option V, IsSolution W root rv σ) ∨
  (∃ m, r = .protocolError m)


theorem GoodRunFrom.take {W : World P S V M} {x : SolverState P S V M Pr × Request P S V M Pr E}
    {as : List (Answer P S V M Pr E)} (h : GoodRunFrom W x as) (n : Nat) :
    GoodRunFrom W x (as.take n) := by
  intro k a hk hfin
  rw [List.getElem?_take] at hk
  split at hk
  · rename_i hkn
    have hmin : min k n = k := Nat.min_eq_left (Nat.le_of_lt hkn)
    rw [List.take_take, hmin] at hfin ⊢
    exact h k a hk hfin
  · cases hk

/-- classification of a final request reached by a good run without running out of fuel -/
theorem decidedBy_of_final (W : World P S V M) (hW : W.SetsValid) (root : P) (rv : V) (debug : Bool)
    (fuel : Nat) (x : SolverState P S V M Pr × Request P S V M Pr E)
    (hr : ReachableWB W debug fuel root rv x ∨ ∃ m, x.2 = .protocolError m)
    (hfin : x.2.isFinal = true) (hnf : x.2 ≠ .fault .outOfFuel) : DecidedBy W root rv x.2 := by
  rcases hr with hr | hm
  · obtain ⟨s, req⟩ := x
    rcases wellBehaved_outcomes W hW debug fuel root rv s req hr hfin with ⟨sel, h1⟩ | ⟨t, h1⟩ | h1 | h1
    · subst h1
      exact Or.inl ⟨sel, rfl, (solution_valid W hW debug fuel root rv s sel hr).1⟩
    · subst h1
      exact Or.inr (Or.inl ⟨⟨t, rfl⟩, noSolution_sound W hW debug fuel root rv s t
        (c04_reachable_of_wb W debug fuel root rv _ hr)⟩)
    · exact absurd h1 hnf
    · exact Or.inr (Or.inr h1)
  · exact Or.inr (Or.inr hm)

/-- C05 + C02: within `N` provider calls `resolve` returns, and the result is decided by the registry -/
theorem resolve_returns (W : World P S V M) (hW : W.SetsValid) (root : P) (rv : V)
    (fw : FiniteWorld W root rv) (debug : Bool) :
    ∃ N fuel0 : Nat, ∀ fuel, fuel0 ≤ fuel → ∀ as : List (Answer P S V M Pr E), N ≤ as.length →
      WellBehavedRun W debug fuel root rv as →
      ∃ k, k ≤ N ∧
        (Solver.after (Solver.start debug fuel root rv) (as.take k)).2.isFinal = true ∧
        (∀ j, j < k → (Solver.after (Solver.start debug fuel root rv) (as.take j)).2.isFinal = false) ∧
        DecidedBy W root rv (Solver.after (Solver.start debug fuel root rv) (as.take k)).2 := by
  refine ⟨Kc2 fw * Cmax fw + fw.pkgs.length + 6, 3 * Cmax fw + 3, ?_⟩
  intro fuel hfuel as hlen hrun
  have hgood := goodRunFrom_of_wellBehavedRun hrun
  have hstart := rinvM_start (Pr := Pr) (E := E) (M := M) fw debug fuel hfuel
  -- final after the first `N` answers
  have hN : (Solver.after (Solver.start debug fuel root rv)
      (as.take (Kc2 fw * Cmax fw + fw.pkgs.length + 6))).2.isFinal = true :=
    (run_rinvM fw hW debug fuel _ _ _ Reachable.start hstart (hgood.take _)).2
      (by rw [List.length_take]; omega)
  obtain ⟨k, hk, hfin, hmin⟩ := exists_least_true
    (fun k => (Solver.after (Solver.start debug fuel root rv) (as.take k)).2.isFinal) _ hN
  refine ⟨k, hk, hfin, hmin, ?_⟩
  have hgk := hgood.take k
  exact decidedBy_of_final W hW root rv debug fuel _
    (run_reachableWB W debug fuel root rv _ _ ReachableWB.start hgk) hfin
    (run_rinvM fw hW debug fuel _ _ _ Reachable.start hstart hgk).1

/-- C02, strategy independence: two well-behaved runs over the same registry — whatever their
strategies, tie-breakings, fuels, debug flags — cannot return one `Ok` and the other `NoSolution` -/
theorem strategy_independent (W : World P S V M) (hW : W.SetsValid) (root : P) (rv : V)
    (debug debug' : Bool) (fuel fuel' : Nat) (s s' : SolverState P S V M Pr) (sel : List (P × V))
    (t : DerivationTree P S V M)
    (h : ReachableWB (E := E) W debug fuel root rv (s, .solution sel))
    (h' : ReachableWB (E := E) W debug' fuel' root rv (s', .noSolution t)) : False := by
  have h1 := (solution_valid W hW debug fuel root rv s sel h).1
  exact noSolution_sound W hW debug' fuel' root rv s' t (c04_reachable_of_wb W debug' fuel' root rv _ h')
    ⟨_, h1⟩

end Lawful

section AnyOrder
variable {P V M Pr E : Type} [DecidableEq P] [LinearOrder V] [LE Pr] [DecidableLE Pr]

/-- the same for `Range` over any linear order and a finite registry -/
theorem range_resolve_returns (W : World P (Range V) V M) (hW : W.RangesWF) (root : P) (rv : V)
    (fr : FiniteRegistry W root) (debug : Bool) :
    ∃ N fuel0 : Nat, ∀ fuel, fuel0 ≤ fuel → ∀ as : List (Answer P (Range V) V M Pr E), N ≤ as.length →
      WellBehavedRun W debug fuel root rv as →
      ∃ k, k ≤ N ∧
        (Solver.after (Solver.start debug fuel root rv) (as.take k)).2.isFinal = true ∧
        (∀ j, j < k → (Solver.after (Solver.start debug fuel root rv) (as.take j)).2.isFinal = false) ∧
        ((∃ sel, (Solver.after (Solver.start debug fuel root rv) (as.take k)).2 = .solution sel ∧
            IsSolution W root rv (fun p => SmallMap.get sel p)) ∨
         ((∃ t, (Solver.after (Solver.start debug fuel root rv) (as.take k)).2 = .noSolution t) ∧
            ¬ ∃ σ : P → Option V, IsSolution W root rv σ) ∨
         (∃ m, (Solver.after (Solver.start debug fuel root rv) (as.take k)).2 = .protocolError m)) := by
  have : Nonempty V := ⟨rv⟩
  have hW' := World.setsValid_mapH W hW
  obtain ⟨N, fuel0, hN⟩ := resolve_returns (Pr := Pr) (E := E) _ hW' root (Range.denseHom.ι rv)
    (fr.finiteWorld W hW root rv) debug
  refine ⟨N, fuel0, ?_⟩
  intro fuel hfuel as hlen hwb
  obtain ⟨k, hk, hfin, hmin, hdec⟩ := hN fuel hfuel (as.map (Answer.mapH Range.denseHom))
    (by simpa using hlen) (WellBehavedRun.image W debug fuel root rv as hwb)
  simp only [← List.map_take, after_image, isFinal_mapH] at hfin hmin hdec
  refine ⟨k, hk, hfin, hmin, ?_⟩
  generalize (Solver.after (Solver.start debug fuel root rv) (as.take k)).2 = r at hdec ⊢
  rcases hdec with ⟨sel', hs, hsol⟩ | ⟨⟨t', ht⟩, hno⟩ | ⟨m, hm⟩
  · obtain ⟨sel, rfl⟩ := Request.mapH_solution _ _ _ hs
    have he : sel' = sel.map fun kv => (kv.1, Range.denseHom.ι kv.2) := by
      simp only [Request.mapH, Request.solution.injEq] at hs
      exact hs.symm
    subst he
    have hfun : (fun p => SmallMap.get (sel.map fun kv => (kv.1, Range.denseHom.ι kv.2)) p) =
        fun p => (SmallMap.get sel p).map Range.denseHom.ι := by
      funext p; exact SmallMap.get_mapVals _ sel p
    rw [hfun] at hsol
    exact Or.inl ⟨sel, rfl, IsSolution.pull Range.denseHom Dense.back Dense.back_ι W root rv _ hsol⟩
  · refine Or.inr (Or.inl ⟨Request.mapH_noSolution _ _ _ ht, ?_⟩)
    rintro ⟨σ, hσ⟩
    exact hno ⟨_, IsSolution.push Range.denseHom Dense.back Dense.back_ι W root rv σ hσ⟩
  · exact Or.inr (Or.inr ⟨m, Request.mapH_protocolError _ _ _ hm⟩)

theorem range_strategy_independent (W : World P (Range V) V M) (hW : W.RangesWF) (root : P) (rv : V)
    (debug debug' : Bool) (fuel fuel' : Nat) (s s' : SolverState P (Range V) V M Pr) (sel : List (P × V))
    (t : DerivationTree P (Range V) V M)
    (h : ReachableWB (E := E) W debug fuel root rv (s, .solution sel))
    (h' : ReachableWB (E := E) W debug' fuel' root rv (s', .noSolution t)) : False := by
  have h1 := (range_solution_valid W hW debug fuel root rv s sel h).1
  have : Nonempty V := ⟨rv⟩
  have hr' := reachable_of_wb _ debug' fuel' root _ _
    (range_reachableWB_image W debug' fuel' root rv s' _ h')
  exact noSolution_sound _ (World.setsValid_mapH W hW) debug' fuel' root _ _ _ hr'
    ⟨_, IsSolution.push Range.denseHom Dense.back Dense.back_ι W root rv _ h1⟩

end AnyOrder
end Pubgrub

/-
Property C05 — resolve terminates with Ok or NoSolution; no panic, no internal Failure.

The model makes every `panic!` / `unwrap` / `expect` / `unreachable!` / out-of-bounds index of the
modelled Rust an explicit outcome `fault (panic site)`, both `Failure`s explicit outcomes, and the
exhaustion of the model's fuel the outcome `fault outOfFuel`.

Proved so far (every world, every consistent answer sequence, any strategy):
* the partial solution is well-formed in every reachable state (`C05_ps_wf`: the decided prefix, levels,
  indices — this is what the `IndexMap` prefix trick, `swap_indices`, `get_range` rely on);
* at the pop of the queue none of the following can happen: `extract_solution` panicking on
  "Derivations in the Decision part", `unwrap_positive` panicking on a negative term, the Failure
  "a package was chosen but we don't have a term." (`C05_no_fault_at_pick`);
* a provider error is reported only when a callback failed, and `Failure(incompatible version)` only
  after an out-of-set answer (C13's theorems).
Open: (1) the panic sites inside the satisfier search / conflict resolution / backtrack (need the
backjump argument; in progress, see DESIGN.md); (2) **termination**: the model is fuelled, all theorems
hold for every fuel, and "a bounded number of provider calls" is not proved — covered by the mirrored
runs only (call budget 50 000, as in the repository's own tests).
-/
import PubgrubProofs.PSInvariant

namespace Pubgrub.C05
open Pubgrub

variable {P S V M Pr E : Type} [DecidableEq P] [VersionSet S V] [DecidableEq S] [DecidableEq V]
  [LE Pr] [DecidableLE Pr] [LawfulVersionSet S V]

theorem C05_ps_wf (W : World P S V M) (hW : W.SetsValid) (debug : Bool) (fuel : Nat)
    (root : P) (rv : V) (x : SolverState P S V M Pr × Request P S V M Pr E)
    (h : Reachable W debug fuel root rv x) (hph : x.2.isFinal = false) : x.1.st.ps.WF :=
  reachable_psWF W hW debug fuel root rv x h hph

theorem C05_no_fault_at_pick_partial (W : World P S V M) (hW : W.SetsValid) (debug : Bool) (fuel : Nat)
    (root : P) (rv : V) (s : SolverState P S V M Pr) (q : List (P × Pr)) (o : Option P)
    (h : Reachable (E := E) W debug fuel root rv (s, .pick q)) :
    (Solver.step (E := E) s (.picked o)).2 ≠ .fault (.panic "Derivations in the Decision part") ∧
    (Solver.step (E := E) s (.picked o)).2 ≠ .fault (.panic "Negative term cannot unwrap positive set") ∧
    (Solver.step (E := E) s (.picked o)).2 ≠ .failure "a package was chosen but we don't have a term." :=
  no_fault_at_pick W hW debug fuel root rv s q o h

end Pubgrub.C05

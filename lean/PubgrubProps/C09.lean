/-
Property C09 — collapse_no_versions keeps the explanation true of the existing versions.

Theorems about the model `DerivationTree.collapseNoVersions` (PubgrubModel/Report.lean), over the
universe of existing versions `W.Exists`.  Hypotheses on the input tree: derived nodes follow from their
causes over existing versions (`Sound`), leaves true of the provider (`LeavesTrueExisting`, implied by
C03's leaf truth), valid sets, and `ResolutionShaped` (every derived node is shaped like a resolvent:
a pivot package occurs in both causes and the node's packages are among its causes' packages) — which
is what trees built from resolution steps satisfy.  Without that shape the statement is FALSE of the
code (machine-checked counterexample in PubgrubProofs/CollapseSound.lean: a `NoVersions` leaf about an
unrelated package next to a derived node that collapses to a dependency leaf gets merged into the wrong
side): `merge_no_versions` assumes the `NoVersions` package is one of the two packages of the
dependency.  Such trees are not produced by `resolve` (see below) nor by sound resolution steps.

`C09_on_resolve_trees` closes the chain for the trees `resolve` returns (they satisfy all four
hypotheses, by the store invariant: derived terms are `priorCause` results).
"Never panics on a tree produced by resolve": `C09_no_panic_unless_noVersions_beside_notRoot` (the only
panic site of `collapse_no_versions` is a `NoVersions` leaf next to a `NotRoot` leaf) and
`C09_no_panic_on_resolve_trees` (resolve never produces such a pair: a run-level invariant of the store,
PubgrubProofs/CollapseNoPanic*.lean); for `Range` over any linear order: `C09_range_no_panic_on_resolve_trees`.
-/
import PubgrubProofs.CollapseSound
import PubgrubProofs.TreeLink
import PubgrubProofs.CollapseNoPanic
import PubgrubProofs.RangeAnyOrder2
import PubgrubProofs.ReportCollapsed
import PubgrubProofs.Examples

namespace Pubgrub.C09
open Pubgrub

variable {P S V M : Type} [DecidableEq P] [VersionSet S V] [DecidableEq S] [LawfulVersionSet S V]

/-- after collapse: derived nodes still entailed by their causes, remaining leaves true of the
provider, the new top implied by the old one (all over the existing versions), `NoVersions` leaves
survive only next to a `NoVersions` / `Custom` leaf -/
theorem C09_collapse_sound (W : World P S V M) (root : P) (rv : V) (t : DerivationTree P S V M)
    (hs : t.Sound W.Exists) (hl : t.LeavesTrueExisting W root rv)
    (hv : ∀ e ∈ t.externals, e.SetsValid) (hr : t.ResolutionShaped)
    (t' : DerivationTree P S V M) (h : t.collapseNoVersions = .ok t') :
    t'.Sound W.Exists ∧ t'.LeavesTrueExisting W root rv ∧
      Entails W.Exists [t'.terms] t.terms ∧ t'.NoVersionsOnlyBesideLeaf ∧
      (∀ e ∈ t'.externals, e.SetsValid) :=
  collapse_sound_of_resolutionShaped W root rv t hs hl hv hr t' h

/-- the top node still forbids the root -/
theorem C09_top_forbids_root (W : World P S V M) (root : P) (rv : V) (t : DerivationTree P S V M)
    (hs : t.Sound W.Exists) (hl : t.LeavesTrueExisting W root rv)
    (hv : ∀ e ∈ t.externals, e.SetsValid) (hr : t.ResolutionShaped)
    (htop : ∀ σ : P → Option V, σ root = some rv → TermsTrue σ t.terms)
    (t' : DerivationTree P S V M) (h : t.collapseNoVersions = .ok t')
    (σ : P → Option V) (hw : Within W.Exists σ) (hσ : σ root = some rv) : TermsTrue σ t'.terms :=
  collapse_top_forbids_root_of_resolutionShaped W root rv t hs hl hv hr htop t' h σ hw hσ

/-- a tree without 'no versions' leaves is returned unchanged -/
theorem C09_identity (t : DerivationTree P S V M)
    (h : ∀ e ∈ t.externals, ∀ p s, e ≠ .noVersions p s) : t.collapseNoVersions = .ok t :=
  collapse_identity t h

/-- the only panic is a `NoVersions` leaf next to a `NotRoot` leaf -/
theorem C09_no_panic_unless_noVersions_beside_notRoot (t : DerivationTree P S V M) (h : ¬ t.NoVersionsBesideNotRoot) :
    ∃ t', t.collapseNoVersions = .ok t' :=
  collapse_no_panic_partial t h

/-- C03's leaf truth implies the existing-versions reading used here -/
theorem C09_leaf_truth_link (W : World P S V M) (root : P) (rv : V) (e : External P S V M)
    (h : e.TrueIn W root rv) : e.TrueInExisting W root rv :=
  External.trueInExisting_of_trueIn W root rv e h

/-- C09 for every tree carried by a `NoSolution` result of `resolve` (any world, any consistent
answers): if `collapse_no_versions` returns, the explanation is still true of the existing versions,
the top still forbids the root, and `NoVersions` leaves survive only next to `NoVersions` / `Custom` -/
theorem C09_on_resolve_trees {Pr E : Type} [DecidableEq V] [LE Pr] [DecidableLE Pr]
    (W : World P S V M) (hW : W.SetsValid) (debug : Bool) (fuel : Nat)
    (root : P) (rv : V) (s : SolverState P S V M Pr) (tree : DerivationTree P S V M)
    (h : Reachable (E := E) W debug fuel root rv (s, .noSolution tree))
    (t' : DerivationTree P S V M) (hc : tree.collapseNoVersions = .ok t') :
    t'.Sound W.Exists ∧ t'.LeavesTrueExisting W root rv ∧ t'.NoVersionsOnlyBesideLeaf ∧
      (∀ σ : P → Option V, Within W.Exists σ → σ root = some rv → TermsTrue σ t'.terms) :=
  noSolution_collapse_sound W hW debug fuel root rv s tree h t' hc

/-- C09, last clause: `collapse_no_versions` never panics on a tree produced by `resolve` (the only
panic site — a `NoVersions` leaf beside a `NotRoot` leaf — is unreachable: a `NoVersions` clause about
the root contains the requested version, hence is terminal before it could be resolved with clause 0) -/
theorem C09_no_panic_on_resolve_trees {Pr E : Type} [DecidableEq V] [DecidableEq S] [LE Pr] [DecidableLE Pr]
    [LawfulVersionSet S V] [CanonicalEmpty S V]
    (W : World P S V M) (hW : W.SetsValid) (debug : Bool) (fuel : Nat)
    (root : P) (rv : V) (s : SolverState P S V M Pr) (tree : DerivationTree P S V M)
    (h : Reachable (E := E) W debug fuel root rv (s, .noSolution tree)) :
    ∃ t', tree.collapseNoVersions = .ok t' :=
  noSolution_collapse_no_panic W hW debug fuel root rv s tree h

/-! ### `Range V` over ANY linear order (second batch of pull-backs, RangeAnyOrder2) -/
section AnyOrder2
variable {P V M Pr E : Type} [DecidableEq P] [LinearOrder V] [LE Pr] [DecidableLE Pr]

theorem C09_range_on_resolve_trees
    (W : World P (Range V) V M) (hW : W.RangesWF) (debug : Bool) (fuel : Nat)
    (root : P) (rv : V) (s : SolverState P (Range V) V M Pr) (tree : DerivationTree P (Range V) V M)
    (h : Reachable (E := E) W debug fuel root rv (s, .noSolution tree))
    (t' : DerivationTree P (Range V) V M) (hc : tree.collapseNoVersions = .ok t') :
    t'.Sound W.Exists ∧ t'.LeavesTrueExisting W root rv ∧ t'.NoVersionsOnlyBesideLeaf ∧
      (∀ σ : P → Option V, Within W.Exists σ → σ root = some rv → TermsTrue σ t'.terms) :=
  by apply range_C09_on_resolve_trees (P := P) (V := V) (M := M) (Pr := Pr) (E := E) <;> assumption

end AnyOrder2

section NoPanicAnyOrder
variable {P V M Pr E : Type} [DecidableEq P] [LinearOrder V] [LE Pr] [DecidableLE Pr]

theorem C09_range_no_panic_on_resolve_trees (W : World P (Range V) V M) (hW : W.RangesWF) (debug : Bool)
    (fuel : Nat) (root : P) (rv : V) (s : SolverState P (Range V) V M Pr)
    (tree : DerivationTree P (Range V) V M)
    (h : Reachable (E := E) W debug fuel root rv (s, .noSolution tree)) :
    ∃ t', tree.collapseNoVersions = .ok t' :=
  range_collapse_no_panic W hW debug fuel root rv s tree h

end NoPanicAnyOrder

/-! Non-vacuity on concrete runs (PubgrubProofs/Examples.lean, evaluated by `decide +kernel`; registered in
obligations.json so that their axioms are audited too): `Examples.example_B_collapse_no_panic`. -/

end Pubgrub.C09

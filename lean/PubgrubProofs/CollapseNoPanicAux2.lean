/-
Helpers for `CollapseNoPanic.lean`, part 2: the term of the root package, a derivation keeps the
root's terms inside `{rv}`, and conflict resolution never resolves a `noVersions` clause against a
`notRoot` clause.
-/
import PubgrubProofs.CollapseNoPanicAux1

set_option linter.unusedSectionVars false
set_option linter.unusedVariables false

namespace Pubgrub
open VersionSet

section
variable {P S V M Pr : Type} [DecidableEq P] [VersionSet S V] [DecidableEq S] [LawfulVersionSet S V]

theorem Kind.isNoVersionsK_elim {k : Kind P S V M} (h : k.isNoVersionsK = true) :
    ∃ p s, k = .noVersions p s := by
  cases k <;> simp [Kind.isNoVersionsK] at h
  exact ⟨_, _, rfl⟩

theorem Kind.isNotRootK_elim {k : Kind P S V M} (h : k.isNotRootK = true) :
    ∃ p v, k = .notRoot p v := by
  cases k <;> simp [Kind.isNotRootK] at h
  exact ⟨_, _, rfl⟩

/-- the shape of a stored `noVersions` clause -/
theorem Incompat.Good.terms_noVersions {W : World P S V M} {root : P} {rv : V}
    {store : List (Incompat P S V M)} {id : Nat} {i : Incompat P S V M} (g : i.Good W root rv store id)
    {p : P} {s : S} (hk : i.kind = .noVersions p s) : i.terms = [(p, Term.pos s)] := by
  have gk := g.kind
  unfold Incompat.KindTrue at gk
  rw [hk] at gk
  exact gk.2

/-- the shape of a stored `notRoot` clause -/
theorem Incompat.Good.terms_notRoot {W : World P S V M} {root : P} {rv : V}
    {store : List (Incompat P S V M)} {id : Nat} {i : Incompat P S V M} (g : i.Good W root rv store id)
    {p : P} {v : V} (hk : i.kind = .notRoot p v) :
    i.terms = [(root, Term.neg (VersionSet.singleton rv))] := by
  have gk := g.kind
  unfold Incompat.KindTrue at gk
  rw [hk] at gk
  obtain ⟨rfl, rfl, h⟩ := gk
  exact h

theorem Incompat.key_of_get_singleton {i : Incompat P S V M} {q : P} {t : Term S}
    (ht : i.terms = [(q, t)]) {p : P} (h : (i.get p).isSome = true) : p = q := by
  unfold Incompat.get at h
  rw [ht] at h
  simp only [SmallMap.get] at h
  by_cases e : p = q
  · exact e
  · rw [if_neg e] at h; cases h

/-! ### the root package in the partial solution -/

/-- a non-empty partial solution contains the root package (it is its first entry) -/
theorem root_getPA_of_nonempty {root : P} {rv : V} {st : State P S V M Pr} (hp : PInv st)
    (ht : TInv root rv st) (hne : st.ps.assignments ≠ []) : ∃ pa, st.ps.getPA root = some pa := by
  cases hasg : st.ps.assignments with
  | nil => exact absurd hasg hne
  | cons x rest =>
    obtain ⟨p0, pa0⟩ := x
    have hm : (p0, pa0) ∈ st.ps.assignments := by rw [hasg]; exact List.mem_cons_self
    have h0 : st.ps.assignments[0]? = some (p0, pa0) := by rw [hasg]; rfl
    have hwf := hp.wf.wf.entries 0 p0 pa0 h0
    have hroot : p0 = root := by
      by_cases hdl : st.ps.currentDecisionLevel = 0
      · exact ((ht.rootinv.lvl0 hdl).2.2 (p0, pa0) hm).1
      · obtain ⟨g, v, h1, h2, _⟩ := hwf.decided (Nat.pos_of_ne_zero hdl)
        exact (ht.rootinv.first p0 pa0 hm g v _ h1 (by omega)).1
    subst hroot
    refine ⟨pa0, ?_⟩
    unfold PartialSolution.getPA
    rw [hasg]; simp [SmallMap.get]

/-- the current term of the root package is inside `{rv}` -/
theorem root_term_imp {root : P} {rv : V} {st : State P S V M Pr} (hp : PInv st) (ht : TInv root rv st)
    (hrw : st.ps.RW root rv) {pa : PackageAssignments S V}
    (hpa : st.ps.getPA root = some pa) : pa.inter.term.Imp (Term.exact rv : Term S) := by
  have hm := SmallMap.mem_of_get hpa
  obtain ⟨i, hi, hwfat, hwfx⟩ := hp.wf.entry_of_mem hm
  obtain ⟨f, hf, _⟩ := hwfx.head
  have hfm : f ∈ pa.dated := List.mem_of_mem_head? hf
  exact Term.Imp.trans (PackageAssignments.term_imp_dated hwfat (ht.shrink _ hm) hfm)
      (hrw root pa hm rfl f hfm)

/-- the current term of the root package is a positive set inside `{rv}` that contains `rv` -/
theorem root_term {root : P} {rv : V} {st : State P S V M Pr} (hp : PInv st) (ht : TInv root rv st)
    (hne : st.ps.NE) (hrw : st.ps.RW root rv) {pa : PackageAssignments S V}
    (hpa : st.ps.getPA root = some pa) : ∃ s, pa.inter.term = .pos s ∧ contains s rv = true := by
  have hm := SmallMap.mem_of_get hpa
  have himp := root_term_imp hp ht hrw hpa
  have hinh := (hne root pa hm).1
  cases hterm : pa.inter.term with
  | pos s =>
    rw [hterm] at hinh himp
    obtain ⟨v, hv⟩ := hinh
    have := himp (some v) hv
    rw [Term.eval_exact] at this
    injection this with this; subst this
    exact ⟨s, rfl, hv⟩
  | neg s =>
    rw [hterm] at himp
    have := himp none rfl
    rw [Term.eval_exact] at this; cases this

namespace State

/-- a derivation keeps the accumulated terms of the root inside `{rv}`: a later derivation of the root
intersects its current term; the first one comes from the `notRoot` clause -/
theorem addDerivation_rw (W : World P S V M) (root : P) (rv : V) {st : State P S V M Pr}
    (hs : SInv W root rv st) (hp : PInv st) (ht : TInv root rv st) (hrw : st.ps.RW root rv)
    {p : P} {id : Nat} {ps' : PartialSolution P S V Pr}
    (hr : st.ps.addDerivation p id st.store = .ok ps') : ps'.RW root rv := by
  obtain ⟨inc, t, hinc, hget, hcase⟩ := PartialSolution.addDerivation_spec hr
  have htv : t.Valid := Incompat.get_valid W root rv hs.store hinc hget
  rcases hcase with ⟨idx, pa, t0, hidx, hpa, ht0, rfl⟩ | ⟨hpa, rfl⟩
  · have hm := SmallMap.mem_of_get hpa
    apply PartialSolution.rw_set hrw
    intro hroot dd hdd
    simp only at hroot
    simp only [List.mem_append, List.mem_singleton] at hdd
    rcases hdd with hdd | rfl
    · exact hrw p pa hm hroot dd hdd
    · simp only
      subst hroot
      have h0 := root_term_imp hp ht hrw hpa
      rw [ht0] at h0
      have hov : t0.Valid := by
        have := (hs.ps _ hm).inter
        rw [ht0] at this; exact this
      exact Term.Imp.trans (Term.inter_imp_left hov (Term.valid_negate t htv)) h0
  · intro q qa hkv hroot
    simp only [List.mem_append, List.mem_singleton] at hkv
    rcases hkv with hkv | hkv
    · exact hrw q qa hkv hroot
    · injection hkv with e1 e2; subst e1; subst e2; subst hroot
      have hempty : st.ps.assignments = [] := by
        cases hasg : st.ps.assignments with
        | nil => rfl
        | cons x rest =>
          obtain ⟨pa, hpa'⟩ := root_getPA_of_nonempty hp ht (by rw [hasg]; exact List.cons_ne_nil _ _)
          rw [hpa] at hpa'; cases hpa'
      have hstore := ht.rootinv.empty hempty
      rw [hstore] at hinc
      cases id with
      | succ k => simp at hinc
      | zero =>
        simp only [List.getElem?_cons_zero, Option.some.injEq] at hinc
        subst hinc
        simp only [Incompat.get, Incompat.notRoot, SmallMap.get, if_true, Option.some.injEq] at hget
        subst hget
        intro dd hdd
        simp only [List.mem_singleton] at hdd
        subst hdd
        exact Term.Imp.refl _

end State

end
end Pubgrub

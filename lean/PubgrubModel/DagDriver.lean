/-
Driver side of `dag|<shape>|<top>`: `build_derivation_tree` on a synthetic store (the hook
`pubgrub::verif::derivation_tree_of_dag`): incompatibility `i + 1` is `NoVersions("p0", {i})` for the shape
entry `x`, the prior cause on `"p0"` of the entries `a + 1`, `b + 1` for the entry `a,b`.
-/
import PubgrubModel.SolveDriver

namespace Pubgrub.DagDriver
open Pubgrub Pubgrub.SolveDriver

abbrev St := State Pk (Range Nat) Nat String Nat

def addEntry (st : St) (i : Nat) (e : String) : Option St :=
  if e == "x" then
    match Incompat.noVersions (V := Nat) (M := String) "p0" (Term.pos (VersionSet.singleton i : Range Nat)) with
    | .ok inc => some { st with store := st.store ++ [inc] }
    | .error _ => none
  else
    match e.splitOn "," with
    | [a, b] =>
      match a.toNat?, b.toNat? with
      | some a, some b =>
        match st.store[a + 1]?, st.store[b + 1]? with
        | some ia, some ib =>
          match Incompat.priorCause (a + 1) (b + 1) ia ib "p0" with
          | .ok inc => some { st with store := st.store ++ [inc] }
          | .error _ => none
        | _, _ => none
      | _, _ => none
    | _ => none

def build : St → Nat → List String → Option St
  | st, _, [] => some st
  | st, i, e :: es =>
    match addEntry st i e with
    | some st' => build st' (i + 1) es
    | none => none

/-- `dag|x;x;0,1;2,0|3` -/
def dag (shape : String) (top : Nat) : String :=
  let st0 : St := State.init false "root" 1
  match build st0 0 ((shape.splitOn ";").filter (· ≠ "")) with
  | none => "bad-op"
  | some st =>
    match st.buildDerivationTree (top + 1) with
    | .ok t => treeSexp rangeIO t
    | .error (.panic m) => "panic:" ++ m
    | .error .outOfFuel => "out-of-fuel"

end Pubgrub.DagDriver

/-
Helpers for `PSInvariant.lean`, part 6: `State.backtrack`, `conflictResolution`, `propagateIncompats`
and `unitPropagationLoop` preserve I-PS, and I-Q from a settled state.
-/
import PubgrubProofs.PSInvariantAux5

set_option linter.unusedSectionVars false
set_option linter.unusedVariables false

namespace Pubgrub
open VersionSet

section PS
variable {P S V M Pr : Type} [DecidableEq P] [VersionSet S V] [DecidableEq S]
  [LawfulVersionSet S V]

namespace State

theorem backtrack_pinv {st st' : State P S V M Pr} {incompat : Nat} {changed : Bool} {dl : Nat}
    (h : PInv st) (hdl : dl ≤ st.ps.currentDecisionLevel)
    (hr : st.backtrack incompat changed dl = .ok st') : PInv st' ∧ st'.ps.QInv none := by
  unfold State.backtrack at hr
  simp only [bind, Except.bind, pure, Except.pure] at hr
  split at hr
  · cases hr
  rename_i ps hps
  have hw := (PartialSolution.backtrack_wf' h.wf hdl hps).1
  have hq := PartialSolution.backtrack_qInv h.wf hdl hps
  have h1 : PInv ({ st with ps := ps, contradicted := SmallMap.retainVals st.contradicted (fun l => l ≤ dl) } :
      State P S V M Pr) := by
    refine ⟨hw, ?_⟩
    intro kv hkv
    exact h.cache kv (List.mem_filter.1 hkv).1
  split at hr
  · obtain ⟨h2, e⟩ := mergeIncompatibility_pinv hr h1
    exact ⟨h2, e ▸ hq⟩
  · injection hr with hr; subst hr; exact ⟨h1, hq⟩

theorem conflictResolution_pinv :
    ∀ (fuel : Nat) (st : State P S V M Pr) (cur : Nat) (changed : Bool)
      {st' : State P S V M Pr} {r : Except Nat (P × Nat)},
    conflictResolution fuel st cur changed = .ok (st', r) → PInv st →
    PInv st' ∧ ∀ x, r = .ok x → st'.ps.QInv none := by
  intro fuel
  induction fuel with
  | zero => intro st cur changed st' r hr; simp [conflictResolution] at hr
  | succ fuel ih =>
    intro st cur changed st' r hr h
    unfold conflictResolution at hr
    simp only [bind, Except.bind, pure, Except.pure] at hr
    split at hr
    · cases hr
    rename_i inc hinc
    split at hr
    · injection hr with hr; injection hr with h1 h2; subst h1; subst h2
      exact ⟨h, fun x hx => by cases hx⟩
    · split at hr
      · cases hr
      rename_i ps hss
      split at hr
      · rename_i prev hsearch
        split at hr
        · cases hr
        rename_i st1 hb
        injection hr with hr; injection hr with h1 h2; subst h1; subst h2
        have hlev : prev ≤ st.ps.currentDecisionLevel := by
          apply PartialSolution.satisfierSearch_level h.wf (inc := inc) (store := st.store) (pkg := ps.1)
          rw [hss]
          obtain ⟨a, b⟩ := ps
          simp only at hsearch
          rw [hsearch]
        obtain ⟨h1, h2⟩ := backtrack_pinv h hlev hb
        exact ⟨h1, fun _ _ => h2⟩
      · split at hr
        · cases hr
        split at hr
        · cases hr
        refine ih _ _ _ hr ⟨h.wf, ?_⟩
        intro kv hkv
        simp only [List.length_append, List.length_singleton]
        exact Nat.lt_succ_of_lt (h.cache kv hkv)

theorem propagateIncompats_pinv {o : Option P} :
    ∀ (ids : List Nat) (st : State P S V M Pr) {st' : State P S V M Pr} {r : Option Nat},
    propagateIncompats st ids = .ok (st', r) → PInv st →
    PInv st' ∧ (st.ps.QInv o → st'.ps.QInv o) := by
  intro ids
  induction ids with
  | nil =>
    intro st st' r hr h
    simp only [propagateIncompats] at hr
    injection hr with hr; injection hr with h1 h2; subst h1; exact ⟨h, fun x => x⟩
  | cons id rest ih =>
    intro st st' r hr h
    unfold propagateIncompats at hr
    split at hr
    · exact ih _ hr h
    split at hr
    · cases hr
    rename_i inc hinc
    have hid := storeGet_lt hinc
    split at hr
    · injection hr with hr; injection hr with h1 h2; subst h1; exact ⟨h, fun x => x⟩
    · split at hr
      · cases hr
      rename_i ps hps
      obtain ⟨h1, h2⟩ := ih _ hr ⟨PartialSolution.addDerivation_wf' h.wf hps, by
        intro kv hkv
        rcases SmallMap.mem_insert_sub hkv with rfl | hkv
        · exact hid
        · exact h.cache kv hkv⟩
      exact ⟨h1, fun hq => h2 (PartialSolution.addDerivation_qInv h.wf hq hps)⟩
    · obtain ⟨h1, h2⟩ := ih _ hr ⟨h.wf, by
        intro kv hkv
        rcases SmallMap.mem_insert_sub hkv with rfl | hkv
        · exact hid
        · exact h.cache kv hkv⟩
      exact ⟨h1, h2⟩
    · exact ih _ hr h

theorem unitPropagationLoop_pinv :
    ∀ (fuel : Nat) (st : State P S V M Pr) {st' : State P S V M Pr} {r : Option Nat},
    unitPropagationLoop fuel st = .ok (st', r) → PInv st →
    PInv st' ∧ (r = none → st.ps.QInv none → st'.ps.QInv none) := by
  intro fuel
  induction fuel with
  | zero => intro st st' r hr; simp [unitPropagationLoop] at hr
  | succ fuel ih =>
    intro st st' r hr h
    unfold unitPropagationLoop at hr
    split at hr
    · injection hr with hr; injection hr with h1 h2; subst h1; subst h2
      exact ⟨h, fun _ => id⟩
    simp only at hr
    split at hr
    · cases hr
    have h0 : PInv ({ st with buffer := st.buffer.dropLast } : State P S V M Pr) := ⟨h.wf, h.cache⟩
    split at hr
    · cases hr
    · rename_i st1 hp
      obtain ⟨h1, hq1⟩ := propagateIncompats_pinv (o := none) _ _ hp h0
      obtain ⟨h2, h3⟩ := ih _ hr h1
      exact ⟨h2, fun hr' hq => h3 hr' (hq1 hq)⟩
    · rename_i st1 conflictId hp
      have h1 := (propagateIncompats_pinv (o := none) _ _ hp h0).1
      split at hr
      · cases hr
      · rename_i st2 terminal hc
        injection hr with hr; injection hr with e1 e2; subst e1; subst e2
        exact ⟨(conflictResolution_pinv _ _ _ _ hc h1).1, fun hh => by cases hh⟩
      · rename_i st2 packageAlmost rootCause hc
        obtain ⟨h2, hq2⟩ := conflictResolution_pinv _ _ _ _ hc h1
        split at hr
        · cases hr
        rename_i ps hps
        obtain ⟨h3, h4⟩ := ih _ hr ⟨PartialSolution.addDerivation_wf' h2.wf hps, by
          intro kv hkv
          rcases SmallMap.mem_insert_sub hkv with rfl | hkv
          · obtain ⟨inc, t, hi, _⟩ := PartialSolution.addDerivation_spec hps
            exact (List.getElem?_eq_some_iff.1 hi).1
          · exact h2.cache kv hkv⟩
        exact ⟨h3, fun hr' _ => h4 hr' (PartialSolution.addDerivation_qInv h2.wf (hq2 _ rfl) hps)⟩

end State
end PS
end Pubgrub

/-
Helpers for `OwnInvariant.lean`, part 2: how the terms of the partial solution at each level
(`termsAt`) change under `addDerivation`, `addDecision` and `backtrack`.
-/
import PubgrubProofs.OwnInvariantAux1

set_option linter.unusedSectionVars false
set_option linter.unusedVariables false

namespace Pubgrub
open VersionSet

theorem SmallMap.get_filterMap {K T : Type} [DecidableEq K] (g : K × T → Option (K × T))
    (hg : ∀ x y, g x = some y → y.1 = x.1) :
    ∀ (m : SmallMap K T), SmallMap.NoDupKeys m → ∀ k : K,
      SmallMap.get (m.filterMap g) k = (SmallMap.get m k).bind (fun v => (g (k, v)).map Prod.snd) := by
  intro m
  induction m with
  | nil => intro _ k; rfl
  | cons x m ih =>
    intro hn k
    obtain ⟨a, b⟩ := x
    rw [SmallMap.nodup_cons] at hn
    rw [List.filterMap_cons]
    by_cases hk : k = a
    · subst hk
      have hnone : SmallMap.get m k = none := by
        rw [SmallMap.get_eq_none_iff]; exact hn.1
      simp only [SmallMap.get, if_true, Option.bind_some]
      cases hgx : g (k, b) with
      | none =>
        simp only [Option.map_none]
        rw [ih hn.2 k, hnone]; rfl
      | some y =>
        have := hg _ _ hgx
        obtain ⟨y1, y2⟩ := y
        simp only at this; subst this
        simp [SmallMap.get]
    · cases hgx : g (a, b) with
      | none =>
        simp only [SmallMap.get, if_neg hk]
        exact ih hn.2 k
      | some y =>
        have := hg _ _ hgx
        obtain ⟨y1, y2⟩ := y
        simp only at this; subst this
        simp only [SmallMap.get, if_neg hk]
        exact ih hn.2 k

section PS
variable {P S V M Pr : Type} [DecidableEq P] [VersionSet S V] [DecidableEq S] [LawfulVersionSet S V]

namespace PartialSolution

/-! ### `addDerivation` -/

/-- a derivation at the current level does not change the terms at lower levels -/
theorem termsAt_addDerivation_lt {ps ps' : PartialSolution P S V Pr} {q : P} {cause : Nat}
    {store : List (Incompat P S V M)} (h : ps.WF')
    (hr : ps.addDerivation q cause store = .ok ps') {l : Nat} (hl : l < ps.currentDecisionLevel) :
    ps'.termsAt l = ps.termsAt l := by
  funext p
  by_cases hp : p = q
  · subst hp
    obtain ⟨inc, t, _, _, hcase⟩ := addDerivation_spec hr
    rcases hcase with ⟨idx, pa, t0, hidx, hpa, ht0, rfl⟩ | ⟨hpa, rfl⟩
    · have hget := getElem_of_indexOf_getPA hidx hpa
      have hw := h.wf.entries idx p pa hget
      have hi := undecided_ge h.wf hget ht0
      unfold termsAt
      simp only [getPA]
      rw [SmallMap.get_set_same_key h.wf.keys hget, if_pos rfl]
      have hpa' : SmallMap.get ps.assignments p = some pa := hpa
      rw [hpa']
      simp only [Option.bind_some]
      rw [termAt_undecided_eq hw ht0 hi l]
      unfold PackageAssignments.termAt
      simp only
      rw [if_neg (by omega), pop_append_above _ _ _ (by simpa using hl)]
    · unfold termsAt
      rw [hpa]
      simp only [getPA] at hpa ⊢
      rw [SmallMap.get_append_none hpa]
      simp only [SmallMap.get, if_true, Option.bind_some, Option.bind_none]
      unfold PackageAssignments.termAt
      simp only
      rw [if_neg (by omega), pop_all_above]
      · rfl
      · intro dd hdd
        simp only [List.mem_singleton] at hdd
        subst hdd; simpa using hl
  · unfold termsAt
    rw [addDerivation_getPA_ne h.wf hr hp]

theorem addDerivation_level {ps ps' : PartialSolution P S V Pr} {q : P} {cause : Nat}
    {store : List (Incompat P S V M)}
    (hr : ps.addDerivation q cause store = .ok ps') :
    ps'.currentDecisionLevel = ps.currentDecisionLevel := by
  obtain ⟨inc, t, _, _, hcase⟩ := addDerivation_spec hr
  rcases hcase with ⟨idx, pa, t0, hidx, hpa, ht0, rfl⟩ | ⟨hpa, rfl⟩ <;> rfl

/-- the new term of the package that received the derivation -/
theorem terms_addDerivation_self {ps ps' : PartialSolution P S V Pr} {q : P} {cause : Nat}
    {store : List (Incompat P S V M)} (h : ps.WF') (hv : ps.TermsValid)
    (hr : ps.addDerivation q cause store = .ok ps') :
    ∃ inc t o', store[cause]? = some inc ∧ inc.get q = some t ∧ ps'.terms q = some o' ∧
      (t.Valid → o'.Sub t.negate) ∧ (t.Valid → ∀ o, ps.terms q = some o → o'.Sub o) := by
  cases ho : ps.terms q with
  | some o =>
    obtain ⟨inc, t, hinc, ht, hnew⟩ := addDerivation_term_self h.wf hr ho
    refine ⟨inc, t, _, hinc, ht, hnew, ?_, ?_⟩
    · intro htv
      exact Term.sub_intersection_right o t.negate (termIntersection_valid hv ho) (Term.valid_negate t htv)
    · intro htv o2 ho2
      injection ho2 with ho2; subst ho2
      exact Term.sub_intersection_left o t.negate (termIntersection_valid hv ho) (Term.valid_negate t htv)
  | none =>
    obtain ⟨inc, t, hinc, ht, hcase⟩ := addDerivation_spec hr
    have hpa : ps.getPA q = none := by
      simp only [terms, termIntersectionForPackage, Option.map_eq_none_iff] at ho; exact ho
    rcases hcase with ⟨idx, pa, t0, hidx, hpa', ht0, rfl⟩ | ⟨_, rfl⟩
    · rw [hpa] at hpa'; cases hpa'
    · refine ⟨inc, t, t.negate, hinc, ht, ?_, fun _ => Term.Sub.refl _, ?_⟩
      · simp only [terms, termIntersectionForPackage, getPA] at hpa ⊢
        rw [SmallMap.get_append_none hpa]
        simp [SmallMap.get, AssignInter.term]
      · intro _ o2 ho2; cases ho2

theorem terms_addDerivation_ne {ps ps' : PartialSolution P S V Pr} {q : P} {cause : Nat}
    {store : List (Incompat P S V M)} (h : ps.WF')
    (hr : ps.addDerivation q cause store = .ok ps') {p : P} (hp : p ≠ q) :
    ps'.terms p = ps.terms p := by
  unfold terms termIntersectionForPackage
  rw [addDerivation_getPA_ne h.wf hr hp]

/-- after a derivation the terms at the current level are smaller -/
theorem termsLE_addDerivation (W : World P S V M) (root : P) (rv : V)
    {ps ps' : PartialSolution P S V Pr} {q : P} {cause : Nat}
    {store : List (Incompat P S V M)} (hs : StoreInv W root rv store) (h : ps.WF') (hv : ps.TermsValid)
    (hr : ps.addDerivation q cause store = .ok ps') : TermsLE ps'.terms ps.terms := by
  intro p o ho
  by_cases hp : p = q
  · subst hp
    obtain ⟨inc, t, o', hinc, ht, hnew, _, h2⟩ := terms_addDerivation_self h hv hr
    exact ⟨o', hnew, h2 (Incompat.get_valid W root rv hs hinc ht) o ho⟩
  · exact ⟨o, by rw [terms_addDerivation_ne h hr hp]; exact ho, Term.Sub.refl o⟩

/-! ### `addDecision` -/

theorem addDecision_getPA {ps ps' : PartialSolution P S V Pr} {debug : Bool} {p : P} {v : V}
    (h : ps.WF) (hr : addDecision debug ps p v = .ok ps') (hw' : ps'.WF)
    {t : Term S} {pa : PackageAssignments S V} (hpa : ps.getPA p = some pa)
    (ht : pa.inter = .derivations t) (q : P) :
    ps'.getPA q =
      if q = p then some (pa.decide ps.currentDecisionLevel ps.nextGlobalIndex v) else ps.getPA q := by
  obtain ⟨oldIdx, hget, hge, e1, e2, e3, e4, e5, hk⟩ := addDecision_spec h hr hpa ht
  by_cases hq : q = p
  · subst hq
    rw [if_pos rfl]
    apply getPA_of_getElem hw' (i := ps.currentDecisionLevel)
    rw [hk, if_pos rfl]
  · rw [if_neg hq]
    cases hqa : ps.getPA q with
    | some qa =>
      obtain ⟨i, _, hi⟩ := getElem_of_getPA hqa
      have hio : i ≠ oldIdx := by
        intro e; subst e; rw [hget] at hi; injection hi with hi; injection hi with hi; exact hq hi.symm
      by_cases hiL : i = ps.currentDecisionLevel
      · subst hiL
        apply getPA_of_getElem hw' (i := oldIdx)
        rw [hk, if_neg (fun e => hio e.symm), if_pos rfl]; exact hi
      · apply getPA_of_getElem hw' (i := i)
        rw [hk, if_neg hiL, if_neg hio]; exact hi
    | none =>
      cases hqa' : ps'.getPA q with
      | none => rfl
      | some qa' =>
        exfalso
        obtain ⟨k, _, hk'⟩ := getElem_of_getPA hqa'
        rw [hk] at hk'
        split at hk'
        · injection hk' with hk'; injection hk' with hk'; exact hq hk'.symm
        · split at hk'
          · rw [getPA_of_getElem h hk'] at hqa; cases hqa
          · rw [getPA_of_getElem h hk'] at hqa; cases hqa

theorem addDecision_level {ps ps' : PartialSolution P S V Pr} {debug : Bool} {p : P} {v : V}
    (h : ps.WF) (hr : addDecision debug ps p v = .ok ps')
    {t : Term S} {pa : PackageAssignments S V} (hpa : ps.getPA p = some pa)
    (ht : pa.inter = .derivations t) :
    ps'.currentDecisionLevel = ps.currentDecisionLevel + 1 := by
  obtain ⟨oldIdx, hget, hge, e1, _⟩ := addDecision_spec h hr hpa ht
  exact e1

/-- a decision (which opens a new level) does not change the terms at the old levels -/
theorem termsAt_addDecision_le {ps ps' : PartialSolution P S V Pr} {debug : Bool} {p : P} {v : V}
    (h : ps.WF) (hr : addDecision debug ps p v = .ok ps') (hw' : ps'.WF)
    {t : Term S} {pa : PackageAssignments S V} (hpa : ps.getPA p = some pa)
    (ht : pa.inter = .derivations t) {l : Nat} (hl : l ≤ ps.currentDecisionLevel) :
    ps'.termsAt l = ps.termsAt l := by
  funext q
  unfold termsAt
  rw [addDecision_getPA h hr hw' hpa ht q]
  by_cases hq : q = p
  · subst hq
    rw [if_pos rfl, hpa]
    simp only [Option.bind_some]
    obtain ⟨i, _, hi⟩ := getElem_of_getPA hpa
    rw [termAt_undecided_eq (h.entries i q pa hi) ht (undecided_ge h hi ht) l]
    unfold PackageAssignments.termAt PackageAssignments.decide
    simp only
    rw [if_neg (by omega)]
  · rw [if_neg hq]

/-- the terms after a decision -/
theorem terms_addDecision {ps ps' : PartialSolution P S V Pr} {debug : Bool} {p : P} {v : V}
    (h : ps.WF) (hr : addDecision debug ps p v = .ok ps') (hw' : ps'.WF)
    {t : Term S} {pa : PackageAssignments S V} (hpa : ps.getPA p = some pa)
    (ht : pa.inter = .derivations t) (q : P) :
    ps'.terms q = if q = p then some (Term.exact v) else ps.terms q := by
  unfold terms termIntersectionForPackage
  rw [addDecision_getPA h hr hw' hpa ht q]
  by_cases hq : q = p
  · rw [if_pos hq, if_pos hq]; rfl
  · rw [if_neg hq, if_neg hq]

/-- the terms at the new level are smaller than those at the old top level -/
theorem termsLE_addDecision {ps ps' : PartialSolution P S V Pr} {debug : Bool} {p : P} {v : V}
    (h : ps.WF) (hr : addDecision debug ps p v = .ok ps') (hw' : ps'.WF)
    {t : Term S} {pa : PackageAssignments S V} (hpa : ps.getPA p = some pa)
    (ht : pa.inter = .derivations t) (hv : t.contains v = true) :
    TermsLE ps'.terms ps.terms := by
  intro q o ho
  rw [terms_addDecision h hr hw' hpa ht q]
  by_cases hq : q = p
  · subst hq
    rw [if_pos rfl]
    refine ⟨_, rfl, ?_⟩
    have : ps.terms q = some t := by
      simp only [terms, termIntersectionForPackage, hpa, Option.map_some, ht, AssignInter.term]
    rw [this] at ho; injection ho with ho; subst ho
    exact Term.sub_exact_of_contains hv
  · rw [if_neg hq]
    exact ⟨o, ho, Term.Sub.refl o⟩

/-! ### `backtrack` -/

theorem btG_cases (dl : Nat) (p : P) (pa : PackageAssignments S V) :
    (pa.smallest > dl ∧ btG dl (p, pa) = none) ∨
    (¬ pa.smallest > dl ∧ pa.highest ≤ dl ∧ btG dl (p, pa) = some (p, pa)) ∨
    (¬ pa.smallest > dl ∧ ¬ pa.highest ≤ dl ∧
      (((popWhileAbove dl pa.dated).getLast? = none ∧ btG dl (p, pa) = none) ∨
       ∃ last, (popWhileAbove dl pa.dated).getLast? = some last ∧
        btG dl (p, pa) = some (p, { pa with dated := popWhileAbove dl pa.dated,
                                             highest := last.decisionLevel,
                                             inter := .derivations last.accumulated }))) := by
  unfold btG btF
  simp only
  by_cases h1 : pa.smallest > dl
  · left; rw [if_pos h1]; exact ⟨h1, rfl⟩
  · right
    rw [if_neg h1]
    by_cases h2 : pa.highest ≤ dl
    · left; rw [if_pos h2]; exact ⟨h1, h2, rfl⟩
    · right
      rw [if_neg h2]
      refine ⟨h1, h2, ?_⟩
      cases hl : (popWhileAbove dl pa.dated).getLast? with
      | none => left; simp [unwrapOr, bind, Except.bind, optOfR]
      | some last => right; exact ⟨last, rfl, by simp [unwrapOr, bind, Except.bind, optOfR, pure, Except.pure]⟩

theorem btG_key (dl : Nat) (x y : P × PackageAssignments S V) (h : btG dl x = some y) : y.1 = x.1 := by
  obtain ⟨p, pa⟩ := x
  rcases btG_cases dl p pa with ⟨_, e⟩ | ⟨_, _, e⟩ | ⟨_, _, ⟨_, e⟩ | ⟨last, _, e⟩⟩
  · rw [e] at h; cases h
  · rw [e] at h; injection h with h; subst h; rfl
  · rw [e] at h; cases h
  · rw [e] at h; injection h with h; subst h; rfl

theorem backtrack_getPA {ps ps' : PartialSolution P S V Pr} {dl : Nat} (h : ps.WF)
    (hr : ps.backtrack dl = .ok ps') (q : P) :
    ps'.getPA q = (ps.getPA q).bind (fun pa => (btG dl (q, pa)).map Prod.snd) := by
  rw [backtrack_eq] at hr
  obtain ⟨asg, hasg, hr⟩ := bind_eq_ok hr
  simp only [pure, Except.pure] at hr
  injection hr with hr; subst hr
  have hA : asg = ps.assignments.filterMap (btG dl) := filterMapM_ok_eq _ _ _ hasg
  subst hA
  exact SmallMap.get_filterMap (btG dl) (btG_key dl) ps.assignments h.keys q

theorem backtrack_level {ps ps' : PartialSolution P S V Pr} {dl : Nat}
    (hr : ps.backtrack dl = .ok ps') : ps'.currentDecisionLevel = dl := by
  rw [backtrack_eq] at hr
  obtain ⟨asg, hasg, hr⟩ := bind_eq_ok hr
  simp only [pure, Except.pure] at hr
  injection hr with hr; subst hr; rfl

/-- what `backtrack l'` does to one entry, seen from a level `l ≤ l'` -/
theorem termAt_btG {pa : PackageAssignments S V} {dl next i : Nat} (hw : pa.WFAt dl next i)
    (hx : pa.WFX) (p : P) {l l' : Nat} (hl : l ≤ l') :
    ((btG l' (p, pa)).map Prod.snd).bind (·.termAt l) = pa.termAt l := by
  rcases btG_cases l' p pa with ⟨h1, e⟩ | ⟨h1, h2, e⟩ | ⟨h1, h2, ⟨h3, e⟩ | ⟨last, h3, e⟩⟩
  · rw [e]
    simp only [Option.map_none, Option.bind_none]
    unfold PackageAssignments.termAt
    have := hw.range
    rw [if_neg (by omega), pop_all_above]
    · rfl
    · intro dd hdd
      obtain ⟨f, hf1, hf2⟩ := hx.head
      have hlev := hw.levels
      cases hd : pa.dated with
      | nil => rw [hd] at hdd; cases hdd
      | cons a rest =>
        rw [hd] at hdd hf1 hlev
        simp only [List.head?_cons, Option.some.injEq] at hf1
        subst hf1
        simp only [List.map_cons, List.pairwise_cons, List.mem_map, forall_exists_index, and_imp,
          forall_apply_eq_imp_iff₂] at hlev
        rcases List.mem_cons.1 hdd with rfl | hdd
        · omega
        · have := hlev.1 dd hdd; omega
  · rw [e]; rfl
  · rw [e]
    simp only [Option.map_none, Option.bind_none]
    unfold PackageAssignments.termAt
    have hpp : popWhileAbove l pa.dated = popWhileAbove l (popWhileAbove l' pa.dated) :=
      (pop_pop l l' hl pa.dated).symm
    rw [if_neg (by omega), hpp, List.getLast?_eq_none_iff.1 h3]
    rfl
  · rw [e]
    simp only [Option.map_some, Option.bind_some]
    unfold PackageAssignments.termAt
    simp only
    have hpp : popWhileAbove l pa.dated = popWhileAbove l (popWhileAbove l' pa.dated) :=
      (pop_pop l l' hl pa.dated).symm
    rw [if_neg (show ¬ pa.highest ≤ l by omega), hpp]
    split
    · rename_i hle
      rw [pop_of_last_le l _ last h3 hle, h3]
      rfl
    · rfl

/-- restricting to `l'` and then to `l ≤ l'` is restricting to `l` -/
theorem termsAt_backtrack {ps ps' : PartialSolution P S V Pr} {l l' : Nat} (h : ps.WF')
    (hr : ps.backtrack l' = .ok ps') (hl : l ≤ l') : ps'.termsAt l = ps.termsAt l := by
  funext q
  unfold termsAt
  rw [backtrack_getPA h.wf hr q]
  cases hpa : ps.getPA q with
  | none => rfl
  | some pa =>
    simp only [Option.bind_some]
    obtain ⟨i, _, hi⟩ := getElem_of_getPA hpa
    exact termAt_btG (h.wf.entries i q pa hi) (h.wfx _ (List.mem_of_getElem? hi)) q hl

/-- the terms `backtrack l` leaves are the terms of level `l` -/
theorem terms_backtrack {ps psl : PartialSolution P S V Pr} {l : Nat} (h : ps.WF')
    (hl : l ≤ ps.currentDecisionLevel) (hr : ps.backtrack l = .ok psl) : psl.terms = ps.termsAt l := by
  have hw' := (backtrack_wf' h hl hr).1
  have hlev := backtrack_level hr
  rw [← termsAt_backtrack h hr (Nat.le_refl l), termsAt_top hw'.wf (by rw [hlev])]

/-- a package decided after `backtrack dl` was decided before, at a level ≤ `dl`, with the same entry -/
theorem backtrack_decided {ps ps' : PartialSolution P S V Pr} {dl : Nat} (h : ps.WF)
    (hr : ps.backtrack dl = .ok ps') {q : P} {pa' : PackageAssignments S V} {g : Nat} {v : V} {t : Term S}
    (hpa' : ps'.getPA q = some pa') (hd : pa'.inter = .decision g v t) :
    ps.getPA q = some pa' ∧ pa'.highest ≤ dl := by
  rw [backtrack_getPA h hr q] at hpa'
  cases hpa : ps.getPA q with
  | none => rw [hpa] at hpa'; cases hpa'
  | some pa =>
    rw [hpa] at hpa'
    simp only [Option.bind_some] at hpa'
    rcases btG_cases dl q pa with ⟨h1, e⟩ | ⟨h1, h2, e⟩ | ⟨h1, h2, ⟨h3, e⟩ | ⟨last, h3, e⟩⟩
    · rw [e] at hpa'; cases hpa'
    · rw [e] at hpa'
      simp only [Option.map_some, Option.some.injEq] at hpa'
      subst hpa'
      exact ⟨rfl, h2⟩
    · rw [e] at hpa'; cases hpa'
    · rw [e] at hpa'
      simp only [Option.map_some, Option.some.injEq] at hpa'
      subst hpa'
      cases hd

end PartialSolution
end PS
end Pubgrub

/-
Helpers for `SatisfierTheory.lean`, part 1: the listed panic sites, a Hoare-style predicate on the
results of the model's functions, semantic inclusion of terms, the events (assignments) of a package,
`termBefore`.
-/
import PubgrubProofs.SatDefs
import PubgrubProofs.PSInvariant

set_option linter.unusedSectionVars false
set_option linter.unusedVariables false

namespace Pubgrub
open VersionSet

/-- the panic sites of `no_satisfier_panic` -/
def listedSites : List String := [
  "find_satisfier: Must exist",
  "satisfier: unreachable, the last assignment should have been a decision",
  "must be a decision",
  "satisfier package not in incompat",
  "satisfier_search: max_by_key().unwrap()",
  "find_previous_satisfier: max_by_key().unwrap()",
  "satisfier_search: satisfier_cause.unwrap()",
  "find_previous_satisfier: get(satisfier_package).unwrap()",
  "find_previous_satisfier: satisfied_map.get().unwrap()",
  "find_previous_satisfier: store[cause].get().unwrap()",
  "prior_cause: split_one(package).unwrap()",
  "prior_cause: satisfier_cause_terms.get(package).unwrap()",
  "backtrack: dated_derivations.last().unwrap()",
  "add_derivation should not be called after a decision",
  "add_derivation: store[cause].get(package).unwrap()"]

def Listed (s : String) : Prop := s ∈ listedSites

/-- closes `¬ Listed "literal"` -/
macro "not_listed" : tactic => `(tactic| (simp [Listed, listedSites]))

/-- the result is a value satisfying `Q`, or an error that is not a listed panic -/
def Safe {α : Type} (r : R α) (Q : α → Prop) : Prop :=
  match r with
  | .ok a => Q a
  | .error (.panic s) => ¬ Listed s
  | .error .outOfFuel => True

namespace Safe
variable {α β : Type}

theorem ok {a : α} {Q : α → Prop} (h : Q a) : Safe (.ok a) Q := h
theorem pure' {a : α} {Q : α → Prop} (h : Q a) : Safe (pure a : R α) Q := h
theorem panic {s : String} {Q : α → Prop} (h : ¬ Listed s) : Safe (.error (.panic s) : R α) Q := h
theorem throw' {s : String} {Q : α → Prop} (h : ¬ Listed s) : Safe (throw (.panic s) : R α) Q := h
theorem fuel {Q : α → Prop} : Safe (.error .outOfFuel : R α) Q := trivial

theorem of_ok {r : R α} {Q : α → Prop} (h : Safe r Q) {a : α} (hr : r = .ok a) : Q a := by
  subst hr; exact h

theorem of_panic {r : R α} {Q : α → Prop} (h : Safe r Q) {s : String} (hr : r = .error (.panic s)) :
    ¬ Listed s := by
  subst hr; exact h

theorem intro {r : R α} {Q : α → Prop} (h1 : ∀ a, r = .ok a → Q a)
    (h2 : ∀ s, r = .error (.panic s) → ¬ Listed s) : Safe r Q := by
  cases r with
  | ok a => exact h1 a rfl
  | error e =>
    cases e with
    | panic s => exact h2 s rfl
    | outOfFuel => trivial

theorem mono {r : R α} {Q Q' : α → Prop} (h : Safe r Q) (hq : ∀ a, r = .ok a → Q a → Q' a) :
    Safe r Q' := by
  cases r with
  | ok a => exact hq a rfl h
  | error e => cases e <;> exact h

theorem bind {x : R α} {f : α → R β} {Q : α → Prop} {Q' : β → Prop} (hx : Safe x Q)
    (hf : ∀ a, x = .ok a → Q a → Safe (f a) Q') : Safe (x >>= f) Q' := by
  cases x with
  | ok a => exact hf a rfl hx
  | error e => cases e <;> exact hx

theorem bind_ok {x : R α} {f : α → R β} {Q' : β → Prop} {a : α} (hx : x = .ok a)
    (hf : Safe (f a) Q') : Safe (x >>= f) Q' := by
  subst hx; exact hf

/-- the error of the first action is passed on -/
theorem error_bind {e : Fault} {f : α → R β} : ((.error e : R α) >>= f) = .error e := rfl

theorem unwrapOr {o : Option α} {site : String} {Q : α → Prop} (hn : o = none → ¬ Listed site)
    (hs : ∀ a, o = some a → Q a) : Safe (unwrapOr o site) Q := by
  cases o with
  | none => exact hn rfl
  | some a => exact hs a rfl

/-- an index of the arena: the out-of-bounds panic is not listed -/
theorem storeGet {store : List α} {id : Nat} {Q : α → Prop} (hs : ∀ a, store[id]? = some a → Q a) :
    Safe (storeGet store id) Q :=
  unwrapOr (fun _ => by not_listed) hs

end Safe

theorem unwrapOr_some {α : Type} {o : Option α} {site : String} {a : α} (h : o = some a) :
    unwrapOr o site = .ok a := by subst h; rfl

theorem storeGet_some {α : Type} {store : List α} {id : Nat} {a : α} (h : store[id]? = some a) :
    storeGet store id = .ok a := unwrapOr_some h

section Terms
variable {S V : Type} [VersionSet S V] [DecidableEq S] [LawfulVersionSet S V]

/-- semantic inclusion of terms -/
def Term.Imp (a b : Term S) : Prop := ∀ c : Option V, a.eval c = true → b.eval c = true

namespace Term

theorem Imp.refl (a : Term S) : a.Imp a := fun _ h => h
theorem Imp.trans {a b c : Term S} (h1 : a.Imp b) (h2 : b.Imp c) : a.Imp c := fun x h => h2 x (h1 x h)

theorem imp_of_subsetOf {a b : Term S} (ha : a.Valid) (hb : b.Valid) (h : a.subsetOf b = true) : a.Imp b :=
  (subsetOf_iff a b ha hb).1 h

theorem subsetOf_of_imp {a b : Term S} (ha : a.Valid) (hb : b.Valid) (h : a.Imp b) : a.subsetOf b = true :=
  (subsetOf_iff a b ha hb).2 h

theorem inter_imp_left {a b : Term S} (ha : a.Valid) (hb : b.Valid) : (a.intersection b).Imp a := by
  intro c hc
  rw [eval_intersection a b ha hb, Bool.and_eq_true] at hc
  exact hc.1

theorem inter_imp_right {a b : Term S} (ha : a.Valid) (hb : b.Valid) : (a.intersection b).Imp b := by
  intro c hc
  rw [eval_intersection a b ha hb, Bool.and_eq_true] at hc
  exact hc.2

theorem imp_of_relationWith {t o : Term S} (ht : t.Valid) (ho : o.Valid)
    (h : t.relationWith o = .satisfied) : o.Imp t :=
  (relationWith_satisfied_iff t o ht ho).1 h

/-- `acc` disjoint from `¬ t` means `acc ⊆ t` -/
theorem imp_of_disjoint_negate {acc t : Term S} (ha : acc.Valid) (ht : t.Valid)
    (h : acc.isDisjoint t.negate = true) : acc.Imp t := by
  intro c hc
  have := (isDisjoint_iff acc t.negate ha (valid_negate t ht)).1 h c
  rw [eval_negate] at this
  cases h2 : t.eval c
  · rw [h2] at this; exact absurd ⟨hc, rfl⟩ this
  · rfl

theorem disjoint_negate_of_imp {acc t : Term S} (ha : acc.Valid) (ht : t.Valid)
    (h : acc.Imp t) : acc.isDisjoint t.negate = true := by
  rw [isDisjoint_iff acc t.negate ha (valid_negate t ht)]
  intro c ⟨h1, h2⟩
  rw [eval_negate, h c h1] at h2
  cases h2

/-- `acc ⊆ t` makes `acc` disjoint from `x ∩ ¬ t` -/
theorem disjoint_inter_negate_of_imp {acc t x : Term S} (ha : acc.Valid) (ht : t.Valid) (hx : x.Valid)
    (h : acc.Imp t) : acc.isDisjoint (x.intersection t.negate) = true := by
  rw [isDisjoint_iff acc _ ha (valid_intersection _ _ hx (valid_negate t ht))]
  intro c ⟨h1, h2⟩
  rw [eval_intersection _ _ hx (valid_negate t ht), eval_negate, h c h1] at h2
  simp at h2

/-- if `x ⊆ t`, every term is disjoint from `x ∩ ¬ t` -/
theorem disjoint_of_empty {acc t x : Term S} (ha : acc.Valid) (ht : t.Valid) (hx : x.Valid)
    (h : x.Imp t) : acc.isDisjoint (x.intersection t.negate) = true := by
  rw [isDisjoint_iff acc _ ha (valid_intersection _ _ hx (valid_negate t ht))]
  intro c ⟨h1, h2⟩
  rw [eval_intersection _ _ hx (valid_negate t ht), eval_negate, Bool.and_eq_true] at h2
  rw [h c h2.1] at h2
  simp at h2

/-- against a single version a term is satisfied or contradicted -/
theorem sat_relationWith_exact_ne_inconclusive (t : Term S) (v : V) (ht : t.Valid) :
    t.relationWith (Term.exact v) ≠ .inconclusive := by
  intro h
  obtain ⟨h1, h2⟩ := (relationWith_inconclusive_iff t _ ht (valid_exact v)).1 h
  apply h1
  intro c hc
  rw [eval_exact] at hc
  subst hc
  apply Classical.byContradiction
  intro hne
  apply h2
  intro c ⟨hc1, hc2⟩
  rw [eval_exact] at hc2
  subst hc2
  exact hne hc1

theorem exact_imp_iff (t : Term S) (v : V) : (Term.exact v : Term S).Imp t ↔ t.contains v = true := by
  rw [contains_eq_eval]
  constructor
  · intro h; exact h (some v) ((eval_exact v _).2 rfl)
  · intro h c hc
    rw [eval_exact] at hc; subst hc; exact h

end Term
end Terms

section Events
variable {P S V M Pr : Type} [DecidableEq P] [VersionSet S V] [DecidableEq S] [LawfulVersionSet S V]

/-- the assignments of one package as (global index, decision level, is a decision) -/
def PackageAssignments.events (pa : PackageAssignments S V) : List (Nat × Nat × Bool) :=
  pa.dated.map (fun dd => (dd.globalIndex, dd.decisionLevel, false)) ++
    (match pa.inter with | .decision g _ _ => [(g, pa.highest, true)] | _ => [])

theorem PartialSolution.allAssignments_eq (ps : PartialSolution P S V Pr) :
    ps.allAssignments = ps.assignments.flatMap fun kv => kv.2.events := rfl

/-- global indices and levels are ordered alike over all packages, a decision opens a new level, and
a global index identifies the package -/
def GMonoL (asg : List (P × PackageAssignments S V)) : Prop :=
  ∀ p pa q qa, (p, pa) ∈ asg → (q, qa) ∈ asg → ∀ a ∈ pa.events, ∀ b ∈ qa.events,
    (a.1 < b.1 → a.2.1 ≤ b.2.1 ∧ (b.2.2 = true → a.2.1 < b.2.1)) ∧ (a.1 = b.1 → p = q)

def PartialSolution.GMono (ps : PartialSolution P S V Pr) : Prop := GMonoL ps.assignments

theorem PartialSolution.GMono.levelMono {ps : PartialSolution P S V Pr} (h : ps.GMono) : ps.LevelMono := by
  intro a ha b hb hab
  rw [PartialSolution.allAssignments_eq, List.mem_flatMap] at ha hb
  obtain ⟨⟨p, pa⟩, hpa, ha⟩ := ha
  obtain ⟨⟨q, qa⟩, hqa, hb⟩ := hb
  exact (h p pa q qa hpa hqa a ha b hb).1 hab

theorem PackageAssignments.mem_events_dated {pa : PackageAssignments S V} {dd : DatedDerivation S}
    (h : dd ∈ pa.dated) : (dd.globalIndex, dd.decisionLevel, false) ∈ pa.events := by
  unfold PackageAssignments.events
  exact List.mem_append_left _ (List.mem_map.2 ⟨dd, h, rfl⟩)

theorem PackageAssignments.mem_events_decision {pa : PackageAssignments S V} {g : Nat} {v : V} {t : Term S}
    (h : pa.inter = .decision g v t) : (g, pa.highest, true) ∈ pa.events := by
  unfold PackageAssignments.events
  rw [h]
  exact List.mem_append_right _ (List.mem_singleton.2 rfl)

theorem PackageAssignments.events_derivations {pa : PackageAssignments S V} {t : Term S}
    (h : pa.inter = .derivations t) :
    pa.events = pa.dated.map (fun dd => (dd.globalIndex, dd.decisionLevel, false)) := by
  unfold PackageAssignments.events
  rw [h]; simp

/-- the accumulated terms only shrink along the dated derivations -/
def PackageAssignments.Shrink (pa : PackageAssignments S V) : Prop :=
  pa.dated.Pairwise (fun a b => b.accumulated.Imp a.accumulated)


/-! ### one package -/

theorem getLast?_of_mem {α : Type} {l : List α} {x : α} (h : x ∈ l) : ∃ y, l.getLast? = some y := by
  cases hl : l.getLast? with
  | none => rw [List.getLast?_eq_none_iff] at hl; subst hl; cases h
  | some y => exact ⟨y, rfl⟩

theorem PackageAssignments.WFAt.inter_cases {dl n i : Nat} {pa : PackageAssignments S V} (h : pa.WFAt dl n i) :
    (∃ g v, pa.inter = .decision g v (Term.exact v) ∧ pa.highest = i + 1 ∧ g < n ∧
      (∀ dd ∈ pa.dated, dd.globalIndex < g) ∧
      (∀ dd, pa.dated.getLast? = some dd → dd.accumulated.contains v = true)) ∨
    (∃ t l f, pa.inter = .derivations t ∧ pa.highest ≤ dl ∧
      pa.dated.getLast? = some l ∧ pa.dated.head? = some f ∧ l.accumulated = t ∧
      l.decisionLevel = pa.highest ∧ f.decisionLevel = pa.smallest) := by
  by_cases hi : i < dl
  · exact Or.inl (h.decided hi)
  · exact Or.inr (h.undecided (Nat.le_of_not_lt hi))

/-- the dated derivations are not empty -/
theorem PackageAssignments.WFX.last {pa : PackageAssignments S V} (hx : pa.WFX) :
    ∃ l, pa.dated.getLast? = some l := by
  obtain ⟨f, hf, _⟩ := hx.head
  exact getLast?_of_mem (List.mem_of_mem_head? hf)

theorem PackageAssignments.events_bound {dl n i : Nat} {pa : PackageAssignments S V} (h : pa.WFAt dl n i)
    (hx : pa.WFX) (hi : pa.highest ≤ L) {a : Nat × Nat × Bool} (ha : a ∈ pa.events) :
    a.1 < n ∧ a.2.1 ≤ L := by
  unfold PackageAssignments.events at ha
  rcases List.mem_append.1 ha with ha | ha
  · rw [List.mem_map] at ha
    obtain ⟨dd, hdd, rfl⟩ := ha
    exact ⟨h.indices_lt dd hdd, Nat.le_trans (hx.le_highest dd hdd) hi⟩
  · split at ha
    · rename_i g v t hinter
      rw [List.mem_singleton] at ha; subst ha
      rcases h.inter_cases with ⟨g', v', h1, _, h3, _⟩ | ⟨t', l, f, h1, _⟩
      · rw [hinter] at h1; injection h1 with e1 e2 e3; subst e1
        exact ⟨h3, hi⟩
      · rw [hinter] at h1; cases h1
    · cases ha

/-- the current term is included in every accumulated term -/
theorem PackageAssignments.term_imp_dated {dl n i : Nat} {pa : PackageAssignments S V} (h : pa.WFAt dl n i)
    (hs : pa.Shrink) {dd : DatedDerivation S} (hdd : dd ∈ pa.dated) : pa.inter.term.Imp dd.accumulated := by
  have hlast : ∀ l, pa.dated.getLast? = some l → l.accumulated.Imp dd.accumulated := by
    intro l hl
    rcases pairwise_getLast hs hl dd hdd with e | e
    · subst e; exact Term.Imp.refl _
    · exact e
  rcases h.inter_cases with ⟨g, v, h1, _, _, _, h5⟩ | ⟨t, l, f, h1, _, h3, _, h5, _⟩
  · rw [h1]
    simp only [AssignInter.term]
    obtain ⟨l, hl⟩ : ∃ l, pa.dated.getLast? = some l := getLast?_of_mem hdd
    exact Term.Imp.trans ((Term.exact_imp_iff _ v).2 (h5 l hl)) (hlast l hl)
  · rw [h1]
    simp only [AssignInter.term]
    rw [← h5]; exact hlast l h3

/-- the term before a global index above all the indices of the package is its current term -/
theorem PackageAssignments.termBefore_current {dl n i : Nat} {pa : PackageAssignments S V} (h : pa.WFAt dl n i)
    {g : Nat} (hg : n ≤ g) : pa.termBefore g = some pa.inter.term := by
  unfold PackageAssignments.termBefore
  rcases h.inter_cases with ⟨g', v, h1, _, h3, _⟩ | ⟨t, l, f, h1, _, h3, _, h5, _⟩
  · rw [h1]; simp only [AssignInter.term]
    rw [if_pos (Nat.lt_of_lt_of_le h3 hg)]
  · rw [h1]; simp only [AssignInter.term]
    have : pa.dated.filter (fun dd => Decidable.decide (dd.globalIndex < g)) = pa.dated := by
      rw [List.filter_eq_self]
      intro dd hdd
      simp only [decide_eq_true_eq]
      exact Nat.lt_of_lt_of_le (h.indices_lt dd hdd) hg
    rw [this, h3]; simp [h5]

/-- the current term is included in the term before any global index -/
theorem PackageAssignments.term_imp_termBefore {dl n i : Nat} {pa : PackageAssignments S V} (h : pa.WFAt dl n i)
    (hs : pa.Shrink) {g : Nat} {t : Term S} (ht : pa.termBefore g = some t) : pa.inter.term.Imp t := by
  unfold PackageAssignments.termBefore at ht
  have hfrom : ((pa.dated.filter fun dd => Decidable.decide (dd.globalIndex < g)).getLast?).map (·.accumulated) = some t →
      pa.inter.term.Imp t := by
    intro hh
    rw [Option.map_eq_some_iff] at hh
    obtain ⟨dd, hdd, rfl⟩ := hh
    exact PackageAssignments.term_imp_dated h hs (List.mem_filter.1 (List.mem_of_getLast? hdd)).1
  split at ht
  · rename_i gd v t' hinter
    split at ht
    · injection ht with ht; subst ht; rw [hinter]; exact Term.Imp.refl _
    · exact hfrom ht
  · exact hfrom ht

/-- validity of the term before a global index -/
theorem PackageAssignments.termBefore_valid {pa : PackageAssignments S V} (hv : pa.TermsValid)
    {g : Nat} {t : Term S} (ht : pa.termBefore g = some t) : t.Valid := by
  unfold PackageAssignments.termBefore at ht
  have hfrom : ((pa.dated.filter fun dd => Decidable.decide (dd.globalIndex < g)).getLast?).map (·.accumulated) = some t →
      t.Valid := by
    intro hh
    rw [Option.map_eq_some_iff] at hh
    obtain ⟨dd, hdd, rfl⟩ := hh
    exact hv.dated dd (List.mem_filter.1 (List.mem_of_getLast? hdd)).1
  split at ht
  · rename_i gd v t' hinter
    split at ht
    · injection ht with ht; subst ht
      have := hv.inter; rw [hinter] at this; exact this
    · exact hfrom ht
  · exact hfrom ht

/-- one more derivation with a global index not below `g` does not change the term before `g` -/
theorem PackageAssignments.termBefore_pushDD {pa : PackageAssignments S V} {t0 : Term S}
    (h0 : pa.inter = .derivations t0) (dl next cause : Nat) (t' : Term S) {g : Nat} (hg : g ≤ next) :
    (pa.pushDD dl next cause t').termBefore g = pa.termBefore g := by
  unfold PackageAssignments.termBefore PackageAssignments.pushDD
  simp only [h0, List.filter_append, List.filter_cons, List.filter_nil]
  rw [if_neg (by simp only [decide_eq_true_eq]; omega)]
  simp

/-- a decision with a global index not below `g` does not change the term before `g` -/
theorem PackageAssignments.termBefore_decide {pa : PackageAssignments S V} {t0 : Term S}
    (h0 : pa.inter = .derivations t0) (dl next : Nat) (v : V) {g : Nat} (hg : g ≤ next) :
    (pa.decide dl next v).termBefore g = pa.termBefore g := by
  unfold PackageAssignments.termBefore PackageAssignments.decide
  simp only [h0]
  rw [if_neg (by omega)]

end Events
end Pubgrub

/-
Helpers for `Freshness.lean`, part 2: freshness of the effective queue during the prioritizing and
picking phases (`EQ`), the algebra of `lastPrio`-style maps, and the run-level invariant `FInv` with
its preservation by `Solver.step`.
-/
import PubgrubProofs.FreshnessAux1
import PubgrubProofs.Protocol

set_option linter.unusedSectionVars false
set_option linter.unusedVariables false

namespace Pubgrub
open VersionSet

section PS
variable {P S V M Pr : Type} [DecidableEq P] [VersionSet S V] [DecidableEq S]
  [LawfulVersionSet S V]

/-- freshness of the effective queue (the queue overlaid with the priorities `acc` collected so far
in the phase): packages answered in this phase were reported for their current set -/
def PartialSolution.EQ (lp : P → Option (S × Pr)) (ps : PartialSolution P S V Pr) (acc : List (P × Pr)) :
    Prop :=
  ∀ q pr, SmallMap.get (ps.afterPrioritize acc).queue q = some pr → ∃ sq, lp q = some (sq, pr) ∧
    ∀ i pa set, ps.assignments[i]? = some (q, pa) → pa.inter = .derivations (.pos set) →
      (q ∉ acc.map Prod.fst ∧ ps.Pend i pa) ∨ sq = set

namespace PartialSolution

theorem EQ_nil {lp : P → Option (S × Pr)} {ps : PartialSolution P S V Pr} (h : ps.QFresh lp) :
    ps.EQ lp [] := by
  intro q pr hq
  obtain ⟨sq, hlp, hall⟩ := h q pr hq
  refine ⟨sq, hlp, ?_⟩
  intro i pa set hi hs
  rcases hall i pa set hi hs with h1 | h1
  · exact Or.inl ⟨by simp, h1⟩
  · exact Or.inr h1

/-- what `toPrioritize` returns: undecided packages paired with their current positive set -/
theorem toPrioritize_mem {ps : PartialSolution P S V Pr} (h : ps.WF) {L : List (P × S)}
    (hL : ps.toPrioritize = .ok L) (q : P) (s : S) (hq : (q, s) ∈ L) :
    ∃ pa, ps.getPA q = some pa ∧ pa.inter = .derivations (.pos s) := by
  unfold toPrioritize at hL
  split at hL
  · cases hL
  injection hL with hL; subst hL
  rw [List.mem_filterMap] at hq
  obtain ⟨⟨q0, qa⟩, hx, hf⟩ := hq
  simp only at hf
  split at hf
  · unfold potentialPackageFilter at hf
    split at hf
    · cases hf
    · rename_i t ht
      split at hf
      · rename_i s0
        injection hf with hf; injection hf with hf1 hf2; subst hf1; subst hf2
        exact ⟨qa, SmallMap.get_of_mem h.keys (List.mem_of_mem_drop hx), ht⟩
      · cases hf
  · cases hf

theorem afterPrioritize_snoc_queue (ps : PartialSolution P S V Pr) (acc : List (P × Pr)) (c : P) (pr : Pr) :
    (ps.afterPrioritize (acc ++ [(c, pr)])).queue = SmallMap.insert (ps.afterPrioritize acc).queue c pr := by
  simp [afterPrioritize, queuePush, List.foldl_append]

/-- one more answer of the prioritizing phase -/
theorem EQ_snoc {lp : P → Option (S × Pr)} {ps : PartialSolution P S V Pr} (h : ps.WF)
    {acc : List (P × Pr)} {c : P} {sc : S} {L : List (P × S)} (hL : ps.toPrioritize = .ok L)
    (hc : (c, sc) ∈ L) (he : ps.EQ lp acc) (pr : Pr) :
    ps.EQ (fun x => if c = x then some (sc, pr) else lp x) (acc ++ [(c, pr)]) := by
  intro q pr' hq
  rw [afterPrioritize_snoc_queue, SmallMap.get_insert] at hq
  by_cases hqc : q = c
  · subst hqc
    rw [if_pos rfl] at hq
    injection hq with hq; subst hq
    refine ⟨sc, by simp, ?_⟩
    intro i pa set hi hs
    right
    obtain ⟨pa', hpa', hs'⟩ := toPrioritize_mem h hL q sc hc
    have := getPA_of_getElem h hi
    rw [hpa'] at this; injection this with this; subst this
    rw [hs'] at hs; injection hs with hs; injection hs
  · rw [if_neg hqc] at hq
    obtain ⟨sq, hlp, hall⟩ := he q pr' hq
    have hcq : ¬ c = q := fun e => hqc e.symm
    refine ⟨sq, by simp only [if_neg hcq]; exact hlp, ?_⟩
    intro i pa set hi hs
    rcases hall i pa set hi hs with ⟨h1, h2⟩ | h1
    · left
      refine ⟨?_, h2⟩
      simp only [List.map_append, List.map_cons, List.map_nil, List.mem_append, List.mem_singleton]
      rintro (h3 | h3)
      · exact h1 h3
      · exact hqc h3
    · exact Or.inr h1

/-- at the pop every queued package was last reported for its current set -/
theorem EQ.settled {lp : P → Option (S × Pr)} {ps : PartialSolution P S V Pr} {acc : List (P × Pr)}
    (he : ps.EQ lp acc) {L : List (P × S)} (hL : ps.toPrioritize = .ok L)
    (hk : L.map Prod.fst = acc.map Prod.fst) {q : P} {pr : Pr}
    (hq : SmallMap.get (ps.afterPrioritize acc).queue q = some pr) :
    ∃ sq, lp q = some (sq, pr) ∧
      ∀ (i : Nat) (pa : PackageAssignments S V) (set : S), ps.assignments[i]? = some (q, pa) →
        pa.inter = .derivations (.pos set) → sq = set := by
  obtain ⟨sq, hlp, hall⟩ := he q pr hq
  refine ⟨sq, hlp, ?_⟩
  intro i pa set hi hs
  rcases hall i pa set hi hs with ⟨h1, h2, h3⟩ | h1
  · exact absurd (hk ▸ toPrioritize_complete hL hi hs h2 h3) h1
  · exact h1

/-- the state after the pop is fresh, and nothing is pending -/
theorem EQ.pick {lp : P → Option (S × Pr)} {ps : PartialSolution P S V Pr} {acc : List (P × Pr)}
    (he : ps.EQ lp acc) {L : List (P × S)} (hL : ps.toPrioritize = .ok L)
    (hk : L.map Prod.fst = acc.map Prod.fst) (hw : (ps.afterPrioritize acc).WF) (p : P) :
    ({ ps.afterPrioritize acc with queue := SmallMap.remove (ps.afterPrioritize acc).queue p } :
      PartialSolution P S V Pr).QFresh lp := by
  intro q pr hq
  simp only at hq
  rw [SmallMap.get_remove _ hw.queue_keys] at hq
  split at hq
  · cases hq
  obtain ⟨sq, hlp, hall⟩ := he.settled hL hk hq
  exact ⟨sq, hlp, fun i pa set hi hs => Or.inr (hall i pa set hi hs)⟩

end PartialSolution
end PS

section Run
variable {P S V M Pr E : Type} [DecidableEq P] [VersionSet S V] [DecidableEq S] [DecidableEq V]
  [LE Pr] [DecidableLE Pr] [LawfulVersionSet S V]

/-- how the map of the last reported `(set, priority)` evolves with one request/answer pair -/
def lpNext (lp : P → Option (S × Pr)) : Request P S V M Pr E → Answer P S V M Pr E → P → Option (S × Pr)
  | .prioritize q s, .priority pr => fun x => if q = x then some (s, pr) else lp x
  | _, _ => lp

/-- the run-level freshness invariant, relative to the map `lp` of last reports -/
structure FInv (lp : P → Option (S × Pr)) (x : SolverState P S V M Pr × Request P S V M Pr E) : Prop where
  cancel : x.1.phase = .cancel → x.1.st.ps.QFresh lp
  choosing : ∀ p t, x.1.phase = .choosing p t →
    x.1.st.ps.QFresh lp ∧ x.1.st.ps.changed = x.1.st.ps.assignments.length
  fetching : ∀ p v, x.1.phase = .fetching p v →
    x.1.st.ps.QFresh lp ∧ x.1.st.ps.changed = x.1.st.ps.assignments.length
  prioritizing : ∀ cur rest acc, x.1.phase = .prioritizing cur rest acc → x.1.st.ps.EQ lp acc
  picking : ∀ acc, x.1.phase = .picking acc → x.1.st.ps.EQ lp acc
  chooseReq : ∀ p set, x.2 = .chooseVersion p set → ∃ pr, lp p = some (set, pr)

theorem finv_finish (lp : P → Option (S × Pr)) (s : SolverState P S V M Pr) (r : Request P S V M Pr E)
    (hr : ∀ p set, r ≠ .chooseVersion p set) : FInv lp (Solver.finish s r) := by
  refine ⟨?_, ?_, ?_, ?_, ?_, ?_⟩
  · intro h; simp [Solver.finish] at h
  · intro _ _ h; simp [Solver.finish] at h
  · intro _ _ h; simp [Solver.finish] at h
  · intro _ _ _ h; simp [Solver.finish] at h
  · intro _ h; simp [Solver.finish] at h
  · intro p set h; exact absurd h (hr p set)

theorem finv_loopAgain (lp : P → Option (S × Pr)) (s : SolverState P S V M Pr) (st : State P S V M Pr)
    (h : st.ps.QFresh lp) : FInv (E := E) lp (Solver.loopAgain s st) := by
  refine ⟨?_, ?_, ?_, ?_, ?_, ?_⟩
  · intro _; exact h
  · intro _ _ h; simp [Solver.loopAgain] at h
  · intro _ _ h; simp [Solver.loopAgain] at h
  · intro _ _ _ h; simp [Solver.loopAgain] at h
  · intro _ h; simp [Solver.loopAgain] at h
  · intro p set h; simp [Solver.loopAgain] at h

theorem finv_start (debug : Bool) (fuel : Nat) (root : P) (rv : V) :
    FInv (fun _ => none)
      (Solver.start (Pr := Pr) (E := E) (M := M) (S := S) debug fuel root rv) := by
  refine ⟨?_, ?_, ?_, ?_, ?_, ?_⟩
  · intro _ q pr h; simp [Solver.start, State.init, PartialSolution.empty, SmallMap.get] at h
  · intro _ _ h; simp [Solver.start] at h
  · intro _ _ h; simp [Solver.start] at h
  · intro _ _ _ h; simp [Solver.start] at h
  · intro _ h; simp [Solver.start] at h
  · intro p set h; simp [Solver.start] at h

end Run
end Pubgrub

/-
Helpers for `CollapseNoPanic.lean`, part 3: conflict resolution and unit propagation keep `StoreCK`
(on every outcome, the terminal one included) and `RW`.
-/
import PubgrubProofs.CollapseNoPanicAux2

set_option linter.unusedSectionVars false
set_option linter.unusedVariables false

namespace Pubgrub
open VersionSet

section
variable {P S V M Pr : Type} [DecidableEq P] [VersionSet S V] [DecidableEq S] [LawfulVersionSet S V]

namespace State

/-- the clause learned by one resolution step is not a `noVersions` clause resolved against the
`notRoot` clause: a `noVersions root s` clause is terminal (J), and the `notRoot` clause is never
satisfied by the partial solution -/
theorem priorCause_ck (W : World P S V M) (root : P) (rv : V) {st : State P S V M Pr}
    (hs : SInv W root rv st) (hp : PInv st) (ht : TInv root rv st) (hne : st.ps.NE)
    (hrw : st.ps.RW root rv) (hck : StoreCK root rv st.store)
    {cur c : Nat} {inc causeInc prior : Incompat P S V M}
    (hinc : st.store[cur]? = some inc) (hcause : st.store[c]? = some causeInc)
    (hsat : st.ps.Satisfies inc) (hnt : inc.isTerminal root rv = false) {pkg : P}
    (hgetp : (inc.get pkg).isSome = true) (hcget : (causeInc.get pkg).isSome = true)
    (hprior : Incompat.priorCause cur c inc causeInc pkg = .ok prior) :
    prior.CK root rv st.store := by
  have gi := hs.store cur inc hinc
  have gc := hs.store c causeInc hcause
  obtain ⟨_, _, _, _, _, _, _, hpk, _⟩ :=
    Incompat.priorCause_spec inc causeInc gi.nodup gc.nodup cur c pkg prior hprior
  unfold Incompat.CK
  rw [hpk]
  simp only
  refine ⟨inc, causeInc, hinc, hcause, ?_⟩
  rintro (⟨h1, h2⟩ | ⟨h1, h2⟩)
  · obtain ⟨p, s, hk⟩ := Kind.isNoVersionsK_elim h1
    obtain ⟨p', v', hk'⟩ := Kind.isNotRootK_elim h2
    have t1 := gi.terms_noVersions hk
    have t2 := gc.terms_notRoot hk'
    have e1 : pkg = p := Incompat.key_of_get_singleton t1 hgetp
    have e2 : pkg = root := Incompat.key_of_get_singleton t2 hcget
    have hj := hck cur inc hinc
    unfold Incompat.CK at hj
    rw [hk] at hj
    simp only at hj
    have hc := hj (by rw [← e1, e2])
    have : inc.isTerminal root rv = true := by
      unfold Incompat.isTerminal
      rw [t1]
      simp [Term.contains, hc, ← e1, e2]
    rw [this] at hnt; cases hnt
  · obtain ⟨p, v, hk⟩ := Kind.isNotRootK_elim h1
    have t1 := gi.terms_notRoot hk
    obtain ⟨pa, hpa, himp⟩ := hsat root _ (by rw [t1]; exact List.mem_singleton.2 rfl)
    obtain ⟨s, hs', hc⟩ := root_term hp ht hne hrw hpa
    rw [hs'] at himp
    have := himp (some rv) hc
    simp [Term.eval, (LawfulVersionSet.contains_singleton rv rv).2 rfl] at this

/-- conflict resolution keeps (J)/(D) of the store on every outcome, and `RW` when it backjumps -/
theorem conflictResolution_ck (W : World P S V M) (root : P) (rv : V) :
    ∀ (fuel : Nat) (st : State P S V M Pr) (cur : Nat) (changed : Bool),
    SInv W root rv st → PInv st → TInv root rv st →
    (∃ inc, st.store[cur]? = some inc ∧ st.ps.Satisfies inc) → st.ps.NE → st.ps.RW root rv →
    StoreCK root rv st.store →
    Safe (conflictResolution fuel st cur changed)
      (fun x => StoreCK root rv x.1.store ∧ ∀ pkg rc, x.2 = .ok (pkg, rc) → x.1.ps.RW root rv) := by
  intro fuel
  induction fuel with
  | zero => intro st cur changed _ _ _ _ _ _ _; unfold conflictResolution; exact Safe.fuel
  | succ fuel ih =>
    intro st cur changed hs hp ht ⟨inc, hinc, hsat⟩ hne hrw hck
    have hw := hp.wf
    have gi := hs.store cur inc hinc
    unfold conflictResolution
    refine Safe.bind_ok (storeGet_some hinc) ?_
    have hterm : inc.isTerminal st.rootPackage st.rootVersion = inc.isTerminal root rv := by
      rw [hs.root, hs.rv]
    rw [hterm]
    split
    · exact Safe.ok ⟨hck, fun pkg rc h => by cases h⟩
    rename_i hnt
    have hnt' : inc.isTerminal root rv = false := by
      cases h : inc.isTerminal root rv with
      | true => exact absurd h hnt
      | false => rfl
    have hlvl : st.ps.currentDecisionLevel ≠ 0 := by
      intro h0
      rw [terminal_of_level0 W root rv hs ht hinc hsat h0] at hnt'; cases hnt'
    refine Safe.bind (PartialSolution.satisfierSearch_safe (TInv.searchCtx hs hp ht) gi.nodup gi.sets hsat hnt') ?_
    intro ⟨pkg, search⟩ hss hpost
    dsimp only
    cases search with
    | differentDecisionLevels prev =>
      dsimp only
      refine Safe.bind (backtrack_safe hp cur changed prev) ?_
      intro st1 hst1 ⟨hbt, hstore⟩
      exact Safe.ok ⟨backtrack_ck hst1 hck, fun _ _ _ => hbt.rw hw hrw⟩
    | sameDecisionLevels c =>
      dsimp only
      obtain ⟨hgetp, pa, dd, hpa, hdd, hc⟩ := hpost
      simp only at hgetp hpa hc
      obtain ⟨causeInc, hcause, hcget, _⟩ := ht.cause pkg pa (SmallMap.mem_of_get hpa) dd hdd
      rw [hc] at hcause
      refine Safe.bind_ok (storeGet_some hcause) ?_
      obtain ⟨prior, hprior⟩ := Incompat.priorCause_ok cur c hgetp hcget
      refine Safe.bind_ok hprior ?_
      have gp := Incompat.priorCause_good W root rv st.store cur c inc causeInc hinc hcause gi
        (hs.store _ _ hcause) pkg prior hprior st.store.length (List.getElem?_eq_some_iff.1 hinc).1
        (List.getElem?_eq_some_iff.1 hcause).1
      have hs2 : SInv W root rv ({ st with store := st.store ++ [prior] } : State P S V M Pr) :=
        ⟨storeInv_push W root rv st.store prior hs.store gp, hs.root, hs.rv, hs.ps⟩
      have hp2 : PInv ({ st with store := st.store ++ [prior] } : State P S V M Pr) := hp.storeAppend [prior]
      have hne' : st.ps.assignments ≠ [] := by
        intro e
        have := SmallMap.mem_of_get hpa
        rw [e] at this; cases this
      have ht2 : TInv root rv ({ st with store := st.store ++ [prior] } : State P S V M Pr) :=
        ht.storeExt rfl (fun i inc' hi => by
          show (st.store ++ [prior])[i]? = some inc'
          rw [List.getElem?_append_left (List.getElem?_eq_some_iff.1 hi).1]; exact hi) hne'
          (fun h0 => absurd h0 hlvl)
      have hpck := priorCause_ck W root rv hs hp ht hne hrw hck hinc hcause hsat hnt' hgetp hcget hprior
      refine ih _ _ _ hs2 hp2 ht2 ⟨prior, ?_, ?_⟩ hne hrw (storeCK_push hck hpck)
      · show (st.store ++ [prior])[st.store.length]? = some prior
        rw [List.getElem?_append_right (Nat.le_refl _)]; simp
      · exact satisfies_priorCause W root rv hs hp ht hinc hcause hsat hpa hdd hc hprior

theorem propagateIncompats_ck (W : World P S V M) (root : P) (rv : V) :
    ∀ (ids : List Nat) (st : State P S V M Pr), SInv W root rv st → PInv st → TInv root rv st →
    st.ps.RW root rv → StoreCK root rv st.store →
    Safe (propagateIncompats st ids) (fun x => x.1.ps.RW root rv ∧ StoreCK root rv x.1.store) := by
  intro ids
  induction ids with
  | nil =>
    intro st hs hp ht hrw hck
    unfold propagateIncompats
    exact Safe.ok ⟨hrw, hck⟩
  | cons id rest ih =>
    intro st hs hp ht hrw hck
    unfold propagateIncompats
    split
    · exact ih st hs hp ht hrw hck
    split
    · rename_i e he
      exact Safe.error_of_eq he (Safe.storeGet (fun _ _ => trivial))
    rename_i inc hinc
    have hinc' := storeGet_ok hinc
    have hid := storeGet_lt hinc
    split
    · exact Safe.ok ⟨hrw, hck⟩
    · rename_i p hrel
      obtain ⟨⟨ps', hps⟩, hnext⟩ := almost_derivation W root rv hs hp ht hinc' hrel
      rw [hps]
      dsimp only
      refine ih _ ⟨hs.store, hs.root, hs.rv, PartialSolution.addDerivation_termsValid W root rv hs.store hs.ps hps⟩
        (hp.derive hid hps _ _) (hnext ps' hps _ rfl rfl) (addDerivation_rw W root rv hs hp ht hrw hps) hck
    · exact ih _ ⟨hs.store, hs.root, hs.rv, hs.ps⟩ (hp.cacheInsert hid _) (ht.congr rfl rfl) hrw hck
    · exact ih st hs hp ht hrw hck

theorem unitPropagationLoop_ck (ce : CanonEmpty S V) (W : World P S V M) (root : P) (rv : V) :
    ∀ (fuel : Nat) (st : State P S V M Pr), SInv W root rv st → PInv st → TInv root rv st → st.ps.NE →
    st.ps.RW root rv → StoreCK root rv st.store →
    Safe (unitPropagationLoop fuel st)
      (fun x => StoreCK root rv x.1.store ∧ (x.2 = none → x.1.ps.RW root rv)) := by
  intro fuel
  induction fuel with
  | zero => intro st _ _ _ _ _ _; unfold unitPropagationLoop; exact Safe.fuel
  | succ fuel ih =>
    intro st hs hp ht hne hrw hck
    unfold unitPropagationLoop
    split
    · exact Safe.ok ⟨hck, fun _ => hrw⟩
    dsimp only
    split
    · exact Safe.panic (by not_listed)
    rename_i ids hids
    have hs0 : SInv W root rv ({ st with buffer := st.buffer.dropLast } : State P S V M Pr) :=
      ⟨hs.store, hs.root, hs.rv, hs.ps⟩
    have hp0 : PInv ({ st with buffer := st.buffer.dropLast } : State P S V M Pr) := ⟨hp.wf, hp.cache⟩
    have ht0 : TInv root rv ({ st with buffer := st.buffer.dropLast } : State P S V M Pr) := ht.congr rfl rfl
    have hprop := propagateIncompats_safe W root rv ids.reverse _ hs0 hp0 ht0
    have hpropne := propagateIncompats_ne ce W root rv ids.reverse
      ({ st with buffer := st.buffer.dropLast } : State P S V M Pr) hs0 hp0 ht0 hne
    have hpropck := propagateIncompats_ck W root rv ids.reverse
      ({ st with buffer := st.buffer.dropLast } : State P S V M Pr) hs0 hp0 ht0 hrw hck
    split
    · rename_i e he
      exact Safe.error_of_eq he hprop.weaken
    · rename_i st1 he
      have hs1 := propagateIncompats_inv W root rv _ _ he hs0
      have hp1 := (propagateIncompats_pinv (o := none) _ _ he hp0).1
      have ht1 := (hprop.of_ok he).1
      obtain ⟨hrw1, hck1⟩ := hpropck.of_ok he
      exact ih st1 hs1 hp1 ht1 (hpropne.of_ok he) hrw1 hck1
    · rename_i st1 cid he
      have hs1 := propagateIncompats_inv W root rv _ _ he hs0
      have hp1 := (propagateIncompats_pinv (o := none) _ _ he hp0).1
      obtain ⟨ht1, hsat⟩ := hprop.of_ok he
      have hne1 : st1.ps.NE := hpropne.of_ok he
      obtain ⟨hrw1, hck1⟩ := hpropck.of_ok he
      obtain ⟨inc, hinc, hrel⟩ := hsat cid rfl
      have hsat1 : ∃ inc, st1.store[cid]? = some inc ∧ st1.ps.Satisfies inc :=
        ⟨inc, hinc, PartialSolution.satisfies_of_relation W root rv hs1 hinc hrel⟩
      have hcr := conflictResolution_safe W root rv fuel st1 cid false hs1 hp1 ht1 hsat1
      have hcrne := conflictResolution_ne W root rv fuel st1 cid false hs1 hp1 ht1 hsat1 hne1
      have hcrck := conflictResolution_ck W root rv fuel st1 cid false hs1 hp1 ht1 hsat1 hne1 hrw1 hck1
      split
      · rename_i e he2
        exact Safe.error_of_eq he2 hcr.weaken
      · rename_i st2 terminal he2
        exact Safe.ok ⟨(hcrck.of_ok he2).1, fun h => by cases h⟩
      · rename_i st2 pkg rc he2
        obtain ⟨hs2, _⟩ := conflictResolution_inv W root rv _ _ _ _ he2 hs1
        obtain ⟨hp2, _⟩ := conflictResolution_pinv _ _ _ _ he2 hp1
        obtain ⟨ht2, hac⟩ := hcr.of_ok he2 pkg rc rfl
        obtain ⟨hne2, inc2', t2, hinc2', hget2', hnimp⟩ := hcrne.of_ok he2 pkg rc rfl
        obtain ⟨hck2, hrw2'⟩ := hcrck.of_ok he2
        have hrw2 := hrw2' pkg rc rfl
        obtain ⟨inc2, hinc2, hget2, hoth2⟩ := hac.stored
        obtain ⟨ps', hps⟩ := PartialSolution.addDerivation_ok hinc2 hget2 hac.undecided
        rw [hps]
        dsimp only
        obtain ⟨inc', t0, t', pa', hinc', ht0, hnone, hstep⟩ :=
          PartialSolution.addDerivation_step W root rv hs2.store hp2.wf.wf hps
        rw [hinc2] at hinc'; injection hinc' with hinc'; subst hinc'
        refine ih _ ⟨hs2.store, hs2.root, hs2.rv,
            PartialSolution.addDerivation_termsValid W root rv hs2.store hs2.ps hps⟩
          (hp2.derive (List.getElem?_eq_some_iff.1 hinc2).1 hps _ _) ?_
          (derivation_ne ce W root rv hs2 hinc2' hget2' hnimp hne2 hps)
          (addDerivation_rw W root rv hs2 hp2 ht2 hrw2 hps) hck2
        refine tinv_deriv W root rv hs2 hp2 ht2 hstep hinc2 ht0 hnone hoth2 ?_ rfl rfl
        intro h0
        have := hac.level
        simp only at this h0
        omega

theorem unitPropagation_ck (ce : CanonEmpty S V) (W : World P S V M) (root : P) (rv : V) (fuel : Nat)
    (st : State P S V M Pr) (p : P) (hs : SInv W root rv st) (hp : PInv st) (ht : TInv root rv st)
    (hne : st.ps.NE) (hrw : st.ps.RW root rv) (hck : StoreCK root rv st.store) :
    Safe (unitPropagation fuel st p)
      (fun x => StoreCK root rv x.1.store ∧ (x.2 = none → x.1.ps.RW root rv)) := by
  unfold unitPropagation
  exact unitPropagationLoop_ck ce W root rv fuel _ ⟨hs.store, hs.root, hs.rv, hs.ps⟩ ⟨hp.wf, hp.cache⟩
    (ht.congr rfl rfl) hne hrw hck

end State
end
end Pubgrub

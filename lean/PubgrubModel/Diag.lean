/-
Executable candidate invariants of the solver state, evaluated by the driver on mirrored runs
(a test of conjectured invariants before they are proved; not part of any theorem).
-/
import PubgrubModel.SolveDriver

namespace Pubgrub.Diag
open Pubgrub Pubgrub.SolveDriver

variable {S : Type} [VersionSet S Nat] [DecidableEq S]

def indexedIds (st : State Pk S Nat String Nat) : List Nat :=
  (st.incompatibilities.flatMap fun kv => kv.2).eraseDups

/-- counts (satisfied, almostSatisfied) among indexed clauses -/
def relCounts (st : State Pk S Nat String Nat) : Nat × Nat × List String :=
  (indexedIds st).foldl (fun (acc : Nat × Nat × List String) id =>
    match st.store[id]? with
    | none => acc
    | some inc =>
      match st.ps.relation inc with
      | .satisfied => (acc.1 + 1, acc.2.1, acc.2.2 ++ [s!"S{id}"])
      | .almostSatisfied p =>
        match inc.get p with
        | some (.neg _) => (acc.1, acc.2.1 + 1, acc.2.2 ++ [s!"A{id}:{p}"])
        | _ => acc
      | _ => acc) (0, 0, [])

/-- undecided packages with a positive term that are not in the queue -/
def unqueued (ps : PartialSolution Pk S Nat Nat) : List String :=
  ps.assignments.filterMap fun (p, pa) =>
    match pa.inter with
    | .derivations (.pos _) => if (SmallMap.get ps.queue p).isSome then none else some p
    | _ => none

def diagReplay (io : SetIO S) : (n : Nat) → St S → Rq S → List String → List String → List String
  | 0, _, _, _, out => out
  | n + 1, s, req, answers, out =>
    match resultText io req with
    | some r => out ++ [r]
    | none =>
      match answers with
      | [] => out
      | a :: rest =>
        match parseAnswer io a with
        | none => out
        | some ans =>
          let (s', req') := Solver.step s ans
          let out := match req' with
            | .pick q =>
              let ps' := { s'.st.ps with queue := q }
              let (ns, na, items) := relCounts s'.st
              out ++ [s!"pick sat={ns} almost={na} [{" ".intercalate items}] unqueued=[{",".intercalate (unqueued ps')}]"]
            | _ => out
          diagReplay io n s' req' rest out

def diagLine (io : SetIO S) (debug : Bool) (root : String) (rv : Nat) (answers : String) : String :=
  let (s, req) := Solver.start (P := Pk) (S := S) (V := Nat) (M := String) (Pr := Nat) (E := String)
    debug 1000000 root rv
  let ans := if answers == "" then [] else answers.splitOn ";;"
  ";;".intercalate (diagReplay io (ans.length + 5) s req ans [])

end Pubgrub.Diag

namespace Pubgrub.Diag
open Pubgrub Pubgrub.SolveDriver
variable {S : Type} [VersionSet S Nat] [DecidableEq S]

def nondecreasing : List Nat → Bool
  | a :: b :: t => a ≤ b && nondecreasing (b :: t)
  | _ => true
def strictlyIncreasing : List Nat → Bool
  | a :: b :: t => a < b && strictlyIncreasing (b :: t)
  | _ => true

/-- candidate invariant I-PS: well-formedness of the partial solution; returns the failed clauses -/
def checkPS (ps : PartialSolution Pk S Nat Nat) : List String :=
  let dl := ps.currentDecisionLevel
  let n := ps.assignments.length
  let idx := List.zip (List.range n) ps.assignments
  let c1 := if ps.changed ≤ n then [] else ["changed>len"]
  let c2 := if dl ≤ n then [] else ["dl>len"]
  let c3 := idx.flatMap fun (i, (p, pa)) =>
    match pa.inter with
    | .decision g v t =>
      (if i < dl then [] else [s!"decision-outside-prefix:{p}"]) ++
      (if pa.highest == i + 1 then [] else [s!"decision-level-mismatch:{p}"]) ++
      (if t = Term.exact v then [] else [s!"decision-term-not-exact:{p}"]) ++
      (if pa.dated.all (fun dd => dd.globalIndex < g) then [] else [s!"decision-gidx:{p}"]) ++
      (match pa.dated.getLast? with
        | some dd => if dd.accumulated.contains v then [] else [s!"decision-not-in-term:{p}"]
        | none => []) ++
      (if g < ps.nextGlobalIndex then [] else [s!"gidx>=next:{p}"])
    | .derivations t =>
      (if i ≥ dl then [] else [s!"derivation-inside-prefix:{p}"]) ++
      (match pa.dated.getLast?, pa.dated.head? with
        | some l, some f =>
          (if l.accumulated = t then [] else [s!"term-not-last-accumulated:{p}"]) ++
          (if l.decisionLevel == pa.highest then [] else [s!"highest-not-last-level:{p}"]) ++
          (if f.decisionLevel == pa.smallest then [] else [s!"smallest-not-first-level:{p}"])
        | _, _ => [s!"no-derivation:{p}"]) ++
      (if pa.highest ≤ dl then [] else [s!"highest>dl:{p}"])
  let c4 := idx.flatMap fun (_, (p, pa)) =>
    (if nondecreasing (pa.dated.map (·.decisionLevel)) then [] else [s!"levels-decrease:{p}"]) ++
    (if strictlyIncreasing (pa.dated.map (·.globalIndex)) then [] else [s!"gidx-not-increasing:{p}"]) ++
    (if pa.dated.all (fun dd => dd.globalIndex < ps.nextGlobalIndex) then [] else [s!"dd-gidx>=next:{p}"]) ++
    (if pa.smallest ≤ pa.highest then [] else [s!"smallest>highest:{p}"])
  let keys := ps.assignments.map (·.1)
  let c5 := if keys.eraseDups.length == keys.length then [] else ["duplicate-package"]
  let allG := ps.assignments.flatMap fun (_, pa) =>
    pa.dated.map (·.globalIndex) ++ (match pa.inter with | .decision g _ _ => [g] | _ => [])
  let c6 := if allG.eraseDups.length == allG.length then [] else ["duplicate-global-index"]
  let c7 := ps.queue.flatMap fun (p, _) =>
    match SmallMap.get ps.assignments p with
    | some pa => (match pa.inter with
      | .derivations (.pos _) => []
      | _ => [s!"queued-not-undecided-positive:{p}"])
    | none => [s!"queued-absent:{p}"]
  let qk := ps.queue.map (·.1)
  let c8 := if qk.eraseDups.length == qk.length then [] else ["duplicate-queue-key"]
  c1 ++ c2 ++ c3 ++ c4 ++ c5 ++ c6 ++ c7 ++ c8

/-- candidate invariant I-Q: every undecided positive package other than `inflight` is queued or will be
re-prioritised at the next pick -/
def checkQ (ps : PartialSolution Pk S Nat Nat) (inflight : Option Pk) : List String :=
  let dl := ps.currentDecisionLevel
  let checkAll := ps.changed == dl - 1
  let n := ps.assignments.length
  (List.zip (List.range n) ps.assignments).flatMap fun (i, (p, pa)) =>
    match pa.inter with
    | .derivations (.pos _) =>
      if some p = inflight then [] else
      if (SmallMap.get ps.queue p).isSome then [] else
      if i ≥ ps.changed && (checkAll || pa.highest == dl) then [] else [s!"lost:{p}"]
    | _ => []

def inv2Replay (io : SetIO S) : (n : Nat) → St S → Rq S → List String → List String → List String
  | 0, _, _, _, out => out
  | n + 1, s, req, answers, out =>
    match resultText io req with
    | some _ => out
    | none =>
      match answers with
      | [] => out
      | a :: rest =>
        match parseAnswer io a with
        | none => out
        | some ans =>
          let (s', req') := Solver.step s ans
          let inflight : Option Pk := match s'.phase with
            | .cancel | .choosing _ _ | .fetching _ _ => some s'.next
            | _ => none
          let bad := checkPS s'.st.ps ++ checkQ s'.st.ps inflight
          let ph := match s'.phase with
            | .cancel => "cancel" | .prioritizing _ _ _ => "prioritizing" | .picking _ => "picking"
            | .choosing _ _ => "choosing" | .fetching _ _ => "fetching" | .finished => "finished"
          let out := if bad.isEmpty then out else out ++ [s!"{ph}/{a}:" ++ ",".intercalate bad ++ " @ " ++ psSnapshot io s'.st.ps]
          inv2Replay io n s' req' rest out

def inv2Line (io : SetIO S) (debug : Bool) (root : String) (rv : Nat) (answers : String) : String :=
  let (s, req) := Solver.start (P := Pk) (S := S) (V := Nat) (M := String) (Pr := Nat) (E := String)
    debug 1000000 root rv
  let ans := if answers == "" then [] else answers.splitOn ";;"
  ";;".intercalate (inv2Replay io (ans.length + 5) s req ans [])

end Pubgrub.Diag

namespace Pubgrub.Diag
open Pubgrub Pubgrub.SolveDriver
variable {S : Type} [VersionSet S Nat] [DecidableEq S]

def ownedBy (inc : Incompat Pk S Nat String) (p : Pk) : Bool :=
  match inc.kind with
  | .fromDependencyOf q _ _ _ => q == p
  | .noVersions q _ => q == p
  | .custom q _ _ => q == p
  | _ => false

/-- the partial solution restricted to the assignments of level ≤ l (the model's own `backtrack`) -/
def restrictPS (ps : PartialSolution Pk S Nat Nat) (l : Nat) : Option (PartialSolution Pk S Nat Nat) :=
  match ps.backtrack l with
  | .ok r => some r
  | .error _ => none

/-- candidate Inv-Own: the clauses owned by a decided package are contradicted at every level from its
decision level up -/
def checkOwn (st : State Pk S Nat String Nat) : List String :=
  let ps := st.ps
  let dl := ps.currentDecisionLevel
  (List.zip (List.range dl) (ps.assignments.take dl)).flatMap fun (i, (p, _)) =>
    let ids := (SmallMap.get st.incompatibilities p).getD []
    (List.range' (i + 1) (dl - i)).flatMap fun l =>
      match restrictPS ps l with
      | none => [s!"restrict-failed:{l}"]
      | some psl =>
        ids.flatMap fun id =>
          match st.store[id]? with
          | none => [s!"bad-id:{id}"]
          | some inc =>
            if ownedBy inc p then
              match psl.relation inc with
              | .contradicted _ => []
              | _ => [s!"own-not-contradicted:{p}@level{l}:I{id}"]
            else []

/-- candidate cache soundness -/
def checkCache (st : State Pk S Nat String Nat) : List String :=
  st.contradicted.flatMap fun (id, dlc) =>
    if dlc > st.ps.currentDecisionLevel then [s!"cache-level-above:{id}"] else
    match restrictPS st.ps dlc, st.store[id]? with
    | some psl, some inc =>
      (match psl.relation inc with
        | .contradicted _ => []
        | _ => [s!"cache-not-contradicted:I{id}@{dlc}"])
    | _, _ => [s!"cache-bad:{id}"]

/-- candidate index completeness: every external clause owned by p is indexed under p, itself or through
a merged clause with the same dependency and a larger dependent set -/
def checkIndexComplete (st : State Pk S Nat String Nat) : List String :=
  (List.zip (List.range st.store.length) st.store).flatMap fun (id, inc) =>
    match inc.kind with
    | .fromDependencyOf p s q t =>
      let ids := (SmallMap.get st.incompatibilities p).getD []
      if ids.any (fun id' => match st.store[id']? with
          | some inc' => (match inc'.kind with
            | .fromDependencyOf p' s' q' t' => p' == p && q' == q && decide (t' = t) && VersionSet.subsetOf s s'
            | _ => false)
          | none => false) then [] else [s!"dep-clause-not-indexed:I{id}"]
    | .custom p _ _ | .noVersions p _ =>
      if ((SmallMap.get st.incompatibilities p).getD []).contains id then [] else [s!"owned-clause-not-indexed:I{id}"]
    | _ => []

def inv3Replay (io : SetIO S) : (n : Nat) → St S → Rq S → List String → List String → List String
  | 0, _, _, _, out => out
  | n + 1, s, req, answers, out =>
    match resultText io req with
    | some _ => out
    | none =>
      match answers with
      | [] => out
      | a :: rest =>
        match parseAnswer io a with
        | none => out
        | some ans =>
          let (s', req') := Solver.step s ans
          let out := match req' with
            | .pick _ | .solution _ =>
              let bad := checkOwn s'.st ++ checkCache s'.st ++ checkIndexComplete s'.st
              if bad.isEmpty then out ++ ["ok"] else out ++ [",".intercalate bad ++ " @ " ++ psSnapshot io s'.st.ps]
            | _ => out
          inv3Replay io n s' req' rest out

def inv3Line (io : SetIO S) (debug : Bool) (root : String) (rv : Nat) (answers : String) : String :=
  let (s, req) := Solver.start (P := Pk) (S := S) (V := Nat) (M := String) (Pr := Nat) (E := String)
    debug 1000000 root rv
  let ans := if answers == "" then [] else answers.splitOn ";;"
  ";;".intercalate (inv3Replay io (ans.length + 5) s req ans [])

end Pubgrub.Diag

namespace Pubgrub.Diag
open Pubgrub Pubgrub.SolveDriver
variable {S : Type} [VersionSet S Nat] [DecidableEq S]

/-- the term of a package restricted to the assignments with global index < g -/
def termBefore (pa : PackageAssignments S Nat) (g : Nat) : Option (Term S) :=
  let fromDated := ((pa.dated.filter fun dd => dd.globalIndex < g).getLast?).map (·.accumulated)
  match pa.inter with
  | .decision gd _ t => if gd < g then some t else fromDated
  | .derivations _ => fromDated

/-- candidate CauseInv: when a derivation was made, every other term of its cause was satisfied by the
assignments made before it -/
def checkCause (st : State Pk S Nat String Nat) : List String :=
  st.ps.assignments.flatMap fun (p, pa) =>
    pa.dated.flatMap fun dd =>
      match st.store[dd.cause]? with
      | none => [s!"cause-missing:{p}"]
      | some inc =>
        (if (inc.get p).isSome then [] else [s!"cause-lacks-package:{p}/I{dd.cause}"]) ++
        inc.terms.flatMap fun (r, tr) =>
          if r == p then [] else
          match (SmallMap.get st.ps.assignments r).bind (fun par => termBefore par dd.globalIndex) with
          | none => [s!"other-term-unassigned:{p}/I{dd.cause}/{r}"]
          | some t => if t.subsetOf tr then [] else [s!"other-term-not-satisfied:{p}/I{dd.cause}/{r}"]

/-- candidate level monotonicity: global indices and decision levels are ordered alike -/
def checkLevelMono (ps : PartialSolution Pk S Nat Nat) : List String :=
  let all : List (Nat × Nat × Bool) := ps.assignments.flatMap fun (_, pa) =>
    pa.dated.map (fun dd => (dd.globalIndex, dd.decisionLevel, false)) ++
    (match pa.inter with | .decision g _ _ => [(g, pa.highest, true)] | _ => [])
  all.flatMap fun (g1, l1, _) => all.flatMap fun (g2, l2, d2) =>
    if g1 < g2 then
      (if l1 ≤ l2 then [] else [s!"level-order:{g1}@{l1}>{g2}@{l2}"]) ++
      (if d2 && l1 ≥ l2 then [s!"decision-level-not-fresh:{g2}@{l2}"] else [])
    else []

def inv4Replay (io : SetIO S) : (n : Nat) → St S → Rq S → List String → List String → List String
  | 0, _, _, _, out => out
  | n + 1, s, req, answers, out =>
    match resultText io req with
    | some _ => out
    | none =>
      match answers with
      | [] => out
      | a :: rest =>
        match parseAnswer io a with
        | none => out
        | some ans =>
          let (s', req') := Solver.step s ans
          let fin := match s'.phase with | .finished => true | _ => false
          let bad := if fin then [] else checkCause s'.st ++ checkLevelMono s'.st.ps
          let out := if bad.isEmpty then out ++ ["ok"] else out ++ [",".intercalate bad ++ " @ " ++ psSnapshot io s'.st.ps]
          inv4Replay io n s' req' rest out

def inv4Line (io : SetIO S) (debug : Bool) (root : String) (rv : Nat) (answers : String) : String :=
  let (s, req) := Solver.start (P := Pk) (S := S) (V := Nat) (M := String) (Pr := Nat) (E := String)
    debug 1000000 root rv
  let ans := if answers == "" then [] else answers.splitOn ";;"
  ";;".intercalate (inv4Replay io (ans.length + 5) s req ans [])

end Pubgrub.Diag

namespace Pubgrub.Diag
open Pubgrub Pubgrub.SolveDriver
variable {S : Type} [VersionSet S Nat] [DecidableEq S]

/-- candidate NonEmpty: no current or accumulated term is `Positive(∅)` -/
def checkNonEmpty (ps : PartialSolution Pk S Nat Nat) : List String :=
  let isEmptyPos (t : Term S) : Bool := match t with | .pos s => decide (s = (VersionSet.empty : S)) | .neg _ => false
  ps.assignments.flatMap fun (p, pa) =>
    (if isEmptyPos pa.inter.term then [s!"empty-term:{p}"] else []) ++
    (pa.dated.flatMap fun dd => if isEmptyPos dd.accumulated then [s!"empty-accumulated:{p}"] else [])

def inv5Replay (io : SetIO S) : (n : Nat) → St S → Rq S → List String → List String → List String
  | 0, _, _, _, out => out
  | n + 1, s, req, answers, out =>
    match resultText io req with
    | some _ => out
    | none =>
      match answers with
      | [] => out
      | a :: rest =>
        match parseAnswer io a with
        | none => out
        | some ans =>
          let (s', req') := Solver.step s ans
          let fin := match s'.phase with | .finished => true | _ => false
          let bad := if fin then [] else checkNonEmpty s'.st.ps
          let out := if bad.isEmpty then out ++ ["ok"] else out ++ [",".intercalate bad ++ " @ " ++ psSnapshot io s'.st.ps]
          inv5Replay io n s' req' rest out

def inv5Line (io : SetIO S) (debug : Bool) (root : String) (rv : Nat) (answers : String) : String :=
  let (s, req) := Solver.start (P := Pk) (S := S) (V := Nat) (M := String) (Pr := Nat) (E := String)
    debug 1000000 root rv
  let ans := if answers == "" then [] else answers.splitOn ";;"
  ";;".intercalate (inv5Replay io (ans.length + 5) s req ans [])

/-- candidate termination measure: per decision level `i ≤ dl`, the "gain" of the partial solution
restricted to level `i`: Σ over present packages of (T + 2 − size term), size = test versions contained
+ 1 if negative; tests = 0..7 -/
def termSize (t : Term S) : Nat :=
  ((List.range 8).filter fun v => Term.contains t v).length + (match t with | .neg _ => 1 | .pos _ => 0)

def gainVec (ps : PartialSolution Pk S Nat Nat) : List Nat :=
  (List.range (ps.currentDecisionLevel + 1)).map fun i =>
    match restrictPS ps i with
    | none => 0
    | some r => (r.assignments.map fun (_, pa) => 10 - termSize pa.inter.term).sum

def reqKind (_io : SetIO S) (r : Rq S) : String :=
  match r with
  | .shouldCancel => "C" | .prioritize _ _ => "P" | .pick _ => "K" | .chooseVersion _ _ => "V"
  | .getDependencies _ _ => "D" | _ => "F"

def inv6Replay (io : SetIO S) : (n : Nat) → St S → Rq S → List String → List String → List String
  | 0, _, _, _, out => out
  | n + 1, s, req, answers, out =>
    match resultText io req with
    | some _ => out
    | none =>
      match answers with
      | [] => out
      | a :: rest =>
        match parseAnswer io a with
        | none => out
        | some ans =>
          let (s', req') := Solver.step s ans
          let out := out ++ [reqKind io req' ++ ":" ++ " ".intercalate ((gainVec s'.st.ps).map toString) ++ ":" ++ toString s'.st.ps.nextGlobalIndex]
          inv6Replay io n s' req' rest out

def inv6Line (io : SetIO S) (debug : Bool) (root : String) (rv : Nat) (answers : String) : String :=
  let (s, req) := Solver.start (P := Pk) (S := S) (V := Nat) (M := String) (Pr := Nat) (E := String)
    debug 1000000 root rv
  let ans := if answers == "" then [] else answers.splitOn ";;"
  ";;".intercalate (inv6Replay io (ans.length + 5) s req ans [])

end Pubgrub.Diag

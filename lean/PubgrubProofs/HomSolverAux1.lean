/-
Homomorphisms of version sets, part 1: generic lemmas (`Except`, association lists, lists) and
the commutation lemmas for `PubgrubModel/Term.lean` and `PubgrubModel/SmallMap.lean`.
-/
import PubgrubProofs.HomDefs

namespace Pubgrub
open VersionSet

/-! ### `Except` -/

section ExceptLemmas
variable {ε α β γ : Type}

@[simp] theorem exceptMap_ok (f : α → β) (a : α) : Except.map (ε := ε) f (.ok a) = .ok (f a) := rfl
@[simp] theorem exceptMap_error (f : α → β) (e : ε) : Except.map (ε := ε) f (.error e : Except ε α) = .error e := rfl
@[simp] theorem exceptMap_pure (f : α → β) (a : α) :
    Except.map (ε := ε) f (pure a : Except ε α) = pure (f a) := rfl
@[simp] theorem exceptMap_throw (f : α → β) (e : ε) :
    Except.map (ε := ε) f (throw e : Except ε α) = throw e := rfl

theorem exceptMap_bind (f : β → γ) (x : Except ε α) (k : α → Except ε β) :
    Except.map f (x >>= k) = x >>= fun a => Except.map f (k a) := by
  cases x <;> rfl

/-- the workhorse: a mapped computation bound to a continuation that commutes -/
theorem except_bind_map (m : α → β) (x : Except ε α) (k : β → Except ε γ) :
    (Except.map m x >>= k) = x >>= fun a => k (m a) := by
  cases x <;> rfl

theorem except_bind_congr (x : Except ε α) (k k' : α → Except ε β) (hk : ∀ a, k a = k' a) :
    (x >>= k) = (x >>= k') := by
  have : k = k' := funext hk
  rw [this]

@[simp] theorem except_ok_bind (a : α) (k : α → Except ε β) : ((Except.ok a : Except ε α) >>= k) = k a := rfl
@[simp] theorem except_error_bind (e : ε) (k : α → Except ε β) :
    ((Except.error e : Except ε α) >>= k) = .error e := rfl
@[simp] theorem except_pure_eq (a : α) : (pure a : Except ε α) = .ok a := rfl
@[simp] theorem except_throw_eq (e : ε) : (throw e : Except ε α) = .error e := rfl

end ExceptLemmas

@[simp] theorem unwrapOr_map {α β : Type} (g : α → β) (o : Option α) (site : String) :
    unwrapOr (o.map g) site = (unwrapOr o site).map g := by
  cases o <;> rfl

@[simp] theorem hom_unwrapOr_some {α : Type} (a : α) (site : String) : unwrapOr (some a) site = .ok a := rfl
@[simp] theorem hom_unwrapOr_none {α : Type} (site : String) :
    unwrapOr (none : Option α) site = .error (.panic site) := rfl

/-! ### association lists: mapping the values -/

section MapVals
variable {K T T' : Type} [DecidableEq K]

/-- map the values of an association list -/
abbrev mapVals (g : T → T') (l : List (K × T)) : List (K × T') := l.map fun kv => (kv.1, g kv.2)

@[simp] theorem SmallMap.get_mapVals (g : T → T') (l : List (K × T)) (k : K) :
    SmallMap.get (l.map fun kv => (kv.1, g kv.2)) k = (SmallMap.get l k).map g := by
  induction l with
  | nil => rfl
  | cons x l ih =>
    obtain ⟨k', v⟩ := x
    simp only [List.map_cons, SmallMap.get]
    split
    · rfl
    · exact ih

@[simp] theorem SmallMap.insert_mapVals (g : T → T') (l : List (K × T)) (k : K) (v : T) :
    SmallMap.insert (l.map fun kv => (kv.1, g kv.2)) k (g v) =
      (SmallMap.insert l k v).map fun kv => (kv.1, g kv.2) := by
  induction l with
  | nil => rfl
  | cons x l ih =>
    obtain ⟨k', v'⟩ := x
    simp only [List.map_cons, SmallMap.insert]
    split
    · rfl
    · simp only [List.map_cons, ih]

@[simp] theorem SmallMap.remove_mapVals (g : T → T') (l : List (K × T)) (k : K) :
    SmallMap.remove (l.map fun kv => (kv.1, g kv.2)) k =
      (SmallMap.remove l k).map fun kv => (kv.1, g kv.2) := by
  induction l with
  | nil => rfl
  | cons x l ih =>
    obtain ⟨k', v'⟩ := x
    simp only [List.map_cons, SmallMap.remove]
    split
    · rfl
    · simp only [List.map_cons, ih]

@[simp] theorem SmallMap.splitOne_mapVals (g : T → T') (l : List (K × T)) (k : K) :
    SmallMap.splitOne (l.map fun kv => (kv.1, g kv.2)) k =
      (SmallMap.splitOne l k).map fun x => (g x.1, x.2.map fun kv => (kv.1, g kv.2)) := by
  unfold SmallMap.splitOne
  rw [SmallMap.get_mapVals]
  cases SmallMap.get l k with
  | none => rfl
  | some v => simp

theorem SmallMap.merge_mapVals (g : T → T') (l l2 : List (K × T)) (f : T → T → Option T)
    (f' : T' → T' → Option T') (hf : ∀ a b, f' (g a) (g b) = (f a b).map g) :
    SmallMap.merge (l.map fun kv => (kv.1, g kv.2)) (l2.map fun kv => (kv.1, g kv.2)) f' =
      (SmallMap.merge l l2 f).map fun kv => (kv.1, g kv.2) := by
  unfold SmallMap.merge
  induction l2 generalizing l with
  | nil => rfl
  | cons x l2 ih =>
    simp only [List.map_cons, List.foldl_cons, SmallMap.get_mapVals]
    cases hx : SmallMap.get l x.1 with
    | none =>
      simp only [Option.map_none, SmallMap.insert_mapVals]
      exact ih _
    | some v1 =>
      simp only [Option.map_some, hf]
      cases f v1 x.2 with
      | none => simp only [Option.map_none, SmallMap.remove_mapVals]; exact ih _
      | some mg => simp only [Option.map_some, SmallMap.insert_mapVals]; exact ih _

@[simp] theorem SmallMap.containsKey_mapVals (g : T → T') (l : List (K × T)) (k : K) :
    SmallMap.containsKey (l.map fun kv => (kv.1, g kv.2)) k = SmallMap.containsKey l k := by
  simp [SmallMap.containsKey]

omit [DecidableEq K] in
theorem findIdx_mapVals (g : T → T') (l : List (K × T)) (p : K → Bool) :
    (l.map fun kv => (kv.1, g kv.2)).findIdx (fun kv => p kv.1) = l.findIdx (fun kv => p kv.1) := by
  induction l with
  | nil => rfl
  | cons x l ih => simp only [List.map_cons, List.findIdx_cons, ih]

end MapVals

/-! ### the arena and `swap_indices` -/

@[simp] theorem storeGet_map {α β : Type} (g : α → β) (store : List α) (id : Nat) :
    storeGet (store.map g) id = (storeGet store id).map g := by
  simp [storeGet]

@[simp] theorem swapIndices_map {α β : Type} (g : α → β) (l : List α) (i j : Nat) :
    swapIndices (l.map g) i j = (swapIndices l i j).map (List.map g) := by
  unfold swapIndices
  simp only [List.getElem?_map]
  cases l[i]? <;> cases l[j]? <;> simp [List.map_set]

/-! ### `Term` -/

section TermLemmas
variable {S V S' V' : Type} [VersionSet S V] [VersionSet S' V']

@[simp] theorem Term.mapH_pos (h : VSetHom S V S' V') (s : S) : Term.mapH h (.pos s) = .pos (h.f s) := rfl
@[simp] theorem Term.mapH_neg (h : VSetHom S V S' V') (s : S) : Term.mapH h (.neg s) = .neg (h.f s) := rfl

@[simp] theorem VSetHom.f_eq_iff (h : VSetHom S V S' V') (a b : S) : h.f a = h.f b ↔ a = b :=
  ⟨h.f_inj a b, fun e => e ▸ rfl⟩

@[simp] theorem VSetHom.ι_eq_iff (h : VSetHom S V S' V') (a b : V) : h.ι a = h.ι b ↔ a = b :=
  ⟨h.ι_inj a b, fun e => e ▸ rfl⟩

@[simp] theorem VSetHom.f_eq_empty_iff (h : VSetHom S V S' V') (a : S) :
    h.f a = (empty : S') ↔ a = (empty : S) := by
  rw [← h.map_empty, h.f_eq_iff]

@[simp] theorem VSetHom.f_eq_full_iff (h : VSetHom S V S' V') (a : S) :
    h.f a = (full : S') ↔ a = (full : S) := by
  rw [← h.map_full, h.f_eq_iff]

theorem Term.mapH_injective (h : VSetHom S V S' V') : Function.Injective (Term.mapH h) := by
  intro a b e
  cases a <;> cases b <;> simp_all [Term.mapH]

@[simp] theorem Term.mapH_eq_iff (h : VSetHom S V S' V') (a b : Term S) :
    Term.mapH h a = Term.mapH h b ↔ a = b :=
  (Term.mapH_injective h).eq_iff

@[simp] theorem Term.optMapH_eq_iff (h : VSetHom S V S' V') (a b : Option (Term S)) :
    a.map (Term.mapH h) = b.map (Term.mapH h) ↔ a = b :=
  (Option.map_injective (Term.mapH_injective h)).eq_iff

@[simp] theorem Term.mapH_any (h : VSetHom S V S' V') : Term.mapH h (Term.any : Term S) = Term.any := by
  simp [Term.any, h.map_empty]

@[simp] theorem Term.mapH_empty (h : VSetHom S V S' V') : Term.mapH h (Term.empty : Term S) = Term.empty := by
  simp [Term.empty, h.map_empty]

@[simp] theorem Term.mapH_eq_any_iff (h : VSetHom S V S' V') (a : Term S) :
    Term.mapH h a = (Term.any : Term S') ↔ a = Term.any := by
  rw [← Term.mapH_any h, Term.mapH_eq_iff]

@[simp] theorem Term.mapH_exact (h : VSetHom S V S' V') (v : V) :
    Term.mapH h (Term.exact v : Term S) = Term.exact (h.ι v) := by
  simp [Term.exact, h.map_singleton]

@[simp] theorem Term.isPositive_mapH (h : VSetHom S V S' V') (t : Term S) :
    (Term.mapH h t).isPositive = t.isPositive := by
  cases t <;> rfl

@[simp] theorem Term.negate_mapH (h : VSetHom S V S' V') (t : Term S) :
    (Term.mapH h t).negate = Term.mapH h t.negate := by
  cases t <;> rfl

@[simp] theorem Term.contains_mapH (h : VSetHom S V S' V') (t : Term S) (v : V) :
    (Term.mapH h t).contains (h.ι v) = t.contains v := by
  cases t <;> simp [Term.contains, h.map_contains]

@[simp] theorem Term.intersection_mapH (h : VSetHom S V S' V') (a b : Term S) :
    (Term.mapH h a).intersection (Term.mapH h b) = Term.mapH h (a.intersection b) := by
  cases a <;> cases b <;>
    simp [Term.intersection, h.map_intersection, h.map_complement, h.map_union]

@[simp] theorem Term.union_mapH (h : VSetHom S V S' V') (a b : Term S) :
    (Term.mapH h a).union (Term.mapH h b) = Term.mapH h (a.union b) := by
  cases a <;> cases b <;>
    simp [Term.union, h.map_intersection, h.map_complement, h.map_union]

@[simp] theorem Term.isDisjoint_mapH (h : VSetHom S V S' V') (a b : Term S) :
    (Term.mapH h a).isDisjoint (Term.mapH h b) = a.isDisjoint b := by
  cases a <;> cases b <;> simp [Term.isDisjoint, h.map_isDisjoint, h.map_subsetOf]

@[simp] theorem Term.subsetOf_mapH (h : VSetHom S V S' V') (a b : Term S) :
    (Term.mapH h a).subsetOf (Term.mapH h b) = a.subsetOf b := by
  cases a <;> cases b <;> simp [Term.subsetOf, h.map_isDisjoint, h.map_subsetOf]

@[simp] theorem Term.relationWith_mapH (h : VSetHom S V S' V') (a b : Term S) :
    (Term.mapH h a).relationWith (Term.mapH h b) = a.relationWith b := by
  simp [Term.relationWith]

end TermLemmas

end Pubgrub

/-
Property C06 — Every constraint the solver records is true of all solutions.

"Every incompatibility the solver records while solving - taken from the provider or learned during
conflict resolution, whether or not it later appears in an error report, and also in runs that end in
Ok - is valid: no set of package versions that contains the root and satisfies all dependencies makes
all of its terms true at once."

The theorem is about the coroutine model of `resolve` (`PubgrubModel/Solver.lean`), generic over the
package type, the version-set implementation (any `LawfulVersionSet`), the priority type; for every
world `W` (finite or not), every sequence of provider answers consistent with `W` (any `prioritize`,
any tie-breaking of the queue, callbacks may fail, `choose_version` may even answer outside its set),
every fuel, every prefix of the run whatever its end.
-/
import PubgrubProofs.StoreInvariant
import PubgrubProofs.RangeAnyOrder

namespace Pubgrub.C06
open Pubgrub

variable {P S V M Pr E : Type} [DecidableEq P] [VersionSet S V] [DecidableEq S] [DecidableEq V]
  [LE Pr] [DecidableLE Pr] [LawfulVersionSet S V]

/-- C06 -/
theorem C06_store_valid (W : World P S V M) (hW : W.SetsValid) (debug : Bool) (fuel : Nat)
    (root : P) (rv : V) (s : SolverState P S V M Pr) (req : Request P S V M Pr E)
    (h : Reachable W debug fuel root rv (s, req)) (id : Nat) (i : Incompat P S V M)
    (hi : s.st.store[id]? = some i) :
    ∀ σ : P → Option V, IsSolution W root rv σ → ¬ (∀ p t, (p, t) ∈ i.terms → t.eval (σ p) = true) :=
  (reachable_storeInv W hW debug fuel root rv (s, req) h id i hi).valid

/-- the full store invariant (distinct keys, valid sets, true provenance) that C02 and C03 build on -/
theorem C06_store_invariant (W : World P S V M) (hW : W.SetsValid) (debug : Bool) (fuel : Nat)
    (root : P) (rv : V) (s : SolverState P S V M Pr) (req : Request P S V M Pr E)
    (h : Reachable W debug fuel root rv (s, req)) : StoreInv W root rv s.st.store :=
  reachable_storeInv W hW debug fuel root rv (s, req) h

/-! Non-vacuity: the initial state is reachable and its store holds the `not root` clause. -/
example (W : World P S V M) (debug : Bool) (fuel : Nat) (root : P) (rv : V) :
    Reachable (Pr := Pr) (E := E) W debug fuel root rv (Solver.start debug fuel root rv) := .start
example (debug : Bool) (fuel : Nat) (root : P) (rv : V) :
    (Solver.start (S := S) (M := M) (Pr := Pr) (E := E) debug fuel root rv).1.st.store[0]? =
      some (Incompat.notRoot root rv) := rfl

/-! ### `Range V` over ANY linear order (the discrete `u32`, `SemanticVersion` included), where `Range` is
not a `LawfulVersionSet`: pulled back along the embedding into `Range (V ×ₗ ℚ)` (RangeHom, HomSolver,
RangeAnyOrder) -/
section AnyOrder
variable {P V M Pr E : Type} [DecidableEq P] [LinearOrder V] [LE Pr] [DecidableLE Pr]

theorem C06_range_store_valid (W : World P (Range V) V M) (hW : W.RangesWF) (debug : Bool) (fuel : Nat)
    (root : P) (rv : V) (s : SolverState P (Range V) V M Pr) (req : Request P (Range V) V M Pr E)
    (h : Reachable W debug fuel root rv (s, req)) (id : Nat) (i : Incompat P (Range V) V M)
    (hi : s.st.store[id]? = some i) :
    ∀ σ : P → Option V, IsSolution W root rv σ → ¬ (∀ p t, (p, t) ∈ i.terms → t.eval (σ p) = true) :=
  range_store_valid W hW debug fuel root rv s req h id i hi

end AnyOrder

end Pubgrub.C06

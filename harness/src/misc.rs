//! C20 (SemanticVersion), C18 (OfflineDependencyProvider), C19 (serde), C07 (determinism).
use crate::cases::{Case, Sink};
use crate::hset::HSet;
use crate::util::*;
use pubgrub::{
    resolve, DefaultStringReporter, Dependencies, DependencyProvider, OfflineDependencyProvider, PubGrubError, Range,
    Reporter, SemanticVersion, VersionParseError, VersionSet,
};
use std::cmp::Ordering;
use std::collections::{BTreeMap, BTreeSet};

type VS = Range<u32>;

fn ord_s(o: Ordering) -> &'static str {
    match o {
        Ordering::Less => "lt",
        Ordering::Equal => "eq",
        Ordering::Greater => "gt",
    }
}

// ------------------------------------------------------------------ C20

/// `sv1|M|m|p`
pub fn eval_sv1(req: &str, ma: u32, mi: u32, pa: u32) -> Case {
    let v = SemanticVersion::new(ma, mi, pa);
    let disp = v.to_string();
    let back: Result<SemanticVersion, _> = disp.parse();
    let t: (u32, u32, u32) = v.into();
    let from_t: SemanticVersion = t.into();
    let from_ref: SemanticVersion = (&t).into();
    let show = |x: SemanticVersion| x.to_string();
    let bp = if pa < u32::MAX { show(v.bump_patch()) } else { "overflow".into() };
    let bmi = if mi < u32::MAX { show(v.bump_minor()) } else { "overflow".into() };
    let bma = if ma < u32::MAX { show(v.bump_major()) } else { "overflow".into() };
    let imp = format!("DISP={}|RT={}|TUP={},{},{}|BP={}|BMI={}|BMA={}", disp, bit(back == Ok(v)), t.0, t.1, t.2, bp, bmi, bma);
    let mut fail = None;
    if back != Ok(v) {
        fail = Some("Display followed by FromStr is not the identity".to_string());
    }
    if disp != format!("{}.{}.{}", ma, mi, pa) {
        fail = Some("Display is not major.minor.patch".to_string());
    }
    if t != (ma, mi, pa) || from_t != v || from_ref != v {
        fail = Some("tuple conversions are not inverse".to_string());
    }
    if pa < u32::MAX {
        let b = v.bump_patch();
        if !(b > v) || <(u32, u32, u32)>::from(b) != (ma, mi, pa + 1) {
            fail = Some("bump_patch wrong".to_string());
        }
    }
    if mi < u32::MAX {
        let b = v.bump_minor();
        if !(b > v) || <(u32, u32, u32)>::from(b) != (ma, mi + 1, 0) {
            fail = Some("bump_minor wrong".to_string());
        }
    }
    if ma < u32::MAX {
        let b = v.bump_major();
        if !(b > v) || <(u32, u32, u32)>::from(b) != (ma + 1, 0, 0) {
            fail = Some("bump_major wrong".to_string());
        }
    }
    Case { req: req.to_string(), imp, nontrivial: true, oracle_fail: fail, tags: vec!["semver_version"] }
}

/// `svcmp|M.m.p|M.m.p`
pub fn eval_svcmp(req: &str, a: &str, b: &str) -> Case {
    let pa: Vec<u32> = a.split('.').map(|x| x.parse().unwrap()).collect();
    let pb: Vec<u32> = b.split('.').map(|x| x.parse().unwrap()).collect();
    let (va, vb) = (SemanticVersion::new(pa[0], pa[1], pa[2]), SemanticVersion::new(pb[0], pb[1], pb[2]));
    let c = va.cmp(&vb);
    let want = (pa[0], pa[1], pa[2]).cmp(&(pb[0], pb[1], pb[2]));
    let mut fail = None;
    if c != want {
        fail = Some("ordering is not lexicographic on (major, minor, patch)".to_string());
    }
    if (c == Ordering::Equal) != (va == vb) || va.partial_cmp(&vb) != Some(c) {
        fail = Some("Ord / Eq / PartialOrd disagree".to_string());
    }
    Case { req: req.to_string(), imp: ord_s(c).to_string(), nontrivial: a != b, oracle_fail: fail, tags: vec!["semver_pair"] }
}

/// reference: what FromStr must do, written independently of the crate
fn ref_parse(s: &str) -> String {
    let parts: Vec<&str> = s.split('.').collect();
    if parts.len() != 3 {
        return "err3".to_string();
    }
    let mut vals = vec![];
    for p in &parts {
        let digits = if p.len() > 1 && p.starts_with('+') { &p[1..] } else { p };
        if p.is_empty() {
            return format!("errint|{}|cannot parse integer from empty string", p);
        }
        if !digits.bytes().all(|b| b.is_ascii_digit()) || digits.is_empty() {
            // an invalid digit met before an overflow is reported as invalid digit; the overflow case below
            // only arises for all-digit strings or when the overflow happens before the bad character
            let mut acc: u64 = 0;
            let mut res = None;
            for b in digits.bytes() {
                if !b.is_ascii_digit() {
                    res = Some("invalid digit found in string");
                    break;
                }
                acc = acc * 10 + (b - b'0') as u64;
                if acc > u32::MAX as u64 {
                    res = Some("number too large to fit in target type");
                    break;
                }
            }
            return format!("errint|{}|{}", p, res.unwrap_or("invalid digit found in string"));
        }
        let mut acc: u64 = 0;
        for b in digits.bytes() {
            acc = acc * 10 + (b - b'0') as u64;
            if acc > u32::MAX as u64 {
                return format!("errint|{}|number too large to fit in target type", p);
            }
        }
        vals.push(acc);
    }
    format!("ok {}.{}.{}", vals[0], vals[1], vals[2])
}

/// `svparse|<text>`
pub fn eval_svparse(req: &str, text: &str) -> Case {
    let r: Result<SemanticVersion, VersionParseError> = text.parse();
    let imp = match &r {
        Ok(v) => format!("ok {}", v),
        Err(VersionParseError::NotThreeParts { full_version }) => {
            if full_version != text {
                "err3-wrong-payload".to_string()
            } else {
                "err3".to_string()
            }
        }
        Err(VersionParseError::ParseIntError { full_version, version_part, parse_error }) => {
            if full_version != text {
                "errint-wrong-payload".to_string()
            } else {
                format!("errint|{}|{}", version_part, parse_error)
            }
        }
    };
    let want = ref_parse(text);
    let fail = if imp != want { Some(format!("FromStr gives {} but the reference reading gives {}", imp, want)) } else { None };
    let tag = if imp.starts_with("ok") { "parse_ok" } else if imp.starts_with("err3") { "parse_not_three_parts" } else { "parse_int_error" };
    Case { req: req.to_string(), imp, nontrivial: true, oracle_fail: fail, tags: vec![tag] }
}

pub fn gen_c20(sink: &mut Sink, thorough: bool, seed: u64) {
    let mut rng = Rng::new(seed ^ 0x2020);
    let grid: Vec<u32> = vec![0, 1, 9, 10, 4294967294, 4294967295];
    for &a in &grid {
        for &b in &grid {
            for &c in &grid {
                sink.push(crate::eval::eval_line(&format!("sv1|{}|{}|{}", a, b, c)));
            }
        }
    }
    let small: Vec<u32> = vec![0, 1, 10, 4294967295];
    let mut all = vec![];
    for &a in &small {
        for &b in &small {
            for &c in &small {
                all.push(format!("{}.{}.{}", a, b, c));
            }
        }
    }
    // a component on either side of every power of two (and of every constant new in a changed source file)
    // against the versions a packed or truncated comparison key would confuse it with
    let mut specials: Vec<u64> = vec![];
    for k in 1..=32u32 {
        specials.extend([(1u64 << k) - 1, 1u64 << k, (1u64 << k) + 1]);
    }
    for t in thresholds(u32::MAX as usize) {
        specials.extend([t as u64 - 1, t as u64, t as u64 + 1]);
        if t < 32 {
            specials.extend([(1u64 << t) - 1, 1u64 << t, (1u64 << t) + 1]);
        }
    }
    specials.retain(|c| *c <= u32::MAX as u64);
    specials.sort();
    specials.dedup();
    for &c in &specials {
        let shapes = [
            (format!("0.{}.0", c), vec!["1.0.0".to_string(), "0.0.0".into(), "1.0.1".into(), format!("0.{}.1", c), format!("1.{}.0", c), "0.0.1".into()]),
            (format!("0.0.{}", c), vec!["0.1.0".to_string(), "1.0.0".into(), "0.0.0".into(), "0.1.1".into(), format!("0.1.{}", c), format!("1.0.{}", c)]),
            (format!("0.{}.1", c), vec!["1.0.0".to_string(), "1.0.1".into(), format!("0.{}.0", c), "0.0.2".into()]),
            (format!("{}.0.0", c), vec!["0.1.0".to_string(), "0.0.1".into(), format!("{}.0.1", c), "1.0.0".into()]),
            (format!("3.7.{}", c), vec!["3.8.0".to_string(), "4.0.0".into(), "3.7.0".into()]),
            (format!("3.{}.7", c), vec!["4.0.0".to_string(), "3.0.8".into(), "4.0.7".into()]),
        ];
        for (x, ys) in shapes {
            for y in ys {
                sink.push(crate::eval::eval_line(&format!("svcmp|{}|{}", x, y)));
                sink.push(crate::eval::eval_line(&format!("svcmp|{}|{}", y, x)));
            }
        }
        for (a, b, cc) in [(0u64, c, 0u64), (0, 0, c), (3, 7, c), (c, 0, 0), (3, c, 7)] {
            sink.push(crate::eval::eval_line(&format!("sv1|{}|{}|{}", a, b, cc)));
        }
    }
    for x in &all {
        for y in &all {
            sink.push(crate::eval::eval_line(&format!("svcmp|{}|{}", x, y)));
        }
    }
    // grammar of well- and ill-formed texts
    let mut parts: Vec<String> = [
        "0", "1", "10", "007", "4294967295", "4294967296", "42949672950", "99999999999999999999", "+1", "+", "-", "-1", "-0", "+0", "++1", "",
        " 1", "1 ", "1a", "a", "abc", "1_0", "0x1", "١", "1e3", "4294967295x", "99999999999x", "+4294967295", "+4294967296",
        // zero-padded and long numerals: a u32 may be written with any number of leading zeros
        "00000000001", "000000000012", "004294967295", "0004294967295", "000000000004294967295", "000000000004294967296",
        "00000000000x", "000000000000", "+000000000012", "+00000000001", "0000000000000000000000000000000000000001",
        "00000000000000000000000000000000004294967296", "0000000000 1", "00000000000-",
    ]
    .iter()
    .map(|s| s.to_string())
    .collect();
    // numerals of t-1, t, t+1 bytes for every integer constant new in a changed source file
    for n in around_thresholds(400) {
        parts.push(format!("{}7", "0".repeat(n.saturating_sub(1))));
        parts.push(format!("{}4294967296", "0".repeat(n.saturating_sub(10))));
    }
    let mut texts: BTreeSet<String> = BTreeSet::new();
    for a in &parts {
        for b in ["1", "", "x", "4294967296", "+2"] {
            for c in ["2", "", "-3", "4294967295"] {
                texts.insert(format!("{}.{}.{}", a, b, c));
                texts.insert(format!("{}.{}.{}", b, a, c));
                texts.insert(format!("{}.{}.{}", c, b, a));
            }
        }
        texts.insert(a.to_string());
        texts.insert(format!("{}.{}", a, a));
        texts.insert(format!("1.2.3.{}", a));
        texts.insert(format!("{}.1.2.3", a));
    }
    for t in ["1.2.3", "1.2.3.", ".1.2.3", "1..3", "..", "...", ".", "", "1.2", "1,2,3", "1.2.3\n", "v1.2.3"] {
        texts.insert(t.to_string());
    }
    let n_random = if thorough { 200_000 } else { 5_000 };
    let alphabet = ['0', '1', '9', '.', '.', '+', '-', ' ', 'a', '4', '2'];
    for _ in 0..n_random {
        let len = rng.below(14) as usize;
        let s: String = (0..len).map(|_| alphabet[rng.below(alphabet.len() as u64) as usize]).collect();
        texts.insert(s);
    }
    for t in texts {
        if t.contains('|') || t.contains('\n') || t.contains('\r') {
            continue;
        }
        sink.push(crate::eval::eval_line(&format!("svparse|{}", t)));
    }
    sink.notes.push("exhaustive: the grid {0,1,9,10,u32::MAX-1,u32::MAX}^3 for Display/FromStr/tuples/bumps, all pairs of {0,1,10,u32::MAX}^3 for the ordering; strings from a grammar of well- and ill-formed version texts plus seeded random strings".into());
}

// ------------------------------------------------------------------ C18

/// ops text: `p@v:q=set,q=set;p@v:` in call order (duplicates and overwrites allowed)
fn parse_ops(s: &str) -> Vec<(String, u32, Vec<(String, VS)>)> {
    let mut out = vec![];
    for e in s.split(';') {
        if e.is_empty() {
            continue;
        }
        let (pv, rest) = e.split_once(':').unwrap();
        let (p, v) = pv.split_once('@').unwrap();
        let deps = if rest.is_empty() {
            vec![]
        } else {
            rest.split(',')
                .map(|d| {
                    let (q, s) = d.split_once('=').unwrap();
                    (q.to_string(), VS::from_machine(s))
                })
                .collect()
        };
        out.push((p.to_string(), v.parse().unwrap(), deps));
    }
    out
}

/// `offline|<ops>|<query sets separated by ;>`
pub fn eval_offline(req: &str, ops_s: &str, sets_s: &str) -> Case {
    let ops = parse_ops(ops_s);
    let sets: Vec<VS> = sets_s.split(';').filter(|s| !s.is_empty()).map(VS::from_machine).collect();
    let mut prov: OfflineDependencyProvider<String, VS> = OfflineDependencyProvider::new();
    // reference: last write wins
    let mut reference: BTreeMap<String, BTreeMap<u32, BTreeMap<String, VS>>> = BTreeMap::new();
    for (p, v, deps) in &ops {
        prov.add_dependencies(p.clone(), *v, deps.clone());
        let mut m = BTreeMap::new();
        for (q, s) in deps {
            m.insert(q.clone(), s.clone());
        }
        reference.entry(p.clone()).or_default().insert(*v, m);
    }
    let mut out: Vec<String> = vec![];
    let mut fail: Option<String> = None;
    let mut set = |m: String| {
        if fail.is_none() {
            fail = Some(m)
        }
    };
    let mut pkgs: Vec<String> = prov.packages().cloned().collect();
    let n_pk = pkgs.len();
    pkgs.sort();
    pkgs.dedup();
    if pkgs.len() != n_pk {
        set("packages() lists a package twice".into());
    }
    if pkgs != reference.keys().cloned().collect::<Vec<_>>() {
        set("packages() does not enumerate exactly the added packages".into());
    }
    out.push(format!("PK={}", pkgs.join(",")));
    let mut query_pkgs = pkgs.clone();
    query_pkgs.push("nosuch".to_string());
    let mut ranks: Vec<(usize, std::cmp::Reverse<usize>)> = vec![];
    for p in &query_pkgs {
        let vs: Option<Vec<u32>> = prov.versions(p).map(|it| it.cloned().collect());
        let want: Option<Vec<u32>> = reference.get(p).map(|m| m.keys().cloned().collect());
        if vs != want {
            set(format!("versions({}) = {:?}, expected ascending {:?}", p, vs, want));
        }
        out.push(format!("VS {}={}", p, vs.clone().map(|v| fmt_versions(&v)).unwrap_or("none".into())));
        let mut all_v: Vec<u32> = vs.clone().unwrap_or_default();
        all_v.push(77);
        for v in all_v {
            let d = prov.get_dependencies(p, &v).unwrap();
            let txt = match &d {
                Dependencies::Unavailable(m) => format!("U {}", m),
                Dependencies::Available(m) => {
                    let mut items: Vec<String> = m.iter().map(|(q, s)| format!("{}={}", q, s.to_machine())).collect();
                    items.sort();
                    format!("A {}", items.join(","))
                }
            };
            let want = match reference.get(p).and_then(|m| m.get(&v)) {
                None => match &d {
                    // the reason text is not fixed by the property: any `Unavailable` is accepted
                    Dependencies::Unavailable(_) => txt.clone(),
                    _ => "U <some reason>".to_string(),
                },
                Some(m) => {
                    // same canonical order as `txt`: the formatted entries sorted as strings
                    let mut items: Vec<String> = m.iter().map(|(q, s)| format!("{}={}", q, s.to_machine())).collect();
                    items.sort();
                    format!("A {}", items.join(","))
                }
            };
            if txt != want {
                set(format!("get_dependencies({}, {}) = {} expected {}", p, v, txt, want));
            }
            out.push(format!("GD {} {}={}", p, v, txt));
        }

        for s in &sets {
            let c = prov.choose_version(p, s).unwrap();
            let matching: Vec<u32> = reference.get(p).map(|m| m.keys().filter(|v| s.contains(v)).cloned().collect()).unwrap_or_default();
            if c != matching.last().cloned() {
                set(format!("choose_version({}, {}) = {:?} expected {:?}", p, s, c, matching.last()));
            }
            let pr = prov.prioritize(p, s);
            // (the property fixes the ranking, not the representation `Reverse(count)`; the count itself is
            // compared with the model by the mirror)
            // fewer matching versions => strictly higher priority: against every earlier (package, set)
            for (n, prev) in &ranks {
                if (matching.len() < *n) != (pr > *prev) || (matching.len() == *n) != (pr == *prev) {
                    set("prioritize does not rank fewer matching versions strictly higher".into());
                }
            }
            ranks.push((matching.len(), pr));
            out.push(format!("CV {} {}={};{}", p, s.to_machine(), c.map(|v| v.to_string()).unwrap_or("-".into()), matching.len()));
        }
    }
    let overwrites = ops.len() - reference.values().map(|m| m.len()).sum::<usize>();
    let mut tags = vec![];
    if overwrites > 0 {
        tags.push("history_with_overwrite");
    }
    if ops.iter().any(|(_, _, d)| {
        let mut k: Vec<&String> = d.iter().map(|x| &x.0).collect();
        k.sort();
        k.windows(2).any(|w| w[0] == w[1])
    }) {
        tags.push("duplicate_dependency_entry");
    }
    Case { req: req.to_string(), imp: out.join(" ## "), nontrivial: overwrites > 0 || ops.len() >= 3, oracle_fail: fail, tags }
}

pub fn gen_c18(sink: &mut Sink, thorough: bool, seed: u64) {
    let mut rng = Rng::new(seed ^ 0x1818);
    let sets = ["-", "u:u", "i1:i1", "i3:u", "u:e3", "i1:i1 i5:i5", "e1:e5"];
    let sets_s = sets.join(";");
    // exhaustive short histories over 2 packages x 2 versions x 3 dependency lists, length <= 3
    let pk = ["a", "b"];
    let vs = [1u32, 3];
    let deps = ["", "b=u:u", "a=i1:i1,b=i3:u,a=u:e3"];
    let mut single: Vec<String> = vec![];
    for p in pk {
        for v in vs {
            for d in deps {
                single.push(format!("{}@{}:{}", p, v, d));
            }
        }
    }
    let mut hist: Vec<Vec<String>> = vec![vec![]];
    let mut frontier: Vec<Vec<String>> = vec![vec![]];
    for _ in 0..(if thorough { 3 } else { 2 }) {
        let mut next = vec![];
        for h in &frontier {
            for s in &single {
                let mut t = h.clone();
                t.push(s.clone());
                next.push(t);
            }
        }
        hist.extend(next.iter().cloned());
        frontier = next;
    }
    for h in &hist {
        sink.push(crate::eval::eval_line(&format!("offline|{}|{}", h.join(";"), sets_s)));
    }
    sink.notes.push(format!("exhaustive: all {} histories of up to {} add_dependencies calls over 2 packages x 2 versions x 3 dependency lists (with overwrites and duplicate entries), every query", hist.len(), if thorough { 3 } else { 2 }));
    // scale: many versions per package, many packages, many dependencies in one call (a threshold on a count
    // in the provider shows); two packages whose numbers of matching versions differ by one must still rank apart
    let scales: &[(u32, u32)] = if thorough { &[(255, 256), (256, 257), (1023, 1024), (1024, 1025), (1100, 1101), (1500, 3000), (4095, 4097)] } else { &[(255, 257), (1024, 1025), (1100, 1101), (1500, 3000)] };
    let mut scales: Vec<(u32, u32)> = scales.to_vec();
    for t in thresholds(6000) {
        let t = t as u32;
        scales.extend([(t - 1, t + 1), (t, t + 1), (t + 1, 2 * t)]);
    }
    for &(na, nb) in &scales {
        let mut h: Vec<String> = vec![];
        // added in descending order, with an overwrite in the middle
        for v in (1..=na).rev() {
            h.push(format!("a@{}:", v));
        }
        for v in 1..=nb {
            h.push(format!("b@{}:{}", v, if v == nb / 2 { "a=u:u" } else { "" }));
        }
        h.push(format!("a@{}:b=i1:i1", na / 2));
        let big_sets = format!("u:u;i2:u;u:e{};i1:i1;i{}:i{} i{}:i{};e1:e{}", na, na, na, nb, nb, na.min(nb));
        sink.push(crate::eval::eval_line(&format!("offline|{}|{}", h.join(";"), big_sets)));
    }
    {
        // 400 packages of one version; one version with 400 dependency entries (every name twice)
        let mut h: Vec<String> = (0..400).map(|i| format!("p{}@1:", i)).collect();
        let ds: Vec<String> = (0..400).map(|i| format!("p{}={}", i % 200, if i < 200 { "u:u" } else { "i1:i1" })).collect();
        h.push(format!("p7@3:{}", ds.join(",")));
        sink.push(crate::eval::eval_line(&format!("offline|{}|{}", h.join(";"), "u:u;i1:i1;i3:u")));
    }
    sink.notes.push(format!("scale histories: packages with {:?} versions (descending insertion, overwrites), 400 packages, a version with 400 dependency entries", scales));
    let n_random = if thorough { 30_000 } else { 2_000 };
    for _ in 0..n_random {
        let n = 1 + rng.below(8) as usize;
        let mut h = vec![];
        for _ in 0..n {
            let p = ["a", "b", "c"][rng.below(3) as usize];
            let v = [1u32, 3, 5][rng.below(3) as usize];
            let nd = rng.below(4) as usize;
            let ds: Vec<String> = (0..nd).map(|_| format!("{}={}", ["a", "b", "c", "zz"][rng.below(4) as usize], VS::family(&mut rng).to_machine())).collect();
            h.push(format!("{}@{}:{}", p, v, ds.join(",")));
        }
        sink.push(crate::eval::eval_line(&format!("offline|{}|{}", h.join(";"), sets_s)));
    }
}

// ------------------------------------------------------------------ C19

/// canonical JSON text: object keys sorted (serde_json::Value is BTreeMap-backed)
fn canon_json(s: &str) -> String {
    let v: serde_json::Value = serde_json::from_str(s).expect("json");
    serde_json::to_string(&v).unwrap()
}

/// `serde_range|<segs>`
pub fn eval_serde_range(req: &str, a_s: &str) -> Case {
    let a = parse_range(a_s);
    let text = serde_json::to_string(&a).unwrap();
    let back: Result<Range<u32>, _> = serde_json::from_str(&text);
    let mut fail = None;
    if segs_of(&a) != parse_segs(a_s) {
        fail = Some("deserializing the bound-pair encoding of these segments yields other segments".to_string());
    }
    match &back {
        Ok(b) => {
            if *b != a {
                fail = Some("Range JSON round trip changed the value".to_string());
            }
        }
        Err(e) => fail = Some(format!("Range JSON does not deserialize: {}", e)),
    }
    match serde_json::from_reader::<_, Range<u32>>(std::io::Cursor::new(text.as_bytes())) {
        Ok(b) => {
            if b != a {
                fail = Some("Range round trip through serde_json::from_reader changed the value".to_string());
            }
        }
        Err(e) => fail = Some(format!("Range does not round-trip through serde_json::from_reader: {}", e)),
    }
    // the same through the JSON value tree (a deserializer that announces sequence lengths)
    match serde_json::to_value(&a).and_then(serde_json::from_value::<Range<u32>>) {
        Ok(b) => {
            if b != a || segs_of(&b) != segs_of(&a) {
                fail = Some(format!("Range round trip through serde_json::Value changed the value to {}", fmt_range(&b)));
            }
        }
        Err(e) => fail = Some(format!("Range does not round-trip through serde_json::Value: {}", e)),
    }
    Case { req: req.to_string(), imp: format!("J={}|RT={}", text, back.map(|b| fmt_range(&b)).unwrap_or("error".into())), nontrivial: !segs_of(&a).is_empty(), oracle_fail: fail, tags: vec!["serde_range"] }
}

/// `serde_legacy|<json text>|<ron text>` : the legacy (start, Option<end>) encoding
pub fn eval_serde_legacy(req: &str, json: &str, ron_text: &str, pairs: &str) -> Case {
    let from_json: Result<Range<u32>, _> = serde_json::from_str(json);
    let from_ron: Result<Range<u32>, _> = ron::from_str(ron_text);
    // expected: start <= v < end / start <= v
    let mut want: Vec<Seg> = vec![];
    for p in pairs.split(';').filter(|x| !x.is_empty()) {
        let (a, b) = p.split_once(',').unwrap();
        let a: u32 = a.parse().unwrap();
        want.push(match b {
            "-" => (std::ops::Bound::Included(a), std::ops::Bound::Unbounded),
            b => (std::ops::Bound::Included(a), std::ops::Bound::Excluded(b.parse().unwrap())),
        });
    }
    let mut fail = None;
    // also through the value tree
    if let Ok(v) = serde_json::from_str::<serde_json::Value>(json) {
        match serde_json::from_value::<Range<u32>>(v) {
            Ok(r) if segs_of(&r) == want => {}
            Ok(r) => fail = Some(format!("legacy JSON decoded through serde_json::Value gives {}", fmt_range(&r))),
            Err(e) => fail = Some(format!("legacy JSON does not decode through serde_json::Value: {}", e)),
        }
    }
    let j = match &from_json {
        Ok(r) => {
            if segs_of(r) != want {
                fail = Some("legacy JSON decodes to the wrong range".to_string());
            }
            fmt_range(r)
        }
        Err(e) => {
            fail = Some(format!("legacy JSON does not decode: {}", e));
            "error".into()
        }
    };
    let r = match &from_ron {
        Ok(r) => {
            if segs_of(r) != want {
                fail = Some("legacy RON decodes to the wrong range".to_string());
            }
            fmt_range(r)
        }
        Err(e) => {
            fail = Some(format!("legacy RON does not decode: {}", e));
            "error".into()
        }
    };
    Case { req: req.to_string(), imp: format!("J={}|R={}", j, r), nontrivial: !want.is_empty(), oracle_fail: fail, tags: vec!["serde_legacy"] }
}

/// `serde_semver|M|m|p`
pub fn eval_serde_semver(req: &str, ma: u32, mi: u32, pa: u32) -> Case {
    let v = SemanticVersion::new(ma, mi, pa);
    let text = serde_json::to_string(&v).unwrap();
    let back: Result<SemanticVersion, _> = serde_json::from_str(&text);
    let mut fail = if back.as_ref().ok() != Some(&v) { Some("SemanticVersion JSON round trip failed".to_string()) } else { None };
    // the other decoding routes of serde_json (owned / transient strings instead of borrowed ones)
    let routes: [(&str, Result<SemanticVersion, serde_json::Error>); 3] = [
        ("from_slice", serde_json::from_slice(text.as_bytes())),
        ("from_reader", serde_json::from_reader(std::io::Cursor::new(text.as_bytes()))),
        ("from_value", serde_json::to_value(&v).and_then(serde_json::from_value)),
    ];
    for (how, r) in routes {
        if r.as_ref().ok() != Some(&v) && fail.is_none() {
            fail = Some(format!("SemanticVersion does not round-trip through serde_json::{}: {:?}", how, r.err().map(|e| e.to_string())));
        }
    }
    Case { req: req.to_string(), imp: format!("J={}|RT={}", text, bit(back.ok() == Some(v))), nontrivial: true, oracle_fail: fail, tags: vec!["serde_semver"] }
}

fn resolve_text(p: &OfflineDependencyProvider<String, VS>, root: &str, rv: u32) -> String {
    let line = crate::eval::CURRENT_LINE.with(|l| l.borrow().clone());
    match crate::solver::watched(line, || resolve(p, root.to_string(), rv)) {
        Ok(sol) => {
            let m: BTreeMap<String, u32> = sol.into_iter().collect();
            format!("ok {:?}", m)
        }
        Err(PubGrubError::NoSolution(t)) => format!("nosolution {}", crate::solver::tree_sexp(&t)),
        Err(e) => format!("err {:?}", e),
    }
}

/// `serde_provider|<ops>|root|rv`
pub fn eval_serde_provider(req: &str, ops_s: &str, root: &str, rv: u32) -> Case {
    let ops = parse_ops(ops_s);
    let mut prov: OfflineDependencyProvider<String, VS> = OfflineDependencyProvider::new();
    for (p, v, deps) in &ops {
        prov.add_dependencies(p.clone(), *v, deps.clone());
    }
    let text = serde_json::to_string(&prov).unwrap();
    let back: Result<OfflineDependencyProvider<String, VS>, _> = serde_json::from_str(&text);
    let mut fail = None;
    let mut same = false;
    match &back {
        Err(e) => fail = Some(format!("provider JSON does not deserialize: {}", e)),
        Ok(b) => {
            // same packages, versions, dependencies
            let dump = |p: &OfflineDependencyProvider<String, VS>| -> BTreeMap<(String, u32), BTreeMap<String, String>> {
                let mut m = BTreeMap::new();
                for pk in p.packages() {
                    for v in p.versions(pk).unwrap() {
                        if let Dependencies::Available(d) = p.get_dependencies(pk, v).unwrap() {
                            m.insert((pk.clone(), *v), d.iter().map(|(q, s)| (q.clone(), s.to_machine())).collect());
                        }
                    }
                }
                m
            };
            if dump(&prov) != dump(b) {
                fail = Some("provider JSON round trip changed packages / versions / dependencies".to_string());
            }
            let (r1, r2) = (resolve_text(&prov, root, rv), resolve_text(b, root, rv));
            if r1 != r2 {
                fail = Some(format!("resolving against the deserialized provider differs: {} vs {}", r1, r2));
            }
            same = r1 == r2;
            // the same through the JSON value tree
            match serde_json::to_value(&prov).and_then(serde_json::from_value::<OfflineDependencyProvider<String, VS>>) {
                Err(e) => fail = Some(format!("provider does not round-trip through serde_json::Value: {}", e)),
                Ok(b2) => {
                    if dump(&prov) != dump(&b2) {
                        fail = Some("provider round trip through serde_json::Value changed packages / versions / dependencies".to_string());
                    }
                }
            }
        }
    }
    Case { req: req.to_string(), imp: format!("J={}|SAME={}", canon_json(&text), bit(same)), nontrivial: ops.len() >= 2, oracle_fail: fail, tags: vec!["serde_provider"] }
}

pub fn gen_c19(sink: &mut Sink, thorough: bool, seed: u64) {
    let mut rng = Rng::new(seed ^ 0x1919);
    let k = if thorough { 4 } else { 3 };
    for m in 0u64..(1u64 << (2 * k + 1)) {
        sink.push(crate::eval::eval_line(&format!("serde_range|{}", fmt_segs(&segs_of_mask(m, k)))));
    }
    for &a in &[0u32, 1, 10, 4294967295] {
        for &b in &[0u32, 9, 4294967295] {
            for &c in &[0u32, 1, 4294967294] {
                sink.push(crate::eval::eval_line(&format!("serde_semver|{}|{}|{}", a, b, c)));
            }
        }
    }
    // legacy shapes
    let n_leg = if thorough { 20_000 } else { 1_500 };
    for i in 0..n_leg {
        let n = if i == 0 { 0 } else { 1 + rng.below(4) as usize };
        let mut cur = 0u32;
        let mut pairs = vec![];
        for j in 0..n {
            let a = cur + 1 + rng.below(5) as u32;
            if j + 1 == n && rng.chance(1, 3) {
                pairs.push((a, None));
            } else {
                let b = a + 1 + rng.below(5) as u32;
                pairs.push((a, Some(b)));
                cur = b;
            }
        }
        let json = format!("[{}]", pairs.iter().map(|(a, b)| format!("[{},{}]", a, b.map(|x| x.to_string()).unwrap_or("null".into()))).collect::<Vec<_>>().join(","));
        let ron = format!("[{}]", pairs.iter().map(|(a, b)| format!("({}, {})", a, b.map(|x| format!("Some({})", x)).unwrap_or("None".into()))).collect::<Vec<_>>().join(", "));
        let ps = pairs.iter().map(|(a, b)| format!("{},{}", a, b.map(|x| x.to_string()).unwrap_or("-".into()))).collect::<Vec<_>>().join(";");
        sink.push(crate::eval::eval_line(&format!("serde_legacy|{}|{}|{}", json, ron, ps)));
    }
    // providers: registries of the solver scope
    let n_reg = if thorough { 20_000 } else { 1_500 };
    for _ in 0..n_reg {
        let reg = crate::solver::random_registry::<VS>(&mut rng, &[1, 3, 5]);
        let ops: Vec<String> = reg
            .entries
            .iter()
            .filter_map(|((p, v), d)| d.as_ref().ok().map(|ds| format!("{}@{}:{}", p, v, ds.iter().map(|(q, s)| format!("{}={}", q, s.to_machine())).collect::<Vec<_>>().join(","))))
            .collect();
        let rvs = reg.versions("root");
        let rv = if rvs.is_empty() { 1 } else { rvs[0] };
        sink.push(crate::eval::eval_line(&format!("serde_provider|{}|root|{}", ops.join(";"), rv)));
    }
    sink.notes.push(format!("exhaustive: every canonical range over {} bound values through serde_json; semver grid; legacy (start, Option<end>) shapes through serde_json and ron; providers of the solver scope serialized, deserialized, compared and resolved", k));
}

// ------------------------------------------------------------------ C07

fn run_text_string(reg: &crate::solver::Registry<VS>, root: &str, rv: u32, strat: &crate::solver::Strat) -> String {
    let run = crate::solver::run_resolve(reg, root, rv, strat, &crate::solver::Fault::None);
    let (imp, _) = crate::solver::transcript(&run);
    let report = match &run.outcome {
        crate::solver::Outcome::NoSolution(t) => {
            let mut t2 = t.clone();
            let r1 = <DefaultStringReporter as Reporter<String, VS, String>>::report(t);
            let _ = std::panic::catch_unwind(std::panic::AssertUnwindSafe(|| t2.collapse_no_versions()));
            format!("{} ## {}", r1.replace('\n', " ## "), <DefaultStringReporter as Reporter<String, VS, String>>::report(&t2).replace('\n', " ## "))
        }
        _ => String::new(),
    };
    format!("{};;REPORT {}", imp, report)
}

/// the same registry with integer package names (another hashing path), through a small provider
struct IntProvider {
    entries: BTreeMap<(u32, u32), Result<Vec<(u32, VS)>, String>>,
    newest: bool,
    log: std::cell::RefCell<Vec<String>>,
}
impl DependencyProvider for IntProvider {
    type P = u32;
    type V = u32;
    type VS = VS;
    type M = String;
    type Priority = u64;
    type Err = std::convert::Infallible;
    fn prioritize(&self, p: &u32, s: &VS) -> u64 {
        let n = self.entries.keys().filter(|(q, v)| q == p && s.contains(v)).count() as u64;
        self.log.borrow_mut().push(format!("prio {} {}", p, s));
        1000 - n
    }
    fn choose_version(&self, p: &u32, s: &VS) -> Result<Option<u32>, Self::Err> {
        let m: Vec<u32> = self.entries.keys().filter(|(q, v)| q == p && s.contains(v)).map(|x| x.1).collect();
        let r = if self.newest { m.last().copied() } else { m.first().copied() };
        self.log.borrow_mut().push(format!("choose {} {} -> {:?}", p, s, r));
        Ok(r)
    }
    fn get_dependencies(&self, p: &u32, v: &u32) -> Result<Dependencies<u32, VS, String>, Self::Err> {
        self.log.borrow_mut().push(format!("deps {} {}", p, v));
        Ok(match self.entries.get(&(*p, *v)) {
            None => Dependencies::Unavailable("unknown".into()),
            Some(Err(m)) => Dependencies::Unavailable(m.clone()),
            Some(Ok(ds)) => Dependencies::Available(ds.iter().cloned().collect()),
        })
    }
}

fn run_text_int(reg: &crate::solver::Registry<VS>, rv: u32, newest: bool) -> String {
    // the root is 0, the other packages are numbered in name order: an injective renaming
    let mut names: Vec<String> = reg.packages().into_iter().filter(|p| p != "root").collect();
    names.sort();
    let idx = |p: &str| -> u32 { if p == "root" { 0 } else { 1 + names.iter().position(|n| n == p).expect("package") as u32 } };
    let mut entries = BTreeMap::new();
    for ((p, v), d) in &reg.entries {
        entries.insert((idx(p), *v), d.clone().map(|ds| ds.into_iter().map(|(q, s)| (idx(&q), s)).collect()));
    }
    let prov = IntProvider { entries, newest, log: Default::default() };
    let res = crate::solver::watched(format!("det|{}|root|{}|{}", reg.to_text(), rv, if newest { "newest_fewest" } else { "oldest_fewest" }), || {
        std::panic::catch_unwind(std::panic::AssertUnwindSafe(|| resolve(&prov, 0u32, rv)))
    });
    let out = match res {
        Err(_) => "panic".to_string(),
        Ok(Ok(sol)) => {
            let m: BTreeMap<u32, u32> = sol.into_iter().collect();
            format!("ok {:?}", m)
        }
        Ok(Err(PubGrubError::NoSolution(t))) => {
            format!("nosolution {}", <DefaultStringReporter as Reporter<u32, VS, String>>::report(&t).replace('\n', " ## "))
        }
        Ok(Err(e)) => format!("err {:?}", e),
    };
    format!("{};;{}", prov.log.borrow().join(";;"), out)
}

/// `det|<registry>|root|rv|<strategy>` : one line of everything observable, for the determinism check
pub fn eval_det(req: &str, reg_s: &str, root: &str, rv: u32, strat_s: &str) -> Case {
    let reg: crate::solver::Registry<VS> = crate::solver::Registry::from_text(reg_s);
    let strat = crate::solver::Strat::from_text(strat_s);
    let a = run_text_string(&reg, root, rv, &strat);
    let b = run_text_string(&reg, root, rv, &strat);
    let ia = run_text_int(&reg, rv, strat != crate::solver::Strat::OldestFewest);
    let ib = run_text_int(&reg, rv, strat != crate::solver::Strat::OldestFewest);
    let mut fail = None;
    if a != b {
        fail = Some("two runs with string package names differ within one process".to_string());
    }
    if ia != ib {
        fail = Some("two runs with integer package names differ within one process".to_string());
    }
    let three = a.contains("are incompatible");
    let mut tags = vec![];
    if three {
        tags.push("report_has_order_dependent_clause");
    }
    if a.contains("result nosolution") {
        tags.push("outcome_nosolution");
    }
    // the output of this request is compared across fresh processes by the check script
    Case { req: req.to_string(), imp: format!("{}####{}", a, ia), nontrivial: a.contains("derived("), oracle_fail: fail, tags }
}

/// `soak|<F>|<s or i>|<seed>` : state surviving from one `resolve` call to a later one on the same thread.
/// 16 target cases (layered registries, mostly unsolvable) are run once, then F trivial failing resolutions,
/// then the targets again in reverse order: target i sees F + 30 - 2i other calls between its two runs, so the
/// requests with F and F + 1 cover every distance in a window of 32 — placed around 2^8 and 2^16 by the
/// generator (a cache, mark table or generation counter that is not reset, or wraps, shows).  The second run
/// must print exactly what the first printed (C07: same call, same answers, same process).
pub fn eval_soak(req: &str, fillers: u32, names: &str, seed: u64) -> Case {
    let mut rng = Rng::new(seed ^ 0x50a4);
    let strat = crate::solver::Strat::NewestFewest;
    let mut sized: Vec<(usize, crate::solver::Registry<VS>, u32)> = vec![];
    let mut tries = 0;
    while sized.len() < 16 && tries < 4000 {
        tries += 1;
        let reg = crate::solver::layered_registry::<VS>(&mut rng, &[1, 3, 5]);
        let rvs = reg.versions("root");
        let rv = if rvs.is_empty() { 1 } else { rvs[rng.below(rvs.len() as u64) as usize] };
        let run = crate::solver::run_resolve(&reg, "root", rv, &strat, &crate::solver::Fault::None);
        let failing = matches!(run.outcome, crate::solver::Outcome::NoSolution(_));
        // 13 unsolvable targets with a conflict, 3 solvable ones
        if (failing && sized.len() < 13) || (!failing && sized.len() >= 13) {
            let (imp, _) = crate::solver::transcript(&run);
            sized.push((imp.matches(" ## I").count(), reg, rv));
        }
    }
    // largest store first (and so last in the second, reversed pass): what a target leaves behind at its highest
    // incompatibility ids is not overwritten by the other targets between its two runs
    sized.sort_by(|a, b| b.0.cmp(&a.0));
    let targets: Vec<(crate::solver::Registry<VS>, u32)> = sized.into_iter().map(|(_, r, v)| (r, v)).collect();
    let filler: crate::solver::Registry<VS> = crate::solver::Registry::from_text("root@1:zz=u:u");
    let filler2: crate::solver::Registry<VS> = crate::solver::Registry::from_text("root@1:a=u:u;a@1:root=i3:i3");
    let run = |reg: &crate::solver::Registry<VS>, rv: u32| -> String {
        if names == "i" { run_text_int(reg, rv, true) } else { run_text_string(reg, "root", rv, &strat) }
    };
    let first: Vec<String> = targets.iter().map(|(r, rv)| run(r, *rv)).collect();
    crate::util::quiet(|| {
        for k in 0..fillers {
            let _ = run(if k % 7 == 3 { &filler2 } else { &filler }, 1);
        }
    });
    let mut fail = None;
    let mut same = 0;
    for (i, (r, rv)) in targets.iter().enumerate().rev() {
        let again = run(r, *rv);
        if again == first[i] {
            same += 1;
        } else if fail.is_none() {
            let d = first[i].chars().zip(again.chars()).take_while(|(a, b)| a == b).count();
            fail = Some(format!(
                "target {} ({}, root {}) answered differently when called again after {} other resolutions in the same thread: first `…{}` then `…{}`",
                i, r.to_text(), rv, fillers + 30 - 2 * i as u32,
                first[i].chars().skip(d.saturating_sub(20)).take(80).collect::<String>(),
                again.chars().skip(d.saturating_sub(20)).take(80).collect::<String>()
            ));
        }
    }
    Case { req: req.to_string(), imp: format!("soak {} targets, {} unchanged", targets.len(), same), nontrivial: true, oracle_fail: fail, tags: vec!["repeated_call_soak"] }
}

pub fn gen_c07(sink: &mut Sink, thorough: bool, seed: u64) {
    // repeated calls in one thread, distances around 2^8 and 2^16 (thorough: also 2^17)
    let mut centres: Vec<u32> = vec![256, 65_536];
    if thorough {
        centres.push(131_072);
    }
    centres.extend(thresholds(200_000).iter().map(|t| *t as u32).filter(|t| *t >= 20));
    centres.sort();
    centres.dedup();
    for c in centres {
        for names in ["s", "i"] {
            for f in [c - 17, c - 16] {
                sink.push(crate::eval::eval_line(&format!("soak|{}|{}|{}", f, names, seed)));
            }
        }
    }
    sink.notes.push("repeated-call soak: 16 targets re-run after F other failing resolutions in the same thread, every distance in [c-16, c+15] for c = 2^8, 2^16 (string and integer package names)".into());
    let mut rng = Rng::new(seed ^ 0x0707);
    let n = crate::util::scaled(if thorough { 60_000 } else { 4_000 });
    for i in 0..n {
        let reg = if i % 2 == 1 { crate::solver::layered_registry::<VS>(&mut rng, &[1, 3, 5]) } else { crate::solver::random_registry::<VS>(&mut rng, &[1, 3, 5]) };
        let rvs = reg.versions("root");
        let rv = if rvs.is_empty() { 1 } else { rvs[rng.below(rvs.len() as u64) as usize] };
        let strat = crate::solver::random_strat(&mut rng);
        sink.push(crate::eval::eval_line(&format!("det|{}|root|{}|{}", reg.to_text(), rv, strat.to_text())));
    }
    sink.notes.push("every case is run twice in-process with String and with u32 package names; the check script re-runs the whole request file in two fresh processes and compares all outputs byte for byte".into());
}

// ------------------------------------------------------------------ package types with a degenerate Hash

/// a package name whose `Hash` is legal but collides massively (it feeds only the parity of the length):
/// `Eq` still distinguishes all names.  Nothing in the solver may identify packages by their hash.
#[derive(Clone, Debug, PartialEq, Eq, PartialOrd, Ord)]
pub struct WeakPkg(pub String);
impl std::hash::Hash for WeakPkg {
    fn hash<H: std::hash::Hasher>(&self, h: &mut H) {
        (self.0.len() % 2).hash(h)
    }
}
impl std::fmt::Display for WeakPkg {
    fn fmt(&self, f: &mut std::fmt::Formatter<'_>) -> std::fmt::Result {
        write!(f, "{}", self.0)
    }
}
struct WeakProvider {
    entries: BTreeMap<(String, u32), Result<Vec<(String, VS)>, String>>,
    newest: bool,
    calls: std::cell::Cell<u32>,
}
impl DependencyProvider for WeakProvider {
    type P = WeakPkg;
    type V = u32;
    type VS = VS;
    type M = String;
    type Priority = u64;
    type Err = std::convert::Infallible;
    fn prioritize(&self, p: &WeakPkg, s: &VS) -> u64 {
        let n = self.entries.keys().filter(|(q, v)| *q == p.0 && s.contains(v)).count() as u64;
        1000 - n
    }
    fn choose_version(&self, p: &WeakPkg, s: &VS) -> Result<Option<u32>, Self::Err> {
        self.calls.set(self.calls.get() + 1);
        if self.calls.get() > 20_000 {
            panic!("call budget exceeded (more than 20000 choose_version calls)");
        }
        let m: Vec<u32> = self.entries.keys().filter(|(q, v)| *q == p.0 && s.contains(v)).map(|x| x.1).collect();
        Ok(if self.newest { m.last().copied() } else { m.first().copied() })
    }
    fn get_dependencies(&self, p: &WeakPkg, v: &u32) -> Result<Dependencies<WeakPkg, VS, String>, Self::Err> {
        Ok(match self.entries.get(&(p.0.clone(), *v)) {
            None => Dependencies::Unavailable("unknown".into()),
            Some(Err(m)) => Dependencies::Unavailable(m.clone()),
            Some(Ok(ds)) => Dependencies::Available(ds.iter().map(|(q, s)| (WeakPkg(q.clone()), s.clone())).collect()),
        })
    }
}

/// `weak|<registry>|<rv>|<newest 0/1>` : resolve over package names with a colliding `Hash`; direct oracles only
/// (validity of `Ok`, a search for a solution on `NoSolution`, no panic / Failure), each counted for its property
pub fn eval_weak(req: &str, reg_s: &str, rv: u32, newest: bool) -> Case {
    let reg: crate::solver::Registry<VS> = crate::solver::Registry::from_text(reg_s);
    let prov = WeakProvider { entries: reg.entries.clone(), newest, calls: Default::default() };
    let prop = crate::eval::CURRENT_PROP.with(|p| p.borrow().clone());
    // the store snapshot of the cfg-guarded hook (packages print by name): every recorded incompatibility is
    // checked against all solutions of the registry, as for the String runs (C06)
    let snaps: std::rc::Rc<std::cell::RefCell<Option<String>>> = Default::default();
    let snaps2 = snaps.clone();
    pubgrub::verif::set_observer(Some(Box::new(move |s: &str| {
        if s.starts_with("store") {
            *snaps2.borrow_mut() = Some(s.replace('\n', " ## "));
        }
    })));
    let res = crate::solver::watched(req.to_string(), || std::panic::catch_unwind(std::panic::AssertUnwindSafe(|| resolve(&prov, WeakPkg("root".into()), rv))));
    pubgrub::verif::set_observer(None);
    let mut fail = None;
    if matches!(prop.as_str(), "C06" | "C02" | "C17") {
        if let Some(entries) = snaps.borrow().as_ref().and_then(|s| crate::solver::parse_store::<VS>(s)) {
            let sels = crate::solver::all_selections(&reg);
            if sels.len() <= 4_000 {
                let solutions: Vec<&crate::solver::Sel> = sels.iter().filter(|s| crate::solver::is_solution(&reg, "root", rv, s).is_ok()).collect();
                'outer: for e in &entries {
                    for s in &solutions {
                        if e.terms.iter().all(|(p, t)| crate::solver::term_true(t, s.get(p).copied())) {
                            fail = Some(format!("with package names whose Hash collides the solver recorded incompatibility I{} {} whose terms are all true in the solution {:?}", e.id, e.kind, s));
                            break 'outer;
                        }
                    }
                }
            }
        }
    }
    let imp = match res {
        Err(e) => {
            let msg = e.downcast_ref::<String>().cloned().or_else(|| e.downcast_ref::<&str>().map(|s| s.to_string())).unwrap_or("?".into());
            if matches!(prop.as_str(), "C05" | "C17") {
                fail = Some(format!("resolve panicked with package names whose Hash collides: {}", msg.replace('\n', " ")));
            }
            "panic".to_string()
        }
        Ok(Ok(sol)) => {
            let sel: crate::solver::Sel = sol.into_iter().map(|(p, v)| (p.0, v)).collect();
            if let Err(e) = crate::solver::is_solution(&reg, "root", rv, &sel) {
                if matches!(prop.as_str(), "C01" | "C17") {
                    fail = Some(format!("with package names whose Hash collides the returned solution is not valid: {}", e));
                }
            }
            format!("ok {:?}", sel)
        }
        Ok(Err(PubGrubError::NoSolution(_))) => {
            if let Some(Some(sel)) = crate::solver::search_solution(&reg, "root", rv, 200_000) {
                if matches!(prop.as_str(), "C02" | "C06" | "C17") {
                    fail = Some(format!("with package names whose Hash collides resolve reports NoSolution although {:?} is a solution", sel));
                }
            }
            "nosolution".to_string()
        }
        Ok(Err(e)) => {
            if matches!(prop.as_str(), "C05" | "C17") {
                fail = Some(format!("resolve returned an error for a well-behaved provider: {:?}", e).chars().take(300).collect());
            }
            "error".to_string()
        }
    };
    Case { req: req.to_string(), imp, nontrivial: true, oracle_fail: fail, tags: vec!["colliding_package_hash"] }
}

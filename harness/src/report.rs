//! C08 / C09: the reporter and collapse_no_versions on trees from the solver and on synthetic DAGs.
use crate::cases::Case;
use crate::hset::HSet;
use crate::solver::Registry;
use crate::treeck::*;
use crate::util::Rng;
use pubgrub::{
    DefaultStringReporter, DerivationTree, Derived, External, Map, Range, ReportFormatter, Reporter, Term,
};
use std::collections::{BTreeMap, BTreeSet};
use std::sync::Arc;

type VS = Range<u32>;
type T = Tree<VS>;

/// a `ReportFormatter` that records which method was called with what (structured text)
pub struct Rec;
impl ReportFormatter<String, VS, String> for Rec {
    type Output = String;
    fn format_external(&self, e: &External<String, VS, String>) -> String {
        format!("EXT<{}>", ext_m(e))
    }
    fn format_terms(&self, t: &Map<String, Term<VS>>) -> String {
        format!("TERMS<{}>", terms_m(t))
    }
    fn explain_both_external(&self, e1: &External<String, VS, String>, e2: &External<String, VS, String>, c: &Map<String, Term<VS>>) -> String {
        format!("BE<{}><{}><{}>", ext_m(e1), ext_m(e2), terms_m(c))
    }
    fn explain_both_ref(&self, r1: usize, d1: &Derived<String, VS, String>, r2: usize, d2: &Derived<String, VS, String>, c: &Map<String, Term<VS>>) -> String {
        format!("BR<{}><{}><{}><{}><{}>", r1, terms_m(&d1.terms), r2, terms_m(&d2.terms), terms_m(c))
    }
    fn explain_ref_and_external(&self, r: usize, d: &Derived<String, VS, String>, e: &External<String, VS, String>, c: &Map<String, Term<VS>>) -> String {
        format!("RE<{}><{}><{}><{}>", r, terms_m(&d.terms), ext_m(e), terms_m(c))
    }
    fn and_explain_external(&self, e: &External<String, VS, String>, c: &Map<String, Term<VS>>) -> String {
        format!("AE<{}><{}>", ext_m(e), terms_m(c))
    }
    fn and_explain_ref(&self, r: usize, d: &Derived<String, VS, String>, c: &Map<String, Term<VS>>) -> String {
        format!("AR<{}><{}><{}>", r, terms_m(&d.terms), terms_m(c))
    }
    fn and_explain_prior_and_external(&self, pe: &External<String, VS, String>, e: &External<String, VS, String>, c: &Map<String, Term<VS>>) -> String {
        format!("AP<{}><{}><{}>", ext_m(pe), ext_m(e), terms_m(c))
    }
}

fn parse_clause(s: &str) -> Clause<VS> {
    if s.is_empty() {
        return vec![];
    }
    s.split(',')
        .map(|x| {
            let i = x.find(|c| c == '+' || c == '~').expect("term");
            (x[..i].to_string(), parse_term_m::<VS>(&x[i..]))
        })
        .collect()
}
fn parse_ext(s: &str) -> External<String, VS, String> {
    let f: Vec<&str> = s.split('@').collect();
    match f[0] {
        "N" => External::NotRoot(f[1].into(), f[2].parse().unwrap()),
        "V" => External::NoVersions(f[1].into(), VS::from_machine(f[2])),
        "F" => External::FromDependencyOf(f[1].into(), VS::from_machine(f[2]), f[3].into(), VS::from_machine(f[4])),
        _ => External::Custom(f[1].into(), VS::from_machine(f[2]), f[3].into()),
    }
}

fn all_externals(t: &T, out: &mut BTreeSet<String>) {
    match t {
        DerivationTree::External(e) => {
            out.insert(ext_m(e));
        }
        DerivationTree::Derived(d) => {
            all_externals(&d.cause1, out);
            all_externals(&d.cause2, out);
        }
    }
}

/// every clause of the tree that can serve as a premise, closed under the tree's own derivations:
/// used for "the conclusion follows from the cited premises"
fn choices_for(reg: &Option<Registry<VS>>, p: &str) -> Vec<Option<u32>> {
    let mut c: Vec<Option<u32>> = vec![None];
    match reg {
        // after collapse_no_versions the tree is an explanation over the existing versions only
        Some(r) => c.extend(r.versions(p).into_iter().map(Some)),
        None => c.extend(VS::universe().into_iter().map(Some)),
    }
    c
}

/// the oracle of C08 on the recorded output
pub fn check_report(tree: &T, rec: &str, reg: &Option<Registry<VS>>) -> Vec<String> {
    let mut errs: Vec<String> = vec![];
    let top = match tree {
        DerivationTree::External(e) => {
            if rec != format!("EXT<{}>", ext_m(e)) {
                errs.push("an external top must be reported by format_external".into());
            }
            return errs;
        }
        DerivationTree::Derived(d) => terms_m(&d.terms),
    };
    let mut numbered: BTreeMap<usize, String> = BTreeMap::new();
    let mut next_no = 1usize;
    let mut prev_concl: Option<String> = None;
    let mut cited: BTreeSet<String> = BTreeSet::new();
    let mut last_concl = String::new();
    for line in rec.split('\n') {
        if line.is_empty() {
            prev_concl = None;
            continue;
        }
        let mut body = line.to_string();
        let mut nums = vec![];
        while body.ends_with(')') {
            if let Some(p) = body.rfind(" (") {
                if let Ok(k) = body[p + 2..body.len() - 1].parse::<usize>() {
                    nums.push(k);
                    body.truncate(p);
                    continue;
                }
            }
            break;
        }
        if nums.len() > 1 {
            errs.push("a line carries two numbers".into());
        }
        let kind = &body[..2];
        let fields: Vec<&str> = body[2..].trim_start_matches('<').trim_end_matches('>').split("><").collect();
        let mut premises: Vec<Clause<VS>> = vec![];
        let mut refs: Vec<(usize, &str)> = vec![];
        let mut exts: Vec<&str> = vec![];
        let concl: &str;
        match kind {
            "BE" => {
                exts.extend([fields[0], fields[1]]);
                concl = fields[2];
            }
            "BR" => {
                refs.push((fields[0].parse().unwrap(), fields[1]));
                refs.push((fields[2].parse().unwrap(), fields[3]));
                concl = fields[4];
            }
            "RE" => {
                refs.push((fields[0].parse().unwrap(), fields[1]));
                exts.push(fields[2]);
                concl = fields[3];
            }
            "AE" => {
                exts.push(fields[0]);
                concl = fields[1];
            }
            "AR" => {
                refs.push((fields[0].parse().unwrap(), fields[1]));
                concl = fields[2];
            }
            "AP" => {
                exts.extend([fields[0], fields[1]]);
                concl = fields[2];
            }
            _ => {
                errs.push(format!("unreadable line {}", line));
                continue;
            }
        }
        for e in exts {
            cited.insert(e.to_string());
            premises.push(clause_of_ext(&parse_ext(e)));
        }
        for (k, t) in refs {
            match numbered.get(&k) {
                None => errs.push(format!("reference ({}) to a number no earlier line carries", k)),
                Some(c) => {
                    if c != t {
                        errs.push(format!("line ({}) concludes {{{}}} but is cited as {{{}}}", k, c, t));
                    }
                }
            }
            premises.push(parse_clause(t));
        }
        if kind.starts_with('A') {
            match &prev_concl {
                Some(p) => premises.push(parse_clause(p)),
                None => errs.push("an 'And because' line without a preceding line".into()),
            }
        }
        if !entailed(&parse_clause(concl), &premises, &|p: &str| choices_for(reg, p)) {
            errs.push(format!("conclusion {{{}}} is not entailed by the premises the line cites", concl));
        }
        for k in nums {
            if k != next_no {
                errs.push(format!("numbers are not consecutive: got {} expected {}", k, next_no));
            }
            next_no = k + 1;
            if numbered.insert(k, concl.to_string()).is_some() {
                errs.push(format!("number {} used twice", k));
            }
        }
        prev_concl = Some(concl.to_string());
        last_concl = concl.to_string();
    }
    if last_concl != top {
        errs.push("the last step does not conclude the top node".into());
    }
    let mut all = BTreeSet::new();
    all_externals(tree, &mut all);
    for e in all {
        if !cited.contains(&e) {
            errs.push(format!("external fact {} is never cited", e));
        }
    }
    errs
}

/// `report|<tokens>|<registry or ->` (a registry is given for trees that went through
/// collapse_no_versions: their derived nodes follow from their causes over the existing versions)
pub fn eval_report(tokens: &str, reg_text: &str) -> Case {
    let tree: T = parse_tree(tokens);
    let reg: Option<Registry<VS>> = if reg_text == "-" { None } else { Some(Registry::from_text(reg_text)) };
    let text = <DefaultStringReporter as Reporter<String, VS, String>>::report(&tree);
    let rec = <DefaultStringReporter as Reporter<String, VS, String>>::report_with_formatter(&tree, &Rec);
    let errs = check_report(&tree, &rec, &reg);
    let mut nodes = vec![];
    derived_nodes(&tree, &mut nodes);
    let shared = nodes.iter().any(|(s, _)| s.is_some());
    let mut tags = vec![];
    if shared {
        tags.push("tree_has_shared_node");
    }
    if nodes.len() >= 3 {
        tags.push("tree_3plus_derived");
    }
    if text.contains("are incompatible") {
        tags.push("text_has_order_dependent_clause");
    }
    Case {
        req: format!("report|{}|{}", tree_tokens(&tree), reg_text),
        imp: format!("TEXT={}|REC={}", text.replace('\n', " ## "), rec.replace('\n', " ## ")),
        nontrivial: nodes.len() >= 2,
        oracle_fail: errs.first().cloned(),
        tags,
    }
}

/// `collapse|<tokens>|<registry or ->|root|rv`
pub fn eval_collapse(tokens: &str, reg_text: &str, root: &str, rv: u32) -> Case {
    let tree: T = parse_tree(tokens);
    let req = format!("collapse|{}|{}|{}|{}", tree_tokens(&tree), reg_text, root, rv);
    let mut t2 = tree.clone();
    let res = std::panic::catch_unwind(std::panic::AssertUnwindSafe(|| {
        t2.collapse_no_versions();
        t2
    }));
    let mut errs: Vec<String> = vec![];
    let mut tags = vec![];
    let is_nv = |e: &External<String, VS, String>| matches!(e, External::NoVersions(..));
    let n_nv = count_kind(&tree, &is_nv);
    if n_nv > 0 {
        tags.push("tree_has_noversions_leaf");
    }
    let imp = match res {
        Err(_) => {
            if reg_text != "-" {
                errs.push("collapse_no_versions panicked on a tree produced by resolve".into());
            }
            "panic".to_string()
        }
        Ok(out) => {
            if n_nv == 0 && tree_canon(&out) != tree_canon(&tree) {
                errs.push("a tree without NoVersions leaves was changed".into());
            }
            // survivors: a NoVersions leaf only next to another NoVersions or a Custom leaf
            fn survivors(t: &T, errs: &mut Vec<String>) {
                if let DerivationTree::Derived(d) = t {
                    let kinds = [&*d.cause1, &*d.cause2];
                    for (i, c) in kinds.iter().enumerate() {
                        if let DerivationTree::External(External::NoVersions(..)) = c {
                            let other = kinds[1 - i];
                            let ok = matches!(other, DerivationTree::External(External::NoVersions(..)) | DerivationTree::External(External::Custom(..)));
                            if !ok {
                                errs.push("a NoVersions leaf survives next to something else than NoVersions / Custom".into());
                            }
                        }
                    }
                    survivors(&d.cause1, errs);
                    survivors(&d.cause2, errs);
                }
            }
            survivors(&out, &mut errs);
            if reg_text != "-" {
                let reg: Registry<VS> = Registry::from_text(reg_text);
                for e in check_tree(&reg, root, rv, &out, true) {
                    errs.push(format!("after collapse: {}", e));
                }
            }
            if tree_canon(&out) != tree_canon(&tree) {
                tags.push("collapse_changed_tree");
            }
            tree_canon(&out)
        }
    };
    Case { req, imp, nontrivial: n_nv > 0, oracle_fail: errs.first().cloned(), tags }
}

// ------------------------------------------------------------------ synthetic well-formed DAGs

fn resolve_clauses(c1: &Clause<VS>, c2: &Clause<VS>, pivot: &str) -> Clause<VS> {
    // the rule of resolution, written independently: union on the pivot (dropped when always true),
    // intersection on the other packages
    use pubgrub::verif::*;
    let mut out: BTreeMap<String, Term<VS>> = BTreeMap::new();
    for (p, t) in c1.iter().chain(c2.iter()) {
        if p == pivot {
            continue;
        }
        let nt = match out.get(p) {
            None => t.clone(),
            Some(o) => term_intersection(o, t),
        };
        out.insert(p.clone(), nt);
    }
    let t1 = c1.iter().find(|(p, _)| p == pivot).unwrap().1.clone();
    let t2 = c2.iter().find(|(p, _)| p == pivot).unwrap().1.clone();
    let u = term_union(&t1, &t2);
    if u != term_any::<VS>() {
        out.insert(pivot.to_string(), u);
    }
    out.into_iter().collect()
}

/// a random DAG of sound resolution steps with arbitrary sharing
pub fn synthetic_tree(rng: &mut Rng) -> Option<T> {
    let pk = ["a", "b", "c", "d"];
    let n_ext = 3 + rng.below(5) as usize;
    #[derive(Clone)]
    enum Node {
        Ext(External<String, VS, String>),
        Der(Clause<VS>, usize, usize),
    }
    let mut nodes: Vec<Node> = vec![];
    let mut clauses: Vec<Clause<VS>> = vec![];
    for _ in 0..n_ext {
        let p = pk[rng.below(4) as usize].to_string();
        let e = match rng.below(6) {
            0 => External::NoVersions(p, VS::family(rng)),
            1 => External::Custom(p, Range::singleton(1 + 2 * rng.below(3) as u32), "nodeps".into()),
            2 => External::NotRoot(p, 1),
            _ => {
                let q = pk[rng.below(4) as usize].to_string();
                External::FromDependencyOf(p, VS::family(rng), q, VS::family(rng))
            }
        };
        clauses.push(clause_of_ext(&e));
        nodes.push(Node::Ext(e));
    }
    let n_der = 1 + rng.below(7) as usize;
    for _ in 0..n_der {
        // pick two nodes sharing a package
        let mut found = None;
        for _ in 0..30 {
            let i = rng.below(nodes.len() as u64) as usize;
            let j = rng.below(nodes.len() as u64) as usize;
            if i == j {
                continue;
            }
            let common: Vec<&String> = clauses[i].iter().map(|(p, _)| p).filter(|p| clauses[j].iter().any(|(q, _)| &q == p)).collect();
            if common.is_empty() {
                continue;
            }
            let pivot = common[rng.below(common.len() as u64) as usize].clone();
            found = Some((i, j, pivot));
            break;
        }
        let (i, j, pivot) = found?;
        let c = resolve_clauses(&clauses[i], &clauses[j], &pivot);
        clauses.push(c.clone());
        nodes.push(Node::Der(c, i, j));
    }
    let top = nodes.len() - 1;
    // in-degrees among the nodes reachable from the top
    let mut indeg = vec![0usize; nodes.len()];
    let mut seen = vec![false; nodes.len()];
    let mut stack = vec![top];
    seen[top] = true;
    while let Some(i) = stack.pop() {
        if let Node::Der(_, a, b) = &nodes[i] {
            for c in [*a, *b] {
                indeg[c] += 1;
                if !seen[c] {
                    seen[c] = true;
                    stack.push(c);
                }
            }
        }
    }
    let mut built: Vec<Option<Arc<T>>> = vec![None; nodes.len()];
    for i in 0..nodes.len() {
        if !seen[i] {
            continue;
        }
        built[i] = Some(Arc::new(match &nodes[i] {
            Node::Ext(e) => DerivationTree::External(e.clone()),
            Node::Der(c, a, b) => {
                let mut terms: Map<String, Term<VS>> = Map::default();
                for (p, t) in c {
                    terms.insert(p.clone(), t.clone());
                }
                DerivationTree::Derived(Derived {
                    terms,
                    shared_id: if indeg[i] >= 2 { Some(i) } else { None },
                    cause1: built[*a].clone().unwrap(),
                    cause2: built[*b].clone().unwrap(),
                })
            }
        }));
    }
    Some((*built[top].clone().unwrap()).clone())
}

/-
TARGET FILE: PubgrubProofs/ReportSound.lean
The default reporter outputs a sound, well-formed linear proof (property C08).
Model: PubgrubModel/Report.lean (`Reporter.buildRecursive` & co, mutual recursion on fuel; `reportSteps`).
Vocabulary: PubgrubProofs/ReportDefs.lean (`Entails`, `DerivationTree.Sound`, `SharedConsistent`,
`Step.conclusion/namedExternals/citedRefs/isAnd`, `conclusionOfRef`, `stepPremises`, `allRefs`).

Proof: `ReportSoundAux1` (list facts), `ReportSoundAux2` (invariant `RepInv` of the reporter state and the
order `Le`), `ReportSoundAux3` (specification of the four mutually recursive functions by induction on
the fuel, `spec_all`), `ReportSoundAux4` (subtrees, `report_spec`, termination `BT_all`).
-/
import PubgrubProofs.ReportSoundAux4

namespace Pubgrub
open VersionSet

set_option linter.unusedSectionVars false

variable {P S V M : Type} [DecidableEq P] [VersionSet S V] [DecidableEq S]

/-- an external top is reported by `format_external` alone -/
theorem report_external_top (e : External P S V M) : reportSteps (.external e) = .ok (.inl e) := by
  rfl

/-- every step's conclusion is entailed by the premises it cites -/
theorem report_steps_sound (U : P → V → Prop) (t : DerivationTree P S V M) (hs : t.Sound U)
    (hc : t.SharedConsistent) (lines : List (Line P S V M)) (h : reportSteps t = .ok (.inr lines))
    (i : Nat) (l : Line P S V M) (hl : lines[i]? = some l) (c : List (P × Term S))
    (hcl : l.step.conclusion = some c) : Entails U (stepPremises lines i l.step) c := by
  obtain ⟨terms, sid, c1, c2, r, -, rfl, pb⟩ := report_spec U True t hc (fun _ => hs) lines h
  rw [stepPremises_eq]
  exact (pb.inv.ok i l hl).1 trivial c hcl

/-- numbers are assigned consecutively from 1 in order of appearance, a line carries at most one -/
theorem report_numbering (t : DerivationTree P S V M) (hc : t.SharedConsistent)
    (lines : List (Line P S V M)) (h : reportSteps t = .ok (.inr lines)) :
    allRefs lines = List.range' 1 (allRefs lines).length ∧ ∀ l ∈ lines, l.refs.length ≤ 1 := by
  obtain ⟨terms, sid, c1, c2, r, -, rfl, pb⟩ :=
    report_spec (fun _ _ => True) False t hc (fun hf => hf.elim) lines h
  refine ⟨?_, pb.inv.one⟩
  have h1 := pb.inv.refs
  have h2 : (allRefs r.lines).length = r.refCount := by rw [h1, List.length_range']
  rw [h2]
  exact h1

/-- every numeric reference points to exactly one earlier line carrying that number, whose conclusion
is the clause it is cited for -/
theorem report_refs_resolve (t : DerivationTree P S V M) (hc : t.SharedConsistent)
    (lines : List (Line P S V M)) (h : reportSteps t = .ok (.inr lines))
    (i : Nat) (l : Line P S V M) (hl : lines[i]? = some l) (k : Nat) (terms : List (P × Term S))
    (hk : (k, terms) ∈ l.step.citedRefs) :
    conclusionOfRef (lines.take i) k = some terms ∧
      ((lines.take i).filter fun l' => l'.refs.contains k).length = 1 := by
  obtain ⟨terms', sid, c1, c2, r, -, rfl, pb⟩ :=
    report_spec (fun _ _ => True) False t hc (fun hf => hf.elim) lines h
  exact (pb.inv.ok i l hl).2 k terms hk

/-- every external fact of the tree is cited at least once -/
theorem report_externals_cited (t : DerivationTree P S V M) (hc : t.SharedConsistent)
    (lines : List (Line P S V M)) (h : reportSteps t = .ok (.inr lines))
    (e : External P S V M) (he : e ∈ t.externals) : ∃ l ∈ lines, e ∈ l.step.namedExternals := by
  obtain ⟨terms', sid, c1, c2, r, rfl, rfl, pb⟩ :=
    report_spec (fun _ _ => True) False t hc (fun hf => hf.elim) lines h
  exact mem_namedAll.mp (pb.named e he)

/-- the last step concludes the tree's top node -/
theorem report_last_concludes_top (t : DerivationTree P S V M) (hc : t.SharedConsistent)
    (lines : List (Line P S V M)) (h : reportSteps t = .ok (.inr lines)) :
    ∃ l, lines.getLast? = some l ∧ l.step.conclusion = some t.terms := by
  obtain ⟨terms', sid, c1, c2, r, rfl, rfl, pb⟩ :=
    report_spec (fun _ _ => True) False t hc (fun hf => hf.elim) lines h
  obtain ⟨l, hl, hlc, -⟩ := pb.last
  exact ⟨l, hl, hlc⟩

/-- the fuel `8 * size + 8` given by `reportSteps` is always enough: the reporter terminates (the
re-entrant call in the both-derived case happens at most once per node because the first cause has
just received a line reference) -/
theorem report_terminates (t : DerivationTree P S V M) (hc : t.SharedConsistent) :
    ∃ r, reportSteps t = .ok r := by
  cases t with
  | external e => exact ⟨_, rfl⟩
  | derived terms sid c1 c2 =>
    rw [reportSteps]
    obtain ⟨r', hr'⟩ := BT_all _ (.derived terms sid c1 c2) (Nat.le_refl _) terms sid c1 c2 rfl
      (8 * (DerivationTree.derived terms sid c1 c2 : DerivationTree P S V M).size + 8) (by omega)
      Reporter.new
    rw [hr']
    exact ⟨_, rfl⟩

end Pubgrub

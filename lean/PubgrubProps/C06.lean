/-
Property C06 — Every constraint the solver records is true of all solutions.

"Every incompatibility the solver records while solving - taken from the provider or learned during
conflict resolution, whether or not it later appears in an error report, and also in runs that end in
Ok - is valid: no set of package versions that contains the root and satisfies all dependencies makes
all of its terms true at once."

The theorem is about the coroutine model of `resolve` (`PubgrubModel/Solver.lean`), generic over the
package type, the version-set implementation (any `LawfulVersionSet`), the priority type; for every
world `W` (finite or not), every sequence of provider answers consistent with `W` (any `prioritize`,
any tie-breaking of the queue, callbacks may fail, `choose_version` may even answer outside its set),
every fuel, every prefix of the run whatever its end.
-/
import PubgrubProofs.StoreInvariant
import PubgrubProofs.RangeAnyOrder
import PubgrubProofs.ContainersLaws

namespace Pubgrub.C06
open Pubgrub

variable {P S V M Pr E : Type} [DecidableEq P] [VersionSet S V] [DecidableEq S] [DecidableEq V]
  [LE Pr] [DecidableLE Pr] [LawfulVersionSet S V]

/-- C06 -/
theorem C06_store_valid (W : World P S V M) (hW : W.SetsValid) (debug : Bool) (fuel : Nat)
    (root : P) (rv : V) (s : SolverState P S V M Pr) (req : Request P S V M Pr E)
    (h : Reachable W debug fuel root rv (s, req)) (id : Nat) (i : Incompat P S V M)
    (hi : s.st.store[id]? = some i) :
    ∀ σ : P → Option V, IsSolution W root rv σ → ¬ (∀ p t, (p, t) ∈ i.terms → t.eval (σ p) = true) :=
  (reachable_storeInv W hW debug fuel root rv (s, req) h id i hi).valid

/-- the full store invariant (distinct keys, valid sets, true provenance) that C02 and C03 build on -/
theorem C06_store_invariant (W : World P S V M) (hW : W.SetsValid) (debug : Bool) (fuel : Nat)
    (root : P) (rv : V) (s : SolverState P S V M Pr) (req : Request P S V M Pr E)
    (h : Reachable W debug fuel root rv (s, req)) : StoreInv W root rv s.st.store :=
  reachable_storeInv W hW debug fuel root rv (s, req) h

/-! Non-vacuity: the initial state is reachable and its store holds the `not root` clause. -/
example (W : World P S V M) (debug : Bool) (fuel : Nat) (root : P) (rv : V) :
    Reachable (Pr := Pr) (E := E) W debug fuel root rv (Solver.start debug fuel root rv) := .start
example (debug : Bool) (fuel : Nat) (root : P) (rv : V) :
    (Solver.start (S := S) (M := M) (Pr := Pr) (E := E) debug fuel root rv).1.st.store[0]? =
      some (Incompat.notRoot root rv) := rfl

/-! ### `Range V` over ANY linear order (the discrete `u32`, `SemanticVersion` included), where `Range` is
not a `LawfulVersionSet`: pulled back along the embedding into `Range (V ×ₗ ℚ)` (RangeHom, HomSolver,
RangeAnyOrder) -/
section AnyOrder
variable {P V M Pr E : Type} [DecidableEq P] [LinearOrder V] [LE Pr] [DecidableLE Pr]

theorem C06_range_store_valid (W : World P (Range V) V M) (hW : W.RangesWF) (debug : Bool) (fuel : Nat)
    (root : P) (rv : V) (s : SolverState P (Range V) V M Pr) (req : Request P (Range V) V M Pr E)
    (h : Reachable W debug fuel root rv (s, req)) (id : Nat) (i : Incompat P (Range V) V M)
    (hi : s.st.store[id]? = some i) :
    ∀ σ : P → Option V, IsSolution W root rv σ → ¬ (∀ p t, (p, t) ∈ i.terms → t.eval (σ p) = true) :=
  range_store_valid W hW debug fuel root rv s req h id i hi

end AnyOrder

/-! ### the storage of an incompatibility's terms: `SmallMap` (exact model, PubgrubModel/Containers.lean)

The solver model keeps the terms of an incompatibility in an association list (`SmallMap`); the crate
keeps them in `SmallMap<P, Term>` with variants `Empty | One | Two | Flexible(FxHashMap)`.  Every operation
of the exact model commutes with the abstraction `toAssoc`, keeps the keys distinct, has the map
semantics, and `merge` (used by `prior_cause`) does not depend on the order in which the hash map is
enumerated. -/
section Storage
variable {K V : Type} [DecidableEq K]

theorem C06_smallmap_refines (m : SmallMapX K V) (key : K) (value : V) (m2 : List (K × V))
    (f : V → V → Option V) :
    m.get key = SmallMap.get m.toAssoc key ∧
    (m.insert key value).toAssoc = SmallMap.insert m.toAssoc key value ∧
    ((m.remove key).1 = SmallMap.get m.toAssoc key ∧
      (m.remove key).2.toAssoc = SmallMap.remove m.toAssoc key) ∧
    (m.splitOne key).map (fun x => (x.1, x.2.toAssoc)) = SmallMap.splitOne m.toAssoc key ∧
    (m.merge m2 f).toAssoc = SmallMap.merge m.toAssoc m2 f ∧
    m.len = m.toAssoc.length :=
  ⟨SmallMapX.get_eq m key, SmallMapX.toAssoc_insert m key value, SmallMapX.remove_spec m key,
   SmallMapX.splitOne_spec m key, SmallMapX.toAssoc_merge m m2 f, SmallMapX.len_eq m⟩

theorem C06_smallmap_keys_distinct (m : SmallMapX K V) (h : m.WF) (key : K) (value : V)
    (m2 : List (K × V)) (f : V → V → Option V) :
    (m.insert key value).WF ∧ (m.remove key).2.WF ∧ (m.merge m2 f).WF :=
  ⟨SmallMapX.wf_insert m h key value, SmallMapX.wf_remove m h key, SmallMapX.wf_merge m h m2 f⟩

theorem C06_smallmap_merge_is_pointwise (m : SmallMapX K V) (h : m.WF) (m2 : List (K × V))
    (h2 : (m2.map Prod.fst).Nodup) (f : V → V → Option V) (k : K) :
    (m.merge m2 f).get k =
      match m.get k, SmallMap.get m2 k with
      | some a, some b => f a b
      | some a, none => some a
      | none, some b => some b
      | none, none => none :=
  SmallMapX.get_merge m h m2 h2 f k

theorem C06_smallmap_merge_order_independent (m : SmallMapX K V) (h : m.WF) (m2 m2' : List (K × V))
    (hp : m2.Perm m2') (h2 : (m2.map Prod.fst).Nodup) (f : V → V → Option V) (k : K) :
    (m.merge m2 f).get k = (m.merge m2' f).get k :=
  SmallMapX.get_merge_perm m h m2 m2' hp h2 f k

end Storage

end Pubgrub.C06

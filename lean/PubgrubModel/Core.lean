/-
Model of `/repo/src/internal/core.rs`: `State`, unit propagation, conflict resolution, backtracking,
merging of dependency incompatibilities, construction of the derivation tree.

Loops that the Rust writes as `loop` / `while let` take a fuel argument; running out of fuel is the
explicit outcome `Fault.outOfFuel`, never a result.  Hash maps are association lists.
-/
import PubgrubModel.PartialSolution
import PubgrubModel.Tree

namespace Pubgrub

/-- `struct State` -/
structure State (P S V M Pr : Type) where
  rootPackage : P
  rootVersion : V
  /-- `incompatibilities: Map<P, Vec<IncompId>>` -/
  incompatibilities : List (P × List Nat)
  /-- `contradicted_incompatibilities: Map<IncompId, DecisionLevel>` -/
  contradicted : List (Nat × Nat)
  /-- `merged_dependencies: Map<(P, P), SmallVec<IncompId>>` -/
  mergedDependencies : List ((P × P) × List Nat)
  ps : PartialSolution P S V Pr
  /-- `incompatibility_store: Arena<Incompatibility>` -/
  store : List (Incompat P S V M)
  /-- `unit_propagation_buffer` (a stack: `push`/`pop` at the end) -/
  buffer : List P
  debug : Bool

namespace State
variable {P S V M Pr : Type} [DecidableEq P] [VersionSet S V] [DecidableEq S]

/-- `State::init` -/
def init (debug : Bool) (root : P) (rv : V) : State P S V M Pr :=
  { rootPackage := root, rootVersion := rv,
    incompatibilities := [(root, [0])], contradicted := [], mergedDependencies := [],
    ps := PartialSolution.empty, store := [Incompat.notRoot root rv], buffer := [], debug := debug }

/-- `incompatibilities.entry(pkg).or_default()` followed by an update of the vector -/
def updIndex (idx : List (P × List Nat)) (p : P) (f : List Nat → List Nat) : List (P × List Nat) :=
  match SmallMap.get idx p with
  | some ids => SmallMap.insert idx p (f ids)
  | none => SmallMap.insert idx p (f [])

/-- the `find_map` over `deps_lookup` in `merge_incompatibility`: first past id that merges -/
def findMerge (store : List (Incompat P S V M)) (inc : Incompat P S V M) :
    List Nat → R (Option (Nat × Incompat P S V M))
  | [] => .ok none
  | past :: rest => do
    let pastInc ← storeGet store past
    match ← inc.mergeDependents pastInc with
    | some merged => pure (some (past, merged))
    | none => findMerge store inc rest

/-- `merge_incompatibility` -/
def mergeIncompatibility (st : State P S V M Pr) (id : Nat) : R (State P S V M Pr) := do
  let inc ← storeGet st.store id
  let (st, id) ← match inc.asDependency with
    | none => pure (st, id)
    | some key =>
      let depsLookup := (SmallMap.get st.mergedDependencies key).getD []
      match ← findMerge st.store inc depsLookup with
      | some (past, merged) =>
        let new := st.store.length
        let store := st.store ++ [merged]
        let idx := merged.terms.foldl (fun idx kv => updIndex idx kv.1 (fun ids => ids.filter (· ≠ past)))
          st.incompatibilities
        let depsLookup' := depsLookup.map fun x => if x = past then new else x
        pure ({ st with store := store, incompatibilities := idx,
                        mergedDependencies := SmallMap.insert st.mergedDependencies key depsLookup' }, new)
      | none =>
        pure ({ st with mergedDependencies := SmallMap.insert st.mergedDependencies key (depsLookup ++ [id]) }, id)
  let inc ← storeGet st.store id
  if st.debug && inc.terms.any (fun kv => kv.2 = (Term.any : Term S)) then
    throw (.panic "merge_incompatibility: assert_ne!(term, Term::any())")
  let idx := inc.terms.foldl (fun idx kv => updIndex idx kv.1 (fun ids => ids ++ [id])) st.incompatibilities
  pure { st with incompatibilities := idx }

/-- `add_incompatibility` -/
def addIncompatibility (st : State P S V M Pr) (inc : Incompat P S V M) : R (State P S V M Pr) :=
  let id := st.store.length
  mergeIncompatibility { st with store := st.store ++ [inc] } id

/-- `add_incompatibility_from_dependencies`; returns the id range `[start, end)` as well -/
def addIncompatibilityFromDependencies (st : State P S V M Pr) (p : P) (v : V) (deps : List (P × S)) :
    R (State P S V M Pr × Nat × Nat) := do
  let start := st.store.length
  let news := deps.map fun dep => Incompat.fromDependency (M := M) p (VersionSet.singleton v) dep
  let st := { st with store := st.store ++ news }
  let stop := st.store.length
  let st ← (List.range' start (stop - start)).foldlM (m := R) (fun st id => mergeIncompatibility st id) st
  pure (st, start, stop)

/-- `State::backtrack` -/
def backtrack (st : State P S V M Pr) (incompat : Nat) (incompatChanged : Bool) (dl : Nat) :
    R (State P S V M Pr) := do
  let ps ← st.ps.backtrack dl
  let st := { st with ps := ps, contradicted := SmallMap.retainVals st.contradicted (fun l => l ≤ dl) }
  if incompatChanged then mergeIncompatibility st incompat else pure st

/-- `conflict_resolution`: `Ok((package, root_cause))` or `Err(terminal_id)` -/
def conflictResolution : (fuel : Nat) → State P S V M Pr → (current : Nat) → (changed : Bool) →
    R (State P S V M Pr × Except Nat (P × Nat))
  | 0, _, _, _ => .error .outOfFuel
  | fuel + 1, st, current, changed => do
    let inc ← storeGet st.store current
    if inc.isTerminal st.rootPackage st.rootVersion then
      pure (st, .error current)
    else
      let (package, search) ← st.ps.satisfierSearch inc st.store
      match search with
      | .differentDecisionLevels prev =>
        let st ← st.backtrack current changed prev
        pure (st, .ok (package, current))
      | .sameDecisionLevels satisfierCause =>
        let causeInc ← storeGet st.store satisfierCause
        let prior ← Incompat.priorCause current satisfierCause inc causeInc package
        let id := st.store.length
        conflictResolution fuel { st with store := st.store ++ [prior] } id true

/-- the `for &incompat_id in self.incompatibilities[&current_package].iter().rev()` loop:
returns the state and the conflict id if the loop broke on a satisfied incompatibility -/
def propagateIncompats : State P S V M Pr → List Nat → R (State P S V M Pr × Option Nat)
  | st, [] => .ok (st, none)
  | st, id :: rest =>
    if SmallMap.containsKey st.contradicted id then propagateIncompats st rest
    else
      match storeGet st.store id with
      | .error e => .error e
      | .ok inc =>
        match st.ps.relation inc with
        | .satisfied => .ok (st, some id)
        | .almostSatisfied p =>
          match st.ps.addDerivation p id st.store with
          | .error e => .error e
          | .ok ps =>
            let buffer := if st.buffer.contains p then st.buffer else st.buffer ++ [p]
            propagateIncompats
              { st with buffer := buffer, ps := ps,
                        contradicted := SmallMap.insert st.contradicted id ps.currentDecisionLevel } rest
        | .contradicted _ =>
          propagateIncompats
            { st with contradicted := SmallMap.insert st.contradicted id st.ps.currentDecisionLevel } rest
        | .inconclusive => propagateIncompats st rest

/-- the `while let Some(current_package) = self.unit_propagation_buffer.pop()` loop:
`Ok(state)` or `Err(terminal incompatibility id)` -/
def unitPropagationLoop : (fuel : Nat) → State P S V M Pr → R (State P S V M Pr × Option Nat)
  | 0, _ => .error .outOfFuel
  | fuel + 1, st =>
    match st.buffer.getLast? with
    | none => .ok (st, none)
    | some current =>
      let st := { st with buffer := st.buffer.dropLast }
      match SmallMap.get st.incompatibilities current with
      | none => .error (.panic "unit_propagation: self.incompatibilities[&current_package]")
      | some ids =>
        match propagateIncompats st ids.reverse with
        | .error e => .error e
        | .ok (st, none) => unitPropagationLoop fuel st
        | .ok (st, some conflictId) =>
          match conflictResolution fuel st conflictId false with
          | .error e => .error e
          | .ok (st, .error terminal) => .ok (st, some terminal)
          | .ok (st, .ok (packageAlmost, rootCause)) =>
            match st.ps.addDerivation packageAlmost rootCause st.store with
            | .error e => .error e
            | .ok ps =>
              unitPropagationLoop fuel
                { st with buffer := [packageAlmost], ps := ps,
                          contradicted := SmallMap.insert st.contradicted rootCause ps.currentDecisionLevel }

/-- `unit_propagation`: `(state, Some(terminal id))` stands for `Err(build_derivation_tree(id))` -/
def unitPropagation (fuel : Nat) (st : State P S V M Pr) (p : P) : R (State P S V M Pr × Option Nat) :=
  unitPropagationLoop fuel { st with buffer := [p] }

/-! ### build_derivation_tree -/

/-- the explicit-stack traversal: `(all_ids, shared_ids)` -/
def collectIds (store : List (Incompat P S V M)) :
    (fuel : Nat) → (stack : List Nat) → (all shared : List Nat) → R (List Nat × List Nat)
  | 0, _, _, _ => .error .outOfFuel
  | fuel + 1, stack, all, shared =>
    match stack.getLast? with
    | none => .ok (all, shared)
    | some i =>
      let stack := stack.dropLast
      match storeGet store i with
      | .error e => .error e
      | .ok inc =>
        match inc.causes with
        | some (id1, id2) =>
          if all.contains i then
            collectIds store fuel stack all (if shared.contains i then shared else shared ++ [i])
          else
            collectIds store fuel (stack ++ [id1, id2]) (all ++ [i]) shared
        | none => collectIds store fuel stack (if all.contains i then all else all ++ [i]) shared

/-- `Incompatibility::build_derivation_tree` for one id, given the trees of smaller ids -/
def buildNode (store : List (Incompat P S V M)) (shared : List Nat)
    (precomputed : List (Nat × DerivationTree P S V M)) (id : Nat) : R (DerivationTree P S V M) := do
  let inc ← storeGet store id
  match inc.kind with
  | .derivedFrom id1 id2 =>
    let c1 ← unwrapOr (SmallMap.get precomputed id1) "Non-topological calls building tree"
    let c2 ← unwrapOr (SmallMap.get precomputed id2) "Non-topological calls building tree"
    pure (.derived inc.terms (if shared.contains id then some id else none) c1 c2)
  | .notRoot p v => pure (.external (.notRoot p v))
  | .noVersions p s => pure (.external (.noVersions p s))
  | .fromDependencyOf p s q t => pure (.external (.fromDependencyOf p s q t))
  | .custom p s m => pure (.external (.custom p s m))

/-- insertion into an ascending list (the `sort_unstable_by_key` of distinct ids) -/
def insertSorted (x : Nat) : List Nat → List Nat
  | [] => [x]
  | y :: ys => if x ≤ y then x :: y :: ys else y :: insertSorted x ys

def sortIds (l : List Nat) : List Nat := l.foldr insertSorted []

/-- `State::build_derivation_tree` -/
def buildDerivationTree (st : State P S V M Pr) (incompat : Nat) : R (DerivationTree P S V M) := do
  let (all, shared) ← collectIds st.store (2 * st.store.length + 2) [incompat] [] []
  let precomputed ← (sortIds all).foldlM (m := R)
    (fun pre id => do
      let t ← buildNode st.store shared pre id
      pure (SmallMap.insert pre id t)) []
  unwrapOr (SmallMap.get precomputed incompat) "build_derivation_tree: precomputed.remove(&incompat).unwrap()"

end State
end Pubgrub

/-
Property C20 — SemanticVersion parsing, printing, ordering and bumping are consistent.

Theorems about the model `PubgrubModel/SemVer.lean` of `/repo/src/version.rs` (components are `Nat`
with the explicit `u32` bound `Valid`; decimal printing and `u32::from_str` are written out on
`List Char`).  All clauses of the property are proved; a bump at `u32::MAX` is outside the property
(the Rust overflows) and is the explicit outcome `none` of the model.
-/
import PubgrubProofs.SemVerLaws

namespace Pubgrub.C20
open Pubgrub Pubgrub.SemVer

/-- Display followed by FromStr returns the same version -/
theorem C20_roundtrip (v : SemVer) (hv : v.Valid) : parse (display v) = .ok v := parse_display v hv

/-- FromStr succeeds exactly when the string has three '.'-separated parts that each parse as a u32 -/
theorem C20_parse_ok_iff (s : List Char) (v : SemVer) :
    parse s = .ok v ↔ ∃ a b c, splitDots s [] = [a, b, c] ∧ parseU32 a = .ok v.major ∧
      parseU32 b = .ok v.minor ∧ parseU32 c = .ok v.patch := parse_ok_iff s v

/-- … and every accepted component is a u32 -/
theorem C20_parse_valid (s : List Char) (v : SemVer) (h : parse s = .ok v) : v.Valid := parse_valid s v h

/-- otherwise NotThreeParts (exactly when the split does not have three parts, carrying the input) … -/
theorem C20_notThreeParts_iff (s : List Char) :
    parse s = .error (.notThreeParts s) ↔ (splitDots s []).length ≠ 3 := parse_notThreeParts_iff s

/-- … or ParseIntError naming the first offending part with its error kind -/
theorem C20_parseIntError_first (s a b c part : List Char) (e : IntErr)
    (hs : splitDots s [] = [a, b, c]) (h : FirstOffending a b c part e) :
    parse s = .error (.parseIntError s part e) := parse_error_first_part s a b c part e hs h

/-- what "parses as a u32" means: an optional '+', at least one ASCII digit, value at most u32::MAX -/
theorem C20_parseU32_ok_iff (s : List Char) (n : Nat) :
    parseU32 s = .ok n ↔
      (digitsValue s = some n ∨ ∃ r, s = '+' :: r ∧ digitsValue r = some n) ∧ n ≤ u32Max :=
  parseU32_ok_iff s n

/-- ordering is lexicographic on (major, minor, patch), and a linear order -/
theorem C20_order (a b c : SemVer) :
    (cmp a b = .lt ↔ (a.major < b.major ∨ (a.major = b.major ∧
      (a.minor < b.minor ∨ (a.minor = b.minor ∧ a.patch < b.patch))))) ∧
    (cmp a b = .eq ↔ a = b) ∧ cmp b a = (cmp a b).swap ∧
    (cmp a b = .lt → cmp b c = .lt → cmp a c = .lt) :=
  ⟨cmp_lt_iff a b, cmp_eq_iff a b, cmp_swap a b, cmp_lt_trans a b c⟩

/-- tuple conversions are mutually inverse -/
theorem C20_tuples (v : SemVer) (t : Nat × Nat × Nat) :
    ofTuple (toTuple v) = v ∧ toTuple (ofTuple t) = t := ⟨ofTuple_toTuple v, toTuple_ofTuple t⟩

/-- each bump of a component below u32::MAX yields a strictly greater version with the lower
components reset -/
theorem C20_bumps (v : SemVer) :
    (v.patch < u32Max → ∃ w, bumpPatch v = some w ∧ cmp v w = .lt ∧ w.major = v.major ∧
      w.minor = v.minor ∧ w.patch = v.patch + 1 ∧ (v.Valid → w.Valid)) ∧
    (v.minor < u32Max → ∃ w, bumpMinor v = some w ∧ cmp v w = .lt ∧ w.major = v.major ∧
      w.minor = v.minor + 1 ∧ w.patch = 0 ∧ (v.Valid → w.Valid)) ∧
    (v.major < u32Max → ∃ w, bumpMajor v = some w ∧ cmp v w = .lt ∧ w.major = v.major + 1 ∧
      w.minor = 0 ∧ w.patch = 0 ∧ (v.Valid → w.Valid)) :=
  ⟨bumpPatch_spec v, bumpMinor_spec v, bumpMajor_spec v⟩

/-! Non-vacuity -/
example : parse "1.2.3".toList = .ok ⟨1, 2, 3⟩ := rfl
example : (⟨1, 2, 4294967295⟩ : SemVer).Valid := by simp [SemVer.Valid, u32Max]

end Pubgrub.C20

/-
Helpers for `SatisfierTheory.lean`, part 6: the functions that cannot reach a listed panic site because
they do not contain one.
-/
import PubgrubProofs.SatisfierTheoryAux5

set_option linter.unusedSectionVars false
set_option linter.unusedVariables false

namespace Pubgrub
open VersionSet

/-- no listed panic, nothing claimed about the value -/
abbrev Safe0 {α : Type} (r : R α) : Prop := Safe r (fun _ => True)

theorem Safe.bind0 {α β : Type} {x : R α} {f : α → R β} (hx : Safe0 x) (hf : ∀ a, Safe0 (f a)) :
    Safe0 (x >>= f) :=
  Safe.bind hx (fun a _ _ => hf a)

theorem Safe.weaken {α : Type} {r : R α} {Q : α → Prop} (h : Safe r Q) : Safe0 r :=
  h.mono (fun _ _ _ => trivial)

theorem Safe.error_of_eq {α β : Type} {x : R α} {e : Fault} {Q : β → Prop} (h : x = .error e) (hx : Safe0 x) :
    Safe (.error e : R β) Q := by
  subst h; cases e <;> exact hx

/-- one step of a syntactic check -/
macro "safe0_step" : tactic =>
  `(tactic| first
    | exact Safe.ok trivial
    | exact Safe.pure' trivial
    | exact Safe.fuel
    | exact Safe.panic (by not_listed)
    | exact Safe.throw' (by not_listed)
    | exact Safe.unwrapOr (fun _ => by not_listed) (fun _ _ => trivial)
    | exact Safe.storeGet (fun _ _ => trivial)
    | assumption
    | (refine Safe.bind0 ?_ (fun _ => ?_))
    | (refine Safe.error_of_eq (by assumption) ?_)
    | split
    | (intro _)
    | (dsimp only))

section
variable {P S V M Pr : Type} [DecidableEq P] [VersionSet S V] [DecidableEq S]

theorem Incompat.unwrapPositive_safe (t : Term S) : Safe0 (Incompat.unwrapPositive t) := by
  unfold Incompat.unwrapPositive; repeat' safe0_step

theorem Incompat.unwrapNegative_safe (t : Term S) : Safe0 (Incompat.unwrapNegative t) := by
  unfold Incompat.unwrapNegative; repeat' safe0_step

theorem Incompat.noVersions_safe (p : P) (t : Term S) :
    Safe0 (Incompat.noVersions (V := V) (M := M) p t) := by
  unfold Incompat.noVersions; repeat' safe0_step

theorem Incompat.mergeDependents_safe (a b : Incompat P S V M) : Safe0 (a.mergeDependents b) := by
  unfold Incompat.mergeDependents
  repeat' first | safe0_step | exact Incompat.unwrapPositive_safe _ | exact Incompat.unwrapNegative_safe _


theorem foldlM_safe0 {α β : Type} (f : β → α → R β) (hf : ∀ b a, Safe0 (f b a)) :
    ∀ (l : List α) (b : β), Safe0 (l.foldlM (m := R) f b) := by
  intro l
  induction l with
  | nil => intro b; exact Safe.ok trivial
  | cons a l ih =>
    intro b
    rw [List.foldlM_cons]
    exact Safe.bind0 (hf b a) (fun b' => ih b')

theorem mapM_safe0 {α β : Type} (f : α → R β) (hf : ∀ a, Safe0 (f a)) :
    ∀ (l : List α), Safe0 (l.mapM (m := R) f) := by
  intro l
  induction l with
  | nil => exact Safe.ok trivial
  | cons a l ih =>
    rw [List.mapM_cons]
    refine Safe.bind0 (hf a) (fun b => Safe.bind0 ih (fun _ => Safe.ok trivial))

namespace State

theorem findMerge_safe (store : List (Incompat P S V M)) (inc : Incompat P S V M) :
    ∀ ids : List Nat, Safe0 (findMerge store inc ids) := by
  intro ids
  induction ids with
  | nil => unfold findMerge; exact Safe.ok trivial
  | cons a rest ih =>
    unfold findMerge
    repeat' first | safe0_step | exact Incompat.mergeDependents_safe _ _

theorem mergeIncompatibility_safe (st : State P S V M Pr) (id : Nat) :
    Safe0 (mergeIncompatibility st id) := by
  unfold mergeIncompatibility
  repeat' first | safe0_step | exact findMerge_safe _ _ _

theorem addIncompatibility_safe (st : State P S V M Pr) (inc : Incompat P S V M) :
    Safe0 (addIncompatibility st inc) := by
  unfold addIncompatibility
  exact mergeIncompatibility_safe _ _

theorem addIncompatibilityFromDependencies_safe (st : State P S V M Pr) (p : P) (v : V)
    (deps : List (P × S)) : Safe0 (addIncompatibilityFromDependencies st p v deps) := by
  unfold addIncompatibilityFromDependencies
  refine Safe.bind0 (foldlM_safe0 _ (fun st id => mergeIncompatibility_safe st id) _ _) ?_
  intro _; exact Safe.ok trivial

theorem collectIds_safe (store : List (Incompat P S V M)) :
    ∀ (fuel : Nat) (stack all shared : List Nat), Safe0 (collectIds store fuel stack all shared) := by
  intro fuel
  induction fuel with
  | zero => intro _ _ _; unfold collectIds; exact Safe.fuel
  | succ fuel ih =>
    intro stack all shared
    unfold collectIds
    repeat' first | safe0_step | exact ih _ _ _

theorem buildNode_safe (store : List (Incompat P S V M)) (shared : List Nat)
    (pre : List (Nat × DerivationTree P S V M)) (id : Nat) : Safe0 (buildNode store shared pre id) := by
  unfold buildNode
  repeat' safe0_step

theorem buildDerivationTree_safe (st : State P S V M Pr) (id : Nat) : Safe0 (st.buildDerivationTree id) := by
  unfold buildDerivationTree
  refine Safe.bind0 (collectIds_safe _ _ _ _ _) ?_
  intro ⟨all, shared⟩
  dsimp only
  refine Safe.bind0 (foldlM_safe0 _ ?_ _ _) ?_
  · intro pre id
    exact Safe.bind0 (buildNode_safe _ _ _ _) (fun _ => Safe.ok trivial)
  · intro _; safe0_step

end State

namespace PartialSolution

theorem swapIndices_safe {α : Type} (l : List α) (i j : Nat) : Safe0 (swapIndices l i j) := by
  unfold swapIndices; repeat' safe0_step

theorem addDecision_safe (debug : Bool) (ps : PartialSolution P S V Pr) (p : P) (v : V) :
    Safe0 (addDecision debug ps p v) := by
  unfold addDecision
  repeat' first | safe0_step | exact swapIndices_safe _ _ _

theorem addVersion_safe (debug : Bool) (ps : PartialSolution P S V Pr) (p : P) (v : V)
    (news : List (Incompat P S V M)) : Safe0 (addVersion debug ps p v news) := by
  unfold addVersion
  repeat' first | safe0_step | exact addDecision_safe _ _ _ _

theorem toPrioritize_safe (ps : PartialSolution P S V Pr) : Safe0 ps.toPrioritize := by
  unfold toPrioritize; repeat' safe0_step

theorem extractSolution_safe (ps : PartialSolution P S V Pr) : Safe0 ps.extractSolution := by
  unfold extractSolution
  refine mapM_safe0 _ ?_ _
  intro ⟨p, pa⟩
  repeat' safe0_step

end PartialSolution
end
end Pubgrub

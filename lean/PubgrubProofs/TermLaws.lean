/-
TARGET FILE: PubgrubProofs/TermLaws.lean
Term reasoning matches the meaning of the terms (property C11) and the provided methods of the
VersionSet trait are correct (property C17, first half).
Replace every `sorry`; add helpers as needed; do not change the target statements.
-/
import PubgrubProofs.Defs

set_option linter.unusedSectionVars false

namespace Pubgrub
open VersionSet

namespace Term
variable {S V : Type} [VersionSet S V] [DecidableEq S] [L : LawfulVersionSet S V]

theorem eval_negate (t : Term S) (c : Option V) : (negate t).eval c = !t.eval c := by
  cases t <;> cases c <;> simp [negate, eval]

theorem contains_eq_eval (t : Term S) (v : V) : t.contains v = t.eval (some v) := by
  cases t <;> simp [contains, eval]

theorem valid_negate (t : Term S) (h : t.Valid) : (negate t).Valid := by
  cases t <;> simpa [negate, Valid] using h
theorem valid_intersection (t1 t2 : Term S) (h1 : t1.Valid) (h2 : t2.Valid) :
    (intersection t1 t2).Valid := by
  cases t1 <;> cases t2 <;> simp only [intersection, Valid] at * <;>
    first
      | exact L.valid_intersection _ _ h1 h2
      | exact L.valid_intersection _ _ (L.valid_complement _ h2) h1
      | exact L.valid_intersection _ _ (L.valid_complement _ h1) h2
      | exact L.valid_union _ _ h1 h2
theorem valid_union (t1 t2 : Term S) (h1 : t1.Valid) (h2 : t2.Valid) :
    (union t1 t2).Valid := by
  cases t1 <;> cases t2 <;> simp only [union, Valid] at * <;>
    first
      | exact L.valid_union _ _ h1 h2
      | exact L.valid_intersection _ _ (L.valid_complement _ h1) h2
      | exact L.valid_intersection _ _ (L.valid_complement _ h2) h1
      | exact L.valid_intersection _ _ h1 h2

theorem eval_intersection (t1 t2 : Term S) (h1 : t1.Valid) (h2 : t2.Valid) (c : Option V) :
    (intersection t1 t2).eval c = (t1.eval c && t2.eval c) := by
  cases t1 <;> cases t2 <;> cases c <;> simp only [Valid] at h1 h2 <;>
    simp [intersection, eval, L.contains_intersection, L.contains_union, L.contains_complement,
      L.valid_complement, h1, h2, Bool.and_comm]

theorem eval_union (t1 t2 : Term S) (h1 : t1.Valid) (h2 : t2.Valid) (c : Option V) :
    (union t1 t2).eval c = (t1.eval c || t2.eval c) := by
  cases t1 <;> cases t2 <;> cases c <;> simp only [Valid] at h1 h2 <;>
    simp [union, eval, L.contains_intersection, L.contains_union, L.contains_complement,
      L.valid_complement, h1, h2, Bool.or_comm]

theorem subsetOf_iff (t1 t2 : Term S) (h1 : t1.Valid) (h2 : t2.Valid) :
    subsetOf t1 t2 = true ↔ ∀ c : Option V, t1.eval c = true → t2.eval c = true := by
  cases t1 <;> cases t2 <;> simp only [Valid] at h1 h2 <;>
    simp [subsetOf, eval, Option.forall, L.subsetOf_iff _ _ h1 h2, L.subsetOf_iff _ _ h2 h1,
      L.isDisjoint_iff _ _ h1 h2]
  rename_i a b
  refine forall_congr' fun v => ?_
  cases VersionSet.contains a v <;> cases VersionSet.contains b v <;> simp

theorem isDisjoint_iff (t1 t2 : Term S) (h1 : t1.Valid) (h2 : t2.Valid) :
    isDisjoint t1 t2 = true ↔ ∀ c : Option V, ¬ (t1.eval c = true ∧ t2.eval c = true) := by
  cases t1 <;> cases t2 <;> simp only [Valid] at h1 h2 <;>
    simp [isDisjoint, eval, Option.forall, L.subsetOf_iff _ _ h1 h2, L.subsetOf_iff _ _ h2 h1,
      L.isDisjoint_iff _ _ h1 h2]
  rename_i a b
  refine forall_congr' fun v => ?_
  cases VersionSet.contains a v <;> cases VersionSet.contains b v <;> simp

/-- `relation_with` is `Satisfied` iff the other term implies this one, otherwise `Contradicted`
iff they exclude each other, otherwise `Inconclusive` -/
theorem relationWith_satisfied_iff (t o : Term S) (h1 : t.Valid) (h2 : o.Valid) :
    relationWith t o = .satisfied ↔ ∀ c : Option V, o.eval c = true → t.eval c = true := by
  rw [← subsetOf_iff o t h2 h1]
  unfold relationWith
  cases subsetOf o t <;> cases isDisjoint t o <;> simp

theorem relationWith_contradicted_iff (t o : Term S) (h1 : t.Valid) (h2 : o.Valid) :
    relationWith t o = .contradicted ↔
      (¬ ∀ c : Option V, o.eval c = true → t.eval c = true) ∧
      ∀ c : Option V, ¬ (t.eval c = true ∧ o.eval c = true) := by
  rw [← subsetOf_iff o t h2 h1, ← isDisjoint_iff t o h1 h2]
  unfold relationWith
  cases subsetOf o t <;> cases isDisjoint t o <;> simp

theorem relationWith_inconclusive_iff (t o : Term S) (h1 : t.Valid) (h2 : o.Valid) :
    relationWith t o = .inconclusive ↔
      (¬ ∀ c : Option V, o.eval c = true → t.eval c = true) ∧
      ¬ ∀ c : Option V, ¬ (t.eval c = true ∧ o.eval c = true) := by
  rw [← subsetOf_iff o t h2 h1, ← isDisjoint_iff t o h1 h2]
  unfold relationWith
  cases subsetOf o t <;> cases isDisjoint t o <;> simp

/-- finding F2: on the pinned tree the `Negative/Negative` row of `is_disjoint` called the two
always-true terms disjoint although both are true when nothing is selected -/
theorem legacy_isDisjoint_any_any_wrong :
    Legacy.isDisjoint (any : Term S) (any : Term S) = true ∧
      ((any : Term S).eval (none : Option V) = true) := by
  simp [Legacy.isDisjoint, any, eval]

end Term

/-! ### C17: the provided trait methods -/
section Provided
variable {S V : Type} [DecidableEq S]

private theorem bool_and_false_iff (x y : Bool) : (x && y) = false ↔ ¬ (x = true ∧ y = true) := by
  revert x y; decide

private theorem bool_eq_and_iff (x y : Bool) : x = (x && y) ↔ (x = true → y = true) := by
  revert x y; decide

private theorem bool_not_and_not_not (x y : Bool) : (!(!x && !y)) = (x || y) := by
  revert x y; decide

set_option warn.classDefReducibility false in
/-- An implementation that writes only the five required methods, lawfully and with canonical
equality, gets lawful `full`, `union`, `is_disjoint`, `subset_of` from the trait's provided bodies. -/
def lawful_ofRequired (empty : S) (singleton : V → S) (complement : S → S)
    (intersection : S → S → S) (contains : S → V → Bool)
    (R : @LawfulRequired S V
      (VersionSet.ofRequired empty singleton complement intersection contains)) :
    @LawfulVersionSet S V (VersionSet.ofRequired empty singleton complement intersection contains) := by
  exact @LawfulVersionSet.mk S V
    (VersionSet.ofRequired empty singleton complement intersection contains)
    (Valid := R.Valid)
    (valid_empty := R.valid_empty)
    (valid_singleton := R.valid_singleton)
    (valid_complement := R.valid_complement)
    (valid_intersection := R.valid_intersection)
    (valid_full := R.valid_complement _ R.valid_empty)
    (valid_union := fun a b ha hb =>
      R.valid_complement _
        (R.valid_intersection _ _ (R.valid_complement _ ha) (R.valid_complement _ hb)))
    (contains_empty := R.contains_empty)
    (contains_singleton := R.contains_singleton)
    (contains_complement := R.contains_complement)
    (contains_intersection := R.contains_intersection)
    (contains_full := fun v => by
      have h1 : contains (complement empty) v = !contains empty v :=
        R.contains_complement _ v R.valid_empty
      have h2 : contains empty v = false := R.contains_empty v
      show contains (complement empty) v = true
      rw [h1, h2]; rfl)
    (contains_union := fun a b v ha hb => by
      have h1 : contains (complement (intersection (complement a) (complement b))) v =
          !contains (intersection (complement a) (complement b)) v :=
        R.contains_complement _ v
          (R.valid_intersection _ _ (R.valid_complement _ ha) (R.valid_complement _ hb))
      have h2 : contains (intersection (complement a) (complement b)) v =
          (contains (complement a) v && contains (complement b) v) :=
        R.contains_intersection _ _ v (R.valid_complement _ ha) (R.valid_complement _ hb)
      have h3 : contains (complement a) v = !contains a v := R.contains_complement _ v ha
      have h4 : contains (complement b) v = !contains b v := R.contains_complement _ v hb
      show contains (complement (intersection (complement a) (complement b))) v =
        (contains a v || contains b v)
      rw [h1, h2, h3, h4, bool_not_and_not_not])
    (isDisjoint_iff := fun a b ha hb => by
      have hi : ∀ v, contains (intersection a b) v = (contains a v && contains b v) :=
        fun v => R.contains_intersection a b v ha hb
      have he : ∀ v, contains empty v = false := R.contains_empty
      have hx : (∀ v, contains (intersection a b) v = contains empty v) →
          intersection a b = empty :=
        R.ext _ _ (R.valid_intersection a b ha hb) R.valid_empty
      show (intersection a b == empty) = true ↔
        ∀ v : V, ¬ (contains a v = true ∧ contains b v = true)
      rw [beq_iff_eq]
      constructor
      · intro h v
        rw [← bool_and_false_iff, ← hi v, h, he v]
      · intro h
        apply hx
        intro v
        rw [hi v, he v, bool_and_false_iff]
        exact h v)
    (subsetOf_iff := fun a b ha hb => by
      have hi : ∀ v, contains (intersection a b) v = (contains a v && contains b v) :=
        fun v => R.contains_intersection a b v ha hb
      have hx : (∀ v, contains a v = contains (intersection a b) v) →
          a = intersection a b :=
        R.ext _ _ ha (R.valid_intersection a b ha hb)
      show (a == intersection a b) = true ↔
        ∀ v : V, contains a v = true → contains b v = true
      rw [beq_iff_eq]
      constructor
      · intro h v
        rw [← bool_eq_and_iff, ← hi v, ← h]
      · intro h
        apply hx
        intro v
        rw [hi v, bool_eq_and_iff]
        exact h v)

end Provided

/-- the finite-universe bit set is a lawful implementation of the required methods, with
canonical equality, for versions below `n` -- stated on the versions `Fin n` would be cleaner but the
model's `V` is `Nat`: membership of a version `≥ n` is always false, so `complement` is only lawful
below `n`.  Validity = the list has length `n`; the laws are stated for `v < n`. -/
theorem BitSet.contains_complement {n : Nat} (a : BitSet n) (h : a.bits.length = n) (v : Nat)
    (hv : v < n) : (BitSet.complement a).contains v = !a.contains v := by
  rw [← h] at hv
  simp [BitSet.complement, BitSet.contains, List.getD_eq_getElem?_getD, hv]

set_option linter.unusedVariables false in
theorem BitSet.contains_intersection {n : Nat} (a b : BitSet n) (ha : a.bits.length = n)
    (hb : b.bits.length = n) (v : Nat) :
    (BitSet.intersection a b).contains v = (a.contains v && b.contains v) := by
  simp only [BitSet.intersection, BitSet.contains, List.getD_eq_getElem?_getD, List.getElem?_zipWith]
  cases a.bits[v]? <;> cases b.bits[v]? <;> simp

theorem BitSet.ext {n : Nat} (a b : BitSet n) (ha : a.bits.length = n) (hb : b.bits.length = n)
    (h : ∀ v, v < n → a.contains v = b.contains v) : a = b := by
  cases a with | mk as => cases b with | mk bs =>
  simp only [BitSet.contains] at h ha hb
  congr 1
  apply List.ext_getElem (by rw [ha, hb])
  intro i h1 h2
  have := h i (by omega)
  simpa [List.getD_eq_getElem?_getD, h1, h2] using this

/-! ### Further corollaries (not in the original target list) -/
namespace Term
variable {S V : Type} [VersionSet S V] [DecidableEq S] [L : LawfulVersionSet S V]

theorem eval_any (c : Option V) : (Term.any : Term S).eval c = true := by
  cases c <;> simp [any, eval, L.contains_empty]

theorem eval_empty (c : Option V) : (Term.empty : Term S).eval c = false := by
  cases c <;> simp [empty, eval, L.contains_empty]

theorem eval_exact (v : V) (c : Option V) : (Term.exact v : Term S).eval c = true ↔ c = some v := by
  cases c <;> simp [exact, eval, L.contains_singleton]

theorem valid_any : (Term.any : Term S).Valid := L.valid_empty
theorem valid_empty : (Term.empty : Term S).Valid := L.valid_empty
theorem valid_exact (v : V) : (Term.exact v : Term S).Valid := L.valid_singleton v

/-- a term is positive exactly when it is false on "nothing selected" -/
theorem eval_none (t : Term S) : t.eval (none : Option V) = !t.isPositive := by
  cases t <;> simp [eval, isPositive]

theorem negate_negate (t : Term S) : negate (negate t) = t := by
  cases t <;> rfl

theorem isPositive_negate (t : Term S) : (negate t).isPositive = !t.isPositive := by
  cases t <;> rfl

/-- disjointness is emptiness of the intersection -/
theorem isDisjoint_iff_intersection (t1 t2 : Term S) (h1 : t1.Valid) (h2 : t2.Valid) :
    isDisjoint t1 t2 = true ↔ ∀ c : Option V, (intersection t1 t2).eval c = false := by
  rw [isDisjoint_iff t1 t2 h1 h2]
  refine forall_congr' fun c => ?_
  rw [eval_intersection t1 t2 h1 h2]
  cases t1.eval c <;> cases t2.eval c <;> simp

/-- inclusion is "the union adds nothing" -/
theorem subsetOf_iff_union (t1 t2 : Term S) (h1 : t1.Valid) (h2 : t2.Valid) :
    subsetOf t1 t2 = true ↔ ∀ c : Option V, (union t1 t2).eval c = t2.eval c := by
  rw [subsetOf_iff t1 t2 h1 h2]
  refine forall_congr' fun c => ?_
  rw [eval_union t1 t2 h1 h2]
  cases t1.eval c <;> cases t2.eval c <;> simp

theorem isDisjoint_comm (t1 t2 : Term S) (h1 : t1.Valid) (h2 : t2.Valid) :
    isDisjoint t1 t2 = isDisjoint t2 t1 := by
  rw [Bool.eq_iff_iff, isDisjoint_iff t1 t2 h1 h2, isDisjoint_iff t2 t1 h2 h1]
  exact forall_congr' fun c => by rw [and_comm]

theorem subsetOf_refl (t : Term S) (h : t.Valid) : subsetOf t t = true :=
  (subsetOf_iff t t h h).2 fun _ hc => hc

theorem subsetOf_trans (t1 t2 t3 : Term S) (h1 : t1.Valid) (h2 : t2.Valid) (h3 : t3.Valid)
    (h12 : subsetOf t1 t2 = true) (h23 : subsetOf t2 t3 = true) : subsetOf t1 t3 = true :=
  (subsetOf_iff t1 t3 h1 h3).2 fun c hc =>
    (subsetOf_iff t2 t3 h2 h3).1 h23 c ((subsetOf_iff t1 t2 h1 h2).1 h12 c hc)

/-- a term and its negation are disjoint and cover every choice -/
theorem isDisjoint_negate (t : Term S) (h : t.Valid) : isDisjoint t (negate t) = true := by
  rw [isDisjoint_iff t _ h (valid_negate t h)]
  intro c
  rw [eval_negate]
  cases t.eval c <;> simp

theorem eval_union_negate (t : Term S) (h : t.Valid) (c : Option V) :
    (union t (negate t)).eval c = true := by
  rw [eval_union t _ h (valid_negate t h), eval_negate]
  cases t.eval c <;> rfl

/-- De Morgan, as computed by the model (syntactic for valid-or-not terms is false in general;
this is the semantic statement) -/
theorem eval_negate_intersection (t1 t2 : Term S) (h1 : t1.Valid) (h2 : t2.Valid) (c : Option V) :
    (negate (intersection t1 t2)).eval c = (union (negate t1) (negate t2)).eval c := by
  rw [eval_negate, eval_intersection t1 t2 h1 h2,
    eval_union _ _ (valid_negate t1 h1) (valid_negate t2 h2), eval_negate, eval_negate]
  cases t1.eval c <;> cases t2.eval c <;> rfl

/-- soundness directions of `relation_with`, in the form the solver uses them -/
theorem relationWith_satisfied_sound (t o : Term S) (h1 : t.Valid) (h2 : o.Valid)
    (h : relationWith t o = .satisfied) (c : Option V) (hc : o.eval c = true) :
    t.eval c = true :=
  (relationWith_satisfied_iff t o h1 h2).1 h c hc

theorem relationWith_contradicted_sound (t o : Term S) (h1 : t.Valid) (h2 : o.Valid)
    (h : relationWith t o = .contradicted) (c : Option V) (hc : o.eval c = true) :
    t.eval c = false := by
  have := ((relationWith_contradicted_iff t o h1 h2).1 h).2 c
  cases ht : t.eval c
  · rfl
  · exact absurd ⟨ht, hc⟩ this

/-- `relation_with` against the intersection of everything known: `satisfied` when `o` is below `t` -/
theorem relationWith_self (t : Term S) (h : t.Valid) : relationWith t t = .satisfied :=
  (relationWith_satisfied_iff t t h h).2 fun _ hc => hc

/-- the legacy `is_disjoint` is unsound: it answers `true` on a pair that is jointly satisfiable -/
theorem legacy_isDisjoint_unsound :
    ¬ (∀ t1 t2 : Term S, t1.Valid → t2.Valid → Legacy.isDisjoint t1 t2 = true →
        ∀ c : Option V, ¬ (t1.eval c = true ∧ t2.eval c = true)) := by
  intro h
  have hw := legacy_isDisjoint_any_any_wrong (S := S) (V := V)
  exact h any any valid_any valid_any hw.1 none ⟨hw.2, hw.2⟩

/-- the legacy and the fixed `is_disjoint` differ only on two negative terms -/
theorem legacy_isDisjoint_eq (t1 t2 : Term S) (h : t1.isPositive = true ∨ t2.isPositive = true) :
    Legacy.isDisjoint t1 t2 = isDisjoint t1 t2 := by
  cases t1 <;> cases t2 <;> simp_all [Legacy.isDisjoint, isDisjoint, isPositive]

end Term

end Pubgrub

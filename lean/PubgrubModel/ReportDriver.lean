/-
Driver side of the `report` / `collapse` requests: token text of trees, canonical printing.
-/
import PubgrubModel.Report
import PubgrubModel.SolveDriver

namespace Pubgrub.ReportDriver
open Pubgrub Pubgrub.Protocol Pubgrub.SolveDriver

abbrev T := DerivationTree String (Range Nat) Nat String
abbrev Ext := External String (Range Nat) Nat String

/-- prefix token parser -/
def parseTree : (fuel : Nat) → List String → Option (T × List String)
  | 0, _ => none
  | fuel + 1, toks =>
    match toks with
    | "N" :: p :: v :: rest => v.toNat?.map fun v => (.external (.notRoot p v), rest)
    | "V" :: p :: s :: rest => (parseSegs s).map fun s => (.external (.noVersions p s), rest)
    | "F" :: p :: s :: q :: t :: rest =>
      match parseSegs s, parseSegs t with
      | some s, some t => some (.external (.fromDependencyOf p s q t), rest)
      | _, _ => none
    | "C" :: p :: s :: m :: rest => (parseSegs s).map fun s => (.external (.custom p s m), rest)
    | "D" :: sid :: n :: rest =>
      match n.toNat? with
      | none => none
      | some n =>
        let rec terms : Nat → List String → List (String × Term (Range Nat)) →
            Option (List (String × Term (Range Nat)) × List String)
          | 0, r, acc => some (acc, r)
          | k + 1, p :: t :: r, acc =>
            match parseTerm t with
            | some t => terms k r (acc ++ [(p, t)])
            | none => none
          | _, _, _ => none
        match terms n rest [] with
        | none => none
        | some (ts, rest) =>
          match parseTree fuel rest with
          | none => none
          | some (c1, rest) =>
            match parseTree fuel rest with
            | none => none
            | some (c2, rest) => some (.derived ts sid.toNat? c1 c2, rest)
    | _ => none

def extM : Ext → String
  | .notRoot p v => s!"N@{p}@{v}"
  | .noVersions p s => s!"V@{p}@{fmtSegs s}"
  | .fromDependencyOf p s q t => s!"F@{p}@{fmtSegs s}@{q}@{fmtSegs t}"
  | .custom p s m => s!"C@{p}@{fmtSegs s}@{m}"

def termsM (terms : List (String × Term (Range Nat))) : String :=
  ",".intercalate (sortStrings (terms.map fun (p, t) => p ++ fmtTerm t))

partial def treeCanon : T → String
  | .external e => extM e
  | .derived terms sid c1 c2 =>
    let s := match sid with | some i => toString i | none => "-"
    s!"D[{s}][{termsM terms}]({treeCanon c1})({treeCanon c2})"

def stepRec : Step String (Range Nat) Nat String → String
  | .bothExternal e1 e2 t => s!"BE<{extM e1}><{extM e2}><{termsM t}>"
  | .bothRef r1 t1 r2 t2 t => s!"BR<{r1}><{termsM t1}><{r2}><{termsM t2}><{termsM t}>"
  | .refAndExternal r dt e t => s!"RE<{r}><{termsM dt}><{extM e}><{termsM t}>"
  | .andExternal e t => s!"AE<{extM e}><{termsM t}>"
  | .andRef r dt t => s!"AR<{r}><{termsM dt}><{termsM t}>"
  | .andPriorAndExternal pe e t => s!"AP<{extM pe}><{extM e}><{termsM t}>"
  | .blank => ""

def lineRec (l : Line String (Range Nat) Nat String) : String :=
  l.refs.foldl (fun acc n => acc ++ " (" ++ toString n ++ ")") (stepRec l.step)

def showNat (n : Nat) : String := toString n

def reportLine (toks : String) : String :=
  let ts := toks.splitOn "!"
  match parseTree (ts.length + 1) ts with
  | none => "bad-request"
  | some (tree, _) =>
    match reportSteps tree with
    | .error (.panic _) => "panic"
    | .error .outOfFuel => "outoffuel"
    | .ok (.inl e) =>
      "TEXT=" ++ formatExternal (fun p : String => p) showNat dispRange (fun m : String => m) e ++
      "|REC=EXT<" ++ extM e ++ ">"
    | .ok (.inr lines) =>
      "TEXT=" ++ " ## ".intercalate
        (lines.map (formatLine (fun p : String => p) showNat dispRange (fun m : String => m))) ++
      "|REC=" ++ " ## ".intercalate (lines.map lineRec)

def collapseLine (toks : String) : String :=
  let ts := toks.splitOn "!"
  match parseTree (ts.length + 1) ts with
  | none => "bad-request"
  | some (tree, _) =>
    match tree.collapseNoVersions with
    | .error _ => "panic"
    | .ok t => treeCanon t

end Pubgrub.ReportDriver

//! Derivation trees: token text (requests), independent semantic checks (oracles of C03 / C08 / C09).
use crate::hset::HSet;
use crate::solver::{term_true, Registry};
use pubgrub::{DerivationTree, Derived, External, Map, Term, VersionSet};
use std::collections::{BTreeMap, BTreeSet};
use std::sync::Arc;

pub type Tree<VS> = DerivationTree<String, VS, String>;
pub type Clause<VS> = Vec<(String, Term<VS>)>;

pub fn term_m<VS: HSet>(t: &Term<VS>) -> String {
    match t {
        Term::Positive(s) => format!("+{}", s.to_machine()),
        Term::Negative(s) => format!("~{}", s.to_machine()),
    }
}
pub fn parse_term_m<VS: HSet>(s: &str) -> Term<VS> {
    match s.as_bytes()[0] {
        b'+' => Term::Positive(VS::from_machine(&s[1..])),
        _ => Term::Negative(VS::from_machine(&s[1..])),
    }
}

/// prefix token text of a tree; `terms` in the iteration order of the real map
pub fn tree_tokens<VS: HSet>(t: &Tree<VS>) -> String {
    let mut out: Vec<String> = vec![];
    fn go<VS: HSet>(t: &Tree<VS>, out: &mut Vec<String>) {
        match t {
            DerivationTree::External(e) => match e {
                External::NotRoot(p, v) => out.extend(["N".into(), p.clone(), v.to_string()]),
                External::NoVersions(p, s) => out.extend(["V".into(), p.clone(), s.to_machine()]),
                External::FromDependencyOf(p, s, q, r) => {
                    out.extend(["F".into(), p.clone(), s.to_machine(), q.clone(), r.to_machine()])
                }
                External::Custom(p, s, m) => out.extend(["C".into(), p.clone(), s.to_machine(), m.clone()]),
            },
            DerivationTree::Derived(d) => {
                out.push("D".into());
                out.push(d.shared_id.map(|i| i.to_string()).unwrap_or("-".into()));
                out.push(d.terms.len().to_string());
                for (p, t) in d.terms.iter() {
                    out.push(p.clone());
                    out.push(term_m(t));
                }
                go(&d.cause1, out);
                go(&d.cause2, out);
            }
        }
    }
    go(t, &mut out);
    out.join("!")
}

/// canonical text of a tree (terms sorted), for comparing results
pub fn tree_canon<VS: HSet>(t: &Tree<VS>) -> String {
    match t {
        DerivationTree::External(e) => ext_m(e),
        DerivationTree::Derived(d) => {
            let mut terms: Vec<String> = d.terms.iter().map(|(p, t)| format!("{}{}", p, term_m(t))).collect();
            terms.sort();
            format!(
                "D[{}][{}]({})({})",
                d.shared_id.map(|i| i.to_string()).unwrap_or("-".into()),
                terms.join(","),
                tree_canon(&d.cause1),
                tree_canon(&d.cause2)
            )
        }
    }
}

pub fn ext_m<VS: HSet>(e: &External<String, VS, String>) -> String {
    match e {
        External::NotRoot(p, v) => format!("N@{}@{}", p, v),
        External::NoVersions(p, s) => format!("V@{}@{}", p, s.to_machine()),
        External::FromDependencyOf(p, s, q, r) => format!("F@{}@{}@{}@{}", p, s.to_machine(), q, r.to_machine()),
        External::Custom(p, s, m) => format!("C@{}@{}@{}", p, s.to_machine(), m),
    }
}

pub fn terms_m<VS: HSet>(terms: &Map<String, Term<VS>>) -> String {
    let mut v: Vec<String> = terms.iter().map(|(p, t)| format!("{}{}", p, term_m(t))).collect();
    v.sort();
    v.join(",")
}

pub fn parse_tree<VS: HSet>(tokens: &str) -> Tree<VS> {
    let toks: Vec<&str> = tokens.split('!').collect();
    // shared nodes: equal shared ids must be the same Arc (not needed by the reporter, which only
    // reads shared_id, but keeps the tree shaped like the solver's)
    fn go<VS: HSet>(toks: &[&str], i: &mut usize, shared: &mut BTreeMap<usize, Arc<Tree<VS>>>) -> Arc<Tree<VS>> {
        let k = toks[*i];
        *i += 1;
        match k {
            "N" => {
                let t = DerivationTree::External(External::NotRoot(toks[*i].to_string(), toks[*i + 1].parse().unwrap()));
                *i += 2;
                Arc::new(t)
            }
            "V" => {
                let t = DerivationTree::External(External::NoVersions(toks[*i].to_string(), VS::from_machine(toks[*i + 1])));
                *i += 2;
                Arc::new(t)
            }
            "F" => {
                let t = DerivationTree::External(External::FromDependencyOf(
                    toks[*i].to_string(),
                    VS::from_machine(toks[*i + 1]),
                    toks[*i + 2].to_string(),
                    VS::from_machine(toks[*i + 3]),
                ));
                *i += 4;
                Arc::new(t)
            }
            "C" => {
                let t = DerivationTree::External(External::Custom(
                    toks[*i].to_string(),
                    VS::from_machine(toks[*i + 1]),
                    toks[*i + 2].to_string(),
                ));
                *i += 3;
                Arc::new(t)
            }
            "D" => {
                let sid: Option<usize> = toks[*i].parse().ok();
                let n: usize = toks[*i + 1].parse().unwrap();
                *i += 2;
                let mut terms: Map<String, Term<VS>> = Map::default();
                for _ in 0..n {
                    terms.insert(toks[*i].to_string(), parse_term_m(toks[*i + 1]));
                    *i += 2;
                }
                let c1 = go(toks, i, shared);
                let c2 = go(toks, i, shared);
                let node = Arc::new(DerivationTree::Derived(Derived { terms, shared_id: sid, cause1: c1, cause2: c2 }));
                if let Some(id) = sid {
                    shared.entry(id).or_insert(node).clone()
                } else {
                    node
                }
            }
            other => panic!("bad tree token {}", other),
        }
    }
    let mut i = 0;
    let mut shared = BTreeMap::new();
    let t = go::<VS>(&toks, &mut i, &mut shared);
    (*t).clone()
}

// ------------------------------------------------------------------ semantics

/// the clause a leaf stands for (what the constructor of that kind builds, after the F1 fix)
pub fn clause_of_ext<VS: HSet>(e: &External<String, VS, String>) -> Clause<VS> {
    match e {
        External::NotRoot(p, v) => vec![(p.clone(), Term::Negative(VS::singleton(*v)))],
        External::NoVersions(p, s) => vec![(p.clone(), Term::Positive(s.clone()))],
        External::Custom(p, s, _) => vec![(p.clone(), Term::Positive(s.clone()))],
        External::FromDependencyOf(p, s, q, t) => {
            if p == q {
                vec![(p.clone(), Term::Positive(s.intersection(&t.complement())))]
            } else if t == &VS::empty() {
                vec![(p.clone(), Term::Positive(s.clone()))]
            } else {
                vec![(p.clone(), Term::Positive(s.clone())), (q.clone(), Term::Negative(t.clone()))]
            }
        }
    }
}

pub fn clause_of<VS: HSet>(t: &Tree<VS>) -> Clause<VS> {
    match t {
        DerivationTree::External(e) => clause_of_ext(e),
        DerivationTree::Derived(d) => {
            let mut c: Clause<VS> = d.terms.iter().map(|(p, t)| (p.clone(), t.clone())).collect();
            c.sort_by(|a, b| a.0.cmp(&b.0));
            c
        }
    }
}

fn all_true<VS: HSet>(c: &Clause<VS>, sel: &BTreeMap<String, Option<u32>>) -> bool {
    c.iter().all(|(p, t)| term_true(t, sel.get(p).copied().flatten()))
}

thread_local! {
    /// entailment checks given up because the selection space exceeds 300 000 (they count as passes)
    pub static ENTAIL_SKIPPED: std::cell::Cell<u64> = const { std::cell::Cell::new(0) };
}

/// ∀ selection over `choices(p)`: all terms of `concl` true ⇒ all terms of some premise true
pub fn entailed<VS: HSet>(concl: &Clause<VS>, premises: &[Clause<VS>], choices: &dyn Fn(&str) -> Vec<Option<u32>>) -> bool {
    let mut pkgs: BTreeSet<String> = concl.iter().map(|(p, _)| p.clone()).collect();
    for pr in premises {
        for (p, _) in pr {
            pkgs.insert(p.clone());
        }
    }
    let pkgs: Vec<String> = pkgs.into_iter().collect();
    // too large to enumerate: not decided; counted, and reported in the statistics
    let total = pkgs.iter().fold(1u64, |a, p| a.saturating_mul(choices(p).len().max(1) as u64));
    if total > 60_000 {
        ENTAIL_SKIPPED.with(|c| c.set(c.get() + 1));
        return true;
    }
    let mut sels: Vec<BTreeMap<String, Option<u32>>> = vec![BTreeMap::new()];
    for p in &pkgs {
        let cs = choices(p);
        let mut next = Vec::with_capacity(sels.len() * cs.len());
        for s in &sels {
            for c in &cs {
                let mut t = s.clone();
                t.insert(p.clone(), *c);
                next.push(t);
            }
        }
        sels = next;
        if sels.len() > 60_000 {
            // too large to enumerate: not decided; counted, and reported in the statistics
            ENTAIL_SKIPPED.with(|c| c.set(c.get() + 1));
            return true;
        }
    }
    sels.iter().all(|s| !all_true(concl, s) || premises.iter().any(|p| all_true(p, s)))
}

/// is the fact stated by the leaf true of the registry?  `existing_only`: the reading of C09
/// (only versions that exist are considered)
pub fn leaf_true<VS: HSet>(reg: &Registry<VS>, root: &str, rv: u32, e: &External<String, VS, String>, existing_only: bool) -> Result<(), String> {
    match e {
        External::NotRoot(p, v) => {
            if p == root && *v == rv {
                Ok(())
            } else {
                Err(format!("leaf NotRoot({}, {}) but the root is {} {}", p, v, root, rv))
            }
        }
        External::NoVersions(p, s) => match reg.versions(p).into_iter().find(|v| s.contains(v)) {
            None => Ok(()),
            Some(v) => Err(format!("leaf NoVersions({}, {}) but version {} exists", p, s, v)),
        },
        External::Custom(p, s, m) => {
            let vs: Vec<u32> = VS::universe().into_iter().filter(|v| s.contains(v)).collect();
            for v in vs.iter().filter(|v| !existing_only || reg.versions(p).contains(v)) {
                match reg.entries.get(&(p.clone(), *v)) {
                    Some(Err(mm)) if mm == m => {}
                    None if m == "unknown" => {}
                    _ => return Err(format!("leaf Custom({}, {}, {}) but {} {} is not unavailable with that reason", p, s, m, p, v)),
                }
            }
            Ok(())
        }
        External::FromDependencyOf(p, s, q, t) => {
            let candidates: Vec<u32> = if existing_only { reg.versions(p) } else { VS::universe() };
            for v in candidates.into_iter().filter(|v| s.contains(v)) {
                match reg.entries.get(&(p.clone(), v)) {
                    Some(Ok(ds)) => {
                        let mut m: BTreeMap<&String, &VS> = BTreeMap::new();
                        for (qq, ss) in ds {
                            m.insert(qq, ss);
                        }
                        match m.get(q) {
                            None => return Err(format!("leaf says {} {} depends on {} but version {} does not", p, s, q, v)),
                            Some(t0) => {
                                let same = if existing_only {
                                    reg.versions(q).iter().all(|w| t0.contains(w) == t.contains(w))
                                } else {
                                    *t0 == t
                                };
                                if !same {
                                    return Err(format!("leaf says {} {} depends on {} {} but version {} declares {}", p, s, q, t, v, t0));
                                }
                            }
                        }
                    }
                    _ => return Err(format!("leaf says {} {} depends on {} but {} {} has no available dependencies", p, s, q, p, v)),
                }
            }
            Ok(())
        }
    }
}

/// C03 / C09 semantic check of a whole tree against the registry
pub fn check_tree<VS: HSet>(reg: &Registry<VS>, root: &str, rv: u32, tree: &Tree<VS>, existing_only: bool) -> Vec<String> {
    let mut errs = vec![];
    let reg2 = reg.clone();
    let choices = move |p: &str| -> Vec<Option<u32>> {
        let mut c: Vec<Option<u32>> = vec![None];
        if existing_only {
            c.extend(reg2.versions(p).into_iter().map(Some));
        } else {
            c.extend(VS::universe().into_iter().map(Some));
        }
        c
    };
    fn go<VS: HSet>(reg: &Registry<VS>, root: &str, rv: u32, t: &Tree<VS>, existing_only: bool, choices: &dyn Fn(&str) -> Vec<Option<u32>>, errs: &mut Vec<String>) {
        match t {
            DerivationTree::External(e) => {
                if let Err(m) = leaf_true(reg, root, rv, e, existing_only) {
                    errs.push(m);
                }
            }
            DerivationTree::Derived(d) => {
                let c = clause_of(t);
                let (c1, c2) = (clause_of(&d.cause1), clause_of(&d.cause2));
                if !entailed(&c, &[c1, c2], choices) {
                    errs.push(format!("derived node {{{}}} is not entailed by its two causes", terms_m(&d.terms)));
                }
                go(reg, root, rv, &d.cause1, existing_only, choices, errs);
                go(reg, root, rv, &d.cause2, existing_only, choices, errs);
            }
        }
    }
    go(reg, root, rv, tree, existing_only, &choices, &mut errs);
    // the top forbids the root: every selection with the root at rv makes every term of the top true
    let top = clause_of(tree);
    let pkgs: BTreeSet<String> = top.iter().map(|(p, _)| p.clone()).collect();
    let mut sels: Vec<BTreeMap<String, Option<u32>>> = vec![BTreeMap::new()];
    for p in &pkgs {
        let cs = if p == root { vec![Some(rv)] } else { choices(p) };
        let mut next = vec![];
        for s in &sels {
            for c in &cs {
                let mut t = s.clone();
                t.insert(p.clone(), *c);
                next.push(t);
            }
        }
        sels = next;
    }
    if !sels.iter().all(|s| all_true(&top, s)) {
        errs.push("the top node does not forbid the root at the requested version".into());
    }
    errs
}

/// all derived nodes with their shared ids (pre-order)
pub fn derived_nodes<VS: HSet>(t: &Tree<VS>, out: &mut Vec<(Option<usize>, String)>) {
    if let DerivationTree::Derived(d) = t {
        out.push((d.shared_id, tree_canon(t)));
        derived_nodes(&d.cause1, out);
        derived_nodes(&d.cause2, out);
    }
}

pub fn count_kind<VS: HSet>(t: &Tree<VS>, pred: &dyn Fn(&External<String, VS, String>) -> bool) -> usize {
    match t {
        DerivationTree::External(e) => pred(e) as usize,
        DerivationTree::Derived(d) => count_kind(&d.cause1, pred) + count_kind(&d.cause2, pred),
    }
}

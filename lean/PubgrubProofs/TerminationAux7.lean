/-
Helpers for `Termination.lean`, part 7: one step of conflict resolution moves the satisfier strictly
earlier: what the satisfier search returns, and the resolvent is satisfied before the old satisfier.
-/
import PubgrubProofs.TerminationAux6

set_option linter.unusedSectionVars false
set_option linter.unusedVariables false

namespace Pubgrub
open VersionSet

section
variable {P S V M Pr : Type} [DecidableEq P] [VersionSet S V] [DecidableEq S] [LawfulVersionSet S V]

/-- with canonical emptiness, a valid term that every choice makes true is `any` -/
theorem Term.eq_any_of_eval_all (ce : CanonEmpty S V) {t : Term S} (hv : t.Valid)
    (h : ∀ x : Option V, t.eval x = true) : t = (Term.any : Term S) := by
  cases t with
  | pos s => have := h none; simp [Term.eval] at this
  | neg s =>
    have : s = (VersionSet.empty : S) := by
      apply ce s hv
      intro v
      have := h (some v)
      simp only [Term.eval] at this
      cases hc : VersionSet.contains s v
      · rfl
      · rw [hc] at this; cases this
    subst this; rfl

/-- what is known when the satisfier search answers "same decision level" -/
theorem PartialSolution.satisfierSearch_same {root : P} {rv : V} {ps : PartialSolution P S V Pr}
    {store : List (Incompat P S V M)} (ctx : SearchCtx root rv ps store) (hsh : ∀ kv ∈ ps.assignments, kv.2.Shrink)
    {inc : Incompat P S V M}
    (hn : SmallMap.NoDupKeys inc.terms) (hsv : inc.SetsValid) (hsat : ps.Satisfies inc) {g : Nat}
    (hbefore : ps.SatBefore inc g) {pkg : P} {c : Nat}
    (hss : ps.satisfierSearch inc store = .ok (pkg, .sameDecisionLevels c)) :
    ∃ pa dd tp, ps.getPA pkg = some pa ∧ dd ∈ pa.dated ∧ dd.cause = c ∧ inc.get pkg = some tp ∧
      dd.accumulated.Imp tp ∧ dd.globalIndex < g ∧
      ∀ q t, (q, t) ∈ inc.terms → q ≠ pkg → ∃ qa, ps.getPA q = some qa ∧ qa.SatBefore t dd.globalIndex := by
  have hw := ctx.wf
  rw [satisfierSearch_eq] at hss
  simp only [bind, Except.bind, pure, Except.pure] at hss
  split at hss
  · cases hss
  rename_i m hm
  split at hss
  · cases hss
  rename_i y hy
  split at hss
  · cases hss
  rename_i prev' hprev
  split at hss
  swap
  · injection hss with hss; injection hss with _ hss; cases hss
  split at hss
  · cases hss
  rename_i c' hc'
  injection hss with hss; injection hss with e1 e2
  injection e2 with e2; subst e2
  obtain ⟨sp, sc, sg, sl⟩ := y
  simp only at e1 hc'; subst e1
  have hsc : sc = some c' := by
    cases sc with
    | none => simp [unwrapOr] at hc'
    | some x => simp only [unwrapOr, Except.ok.injEq] at hc'; rw [hc']
  subst hsc
  have hy' := unwrapOr_ok hy
  have hymem := maxByIndex_mem m _ hy'
  have hymax := maxByIndex_max m _ hy'
  -- the entries of the map are satisfiers
  have hexact : ∀ q s, (q, s) ∈ m → ∃ t pa, (q, t) ∈ inc.terms ∧ ps.getPA q = some pa ∧
      satisfier pa t.negate = .ok s := by
    unfold findSatisfier at hm
    exact findSatisfier_go_exact ps inc.terms inc.terms [] m hm (fun _ _ x => x) (by intro q s hx; cases hx)
  -- every term has an entry
  have hmap : ps.SatMap inc.terms m := by
    refine (findSatisfier_safe ps inc.terms ?_).of_ok hm
    intro q t hqt
    obtain ⟨pa, hpa, himp⟩ := hsat q t hqt
    obtain ⟨i, _, hwf, _⟩ := hw.entry_of_getPA hpa
    exact ⟨pa, hpa, PackageAssignments.satOK_of_disjoint hwf
      (Term.disjoint_negate_of_imp (ctx.tv _ (SmallMap.mem_of_get hpa)).inter (hsv q t hqt) himp)⟩
  obtain ⟨tp, pa, htp, hpa, hsatp⟩ := hexact _ _ hymem
  have hpam := SmallMap.mem_of_get hpa
  obtain ⟨i, _, hwf, _⟩ := hw.entry_of_getPA hpa
  have hpav := ctx.tv _ hpam
  have htpv : tp.Valid := hsv _ _ htp
  rcases satisfier_spec hsatp hwf.indices with ⟨dd, hdd, hdis, he, _⟩ | ⟨_, _, _, _, _, he⟩
  swap
  · injection he with he; cases he
  injection he with he1 he2
  injection he1 with he1
  injection he2 with he2 he3
  refine ⟨pa, dd, tp, hpa, hdd, he1.symm, SmallMap.get_of_mem hn htp,
    Term.imp_of_disjoint_negate (hpav.dated dd hdd) htpv hdis, ?_, ?_⟩
  · -- the satisfier is before `g`
    obtain ⟨pa', hpa', hb⟩ := hbefore _ _ htp
    rw [hpa] at hpa'; injection hpa' with hpa'; subst hpa'
    have := hb.satisfier_lt hwf hpav htpv hsatp
    simp only at this
    omega
  · intro q t hqt hq
    obtain ⟨qa, hqa, himp⟩ := hsat q t hqt
    have hqam := SmallMap.mem_of_get hqa
    obtain ⟨j, _, hwfq, _⟩ := hw.entry_of_getPA hqa
    obtain ⟨s, hs⟩ := Option.isSome_iff_exists.1 (hmap.complete q t hqt)
    have hsm := SmallMap.mem_of_get hs
    obtain ⟨t', qa', ht', hqa', hsatq⟩ := hexact _ _ hsm
    rw [hqa] at hqa'; injection hqa' with hqa'; subst hqa'
    have ett : t' = t := by
      have h1 := SmallMap.get_of_mem hn ht'
      have h2 := SmallMap.get_of_mem hn hqt
      rw [h1] at h2; injection h2
    subst ett
    have hle := hymax _ hsm
    simp only at hle
    have hne : s.2.1 ≠ sg := by
      intro e
      obtain ⟨b1, hb1⟩ := satisfier_event hsatq
      obtain ⟨b2, hb2⟩ := satisfier_event hsatp
      exact hq ((ctx.gmono q qa sp pa hqam hpam _ hb1 _ hb2).2 e)
    refine ⟨qa, hqa, PackageAssignments.satBefore_of_satisfier hwfq (ctx.tv _ hqam) (hsh _ hqam)
      (hsv _ _ hqt) himp hsatq ?_⟩
    omega

/-- the resolvent of a satisfied incompatibility with the cause of its satisfier is satisfied before
the satisfier -/
theorem satBefore_priorCause (ce : CanonEmpty S V) (W : World P S V M) (root : P) (rv : V)
    {st : State P S V M Pr} (hs : SInv W root rv st) (hp : PInv st) (ht : TInv root rv st) (hacc : st.AccInv)
    {inc causeInc prior : Incompat P S V M} {cur c : Nat} (hinc : st.store[cur]? = some inc)
    (hcause : st.store[c]? = some causeInc)
    {pkg : P} {pa : PackageAssignments S V} {dd : DatedDerivation S} {tp : Term S}
    (hpa : st.ps.getPA pkg = some pa) (hdd : dd ∈ pa.dated) (hc : dd.cause = c)
    (htp : inc.get pkg = some tp) (himp : dd.accumulated.Imp tp)
    (hoth : ∀ q t, (q, t) ∈ inc.terms → q ≠ pkg →
      ∃ qa, st.ps.getPA q = some qa ∧ qa.SatBefore t dd.globalIndex)
    (hprior : Incompat.priorCause cur c inc causeInc pkg = .ok prior) :
    st.ps.SatBefore prior dd.globalIndex := by
  have gi := hs.store cur inc hinc
  have gc := hs.store c causeInc hcause
  have hpam := SmallMap.mem_of_get hpa
  obtain ⟨t1, t2, merged, hg1, hg2, hnm, hm, _, hterms⟩ :=
    Incompat.priorCause_spec inc causeInc gi.nodup gc.nodup cur c pkg prior hprior
  have e1 : t1 = tp := by
    unfold Incompat.get at htp; rw [hg1] at htp; injection htp
  subst e1
  have v1 : t1.Valid := gi.sets _ _ (SmallMap.mem_of_get hg1)
  have v2 : t2.Valid := gc.sets _ _ (SmallMap.mem_of_get hg2)
  -- the terms of the cause other than the pivot are satisfied before the derivation
  have hcauseSat : ∀ k b, SmallMap.get causeInc.terms k = some b → k ≠ pkg →
      ∃ par, st.ps.getPA k = some par ∧ par.SatBefore b dd.globalIndex := by
    intro k b hb hk
    obtain ⟨inc0, g1, _, g3⟩ := ht.cause pkg pa hpam dd hdd
    rw [hc, hcause] at g1; injection g1 with g1; subst g1
    obtain ⟨par, tb, k1, k2, k3⟩ := g3 k b (SmallMap.mem_of_get hb) hk
    refine ⟨par, k1, tb, k2, ?_⟩
    exact Term.imp_of_subsetOf (PackageAssignments.termBefore_valid (hs.ps _ (SmallMap.mem_of_get k1)) k2)
      (gc.sets _ _ (SmallMap.mem_of_get hb)) k3
  have hincSat : ∀ k a, SmallMap.get inc.terms k = some a → k ≠ pkg →
      ∃ par, st.ps.getPA k = some par ∧ par.SatBefore a dd.globalIndex :=
    fun k a ha hk => hoth k a (SmallMap.mem_of_get ha) hk
  have hmerged : ∀ k t, k ≠ pkg → SmallMap.get merged k = some t →
      ∃ par, st.ps.getPA k = some par ∧ par.SatBefore t dd.globalIndex := by
    intro k t hk hg
    rw [hm k, if_neg hk] at hg
    cases hx : SmallMap.get inc.terms k <;> cases hy : SmallMap.get causeInc.terms k <;>
      rw [hx, hy] at hg <;> simp only [SmallMap.mergeOpt, Option.some.injEq, reduceCtorEq] at hg
    · subst hg; exact hcauseSat k _ hy hk
    · subst hg; exact hincSat k _ hx hk
    · subst hg
      obtain ⟨par, k1, ta, k2, k3⟩ := hincSat k _ hx hk
      obtain ⟨par', k4, tb, k5, k6⟩ := hcauseSat k _ hy hk
      rw [k1] at k4; injection k4 with k4; subst k4
      rw [k2] at k5; injection k5 with k5; subst k5
      refine ⟨par, k1, ta, k2, ?_⟩
      intro x hx'
      rw [Term.eval_intersection _ _ (gi.sets _ _ (SmallMap.mem_of_get hx)) (gc.sets _ _ (SmallMap.mem_of_get hy)),
        k3 x hx', k6 x hx']
      rfl
  -- the pivot
  obtain ⟨inc0, c0, a1, a2, a3⟩ := hacc pkg pa hpam dd hdd
  rw [hc, hcause] at a1; injection a1 with a1; subst a1
  have e2 : c0 = t2 := by
    unfold Incompat.get at a2; rw [hg2] at a2; injection a2 with a2; exact a2.symm
  subst e2
  have hunion : ∀ x : Option V, (∀ t, pa.termBefore dd.globalIndex = some t → t.eval x = true) →
      (Term.union t1 c0).eval x = true := by
    intro x hx
    rw [Term.eval_union _ _ v1 v2]
    cases h2 : c0.eval x with
    | true => simp
    | false => rw [himp x (a3 x hx h2)]; rfl
  have hpivot : Term.union t1 c0 ≠ (Term.any : Term S) →
      ∃ par, st.ps.getPA pkg = some par ∧ par.SatBefore (Term.union t1 c0) dd.globalIndex := by
    intro hne
    cases htb : pa.termBefore dd.globalIndex with
    | some tb =>
      refine ⟨pa, hpa, tb, htb, ?_⟩
      intro x hx
      apply hunion x
      intro t ht'
      rw [htb] at ht'; injection ht' with ht'; subst ht'; exact hx
    | none =>
      exfalso
      apply hne
      apply Term.eq_any_of_eval_all ce (Term.valid_union _ _ v1 v2)
      intro x
      apply hunion x
      intro t ht'
      rw [htb] at ht'; cases ht'
  intro q t hqt
  rw [hterms] at hqt
  split at hqt
  · rename_i hne
    rw [SmallMap.mem_insert_iff _ hnm] at hqt
    rcases hqt with ⟨rfl, rfl⟩ | ⟨hq, hqt⟩
    · exact hpivot hne
    · exact hmerged q t hq (SmallMap.get_of_mem hnm hqt)
  · have hg := SmallMap.get_of_mem hnm hqt
    by_cases hq : q = pkg
    · subst hq; rw [hm q, if_pos rfl] at hg; cases hg
    · exact hmerged q t hq hg

end
end Pubgrub

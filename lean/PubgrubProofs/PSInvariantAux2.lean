/-
Helpers for `PSInvariant.lean`, part 2: preservation of I-PS by `addDecision`, the queue operations
and `extractSolution`.
-/
import PubgrubProofs.PSInvariantAux1

set_option linter.unusedSectionVars false
set_option linter.unusedVariables false

namespace Pubgrub
open VersionSet

theorem List.nodup_iff_getElem?_inj' {α : Type} (l : List α) :
    l.Nodup ↔ ∀ (a b : Nat) (x : α), l[a]? = some x → l[b]? = some x → a = b := by
  rw [List.nodup_iff_pairwise_ne, List.pairwise_iff_getElem]
  constructor
  · intro h a b x ha hb
    obtain ⟨ha', hae⟩ := List.getElem?_eq_some_iff.1 ha
    obtain ⟨hb', hbe⟩ := List.getElem?_eq_some_iff.1 hb
    rcases Nat.lt_trichotomy a b with hlt | heq | hgt
    · have := h a b ha' hb' hlt
      simp [hae, hbe] at this
    · exact heq
    · have := h b a hb' ha' hgt
      simp [hae, hbe] at this
  · intro h i j hi hj hlt heq
    have := h i j l[i] (by simp [hi]) (by rw [heq]; simp [hj])
    omega

/-- a list read through a transposition of two indices has no duplicates either -/
theorem List.nodup_of_swap {α : Type} {l l' : List α} (hn : l.Nodup) (i j : Nat)
    (h : ∀ k, l'[k]? = if k = i then l[j]? else if k = j then l[i]? else l[k]?) : l'.Nodup := by
  rw [List.nodup_iff_getElem?_inj'] at hn ⊢
  have hσ : ∀ k, l'[k]? = l[if k = i then j else if k = j then i else k]? := by
    intro k; rw [h]
    split
    · rfl
    · split <;> rfl
  intro a b x ha hb
  rw [hσ] at ha hb
  have := hn _ _ x ha hb
  split at this <;> split at this <;> (try split at this) <;> (try split at this) <;> omega

section PS
variable {P S V M Pr : Type} [DecidableEq P] [VersionSet S V] [DecidableEq S]
  [LawfulVersionSet S V]

namespace PartialSolution

/-- the entry after a decision -/
def _root_.Pubgrub.PackageAssignments.decide (pa : PackageAssignments S V) (dl next : Nat) (v : V) :
    PackageAssignments S V :=
  { pa with highest := dl + 1, inter := .decision next v (Term.exact v) }

/-- what `addDecision` does to the assignments of a well-formed partial solution -/
theorem addDecision_spec {ps ps' : PartialSolution P S V Pr} {debug : Bool} {p : P} {v : V}
    (h : ps.WF) (hr : addDecision debug ps p v = .ok ps')
    {t : Term S} {pa : PackageAssignments S V} (hpa : ps.getPA p = some pa) (ht : pa.inter = .derivations t) :
    ∃ oldIdx, ps.assignments[oldIdx]? = some (p, pa) ∧ ps.currentDecisionLevel ≤ oldIdx ∧
      ps'.currentDecisionLevel = ps.currentDecisionLevel + 1 ∧
      ps'.nextGlobalIndex = ps.nextGlobalIndex + 1 ∧
      ps'.queue = ps.queue ∧ ps'.changed = ps.changed ∧ ps'.hasEverBacktracked = ps.hasEverBacktracked ∧
      ∀ k, ps'.assignments[k]? =
        if k = ps.currentDecisionLevel then
          some (p, pa.decide ps.currentDecisionLevel ps.nextGlobalIndex v)
        else if k = oldIdx then ps.assignments[ps.currentDecisionLevel]?
        else ps.assignments[k]? := by
  replace hr := addDecision_core hr
  unfold addDecisionCore at hr
  simp only [bind, Except.bind, pure, Except.pure] at hr
  split at hr
  · cases hr
  rename_i oldIdx hold
  split at hr
  · cases hr
  rename_i pa0 hpa0
  have := unwrapOr_ok hpa0
  rw [hpa] at this; injection this with this; subst this
  have hget := getElem_of_indexOf_getPA (unwrapOr_ok hold) hpa
  have hlt := (List.getElem?_eq_some_iff.1 hget).1
  have hge := undecided_ge h hget ht
  refine ⟨oldIdx, hget, hge, ?_⟩
  split at hr
  · rename_i hne
    split at hr
    · cases hr
    rename_i asg hasg
    injection hr with hr; subst hr
    refine ⟨rfl, rfl, rfl, rfl, rfl, ?_⟩
    intro k
    unfold swapIndices at hasg
    split at hasg
    · rename_i a b ha hb
      injection hasg with hasg; subst hasg
      simp only [List.getElem?_set, List.length_set] at ha hb ⊢
      simp only [if_true, hlt] at hb
      rw [if_neg (fun e => hne e.symm)] at ha
      by_cases hk1 : k = ps.currentDecisionLevel
      · subst hk1
        simp only [if_true]
        rw [if_neg (fun e => hne e.symm)]
        simp only [if_true, Nat.lt_of_le_of_lt hge hlt]
        rw [← hb]; rfl
      · rw [if_neg hk1]
        by_cases hk2 : k = oldIdx
        · subst hk2; simp only [if_true, hlt, ha]
        · rw [if_neg hk2, if_neg (fun e => hk2 e.symm), if_neg (fun e => hk1 e.symm),
            if_neg (fun e => hk2 e.symm)]
    · cases hasg
  · rename_i heq
    have heq' : ps.currentDecisionLevel = oldIdx := Decidable.of_not_not heq
    injection hr with hr; subst hr
    refine ⟨rfl, rfl, rfl, rfl, rfl, ?_⟩
    intro k
    simp only [List.getElem?_set]
    by_cases hk1 : k = ps.currentDecisionLevel
    · subst hk1; rw [← heq']; simp only [if_true, heq' ▸ hlt]; rfl
    · rw [if_neg hk1, ← heq', if_neg hk1, if_neg (fun e => hk1 e.symm)]

theorem _root_.Pubgrub.PackageAssignments.WFAt.reindex {dl n i j : Nat} {qa : PackageAssignments S V}
    (h : qa.WFAt dl n j) (h1 : i < dl + 1 → j < dl ∧ i = j) (h2 : dl + 1 ≤ i → dl ≤ j) :
    qa.WFAt (dl + 1) (n + 1) i := by
  refine ⟨?_, ?_, h.levels, h.indices, fun dd hdd => Nat.lt_succ_of_lt (h.indices_lt dd hdd), h.range⟩
  · intro hi
    obtain ⟨hj, rfl⟩ := h1 hi
    obtain ⟨g, v, e1, e2, e3, e4, e5⟩ := h.decided hj
    exact ⟨g, v, e1, e2, Nat.lt_succ_of_lt e3, e4, e5⟩
  · intro hi
    obtain ⟨t, l, f, e1, e2, e3⟩ := h.undecided (h2 hi)
    exact ⟨t, l, f, e1, Nat.le_succ_of_le e2, e3⟩

/-- `addDecision` preserves the strengthened I-PS, when the package is undecided, not queued, and the
version lies in its term -/
theorem addDecision_wf' {ps ps' : PartialSolution P S V Pr} {debug : Bool} {p : P} {v : V}
    (h : ps.WF') (hr : addDecision debug ps p v = .ok ps')
    {t : Term S} {pa : PackageAssignments S V} (hpa : ps.getPA p = some pa) (ht : pa.inter = .derivations t)
    (hv : t.contains v = true) (hq : SmallMap.get ps.queue p = none) : ps'.WF' := by
  have hw := h.wf
  obtain ⟨oldIdx, hget, hge, e1, e2, e3, e4, e5, hk⟩ := addDecision_spec hw hr hpa ht
  have hlt := (List.getElem?_eq_some_iff.1 hget).1
  have hx := h.wfx _ (List.mem_of_getElem? hget)
  have he := hw.entries oldIdx p pa hget
  have hlen : ps'.assignments.length = ps.assignments.length := by
    apply Nat.le_antisymm
    · apply Nat.le_of_not_lt
      intro hlt'
      have h1 := hk ps.assignments.length
      rw [if_neg (by omega), if_neg (by omega)] at h1
      have h2 : ps'.assignments[ps.assignments.length]? ≠ none := by
        rw [Ne, List.getElem?_eq_none_iff]; omega
      rw [h1] at h2
      exact h2 (List.getElem?_eq_none_iff.2 (Nat.le_refl _))
    · apply Nat.le_of_not_lt
      intro hlt'
      have h1 := hk ps'.assignments.length
      rw [List.getElem?_eq_none_iff.2 (Nat.le_refl _)] at h1
      split at h1
      · cases h1
      · split at h1
        · have := List.getElem?_eq_none_iff.1 h1.symm; omega
        · have := List.getElem?_eq_none_iff.1 h1.symm; omega
  -- every entry of the new list is the decided one or an old one
  have hmem : ∀ (k : Nat) q qa, ps'.assignments[k]? = some (q, qa) →
      (k = ps.currentDecisionLevel ∧ q = p ∧ qa = pa.decide ps.currentDecisionLevel ps.nextGlobalIndex v) ∨
      (q ≠ p ∧ ∃ j, ps.assignments[j]? = some (q, qa) ∧ ps.currentDecisionLevel + 1 ≤ k ∧ ps.currentDecisionLevel ≤ j) ∨
      (q ≠ p ∧ ps.assignments[k]? = some (q, qa) ∧ k ≠ ps.currentDecisionLevel ∧ k ≠ oldIdx) := by
    intro k q qa hkq
    rw [hk] at hkq
    split at hkq
    · rename_i hk1
      injection hkq with hkq; injection hkq with h1 h2
      exact Or.inl ⟨hk1, h1.symm, h2.symm⟩
    · rename_i hk1
      split at hkq
      · rename_i hk2
        have hqp : q ≠ p := by
          intro e; subst e
          have := (SmallMap.nodup_iff_index _).1 hw.keys _ _ _ _ _ hkq hget
          omega
        exact Or.inr (Or.inl ⟨hqp, _, hkq, by omega, Nat.le_refl _⟩)
      · rename_i hk2
        have hqp : q ≠ p := by
          intro e; subst e
          have := (SmallMap.nodup_iff_index _).1 hw.keys _ _ _ _ _ hkq hget
          omega
        exact Or.inr (Or.inr ⟨hqp, hkq, hk1, hk2⟩)
  have hkeys : SmallMap.NoDupKeys ps'.assignments := by
    unfold SmallMap.NoDupKeys
    refine List.nodup_of_swap hw.keys ps.currentDecisionLevel oldIdx ?_
    intro k
    simp only [List.getElem?_map, hk]
    split
    · rw [hget]; rfl
    · split <;> rfl
  have hold : ∀ (j : Nat) q qa, ps.assignments[j]? = some (q, qa) → q ≠ p → ps'.getPA q = some qa := by
    intro j q qa hj hqp
    have hjo : j ≠ oldIdx := by
      intro e; subst e; rw [hget] at hj; injection hj with hj; injection hj with hj; exact hqp hj.symm
    by_cases hjd : j = ps.currentDecisionLevel
    · subst hjd
      refine SmallMap.get_of_getElem hkeys (i := oldIdx) ?_
      rw [hk, if_neg (fun e => hjo e.symm), if_pos rfl]; exact hj
    · refine SmallMap.get_of_getElem hkeys (i := j) ?_
      rw [hk, if_neg hjd, if_neg hjo]; exact hj
  have hnewx : (pa.decide ps.currentDecisionLevel ps.nextGlobalIndex v).WFX := by
    obtain ⟨t', l, f, h1, h2, _⟩ := he.undecided hge
    exact ⟨hx.head, fun dd hdd => Nat.le_trans (hx.le_highest dd hdd) (Nat.le_succ_of_le h2)⟩
  refine ⟨⟨?_, ?_, hkeys, ?_, ?_, ?_⟩, ?_⟩
  · rw [hlen, e4]; exact hw.changed_le
  · rw [hlen, e1]; omega
  · intro k q qa hkq
    rw [e1, e2]
    rcases hmem k q qa hkq with ⟨rfl, rfl, rfl⟩ | ⟨_, j, hj, h1, h2⟩ | ⟨_, hkq', h1, h2⟩
    · obtain ⟨t', l, f, u1, u2, u3, u4, u5, u6, u7⟩ := he.undecided hge
      rw [ht] at u1; injection u1 with u1; subst u1
      refine ⟨fun _ => ⟨ps.nextGlobalIndex, v, rfl, rfl, Nat.lt_succ_self _, he.indices_lt, ?_⟩,
        fun hh => absurd hh (by omega), he.levels, he.indices,
        fun dd hdd => Nat.lt_succ_of_lt (he.indices_lt dd hdd), ?_⟩
      · intro dd hdd
        have : pa.dated.getLast? = some dd := hdd
        rw [u3] at this; injection this with this; subst this
        rw [u5]; exact hv
      · exact Nat.le_trans he.range (Nat.le_succ_of_le u2)
    · exact (hw.entries j q qa hj).reindex (fun hh => absurd hh (by omega)) (fun _ => h2)
    · exact (hw.entries k q qa hkq').reindex (fun hh => ⟨by omega, rfl⟩) (fun hh => by omega)
  · rw [e3]; exact hw.queue_keys
  · intro q pr hqm
    rw [e3] at hqm
    obtain ⟨qa, s, hqa, hs⟩ := hw.queue_sub q pr hqm
    have hqp : q ≠ p := by
      intro e; subst e
      exact (SmallMap.get_eq_none_iff _ _).1 hq pr hqm
    obtain ⟨j, _, hj⟩ := getElem_of_getPA hqa
    exact ⟨qa, s, hold j q qa hj hqp, hs⟩
  · intro kv hkv
    obtain ⟨k, hk'⟩ := List.getElem?_of_mem hkv
    obtain ⟨q, qa⟩ := kv
    rcases hmem k q qa hk' with ⟨rfl, rfl, rfl⟩ | ⟨_, j, hj, _, _⟩ | ⟨_, hkq', _, _⟩
    · exact hnewx
    · exact h.wfx _ (List.mem_of_getElem? hj)
    · exact h.wfx _ (List.mem_of_getElem? hkq')

/-! ### the queue -/

theorem get_foldl_push (prios : List (P × Pr)) (acc : List (P × Pr)) (q : P) :
    (SmallMap.get (prios.foldl (fun q kv => queuePush q kv.1 kv.2) acc) q).isSome = true ↔
      (SmallMap.get acc q).isSome = true ∨ q ∈ prios.map Prod.fst := by
  induction prios generalizing acc with
  | nil => simp
  | cons x rest ih =>
    simp only [List.foldl_cons, List.map_cons, List.mem_cons]
    rw [ih, queuePush, SmallMap.get_insert]
    by_cases hq : q = x.1
    · simp [hq]
    · simp [hq]

theorem nodup_foldl_push (prios : List (P × Pr)) (acc : List (P × Pr)) (h : SmallMap.NoDupKeys acc) :
    SmallMap.NoDupKeys (prios.foldl (fun q kv => queuePush q kv.1 kv.2) acc) := by
  induction prios generalizing acc with
  | nil => exact h
  | cons x rest ih =>
    simp only [List.foldl_cons]
    exact ih _ (SmallMap.nodup_insert acc h _ _)

theorem afterPrioritize_wf' {ps : PartialSolution P S V Pr} (h : ps.WF') (prios : List (P × Pr))
    (hp : ∀ q ∈ prios.map Prod.fst, ∃ pa s, ps.getPA q = some pa ∧ pa.inter = .derivations (.pos s)) :
    (ps.afterPrioritize prios).WF' := by
  have hw := h.wf
  refine ⟨⟨Nat.le_refl _, hw.level_le, hw.keys, hw.entries, nodup_foldl_push prios _ hw.queue_keys, ?_⟩, h.wfx⟩
  intro q pr hq
  have h1 := SmallMap.get_of_mem (nodup_foldl_push prios _ hw.queue_keys) hq
  have h2 : (SmallMap.get (prios.foldl (fun q kv => queuePush q kv.1 kv.2) ps.queue) q).isSome = true := by
    rw [h1]; rfl
  rcases (get_foldl_push prios ps.queue q).1 h2 with h3 | h3
  · cases h4 : SmallMap.get ps.queue q with
    | none => rw [h4] at h3; cases h3
    | some pr' => exact hw.queue_sub q pr' (SmallMap.mem_of_get h4)
  · exact hp q h3

theorem queueRemove_wf' {ps : PartialSolution P S V Pr} (h : ps.WF') (p : P) :
    ({ ps with queue := SmallMap.remove ps.queue p } : PartialSolution P S V Pr).WF' := by
  have hw := h.wf
  refine ⟨⟨hw.changed_le, hw.level_le, hw.keys, hw.entries, SmallMap.nodup_remove _ hw.queue_keys p, ?_⟩, h.wfx⟩
  intro q pr hq
  exact hw.queue_sub q pr ((SmallMap.mem_remove_iff _ hw.queue_keys p q pr).1 hq).2

/-! ### `extractSolution` -/

theorem mapM_ok_of_forall {α β : Type} (f : α → R β) :
    ∀ (l : List α), (∀ x ∈ l, ∃ y, f x = .ok y) →
      ∃ sel, l.mapM f = .ok sel ∧ ∀ y, y ∈ sel ↔ ∃ x ∈ l, f x = .ok y := by
  intro l
  induction l with
  | nil => intro _; exact ⟨[], rfl, by simp⟩
  | cons a l ih =>
    intro h
    obtain ⟨y, hy⟩ := h a List.mem_cons_self
    obtain ⟨sel, hsel, hmem⟩ := ih (fun x hx => h x (List.mem_cons_of_mem _ hx))
    refine ⟨y :: sel, ?_, ?_⟩
    · simp only [List.mapM_cons, bind, Except.bind, hy, hsel, pure, Except.pure]
    · intro z
      simp only [List.mem_cons, hmem]
      constructor
      · rintro (rfl | ⟨x, hx, hz⟩)
        · exact ⟨a, Or.inl rfl, hy⟩
        · exact ⟨x, Or.inr hx, hz⟩
      · rintro ⟨x, rfl | hx, hz⟩
        · rw [hy] at hz; injection hz with hz; exact Or.inl hz.symm
        · exact Or.inr ⟨x, hx, hz⟩

/-- on a well-formed partial solution `extract_solution` does not panic and returns the decisions -/
theorem extractSolution_ok {ps : PartialSolution P S V Pr} (h : ps.WF) :
    ∃ sel, ps.extractSolution = .ok sel ∧
      ∀ p v, (p, v) ∈ sel ↔ ∃ pa g t, ps.getPA p = some pa ∧ pa.inter = .decision g v t := by
  unfold extractSolution
  have hall : ∀ x ∈ ps.assignments.take ps.currentDecisionLevel, ∃ g v t, x.2.inter = .decision g v t := by
    intro x hx
    obtain ⟨i, hi⟩ := List.getElem?_of_mem hx
    rw [List.getElem?_take] at hi
    split at hi
    · rename_i hlt
      obtain ⟨g, v, h1, _⟩ := (h.entries i x.1 x.2 hi).decided hlt
      exact ⟨g, v, _, h1⟩
    · cases hi
  obtain ⟨sel, hsel, hmem⟩ := mapM_ok_of_forall (fun (x : P × PackageAssignments S V) =>
      match x with
      | (p, pa) =>
        match pa.inter with
        | .decision _ v _ => (pure (p, v) : R (P × V))
        | .derivations _ => throw (.panic "Derivations in the Decision part"))
    (ps.assignments.take ps.currentDecisionLevel) (by
      intro x hx
      obtain ⟨g, v, t, hd⟩ := hall x hx
      obtain ⟨p, pa⟩ := x
      simp only at hd
      simp only [hd]
      exact ⟨_, rfl⟩)
  refine ⟨sel, hsel, ?_⟩
  intro p v
  rw [hmem]
  constructor
  · rintro ⟨⟨q, qa⟩, hx, hf⟩
    obtain ⟨g, v', t, hd⟩ := hall _ hx
    simp only at hd
    simp only [hd, pure, Except.pure] at hf
    injection hf with hf; injection hf with hf1 hf2; subst hf1; subst hf2
    exact ⟨qa, g, t, SmallMap.get_of_mem h.keys (List.mem_of_mem_take hx), hd⟩
  · rintro ⟨pa, g, t, hpa, hd⟩
    obtain ⟨i, _, hi⟩ := getElem_of_getPA hpa
    have hlt := decided_lt h hi hd
    refine ⟨(p, pa), ?_, ?_⟩
    · apply List.mem_of_getElem? (i := i)
      rw [List.getElem?_take, if_pos hlt]; exact hi
    · simp only [hd]; rfl

end PartialSolution
end PS
end Pubgrub

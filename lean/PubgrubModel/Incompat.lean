/-
Model of `/repo/src/internal/incompatibility.rs`.
-/
import PubgrubModel.Term
import PubgrubModel.SmallMap

namespace Pubgrub

/-- Every `panic!` / `unwrap` / `expect` / `unreachable!` / out-of-bounds index of the modelled Rust is an
explicit outcome, as is the exhaustion of the model's fuel. -/
inductive Fault where
  | panic (site : String)
  | outOfFuel
  deriving DecidableEq, Repr

abbrev R := Except Fault

def unwrapOr {α : Type} (o : Option α) (site : String) : R α :=
  match o with
  | some a => .ok a
  | none => .error (.panic site)

/-- `enum Kind` -/
inductive Kind (P S V M : Type) where
  | notRoot (p : P) (v : V)
  | noVersions (p : P) (s : S)
  | fromDependencyOf (p : P) (s : S) (q : P) (t : S)
  | derivedFrom (a b : Nat)
  | custom (p : P) (s : S) (m : M)
  deriving DecidableEq, Repr

/-- `struct Incompatibility` -/
structure Incompat (P S V M : Type) where
  terms : SmallMap P (Term S)
  kind : Kind P S V M
  deriving Repr

/-- `incompatibility::Relation` -/
inductive Relation (P : Type) where
  | satisfied
  | contradicted (p : P)
  | almostSatisfied (p : P)
  | inconclusive
  deriving DecidableEq, Repr

namespace Incompat
variable {P S V M : Type} [DecidableEq P] [VersionSet S V] [DecidableEq S]
open VersionSet

/-- `not_root` -/
def notRoot (p : P) (v : V) : Incompat P S V M :=
  { terms := [(p, Term.neg (singleton v))], kind := .notRoot p v }

/-- `no_versions` -/
def noVersions (p : P) (t : Term S) : R (Incompat P S V M) :=
  match t with
  | .pos r => .ok { terms := [(p, t)], kind := .noVersions p r }
  | .neg _ => .error (.panic "No version should have a positive term")

/-- `custom_version` -/
def customVersion (p : P) (v : V) (m : M) : Incompat P S V M :=
  { terms := [(p, Term.pos (singleton v))], kind := .custom p (singleton v) m }

/-- `from_dependency` (after the fix of finding F1: a dependency on the package itself is the
single term `p ∈ versions ∖ set`) -/
def fromDependency (p : P) (versions : S) (dep : P × S) : Incompat P S V M :=
  { terms :=
      if dep.1 = p then [(p, Term.pos (intersection versions (complement dep.2)))]
      else if dep.2 = (empty : S) then [(p, Term.pos versions)]
      else [(p, Term.pos versions), (dep.1, Term.neg dep.2)],
    kind := .fromDependencyOf p versions dep.1 dep.2 }

/-- `from_dependency` as on the pinned tree before the `fix:` commit (finding F1): the same key
twice when `dep.1 = p`. -/
def Legacy.fromDependency (p : P) (versions : S) (dep : P × S) : Incompat P S V M :=
  { terms :=
      if dep.2 = (empty : S) then [(p, Term.pos versions)]
      else [(p, Term.pos versions), (dep.1, Term.neg dep.2)],
    kind := .fromDependencyOf p versions dep.1 dep.2 }

/-- `as_dependency` (after the fix of F1: self-dependencies are not offered for merging) -/
def asDependency (i : Incompat P S V M) : Option (P × P) :=
  match i.kind with
  | .fromDependencyOf p1 _ p2 _ => if p1 ≠ p2 then some (p1, p2) else none
  | _ => none

def get (i : Incompat P S V M) (p : P) : Option (Term S) := SmallMap.get i.terms p

def unwrapPositive (t : Term S) : R S :=
  match t with
  | .pos s => .ok s
  | .neg _ => .error (.panic "Negative term cannot unwrap positive set")

def unwrapNegative (t : Term S) : R S :=
  match t with
  | .neg s => .ok s
  | .pos _ => .error (.panic "Positive term cannot unwrap negative set")

/-- `merge_dependents` -/
def mergeDependents (self other : Incompat P S V M) : R (Option (Incompat P S V M)) :=
  match self.asDependency, other.asDependency with
  | some (p1, p2), some o =>
    if (p1, p2) ≠ o then .ok none else
    let depTerm := self.get p2
    if depTerm ≠ other.get p2 then .ok none else do
      let t1 ← unwrapOr (self.get p1) "merge_dependents: self.get(p1).unwrap()"
      let s1 ← unwrapPositive t1
      let t2 ← unwrapOr (other.get p1) "merge_dependents: other.get(p1).unwrap()"
      let s2 ← unwrapPositive t2
      let depSet ← match depTerm with
        | none => pure (empty : S)
        | some t => unwrapNegative t
      pure (some (fromDependency p1 (union s1 s2) (p2, depSet)))
  | _, _ => .ok none

/-- `prior_cause` on the two incompatibilities (ids `id1 id2` only recorded in the kind) -/
def priorCause (id1 id2 : Nat) (incompat satisfierCause : Incompat P S V M) (p : P) :
    R (Incompat P S V M) := do
  let (t1, rest) ← unwrapOr (SmallMap.splitOne incompat.terms p) "prior_cause: split_one(package).unwrap()"
  let merged := SmallMap.merge rest (satisfierCause.terms.filter fun kv => kv.1 ≠ p)
    (fun a b => some (Term.intersection a b))
  let t2 ← unwrapOr (SmallMap.get satisfierCause.terms p) "prior_cause: satisfier_cause_terms.get(package).unwrap()"
  let term := Term.union t1 t2
  let terms := if term ≠ (Term.any : Term S) then SmallMap.insert merged p term else merged
  pure { terms := terms, kind := .derivedFrom id1 id2 }

/-- `is_terminal` -/
def isTerminal (i : Incompat P S V M) (root : P) (rootVersion : V) : Bool :=
  match i.terms with
  | [] => true
  | [(p, t)] => decide (p = root) && t.contains rootVersion
  | _ => false

/-- `causes` -/
def causes (i : Incompat P S V M) : Option (Nat × Nat) :=
  match i.kind with
  | .derivedFrom a b => some (a, b)
  | _ => none

/-- the loop of `relation` with its running value -/
def relationGo (terms : P → Option (Term S)) : Relation P → List (P × Term S) → Relation P
  | rel, [] => rel
  | rel, (p, t) :: rest =>
    match (terms p).map (fun o => t.relationWith o) with
    | some .satisfied => relationGo terms rel rest
    | some .contradicted => .contradicted p
    | _ => if rel = .satisfied then relationGo terms (.almostSatisfied p) rest else .inconclusive

/-- `relation` -/
def relation (i : Incompat P S V M) (terms : P → Option (Term S)) : Relation P :=
  relationGo terms .satisfied i.terms

end Incompat
end Pubgrub

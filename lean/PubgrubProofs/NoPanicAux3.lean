/-
Helpers for `NoPanic.lean`, part 3: `add_incompatibility`, `add_incompatibility_from_dependencies` and
`backtrack` do not panic and keep `XInv`.
-/
import PubgrubProofs.NoPanicAux2

set_option linter.unusedSectionVars false
set_option linter.unusedVariables false

namespace Pubgrub
open VersionSet

section
variable {P S V M Pr : Type} [DecidableEq P] [VersionSet S V] [DecidableEq S] [DecidableEq V]
  [LawfulVersionSet S V]

namespace State

theorem addIncompatibility_np (W : World P S V M) (root : P) (rv : V) {st : State P S V M Pr}
    {inc : Incompat P S V M} (hs : SInv W root rv st) (hx : XInv st)
    (g : inc.Good W root rv st.store st.store.length) (hna : st.debug = true → inc.NoAny) :
    NoPanic (addIncompatibility st inc) (fun st' => XInv st' ∧
      (∀ q, (SmallMap.get st.incompatibilities q).isSome = true →
        (SmallMap.get st'.incompatibilities q).isSome = true) ∧
      (inc.asDependency = none → KeysIndexed st'.incompatibilities inc)) := by
  unfold addIncompatibility
  have hs2 : SInv W root rv ({ st with store := st.store ++ [inc] } : State P S V M Pr) :=
    ⟨storeInv_push W root rv st.store inc hs.store g, hs.root, hs.rv, hs.ps⟩
  have hx2 : XInv ({ st with store := st.store ++ [inc] } : State P S V M Pr) :=
    hx.storeAppend [inc] (fun hd i hi => by rw [List.mem_singleton.1 hi]; exact hna hd)
  have hget : ({ st with store := st.store ++ [inc] } : State P S V M Pr).store[st.store.length]? = some inc := by
    show (st.store ++ [inc])[st.store.length]? = some inc
    rw [List.getElem?_append_right (Nat.le_refl _)]; simp
  exact mergeIncompatibility_np W root rv hs2 hx2 hget

/-- the store only grows in `merge_incompatibility` -/
theorem mergeIncompatibility_length {st st' : State P S V M Pr} {id : Nat}
    (hr : mergeIncompatibility st id = .ok st') : st.store.length ≤ st'.store.length := by
  obtain ⟨_, _, _, inc, _, hc⟩ := mergeIncompatibility_spec hr
  rcases hc with ⟨e, _⟩ | ⟨_, _, _, _, _, e, _⟩
  · rw [e]
  · rw [e, List.length_append]; exact Nat.le_add_right _ _

theorem foldlM_merge_np (W : World P S V M) (root : P) (rv : V) :
    ∀ (ids : List Nat) (st : State P S V M Pr), SInv W root rv st → XInv st →
    (∀ id ∈ ids, id < st.store.length) →
    NoPanic (ids.foldlM (m := R) (fun st id => mergeIncompatibility st id) st) (fun st' => XInv st' ∧
      ∀ q, (SmallMap.get st.incompatibilities q).isSome = true →
        (SmallMap.get st'.incompatibilities q).isSome = true) := by
  intro ids
  induction ids with
  | nil =>
    intro st hs hx _
    exact NoPanic.pure' ⟨hx, fun q h => h⟩
  | cons a rest ih =>
    intro st hs hx hids
    simp only [List.foldlM_cons]
    have ha : a < st.store.length := hids a List.mem_cons_self
    obtain ⟨inc, hinc⟩ : ∃ i, st.store[a]? = some i := ⟨st.store[a], List.getElem?_eq_getElem ha⟩
    refine NoPanic.bind (mergeIncompatibility_np W root rv hs hx hinc) ?_
    intro st1 h1 ⟨hx1, hmono1, _⟩
    have hlen := mergeIncompatibility_length h1
    refine (ih st1 (mergeIncompatibility_inv W root rv h1 hs) hx1
      (fun id hid => Nat.lt_of_lt_of_le (hids id (List.mem_cons_of_mem _ hid)) hlen)).mono ?_
    intro st' _ ⟨hx', hmono'⟩
    exact ⟨hx', fun q hq => hmono' q (hmono1 q hq)⟩

theorem addIncompatibilityFromDependencies_np (W : World P S V M) (hW : W.SetsValid) (root : P) (rv : V)
    {st : State P S V M Pr} {p : P} {v : V} {deps : List (P × S)}
    (hs : SInv W root rv st) (hx : XInv st) (hd : W.deps p v = .available deps) :
    NoPanic (addIncompatibilityFromDependencies st p v deps) (fun r => XInv r.1 ∧
      ∀ q, (SmallMap.get st.incompatibilities q).isSome = true →
        (SmallMap.get r.1.incompatibilities q).isSome = true) := by
  unfold addIncompatibilityFromDependencies
  simp only
  have hs2 : SInv W root rv ({ st with store := (st.store ++
      deps.map fun dep => Incompat.fromDependency (M := M) p (VersionSet.singleton v) dep) } : State P S V M Pr) := by
    refine ⟨?_, hs.root, hs.rv, hs.ps⟩
    apply storeInv_append W root rv _ _ hs.store
    intro k i hi
    have hmem := List.mem_of_getElem? hi
    rw [List.mem_map] at hmem
    obtain ⟨d, hdm, rfl⟩ := hmem
    exact Incompat.fromDependency_good W hW root rv _ _ p v deps hd d hdm
  have hx2 : XInv ({ st with store := (st.store ++
      deps.map fun dep => Incompat.fromDependency (M := M) p (VersionSet.singleton v) dep) } : State P S V M Pr) := by
    refine hx.storeAppend _ ?_
    intro _ i hi
    rw [List.mem_map] at hi
    obtain ⟨d, _, rfl⟩ := hi
    exact Incompat.noAny_fromDependency _ _ _
  refine NoPanic.bind (foldlM_merge_np W root rv _ _ hs2 hx2 ?_) ?_
  · intro id hid
    rw [List.mem_range'_1] at hid
    simp only [List.length_append, List.length_map] at hid ⊢
    omega
  · intro st' _ ⟨hx', hmono⟩
    exact NoPanic.pure' ⟨hx', hmono⟩

end State

/-- `PartialSolution::backtrack` succeeds on a well-formed partial solution -/
theorem PartialSolution.backtrack_ok {ps : PartialSolution P S V Pr} (h : ps.WF') (dl : Nat) :
    ∃ ps', ps.backtrack dl = .ok ps' := by
  rw [PartialSolution.backtrack_eq]
  obtain ⟨asg, hasg⟩ := filterMapM_total (PartialSolution.btF (P := P) (S := S) (V := V) dl)
    ps.assignments (by
    intro x hx
    obtain ⟨p, pa⟩ := x
    rcases PartialSolution.sat_btG_cases dl p (h.wfx _ hx) with ⟨_, e⟩ | ⟨_, _, e⟩ | ⟨_, _, _, _, e⟩ <;>
      exact ⟨_, e⟩)
  rw [hasg]
  exact ⟨_, rfl⟩

namespace State

/-- `State::backtrack` does not panic; the learned incompatibility has all its keys indexed afterwards -/
theorem backtrack_np (W : World P S V M) (root : P) (rv : V) {st : State P S V M Pr} {cur : Nat}
    {inc : Incompat P S V M} (hs : SInv W root rv st) (hp : PInv st) (hx : XInv st)
    (hinc : st.store[cur]? = some inc) (changed : Bool) (dl : Nat)
    (hdep : changed = true → inc.asDependency = none)
    (hk : changed = false → KeysIndexed st.incompatibilities inc) :
    NoPanic (st.backtrack cur changed dl) (fun st' => XInv st' ∧ KeysIndexed st'.incompatibilities inc) := by
  unfold State.backtrack
  obtain ⟨ps', hps⟩ := PartialSolution.backtrack_ok hp.wf dl
  refine NoPanic.bind_ok hps ?_
  have hbt := (PartialSolution.backtrack_step hp.wf dl).of_ok hps
  have hs1 : SInv W root rv ({ st with ps := ps', contradicted :=
      (SmallMap.retainVals st.contradicted (fun l => decide (l ≤ dl))) } : State P S V M Pr) :=
    ⟨hs.store, hs.root, hs.rv, PartialSolution.backtrack_termsValid hs.ps hps⟩
  have hx1 : XInv ({ st with ps := ps', contradicted :=
      (SmallMap.retainVals st.contradicted (fun l => decide (l ≤ dl))) } : State P S V M Pr) := by
    refine ⟨hx.idx, hx.md, ?_, hx.buf, hx.noAny⟩
    intro p pa' hpa'
    obtain ⟨pa, hpa, _⟩ := hbt.getPA_inv hp.wf.wf hpa'
    exact hx.asg p pa hpa
  dsimp only
  split
  · rename_i hc
    refine (mergeIncompatibility_np W root rv hs1 hx1 hinc).mono ?_
    intro st' _ ⟨hx', _, hk'⟩
    exact ⟨hx', hk' (hdep hc)⟩
  · rename_i hc
    refine NoPanic.pure' ⟨hx1, hk ?_⟩
    cases changed with
    | true => exact absurd rfl hc
    | false => rfl

end State
end
end Pubgrub

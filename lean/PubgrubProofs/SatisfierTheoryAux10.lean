/-
Helpers for `SatisfierTheory.lean`, part 10: the run-level invariant and its preservation by `Solver.step`.
-/
import PubgrubProofs.SatisfierTheoryAux9

set_option linter.unusedSectionVars false
set_option linter.unusedVariables false

namespace Pubgrub
open VersionSet

section
variable {P S V M Pr : Type} [DecidableEq P] [VersionSet S V] [DecidableEq S] [LawfulVersionSet S V]

/-- the invariant only looks at the assignments, the decision level, the backtrack flag and the store -/
theorem TInv.congr_fields {root : P} {rv : V} {st st' : State P S V M Pr} (h : TInv root rv st)
    (ea : st'.ps.assignments = st.ps.assignments)
    (el : st'.ps.currentDecisionLevel = st.ps.currentDecisionLevel)
    (eb : st'.ps.hasEverBacktracked = st.ps.hasEverBacktracked) (es : st'.store = st.store) :
    TInv root rv st' := by
  obtain ⟨h1, h2, h3, ⟨r1, r2, r3, r4⟩⟩ := h
  refine ⟨?_, ?_, ?_, ⟨?_, ?_, ?_, ?_⟩⟩
  · unfold PartialSolution.GMono; rw [ea]; exact h1
  · rw [ea]; exact h2
  · unfold State.CauseInv PartialSolution.getPA; rw [ea, es]; exact h3
  · rw [ea, el, eb, es]; exact r1
  · rw [ea, es]; exact r2
  · rw [ea]; exact r3
  · rw [ea]; exact r4

namespace State

/-- adding an incompatibility with the single term of the package in flight -/
theorem tinv_addSingle {root : P} {rv : V} {st st' : State P S V M Pr} (hp : PInv st) (ht : TInv root rv st)
    {inc : Incompat P S V M} {p : P} {tp : Term S} (hterms : inc.terms = [(p, tp)])
    (hdep : inc.asDependency = none) (hr : addIncompatibility st inc = .ok st')
    (hpos : st.ps.InflightPos p) : TInv root rv st' := by
  obtain ⟨e1, _, e3, _⟩ := addIncompatibility_single hterms hdep hr
  obtain ⟨pa, s, hpa, _⟩ := hpos
  have hpam := SmallMap.mem_of_get hpa
  refine ht.storeExt e1 ?_ ?_ ?_
  · intro i inc' hi
    rw [e3, List.getElem?_append_left (List.getElem?_eq_some_iff.1 hi).1]; exact hi
  · intro e; rw [e] at hpam; cases hpam
  · intro h0 inc' hinc' kv hkv
    obtain ⟨_, g2, g3⟩ := ht.rootinv.lvl0 h0
    rw [e3] at hinc'
    rcases List.mem_append.1 hinc' with hi | hi
    · exact g2 inc' hi kv hkv
    · rw [List.mem_singleton] at hi; subst hi
      rw [hterms, List.mem_singleton] at hkv
      subst hkv
      exact (g3 _ hpam).1

theorem addIncompatibilityFromDependencies_prefix {st st' : State P S V M Pr} {p : P} {v : V}
    {deps : List (P × S)} {start stop : Nat}
    (hr : addIncompatibilityFromDependencies st p v deps = .ok (st', start, stop)) :
    ∀ (i : Nat) (inc : Incompat P S V M), st.store[i]? = some inc → st'.store[i]? = some inc := by
  unfold addIncompatibilityFromDependencies at hr
  simp only [bind, Except.bind, pure, Except.pure] at hr
  split at hr
  · cases hr
  rename_i st1 h1
  injection hr with hr; injection hr with hr; subst hr
  intro i inc hi
  apply foldlM_merge_prefix _ _ _ h1 i inc
  show (st.store ++ _)[i]? = some inc
  rw [List.getElem?_append_left (List.getElem?_eq_some_iff.1 hi).1]; exact hi

end State
end

variable {P S V M Pr E : Type} [DecidableEq P] [VersionSet S V] [DecidableEq S] [DecidableEq V]
  [LE Pr] [DecidableLE Pr] [LawfulVersionSet S V]

/-- the run-level invariant of this file -/
structure RInvT (root : P) (rv : V) (x : SolverState P S V M Pr × Request P S V M Pr E) : Prop where
  live : x.1.phase ≠ .finished → TInv root rv x.1.st
  sol : ∀ sel, x.2 = .solution sel → x.1.st.ps.LevelMono ∧ x.1.st.CauseInv
  fault : ∀ site, x.2 = .fault (.panic site) → ¬ Listed site

theorem rinvT_finish (root : P) (rv : V) (s : SolverState P S V M Pr) (r : Request P S V M Pr E)
    (hsol : ∀ sel, r = .solution sel → s.st.ps.LevelMono ∧ s.st.CauseInv)
    (hfault : ∀ site, r = .fault (.panic site) → ¬ Listed site) : RInvT root rv (Solver.finish s r) :=
  ⟨fun h => absurd rfl h, hsol, hfault⟩

/-- ending with a request that is neither a solution nor a fault -/
theorem rinvT_finish' (root : P) (rv : V) (s : SolverState P S V M Pr) (r : Request P S V M Pr E)
    (h1 : ∀ sel, r ≠ .solution sel) (h2 : ∀ f, r ≠ .fault f) : RInvT root rv (Solver.finish s r) :=
  rinvT_finish root rv s r (fun sel h => absurd h (h1 sel)) (fun site h => absurd h (h2 _))

/-- ending with a fault of a function that has no listed panic site -/
theorem rinvT_fault (root : P) (rv : V) (s : SolverState P S V M Pr) {α : Type} {x : R α} {Q : α → Prop}
    (hx : Safe x Q) {f : Fault} (he : x = .error f) :
    RInvT (E := E) root rv (Solver.finish s (.fault f)) := by
  refine rinvT_finish root rv s _ (fun sel h => by cases h) ?_
  intro site h
  injection h with h; subst h
  exact hx.of_panic he

theorem rinvT_loopAgain (root : P) (rv : V) (s : SolverState P S V M Pr) (st : State P S V M Pr)
    (h : TInv root rv st) : RInvT (E := E) root rv (Solver.loopAgain s st) :=
  ⟨fun _ => h, fun sel h => by simp [Solver.loopAgain] at h, fun site h => by simp [Solver.loopAgain] at h⟩

theorem rinvT_start (debug : Bool) (fuel : Nat) (root : P) (rv : V) :
    RInvT root rv (Solver.start (Pr := Pr) (E := E) (M := M) (S := S) debug fuel root rv) := by
  refine ⟨fun _ => ⟨?_, ?_, ?_, ⟨?_, ?_, ?_, ?_⟩⟩, fun sel h => by simp [Solver.start] at h,
    fun site h => by simp [Solver.start] at h⟩
  · intro p pa q qa h; simp [Solver.start, State.init, PartialSolution.empty] at h
  · intro kv h; simp [Solver.start, State.init, PartialSolution.empty] at h
  · intro p pa h; simp [Solver.start, State.init, PartialSolution.empty] at h
  · intro _
    refine ⟨rfl, ?_, ?_⟩
    · intro inc hinc kv hkv
      simp only [Solver.start, State.init, List.mem_singleton] at hinc
      subst hinc
      simp only [Incompat.notRoot, List.mem_singleton] at hkv
      subst hkv; rfl
    · intro kv h; simp [Solver.start, State.init, PartialSolution.empty] at h
  · intro _; rfl
  · intro p pa h; simp [Solver.start, State.init, PartialSolution.empty] at h
  · intro p pa h; simp [Solver.start, State.init, PartialSolution.empty] at h

end Pubgrub

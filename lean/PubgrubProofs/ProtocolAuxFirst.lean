/-
The forced prefix of every run of `resolve`: should_cancel, prioritize(root, {rv}), pick, choose_version(root, {rv}).
-/
import PubgrubProofs.ProtocolAux

set_option linter.unusedSectionVars false

namespace Pubgrub
open VersionSet
variable {P S V M Pr E : Type} [DecidableEq P] [VersionSet S V] [DecidableEq S] [DecidableEq V]
  [LE Pr] [DecidableLE Pr]
namespace Solver

/-- the assignment of the root after the first unit propagation -/
def rootPA (rv : V) : PackageAssignments S V :=
  { smallest := 0, highest := 0,
    dated := [{ globalIndex := 0, decisionLevel := 0, cause := 0, accumulated := .pos (singleton rv) }],
    inter := .derivations (.pos (singleton rv)) }

/-- the partial solution after the first unit propagation -/
def ps1 (root : P) (rv : V) : PartialSolution P S V Pr :=
  { nextGlobalIndex := 1, currentDecisionLevel := 0, assignments := [(root, rootPA rv)], queue := [],
    changed := 0, hasEverBacktracked := false }

theorem addDerivation_empty (root : P) (rv : V) :
    PartialSolution.addDerivation (PartialSolution.empty (Pr := Pr)) root 0
      [Incompat.notRoot (S := S) (M := M) root rv] = .ok (ps1 root rv) := by
  simp [PartialSolution.addDerivation, storeGet, unwrapOr, Incompat.notRoot, Incompat.get, SmallMap.get,
    PartialSolution.indexOf, PartialSolution.empty, PartialSolution.getPA, Term.negate, Term.isPositive,
    ps1, rootPA, bind, Except.bind, pure, Except.pure]

/-- the state in the middle of the first unit propagation -/
def st0 (debug : Bool) (root : P) (rv : V) (buffer : List P) : State P S V M Pr :=
  { rootPackage := root, rootVersion := rv, incompatibilities := [(root, [0])], contradicted := [(0, 0)],
    mergedDependencies := [], ps := ps1 root rv, store := [Incompat.notRoot root rv], buffer := buffer,
    debug := debug }

theorem propagate_init (debug : Bool) (root : P) (rv : V) :
    State.propagateIncompats { State.init (S := S) (M := M) (Pr := Pr) debug root rv with buffer := [] } [0] =
      .ok (st0 debug root rv [root], none) := by
  have h := addDerivation_empty (S := S) (M := M) (Pr := Pr) root rv
  simp only [Incompat.notRoot, PartialSolution.empty] at h
  simp [State.propagateIncompats, State.init, SmallMap.containsKey, SmallMap.get, storeGet, unwrapOr,
    PartialSolution.relation, Incompat.relation, Incompat.relationGo, Incompat.notRoot,
    PartialSolution.termIntersectionForPackage, PartialSolution.getPA, PartialSolution.empty, h,
    st0, ps1, SmallMap.insert]

theorem propagate_second (debug : Bool) (root : P) (rv : V) :
    State.propagateIncompats (st0 (S := S) (M := M) (Pr := Pr) debug root rv []) [0] =
      .ok (st0 debug root rv [], none) := by
  simp [State.propagateIncompats, st0, SmallMap.containsKey, SmallMap.get]

theorem unitPropagation_init (debug : Bool) (n : Nat) (root : P) (rv : V) :
    (State.init (S := S) (M := M) (Pr := Pr) debug root rv).unitPropagation (n + 3) root =
      .ok (st0 debug root rv [], none) := by
  have h1 := propagate_init (S := S) (M := M) (Pr := Pr) debug root rv
  have h2 := propagate_second (S := S) (M := M) (Pr := Pr) debug root rv
  simp only [st0, State.init] at h1 h2
  simp [State.unitPropagation, State.unitPropagationLoop, State.init, SmallMap.get, st0, h1, h2]

/-- the solver state while `prioritize(root, {rv})` is pending -/
def s1 (debug : Bool) (fuel : Nat) (root : P) (rv : V) : SolverState P S V M Pr :=
  { st := st0 debug root rv [], added := [], next := root,
    phase := .prioritizing (root, singleton rv) [] [], fuel := fuel }

/-- the solver state while the first `pick` is pending -/
def s2 (debug : Bool) (fuel : Nat) (root : P) (rv : V) (pr : Pr) : SolverState P S V M Pr :=
  { st := st0 debug root rv [], added := [], next := root,
    phase := .picking [(root, pr)], fuel := fuel }

theorem step_start (debug : Bool) (n : Nat) (root : P) (rv : V) (a : Answer P S V M Pr E) :
    Done (step (start (E := E) debug (n + 3) root rv).1 a) ∨
      step (start (E := E) debug (n + 3) root rv).1 a =
        (s1 debug (n + 3) root rv, .prioritize root (singleton rv)) := by
  cases a
  case ok =>
    right
    simp [step, start, unitPropagation_init, st0, ps1, rootPA, PartialSolution.toPrioritize,
      PartialSolution.potentialPackageFilter, s1]
  all_goals (left; simp [step, start, finish, Done, Request.isFinal])

theorem step_s1 (debug : Bool) (fuel : Nat) (root : P) (rv : V) (a : Answer P S V M Pr E) :
    Done (step (s1 debug fuel root rv) a) ∨
      ∃ pr, step (s1 debug fuel root rv) a = (s2 debug fuel root rv pr, .pick [(root, pr)]) := by
  cases a
  case priority pr =>
    right
    refine ⟨pr, ?_⟩
    simp [step, s1, s2, st0, ps1, PartialSolution.afterPrioritize, PartialSolution.queuePush,
      SmallMap.insert]
  all_goals (left; simp [step, s1, finish, Done, Request.isFinal])

theorem step_s2 (debug : Bool) (fuel : Nat) (root : P) (rv : V) (pr : Pr) (a : Answer P S V M Pr E) :
    Done (step (s2 debug fuel root rv pr) a) ∨
      (step (s2 debug fuel root rv pr) a).2 = .chooseVersion root (singleton rv) := by
  cases a
  case picked o =>
    cases o with
    | none =>
      left
      simp [step, s2, st0, ps1, PartialSolution.afterPrioritize, PartialSolution.queuePush,
        SmallMap.insert, finish, Done, Request.isFinal]
    | some p =>
      by_cases hp : p = root
      · subst hp
        by_cases hle : pr ≤ pr
        · right
          simp [step, s2, st0, ps1, rootPA, PartialSolution.afterPrioritize, PartialSolution.queuePush,
            SmallMap.insert, isMaximal, SmallMap.get, hle, SmallMap.remove,
            PartialSolution.termIntersectionForPackage, PartialSolution.getPA, AssignInter.term,
            Incompat.unwrapPositive]
        · left
          simp [step, s2, st0, ps1, PartialSolution.afterPrioritize, PartialSolution.queuePush,
            SmallMap.insert, isMaximal, SmallMap.get, hle, finish, Done, Request.isFinal]
      · left
        simp [step, s2, st0, ps1, PartialSolution.afterPrioritize, PartialSolution.queuePush,
          SmallMap.insert, isMaximal, SmallMap.get, hp, finish, Done, Request.isFinal]
  all_goals (left; simp [step, s2, finish, Done, Request.isFinal])

end Solver
end Pubgrub

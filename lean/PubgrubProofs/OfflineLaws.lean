/-
Property C18: `OfflineDependencyProvider` (`/repo/src/solver.rs`) refines the abstract map
"last write wins".

`run ops` is the store after the sequence `ops` of `add_dependencies` calls (starting from
`OfflineDependencyProvider::new()`).  The theorems relate every query of the model
(`getDependencies`, `versionsOf`, `packages`, `chooseVersion`, `matchingCount`) to the plain list of
calls `ops`.
-/
import PubgrubModel.Offline
import PubgrubProofs.Defs

namespace Pubgrub
namespace Offline

/-! ### Generic association-list facts (kept in this namespace: no clash with other proof files) -/

namespace Aux
variable {K T : Type} [DecidableEq K]

theorem get_insert (m : SmallMap K T) (k k' : K) (v : T) :
    SmallMap.get (SmallMap.insert m k v) k' = if k' = k then some v else SmallMap.get m k' := by
  induction m with
  | nil => simp [SmallMap.insert, SmallMap.get]
  | cons x m ih =>
    obtain ⟨a, b⟩ := x
    by_cases h : k = a
    · subst h; by_cases h2 : k' = k <;> simp [SmallMap.insert, SmallMap.get, h2]
    · by_cases h2 : k' = a
      · subst h2; simp [SmallMap.insert, SmallMap.get, h]; intro h3; exact absurd h3.symm h
      · simp [SmallMap.insert, SmallMap.get, h, h2, ih]

/-- the keys after `insert`: unchanged when the key is present, appended otherwise -/
theorem keys_insert (m : SmallMap K T) (k : K) (v : T) :
    (SmallMap.insert m k v).map Prod.fst =
      if k ∈ m.map Prod.fst then m.map Prod.fst else m.map Prod.fst ++ [k] := by
  induction m with
  | nil => simp [SmallMap.insert]
  | cons x m ih =>
    obtain ⟨a, b⟩ := x
    by_cases h : k = a
    · subst h; simp [SmallMap.insert]
    · simp only [SmallMap.insert, h, if_false, List.map_cons, ih, List.mem_cons, false_or]
      split <;> simp

theorem mem_keys_insert (m : SmallMap K T) (k : K) (v : T) (k' : K) :
    k' ∈ (SmallMap.insert m k v).map Prod.fst ↔ k' ∈ m.map Prod.fst ∨ k' = k := by
  rw [keys_insert]
  split
  · rename_i h
    constructor
    · exact Or.inl
    · rintro (h1 | rfl)
      · exact h1
      · exact h
  · simp

theorem nodup_keys_insert (m : SmallMap K T) (k : K) (v : T) (h : (m.map Prod.fst).Nodup) :
    ((SmallMap.insert m k v).map Prod.fst).Nodup := by
  rw [keys_insert]
  split
  · exact h
  · rename_i hk
    rw [List.nodup_append]
    refine ⟨h, by simp, ?_⟩
    intro a ha b hb
    simp at hb
    subst hb
    intro e
    subst e
    exact hk ha

/-- `get` finds exactly the members when the keys are distinct -/
theorem get_eq_some_iff_mem (m : SmallMap K T) (h : (m.map Prod.fst).Nodup) (k : K) (v : T) :
    SmallMap.get m k = some v ↔ (k, v) ∈ m := by
  induction m with
  | nil => simp [SmallMap.get]
  | cons x m ih =>
    obtain ⟨a, b⟩ := x
    simp only [List.map_cons, List.nodup_cons] at h
    by_cases hk : k = a
    · subst hk
      simp only [SmallMap.get, if_true, Option.some.injEq, List.mem_cons, Prod.mk.injEq, true_and]
      constructor
      · exact fun e => Or.inl e.symm
      · rintro (e | e)
        · exact e.symm
        · exact absurd (List.mem_map.mpr ⟨(k, v), e, rfl⟩) h.1
    · simp [SmallMap.get, hk, ih h.2]

/-! #### a fold of inserts -/

variable {α : Type}

/-- the store after a sequence of inserts: the last insert for a key wins -/
theorem get_foldl_insert (f : α → K) (g : α → T) (l : List α) (m0 : SmallMap K T) (q : K) :
    SmallMap.get (l.foldl (fun m a => SmallMap.insert m (f a) (g a)) m0) q =
      ((l.reverse.find? (fun a => f a = q)).map g).or (SmallMap.get m0 q) := by
  induction l generalizing m0 with
  | nil => simp
  | cons x l ih =>
    rw [List.foldl_cons, ih, List.reverse_cons, List.find?_append, get_insert]
    cases h : List.find? (fun a => decide (f a = q)) l.reverse with
    | some y => simp
    | none =>
      by_cases hx : f x = q
      · simp [hx]
      · have hx' : ¬ q = f x := fun e => hx e.symm
        simp [hx, hx']

theorem mem_keys_foldl_insert (f : α → K) (g : α → T) (l : List α) (m0 : SmallMap K T) (k : K) :
    k ∈ (l.foldl (fun m a => SmallMap.insert m (f a) (g a)) m0).map Prod.fst ↔
      k ∈ m0.map Prod.fst ∨ ∃ a ∈ l, f a = k := by
  induction l generalizing m0 with
  | nil => simp
  | cons x l ih =>
    rw [List.foldl_cons, ih, mem_keys_insert]
    constructor
    · rintro ((h | h) | ⟨a, ha, e⟩)
      · exact Or.inl h
      · exact Or.inr ⟨x, List.mem_cons_self, h.symm⟩
      · exact Or.inr ⟨a, List.mem_cons_of_mem _ ha, e⟩
    · rintro (h | ⟨a, ha, e⟩)
      · exact Or.inl (Or.inl h)
      · rcases List.mem_cons.mp ha with rfl | ha
        · exact Or.inl (Or.inr e.symm)
        · exact Or.inr ⟨a, ha, e⟩

theorem nodup_keys_foldl_insert (f : α → K) (g : α → T) (l : List α) (m0 : SmallMap K T)
    (h : (m0.map Prod.fst).Nodup) :
    ((l.foldl (fun m a => SmallMap.insert m (f a) (g a)) m0).map Prod.fst).Nodup := by
  induction l generalizing m0 with
  | nil => exact h
  | cons x l ih => rw [List.foldl_cons]; exact ih _ (nodup_keys_insert _ _ _ h)

/-! #### `eraseDups` -/

theorem nodup_eraseDups {β : Type} [DecidableEq β] (l : List β) : l.eraseDups.Nodup := by
  generalize hn : l.length = n
  induction n using Nat.strong_induction_on generalizing l with
  | _ n ih =>
    cases l with
    | nil => simp
    | cons a as =>
      rw [List.eraseDups_cons, List.nodup_cons]
      constructor
      · simp
      · have hlt : (as.filter fun b => !b == a).length < n := by
          have := List.length_filter_le (fun b => !b == a) as
          simp at hn
          omega
        exact ih _ hlt _ rfl

/-! #### the running maximum of `choose_version` -/

section Max
variable {V : Type} [LinearOrder V]

/-- the step of the fold in `chooseVersion` -/
def step (best : Option V) (v : V) : Option V :=
  match best with
  | none => some v
  | some b => if b < v then some v else some b

theorem foldl_step_some (l : List V) (b : V) :
    ∃ v, l.foldl step (some b) = some v ∧ (v = b ∨ v ∈ l) ∧ b ≤ v ∧ ∀ w ∈ l, w ≤ v := by
  induction l generalizing b with
  | nil => exact ⟨b, rfl, Or.inl rfl, le_refl _, by simp⟩
  | cons x l ih =>
    rw [List.foldl_cons]
    by_cases hx : b < x
    · obtain ⟨v, h1, h2, h3, h4⟩ := ih x
      refine ⟨v, by simpa [step, hx] using h1, ?_, by order, ?_⟩
      · rcases h2 with rfl | h2
        · exact Or.inr List.mem_cons_self
        · exact Or.inr (List.mem_cons_of_mem _ h2)
      · intro w hw
        rcases List.mem_cons.mp hw with rfl | hw
        · exact h3
        · exact h4 w hw
    · obtain ⟨v, h1, h2, h3, h4⟩ := ih b
      refine ⟨v, by simpa [step, hx] using h1, ?_, h3, ?_⟩
      · rcases h2 with rfl | h2
        · exact Or.inl rfl
        · exact Or.inr (List.mem_cons_of_mem _ h2)
      · intro w hw
        rcases List.mem_cons.mp hw with rfl | hw
        · order
        · exact h4 w hw

theorem foldl_step_none_eq_some_iff (l : List V) (v : V) :
    l.foldl step none = some v ↔ v ∈ l ∧ ∀ w ∈ l, w ≤ v := by
  cases l with
  | nil => simp
  | cons x l =>
    rw [List.foldl_cons]
    obtain ⟨u, h1, h2, h3, h4⟩ := foldl_step_some l x
    have hs : step none x = some x := rfl
    rw [hs, h1]
    have hu : u ∈ x :: l := by
      rcases h2 with rfl | h2
      · exact List.mem_cons_self
      · exact List.mem_cons_of_mem _ h2
    have hub : ∀ w ∈ x :: l, w ≤ u := by
      intro w hw
      rcases List.mem_cons.mp hw with rfl | hw
      · exact h3
      · exact h4 w hw
    constructor
    · intro e
      simp only [Option.some.injEq] at e
      subst e
      exact ⟨hu, hub⟩
    · rintro ⟨hv, hvb⟩
      have := hub v hv
      have := hvb u hu
      congr 1
      order

theorem foldl_step_none_eq_none_iff (l : List V) : l.foldl step none = none ↔ l = [] := by
  cases l with
  | nil => simp
  | cons x l =>
    rw [List.foldl_cons]
    obtain ⟨u, h1, -⟩ := foldl_step_some l x
    have hs : step none x = some x := rfl
    rw [hs, h1]
    simp

end Max
end Aux

/-! ### The sequence of `add_dependencies` calls -/

/-- one call `add_dependencies(p, v, deps)` -/
structure AddOp (P S V : Type) where
  p : P
  v : V
  deps : List (P × S)

variable {P S V : Type} [DecidableEq P] [DecidableEq V]

/-- the provider after the calls `ops` (in order) on `OfflineDependencyProvider::new()` -/
def run (ops : List (AddOp P S V)) : Offline P S V :=
  ops.foldl (fun o op => o.addDependencies op.p op.v op.deps) Offline.empty

/-- `Reverse<usize>`: the comparison of `std::cmp::Reverse` on the wrapped counts -/
def cmpReverse (a b : Nat) : Ordering := compare b a

/-! ### 2. `collectDeps`: duplicate dependency entries collapse, the last one wins -/

theorem collectDeps_spec (deps : List (P × S)) (q : P) :
    SmallMap.get (collectDeps deps) q = (deps.reverse.find? (fun d => d.1 = q)).map (·.2) := by
  unfold collectDeps
  rw [Aux.get_foldl_insert (fun d : P × S => d.1) (fun d => d.2)]
  simp [SmallMap.get]

theorem collectDeps_nodup (deps : List (P × S)) : ((collectDeps deps).map Prod.fst).Nodup := by
  unfold collectDeps
  exact Aux.nodup_keys_foldl_insert (fun d : P × S => d.1) (fun d => d.2) deps [] (by simp)

theorem mem_keys_collectDeps (deps : List (P × S)) (q : P) :
    q ∈ (collectDeps deps).map Prod.fst ↔ q ∈ deps.map Prod.fst := by
  unfold collectDeps
  rw [Aux.mem_keys_foldl_insert (fun d : P × S => d.1) (fun d => d.2)]
  simp

/-- membership form: the entries of `collectDeps deps` are exactly the last entries per package -/
theorem mem_collectDeps_iff (deps : List (P × S)) (q : P) (s : S) :
    (q, s) ∈ collectDeps deps ↔ (deps.reverse.find? (fun d => d.1 = q)).map (·.2) = some s := by
  rw [← collectDeps_spec, Aux.get_eq_some_iff_mem _ (collectDeps_nodup deps)]

/-! ### 6. the keys of the store are distinct -/

theorem run_eq (ops : List (AddOp P S V)) :
    run ops = ops.foldl (fun (m : SmallMap (P × V) (List (P × S))) op =>
      SmallMap.insert m (op.p, op.v) (collectDeps op.deps)) [] := rfl

theorem run_nodupKeys (ops : List (AddOp P S V)) : ((run ops).map Prod.fst).Nodup := by
  rw [run_eq]
  exact Aux.nodup_keys_foldl_insert (fun op : AddOp P S V => (op.p, op.v))
    (fun op => collectDeps op.deps) ops [] (by simp)

theorem mem_keys_run (ops : List (AddOp P S V)) (p : P) (v : V) :
    (p, v) ∈ (run ops).map Prod.fst ↔ ∃ op ∈ ops, op.p = p ∧ op.v = v := by
  rw [run_eq, Aux.mem_keys_foldl_insert (fun op : AddOp P S V => (op.p, op.v))
    (fun op => collectDeps op.deps)]
  simp

/-! ### 1. `get_dependencies`: the last call for `(p, v)` wins -/

theorem getDependencies_run (ops : List (AddOp P S V)) (p : P) (v : V) :
    getDependencies (run ops) p v =
      (ops.reverse.find? (fun op => op.p = p ∧ op.v = v)).map (fun op => collectDeps op.deps) := by
  unfold getDependencies
  rw [run_eq, Aux.get_foldl_insert (fun op : AddOp P S V => (op.p, op.v))
    (fun op => collectDeps op.deps)]
  simp [SmallMap.get]

/-- `Dependencies::Unavailable` exactly for the pairs never added -/
theorem getDependencies_run_eq_none_iff (ops : List (AddOp P S V)) (p : P) (v : V) :
    getDependencies (run ops) p v = none ↔ ∀ op ∈ ops, ¬ (op.p = p ∧ op.v = v) := by
  rw [getDependencies_run]
  simp

/-- `Dependencies::Available` exactly for the pairs added -/
theorem getDependencies_run_isSome_iff (ops : List (AddOp P S V)) (p : P) (v : V) :
    (getDependencies (run ops) p v).isSome ↔ ∃ op ∈ ops, op.p = p ∧ op.v = v := by
  rw [getDependencies_run]
  simp

/-- a call that is not followed by another call for the same pair is what is returned -/
theorem getDependencies_run_append (ops rest : List (AddOp P S V)) (op : AddOp P S V)
    (h : ∀ op' ∈ rest, ¬ (op'.p = op.p ∧ op'.v = op.v)) :
    getDependencies (run (ops ++ op :: rest)) op.p op.v = some (collectDeps op.deps) := by
  rw [getDependencies_run, List.reverse_append, List.reverse_cons, List.append_assoc,
    List.find?_append]
  have : List.find? (fun op' => decide (op'.p = op.p ∧ op'.v = op.v)) rest.reverse = none := by
    simpa using h
  rw [this]
  simp

/-! ### 3. `versions(p)` and `packages()` -/

omit [DecidableEq V] in
theorem mem_versionsOf_iff (o : Offline P S V) (p : P) (v : V) :
    v ∈ versionsOf o p ↔ (p, v) ∈ o.map Prod.fst := by
  unfold versionsOf
  simp only [List.mem_map, List.mem_filter, decide_eq_true_eq]
  constructor
  · rintro ⟨e, ⟨he, rfl⟩, rfl⟩
    exact ⟨e, he, rfl⟩
  · rintro ⟨e, he, h⟩
    exact ⟨e, ⟨he, by rw [h]⟩, by rw [h]⟩

omit [DecidableEq V] in
theorem versionsOf_nodup_of (o : Offline P S V) (h : (o.map Prod.fst).Nodup) (p : P) :
    (versionsOf o p).Nodup := by
  unfold versionsOf
  induction o with
  | nil => simp
  | cons e o ih =>
    simp only [List.map_cons, List.nodup_cons] at h
    rw [List.filter_cons]
    split
    · rename_i hp
      simp only [decide_eq_true_eq] at hp
      rw [List.map_cons, List.nodup_cons]
      refine ⟨?_, ih h.2⟩
      intro hm
      have := (mem_versionsOf_iff o p e.1.2).mp hm
      apply h.1
      rw [← hp] at this
      exact this
    · exact ih h.2

theorem mem_versionsOf_run (ops : List (AddOp P S V)) (p : P) (v : V) :
    v ∈ versionsOf (run ops) p ↔ ∃ op ∈ ops, op.p = p ∧ op.v = v := by
  rw [mem_versionsOf_iff, mem_keys_run]

theorem versionsOf_nodup (ops : List (AddOp P S V)) (p : P) : (versionsOf (run ops) p).Nodup :=
  versionsOf_nodup_of _ (run_nodupKeys ops) p

omit [DecidableEq V] in
theorem mem_packages_iff (o : Offline P S V) (q : P) :
    q ∈ packages o ↔ ∃ v, (q, v) ∈ o.map Prod.fst := by
  unfold packages
  rw [List.mem_eraseDups]
  simp only [List.mem_map]
  constructor
  · rintro ⟨e, he, rfl⟩
    exact ⟨e.1.2, e, he, rfl⟩
  · rintro ⟨v, e, he, h⟩
    exact ⟨e, he, by rw [h]⟩

theorem mem_packages_run (ops : List (AddOp P S V)) (q : P) :
    q ∈ packages (run ops) ↔ ∃ op ∈ ops, op.p = q := by
  rw [mem_packages_iff]
  constructor
  · rintro ⟨v, h⟩
    obtain ⟨op, hop, h1, -⟩ := (mem_keys_run ops q v).mp h
    exact ⟨op, hop, h1⟩
  · rintro ⟨op, hop, h1⟩
    exact ⟨op.v, (mem_keys_run ops q op.v).mpr ⟨op, hop, h1, rfl⟩⟩

omit [DecidableEq V] in
theorem packages_nodup_of (o : Offline P S V) : (packages o).Nodup :=
  Aux.nodup_eraseDups _

theorem packages_nodup (ops : List (AddOp P S V)) : (packages (run ops)).Nodup :=
  packages_nodup_of _

omit [DecidableEq V] in
/-- `versions(p)` is `None` (here: empty) exactly for the packages never added -/
theorem versionsOf_eq_nil_iff (o : Offline P S V) (p : P) :
    versionsOf o p = [] ↔ p ∉ packages o := by
  rw [mem_packages_iff, List.eq_nil_iff_forall_not_mem]
  simp only [mem_versionsOf_iff, not_exists]

/-! ### 4. `choose_version`: the greatest added version inside the set -/

section Choose
variable {V : Type} [LinearOrder V] [VersionSet S V]

theorem chooseVersion_eq_foldl (o : Offline P S V) (p : P) (s : S) :
    chooseVersion o p s =
      ((versionsOf o p).filter fun v => VersionSet.contains s v).foldl Aux.step none := rfl

/-- for any store -/
theorem chooseVersion_eq_some_iff (o : Offline P S V) (p : P) (s : S) (v : V) :
    chooseVersion o p s = some v ↔
      (v ∈ versionsOf o p ∧ VersionSet.contains s v = true ∧
        ∀ w ∈ versionsOf o p, VersionSet.contains s w = true → w ≤ v) := by
  rw [chooseVersion_eq_foldl, Aux.foldl_step_none_eq_some_iff]
  simp only [List.mem_filter, and_imp, and_assoc]

/-- for any store -/
theorem chooseVersion_eq_none_iff (o : Offline P S V) (p : P) (s : S) :
    chooseVersion o p s = none ↔ ∀ w ∈ versionsOf o p, VersionSet.contains s w = false := by
  rw [chooseVersion_eq_foldl, Aux.foldl_step_none_eq_none_iff, List.filter_eq_nil_iff]
  simp

theorem chooseVersion_spec (ops : List (AddOp P S V)) (p : P) (s : S) (v : V) :
    chooseVersion (run ops) p s = some v ↔
      (v ∈ versionsOf (run ops) p ∧ VersionSet.contains s v = true ∧
        ∀ w ∈ versionsOf (run ops) p, VersionSet.contains s w = true → w ≤ v) :=
  chooseVersion_eq_some_iff _ p s v

theorem chooseVersion_none_spec (ops : List (AddOp P S V)) (p : P) (s : S) :
    chooseVersion (run ops) p s = none ↔
      ∀ w ∈ versionsOf (run ops) p, VersionSet.contains s w = false :=
  chooseVersion_eq_none_iff _ p s

/-- the same, stated on the calls themselves -/
theorem chooseVersion_run (ops : List (AddOp P S V)) (p : P) (s : S) (v : V) :
    chooseVersion (run ops) p s = some v ↔
      ((∃ op ∈ ops, op.p = p ∧ op.v = v) ∧ VersionSet.contains s v = true ∧
        ∀ op ∈ ops, op.p = p → VersionSet.contains s op.v = true → op.v ≤ v) := by
  rw [chooseVersion_spec, mem_versionsOf_run]
  constructor
  · rintro ⟨h1, h2, h3⟩
    refine ⟨h1, h2, ?_⟩
    intro op hop hp hc
    exact h3 op.v ((mem_versionsOf_run ops p op.v).mpr ⟨op, hop, hp, rfl⟩) hc
  · rintro ⟨h1, h2, h3⟩
    refine ⟨h1, h2, ?_⟩
    intro w hw hc
    obtain ⟨op, hop, hp, rfl⟩ := (mem_versionsOf_run ops p w).mp hw
    exact h3 op hop hp hc

theorem chooseVersion_run_none (ops : List (AddOp P S V)) (p : P) (s : S) :
    chooseVersion (run ops) p s = none ↔
      ∀ op ∈ ops, op.p = p → VersionSet.contains s op.v = false := by
  rw [chooseVersion_none_spec]
  constructor
  · intro h op hop hp
    exact h op.v ((mem_versionsOf_run ops p op.v).mpr ⟨op, hop, hp, rfl⟩)
  · intro h w hw
    obtain ⟨op, hop, hp, rfl⟩ := (mem_versionsOf_run ops p w).mp hw
    exact h op hop hp

end Choose

/-! ### 5. `prioritize` -/

section Prioritize
variable [VersionSet S V]

omit [DecidableEq V] in
theorem matchingCount_spec (o : Offline P S V) (p : P) (s : S) :
    matchingCount o p s = ((versionsOf o p).filter (fun v => VersionSet.contains s v)).length := rfl

omit [DecidableEq V] in
/-- with distinct keys the count is the number of distinct matching versions: bounded by the
number of versions, `0` for a package never added -/
theorem matchingCount_le (o : Offline P S V) (p : P) (s : S) :
    matchingCount o p s ≤ (versionsOf o p).length :=
  List.length_filter_le _ _

omit [DecidableEq V] in
theorem matchingCount_eq_zero_iff (o : Offline P S V) (p : P) (s : S) :
    matchingCount o p s = 0 ↔ ∀ w ∈ versionsOf o p, VersionSet.contains s w = false := by
  rw [matchingCount_spec, List.length_eq_zero_iff, List.filter_eq_nil_iff]
  simp

/-- `Reverse(count)`: fewer matching versions is a strictly higher priority -/
theorem prioritize_order (c1 c2 : Nat) (h : c1 < c2) : cmpReverse c1 c2 = .gt := by
  unfold cmpReverse
  exact Nat.compare_eq_gt.mpr h

theorem prioritize_order_iff (c1 c2 : Nat) : cmpReverse c1 c2 = .gt ↔ c1 < c2 := by
  unfold cmpReverse
  exact Nat.compare_eq_gt

omit [DecidableEq V] in
/-- the ranking on the provider: the package with strictly fewer matching versions has the
strictly greater `Reverse` priority -/
theorem prioritize_run (o : Offline P S V) (p1 p2 : P) (s1 s2 : S)
    (h : matchingCount o p1 s1 < matchingCount o p2 s2) :
    cmpReverse (matchingCount o p1 s1) (matchingCount o p2 s2) = .gt :=
  prioritize_order _ _ h

end Prioritize

/-! ### Non-vacuity: an overwrite and a duplicate dependency entry -/

section Example

/-- versions `0..3`; bit `i` = version `i` -/
private def bs (b0 b1 b2 b3 : Bool) : BitSet 4 := ⟨[b0, b1, b2, b3]⟩

/-- `add(0, 1, [(1, A), (2, B), (1, C)])`, `add(0, 3, [])`, `add(1, 2, [(2, A)])`,
`add(0, 1, [(2, C)])` (overwrites the first call) -/
private def exOps : List (AddOp Nat (BitSet 4) Nat) :=
  [ ⟨0, 1, [(1, bs true false false false), (2, bs false true false false),
            (1, bs false false true false)]⟩,
    ⟨0, 3, []⟩,
    ⟨1, 2, [(2, bs true false false false)]⟩,
    ⟨0, 1, [(2, bs false false true false)]⟩ ]

-- the duplicate dependency entry for package `1` collapses, the last one wins
example : collectDeps [(1, bs true false false false), (2, bs false true false false),
    (1, bs false false true false)] =
    [(1, bs false false true false), (2, bs false true false false)] := by decide

-- the second call for `(0, 1)` overwrites the first
example : getDependencies (run exOps) 0 1 = some [(2, bs false false true false)] := by decide
example : getDependencies (run (exOps.take 3)) 0 1 =
    some [(1, bs false false true false), (2, bs false true false false)] := by decide
example : getDependencies (run exOps) 0 3 = some [] := by decide
example : getDependencies (run exOps) 0 2 = none := by decide
example : getDependencies (run exOps) 2 0 = none := by decide
example : versionsOf (run exOps) 0 = [1, 3] := by decide
example : packages (run exOps) = [0, 1] := by decide
-- the greatest added version of package `0` inside `{0, 1, 2}` is `1`; inside `{1, 3}` it is `3`
example : chooseVersion (run exOps) 0 (bs true true true false) = some 1 := by decide
example : chooseVersion (run exOps) 0 (bs false true false true) = some 3 := by decide
example : chooseVersion (run exOps) 0 (bs true false true false) = none := by decide
example : chooseVersion (run exOps) 2 (bs true true true true) = none := by decide
example : matchingCount (run exOps) 0 (bs false true false true) = 2 := by decide
example : matchingCount (run exOps) 1 (bs true true true true) = 1 := by decide
-- package `1` (one matching version) ranks strictly above package `0` (two matching versions)
example : cmpReverse (matchingCount (run exOps) 1 (bs true true true true))
    (matchingCount (run exOps) 0 (bs false true false true)) = .gt := by decide

-- the abstract theorems instantiate at the concrete types of the driver (`Nat` versions with
-- `BitSet 4` / `Range Nat` sets): no instance mismatch between `LinearOrder Nat` and the model
example (ops : List (AddOp Nat (BitSet 4) Nat)) (s : BitSet 4) :
    chooseVersion (run ops) 0 s = some 1 ↔ (1 ∈ versionsOf (run ops) 0 ∧
      VersionSet.contains s 1 = true ∧
      ∀ w ∈ versionsOf (run ops) 0, VersionSet.contains s w = true → w ≤ 1) :=
  chooseVersion_spec ops 0 s 1
example (ops : List (AddOp Nat (Range Nat) Nat)) (s : Range Nat) :
    chooseVersion (run ops) 0 s = none ↔
      ∀ w ∈ versionsOf (run ops) 0, VersionSet.contains s w = false :=
  chooseVersion_none_spec ops 0 s

end Example

end Offline
end Pubgrub

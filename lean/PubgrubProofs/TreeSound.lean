/-
`build_derivation_tree` turns an invariant-satisfying store into a checkable proof (property C03).
-/
import PubgrubProofs.IncompatSound
import PubgrubProofs.TreeDefs
import PubgrubProofs.TreeSoundAux
import PubgrubProofs.TreeSoundAux2

set_option linter.unusedVariables false

namespace Pubgrub
open VersionSet

variable {P S V M Pr : Type} [DecidableEq P] [VersionSet S V] [DecidableEq S] [LawfulVersionSet S V]

/-- the tree of an entry of an invariant-satisfying store is checkable and carries the entry's terms -/
theorem IsTreeOf.checkable (W : World P S V M) (root : P) (rv : V)
    (store : List (Incompat P S V M)) (hinv : StoreInv W root rv store) (sh : Nat → Bool)
    (id : Nat) (t : DerivationTree P S V M) (h : IsTreeOf store sh id t) :
    t.Checkable W root rv ∧ ∃ inc, store[id]? = some inc ∧ t.terms = inc.terms := by
  induction h with
  | external id inc e hs hke =>
    have g := (hinv id inc hs).kind
    unfold Incompat.KindTrue at g
    cases hk : inc.kind with
    | derivedFrom a b => simp [hk, Kind.toExternal] at hke
    | notRoot p v =>
      simp only [hk, Kind.toExternal, Option.some.injEq] at hke g; subst hke
      exact ⟨.external _ ⟨g.1, g.2.1⟩, inc, hs, by simp [DerivationTree.terms, External.terms, g.2.2]⟩
    | noVersions p s =>
      simp only [hk, Kind.toExternal, Option.some.injEq] at hke g; subst hke
      exact ⟨.external _ g.1, inc, hs, by simp [DerivationTree.terms, External.terms, g.2]⟩
    | fromDependencyOf p s q t' =>
      simp only [hk, Kind.toExternal, Option.some.injEq] at hke g; subst hke
      exact ⟨.external _ g.1, inc, hs, by simp [DerivationTree.terms, External.terms, g.2.2.2]⟩
    | custom p s m =>
      simp only [hk, Kind.toExternal, Option.some.injEq] at hke g; subst hke
      obtain ⟨v, h1, h2, h3⟩ := g
      exact ⟨.external _ ⟨v, h1, h2⟩, inc, hs, by simp [DerivationTree.terms, External.terms, h3]⟩
  | derived id inc a b c1 c2 hs hkd ha hb ih1 ih2 =>
    have g := (hinv id inc hs).kind
    unfold Incompat.KindTrue at g
    simp only [hkd] at g
    obtain ⟨_, _, ia, ib, pivot, r, hsa, hsb, hr, hterms⟩ := g
    obtain ⟨hc1, ia', hsa', ht1⟩ := ih1
    obtain ⟨hc2, ib', hsb', ht2⟩ := ih2
    rw [hsa] at hsa'; cases hsa'
    rw [hsb] at hsb'; cases hsb'
    have ga := hinv a ia hsa
    have gb := hinv b ib hsb
    refine ⟨.derived _ _ _ _ hc1 hc2 ?_, inc, hs, rfl⟩
    intro σ hσ
    rw [ht1, ht2]
    have hrσ : r.AllTrue σ := by
      intro p t hpt
      exact hσ p t (hterms ▸ hpt)
    exact Incompat.priorCause_entailed ia ib ga.nodup gb.nodup ga.sets gb.sets a b pivot r hr σ hrσ

/-- the tree built for an id of an invariant-satisfying store is a checkable proof whose top clause is
the stored incompatibility's terms -/
theorem buildDerivationTree_checkable (W : World P S V M) (root : P) (rv : V)
    (st : State P S V M Pr) (hinv : StoreInv W root rv st.store) (id : Nat)
    (inc : Incompat P S V M) (hid : st.store[id]? = some inc)
    (tree : DerivationTree P S V M) (h : st.buildDerivationTree id = .ok tree) :
    tree.Checkable W root rv ∧ tree.terms = inc.terms := by
  obtain ⟨all, shared, _, ht⟩ := buildDerivationTree_spec st id tree h
  obtain ⟨hc, inc', hs, hterms⟩ := IsTreeOf.checkable W root rv st.store hinv _ id tree ht
  rw [hid] at hs; cases hs
  exact ⟨hc, hterms⟩

/-- the top node forbids the root at the requested version: a terminal clause has all its terms true
in every selection that selects the root at the requested version -/
theorem terminal_forbids_root (root : P) (rv : V) (inc : Incompat P S V M)
    (ht : inc.isTerminal root rv = true) (σ : P → Option V) (hσ : σ root = some rv) :
    TermsTrue σ inc.terms := by
  unfold Incompat.isTerminal at ht
  intro p t hpt
  split at ht
  · rename_i h0; rw [h0] at hpt; simp at hpt
  · rename_i p' t' h1
    rw [h1] at hpt
    simp only [List.mem_singleton, Prod.mk.injEq] at hpt
    obtain ⟨rfl, rfl⟩ := hpt
    simp only [Bool.and_eq_true, decide_eq_true_eq] at ht
    obtain ⟨rfl, hc⟩ := ht
    rw [hσ, ← Term.contains_eq_eval]; exact hc
  · simp at ht

/-- shared ids: all occurrences of one id are the same subtree -/
theorem buildDerivationTree_shared_same (W : World P S V M) (root : P) (rv : V)
    (st : State P S V M Pr) (hinv : StoreInv W root rv st.store) (id : Nat)
    (tree : DerivationTree P S V M) (h : st.buildDerivationTree id = .ok tree)
    (k : Nat) (t1 t2 : DerivationTree P S V M)
    (h1 : (some k, t1) ∈ tree.derivedNodes) (h2 : (some k, t2) ∈ tree.derivedNodes) : t1 = t2 := by
  obtain ⟨all, shared, _, ht⟩ := buildDerivationTree_spec st id tree h
  exact (ht.derivedNodes k t1 h1).1.functional (ht.derivedNodes k t2 h2).1

/-- in an invariant-satisfying store the causes of an entry have smaller ids -/
theorem TreeAux.causesBelow_of_storeInv (W : World P S V M) (root : P) (rv : V)
    (store : List (Incompat P S V M)) (hinv : StoreInv W root rv store) : CausesBelow store := by
  intro j inc a b hs hc
  have g := (hinv j inc hs).kind
  unfold Incompat.KindTrue at g
  unfold Incompat.causes at hc
  cases hk : inc.kind <;> simp only [hk] at hc g <;> try cases hc
  exact ⟨g.1, g.2.1⟩

/-- shared ids: a derived node carries `some k` exactly when it is the target of at least two cause
edges among the nodes reachable from the top, i.e. when it occurs at least twice in the unfolded tree;
a node carrying `none` occurs exactly once.  (Reading of "reachable along more than one path" recorded in
DESIGN.md: in-degree ≥ 2 in the reachable DAG; a node below a shared node that itself has a single
parent carries `none` although the unfolded tree repeats it — so the statement is about occurrences
*not below another repeated occurrence*.  If you find this too intricate, prove the two directions you
can and name them `..._partial` with the missing part described.) -/
theorem buildDerivationTree_shared_iff_partial (W : World P S V M) (root : P) (rv : V)
    (st : State P S V M Pr) (hinv : StoreInv W root rv st.store) (id : Nat)
    (tree : DerivationTree P S V M) (h : st.buildDerivationTree id = .ok tree)
    (k : Nat) (t : DerivationTree P S V M) (hk : (some k, t) ∈ tree.derivedNodes) :
    -- a node that carries an id occurs at least twice in the unfolded tree, and its id is its arena index
    2 ≤ (tree.derivedNodes.filter fun n => n.1 = some k).length ∧
      ∃ inc, st.store[k]? = some inc ∧ t.terms = inc.terms := by
  obtain ⟨all, shared, hcol, ht⟩ := buildDerivationTree_spec st id tree h
  obtain ⟨_, hsh, inck, ak, bk, hsk, hkk, hterms⟩ := ht.derivedNodes k t hk
  have hlt := TreeAux.causesBelow_of_storeInv W root rv st.store hinv
  refine ⟨?_, inck, hsk, hterms⟩
  rw [IsTreeOf.count_eq_occ hlt k hsh inck ak bk hsk hkk ht]
  exact collectIds_shared_occ st.store hlt k _ id all shared hcol (by simpa using hsh)

end Pubgrub

/-
Helpers for `NonEmpty.lean`, part 3: conflict resolution and unit propagation keep every term of the
partial solution inhabited.
-/
import PubgrubProofs.NonEmptyAux2

set_option linter.unusedSectionVars false
set_option linter.unusedVariables false

namespace Pubgrub
open VersionSet

section
variable {P S V M Pr : Type} [DecidableEq P] [VersionSet S V] [DecidableEq S] [LawfulVersionSet S V]

/-- after the backtrack of conflict resolution, what is left of the package does not satisfy its term
of the returned incompatibility -/
def AfterConflictNE (st : State P S V M Pr) (pkg : P) (rc : Nat) : Prop :=
  ∃ inc t, st.store[rc]? = some inc ∧ inc.get pkg = some t ∧
    ∀ pa, st.ps.getPA pkg = some pa → ¬ pa.inter.term.Imp t

namespace State

/-- the derivation for a package whose term in the cause is `t`: the new term is inhabited when the
current term of the package is not included in `t` -/
theorem derivation_ne (ce : CanonEmpty S V) (W : World P S V M) (root : P) (rv : V) {st : State P S V M Pr}
    (hs : SInv W root rv st) {id : Nat} {inc : Incompat P S V M} (hinc : st.store[id]? = some inc)
    {p : P} {t : Term S} (hget : inc.get p = some t)
    (hnimp : ∀ pa, st.ps.getPA p = some pa → ¬ pa.inter.term.Imp t) (hne : st.ps.NE)
    {ps' : PartialSolution P S V Pr} (hps : st.ps.addDerivation p id st.store = .ok ps') : ps'.NE := by
  have gi := hs.store id inc hinc
  have hpt : (p, t) ∈ inc.terms := SmallMap.mem_of_get hget
  have htv : t.Valid := gi.sets p t hpt
  apply PartialSolution.addDerivation_ne hne hps
  intro inc' t' hinc' ht'
  rw [hinc] at hinc'; injection hinc' with hinc'; subst hinc'
  rw [hget] at ht'; injection ht' with ht'; subst ht'
  constructor
  · intro pa hpa
    exact Term.inh_inter_negate (hs.ps _ (SmallMap.mem_of_get hpa)).inter htv (hnimp pa hpa)
  · intro _
    exact Term.inh_negate ((hs.store.negInh ce id inc hinc) p t hpt)

/-- the derivation made for an almost satisfied incompatibility keeps the terms inhabited -/
theorem almost_ne (ce : CanonEmpty S V) (W : World P S V M) (root : P) (rv : V) {st : State P S V M Pr}
    (hs : SInv W root rv st) {id : Nat} {inc : Incompat P S V M} (hinc : st.store[id]? = some inc)
    {p : P} (hrel : st.ps.relation inc = .almostSatisfied p) (hne : st.ps.NE)
    {ps' : PartialSolution P S V Pr} (hps : st.ps.addDerivation p id st.store = .ok ps') : ps'.NE := by
  have gi := hs.store id inc hinc
  obtain ⟨_, t, hpt, hself⟩ := Incompat.relationGo_almost _ p inc.terms hrel
  have hget : inc.get p = some t := SmallMap.get_of_mem gi.nodup hpt
  have htv : t.Valid := gi.sets p t hpt
  refine derivation_ne ce W root rv hs hinc hget ?_ hne hps
  intro pa hpa
  have hov : pa.inter.term.Valid := (hs.ps _ (SmallMap.mem_of_get hpa)).inter
  have hterm : st.ps.termIntersectionForPackage p = some pa.inter.term := by
    simp only [PartialSolution.termIntersectionForPackage, hpa, Option.map_some]
  rcases hself with hn | ⟨o, ho, hinc'⟩
  · rw [hterm] at hn; cases hn
  · rw [hterm] at ho; injection ho with ho; subst ho
    exact ((Term.relationWith_inconclusive_iff t _ htv hov).1 hinc').1

/-- conflict resolution keeps the terms inhabited, and the package it returns does not satisfy its
term of the returned incompatibility any more -/
theorem conflictResolution_ne (W : World P S V M) (root : P) (rv : V) :
    ∀ (fuel : Nat) (st : State P S V M Pr) (cur : Nat) (changed : Bool),
    SInv W root rv st → PInv st → TInv root rv st →
    (∃ inc, st.store[cur]? = some inc ∧ st.ps.Satisfies inc) → st.ps.NE →
    Safe (conflictResolution fuel st cur changed)
      (fun x => ∀ pkg rc, x.2 = .ok (pkg, rc) → x.1.ps.NE ∧ AfterConflictNE x.1 pkg rc) := by
  intro fuel
  induction fuel with
  | zero => intro st cur changed _ _ _ _ _; unfold conflictResolution; exact Safe.fuel
  | succ fuel ih =>
    intro st cur changed hs hp ht ⟨inc, hinc, hsat⟩ hne
    have hw := hp.wf
    have gi := hs.store cur inc hinc
    unfold conflictResolution
    refine Safe.bind_ok (storeGet_some hinc) ?_
    have hterm : inc.isTerminal st.rootPackage st.rootVersion = inc.isTerminal root rv := by
      rw [hs.root, hs.rv]
    rw [hterm]
    split
    · exact Safe.ok (fun pkg rc h => by cases h)
    rename_i hnt
    have hnt' : inc.isTerminal root rv = false := by
      cases h : inc.isTerminal root rv with
      | true => exact absurd h hnt
      | false => rfl
    have hlvl : st.ps.currentDecisionLevel ≠ 0 := by
      intro h0
      rw [terminal_of_level0 W root rv hs ht hinc hsat h0] at hnt'; cases hnt'
    refine Safe.bind (PartialSolution.satisfierSearch_safe (TInv.searchCtx hs hp ht) gi.nodup gi.sets hsat hnt') ?_
    intro ⟨pkg, search⟩ hss hpost
    dsimp only
    cases search with
    | differentDecisionLevels prev =>
      dsimp only
      refine Safe.bind (backtrack_safe hp cur changed prev) ?_
      intro st1 hst1 ⟨hbt, hstore⟩
      refine Safe.ok ?_
      intro pkg' rc' h
      injection h with h; injection h with h1 h2; subst h1; subst h2
      obtain ⟨t, pa, hget, hpa, hfirst⟩ := PartialSolution.satisfierSearch_first hw.wf gi.nodup hss
      obtain ⟨_, _, ⟨pa2, hpa2, hlt⟩, _⟩ := hpost
      simp only at hpa2 hlt
      rw [hpa] at hpa2; injection hpa2 with hpa2; subst hpa2
      have htv : t.Valid := gi.sets _ _ (SmallMap.mem_of_get hget)
      exact ⟨hbt.ne hw hne, inc, t, hstore _ _ hinc, hget, hbt.not_imp hw hs.ps htv hpa hlt hfirst⟩
    | sameDecisionLevels c =>
      dsimp only
      obtain ⟨hgetp, pa, dd, hpa, hdd, hc⟩ := hpost
      simp only at hgetp hpa hc
      obtain ⟨causeInc, hcause, hcget, _⟩ := ht.cause pkg pa (SmallMap.mem_of_get hpa) dd hdd
      rw [hc] at hcause
      refine Safe.bind_ok (storeGet_some hcause) ?_
      obtain ⟨prior, hprior⟩ := Incompat.priorCause_ok cur c hgetp hcget
      refine Safe.bind_ok hprior ?_
      have gp := Incompat.priorCause_good W root rv st.store cur c inc causeInc hinc hcause gi
        (hs.store _ _ hcause) pkg prior hprior st.store.length (List.getElem?_eq_some_iff.1 hinc).1
        (List.getElem?_eq_some_iff.1 hcause).1
      have hs2 : SInv W root rv ({ st with store := st.store ++ [prior] } : State P S V M Pr) :=
        ⟨storeInv_push W root rv st.store prior hs.store gp, hs.root, hs.rv, hs.ps⟩
      have hp2 : PInv ({ st with store := st.store ++ [prior] } : State P S V M Pr) := hp.storeAppend [prior]
      have hne' : st.ps.assignments ≠ [] := by
        intro e
        have := SmallMap.mem_of_get hpa
        rw [e] at this; cases this
      have ht2 : TInv root rv ({ st with store := st.store ++ [prior] } : State P S V M Pr) :=
        ht.storeExt rfl (fun i inc' hi => by
          show (st.store ++ [prior])[i]? = some inc'
          rw [List.getElem?_append_left (List.getElem?_eq_some_iff.1 hi).1]; exact hi) hne'
          (fun h0 => absurd h0 hlvl)
      refine ih _ _ _ hs2 hp2 ht2 ⟨prior, ?_, ?_⟩ hne
      · show (st.store ++ [prior])[st.store.length]? = some prior
        rw [List.getElem?_append_right (Nat.le_refl _)]; simp
      · exact satisfies_priorCause W root rv hs hp ht hinc hcause hsat hpa hdd hc hprior

theorem propagateIncompats_ne (ce : CanonEmpty S V) (W : World P S V M) (root : P) (rv : V) :
    ∀ (ids : List Nat) (st : State P S V M Pr), SInv W root rv st → PInv st → TInv root rv st →
    st.ps.NE → Safe (propagateIncompats st ids) (fun x => x.1.ps.NE) := by
  intro ids
  induction ids with
  | nil =>
    intro st hs hp ht hne
    unfold propagateIncompats
    exact Safe.ok hne
  | cons id rest ih =>
    intro st hs hp ht hne
    unfold propagateIncompats
    split
    · exact ih st hs hp ht hne
    split
    · rename_i e he
      exact Safe.error_of_eq he (Safe.storeGet (fun _ _ => trivial))
    rename_i inc hinc
    have hinc' := storeGet_ok hinc
    have hid := storeGet_lt hinc
    split
    · exact Safe.ok hne
    · rename_i p hrel
      obtain ⟨⟨ps', hps⟩, hnext⟩ := almost_derivation W root rv hs hp ht hinc' hrel
      rw [hps]
      dsimp only
      refine ih _ ⟨hs.store, hs.root, hs.rv, PartialSolution.addDerivation_termsValid W root rv hs.store hs.ps hps⟩
        (hp.derive hid hps _ _) (hnext ps' hps _ rfl rfl) (almost_ne ce W root rv hs hinc' hrel hne hps)
    · exact ih _ ⟨hs.store, hs.root, hs.rv, hs.ps⟩ (hp.cacheInsert hid _) (ht.congr rfl rfl) hne
    · exact ih st hs hp ht hne

theorem unitPropagationLoop_ne (ce : CanonEmpty S V) (W : World P S V M) (root : P) (rv : V) :
    ∀ (fuel : Nat) (st : State P S V M Pr), SInv W root rv st → PInv st → TInv root rv st → st.ps.NE →
    Safe (unitPropagationLoop fuel st) (fun x => x.2 = none → x.1.ps.NE) := by
  intro fuel
  induction fuel with
  | zero => intro st _ _ _ _; unfold unitPropagationLoop; exact Safe.fuel
  | succ fuel ih =>
    intro st hs hp ht hne
    unfold unitPropagationLoop
    split
    · exact Safe.ok (fun _ => hne)
    dsimp only
    split
    · exact Safe.panic (by not_listed)
    rename_i ids hids
    have hs0 : SInv W root rv ({ st with buffer := st.buffer.dropLast } : State P S V M Pr) :=
      ⟨hs.store, hs.root, hs.rv, hs.ps⟩
    have hp0 : PInv ({ st with buffer := st.buffer.dropLast } : State P S V M Pr) := ⟨hp.wf, hp.cache⟩
    have ht0 : TInv root rv ({ st with buffer := st.buffer.dropLast } : State P S V M Pr) := ht.congr rfl rfl
    have hprop := propagateIncompats_safe W root rv ids.reverse _ hs0 hp0 ht0
    have hpropne := propagateIncompats_ne ce W root rv ids.reverse
      ({ st with buffer := st.buffer.dropLast } : State P S V M Pr) hs0 hp0 ht0 hne
    split
    · rename_i e he
      exact Safe.error_of_eq he hprop.weaken
    · rename_i st1 he
      have hs1 := propagateIncompats_inv W root rv _ _ he hs0
      have hp1 := (propagateIncompats_pinv (o := none) _ _ he hp0).1
      have ht1 := (hprop.of_ok he).1
      exact ih st1 hs1 hp1 ht1 (hpropne.of_ok he)
    · rename_i st1 cid he
      have hs1 := propagateIncompats_inv W root rv _ _ he hs0
      have hp1 := (propagateIncompats_pinv (o := none) _ _ he hp0).1
      obtain ⟨ht1, hsat⟩ := hprop.of_ok he
      have hne1 : st1.ps.NE := hpropne.of_ok he
      obtain ⟨inc, hinc, hrel⟩ := hsat cid rfl
      have hsat1 : ∃ inc, st1.store[cid]? = some inc ∧ st1.ps.Satisfies inc :=
        ⟨inc, hinc, PartialSolution.satisfies_of_relation W root rv hs1 hinc hrel⟩
      have hcr := conflictResolution_safe W root rv fuel st1 cid false hs1 hp1 ht1 hsat1
      have hcrne := conflictResolution_ne W root rv fuel st1 cid false hs1 hp1 ht1 hsat1 hne1
      split
      · rename_i e he2
        exact Safe.error_of_eq he2 hcr.weaken
      · exact Safe.ok (fun h => by cases h)
      · rename_i st2 pkg rc he2
        obtain ⟨hs2, _⟩ := conflictResolution_inv W root rv _ _ _ _ he2 hs1
        obtain ⟨hp2, _⟩ := conflictResolution_pinv _ _ _ _ he2 hp1
        obtain ⟨ht2, hac⟩ := hcr.of_ok he2 pkg rc rfl
        obtain ⟨hne2, inc2', t2, hinc2', hget2', hnimp⟩ := hcrne.of_ok he2 pkg rc rfl
        obtain ⟨inc2, hinc2, hget2, hoth2⟩ := hac.stored
        obtain ⟨ps', hps⟩ := PartialSolution.addDerivation_ok hinc2 hget2 hac.undecided
        rw [hps]
        dsimp only
        obtain ⟨inc', t0, t', pa', hinc', ht0, hnone, hstep⟩ :=
          PartialSolution.addDerivation_step W root rv hs2.store hp2.wf.wf hps
        rw [hinc2] at hinc'; injection hinc' with hinc'; subst hinc'
        refine ih _ ⟨hs2.store, hs2.root, hs2.rv,
            PartialSolution.addDerivation_termsValid W root rv hs2.store hs2.ps hps⟩
          (hp2.derive (List.getElem?_eq_some_iff.1 hinc2).1 hps _ _) ?_
          (derivation_ne ce W root rv hs2 hinc2' hget2' hnimp hne2 hps)
        refine tinv_deriv W root rv hs2 hp2 ht2 hstep hinc2 ht0 hnone hoth2 ?_ rfl rfl
        intro h0
        have := hac.level
        simp only at this h0
        omega

theorem unitPropagation_ne (ce : CanonEmpty S V) (W : World P S V M) (root : P) (rv : V) (fuel : Nat)
    (st : State P S V M Pr) (p : P) (hs : SInv W root rv st) (hp : PInv st) (ht : TInv root rv st)
    (hne : st.ps.NE) : Safe (unitPropagation fuel st p) (fun x => x.2 = none → x.1.ps.NE) := by
  unfold unitPropagation
  exact unitPropagationLoop_ne ce W root rv fuel _ ⟨hs.store, hs.root, hs.rv, hs.ps⟩ ⟨hp.wf, hp.cache⟩
    (ht.congr rfl rfl) hne

end State
end
end Pubgrub

/-
Helpers for `StoreInvariant.lean`, part 3: every function of `Core` preserves the state-level invariant
(the store only grows by good incompatibilities).
-/
import PubgrubProofs.StoreInvariantAux2
set_option linter.unusedSectionVars false
namespace Pubgrub
open VersionSet
variable {P S V M Pr : Type} [DecidableEq P] [VersionSet S V] [DecidableEq S]
  [LawfulVersionSet S V]

/-- the state-level invariant: good store, the right root, valid terms in the partial solution -/
structure SInv (W : World P S V M) (root : P) (rv : V) (st : State P S V M Pr) : Prop where
  store : StoreInv W root rv st.store
  root : st.rootPackage = root
  rv : st.rootVersion = rv
  ps : st.ps.TermsValid

namespace State

theorem findMerge_ok {store : List (Incompat P S V M)} {inc : Incompat P S V M} :
    ∀ {ids : List Nat} {past : Nat} {merged : Incompat P S V M},
    findMerge store inc ids = .ok (some (past, merged)) →
    ∃ pastInc, store[past]? = some pastInc ∧ inc.mergeDependents pastInc = .ok (some merged) := by
  intro ids
  induction ids with
  | nil => intro past merged h; simp [findMerge] at h
  | cons a rest ih =>
    intro past merged h
    unfold findMerge at h
    simp only [bind, Except.bind, pure, Except.pure] at h
    split at h
    · cases h
    rename_i pastInc hp
    split at h
    · cases h
    rename_i o ho
    split at h
    · injection h with h; injection h with h; injection h with h1 h2
      subst h1; subst h2
      exact ⟨pastInc, storeGet_ok hp, ho⟩
    · exact ih h

theorem mergeIncompatibility_inv (W : World P S V M) (root : P) (rv : V)
    {st st' : State P S V M Pr} {id : Nat}
    (hr : mergeIncompatibility st id = .ok st') (h : SInv W root rv st) : SInv W root rv st' := by
  unfold mergeIncompatibility at hr
  simp only [bind, Except.bind, pure, Except.pure, throw, throwThe, MonadExceptOf.throw] at hr
  split at hr
  · cases hr
  rename_i inc hinc
  have ginc := h.store id inc (storeGet_ok hinc)
  split at hr
  · split at hr
    · cases hr
    split at hr
    · cases hr
    injection hr with hr; subst hr
    exact ⟨h.store, h.root, h.rv, h.ps⟩
  · split at hr
    · cases hr
    rename_i o ho
    split at hr
    · rename_i past merged
      split at hr
      · cases hr
      split at hr
      · cases hr
      injection hr with hr; subst hr
      obtain ⟨pastInc, hpast, hm⟩ := findMerge_ok ho
      have gm := Incompat.mergeDependents_good W root rv st.store id past inc pastInc ginc
        (h.store past pastInc hpast) merged hm st.store.length
      exact ⟨storeInv_push W root rv st.store merged h.store gm, h.root, h.rv, h.ps⟩
    · split at hr
      · cases hr
      split at hr
      · cases hr
      injection hr with hr; subst hr
      exact ⟨h.store, h.root, h.rv, h.ps⟩

theorem addIncompatibility_inv (W : World P S V M) (root : P) (rv : V)
    {st st' : State P S V M Pr} {inc : Incompat P S V M}
    (hr : addIncompatibility st inc = .ok st') (h : SInv W root rv st)
    (g : inc.Good W root rv st.store st.store.length) : SInv W root rv st' := by
  unfold addIncompatibility at hr
  exact mergeIncompatibility_inv W root rv hr
    ⟨storeInv_push W root rv st.store inc h.store g, h.root, h.rv, h.ps⟩

theorem foldlM_merge_inv (W : World P S V M) (root : P) (rv : V) :
    ∀ (ids : List Nat) {st st' : State P S V M Pr},
    ids.foldlM (m := R) (fun st id => mergeIncompatibility st id) st = .ok st' →
    SInv W root rv st → SInv W root rv st' := by
  intro ids
  induction ids with
  | nil =>
    intro st st' hr h
    simp only [List.foldlM_nil, pure, Except.pure] at hr
    injection hr with hr; subst hr; exact h
  | cons a rest ih =>
    intro st st' hr h
    simp only [List.foldlM_cons, bind, Except.bind] at hr
    split at hr
    · cases hr
    rename_i st1 h1
    exact ih hr (mergeIncompatibility_inv W root rv h1 h)

theorem addIncompatibilityFromDependencies_inv (W : World P S V M) (hW : W.SetsValid) (root : P) (rv : V)
    {st st' : State P S V M Pr} {p : P} {v : V} {deps : List (P × S)} {start stop : Nat}
    (hr : addIncompatibilityFromDependencies st p v deps = .ok (st', start, stop))
    (h : SInv W root rv st) (hd : W.deps p v = .available deps) : SInv W root rv st' := by
  unfold addIncompatibilityFromDependencies at hr
  simp only [bind, Except.bind, pure, Except.pure] at hr
  split at hr
  · cases hr
  rename_i st1 h1
  injection hr with hr; injection hr with hr; subst hr
  refine foldlM_merge_inv W root rv _ h1 ⟨?_, h.root, h.rv, h.ps⟩
  apply storeInv_append W root rv _ _ h.store
  intro k i hi
  have hmem := List.mem_of_getElem? hi
  rw [List.mem_map] at hmem
  obtain ⟨d, hdm, rfl⟩ := hmem
  exact Incompat.fromDependency_good W hW root rv _ _ p v deps hd d hdm

theorem backtrack_inv (W : World P S V M) (root : P) (rv : V)
    {st st' : State P S V M Pr} {incompat : Nat} {changed : Bool} {dl : Nat}
    (hr : st.backtrack incompat changed dl = .ok st') (h : SInv W root rv st) : SInv W root rv st' := by
  unfold State.backtrack at hr
  simp only [bind, Except.bind, pure, Except.pure] at hr
  split at hr
  · cases hr
  rename_i ps hps
  have hps' := PartialSolution.backtrack_termsValid h.ps hps
  split at hr
  · exact mergeIncompatibility_inv W root rv hr ⟨h.store, h.root, h.rv, hps'⟩
  · injection hr with hr; subst hr; exact ⟨h.store, h.root, h.rv, hps'⟩

theorem conflictResolution_inv (W : World P S V M) (root : P) (rv : V) :
    ∀ (fuel : Nat) (st : State P S V M Pr) (cur : Nat) (changed : Bool)
      {st' : State P S V M Pr} {r : Except Nat (P × Nat)},
    conflictResolution fuel st cur changed = .ok (st', r) → SInv W root rv st →
    SInv W root rv st' ∧ ∀ t, r = .error t →
      ∃ inc, st'.store[t]? = some inc ∧ inc.isTerminal root rv = true := by
  intro fuel
  induction fuel with
  | zero => intro st cur changed st' r hr; simp [conflictResolution] at hr
  | succ fuel ih =>
    intro st cur changed st' r hr h
    unfold conflictResolution at hr
    simp only [bind, Except.bind, pure, Except.pure] at hr
    split at hr
    · cases hr
    rename_i inc hinc
    split at hr
    · rename_i hterm
      injection hr with hr; injection hr with h1 h2; subst h1; subst h2
      refine ⟨h, ?_⟩
      intro t ht
      injection ht with ht; subst ht
      refine ⟨inc, storeGet_ok hinc, ?_⟩
      rw [← h.root, ← h.rv]; exact hterm
    · split at hr
      · cases hr
      rename_i ps hss
      split at hr
      · split at hr
        · cases hr
        rename_i st1 hb
        injection hr with hr; injection hr with h1 h2; subst h1; subst h2
        exact ⟨backtrack_inv W root rv hb h, fun t ht => by cases ht⟩
      · rename_i satisfierCause _
        split at hr
        · cases hr
        rename_i causeInc hcause
        split at hr
        · cases hr
        rename_i prior hprior
        refine ih _ _ _ hr ⟨?_, h.root, h.rv, h.ps⟩
        apply storeInv_push W root rv st.store prior h.store
        exact Incompat.priorCause_good W root rv st.store cur satisfierCause inc causeInc
          (storeGet_ok hinc) (storeGet_ok hcause) (h.store _ _ (storeGet_ok hinc))
          (h.store _ _ (storeGet_ok hcause)) ps.1 prior hprior st.store.length
          (storeGet_lt hinc) (storeGet_lt hcause)

theorem propagateIncompats_inv (W : World P S V M) (root : P) (rv : V) :
    ∀ (ids : List Nat) (st : State P S V M Pr) {st' : State P S V M Pr} {r : Option Nat},
    propagateIncompats st ids = .ok (st', r) → SInv W root rv st → SInv W root rv st' := by
  intro ids
  induction ids with
  | nil =>
    intro st st' r hr h
    simp only [propagateIncompats] at hr
    injection hr with hr; injection hr with h1 h2; subst h1; exact h
  | cons id rest ih =>
    intro st st' r hr h
    unfold propagateIncompats at hr
    split at hr
    · exact ih _ hr h
    split at hr
    · cases hr
    rename_i inc hinc
    split at hr
    · injection hr with hr; injection hr with h1 h2; subst h1; exact h
    · split at hr
      · cases hr
      rename_i ps hps
      have hps' := PartialSolution.addDerivation_termsValid W root rv h.store h.ps hps
      exact ih _ hr ⟨h.store, h.root, h.rv, hps'⟩
    · exact ih _ hr ⟨h.store, h.root, h.rv, h.ps⟩
    · exact ih _ hr h

theorem unitPropagationLoop_inv (W : World P S V M) (root : P) (rv : V) :
    ∀ (fuel : Nat) (st : State P S V M Pr) {st' : State P S V M Pr} {r : Option Nat},
    unitPropagationLoop fuel st = .ok (st', r) → SInv W root rv st →
    SInv W root rv st' ∧ ∀ t, r = some t →
      ∃ inc, st'.store[t]? = some inc ∧ inc.isTerminal root rv = true := by
  intro fuel
  induction fuel with
  | zero => intro st st' r hr; simp [unitPropagationLoop] at hr
  | succ fuel ih =>
    intro st st' r hr h
    unfold unitPropagationLoop at hr
    split at hr
    · injection hr with hr; injection hr with h1 h2; subst h1; subst h2
      exact ⟨h, fun t ht => by cases ht⟩
    simp only at hr
    split at hr
    · cases hr
    split at hr
    · cases hr
    · rename_i st1 hp
      have h1 := propagateIncompats_inv W root rv _ _ hp ⟨h.store, h.root, h.rv, h.ps⟩
      exact ih _ hr h1
    · rename_i st1 conflictId hp
      have h1 := propagateIncompats_inv W root rv _ _ hp ⟨h.store, h.root, h.rv, h.ps⟩
      split at hr
      · cases hr
      · rename_i st2 terminal hc
        injection hr with hr; injection hr with e1 e2; subst e1; subst e2
        obtain ⟨h2, ht⟩ := conflictResolution_inv W root rv _ _ _ _ hc h1
        exact ⟨h2, fun t ht' => by injection ht' with ht'; subst ht'; exact ht _ rfl⟩
      · rename_i st2 packageAlmost rootCause hc
        obtain ⟨h2, _⟩ := conflictResolution_inv W root rv _ _ _ _ hc h1
        split at hr
        · cases hr
        rename_i ps hps
        have hps' := PartialSolution.addDerivation_termsValid W root rv h2.store h2.ps hps
        exact ih _ hr ⟨h2.store, h2.root, h2.rv, hps'⟩

theorem unitPropagation_inv (W : World P S V M) (root : P) (rv : V)
    {fuel : Nat} {st st' : State P S V M Pr} {p : P} {r : Option Nat}
    (hr : unitPropagation fuel st p = .ok (st', r)) (h : SInv W root rv st) :
    SInv W root rv st' ∧ ∀ t, r = some t →
      ∃ inc, st'.store[t]? = some inc ∧ inc.isTerminal root rv = true :=
  unitPropagationLoop_inv W root rv _ _ hr ⟨h.store, h.root, h.rv, h.ps⟩

end State
end Pubgrub

#!/usr/bin/env python3
"""Regenerate /verif/MANIFEST.json from the table below (claimed properties only get a check)."""
import json, os
V = os.path.dirname(os.path.dirname(os.path.abspath(__file__)))
TB_PURE = ("Trusted: Lean 4.33.0 kernel; axioms propext, Classical.choice, Quot.sound; the hand-written model "
  "(lean/PubgrubModel) is tied to /repo by the differential run recorded in the evidence (exhaustive small scope by "
  "order-isomorphism for the pure layers); std binary_search_by / partition_point / Hash by their documented behaviour; "
  "Lean compiler for the driver; the harness's canonical printing. The tie also covers: every returned object re-checked as an object "
  "(representation independence, two-step operation chains), structured pairs of long ranges (8..300 segments), and - when /repo/src differs "
  "from source_baseline.json - the thorough scopes plus inputs around every integer constant new in a changed file (DESIGN.md 4.8).")
TB_SOLVER = ("Trusted: Lean 4.33.0 kernel; axioms propext, Classical.choice, Quot.sound; the hand-written coroutine model of "
  "resolve (lean/PubgrubModel/{Incompat,PartialSolution,Core,Solver}.lean) is tied to /repo by exact mirroring of recorded runs "
  "(every provider request, every partial-solution snapshot, the final store, the result) on sampled tiny registries incl. cycles, "
  "self-dependencies, empty sets, unknown packages, unavailable versions, 6 strategies; u32 counters as Nat; IndexMap / PriorityQueue / "
  "FxHashMap as association lists (queue tie-breaking is an input of the model, hash iteration order canonicalised); fuel. "
  "The mirror runs over Range<u32>, an 8-bit set, a 2-element-universe set and a set with a non-injective Display, and package names with a colliding Hash, against release and "
  "(quick: light) debug builds, with a log sink that formats every record; deep / wide / late-conflict / scale runs reach decision levels and sizes around 2^8 and 2^16; when /repo/src "
  "differs from source_baseline.json the quick tier adds the thorough scopes and inputs around every integer constant new in a changed file (DESIGN.md 4.8).")
T = {
 "C01": None, "C04": None, "C05": None, "C14": None, "C07": None, "C08": None, "C09": None,
 "C17": None, "C18": None, "C19": None, "C20": None,
 "C02": ("Full: Lean theorem C02_noSolution_sound (every world, every answer sequence consistent with it, any strategy / tie-breaking / fuel, any lawful version set): NoSolution is only reported when no solution exists. The 'equivalently' clause in full: C02_resolve_returns - over a finite registry, within N provider calls resolve returns, and what it returns is decided by the registry alone (Ok(sel) with sel a solution, or NoSolution and no solution exists); C02_strategy_independent - two well-behaved runs over one registry, whatever their strategies, never return one Ok and the other NoSolution. All of it also for Range over ANY linear order incl. the discrete u32 / SemanticVersion (C02_range_*), by pull-back along the embedding of Range V into Range (V x_lex Q) (the solver commutes with injective version-set homomorphisms). Tie: exact mirror of recorded runs; oracle: brute-force search for a solution on every NoSolution run and validity of every Ok.", TB_SOLVER,
         "Lean 4 theorem via the store invariant (induction over reachable coroutine states) + exact-mirror correspondence + brute-force oracle"),
 "C03": ("Full: leaves true / derived entailed / top forbids root / equal ids equal subtrees / id implies repeated occurrence (Lean theorems over the model of build_derivation_tree on an invariant-satisfying store); and the exact characterisation of shared ids (C03_shared_iff: a derived node is marked exactly when two distinct cause edges of the reachable DAG lead to it). Tie: exact tree equality with the model; oracle: independent reconstruction from the store snapshot.", TB_SOLVER,
         "Lean 4 theorems (store invariant, functional tree relation, counting argument) + exact-mirror correspondence + semantic re-derivation oracle"),
 "C06": ("Full: Lean theorem C06_store_valid for every reachable state of the coroutine model (any world, any consistent answers, any strategy, any end of the run). The theorem is proved for every lawful version set and, separately, for Range over ANY linear order incl. the discrete u32 / SemanticVersion (where Range is not lawful: 1<v<2 is a non-empty set without members), by pulling it back along the embedding of Range V into Range (V x_lex Q) - the solver commutes with injective version-set homomorphisms (HomSolver.lean, RangeHom.lean, RangeAnyOrder.lean). The storage of an incompatibility's terms (SmallMap with its four variants) is modelled exactly and proved to refine the association list the solver model uses (C06_smallmap_*). Tie: exact mirror of the store snapshots through the cfg-guarded hook; SmallMap scripts (exhaustive short + random) through a hook against the model; oracle: every stored clause against all solutions of the tiny registry, a BTreeMap for the scripts.", TB_SOLVER,
         "Lean 4 theorem (invariant by induction over operations) + exact-mirror correspondence of store snapshots + brute-force oracle"),
 "C10": ("Full: every clause of C10 is a Lean theorem about the model of range.rs for every linear order V (pointwise set laws, canonical results, is_disjoint/subset_of agreement; == iff same points over dense unbounded orders). Tie: exhaustive small-scope equality of every operation.", TB_PURE,
         "Lean 4 theorems (fun_induction over the sweeps) + exhaustive small-scope model/implementation equality"),
 "C11": ("Full: Term operations coincide with evaluation on every choice, for every lawful version set (Lean theorems); the old F2 row is proved wrong (C11_F2_witness); for Range over ANY linear order (discrete u32 included) the same laws with evaluation over the points of the dense completion (C11_range_*). Tie: all 65536 pairs of terms over 3 bound values through the cfg-guarded wrappers.", TB_PURE,
         "Lean 4 theorems by case analysis + exhaustive small-scope model/implementation equality"),
 "C12": ("Full: get_dependencies only after the matching choose_version and at most once, should_cancel first and between choose_version calls, the first query (arbitrary answer sequences), 'choose_version's set is the set last passed to prioritize' and 'that set is non-empty' are Lean theorems. Non-emptiness comes from the invariant that no accumulated term of a live state is empty (NonEmpty.lean): for lawful version sets with canonical emptiness the set has a member (C12_choose_nonempty); for Range over ANY linear order, incl. the discrete u32 / SemanticVersion where a canonical set such as 1<v<2 has no member, the set is not Ranges::empty() (C12_range_choose_nonempty, pulled back along the embedding into a dense order) and is canonical (C12_range_requests_wf).", TB_SOLVER,
         "Lean 4 theorems (phase/request coherence invariant over the coroutine) + trace automaton on recorded runs + exact-mirror correspondence"),
 "C13": ("Full: Lean theorems for arbitrary answer sequences (error at any point aborts with the matching variant and payload, nothing follows, causality of the trace, out-of-set answer yields Failure). Tie: fault enumeration - for every base case every callback index of the fault-free trace is failed once (and answered out of set once): exhaustive per case.", TB_SOLVER,
         "Lean 4 theorems over the coroutine + exhaustive per-case fault enumeration mirrored by the model"),
 "C15_old": ("Full except the Display clause (open, listed in evidence.open_statements): contains_many, simplify, bounding_range, as_singleton, from_range_bounds, is_empty, iter are Lean theorems for every linear order; Display is covered by exhaustive correspondence and a read-back oracle only.", TB_PURE,
         "Lean 4 theorems (cursor specification by fun_induction) + exhaustive small-scope model/implementation equality"),
 "C16": ("Full: cmp is a total order consistent with == on all segment lists (Lean theorems, any linear order); hash coherence: Range's storage SmallVec is modelled variant by variant (Empty/One/Two/Flexible) and proved to compare and hash by its slice only, for every history of push/pop/clear (C16_hash_independent_of_history). Tie: all pairs over 3 bound values incl. each set rebuilt through six other operation paths (representation independence), all triples over 2 (quick) / 3 (thorough); SmallVec scripts (all of length <= 6 / 8 over push,pop,clear + random) through a cfg-guarded hook against the model, with a recording Hasher.", TB_PURE + " std Hash for Bound / u32 slices trusted.",
         "Lean 4 theorems (lexicographic-order lifting) + exhaustive small-scope model/implementation equality"),
}
def chk(pid, text, note, tech):
    return {"property_id": pid, "quick_cmd": f"./check {pid} quick", "thorough_cmd": f"./check {pid} thorough",
            "evidence_file": f"evidence/{pid}.json", "replay_cmd_template": f"./check {pid} quick --replay {{path}}",
            "engine": "lean-proof+correspondence",
            "level_claimed": {"category": "proof", "text": text, "design_ref": "DESIGN.md section 5"},
            "level_note": note, "technique": tech}
extra = os.path.join(V, "tools", "manifest_extra.json")
if os.path.exists(extra):
    for k, v in json.load(open(extra)).items():
        T[k] = tuple(x.replace("__PURE__", TB_PURE).replace("__SOLVER__", TB_SOLVER) for x in v) if v else None
props = [json.loads(l)["id"] for l in open(os.path.join(V, "properties.jsonl"))]
checks = [chk(p, *T[p]) for p in props if T.get(p)]
claimed = {c["property_id"] for c in checks}
hook_commits = ["569271a", "fe50b71", "0ff0dd6", "853eb3f"]
m = {"version": 1, "setup_cmd": "./setup.sh",
 "hooks": {"guard": "pubgrub_verif",
           "enable": "RUSTFLAGS='--cfg pubgrub_verif' (set in /verif/harness/.cargo/config.toml; the harness path-depends on /repo)",
           "baseline_off_cmd": "cd /repo && cargo test --workspace --no-fail-fast --offline",
           "source_commits": hook_commits, "add_only": True},
 "engines": [{"name": "lean-proof+correspondence", "path": "check", "serves_properties": sorted(claimed),
   "kind_free_text": "Lean 4 theorems about a hand-written executable model (lean/PubgrubModel), tied to /repo on every run by a differential harness (harness/) that drives the real code and the compiled model with the same request lines; direct oracles on the implementation search for replays"}],
 "checks": checks,
 "not_applicable": [{"property_id": p, "reason": "check under construction in this session; will be claimed when its correspondence and theorems are wired (nothing is inapplicable in principle, see DESIGN.md section 9)"} for p in props if p not in claimed],
 "notes": "See DESIGN.md. known_findings.json lists F1/F2 as fixed (two fix: commits in /repo)."}
if not m["not_applicable"]:
    del m["not_applicable"]
json.dump(m, open(os.path.join(V, "MANIFEST.json"), "w"), indent=1)
print("claimed:", sorted(claimed))

/-
Property C19, last clause: serialising an `OfflineDependencyProvider` to JSON and deserialising it
back yields an equivalent value (same packages, versions and dependencies).

`OfflineDependencyProvider` (`/repo/src/solver.rs`) is `#[serde(transparent)]` over
`dependencies: Map<P, BTreeMap<V, DependencyConstraints<P, VS>>>`: three nested maps.  serde writes
a map as a JSON object, one field per entry (`serde_json` prints integer keys as decimal strings);
it reads a map by inserting every field in turn (`HashMap`/`BTreeMap::insert`: a repeated key
replaces the earlier value).

* `encMap` / `decMap` : one map level (the fields in iteration order / the list of decoded fields);
* `toNested`          : the three-level view of the flat model store
                        (`packages`, `versionsOf`, `getDependencies`);
* `encProvider`       : `encMap` at the three levels;
* `decProvider`       : `decMap` at the three levels, the outer `HashMap` built by `insert`
                        (a repeated package key replaces the whole inner map), then the store rebuilt
                        by one `addDependencies` per (package, version) entry (which replaces on a
                        repeated version key and collapses repeated dependency keys, last wins).
-/
import PubgrubModel.Serde
import PubgrubProofs.OfflineLaws
import PubgrubProofs.SerdeLaws
import Std.Data.String.ToNat

namespace Pubgrub
namespace Serde

/-! ### one map level -/

section MapLevel
variable {K T : Type}

/-- `Serialize for Map<K, T>`: an object with one field per entry -/
def encMap (keyK : K → String) (encT : T → Json) (m : List (K × T)) : Json :=
  .obj (m.map fun e => (keyK e.1, encT e.2))

/-- one field of a map -/
def decField (readK : String → Option K) (decT : Json → Option T) (f : String × Json) :
    Option (K × T) :=
  match readK f.1, decT f.2 with
  | some k, some t => some (k, t)
  | _, _ => none

/-- `Deserialize for Map<K, T>`, first half: the decoded fields, in order (the caller inserts them) -/
def decMap (readK : String → Option K) (decT : Json → Option T) : Json → Option (List (K × T))
  | .obj fields => fields.mapM (decField readK decT)
  | _ => none

theorem decMap_encMap (keyK : K → String) (readK : String → Option K)
    (encT : T → Json) (decT : Json → Option T)
    (hK : ∀ k, readK (keyK k) = some k) (m : List (K × T))
    (hT : ∀ e ∈ m, decT (encT e.2) = some e.2) :
    decMap readK decT (encMap keyK encT m) = some m := by
  unfold decMap encMap
  simp only
  induction m with
  | nil => simp
  | cons e t ih =>
    have h1 := hT e List.mem_cons_self
    have h2 := ih (fun e' he' => hT e' (List.mem_cons_of_mem _ he'))
    simp [decField, hK, h1, h2]

end MapLevel

end Serde

namespace Offline

/-! ### association lists with distinct keys: `insert` appends -/

namespace Aux
variable {K T : Type} [DecidableEq K]

theorem insert_of_not_mem (m : SmallMap K T) (k : K) (v : T) (h : k ∉ m.map Prod.fst) :
    SmallMap.insert m k v = m ++ [(k, v)] := by
  induction m with
  | nil => rfl
  | cons x m ih =>
    obtain ⟨a, b⟩ := x
    simp only [List.map_cons, List.mem_cons, not_or] at h
    simp [SmallMap.insert, h.1, ih h.2]

variable {α : Type}

/-- inserting entries with fresh, pairwise distinct keys: nothing is replaced -/
theorem foldl_insert_eq_append (f : α → K) (g : α → T) (l : List α) (m0 : SmallMap K T)
    (h : (m0.map Prod.fst ++ l.map f).Nodup) :
    l.foldl (fun m a => SmallMap.insert m (f a) (g a)) m0 = m0 ++ l.map (fun a => (f a, g a)) := by
  induction l generalizing m0 with
  | nil => simp
  | cons x l ih =>
    have hx : f x ∉ m0.map Prod.fst := by
      intro hm
      rw [List.nodup_append] at h
      exact h.2.2 _ hm _ (by simp) rfl
    rw [List.foldl_cons, insert_of_not_mem _ _ _ hx, ih]
    · simp
    · simpa [List.append_assoc] using h

theorem foldl_insert_eq_self (l : List (K × T)) (h : (l.map Prod.fst).Nodup) :
    l.foldl (fun m e => SmallMap.insert m e.1 e.2) [] = l := by
  rw [foldl_insert_eq_append (fun e : K × T => e.1) (fun e => e.2) l [] (by simpa using h)]
  simp

end Aux

section Store
variable {P S V : Type} [DecidableEq P] [DecidableEq V]

/-- a dependency map with distinct keys is a fixed point of `collect()` -/
theorem collectDeps_eq_self (ds : List (P × S)) (h : (ds.map Prod.fst).Nodup) :
    collectDeps ds = ds :=
  Aux.foldl_insert_eq_self ds h

/-- the representation invariant of a provider: distinct `(package, version)` keys, and distinct
package keys in every dependency map -/
def WF (o : Offline P S V) : Prop :=
  (o.map Prod.fst).Nodup ∧ ∀ e ∈ o, (e.2.map Prod.fst).Nodup

theorem run_wf (ops : List (AddOp P S V)) : WF (run ops) := by
  refine ⟨run_nodupKeys ops, ?_⟩
  rintro ⟨⟨p, v⟩, ds⟩ he
  have hg : getDependencies (run ops) p v = some ds :=
    (Aux.get_eq_some_iff_mem _ (run_nodupKeys ops) (p, v) ds).mpr he
  rw [getDependencies_run] at hg
  cases hf : List.find? (fun op => decide (op.p = p ∧ op.v = v)) ops.reverse with
  | none => rw [hf] at hg; simp at hg
  | some op =>
    rw [hf] at hg
    simp only [Option.map_some, Option.some.injEq] at hg
    subst hg
    exact collectDeps_nodup op.deps

/-! ### the three-level view -/

/-- `Map<P, BTreeMap<V, Map<P, S>>>` -/
abbrev Nested (P S V : Type) := List (P × List (V × List (P × S)))

/-- the nested maps of a store: what `Serialize` iterates -/
def toNested (o : Offline P S V) : Nested P S V :=
  (packages o).map fun p =>
    (p, (versionsOf o p).map fun v => (v, (getDependencies o p v).getD []))

/-- rebuild a store from nested maps: one `addDependencies` per (package, version) entry -/
def ofNested (n : Nested P S V) : Offline P S V :=
  n.foldl (fun o e => e.2.foldl (fun o f => addDependencies o e.1 f.1 f.2) o) Offline.empty

/-- the entries of the nested view, flattened -/
def flatten (n : Nested P S V) : List ((P × V) × List (P × S)) :=
  n.flatMap fun e => e.2.map fun f => ((e.1, f.1), f.2)

theorem ofNested_eq_foldl (n : Nested P S V) :
    ofNested n = (flatten n).foldl (fun (m : SmallMap (P × V) (List (P × S))) x =>
      SmallMap.insert m x.1 (collectDeps x.2)) [] := by
  unfold ofNested flatten
  rw [List.foldl_flatMap]
  simp only [List.foldl_map]
  rfl

theorem flatten_toNested (o : Offline P S V) :
    flatten (toNested o) = (packages o).flatMap fun p =>
      (versionsOf o p).map fun v => ((p, v), (getDependencies o p v).getD []) := by
  unfold flatten toNested
  simp [List.flatMap_map, Function.comp_def]

theorem mem_flatten_toNested (o : Offline P S V) (h : (o.map Prod.fst).Nodup)
    (x : (P × V) × List (P × S)) : x ∈ flatten (toNested o) ↔ x ∈ o := by
  obtain ⟨⟨p, v⟩, ds⟩ := x
  rw [flatten_toNested]
  simp only [List.mem_flatMap, List.mem_map, Prod.mk.injEq]
  constructor
  · rintro ⟨p', -, v', hv, ⟨rfl, rfl⟩, rfl⟩
    rw [mem_versionsOf_iff, List.mem_map] at hv
    obtain ⟨⟨k, ds⟩, he, hk⟩ := hv
    simp only at hk
    subst hk
    have := (Aux.get_eq_some_iff_mem o h _ ds).mpr he
    unfold getDependencies
    rw [this]
    exact he
  · intro he
    have hk : (p, v) ∈ o.map Prod.fst := List.mem_map.mpr ⟨_, he, rfl⟩
    refine ⟨p, (mem_packages_iff o p).mpr ⟨v, hk⟩, v, (mem_versionsOf_iff o p v).mpr hk,
      ⟨rfl, rfl⟩, ?_⟩
    have := (Aux.get_eq_some_iff_mem o h _ ds).mpr he
    unfold getDependencies
    rw [this]
    rfl

theorem keys_flatten_toNested (o : Offline P S V) :
    (flatten (toNested o)).map Prod.fst =
      (packages o).flatMap fun p => (versionsOf o p).map fun v => (p, v) := by
  rw [flatten_toNested, List.map_flatMap]
  simp [Function.comp_def]

theorem nodup_keys_flatten_toNested (o : Offline P S V) (h : (o.map Prod.fst).Nodup) :
    ((flatten (toNested o)).map Prod.fst).Nodup := by
  rw [keys_flatten_toNested]
  unfold List.Nodup
  rw [List.pairwise_flatMap]
  constructor
  · intro p _
    have := versionsOf_nodup_of o h p
    exact (List.Pairwise.map _ (fun a b hab => by simpa using hab) this)
  · refine (packages_nodup_of o).imp ?_
    intro p q hpq x hx y hy
    simp only [List.mem_map] at hx hy
    obtain ⟨_, _, rfl⟩ := hx
    obtain ⟨_, _, rfl⟩ := hy
    intro e
    exact hpq (Prod.mk.inj e).1

/-- rebuilding from the nested view gives the flattened entry list itself: nothing is replaced or
collapsed -/
theorem ofNested_toNested (o : Offline P S V) (h : WF o) :
    ofNested (toNested o) = flatten (toNested o) := by
  rw [ofNested_eq_foldl,
    Aux.foldl_insert_eq_append (fun x : (P × V) × List (P × S) => x.1)
      (fun x => collectDeps x.2) _ [] (by simpa using nodup_keys_flatten_toNested o h.1)]
  rw [List.nil_append]
  conv => rhs; rw [← List.map_id (flatten (toNested o))]
  apply List.map_congr_left
  intro x hx
  have hx' := (mem_flatten_toNested o h.1 x).mp hx
  rw [collectDeps_eq_self _ (h.2 x hx')]
  rfl

/-- the rebuilt store is the original one up to the order of the entries -/
theorem ofNested_toNested_perm (o : Offline P S V) (h : WF o) :
    (ofNested (toNested o)).Perm o := by
  rw [ofNested_toNested o h]
  have h1 : (flatten (toNested o)).Nodup :=
    List.Pairwise.of_map Prod.fst (fun a b hab e => hab (by rw [e]))
      (nodup_keys_flatten_toNested o h.1)
  have h2 : o.Nodup := List.Pairwise.of_map Prod.fst (fun a b hab e => hab (by rw [e])) h.1
  exact (List.perm_ext_iff_of_nodup h1 h2).mpr (mem_flatten_toNested o h.1)

theorem getDependencies_ofNested_toNested (o : Offline P S V) (h : WF o) (p : P) (v : V) :
    getDependencies (ofNested (toNested o)) p v = getDependencies o p v := by
  rw [ofNested_toNested o h]
  unfold getDependencies
  apply Option.ext
  intro ds
  rw [Aux.get_eq_some_iff_mem _ (nodup_keys_flatten_toNested o h.1),
    Aux.get_eq_some_iff_mem _ h.1, mem_flatten_toNested o h.1]

theorem keys_ofNested_toNested (o : Offline P S V) (h : WF o) (k : P × V) :
    k ∈ (ofNested (toNested o)).map Prod.fst ↔ k ∈ o.map Prod.fst := by
  rw [ofNested_toNested o h]
  simp only [List.mem_map, mem_flatten_toNested o h.1]

theorem wf_ofNested_toNested (o : Offline P S V) (h : WF o) : WF (ofNested (toNested o)) := by
  rw [ofNested_toNested o h]
  refine ⟨nodup_keys_flatten_toNested o h.1, ?_⟩
  intro e he
  exact h.2 e ((mem_flatten_toNested o h.1 e).mp he)

end Store

/-! ### the wire format of the provider -/

section Wire
variable {P S V : Type} [DecidableEq P] [DecidableEq V]

/-- `Serialize for OfflineDependencyProvider` (`#[serde(transparent)]`): an object with one field per
package, whose value is an object with one field per version, whose value is an object with one
field per dependency -/
def encProvider (keyP : P → String) (keyV : V → String) (encS : S → Json) (o : Offline P S V) :
    Json :=
  Serde.encMap keyP (Serde.encMap keyV (Serde.encMap keyP encS)) (toNested o)

/-- `Deserialize for OfflineDependencyProvider`: every field of every level is inserted -/
def decProvider (readP : String → Option P) (readV : String → Option V) (decS : Json → Option S)
    (j : Json) : Option (Offline P S V) :=
  (Serde.decMap readP (Serde.decMap readV (Serde.decMap readP decS)) j).map fun fields =>
    ofNested (fields.foldl (fun (m : SmallMap P (List (V × List (P × S)))) e =>
      SmallMap.insert m e.1 e.2) [])

variable (keyP : P → String) (readP : String → Option P)
  (keyV : V → String) (readV : String → Option V)
  (encS : S → Json) (decS : Json → Option S)

omit [DecidableEq P] [DecidableEq V] in
/-- the dependency level: every dependency map round-trips as a list (hence as a map) -/
theorem decDeps_encDeps (hP : ∀ p, readP (keyP p) = some p) (hS : ∀ s, decS (encS s) = some s)
    (ds : List (P × S)) :
    Serde.decMap readP decS (Serde.encMap keyP encS ds) = some ds :=
  Serde.decMap_encMap keyP readP encS decS hP ds (fun e _ => hS e.2)

omit [DecidableEq P] [DecidableEq V] in
/-- the version level -/
theorem decVersions_encVersions (hP : ∀ p, readP (keyP p) = some p)
    (hV : ∀ v, readV (keyV v) = some v) (hS : ∀ s, decS (encS s) = some s)
    (vs : List (V × List (P × S))) :
    Serde.decMap readV (Serde.decMap readP decS) (Serde.encMap keyV (Serde.encMap keyP encS) vs) =
      some vs :=
  Serde.decMap_encMap keyV readV _ _ hV vs (fun e _ => decDeps_encDeps keyP readP encS decS hP hS e.2)

omit [DecidableEq P] [DecidableEq V] in
/-- the package level: the three nested maps round-trip -/
theorem decNested_encNested (hP : ∀ p, readP (keyP p) = some p)
    (hV : ∀ v, readV (keyV v) = some v) (hS : ∀ s, decS (encS s) = some s)
    (n : Nested P S V) :
    Serde.decMap readP (Serde.decMap readV (Serde.decMap readP decS))
      (Serde.encMap keyP (Serde.encMap keyV (Serde.encMap keyP encS)) n) = some n :=
  Serde.decMap_encMap keyP readP _ _ hP n
    (fun e _ => decVersions_encVersions keyP readP keyV readV encS decS hP hV hS e.2)

theorem keys_toNested (o : Offline P S V) : (toNested o).map Prod.fst = packages o := by
  unfold toNested
  simp [Function.comp_def]

/-- the decoder returns the store rebuilt from the nested view -/
theorem decProvider_encProvider_eq (hP : ∀ p, readP (keyP p) = some p)
    (hV : ∀ v, readV (keyV v) = some v) (hS : ∀ s, decS (encS s) = some s) (o : Offline P S V) :
    decProvider readP readV decS (encProvider keyP keyV encS o) = some (ofNested (toNested o)) := by
  unfold decProvider encProvider
  rw [decNested_encNested keyP readP keyV readV encS decS hP hV hS, Option.map_some,
    Aux.foldl_insert_eq_self _ (by rw [keys_toNested]; exact packages_nodup_of o)]

/-- C19 for every store satisfying the representation invariant: the decoded provider is the
original one up to the order of the entries, answers `get_dependencies` identically, and has the same
versions and packages -/
theorem decProvider_encProvider_of (hP : ∀ p, readP (keyP p) = some p)
    (hV : ∀ v, readV (keyV v) = some v) (hS : ∀ s, decS (encS s) = some s)
    (o : Offline P S V) (h : WF o) :
    ∃ o', decProvider readP readV decS (encProvider keyP keyV encS o) = some o' ∧
      WF o' ∧ o'.Perm o ∧
      (∀ p v, getDependencies o' p v = getDependencies o p v) ∧
      (∀ p v, v ∈ versionsOf o' p ↔ v ∈ versionsOf o p) ∧
      (∀ p, p ∈ packages o' ↔ p ∈ packages o) := by
  refine ⟨_, decProvider_encProvider_eq keyP readP keyV readV encS decS hP hV hS o,
    wf_ofNested_toNested o h, ofNested_toNested_perm o h,
    getDependencies_ofNested_toNested o h, ?_, ?_⟩
  · intro p v
    rw [mem_versionsOf_iff, mem_versionsOf_iff, keys_ofNested_toNested o h]
  · intro p
    rw [mem_packages_iff, mem_packages_iff]
    simp only [keys_ofNested_toNested o h]

/-- C19, strong form on the provider built by `ops` -/
theorem decProvider_encProvider_strong (hP : ∀ p, readP (keyP p) = some p)
    (hV : ∀ v, readV (keyV v) = some v) (hS : ∀ s, decS (encS s) = some s)
    (ops : List (AddOp P S V)) :
    ∃ o', decProvider readP readV decS (encProvider keyP keyV encS (run ops)) = some o' ∧
      WF o' ∧ o'.Perm (run ops) ∧
      (∀ p v, getDependencies o' p v = getDependencies (run ops) p v) ∧
      (∀ p v, v ∈ versionsOf o' p ↔ v ∈ versionsOf (run ops) p) ∧
      (∀ p, p ∈ packages o' ↔ p ∈ packages (run ops)) :=
  decProvider_encProvider_of keyP readP keyV readV encS decS hP hV hS _ (run_wf ops)

/-- C19: serialising the provider built by `ops` and deserialising it back succeeds, and the result
has the same dependencies (as maps, for every package and version, present or not), the same
versions and the same packages -/
theorem decProvider_encProvider (hP : ∀ p, readP (keyP p) = some p)
    (hV : ∀ v, readV (keyV v) = some v) (hS : ∀ s, decS (encS s) = some s)
    (ops : List (AddOp P S V)) :
    ∃ o', decProvider readP readV decS (encProvider keyP keyV encS (run ops)) = some o' ∧
      (∀ p v, (getDependencies o' p v).map (fun ds => fun q => SmallMap.get ds q) =
        (getDependencies (run ops) p v).map (fun ds => fun q => SmallMap.get ds q)) ∧
      (∀ p, ∀ v, v ∈ versionsOf o' p ↔ v ∈ versionsOf (run ops) p) ∧
      (∀ p, p ∈ packages o' ↔ p ∈ packages (run ops)) := by
  obtain ⟨o', h1, -, -, h2, h3, h4⟩ :=
    decProvider_encProvider_strong keyP readP keyV readV encS decS hP hV hS ops
  exact ⟨o', h1, fun p v => by rw [h2 p v], h3, h4⟩

end Wire

section Queries
variable {P S V : Type} [DecidableEq P] [LinearOrder V] [VersionSet S V]
variable (keyP : P → String) (readP : String → Option P)
  (keyV : V → String) (readV : String → Option V)
  (encS : S → Json) (decS : Json → Option S)

/-- the queries the solver makes (`get_dependencies`, `choose_version`, `prioritize`) agree on the
decoded provider -/
theorem decProvider_encProvider_queries
    (hP : ∀ p, readP (keyP p) = some p)
    (hV : ∀ v, readV (keyV v) = some v) (hS : ∀ s, decS (encS s) = some s)
    (ops : List (AddOp P S V)) :
    ∃ o', decProvider readP readV decS (encProvider keyP keyV encS (run ops)) = some o' ∧
      (∀ p v, getDependencies o' p v = getDependencies (run ops) p v) ∧
      (∀ p s, chooseVersion o' p s = chooseVersion (run ops) p s) ∧
      (∀ p s, matchingCount o' p s = matchingCount (run ops) p s) := by
  obtain ⟨o', h1, hwf, hperm, h2, h3, -⟩ :=
    decProvider_encProvider_strong keyP readP keyV readV encS decS hP hV hS ops
  refine ⟨o', h1, h2, ?_, ?_⟩
  · intro p s
    apply Option.ext
    intro v
    rw [chooseVersion_eq_some_iff, chooseVersion_eq_some_iff]
    simp only [h3]
  · intro p s
    unfold matchingCount versionsOf
    exact ((((hperm.filter _).map _).filter _)).length_eq

end Queries


/-! ### Non-vacuity -/

section Example
open Bound Serde

/-- a reader of the decimal keys `0..9` that the kernel can evaluate (for the `rfl` examples only;
the theorems are instantiated with `String.toNat?` below) -/
private def readSmall (s : String) : Option Nat := (List.range 10).find? (fun n => Nat.repr n = s)

private def r13 : Range Nat := [(incl 1, excl 3)]
private def rAll : Range Nat := [(unb, unb)]
private def r2up : Range Nat := [(incl 2, unb)]

/-- packages interleaved, `("a", 1)` added twice, a repeated dependency key in the first call -/
private def exOpsS : List (AddOp String (Range Nat) Nat) :=
  [ ⟨"a", 1, [("b", r13), ("c", rAll), ("b", r2up)]⟩,
    ⟨"b", 2, []⟩,
    ⟨"a", 3, [("c", r13)]⟩,
    ⟨"b", 1, [("c", r2up)]⟩,
    ⟨"a", 1, [("b", r2up)]⟩ ]

example : run exOpsS =
    [(("a", 1), [("b", r2up)]), (("b", 2), []), (("a", 3), [("c", r13)]),
     (("b", 1), [("c", r2up)])] := rfl

example : toNested (run exOpsS) =
    [("a", [(1, [("b", r2up)]), (3, [("c", r13)])]), ("b", [(2, []), (1, [("c", r2up)])])] := rfl

-- the wire shape: `{"a":{"1":{"b":[[{"Included":2},"Unbounded"]]},"3":{"c":[[{"Included":1},{"Excluded":3}]]}},
--                   "b":{"2":{},"1":{"c":[[{"Included":2},"Unbounded"]]}}}`
example : encProvider id Nat.repr (encRange encNat) (run exOpsS) =
    .obj [("a", .obj [("1", .obj [("b", .arr [.arr [.obj [("Included", .num 2)], .str "Unbounded"]])]),
                      ("3", .obj [("c", .arr [.arr [.obj [("Included", .num 1)],
                                                     .obj [("Excluded", .num 3)]]])])]),
          ("b", .obj [("2", .obj []),
                      ("1", .obj [("c", .arr [.arr [.obj [("Included", .num 2)],
                                                     .str "Unbounded"]])])])] := rfl

-- the decoded provider: the same entries, grouped by package (not the same list as `run exOpsS`)
example : decProvider some readSmall (decRange decNat)
      (encProvider id Nat.repr (encRange encNat) (run exOpsS)) =
    some [(("a", 1), [("b", r2up)]), (("a", 3), [("c", r13)]), (("b", 2), []),
          (("b", 1), [("c", r2up)])] := rfl

-- the decoder is not total: a non-object, a version key that is not a number
example : decProvider (S := Range Nat) some readSmall (decRange decNat) .null = none := rfl
example : decProvider (S := Range Nat) some readSmall (decRange decNat)
    (.obj [("a", .obj [("x", .obj [])])]) = none := rfl
-- ... a dependency value that is not a range
example : decProvider some readSmall (decRange decNat)
    (.obj [("a", .obj [("1", .obj [("b", .num 0)])])]) = none := rfl
-- a repeated package key replaces the whole inner map (`HashMap::insert`); a repeated version key
-- and a repeated dependency key replace the earlier value
example : decProvider (S := Range Nat) some readSmall (decRange decNat)
    (.obj [("a", .obj [("1", .obj []), ("2", .obj [])]), ("a", .obj [("3", .obj [])])]) =
    some [(("a", 3), [])] := rfl
example : decProvider some readSmall (decRange decNat)
    (.obj [("a", .obj [("1", .obj [("b", encRange encNat r13)]),
                       ("1", .obj [("c", encRange encNat r13), ("c", encRange encNat rAll)])])]) =
    some [(("a", 1), [("c", rAll)])] := rfl

/-- a wire format for `BitSet n`: the array of bits as `0`/`1` -/
private def encBits {n : Nat} (b : BitSet n) : Json :=
  .arr (b.bits.map fun x => .num (if x then 1 else 0))
private def decBit : Json → Option Bool
  | .num 0 => some false
  | .num 1 => some true
  | _ => none
private def decBits {n : Nat} : Json → Option (BitSet n)
  | .arr items => (items.mapM decBit).map BitSet.mk
  | _ => none

private theorem decBits_encBits {n : Nat} (b : BitSet n) : decBits (encBits b) = some b := by
  obtain ⟨bits⟩ := b
  unfold decBits encBits
  simp only
  have : List.mapM decBit (bits.map fun x => Json.num (if x then 1 else 0)) = some bits := by
    induction bits with
    | nil => simp
    | cons x t ih => cases x <;> simp [decBit, ih]
  rw [this]
  rfl

-- the theorems instantiate at the types of the driver, with every hypothesis discharged:
-- `String` packages (the key is the string itself), `Nat` versions (decimal keys), `Range Nat` sets
example (ops : List (AddOp String (Range Nat) Nat)) :
    ∃ o', decProvider some String.toNat? (decRange decNat)
        (encProvider id Nat.repr (encRange encNat) (run ops)) = some o' ∧
      WF o' ∧ o'.Perm (run ops) ∧
      (∀ p v, getDependencies o' p v = getDependencies (run ops) p v) ∧
      (∀ p v, v ∈ versionsOf o' p ↔ v ∈ versionsOf (run ops) p) ∧
      (∀ p, p ∈ packages o' ↔ p ∈ packages (run ops)) :=
  decProvider_encProvider_strong id some Nat.repr String.toNat? (encRange encNat) (decRange decNat)
    (fun _ => rfl) Nat.toNat?_repr decRange_encRange_nat ops

-- `Nat` packages and versions, `BitSet 4` sets
example (ops : List (AddOp Nat (BitSet 4) Nat)) :
    ∃ o', decProvider String.toNat? String.toNat? decBits
        (encProvider Nat.repr Nat.repr encBits (run ops)) = some o' ∧
      (∀ p v, (getDependencies o' p v).map (fun ds => fun q => SmallMap.get ds q) =
        (getDependencies (run ops) p v).map (fun ds => fun q => SmallMap.get ds q)) ∧
      (∀ p, ∀ v, v ∈ versionsOf o' p ↔ v ∈ versionsOf (run ops) p) ∧
      (∀ p, p ∈ packages o' ↔ p ∈ packages (run ops)) :=
  decProvider_encProvider Nat.repr String.toNat? Nat.repr String.toNat? encBits decBits
    Nat.toNat?_repr Nat.toNat?_repr decBits_encBits ops

example (ops : List (AddOp String (Range Nat) Nat)) :
    ∃ o', decProvider some String.toNat? (decRange decNat)
        (encProvider id Nat.repr (encRange encNat) (run ops)) = some o' ∧
      (∀ p v, getDependencies o' p v = getDependencies (run ops) p v) ∧
      (∀ p s, chooseVersion o' p s = chooseVersion (run ops) p s) ∧
      (∀ p s, matchingCount o' p s = matchingCount (run ops) p s) :=
  decProvider_encProvider_queries id some Nat.repr String.toNat? (encRange encNat)
    (decRange decNat) (fun _ => rfl) Nat.toNat?_repr decRange_encRange_nat ops

-- the invariant is needed for the `Perm` clause: a raw store with a repeated key (not reachable by
-- `add_dependencies`) is rebuilt with the shadowed entry dropped
private def rawDup : Offline Nat (Range Nat) Nat := [((0, 0), [(1, r13)]), ((0, 0), [])]
example : ¬ WF rawDup := by unfold WF; decide
example : ofNested (toNested rawDup) = [((0, 0), [(1, r13)])] := rfl

end Example

end Offline
end Pubgrub

//! Version sets used by the solver harness: `Range<u32>` and `BitSet8`, a finite-universe set that
//! implements only the five required methods of `VersionSet` (so every provided method is the trait's default).
use crate::util::*;
use pubgrub::{Range, VersionSet};
use std::fmt;

pub trait HSet: VersionSet<V = u32> + std::hash::Hash + 'static {
    const KIND: &'static str;
    fn to_machine(&self) -> String;
    fn from_machine(s: &str) -> Self;
    /// read the crate's `Display` text back (for snapshots)
    fn from_display(s: &str) -> Option<Self>;
    /// a family of sets to draw dependencies from
    fn family(rng: &mut Rng) -> Self;
    /// versions that can matter for this set type (the doubled grid / the universe)
    fn universe() -> Vec<u32>;
    /// false: two different sets may print alike (a legal `Display`); the oracles that read sets back from
    /// snapshot TEXT are skipped for such a type, the result-level oracles and the mirror stay
    const DISPLAY_INJECTIVE: bool = true;
}

impl HSet for Range<u32> {
    const KIND: &'static str = "range";
    fn to_machine(&self) -> String {
        fmt_range(self)
    }
    fn from_machine(s: &str) -> Self {
        parse_range(s)
    }
    fn from_display(s: &str) -> Option<Self> {
        crate::pure::read_display(s).map(|segs| range_from_segs(&segs))
    }
    fn family(rng: &mut Rng) -> Self {
        // versions are 1,3,5 ; bounds are taken among 1,3,5 too: points on the doubled grid 0..=6
        // half of the time any of the 128 canonical ranges over the bound values 1,3,5 (all shapes of
        // touching / nested / inclusive-vs-exclusive ends occur), otherwise a "typical" constraint
        if rng.chance(1, 2) {
            return range_from_segs(&segs_of_mask(rng.below(128), 3));
        }
        match rng.below(20) {
            0 => Range::empty(),
            1 | 2 | 3 => Range::full(),
            4 => Range::singleton(1u32),
            5 => Range::singleton(3u32),
            6 => Range::singleton(5u32),
            7 => Range::higher_than(3u32),
            8 => Range::strictly_higher_than(1u32),
            9 => Range::lower_than(3u32),
            10 => Range::strictly_lower_than(5u32),
            11 => Range::between(1u32, 5u32),
            12 => Range::singleton(1u32).union(&Range::singleton(5u32)),
            13 => Range::singleton(3u32).complement(),
            14 => Range::strictly_lower_than(3u32).union(&Range::strictly_higher_than(3u32)),
            15 => Range::between(3u32, 5u32),
            16 => Range::higher_than(5u32),
            17 => Range::strictly_higher_than(5u32),
            18 => Range::lower_than(1u32),
            _ => range_from_segs(&segs_of_mask(rng.below(128), 3)),
        }
    }
    fn universe() -> Vec<u32> {
        (0..=6).collect()
    }
}

/// versions 0..8 as a bit mask
#[derive(Debug, Clone, PartialEq, Eq, Hash)]
pub struct BitSet8(pub u8);

impl fmt::Display for BitSet8 {
    fn fmt(&self, f: &mut fmt::Formatter<'_>) -> fmt::Result {
        let items: Vec<String> = (0..8).filter(|i| self.0 >> i & 1 == 1).map(|i| i.to_string()).collect();
        write!(f, "{{{}}}", items.join(","))
    }
}

impl VersionSet for BitSet8 {
    type V = u32;
    fn empty() -> Self {
        BitSet8(0)
    }
    fn singleton(v: u32) -> Self {
        BitSet8(if v < 8 { 1 << v } else { 0 })
    }
    fn complement(&self) -> Self {
        BitSet8(!self.0)
    }
    fn intersection(&self, other: &Self) -> Self {
        BitSet8(self.0 & other.0)
    }
    fn contains(&self, v: &u32) -> bool {
        *v < 8 && self.0 >> *v & 1 == 1
    }
}

impl HSet for BitSet8 {
    const KIND: &'static str = "bits";
    fn to_machine(&self) -> String {
        self.0.to_string()
    }
    fn from_machine(s: &str) -> Self {
        BitSet8(s.trim().parse().unwrap())
    }
    fn from_display(s: &str) -> Option<Self> {
        let inner = s.strip_prefix('{')?.strip_suffix('}')?;
        let mut m = 0u8;
        if !inner.is_empty() {
            for x in inner.split(',') {
                let i: u32 = x.parse().ok()?;
                m |= 1 << i;
            }
        }
        Some(BitSet8(m))
    }
    fn family(rng: &mut Rng) -> Self {
        match rng.below(8) {
            0 => BitSet8(0),
            1 | 2 => BitSet8(0xff),
            3 => BitSet8(1 << rng.below(4)),
            _ => BitSet8(rng.below(256) as u8),
        }
    }
    fn universe() -> Vec<u32> {
        (0..8).collect()
    }
}

/// versions 0..2 as a bit mask: a universe so small that the versions of one package can cover it (a merged
/// dependent set then equals `full()`, a singleton of a one-version package may too)
#[derive(Debug, Clone, PartialEq, Eq, Hash)]
pub struct BitSet2(pub u8);

impl fmt::Display for BitSet2 {
    fn fmt(&self, f: &mut fmt::Formatter<'_>) -> fmt::Result {
        let items: Vec<String> = (0..2).filter(|i| self.0 >> i & 1 == 1).map(|i| i.to_string()).collect();
        write!(f, "{{{}}}", items.join(","))
    }
}

impl VersionSet for BitSet2 {
    type V = u32;
    fn empty() -> Self {
        BitSet2(0)
    }
    fn singleton(v: u32) -> Self {
        BitSet2(if v < 2 { 1 << v } else { 0 })
    }
    fn complement(&self) -> Self {
        BitSet2(!self.0 & 3)
    }
    fn intersection(&self, other: &Self) -> Self {
        BitSet2(self.0 & other.0)
    }
    fn contains(&self, v: &u32) -> bool {
        *v < 2 && self.0 >> *v & 1 == 1
    }
}

impl HSet for BitSet2 {
    const KIND: &'static str = "bits2";
    fn to_machine(&self) -> String {
        self.0.to_string()
    }
    fn from_machine(s: &str) -> Self {
        BitSet2(s.trim().parse::<u8>().unwrap() & 3)
    }
    fn from_display(s: &str) -> Option<Self> {
        let inner = s.strip_prefix('{')?.strip_suffix('}')?;
        let mut m = 0u8;
        if !inner.is_empty() {
            for x in inner.split(',') {
                let i: u32 = x.parse().ok()?;
                if i >= 2 {
                    return None;
                }
                m |= 1 << i;
            }
        }
        Some(BitSet2(m))
    }
    fn family(rng: &mut Rng) -> Self {
        BitSet2([0u8, 1, 2, 3, 3, 1, 2, 3][rng.below(8) as usize])
    }
    fn universe() -> Vec<u32> {
        (0..2).collect()
    }
}

/// `BitSet8` with a legal but NON-INJECTIVE `Display`: member i prints as i % 4, so {1} and {5} (and {1,5})
/// print alike.  Nothing in the solver may depend on the text of a set.
#[derive(Debug, Clone, PartialEq, Eq, Hash)]
pub struct BlurSet8(pub u8);

impl fmt::Display for BlurSet8 {
    fn fmt(&self, f: &mut fmt::Formatter<'_>) -> fmt::Result {
        let mut items: Vec<u32> = (0..8).filter(|i| self.0 >> i & 1 == 1).map(|i| i % 4).collect();
        items.dedup();
        write!(f, "{{{}}}", items.iter().map(|i| i.to_string()).collect::<Vec<_>>().join(","))
    }
}

impl VersionSet for BlurSet8 {
    type V = u32;
    fn empty() -> Self {
        BlurSet8(0)
    }
    fn singleton(v: u32) -> Self {
        BlurSet8(if v < 8 { 1 << v } else { 0 })
    }
    fn complement(&self) -> Self {
        BlurSet8(!self.0)
    }
    fn intersection(&self, other: &Self) -> Self {
        BlurSet8(self.0 & other.0)
    }
    fn contains(&self, v: &u32) -> bool {
        *v < 8 && self.0 >> *v & 1 == 1
    }
}

impl HSet for BlurSet8 {
    const KIND: &'static str = "blur";
    const DISPLAY_INJECTIVE: bool = false;
    fn to_machine(&self) -> String {
        self.0.to_string()
    }
    fn from_machine(s: &str) -> Self {
        BlurSet8(s.trim().parse().unwrap())
    }
    fn from_display(_: &str) -> Option<Self> {
        None
    }
    fn family(rng: &mut Rng) -> Self {
        match rng.below(8) {
            0 => BlurSet8(0),
            1 => BlurSet8(0xff),
            2 | 3 => BlurSet8(1 << [1u8, 5, 0, 2][rng.below(4) as usize]),
            4 => BlurSet8(0b0010_0010),
            _ => BlurSet8(rng.below(256) as u8),
        }
    }
    fn universe() -> Vec<u32> {
        (0..8).collect()
    }
}

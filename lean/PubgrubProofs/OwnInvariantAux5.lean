/-
Helpers for `OwnInvariant.lean`, part 5: `mergeIncompatibility` — its shape, preservation of the
semantic bundle, and index completeness (with a window of ids not yet merged).
-/
import PubgrubProofs.OwnInvariantAux4

set_option linter.unusedSectionVars false
set_option linter.unusedVariables false

namespace Pubgrub
open VersionSet

section Lawful
variable {P S V M Pr : Type} [DecidableEq P] [VersionSet S V] [DecidableEq S] [LawfulVersionSet S V]

/-! ### shapes -/

/-- what a successful `merge_dependents` returns -/
theorem Incompat.mergeDependents_shape (W : World P S V M) (root : P) (rv : V)
    (store : List (Incompat P S V M)) (a b : Nat) (ia ib : Incompat P S V M)
    (ga : ia.Good W root rv store a) (gb : ib.Good W root rv store b)
    (r : Incompat P S V M) (hr : Incompat.mergeDependents ia ib = .ok (some r)) :
    ∃ p1 p2 s1 s2 t, p1 ≠ p2 ∧ ia.kind = .fromDependencyOf p1 s1 p2 t ∧
      ib.kind = .fromDependencyOf p1 s2 p2 t ∧
      r = Incompat.fromDependency p1 (union s1 s2) (p2, t) ∧
      LawfulVersionSet.Valid V s1 ∧ LawfulVersionSet.Valid V s2 := by
  unfold Incompat.mergeDependents at hr
  cases ha : ia.asDependency with
  | none => simp [ha] at hr
  | some pa =>
    obtain ⟨p1, p2⟩ := pa
    cases hb : ib.asDependency with
    | none => simp [ha, hb] at hr
    | some o =>
      simp only [ha, hb] at hr
      by_cases ho : (p1, p2) ≠ o
      · simp [ho] at hr
      · rw [if_neg ho] at hr
        have ho : (p1, p2) = o := not_not.mp ho
        subst ho
        obtain ⟨s1, t1, hka, hne⟩ := Incompat.asDependency_some ha
        obtain ⟨s2, t2, hkb, _⟩ := Incompat.asDependency_some hb
        have ka := ga.kind
        simp only [Incompat.KindTrue, hka] at ka
        have kb := gb.kind
        simp only [Incompat.KindTrue, hkb] at kb
        obtain ⟨da, vs1, vt1, hta⟩ := ka
        obtain ⟨db, vs2, vt2, htb⟩ := kb
        obtain ⟨a1, a2⟩ := Incompat.get_fromDependency_terms (M := M) p1 p2 s1 t1 hne
        obtain ⟨b1, b2⟩ := Incompat.get_fromDependency_terms (M := M) p1 p2 s2 t2 hne
        rw [← hta] at a1 a2
        rw [← htb] at b1 b2
        simp only [Incompat.get, a1, a2, b1, b2, unwrapOr, Incompat.unwrapPositive, bind, Except.bind, pure,
          Except.pure] at hr
        have main : t1 = t2 ∧ r = Incompat.fromDependency p1 (union s1 s2) (p2, t1) := by
          by_cases e1 : t1 = (empty : S) <;> by_cases e2 : t2 = (empty : S)
          · simp [e1, e2] at hr
            exact ⟨by rw [e1, e2], by rw [← hr, e1]⟩
          · simp [e1, e2] at hr
          · simp [e1, e2] at hr
          · simp only [if_neg e1, if_neg e2] at hr
            by_cases e : t1 = t2
            · subst e
              simp [Incompat.unwrapNegative] at hr
              exact ⟨rfl, hr.symm⟩
            · simp [e] at hr
        obtain ⟨rfl, rfl⟩ := main
        exact ⟨p1, p2, s1, s2, t1, hne, hka, hkb, rfl, vs1, vs2⟩

/-- the dependent package is the first key of a dependency incompatibility -/
theorem Incompat.fromDependency_key (p : P) (s : S) (d : P × S) :
    p ∈ (Incompat.fromDependency (M := M) p s d : Incompat P S V M).terms.map Prod.fst := by
  unfold Incompat.fromDependency
  simp only
  split
  · simp
  · split <;> simp

/-- the owner of an external incompatibility is one of its keys -/
theorem Incompat.owner_key (W : World P S V M) (root : P) (rv : V)
    {store : List (Incompat P S V M)} {id : Nat} {inc : Incompat P S V M}
    (g : inc.Good W root rv store id) {p : P} (ho : inc.OwnedBy p) : p ∈ inc.terms.map Prod.fst := by
  have k := g.kind
  unfold Incompat.OwnedBy at ho
  unfold Incompat.KindTrue at k
  cases hk : inc.kind with
  | notRoot q w => rw [hk] at ho; exact ho.elim
  | derivedFrom a b => rw [hk] at ho; exact ho.elim
  | noVersions q s =>
    rw [hk] at k ho; simp only at k ho
    subst ho; rw [k.2]; simp
  | custom q s m =>
    rw [hk] at k ho; simp only at k ho
    subst ho
    obtain ⟨w, _, _, ht⟩ := k
    rw [ht]; simp
  | fromDependencyOf q s q2 t =>
    rw [hk] at k ho; simp only at k ho
    subst ho
    rw [k.2.2.2]; exact Incompat.fromDependency_key q s (q2, t)

/-- what `mergeIncompatibility` does to the state -/
theorem State.mergeIncompatibility_shape {st st' : State P S V M Pr} {id : Nat}
    (hr : State.mergeIncompatibility st id = .ok st') :
    ∃ inc, st.store[id]? = some inc ∧
      ((∃ md, st' = { st with
          incompatibilities :=
            inc.terms.foldl (fun idx kv => State.updIndex idx kv.1 (fun ids => ids ++ [id])) st.incompatibilities,
          mergedDependencies := md }) ∨
       (∃ past pastInc merged md, st.store[past]? = some pastInc ∧
          inc.mergeDependents pastInc = .ok (some merged) ∧
          st' = { st with
            store := st.store ++ [merged],
            incompatibilities :=
              merged.terms.foldl (fun idx kv => State.updIndex idx kv.1 (fun ids => ids ++ [st.store.length]))
                (merged.terms.foldl (fun idx kv => State.updIndex idx kv.1 (fun ids => ids.filter (· ≠ past)))
                  st.incompatibilities),
            mergedDependencies := md })) := by
  unfold State.mergeIncompatibility at hr
  simp only [bind, Except.bind, pure, Except.pure, throw, throwThe, MonadExceptOf.throw] at hr
  split at hr
  · cases hr
  rename_i inc hinc
  split at hr
  · split at hr
    · cases hr
    rename_i inc2 hinc2
    injection hinc2 with hinc2; subst hinc2
    split at hr
    · cases hr
    injection hr with hr; subst hr
    exact ⟨inc, storeGet_ok hinc, Or.inl ⟨st.mergedDependencies, rfl⟩⟩
  · split at hr
    · cases hr
    rename_i o ho
    split at hr
    · rename_i past merged
      split at hr
      · cases hr
      rename_i inc2 hinc2
      have hinc2' := storeGet_ok hinc2
      rw [List.getElem?_append_right (Nat.le_refl _)] at hinc2'
      simp only [Nat.sub_self, List.getElem?_cons_zero] at hinc2'
      injection hinc2' with hinc2'; subst hinc2'
      split at hr
      · cases hr
      injection hr with hr; subst hr
      obtain ⟨pastInc, hpast, hm⟩ := State.findMerge_ok ho
      exact ⟨inc, storeGet_ok hinc, Or.inr ⟨past, pastInc, merged, _, hpast, hm, rfl⟩⟩
    · split at hr
      · cases hr
      rename_i inc2 hinc2
      injection hinc2 with hinc2; subst hinc2
      split at hr
      · cases hr
      injection hr with hr; subst hr
      exact ⟨inc, storeGet_ok hinc, Or.inl ⟨_, rfl⟩⟩

/-! ### the semantic bundle -/

/-- `mergeIncompatibility st id` keeps the bundle when no decided package owns `store[id]` -/
theorem State.mergeIncompatibility_sem (W : World P S V M) (root : P) (rv : V)
    {st st' : State P S V M Pr} {id : Nat} {waive : P → Nat → Prop}
    (hr : State.mergeIncompatibility st id = .ok st') (h : Sem W root rv st waive)
    (Hown : ∀ inc, st.store[id]? = some inc → ∀ p, inc.OwnedBy p →
      ∀ pa g v t, st.ps.getPA p = some pa → pa.inter ≠ .decision g v t) :
    Sem W root rv st' waive := by
  obtain ⟨inc, hinc, hcase⟩ := State.mergeIncompatibility_shape hr
  have hlt := (List.getElem?_eq_some_iff.1 hinc).1
  rcases hcase with ⟨md, rfl⟩ | ⟨past, pastInc, merged, md, hpast, hm, rfl⟩
  · apply Sem.indexChange W root rv h
    intro p i hi
    rw [mem_idxOf_foldl_append] at hi
    rcases hi with hi | ⟨rfl, _⟩
    · exact Or.inl hi
    · refine Or.inr ⟨hlt, ?_⟩
      intro inc' hinc' ho
      exact Hown inc' hinc' p ho
  · have ginc := h.sinv.store id inc hinc
    have gpast := h.sinv.store past pastInc hpast
    obtain ⟨p1, p2, s1, s2, t, hne, hka, hkb, rfl, vs1, vs2⟩ :=
      Incompat.mergeDependents_shape W root rv st.store id past inc pastInc ginc gpast merged hm
    have gm := Incompat.mergeDependents_good W root rv st.store id past inc pastInc ginc gpast _ hm
      st.store.length
    have h1 := Sem.storeAppend W root rv h [_] (storeInv_push W root rv st.store _ h.sinv.store gm)
    apply Sem.indexChange W root rv h1
    intro p i hi
    rw [mem_idxOf_foldl_append, mem_idxOf_foldl_filter] at hi
    rcases hi with ⟨hi, _⟩ | ⟨rfl, _⟩
    · exact Or.inl hi
    · refine Or.inr ⟨by simp, ?_⟩
      intro inc' hinc' ho pa g v t0 hpa
      simp only at hinc'
      rw [List.getElem?_append_right (Nat.le_refl _)] at hinc'
      simp only [Nat.sub_self, List.getElem?_cons_zero] at hinc'
      injection hinc' with hinc'; subst hinc'
      have hp : p1 = p := ho
      subst hp
      exact Hown inc hinc p1 (by unfold Incompat.OwnedBy; rw [hka]) pa g v t0 hpa

/-! ### index completeness -/

/-- an incompatibility is represented in the index -/
def State.Rep (st : State P S V M Pr) (id : Nat) (inc : Incompat P S V M) : Prop :=
  match inc.kind with
  | .fromDependencyOf p s q t =>
      ∃ id' ∈ st.indexOf p, ∃ inc' s', st.store[id']? = some inc' ∧
        inc'.kind = .fromDependencyOf p s' q t ∧ (∀ v : V, contains s v = true → contains s' v = true)
  | .noVersions p _ => id ∈ st.indexOf p
  | .custom p _ _ => id ∈ st.indexOf p
  | _ => True

theorem State.indexComplete_iff (st : State P S V M Pr) :
    st.IndexComplete ↔ ∀ id inc, st.store[id]? = some inc → st.Rep id inc := Iff.rfl

/-- index completeness outside the window `[lo, hi)` of ids that are stored but not merged yet -/
def State.ICx (st : State P S V M Pr) (lo hi : Nat) : Prop :=
  ∀ id inc, st.store[id]? = some inc → (id < lo ∨ hi ≤ id) → st.Rep id inc

theorem State.icx_of_indexComplete {st : State P S V M Pr} (h : st.IndexComplete) (lo hi : Nat) :
    st.ICx lo hi := fun id inc hi' _ => h id inc hi'

theorem State.indexComplete_of_icx {st : State P S V M Pr} {lo hi : Nat} (h : st.ICx lo hi)
    (hle : hi ≤ lo) : st.IndexComplete := by
  intro id inc hinc
  apply h id inc hinc
  omega

/-- representation survives growth of the store and of the index -/
theorem State.Rep.mono {st st' : State P S V M Pr} {id : Nat} {inc : Incompat P S V M}
    (h : st.Rep id inc)
    (hstore : ∀ (i : Nat) (x : Incompat P S V M), st.store[i]? = some x → st'.store[i]? = some x)
    (hidx : ∀ p i, i ∈ st.indexOf p → i ∈ st'.indexOf p) : st'.Rep id inc := by
  unfold State.Rep at h ⊢
  cases hk : inc.kind with
  | fromDependencyOf p s q t =>
    rw [hk] at h; simp only at h ⊢
    obtain ⟨id', hid', inc', s', e1, e2, e3⟩ := h
    exact ⟨id', hidx p id' hid', inc', s', hstore _ _ e1, e2, e3⟩
  | noVersions p s => rw [hk] at h; simp only at h ⊢; exact hidx p id h
  | custom p s m => rw [hk] at h; simp only at h ⊢; exact hidx p id h
  | notRoot p v => trivial
  | derivedFrom a b => trivial

theorem State.ICx.storePush {st : State P S V M Pr} {lo hi : Nat} (h : st.ICx lo hi)
    (inc : Incompat P S V M) (hk : ∃ a b, inc.kind = .derivedFrom a b) :
    State.ICx { st with store := st.store ++ [inc] } lo hi := by
  intro id x hx hw
  by_cases hlt : id < st.store.length
  · simp only at hx
    rw [List.getElem?_append_left hlt] at hx
    refine State.Rep.mono (h id x hx hw) ?_ (fun _ _ hi => hi)
    intro i y hy
    show (st.store ++ [inc])[i]? = some y
    rw [List.getElem?_append_left (List.getElem?_eq_some_iff.1 hy).1]; exact hy
  · simp only at hx
    rw [List.getElem?_append_right (by omega)] at hx
    have : id - st.store.length = 0 := by
      have := (List.getElem?_eq_some_iff.1 hx).1
      simp at this; omega
    rw [this] at hx
    simp only [List.getElem?_cons_zero, Option.some.injEq] at hx
    subst hx
    obtain ⟨a, b, hk⟩ := hk
    unfold State.Rep; rw [hk]; trivial

/-- `mergeIncompatibility st id`: what was represented stays represented, and `id` becomes represented -/
theorem State.mergeIncompatibility_icx (W : World P S V M) (root : P) (rv : V)
    {st st' : State P S V M Pr} {id : Nat} {lo hi : Nat}
    (hr : State.mergeIncompatibility st id = .ok st') (hs : StoreInv W root rv st.store)
    (h : st.ICx lo hi) (hhi : hi ≤ st.store.length) :
    st'.ICx lo hi ∧ (∀ inc, st.store[id]? = some inc → st'.Rep id inc) ∧
      (∀ (i : Nat) (x : Incompat P S V M), st.store[i]? = some x → st'.store[i]? = some x) := by
  obtain ⟨inc, hinc, hcase⟩ := State.mergeIncompatibility_shape hr
  have ginc := hs id inc hinc
  rcases hcase with ⟨md, rfl⟩ | ⟨past, pastInc, merged, md, hpast, hm, rfl⟩
  · have hidx : ∀ p i, i ∈ st.indexOf p →
        i ∈ State.indexOf ({ st with
          incompatibilities :=
            inc.terms.foldl (fun idx kv => State.updIndex idx kv.1 (fun ids => ids ++ [id])) st.incompatibilities,
          mergedDependencies := md } : State P S V M Pr) p := by
      intro p i hi
      rw [State.indexOf_eq, mem_idxOf_foldl_append]
      exact Or.inl hi
    refine ⟨fun i x hx hw => State.Rep.mono (h i x hx hw) (fun _ _ hy => hy) hidx, ?_, fun _ _ hy => hy⟩
    intro inc' hinc'
    rw [hinc] at hinc'; injection hinc' with hinc'; subst hinc'
    have hself : ∀ p, inc.OwnedBy p →
        id ∈ State.indexOf ({ st with
          incompatibilities :=
            inc.terms.foldl (fun idx kv => State.updIndex idx kv.1 (fun ids => ids ++ [id])) st.incompatibilities,
          mergedDependencies := md } : State P S V M Pr) p := by
      intro p ho
      rw [State.indexOf_eq, mem_idxOf_foldl_append]
      exact Or.inr ⟨rfl, Incompat.owner_key W root rv ginc ho⟩
    unfold State.Rep
    cases hk : inc.kind with
    | fromDependencyOf p s q t =>
      simp only
      exact ⟨id, hself p (by unfold Incompat.OwnedBy; rw [hk]), inc, s, hinc, hk, fun _ hv => hv⟩
    | noVersions p s => simp only; exact hself p (by unfold Incompat.OwnedBy; rw [hk])
    | custom p s m => simp only; exact hself p (by unfold Incompat.OwnedBy; rw [hk])
    | notRoot p v => trivial
    | derivedFrom a b => trivial
  · have gpast := hs past pastInc hpast
    obtain ⟨p1, p2, s1, s2, t, hne, hka, hkb, rfl, vs1, vs2⟩ :=
      Incompat.mergeDependents_shape W root rv st.store id past inc pastInc ginc gpast merged hm
    -- abbreviations
    have hstore : ∀ (i : Nat) (x : Incompat P S V M), st.store[i]? = some x →
        (st.store ++ [Incompat.fromDependency (M := M) p1 (union s1 s2) (p2, t)])[i]? = some x := by
      intro i x hx
      rw [List.getElem?_append_left (List.getElem?_eq_some_iff.1 hx).1]; exact hx
    have hnewget : (st.store ++ [Incompat.fromDependency (M := M) p1 (union s1 s2) (p2, t)])[st.store.length]? =
        some (Incompat.fromDependency (M := M) p1 (union s1 s2) (p2, t)) := by
      rw [List.getElem?_append_right (Nat.le_refl _)]; simp
    -- the merged incompatibility represents every dependency (p1 …→ p2 t) with dependents inside s1 ∪ s2
    have hrepnew : ∀ s : S, (∀ v : V, contains s v = true → contains (union s1 s2) v = true) →
        ∃ id' ∈ idxOf
            ((Incompat.fromDependency (M := M) p1 (union s1 s2) (p2, t) : Incompat P S V M).terms.foldl
              (fun idx kv => State.updIndex idx kv.1 (fun ids => ids ++ [st.store.length]))
              ((Incompat.fromDependency (M := M) p1 (union s1 s2) (p2, t) : Incompat P S V M).terms.foldl
                (fun idx kv => State.updIndex idx kv.1 (fun ids => ids.filter (· ≠ past)))
                st.incompatibilities)) p1,
          ∃ inc' s', (st.store ++ [Incompat.fromDependency (M := M) p1 (union s1 s2) (p2, t)])[id']? = some inc' ∧
            inc'.kind = .fromDependencyOf p1 s' p2 t ∧ (∀ v : V, contains s v = true → contains s' v = true) := by
      intro s hsub
      refine ⟨st.store.length, ?_, _, union s1 s2, hnewget, rfl, hsub⟩
      rw [mem_idxOf_foldl_append]
      exact Or.inr ⟨rfl, Incompat.fromDependency_key p1 _ _⟩
    refine ⟨?_, ?_, hstore⟩
    · intro i x hx hw
      by_cases hlt : i < st.store.length
      · simp only at hx
        rw [List.getElem?_append_left hlt] at hx
        have hold := h i x hx hw
        unfold State.Rep at hold ⊢
        cases hk : x.kind with
        | fromDependencyOf p s q t' =>
          rw [hk] at hold; simp only at hold ⊢
          obtain ⟨id', hid', inc', s', e1, e2, e3⟩ := hold
          by_cases hsurv : p ∈ (Incompat.fromDependency (M := M) p1 (union s1 s2) (p2, t) : Incompat P S V M).terms.map Prod.fst ∧ id' = past
          · obtain ⟨_, rfl⟩ := hsurv
            rw [hpast] at e1; injection e1 with e1; subst e1
            rw [hkb] at e2
            injection e2 with e2a e2b e2c e2d
            subst e2a; subst e2b; subst e2c; subst e2d
            apply hrepnew
            intro v hv
            rw [LawfulVersionSet.contains_union _ _ _ vs1 vs2, e3 v hv, Bool.or_true]
          · refine ⟨id', ?_, inc', s', hstore _ _ e1, e2, e3⟩
            rw [State.indexOf_eq]
            simp only
            rw [mem_idxOf_foldl_append, mem_idxOf_foldl_filter]
            refine Or.inl ⟨hid', ?_⟩
            intro hp hpast'
            exact hsurv ⟨hp, hpast'⟩
        | noVersions p s =>
          rw [hk] at hold; simp only at hold ⊢
          rw [State.indexOf_eq]
          simp only
          rw [mem_idxOf_foldl_append, mem_idxOf_foldl_filter]
          refine Or.inl ⟨hold, ?_⟩
          intro _ hpast'
          subst hpast'
          rw [hpast] at hx; injection hx with hx; subst hx
          rw [hkb] at hk; cases hk
        | custom p s m =>
          rw [hk] at hold; simp only at hold ⊢
          rw [State.indexOf_eq]
          simp only
          rw [mem_idxOf_foldl_append, mem_idxOf_foldl_filter]
          refine Or.inl ⟨hold, ?_⟩
          intro _ hpast'
          subst hpast'
          rw [hpast] at hx; injection hx with hx; subst hx
          rw [hkb] at hk; cases hk
        | notRoot p v => trivial
        | derivedFrom a b => trivial
      · simp only at hx
        rw [List.getElem?_append_right (by omega)] at hx
        have : i - st.store.length = 0 := by
          have := (List.getElem?_eq_some_iff.1 hx).1
          simp at this; omega
        rw [this] at hx
        simp only [List.getElem?_cons_zero, Option.some.injEq] at hx
        subst hx
        unfold State.Rep
        simp only [Incompat.fromDependency]
        exact hrepnew _ (fun _ hv => hv)
    · intro inc' hinc'
      rw [hinc] at hinc'; injection hinc' with hinc'; subst hinc'
      unfold State.Rep
      rw [hka]
      simp only
      apply hrepnew
      intro v hv
      rw [LawfulVersionSet.contains_union _ _ _ vs1 vs2, hv, Bool.true_or]

end Lawful
end Pubgrub

/-
TARGET FILE: PubgrubProofs/OwnInvariant.lean
Property C01: a returned solution satisfies every dependency of every selected version.

* `solution_valid` is proved exactly as stated in the skeleton (no extra hypothesis).
* The skeleton's intermediate `stable_invariants` (`State.OwnInv` / `State.CacheSound`, phrased with
  `relation … = .contradicted _`) is FALSE for an abstract `LawfulVersionSet`: see
  `Cex.stable_invariants_counterexample` in `PubgrubProofs/OwnInvariantCex.lean` (a lawful set type
  with non-canonical equality; `relation_with` answers `Satisfied` for a member-free term before it
  looks at disjointness, so `.contradicted` is not stable under shrinking of the terms).
  It is replaced by `stable_invariants_sem`: the same three invariants with the semantic notion
  `Incompat.SContra` ("some term of the clause is disjoint, as a set of choices, from the term the
  partial solution holds for its package") — `State.OwnInvSem`, `State.CacheSoundSem`
  (`OwnInvariantAux1.lean`), `State.IndexComplete`.

Structure of the proof (files `OwnInvariantAux1` … `Aux9`):
  1 semantic notions and their monotonicity; the term of a package at a lower level (`termsAt`);
  2 `termsAt` under `addDerivation` / `addDecision` / `backtrack`;
  3 the bundle `Sem` (store invariant, I-PS, Inv-Own with waived obligations, cache, root clause, index
    bound), a generic transport lemma, cache insertion and derivation;
  4 backtrack, decision, growth of store and index; owned clauses of decided packages are never
    `Inconclusive`;
  5 `mergeIncompatibility`: bundle and index completeness (with a window of unmerged ids);
  6 `propagateIncompats`, `conflictResolution`, `unitPropagationLoop`: the clauses of the package for
    which `unitPropagation` is called are examined first, which discharges the waived obligations;
  7 `addIncompatibility`, `addIncompatibilityFromDependencies`;
  8 the first propagation; the run-level invariant `JInv`;
  9 `Solver.step` preserves `JInv`.
-/
import PubgrubProofs.OwnDefs
import PubgrubProofs.PSInvariant
import PubgrubProofs.OwnInvariantAux9
import PubgrubProofs.OwnInvariantCex

set_option linter.unusedSectionVars false
set_option linter.unusedVariables false

namespace Pubgrub
open VersionSet

variable {P S V M Pr E : Type} [DecidableEq P] [VersionSet S V] [DecidableEq S] [DecidableEq V]
  [LE Pr] [DecidableLE Pr] [LawfulVersionSet S V]

/-- the run-level invariant holds in every reachable state -/
theorem reachable_jinv (W : World P S V M) (hW : W.SetsValid) (debug : Bool) (fuel : Nat)
    (root : P) (rv : V) (x : SolverState P S V M Pr × Request P S V M Pr E)
    (h : Reachable W debug fuel root rv x) : JInv W debug fuel root rv x := by
  induction h with
  | start => exact Or.inl rfl
  | step hreach ha ih =>
    exact jinv_step W hW debug fuel root rv _ _ _ (reachable_rinv W hW debug fuel root rv _ hreach)
      (reachable_rinv' W hW debug fuel root rv _ hreach) ih ha

/-- at a stable point (a `pick` or a returned solution) the whole bundle holds without waiver -/
theorem stable_jmain (W : World P S V M) (hW : W.SetsValid) (debug : Bool) (fuel : Nat)
    (root : P) (rv : V) (s : SolverState P S V M Pr) (req : Request P S V M Pr E)
    (h : Reachable W debug fuel root rv (s, req))
    (hstable : (∃ q, req = .pick q) ∨ (∃ sel, req = .solution sel)) :
    JMain W root rv s ∧ s.phase ≠ .cancel := by
  have hc := reachable_coherent W debug fuel root rv _ h
  have hnc : s.phase ≠ .cancel := by
    intro hph
    unfold Solver.Coherent at hc
    simp only [hph] at hc
    rcases hstable with ⟨q, rfl⟩ | ⟨sel, rfl⟩ <;> cases hc
  refine ⟨?_, hnc⟩
  rcases reachable_jinv W hW debug fuel root rv _ h with hj | ⟨hph, hns⟩ | hj
  · exfalso
    rcases hstable with ⟨q, rfl⟩ | ⟨sel, rfl⟩ <;> simp [Solver.start] at hj
  · exfalso
    rcases hstable with ⟨q, rfl⟩ | ⟨sel, rfl⟩
    · unfold Solver.Coherent at hc
      simp only at hph
      simp only [hph] at hc
      cases hc
    · exact hns sel rfl
  · exact hj

/-- the level-indexed form of Inv-Own gives the form phrased with `backtrack` -/
theorem State.ownInvSem_of_ownSemG {st : State P S V M Pr} (hw : st.ps.WF') (h : st.OwnSemG noWaive) :
    st.OwnInvSem := by
  intro i p pa hi hlt l hl1 hl2 psl hb id hid inc hinc ho
  obtain ⟨g, v, e1, e2, _⟩ := (hw.wf.entries i p pa hi).decided hlt
  rw [PartialSolution.terms_backtrack hw hl2 hb]
  exact h p pa g v _ (PartialSolution.getPA_of_getElem hw.wf hi) e1 l (by omega) hl2 id hid inc hinc ho
    (fun _ hf => hf)

theorem State.cacheSoundSem_of_cacheSem {st : State P S V M Pr} (hp : PInv st) (h : st.CacheSem) :
    st.CacheSoundSem := by
  intro id l hm
  obtain ⟨hl, hc⟩ := h id l hm
  refine ⟨hl, hp.cache _ hm, ?_⟩
  intro psl hb inc hinc
  rw [PartialSolution.terms_backtrack hp.wf hl hb]
  exact hc inc hinc l (Nat.le_refl _) hl

/-- the semantic counterpart of the skeleton's `stable_invariants`: whenever the solver is about to
pop the queue or has just returned a solution, Inv-Own, cache soundness (both with "excluded" =
`Incompat.SContra` in place of `relation … = .contradicted _`) and index completeness hold -/
theorem stable_invariants_sem (W : World P S V M) (hW : W.SetsValid) (debug : Bool) (fuel : Nat)
    (root : P) (rv : V) (s : SolverState P S V M Pr) (req : Request P S V M Pr E)
    (h : Reachable W debug fuel root rv (s, req))
    (hstable : (∃ q, req = .pick q) ∨ (∃ sel, req = .solution sel)) :
    s.st.OwnInvSem ∧ s.st.CacheSoundSem ∧ s.st.IndexComplete := by
  obtain ⟨hj, hnc⟩ := stable_jmain W hW debug fuel root rv s req h hstable
  have hsem := Sem.reWaive W root rv hj.sem (waive' := noWaive) (fun _ _ _ hw => absurd hw.1 hnc)
  exact ⟨State.ownInvSem_of_ownSemG hsem.pinv.wf hsem.own,
    State.cacheSoundSem_of_cacheSem hsem.pinv hsem.cache, hj.ic⟩

theorem reachable_of_wb (W : World P S V M) (debug : Bool) (fuel : Nat)
    (root : P) (rv : V) (x : SolverState P S V M Pr × Request P S V M Pr E)
    (h : ReachableWB W debug fuel root rv x) : Reachable W debug fuel root rv x := by
  induction h with
  | start => exact .start
  | step _ ha _ ih => exact .step ih ha

/-- a positive-only term (false when nothing is selected) held by the partial solution at an exit
belongs to a decided package -/
theorem PartialSolution.decided_of_eval_none {ps : PartialSolution P S V Pr} (hw : ps.WF)
    (hno : ∀ p pa set, ps.getPA p = some pa → pa.inter ≠ .derivations (.pos set))
    {q : P} {o : Term S} (ho : ps.terms q = some o) (hn : o.eval (none : Option V) ≠ true) :
    ∃ qa g w t, ps.getPA q = some qa ∧ qa.inter = .decision g w t ∧ o = Term.exact w := by
  simp only [PartialSolution.terms, PartialSolution.termIntersectionForPackage, Option.map_eq_some_iff] at ho
  obtain ⟨qa, hqa, hterm⟩ := ho
  cases hi : qa.inter with
  | decision g w t =>
    refine ⟨qa, g, w, t, hqa, hi, ?_⟩
    rw [hi] at hterm
    simp only [AssignInter.term] at hterm
    rw [← hterm]
    exact (PartialSolution.terms_of_decided hw hqa hi).2
  | derivations t =>
    exfalso
    rw [hi] at hterm
    simp only [AssignInter.term] at hterm
    subst hterm
    cases t with
    | pos u => exact hno q qa u hqa hi
    | neg u => exact hn (by simp [Term.eval])

/-- C01: whenever `resolve` returns `Ok(solution)` (well-behaved provider: no callback errors,
`choose_version` answers inside the set it was given, answers consistent with the world), the
solution contains the root at the requested version, every selected (package, version) was offered by
the provider, was returned by `choose_version` in this run (`s.added`) and has available dependencies,
and every dependency (q, set) of every selected version — a dependency on the package itself
included — has q selected at a version contained in set -/
theorem solution_valid (W : World P S V M) (hW : W.SetsValid) (debug : Bool) (fuel : Nat)
    (root : P) (rv : V) (s : SolverState P S V M Pr) (sel : List (P × V))
    (h : ReachableWB (E := E) W debug fuel root rv (s, .solution sel)) :
    IsSolution W root rv (fun p => SmallMap.get sel p) ∧
      (∀ p v, SmallMap.get sel p = some v → (p, v) ∈ s.added) := by
  have hreach := reachable_of_wb W debug fuel root rv _ h
  obtain ⟨hw, hno, hsel⟩ := solution_exit W hW debug fuel root rv s sel hreach
  obtain ⟨hj, hnc⟩ := stable_jmain W hW debug fuel root rv s _ hreach (Or.inr ⟨sel, rfl⟩)
  have hsem := Sem.reWaive W root rv hj.sem (waive' := noWaive) (fun _ _ _ hw => absurd hw.1 hnc)
  have hnf : ∀ p v, s.phase ≠ .fetching p v := by
    intro p v hph
    have hc := reachable_coherent W debug fuel root rv _ hreach
    unfold Solver.Coherent at hc
    simp only [hph] at hc
    cases hc
  have htop := PartialSolution.termsAt_top hw (Nat.le_refl _)
  -- `get sel` is exactly "decided at"
  have hget : ∀ p v, SmallMap.get sel p = some v ↔
      ∃ pa g t, s.st.ps.getPA p = some pa ∧ pa.inter = .decision g v t := by
    intro p v
    constructor
    · intro hg; exact (hsel p v).1 (SmallMap.mem_of_get hg)
    · intro hd
      have hm := (hsel p v).2 hd
      cases hg : SmallMap.get sel p with
      | none => exact absurd hm ((SmallMap.get_eq_none_iff sel p).1 hg v)
      | some v' =>
        obtain ⟨pa', g', t', e1, e2⟩ := (hsel p v').1 (SmallMap.mem_of_get hg)
        obtain ⟨pa, g, t, e3, e4⟩ := hd
        rw [e1] at e3; injection e3 with e3; subst e3
        rw [e2] at e4; injection e4 with _ e4 _
        rw [e4]
  -- the owned clauses of a decided package are excluded by the final terms
  have hown : ∀ p pa g v t, s.st.ps.getPA p = some pa → pa.inter = .decision g v t →
      ∀ id ∈ s.st.indexOf p, ∀ inc : Incompat P S V M, s.st.store[id]? = some inc → inc.OwnedBy p →
        inc.SContra s.st.ps.terms := by
    intro p pa g v t e1 e2 id hid inc hinc ho
    have := hsem.own p pa g v t e1 e2 _ (PartialSolution.highest_le hw e1) (Nat.le_refl _) id hid inc hinc ho
      (fun _ hf => hf)
    rw [htop] at this; exact this
  refine ⟨⟨?_, ?_, ?_⟩, ?_⟩
  · -- the root
    have hr := hsem.rootc.2 _ (Nat.le_refl _)
    rw [htop] at hr
    obtain ⟨q, t, o, hm, hf, hd⟩ := hr
    simp only [Incompat.notRoot, List.mem_singleton, Prod.mk.injEq] at hm
    obtain ⟨rfl, rfl⟩ := hm
    have hn : o.eval (none : Option V) ≠ true := by
      intro hn; exact hd none ⟨by simp [Term.eval], hn⟩
    obtain ⟨qa, g, w, t, hqa, hi, rfl⟩ := PartialSolution.decided_of_eval_none hw hno hf hn
    have hd' := hd (some w)
    rw [(Term.eval_exact w (some w)).2 rfl] at hd'
    have hcw : contains (singleton rv : S) w = true := by
      cases hc : contains (singleton rv : S) w with
      | true => rfl
      | false => exact absurd ⟨by simp [Term.eval, hc], rfl⟩ hd'
    have : w = rv := (LawfulVersionSet.contains_singleton rv w).1 hcw
    subst this
    exact (hget q w).2 ⟨qa, g, t, hqa, hi⟩
  · -- offered
    intro p v hg
    obtain ⟨pa, g, t, e1, e2⟩ := (hget p v).1 hg
    exact hj.offered p v (hj.dec p pa g v t e1 e2)
  · -- dependencies
    intro p v hg
    obtain ⟨pa, g, t, e1, e2⟩ := (hget p v).1 hg
    have hpterm := (PartialSolution.terms_of_decided hw e1 e2).1
    have hadd := hj.dec p pa g v t e1 e2
    have hdd := hj.deps p v hadd (hnf p v)
    unfold DepsDone at hdd
    cases hdep : W.deps p v with
    | unavailable m =>
      exfalso
      rw [hdep] at hdd; simp only at hdd
      obtain ⟨id, inc, hinc, hk⟩ := hdd
      have hrep := hj.ic id inc hinc
      rw [hk] at hrep; simp only at hrep
      have hc := hown p pa g v t e1 e2 id hrep inc hinc (by unfold Incompat.OwnedBy; rw [hk])
      have kt := (hsem.sinv.store id inc hinc).kind
      unfold Incompat.KindTrue at kt
      rw [hk] at kt; simp only at kt
      obtain ⟨v', _, _, hterms⟩ := kt
      obtain ⟨q, tq, o, hm, hf, hd⟩ := hc
      rw [hterms] at hm
      simp only [List.mem_singleton, Prod.mk.injEq] at hm
      obtain ⟨rfl, rfl⟩ := hm
      rw [hpterm] at hf; injection hf with hf; subst hf
      apply hd (some v)
      refine ⟨?_, (Term.eval_exact v (some v)).2 rfl⟩
      simp only [Term.eval]
      exact (LawfulVersionSet.contains_singleton v v).2 rfl
    | available ds =>
      rw [hdep] at hdd; simp only at hdd
      refine ⟨ds, rfl, ?_⟩
      intro q tset hqd
      obtain ⟨id, inc, hinc, hk⟩ := hdd (q, tset) hqd
      simp only at hk
      have hrep := hj.ic id inc hinc
      rw [hk] at hrep; simp only at hrep
      obtain ⟨id', hid', inc', s', hinc', hk', hsub⟩ := hrep
      have hc := hown p pa g v t e1 e2 id' hid' inc' hinc' (by unfold Incompat.OwnedBy; rw [hk'])
      have kt := (hsem.sinv.store id' inc' hinc').kind
      unfold Incompat.KindTrue at kt
      rw [hk'] at kt; simp only at kt
      obtain ⟨_, vs', vt, hterms⟩ := kt
      have hvs' : contains s' v = true := hsub v ((LawfulVersionSet.contains_singleton v v).2 rfl)
      obtain ⟨q', tq, o, hm, hf, hd⟩ := hc
      rw [hterms] at hm
      unfold Incompat.fromDependency at hm
      simp only at hm
      -- the term on `p` itself cannot be the excluded one unless the dependency is on `p`
      have hpcase : ∀ u : S, contains u v = true → ¬ (Term.pos u).Disj (Term.exact v : Term S) := by
        intro u hu hdj
        exact hdj (some v) ⟨by simp [Term.eval, hu], (Term.eval_exact v (some v)).2 rfl⟩
      split at hm
      · -- self-dependency
        rename_i hqp
        subst hqp
        simp only [List.mem_singleton, Prod.mk.injEq] at hm
        obtain ⟨rfl, rfl⟩ := hm
        rw [hpterm] at hf; injection hf with hf; subst hf
        refine ⟨v, hg, ?_⟩
        cases hct : contains tset v with
        | true => rfl
        | false =>
          exfalso
          apply hpcase _ _ hd
          rw [LawfulVersionSet.contains_intersection _ _ _ vs' (LawfulVersionSet.valid_complement _ vt),
            LawfulVersionSet.contains_complement _ _ vt, hvs', hct]
          rfl
      · rename_i hqp
        split at hm
        · -- dependency on the empty set: impossible for a decided dependent
          exfalso
          simp only [List.mem_singleton, Prod.mk.injEq] at hm
          obtain ⟨rfl, rfl⟩ := hm
          rw [hpterm] at hf; injection hf with hf; subst hf
          exact hpcase _ hvs' hd
        · simp only [List.mem_cons, Prod.mk.injEq, List.not_mem_nil, or_false] at hm
          rcases hm with ⟨rfl, rfl⟩ | ⟨rfl, rfl⟩
          · exfalso
            rw [hpterm] at hf; injection hf with hf; subst hf
            exact hpcase _ hvs' hd
          · have hn : o.eval (none : Option V) ≠ true := by
              intro hn; exact hd none ⟨by simp [Term.eval], hn⟩
            obtain ⟨qa, g', w, t', hqa, hi, rfl⟩ := PartialSolution.decided_of_eval_none hw hno hf hn
            refine ⟨w, (hget q' w).2 ⟨qa, g', t', hqa, hi⟩, ?_⟩
            have hd' := hd (some w)
            rw [(Term.eval_exact w (some w)).2 rfl] at hd'
            cases hc : contains tset w with
            | true => rfl
            | false => exact absurd ⟨by simp [Term.eval, hc], rfl⟩ hd'
  · intro p v hg
    obtain ⟨pa, g, t, e1, e2⟩ := (hget p v).1 hg
    exact hj.dec p pa g v t e1 e2

end Pubgrub

//! Dispatch of one request line to the real implementation (+ direct oracle).
use crate::cases::Case;
use std::cell::RefCell;

thread_local! {
    /// the request line being evaluated (what the watchdog reports if the real code does not return)
    pub static CURRENT_LINE: RefCell<String> = RefCell::new(String::new());
    /// the property whose oracle verdicts are reported (a solve request evaluates the oracles of all solver properties)
    pub static CURRENT_PROP: RefCell<String> = RefCell::new(String::new());
}


/// evaluate one request; a panic of the implementation is an answer (`panic:<message>`) and, for
/// every request kind of this harness, a failure of the direct oracle.
pub fn eval_line(req: &str) -> Case {
    CURRENT_LINE.with(|l| *l.borrow_mut() = req.to_string());
    let r = std::panic::catch_unwind(|| eval_inner(req));
    match r {
        Ok(c) => c,
        Err(e) => {
            let msg = if let Some(s) = e.downcast_ref::<String>() {
                s.clone()
            } else if let Some(s) = e.downcast_ref::<&str>() {
                s.to_string()
            } else {
                "?".to_string()
            };
            let msg = msg.replace('\n', " ");
            Case {
                req: req.to_string(),
                imp: format!("panic:{}", msg),
                nontrivial: true,
                oracle_fail: Some(format!("the implementation panicked: {}", msg)),
                tags: vec!["panic"],
            }
        }
    }
}

fn eval_inner(req: &str) -> Case {
    let f: Vec<&str> = req.split('|').collect();
    match f[0] {
        "rbin" => crate::pure::eval_rbin(req, f[1], f[2]),
        "run" => crate::pure::eval_run(req, f[1]),
        "rvs" => crate::pure::eval_rvs(req, f[1], f[2]),
        "rfrb" => crate::pure::eval_rfrb(req, f[1], f[2]),
        "rcon" => crate::pure::eval_rcon(req, f[1], f[2].parse().unwrap(), f[3].parse().unwrap()),
        "rcmp3" => crate::pure::eval_rcmp3(req, f[1], f[2], f[3]),
        "term2" => crate::pure::eval_term2(req, f[1], f[2]),
        "bset2" => crate::vset::eval_bset2(req, f[1].parse().unwrap(), f[2].parse().unwrap()),
        "dag" => crate::dag::eval_dag(req, f[1], f[2].parse().unwrap()),
        "scale" => crate::scale::eval_scale(req, f[1], f[2].parse().unwrap()),
        "svx" => crate::containers::eval_svx(req, f[1]),
        "smx" => crate::containers::eval_smx(req, &req["smx|".len()..]),
        "sv1" => crate::misc::eval_sv1(req, f[1].parse().unwrap(), f[2].parse().unwrap(), f[3].parse().unwrap()),
        "svcmp" => crate::misc::eval_svcmp(req, f[1], f[2]),
        "svparse" => crate::misc::eval_svparse(req, &req["svparse|".len()..]),
        "offline" => crate::misc::eval_offline(req, f[1], f[2]),
        "serde_range" => crate::misc::eval_serde_range(req, f[1]),
        "serde_legacy" => crate::misc::eval_serde_legacy(req, f[1], f[2], f[3]),
        "serde_semver" => crate::misc::eval_serde_semver(req, f[1].parse().unwrap(), f[2].parse().unwrap(), f[3].parse().unwrap()),
        "serde_provider" => crate::misc::eval_serde_provider(req, f[1], f[2], f[3].parse().unwrap()),
        "weak" => crate::misc::eval_weak(req, f[1], f[2].parse().unwrap(), f[3] == "1"),
        "soak" => crate::misc::eval_soak(req, f[1].parse().unwrap(), f[2], f[3].parse().unwrap()),
        "det" => crate::misc::eval_det(req, f[1], f[2], f[3].parse().unwrap(), f[4]),
        "report" => crate::report::eval_report(f[1], f[2]),
        "collapse" => crate::report::eval_collapse(f[1], f[2], f[3], f[4].parse().unwrap()),
        "solve" => {
            let prop = CURRENT_PROP.with(|p| p.borrow().clone());
            if f[1] == "blur" {
                let r = crate::solver::parse_req::<crate::hset::BlurSet8>(&f);
                crate::solver::eval_to_case(crate::solver::eval_solve(&r), &prop)
            } else if f[1] == "bits2" {
                let r = crate::solver::parse_req::<crate::hset::BitSet2>(&f);
                crate::solver::eval_to_case(crate::solver::eval_solve(&r), &prop)
            } else if f[1] == "bits" {
                let r = crate::solver::parse_req::<crate::hset::BitSet8>(&f);
                crate::solver::eval_to_case(crate::solver::eval_solve(&r), &prop)
            } else {
                let r = crate::solver::parse_req::<pubgrub::Range<u32>>(&f);
                crate::solver::eval_to_case(crate::solver::eval_solve(&r), &prop)
            }
        }
        other => panic!("unknown request kind {}", other),
    }
}

/-
Property C18 — OfflineDependencyProvider: last-write-wins store, newest version first.

Theorems about the model `PubgrubModel/Offline.lean`, for every sequence of `add_dependencies`
calls (`Offline.run ops`), refined to the abstract map "the last call for (p, v) wins".
`versions(p)` is strictly ascending and complete (`C18_versions_ascending`: the model keeps the per-package
map sorted, as the real `BTreeMap` does), `packages()` is a hash-map iteration (compared as a set).
-/
import PubgrubProofs.OfflineLaws
import PubgrubProofs.ProviderLaws

set_option linter.unusedSectionVars false
set_option warn.classDefReducibility false
namespace Pubgrub.C18
open Pubgrub Pubgrub.Offline

variable {P S V : Type} [DecidableEq P] [DecidableEq V]

/-- get_dependencies returns exactly the dependencies of the last call for (p, v) (duplicate entries
collapsed last-wins), and Unavailable (`none`) for pairs never added -/
theorem C18_getDependencies (ops : List (AddOp P S V)) (p : P) (v : V) :
    getDependencies (run ops) p v =
      (ops.reverse.find? (fun op => op.p = p ∧ op.v = v)).map (fun op => collectDeps op.deps) :=
  getDependencies_run ops p v

theorem C18_collectDeps (deps : List (P × S)) (q : P) :
    SmallMap.get (collectDeps deps) q = (deps.reverse.find? (fun d => d.1 = q)).map (·.2) :=
  collectDeps_spec deps q

/-- packages() and versions(p) enumerate exactly what was added, without repetition -/
theorem C18_enumeration (ops : List (AddOp P S V)) (p : P) (v : V) :
    (v ∈ versionsOf (run ops) p ↔ ∃ op ∈ ops, op.p = p ∧ op.v = v) ∧ (versionsOf (run ops) p).Nodup ∧
    (p ∈ packages (run ops) ↔ ∃ op ∈ ops, op.p = p) ∧ (packages (run ops)).Nodup :=
  ⟨mem_versionsOf_run ops p v, versionsOf_nodup ops p, mem_packages_run ops p, packages_nodup ops⟩

/-- choose_version returns the greatest added version of p inside the set, None if there is none -/
theorem C18_chooseVersion {V : Type} [LinearOrder V] [VersionSet S V] (ops : List (AddOp P S V))
    (p : P) (s : S) (v : V) :
    (chooseVersion (run ops) p s = some v ↔
      ((∃ op ∈ ops, op.p = p ∧ op.v = v) ∧ VersionSet.contains s v = true ∧
        ∀ op ∈ ops, op.p = p → VersionSet.contains s op.v = true → op.v ≤ v)) ∧
    (chooseVersion (run ops) p s = none ↔ ∀ op ∈ ops, op.p = p → VersionSet.contains s op.v = false) :=
  ⟨chooseVersion_run ops p s v, chooseVersion_run_none ops p s⟩

/-- prioritize ranks a package with fewer matching versions strictly higher (`Reverse(count)`) -/
theorem C18_prioritize [VersionSet S V] (o : Offline P S V) (p1 p2 : P) (s1 s2 : S)
    (h : matchingCount o p1 s1 < matchingCount o p2 s2) :
    cmpReverse (matchingCount o p1 s1) (matchingCount o p2 s2) = .gt ∧
    matchingCount o p1 s1 = ((versionsOf o p1).filter (fun v => VersionSet.contains s1 v)).length :=
  ⟨prioritize_run o p1 p2 s1 s2 h, matchingCount_spec o p1 s1⟩

/-- versions(p), modelled as the ascending sort of the added versions (the real store is a `BTreeMap`),
is strictly ascending, enumerates exactly what was added, and `choose_version` is literally
`keys().rev().find(contains)` over it -/
theorem C18_versions_ascending {V : Type} [LinearOrder V] [VersionSet S V]
    (ops : List (AddOp P S V)) (p : P) (v : V) (s : S) :
    (sortedVersions (run ops) p).Pairwise (· < ·) ∧
    (v ∈ sortedVersions (run ops) p ↔ ∃ op ∈ ops, op.p = p ∧ op.v = v) ∧
    chooseVersion (run ops) p s = (sortedVersions (run ops) p).reverse.find? (fun v => VersionSet.contains s v) :=
  ⟨sortedVersions_sorted ops p, mem_sortedVersions ops p v, chooseVersion_eq_find_rev ops p s⟩

end Pubgrub.C18

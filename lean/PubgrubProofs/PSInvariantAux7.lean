/-
Helpers for `PSInvariant.lean`, part 7: the package in flight is settled by the next propagation
when a triggering incompatibility is indexed under it.
-/
import PubgrubProofs.PSInvariantAux6

set_option linter.unusedSectionVars false
set_option linter.unusedVariables false

namespace Pubgrub
open VersionSet

theorem SmallMap.get_set_same_key {K T : Type} [DecidableEq K] {m : SmallMap K T} (hn : SmallMap.NoDupKeys m)
    {i : Nat} {k : K} {v v' : T} (h : m[i]? = some (k, v)) (k' : K) :
    SmallMap.get (m.set i (k, v')) k' = if k' = k then some v' else SmallMap.get m k' := by
  have hkeys := SmallMap.map_fst_set_same (v' := v') h
  have hn' : SmallMap.NoDupKeys (m.set i (k, v')) := by unfold SmallMap.NoDupKeys; rw [hkeys]; exact hn
  have hlt := (List.getElem?_eq_some_iff.1 h).1
  by_cases hk : k' = k
  · subst hk
    rw [if_pos rfl]
    exact SmallMap.get_of_getElem hn' (i := i) (by simp [hlt])
  · rw [if_neg hk]
    cases hg : SmallMap.get m k' with
    | none =>
      apply SmallMap.get_none_of_not_mem_keys
      rw [hkeys]
      exact SmallMap.not_mem_keys_of_get_none hg
    | some w =>
      obtain ⟨j, hj⟩ := List.getElem?_of_mem (SmallMap.mem_of_get hg)
      have hji : i ≠ j := by
        intro e; subst e; rw [h] at hj; injection hj with hj; injection hj with hj; exact hk hj.symm
      exact SmallMap.get_of_getElem hn' (i := j) (by simp [hji, hj])

section PS
variable {P S V M Pr : Type} [DecidableEq P] [VersionSet S V] [DecidableEq S]
  [LawfulVersionSet S V]

namespace PartialSolution

/-- `addDerivation q` does not touch the other packages -/
theorem addDerivation_getPA_ne {ps ps' : PartialSolution P S V Pr} {q : P} {cause : Nat}
    {store : List (Incompat P S V M)} (h : ps.WF)
    (hr : ps.addDerivation q cause store = .ok ps') {q' : P} (hne : q' ≠ q) :
    ps'.getPA q' = ps.getPA q' := by
  obtain ⟨inc, t, _, _, hcase⟩ := addDerivation_spec hr
  rcases hcase with ⟨idx, pa, t0, hidx, hpa, ht0, rfl⟩ | ⟨hpa, rfl⟩
  · have hget := getElem_of_indexOf_getPA hidx hpa
    show SmallMap.get (ps.assignments.set idx _) q' = _
    rw [SmallMap.get_set_same_key h.keys hget, if_neg hne]; rfl
  · show SmallMap.get (ps.assignments ++ _) q' = SmallMap.get ps.assignments q'
    cases hg : SmallMap.get ps.assignments q' with
    | some w => exact SmallMap.get_append_left hg
    | none =>
      rw [SmallMap.get_append_none hg]
      simp [SmallMap.get, hne]

/-- `addDerivation q` intersects the term of `q` with the negation of a stored term -/
theorem addDerivation_term_self {ps ps' : PartialSolution P S V Pr} {q : P} {cause : Nat}
    {store : List (Incompat P S V M)} (h : ps.WF)
    (hr : ps.addDerivation q cause store = .ok ps') {o : Term S}
    (ho : ps.termIntersectionForPackage q = some o) :
    ∃ inc t, store[cause]? = some inc ∧ inc.get q = some t ∧
      ps'.termIntersectionForPackage q = some (o.intersection t.negate) := by
  obtain ⟨inc, t, hinc, ht, hcase⟩ := addDerivation_spec hr
  refine ⟨inc, t, hinc, ht, ?_⟩
  simp only [termIntersectionForPackage, Option.map_eq_some_iff] at ho
  obtain ⟨pa0, hpa0, hterm⟩ := ho
  rcases hcase with ⟨idx, pa, t0, hidx, hpa, ht0, rfl⟩ | ⟨hpa, rfl⟩
  · rw [hpa] at hpa0; injection hpa0 with hpa0; subst hpa0
    rw [ht0] at hterm; simp only [AssignInter.term] at hterm; subst hterm
    have hget := getElem_of_indexOf_getPA hidx hpa
    simp only [termIntersectionForPackage, getPA]
    rw [SmallMap.get_set_same_key h.keys hget, if_pos rfl]
    rfl
  · rw [hpa] at hpa0; cases hpa0

end PartialSolution

theorem Term.relationWith_satisfied_iff_subset (t o : Term S) :
    t.relationWith o = .satisfied ↔ o.subsetOf t = true := by
  unfold Term.relationWith
  cases o.subsetOf t <;> cases t.isDisjoint o <;> simp

/-- `relation_with = satisfied` is monotone under shrinking of the other term -/
theorem Term.relationWith_satisfied_inter (t o x : Term S) (ht : t.Valid) (ho : o.Valid) (hx : x.Valid)
    (h : t.relationWith o = .satisfied) : t.relationWith (o.intersection x) = .satisfied := by
  rw [Term.relationWith_satisfied_iff_subset] at h ⊢
  have hv := Term.valid_intersection o x ho hx
  refine Term.subsetOf_trans _ o t hv ho ht ?_ h
  rw [Term.subsetOf_iff _ _ hv ho]
  intro c hc
  rw [Term.eval_intersection o x ho hx] at hc
  cases h1 : o.eval c
  · rw [h1] at hc; cases hc
  · rfl

/-- an incompatibility whose terms are all satisfied except possibly that of `p`, which is not
contradicted, is satisfied or almost satisfied by `p` -/
theorem Incompat.relationGo_trigger (terms : P → Option (Term S)) (p : P) :
    ∀ (l : List (P × Term S)) (rel : Relation P), SmallMap.NoDupKeys l →
      (∀ q t, (q, t) ∈ l → q ≠ p → ∃ o, terms q = some o ∧ t.relationWith o = .satisfied) →
      (∀ t, (p, t) ∈ l → ∃ cur, terms p = some cur ∧ t.relationWith cur ≠ .contradicted) →
      (rel = .satisfied →
        Incompat.relationGo terms rel l = .satisfied ∨ Incompat.relationGo terms rel l = .almostSatisfied p) ∧
      (rel = .almostSatisfied p → p ∉ l.map Prod.fst →
        Incompat.relationGo terms rel l = .almostSatisfied p) := by
  intro l
  induction l with
  | nil =>
    intro rel _ _ _
    exact ⟨fun h => Or.inl (by simp [Incompat.relationGo, h]), fun h _ => by simp [Incompat.relationGo, h]⟩
  | cons x rest ih =>
    intro rel hn hoth hp
    obtain ⟨q, t⟩ := x
    rw [SmallMap.nodup_cons] at hn
    have hoth' : ∀ q t, (q, t) ∈ rest → q ≠ p → ∃ o, terms q = some o ∧ t.relationWith o = .satisfied :=
      fun q t hm => hoth q t (List.mem_cons_of_mem _ hm)
    have hp' : ∀ t, (p, t) ∈ rest → ∃ cur, terms p = some cur ∧ t.relationWith cur ≠ .contradicted :=
      fun t hm => hp t (List.mem_cons_of_mem _ hm)
    have ih1 := ih rel hn.2 hoth' hp'
    by_cases hq : q = p
    · subst hq
      obtain ⟨cur, hcur, hrel⟩ := hp t List.mem_cons_self
      have hpn : q ∉ rest.map Prod.fst := by
        intro hm; rw [List.mem_map] at hm
        obtain ⟨⟨a, b⟩, hab, rfl⟩ := hm
        exact hn.1 b hab
      constructor
      · intro hrel0
        unfold Incompat.relationGo
        rw [hcur]
        simp only [Option.map_some]
        cases hr : t.relationWith cur with
        | satisfied => simp only; exact ih1.1 hrel0
        | contradicted => exact absurd hr hrel
        | inconclusive =>
          simp only [hrel0, if_true]
          exact Or.inr ((ih (.almostSatisfied q) hn.2 hoth' hp').2 rfl hpn)
      · intro _ hnot
        exact absurd (List.mem_cons_self) hnot
    · obtain ⟨o, ho, hrel⟩ := hoth q t List.mem_cons_self hq
      constructor
      · intro hrel0
        unfold Incompat.relationGo
        rw [ho]
        simp only [Option.map_some, hrel]
        exact ih1.1 hrel0
      · intro hrel0 hnot
        unfold Incompat.relationGo
        rw [ho]
        simp only [Option.map_some, hrel]
        exact ih1.2 hrel0 (fun hm => hnot (List.mem_cons_of_mem _ hm))

/-- the incompatibility `id` will, when examined by the propagation loop for `p`, be found
satisfied (a conflict) or almost satisfied by `p` -/
def Trigger (st : State P S V M Pr) (p : P) (id : Nat) : Prop :=
  SmallMap.get st.contradicted id = none ∧
  ∃ inc, st.store[id]? = some inc ∧
    (∀ q t, (q, t) ∈ inc.terms → q ≠ p →
      ∃ o, st.ps.termIntersectionForPackage q = some o ∧ t.relationWith o = .satisfied) ∧
    ∃ tp cur, inc.get p = some tp ∧ st.ps.termIntersectionForPackage p = some cur ∧
      tp.relationWith cur ≠ .contradicted

/-- the package is undecided with a positive term -/
def PartialSolution.InflightPos (ps : PartialSolution P S V Pr) (p : P) : Prop :=
  ∃ pa s, ps.getPA p = some pa ∧ pa.inter = .derivations (.pos s)

/-- the package in flight will be settled by the next propagation -/
def Pending (st : State P S V M Pr) (p : P) : Prop :=
  st.ps.POK p ∨ (st.ps.InflightPos p ∧ ∃ ids, SmallMap.get st.incompatibilities p = some ids ∧
    ∃ id ∈ ids, Trigger st p id)

theorem Trigger.relation (W : World P S V M) (root : P) (rv : V) {st : State P S V M Pr} {p : P} {id : Nat}
    (hs : StoreInv W root rv st.store) (h : Trigger st p id) {inc : Incompat P S V M}
    (hinc : st.store[id]? = some inc) :
    st.ps.relation inc = .satisfied ∨ st.ps.relation inc = .almostSatisfied p := by
  obtain ⟨_, inc', hinc', hoth, tp, cur, htp, hcur, hrel⟩ := h
  rw [hinc] at hinc'; injection hinc' with hinc'; subst hinc'
  have hn := (hs id inc hinc).nodup
  refine (Incompat.relationGo_trigger (fun q => st.ps.termIntersectionForPackage q) p inc.terms .satisfied hn
    hoth ?_).1 rfl
  intro t ht
  have := SmallMap.get_of_mem hn ht
  unfold Incompat.get at htp
  rw [htp] at this; injection this with this; subst this
  exact ⟨cur, hcur, hrel⟩

/-- a trigger survives a derivation for another package and the caching of another incompatibility -/
theorem Trigger.step (W : World P S V M) (root : P) (rv : V) {st : State P S V M Pr} {p q : P} {id id' : Nat}
    (hs : SInv W root rv st) (hw : st.ps.WF) (h : Trigger st p id) (hne : q ≠ p) (hid : id' ≠ id)
    {ps : PartialSolution P S V Pr} (hps : st.ps.addDerivation q id' st.store = .ok ps)
    (buffer : List P) (lvl : Nat) :
    Trigger { st with buffer := buffer, ps := ps,
                      contradicted := SmallMap.insert st.contradicted id' lvl } p id := by
  obtain ⟨hc, inc, hinc, hoth, tp, cur, htp, hcur, hrel⟩ := h
  have hg := hs.store id inc hinc
  refine ⟨?_, inc, hinc, ?_, tp, cur, htp, ?_, hrel⟩
  · show SmallMap.get (SmallMap.insert st.contradicted id' lvl) id = none
    rw [SmallMap.get_insert, if_neg (fun e => hid e.symm)]; exact hc
  · intro q' t hm hq'
    obtain ⟨o, ho, hrel'⟩ := hoth q' t hm hq'
    by_cases hqq : q' = q
    · subst hqq
      obtain ⟨inc2, t2, hinc2, ht2, hnew⟩ := PartialSolution.addDerivation_term_self hw hps ho
      refine ⟨_, hnew, ?_⟩
      exact Term.relationWith_satisfied_inter t o t2.negate (hg.sets q' t hm)
        (PartialSolution.termIntersection_valid hs.ps ho)
        (Term.valid_negate _ (Incompat.get_valid W root rv hs.store hinc2 ht2)) hrel'
    · refine ⟨o, ?_, hrel'⟩
      show ps.termIntersectionForPackage q' = some o
      unfold PartialSolution.termIntersectionForPackage at ho ⊢
      rw [PartialSolution.addDerivation_getPA_ne hw hps hqq]; exact ho
  · show ps.termIntersectionForPackage p = some cur
    unfold PartialSolution.termIntersectionForPackage at hcur ⊢
    rw [PartialSolution.addDerivation_getPA_ne hw hps (fun e => hne e.symm)]; exact hcur

theorem Trigger.cache {st : State P S V M Pr} {p : P} {id id' : Nat}
    (h : Trigger st p id) (hid : id' ≠ id) (lvl : Nat) :
    Trigger { st with contradicted := SmallMap.insert st.contradicted id' lvl } p id := by
  obtain ⟨hc, rest⟩ := h
  refine ⟨?_, rest⟩
  show SmallMap.get (SmallMap.insert st.contradicted id' lvl) id = none
  rw [SmallMap.get_insert, if_neg (fun e => hid e.symm)]; exact hc

theorem PInv.cacheInsert {st : State P S V M Pr} (h : PInv st) {id : Nat} (hid : id < st.store.length)
    (lvl : Nat) : PInv { st with contradicted := SmallMap.insert st.contradicted id lvl } := by
  refine ⟨h.wf, ?_⟩
  intro kv hkv
  rcases SmallMap.mem_insert_sub hkv with rfl | hkv
  · exact hid
  · exact h.cache kv hkv

theorem PInv.derive {st : State P S V M Pr} (h : PInv st) {id : Nat} (hid : id < st.store.length)
    {q : P} {ps : PartialSolution P S V Pr} (hps : st.ps.addDerivation q id st.store = .ok ps)
    (buffer : List P) (lvl : Nat) :
    PInv { st with buffer := buffer, ps := ps, contradicted := SmallMap.insert st.contradicted id lvl } := by
  refine ⟨PartialSolution.addDerivation_wf' h.wf hps, ?_⟩
  intro kv hkv
  rcases SmallMap.mem_insert_sub hkv with rfl | hkv
  · exact hid
  · exact h.cache kv hkv

namespace State

/-- the propagation loop for the package in flight settles it, unless it ends in a conflict -/
theorem propagateIncompats_settle (W : World P S V M) (root : P) (rv : V) (p : P) :
    ∀ (ids : List Nat) (st : State P S V M Pr) {st' : State P S V M Pr} {r : Option Nat},
    propagateIncompats st ids = .ok (st', r) → SInv W root rv st → PInv st → st.ps.QInv (some p) →
    (st.ps.POK p ∨ (st.ps.InflightPos p ∧ ∃ id ∈ ids, Trigger st p id)) → r = none →
    st'.ps.QInv none := by
  intro ids
  induction ids with
  | nil =>
    intro st st' r hr hs h hq hpend _
    simp only [propagateIncompats] at hr
    injection hr with hr; injection hr with h1 h2; subst h1
    rcases hpend with hpok | ⟨_, id, hid, _⟩
    · exact (PartialSolution.qInv_none_iff _ p).2 ⟨hq, hpok⟩
    · cases hid
  | cons id rest ih =>
    intro st st' r hr hs h hq hpend hrn
    rcases hpend with hpok | ⟨hpos, id0, hid0, htr⟩
    · exact (propagateIncompats_pinv (o := none) _ _ hr h).2 ((PartialSolution.qInv_none_iff _ p).2 ⟨hq, hpok⟩)
    unfold propagateIncompats at hr
    split at hr
    · rename_i hck
      have hne : id0 ≠ id := by
        intro e; subst e
        unfold SmallMap.containsKey at hck
        rw [htr.1] at hck; cases hck
      have hmem : id0 ∈ rest := by
        rcases List.mem_cons.1 hid0 with e | e
        · exact absurd e hne
        · exact e
      exact ih _ hr hs h hq (Or.inr ⟨hpos, id0, hmem, htr⟩) hrn
    split at hr
    · cases hr
    rename_i inc hinc
    have hlt := storeGet_lt hinc
    have hinc' := storeGet_ok hinc
    -- if the head is the trigger, the relation is `satisfied` or `almostSatisfied p`
    have hrel : id = id0 → st.ps.relation inc = .satisfied ∨ st.ps.relation inc = .almostSatisfied p := by
      intro e; subst e; exact Trigger.relation W root rv hs.store htr hinc'
    have hmem : id ≠ id0 → id0 ∈ rest := by
      intro hne
      rcases List.mem_cons.1 hid0 with e | e
      · exact absurd e.symm hne
      · exact e
    split at hr
    · injection hr with hr; injection hr with h1 h2; subst h2; cases hrn
    · rename_i q hq'
      split at hr
      · cases hr
      rename_i ps hps
      have hs1 : SInv W root rv ({ st with
          buffer := if st.buffer.contains q then st.buffer else st.buffer ++ [q], ps := ps,
          contradicted := SmallMap.insert st.contradicted id ps.currentDecisionLevel } : State P S V M Pr) :=
        ⟨hs.store, hs.root, hs.rv, PartialSolution.addDerivation_termsValid W root rv hs.store hs.ps hps⟩
      have h1 := h.derive hlt hps (if st.buffer.contains q then st.buffer else st.buffer ++ [q])
        ps.currentDecisionLevel
      have hq1 := PartialSolution.addDerivation_qInv h.wf hq hps
      by_cases hqp : q = p
      · subst hqp
        obtain ⟨pa, s, hpa, hpas⟩ := hpos
        exact ih _ hr hs1 h1 hq1 (Or.inl (PartialSolution.addDerivation_pok h.wf hpa hpas hps)) hrn
      · have hne : id ≠ id0 := by
          intro e
          rcases hrel e with e' | e'
          · rw [hq'] at e'; cases e'
          · rw [hq'] at e'; injection e' with e'; exact hqp e'
        refine ih _ hr hs1 h1 hq1 (Or.inr ⟨?_, id0, hmem hne, Trigger.step W root rv hs h.wf.wf htr hqp hne hps _ _⟩) hrn
        obtain ⟨pa, s, hpa, hpas⟩ := hpos
        refine ⟨pa, s, ?_, hpas⟩
        show ps.getPA p = some pa
        rw [PartialSolution.addDerivation_getPA_ne h.wf.wf hps (fun e => hqp e.symm)]; exact hpa
    · rename_i q hq'
      have hne : id ≠ id0 := by
        intro e
        rcases hrel e with e' | e'
        · rw [hq'] at e'; cases e'
        · rw [hq'] at e'; cases e'
      exact ih _ hr ⟨hs.store, hs.root, hs.rv, hs.ps⟩ (h.cacheInsert hlt _) hq
        (Or.inr ⟨hpos, id0, hmem hne, htr.cache hne _⟩) hrn
    · rename_i hq'
      have hne : id ≠ id0 := by
        intro e
        rcases hrel e with e' | e'
        · rw [hq'] at e'; cases e'
        · rw [hq'] at e'; cases e'
      exact ih _ hr hs h hq (Or.inr ⟨hpos, id0, hmem hne, htr⟩) hrn

/-- `unit_propagation` for the package in flight: I-PS is preserved and, unless the run ends with a
terminal incompatibility, I-Q holds afterwards without exception -/
theorem unitPropagation_settle (W : World P S V M) (root : P) (rv : V) {fuel : Nat}
    {st st' : State P S V M Pr} {p : P} {r : Option Nat}
    (hr : unitPropagation fuel st p = .ok (st', r)) (hs : SInv W root rv st) (h : PInv st)
    (hq : st.ps.QInv (some p)) (hpend : Pending st p) :
    PInv st' ∧ (r = none → st'.ps.QInv none) := by
  unfold unitPropagation at hr
  have h0 : PInv ({ st with buffer := [p] } : State P S V M Pr) := ⟨h.wf, h.cache⟩
  refine ⟨(unitPropagationLoop_pinv _ _ hr h0).1, ?_⟩
  intro hrn
  cases fuel with
  | zero => simp [unitPropagationLoop] at hr
  | succ fuel =>
    unfold unitPropagationLoop at hr
    simp only [List.getLast?_singleton, List.dropLast_singleton] at hr
    have h1 : PInv ({ st with buffer := [] } : State P S V M Pr) := ⟨h.wf, h.cache⟩
    have hs1 : SInv W root rv ({ st with buffer := [] } : State P S V M Pr) := ⟨hs.store, hs.root, hs.rv, hs.ps⟩
    split at hr
    · cases hr
    rename_i ids hids
    split at hr
    · cases hr
    · rename_i st1 hp
      have hq1 : st1.ps.QInv none := by
        refine propagateIncompats_settle W root rv p _ _ hp hs1 h1 hq ?_ rfl
        rcases hpend with hpok | ⟨hpos, ids', hids', id, hid, htr⟩
        · exact Or.inl hpok
        · rw [hids] at hids'; injection hids' with hids'; subst hids'
          exact Or.inr ⟨hpos, id, List.mem_reverse.2 hid, htr⟩
      have h2 := (propagateIncompats_pinv (o := none) _ _ hp h1).1
      exact (unitPropagationLoop_pinv _ _ hr h2).2 hrn hq1
    · rename_i st1 conflictId hp
      have h2 := (propagateIncompats_pinv (o := none) _ _ hp h1).1
      split at hr
      · cases hr
      · injection hr with hr; injection hr with e1 e2; subst e2; cases hrn
      · rename_i st2 packageAlmost rootCause hc
        obtain ⟨h3, hq3⟩ := conflictResolution_pinv _ _ _ _ hc h2
        split at hr
        · cases hr
        rename_i ps hps
        have h4 : PInv ({ st2 with
            buffer := [packageAlmost], ps := ps,
            contradicted := SmallMap.insert st2.contradicted rootCause ps.currentDecisionLevel } :
            State P S V M Pr) := by
          obtain ⟨inc, t, hi, _⟩ := PartialSolution.addDerivation_spec hps
          exact h3.derive (List.getElem?_eq_some_iff.1 hi).1 hps _ _
        exact (unitPropagationLoop_pinv _ _ hr h4).2 hrn
          (PartialSolution.addDerivation_qInv h3.wf (hq3 _ rfl) hps)

end State
end PS
end Pubgrub

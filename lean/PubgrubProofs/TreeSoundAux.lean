/-
Helpers for `PubgrubProofs/TreeSound.lean`.

`IsTreeOf store sh id t`: `t` is *the* tree of the arena entry `id` (leaves from the kind, derived
nodes from the trees of the two causes, labelled `some id` exactly when `sh id`).  The relation is
functional, every tree in the `precomputed` map of `build_derivation_tree` satisfies it, and
everything else (checkability, sharing) is derived from it.
-/
import PubgrubProofs.IncompatSound
import PubgrubProofs.TreeDefs

set_option linter.unusedSectionVars false

namespace Pubgrub
open VersionSet

variable {P S V M Pr : Type} [DecidableEq P] [VersionSet S V] [DecidableEq S]

/-- the leaf of an external kind -/
def Kind.toExternal : Kind P S V M → Option (External P S V M)
  | .notRoot p v => some (.notRoot p v)
  | .noVersions p s => some (.noVersions p s)
  | .fromDependencyOf p s q t => some (.fromDependencyOf p s q t)
  | .custom p s m => some (.custom p s m)
  | .derivedFrom _ _ => none

/-- `t` is the tree of entry `id` -/
inductive IsTreeOf (store : List (Incompat P S V M)) (sh : Nat → Bool) :
    Nat → DerivationTree P S V M → Prop
  | external (id : Nat) (inc : Incompat P S V M) (e : External P S V M) :
      store[id]? = some inc → inc.kind.toExternal = some e → IsTreeOf store sh id (.external e)
  | derived (id : Nat) (inc : Incompat P S V M) (a b : Nat) (c1 c2 : DerivationTree P S V M) :
      store[id]? = some inc → inc.kind = .derivedFrom a b →
      IsTreeOf store sh a c1 → IsTreeOf store sh b c2 →
      IsTreeOf store sh id (.derived inc.terms (if sh id then some id else none) c1 c2)

theorem IsTreeOf.functional {store : List (Incompat P S V M)} {sh : Nat → Bool} {id : Nat}
    {t1 t2 : DerivationTree P S V M} (h1 : IsTreeOf store sh id t1) (h2 : IsTreeOf store sh id t2) :
    t1 = t2 := by
  induction h1 generalizing t2 with
  | external id inc e hs hk =>
    cases h2 with
    | external _ inc' e' hs' hk' =>
      rw [hs] at hs'; cases hs'; rw [hk] at hk'; cases hk'; rfl
    | derived _ inc' a b c1 c2 hs' hk' _ _ =>
      rw [hs] at hs'; cases hs'; rw [hk'] at hk; simp [Kind.toExternal] at hk
  | derived id inc a b c1 c2 hs hk _ _ ih1 ih2 =>
    cases h2 with
    | external _ inc' e' hs' hk' =>
      rw [hs] at hs'; cases hs'; rw [hk] at hk'; simp [Kind.toExternal] at hk'
    | derived _ inc' a' b' c1' c2' hs' hk' ha' hb' =>
      rw [hs] at hs'; cases hs'; rw [hk] at hk'; cases hk'
      rw [ih1 ha', ih2 hb']

/-- every labelled node inside the tree of `id` is the tree of its label, the label is a shared id,
and it is a derived node -/
theorem IsTreeOf.derivedNodes {store : List (Incompat P S V M)} {sh : Nat → Bool} {id : Nat}
    {t : DerivationTree P S V M} (h : IsTreeOf store sh id t) (k : Nat) (t' : DerivationTree P S V M)
    (hk : (some k, t') ∈ t.derivedNodes) :
    IsTreeOf store sh k t' ∧ sh k = true ∧
      ∃ inc a b, store[k]? = some inc ∧ inc.kind = .derivedFrom a b ∧ t'.terms = inc.terms := by
  induction h with
  | external id inc e hs hke => simp [DerivationTree.derivedNodes] at hk
  | derived id inc a b c1 c2 hs hkd ha hb ih1 ih2 =>
    simp only [DerivationTree.derivedNodes, List.mem_cons, List.mem_append] at hk
    rcases hk with hk | hk | hk
    · by_cases hsh : sh id = true
      · simp only [hsh, if_true, Prod.mk.injEq, Option.some.injEq] at hk
        obtain ⟨rfl, rfl⟩ := hk
        refine ⟨?_, hsh, inc, a, b, hs, hkd, ?_⟩
        · have := IsTreeOf.derived (sh := sh) k inc a b c1 c2 hs hkd ha hb
          simpa [hsh] using this
        · simp [DerivationTree.terms]
      · simp [hsh] at hk
    · exact ih1 hk
    · exact ih2 hk

/-! ### the fold of `build_derivation_tree` -/

theorem TreeAux.mem_of_get {K T : Type} [DecidableEq K] (m : SmallMap K T) (k : K) (v : T)
    (h : SmallMap.get m k = some v) : (k, v) ∈ m := by
  induction m with
  | nil => simp [SmallMap.get] at h
  | cons kv m ih =>
    obtain ⟨k', v'⟩ := kv
    simp only [SmallMap.get] at h
    split at h
    · cases h; subst_vars; simp
    · exact List.mem_cons_of_mem _ (ih h)

theorem TreeAux.mem_insert_cases {K T : Type} [DecidableEq K] (m : SmallMap K T) (k : K) (v : T)
    (kv : K × T) (h : kv ∈ SmallMap.insert m k v) : kv = (k, v) ∨ kv ∈ m := by
  induction m with
  | nil => simp [SmallMap.insert] at h; exact Or.inl h
  | cons kv' m ih =>
    obtain ⟨k', v'⟩ := kv'
    simp only [SmallMap.insert] at h
    split at h
    · subst_vars
      rcases List.mem_cons.1 h with h | h
      · exact Or.inl h
      · exact Or.inr (List.mem_cons_of_mem _ h)
    · rcases List.mem_cons.1 h with h | h
      · exact Or.inr (h ▸ List.mem_cons_self)
      · rcases ih h with h | h
        · exact Or.inl h
        · exact Or.inr (List.mem_cons_of_mem _ h)

theorem TreeAux.foldlM_inv {α β : Type} (f : β → α → R β) (Inv : β → Prop)
    (hf : ∀ b a b', Inv b → f b a = .ok b' → Inv b') :
    ∀ (l : List α) (b b' : β), Inv b → l.foldlM f b = .ok b' → Inv b' := by
  intro l
  induction l with
  | nil => intro b b' hb h; simp [List.foldlM, pure, Except.pure] at h; exact h ▸ hb
  | cons a l ih =>
    intro b b' hb h
    rw [List.foldlM_cons] at h
    cases hfa : f b a with
    | error e => rw [hfa] at h; simp [bind, Except.bind] at h
    | ok b1 =>
      rw [hfa] at h
      exact ih b1 b' (hf b a b1 hb hfa) h

theorem buildNode_isTreeOf (store : List (Incompat P S V M)) (shared : List Nat)
    (pre : List (Nat × DerivationTree P S V M))
    (hpre : ∀ kv ∈ pre, IsTreeOf store (fun i => shared.contains i) kv.1 kv.2)
    (id : Nat) (t : DerivationTree P S V M) (h : State.buildNode store shared pre id = .ok t) :
    IsTreeOf store (fun i => shared.contains i) id t := by
  unfold State.buildNode at h
  simp only [storeGet, unwrapOr, bind, Except.bind, pure, Except.pure] at h
  cases hs : store[id]? with
  | none => simp [hs] at h
  | some inc =>
    simp only [hs] at h
    cases hk : inc.kind with
    | derivedFrom a b =>
      simp only [hk] at h
      cases h1 : SmallMap.get pre a with
      | none => simp [h1] at h
      | some c1 =>
        cases h2 : SmallMap.get pre b with
        | none => simp [h1, h2] at h
        | some c2 =>
          simp only [h1, h2, Except.ok.injEq] at h
          subst h
          exact IsTreeOf.derived id inc a b c1 c2 hs hk
            (hpre _ (TreeAux.mem_of_get _ _ _ h1)) (hpre _ (TreeAux.mem_of_get _ _ _ h2))
    | notRoot p v =>
      simp only [hk, Except.ok.injEq] at h; subst h
      exact IsTreeOf.external id inc _ hs (by simp [hk, Kind.toExternal])
    | noVersions p s =>
      simp only [hk, Except.ok.injEq] at h; subst h
      exact IsTreeOf.external id inc _ hs (by simp [hk, Kind.toExternal])
    | fromDependencyOf p s q t' =>
      simp only [hk, Except.ok.injEq] at h; subst h
      exact IsTreeOf.external id inc _ hs (by simp [hk, Kind.toExternal])
    | custom p s m =>
      simp only [hk, Except.ok.injEq] at h; subst h
      exact IsTreeOf.external id inc _ hs (by simp [hk, Kind.toExternal])

/-- what `build_derivation_tree` returns: the tree of the requested id, for the computed `shared` -/
theorem buildDerivationTree_spec (st : State P S V M Pr) (id : Nat) (tree : DerivationTree P S V M)
    (h : st.buildDerivationTree id = .ok tree) :
    ∃ all shared, State.collectIds st.store (2 * st.store.length + 2) [id] [] [] = .ok (all, shared) ∧
      IsTreeOf st.store (fun i => shared.contains i) id tree := by
  unfold State.buildDerivationTree at h
  simp only [bind, Except.bind] at h
  cases hc : State.collectIds st.store (2 * st.store.length + 2) [id] [] [] with
  | error e => simp [hc] at h
  | ok as =>
    obtain ⟨all, shared⟩ := as
    simp only [hc] at h
    refine ⟨all, shared, rfl, ?_⟩
    split at h
    · simp at h
    · rename_i pre hfold
      have hinv : ∀ kv ∈ pre, IsTreeOf st.store (fun i => shared.contains i) kv.1 kv.2 := by
        refine TreeAux.foldlM_inv _ (fun pre => ∀ kv ∈ pre, IsTreeOf st.store (fun i => shared.contains i) kv.1 kv.2)
          ?_ _ _ _ (by simp) hfold
        intro b a b' hb hf
        simp only [pure, Except.pure] at hf
        cases hn : State.buildNode st.store shared b a with
        | error e => simp [hn] at hf
        | ok t =>
          simp only [hn, Except.ok.injEq] at hf
          subst hf
          intro kv hkv
          rcases TreeAux.mem_insert_cases _ _ _ _ hkv with rfl | hkv
          · exact buildNode_isTreeOf _ _ _ hb _ _ hn
          · exact hb _ hkv
      cases hg : SmallMap.get pre id with
      | none => simp [hg, unwrapOr] at h
      | some t =>
        simp only [hg, unwrapOr, Except.ok.injEq] at h
        subst h
        exact hinv _ (TreeAux.mem_of_get _ _ _ hg)

end Pubgrub

/-
Property C12 — The provider is queried according to a fixed protocol.

"get_dependencies(p, v) is called only for a version v that the immediately preceding query
choose_version(p, .) returned, and at most once per (p, v) in a run; choose_version(p, set) is only
called with a non-empty set that is identical to the set last passed to prioritize for p; the first
version query is for the root with the singleton set of the requested version; and should_cancel is
polled before the first query and at least once between any two choose_version calls."

Proved for ARBITRARY answer sequences (any version set, any fuel ≥ 3 where stated): the clauses on
get_dependencies, on the first query and on should_cancel.  Proved for answers consistent with a world
and a lawful version set: the set passed to `choose_version` is the set of the most recent
`prioritize` request for that package (`C12_choose_set_is_prioritized_set`, a trace-level invariant on
top of the queue invariant of C14).
`C12_choose_nonempty`: the set passed to `choose_version` has a member (consistent answers, lawful set with
canonical emptiness) — from the invariant "no accumulated term of a live state is empty" (`NonEmpty`),
whose hard case, the derivation that follows a backjump, rests on the satisfier theory.
-/
import PubgrubProofs.Protocol
import PubgrubProofs.Freshness
import PubgrubProofs.NonEmpty
import PubgrubProofs.CanonInstances
import PubgrubProofs.RangeAnyOrder
import PubgrubProofs.RangeAnyOrder2
import PubgrubProofs.Examples

namespace Pubgrub.C12
open Pubgrub Pubgrub.Solver VersionSet

variable {P S V M Pr E : Type} [DecidableEq P] [VersionSet S V] [DecidableEq S] [DecidableEq V]
  [LE Pr] [DecidableLE Pr]

theorem C12_deps_after_choose (debug : Bool) (fuel : Nat) (root : P) (rv : V)
    (as : List (Answer P S V M Pr E)) (k : Nat) (p : P) (v : V)
    (h : (trace debug fuel root rv as)[k + 1]? = some (.getDependencies p v)) :
    (∃ s, (trace debug fuel root rv as)[k]? = some (.chooseVersion p s)) ∧
      as[k]? = some (.version (some v)) :=
  deps_after_choose debug fuel root rv as k p v h

theorem C12_deps_once (debug : Bool) (fuel : Nat) (root : P) (rv : V)
    (as : List (Answer P S V M Pr E)) (i j : Nat) (hij : i < j) (p : P) (v : V)
    (hi : (trace debug fuel root rv as)[i]? = some (.getDependencies p v)) :
    (trace debug fuel root rv as)[j]? ≠ some (.getDependencies p v) :=
  deps_once debug fuel root rv as i j hij p v hi

theorem C12_cancel_first (debug : Bool) (fuel : Nat) (root : P) (rv : V)
    (as : List (Answer P S V M Pr E)) :
    (trace debug fuel root rv as)[0]? = some .shouldCancel :=
  cancel_first debug fuel root rv as

theorem C12_cancel_between_choose (debug : Bool) (fuel : Nat) (root : P) (rv : V)
    (as : List (Answer P S V M Pr E)) (i j : Nat) (hij : i < j) (p q : P) (s t : S)
    (hi : (trace debug fuel root rv as)[i]? = some (.chooseVersion p s))
    (hj : (trace debug fuel root rv as)[j]? = some (.chooseVersion q t)) :
    ∃ k, i < k ∧ k < j ∧ (trace debug fuel root rv as)[k]? = some .shouldCancel :=
  cancel_between_choose debug fuel root rv as i j hij p q s t hi hj

theorem C12_first_query (debug : Bool) (fuel : Nat) (hf : 3 ≤ fuel) (root : P) (rv : V)
    (as : List (Answer P S V M Pr E)) (k : Nat) (p : P) (s : S)
    (hk : (trace debug fuel root rv as)[k]? = some (.chooseVersion p s))
    (hfirst : ∀ j < k, ∀ q t, (trace debug fuel root rv as)[j]? ≠ some (.chooseVersion q t)) :
    k = 3 ∧ p = root ∧ s = VersionSet.singleton rv ∧
      (trace debug fuel root rv as)[1]? = some (.prioritize root (VersionSet.singleton rv)) :=
  first_query debug fuel hf root rv as k p s hk hfirst

theorem C12_choose_set_is_prioritized_set [LawfulVersionSet S V] (W : World P S V M) (hW : W.SetsValid)
    (debug : Bool) (fuel : Nat) (root : P) (rv : V) (as : List (Answer P S V M Pr E))
    (hok : AnswersOK W debug fuel root rv as) (k : Nat) (p : P) (s : S)
    (hk : (trace debug fuel root rv as)[k]? = some (.chooseVersion p s)) :
    ∃ pr, lastPrio (trace debug fuel root rv as) as k p = some (s, pr) :=
  choose_set_is_prioritized_set W hW debug fuel root rv as hok k p s hk

theorem C12_choose_nonempty [LawfulVersionSet S V] [CanonicalEmpty S V] (W : World P S V M)
    (hW : W.SetsValid) (debug : Bool) (fuel : Nat) (root : P) (rv : V) (s : SolverState P S V M Pr)
    (p : P) (set : S) (h : Reachable (E := E) W debug fuel root rv (s, .chooseVersion p set)) :
    ∃ v : V, VersionSet.contains set v = true :=
  choose_nonempty W hW debug fuel root rv s p set h

theorem C12_no_empty_term [LawfulVersionSet S V] [CanonicalEmpty S V] (W : World P S V M)
    (hW : W.SetsValid) (debug : Bool) (fuel : Nat) (root : P) (rv : V)
    (x : SolverState P S V M Pr × Request P S V M Pr E)
    (h : Reachable W debug fuel root rv x) (hph : x.2.isFinal = false) : x.1.st.ps.NonEmpty :=
  reachable_nonEmpty W hW debug fuel root rv x h hph

/-- non-vacuity of `CanonicalEmpty`: `Range` over a non-empty dense linear order without end points -/
theorem C12_canonicalEmpty_range {T : Type} [LinearOrder T] [DenselyOrdered T] [NoMinOrder T]
    [NoMaxOrder T] [Nonempty T] : CanonicalEmpty (Range T) T := Range.canonicalEmpty

/-- non-vacuity of `CanonicalEmpty`: the bit set over `Fin n` -/
theorem C12_canonicalEmpty_bitset (n : Nat) :
    @CanonicalEmpty (BitSet n) (Fin n) (BitSet.instVersionSetBitSetFin n) (BitSet.lawful n) :=
  BitSet.canonicalEmpty n

/-! ### `Range V` over ANY linear order (the discrete `u32`, `SemanticVersion` included), where `Range` is
not a `LawfulVersionSet`: pulled back along the embedding into `Range (V ×ₗ ℚ)` (RangeHom, HomSolver,
RangeAnyOrder) -/
section AnyOrder
variable {P V M Pr E : Type} [DecidableEq P] [LinearOrder V] [LE Pr] [DecidableLE Pr]

theorem C12_range_choose_nonempty (W : World P (Range V) V M) (hW : W.RangesWF) (debug : Bool) (fuel : Nat)
    (root : P) (rv : V) (s : SolverState P (Range V) V M Pr) (p : P) (set : Range V)
    (h : Reachable (E := E) W debug fuel root rv (s, .chooseVersion p set)) :
    set ≠ Range.empty :=
  range_choose_nonempty W hW debug fuel root rv s p set h

theorem C12_range_requests_wf (W : World P (Range V) V M) (hW : W.RangesWF) (debug : Bool) (fuel : Nat)
    (root : P) (rv : V) (s : SolverState P (Range V) V M Pr) (p : P) (set : Range V)
    (h : Reachable (E := E) W debug fuel root rv (s, .chooseVersion p set) ∨
         Reachable (E := E) W debug fuel root rv (s, .prioritize p set)) :
    Range.WF set :=
  range_requests_wf W hW debug fuel root rv s p set h

end AnyOrder

/-! ### `Range V` over ANY linear order (second batch of pull-backs, RangeAnyOrder2) -/
section AnyOrder2
variable {P V M Pr E : Type} [DecidableEq P] [LinearOrder V] [LE Pr] [DecidableLE Pr]

theorem C12_range_choose_set_is_prioritized_set (W : World P (Range V) V M) (hW : W.RangesWF)
    (debug : Bool) (fuel : Nat) (root : P) (rv : V) (as : List (Answer P (Range V) V M Pr E))
    (hok : AnswersOK W debug fuel root rv as) (k : Nat) (p : P) (s : (Range V))
    (hk : (Solver.trace debug fuel root rv as)[k]? = some (.chooseVersion p s)) :
    ∃ pr, lastPrio (Solver.trace debug fuel root rv as) as k p = some (s, pr) :=
  by apply range_C12_choose_set_is_prioritized_set (P := P) (V := V) (M := M) (Pr := Pr) (E := E) <;> assumption

end AnyOrder2

/-! Non-vacuity on concrete runs (PubgrubProofs/Examples.lean, evaluated by `decide +kernel`; registered in
obligations.json so that their axioms are audited too): `Examples.example_C_reachable`, `Examples.example_C_choose_nonempty`. -/

end Pubgrub.C12

/-
Property C20: laws of the model of `/repo/src/version.rs` (`PubgrubModel/SemVer.lean`).

* `Display` followed by `FromStr` is the identity (`parse_display`);
* `FromStr` succeeds exactly on three '.'-separated parts that each parse as `u32`
  (`parse_ok_iff`), otherwise reports `NotThreeParts` (`parse_notThreeParts_iff`) or
  `ParseIntError` naming the first offending part (`parse_error_first_part`,
  `parse_parseIntError_iff`);
* `u32::from_str` is characterised independently of the model's loop through `digitsValue`
  (`parseU32_ok_iff`, `parseU32_empty_iff`, `parseU32_invalidDigit_iff`, `parseU32_posOverflow_iff`);
* the ordering is lexicographic (`cmp_eq_iff`, `cmp_lt_iff`, `cmp_gt_iff`, `cmp_swap`, `cmp_lt_trans`);
* tuple conversions are mutually inverse;
* bumps below `u32::MAX` are strictly increasing, reset the lower components, preserve validity.
-/
import PubgrubModel.SemVer

namespace Pubgrub
namespace SemVer

/-! ### specification vocabulary (independent of the model's loops) -/

/-- ASCII decimal digit -/
def IsDigit (c : Char) : Prop := '0' ≤ c ∧ c ≤ '9'

instance (c : Char) : Decidable (IsDigit c) := by unfold IsDigit; exact inferInstance

/-- one step of positional decimal evaluation -/
def decStep (acc : Nat) (c : Char) : Nat := acc * 10 + (c.toNat - 48)

/-- decimal value of a list of digit characters, most significant first (no overflow check) -/
def decValue (s : List Char) : Nat := s.foldl decStep 0

/-- `some n` iff `s` is a NON-EMPTY list of ASCII digits with decimal value `n` -/
def digitsValue (s : List Char) : Option Nat :=
  if s ≠ [] ∧ ∀ c ∈ s, IsDigit c then some (decValue s) else none

/-- the string after removing ONE leading '+' (if any) -/
def stripPlus : List Char → List Char
  | '+' :: r => r
  | s => s

theorem digitsValue_eq_some_iff (s : List Char) (n : Nat) :
    digitsValue s = some n ↔ s ≠ [] ∧ (∀ c ∈ s, IsDigit c) ∧ decValue s = n := by
  unfold digitsValue
  split
  · next h =>
    simp only [Option.some.injEq]
    exact ⟨fun e => ⟨h.1, h.2, e⟩, fun e => e.2.2⟩
  · next h =>
    simp only [reduceCtorEq, false_iff]
    intro h'
    exact h ⟨h'.1, h'.2.1⟩

/-! ### `digitVal` -/

theorem digitVal_of_isDigit {c : Char} (h : IsDigit c) : digitVal c = some (c.toNat - 48) := by
  unfold digitVal; unfold IsDigit at h; simp [h]

theorem digitVal_of_not_isDigit {c : Char} (h : ¬ IsDigit c) : digitVal c = none := by
  unfold digitVal; unfold IsDigit at h; simp [h]

theorem digitVal_eq_some_iff {c : Char} {d : Nat} :
    digitVal c = some d ↔ IsDigit c ∧ d = c.toNat - 48 := by
  by_cases h : IsDigit c
  · rw [digitVal_of_isDigit h]; simp [h, eq_comm]
  · rw [digitVal_of_not_isDigit h]; simp [h]

/-! ### `parseDigits` -/

theorem decStep_def (acc : Nat) (c : Char) : acc * 10 + (c.toNat - 48) = decStep acc c := rfl

theorem foldl_decStep_ge (s : List Char) (acc : Nat) : acc ≤ s.foldl decStep acc := by
  induction s generalizing acc with
  | nil => simp
  | cons c cs ih =>
    simp only [List.foldl_cons]
    have := ih (decStep acc c)
    unfold decStep at this ⊢
    omega

/-- success of the digit loop: all characters are digits and the (accumulated) value fits `u32` -/
theorem parseDigits_ok_iff (s : List Char) (acc n : Nat) (hacc : acc ≤ u32Max) :
    parseDigits s acc = .ok n ↔
      (∀ c ∈ s, IsDigit c) ∧ s.foldl decStep acc = n ∧ n ≤ u32Max := by
  induction s generalizing acc with
  | nil =>
    simp only [parseDigits, List.not_mem_nil, false_imp_iff, implies_true, List.foldl_nil, true_and,
      Except.ok.injEq]
    constructor
    · intro h; subst h; exact ⟨rfl, hacc⟩
    · intro h; exact h.1
  | cons c cs ih =>
    by_cases hc : IsDigit c
    · simp only [parseDigits, digitVal_of_isDigit hc, List.mem_cons, forall_eq_or_imp, hc, true_and,
        List.foldl_cons, decStep_def]
      by_cases hov : decStep acc c > u32Max
      · simp only [hov, if_true, reduceCtorEq, false_iff]
        rintro ⟨-, h, hn⟩
        have := foldl_decStep_ge cs (decStep acc c)
        omega
      · simp only [hov, if_false]
        rw [ih _ (by omega)]
    · simp only [parseDigits, digitVal_of_not_isDigit hc, List.mem_cons, forall_eq_or_imp, hc,
        false_and, reduceCtorEq]

/-- the digit loop never reports `empty` -/
theorem parseDigits_ne_empty (s : List Char) (acc : Nat) : parseDigits s acc ≠ .error .empty := by
  induction s generalizing acc with
  | nil => simp [parseDigits]
  | cons c cs ih =>
    simp only [parseDigits]
    split
    · simp
    · split
      · simp
      · exact ih _

/-- `invalidDigit`: exactly when the first non-digit is reached before the running value leaves `u32` -/
theorem parseDigits_invalidDigit_iff (s : List Char) (acc : Nat) (hacc : acc ≤ u32Max) :
    parseDigits s acc = .error .invalidDigit ↔
      ∃ pre c post, s = pre ++ c :: post ∧ (∀ x ∈ pre, IsDigit x) ∧ ¬ IsDigit c ∧
        pre.foldl decStep acc ≤ u32Max := by
  induction s generalizing acc with
  | nil => simp [parseDigits]
  | cons c cs ih =>
    by_cases hc : IsDigit c
    · simp only [parseDigits, digitVal_of_isDigit hc, decStep_def]
      by_cases hov : decStep acc c > u32Max
      · simp only [hov, if_true, Except.error.injEq, reduceCtorEq, false_iff]
        rintro ⟨pre, x, post, hs, hpre, hx, hval⟩
        cases pre with
        | nil =>
          simp only [List.nil_append, List.cons.injEq] at hs
          exact hx (hs.1 ▸ hc)
        | cons p pre' =>
          simp only [List.cons_append, List.cons.injEq] at hs
          obtain ⟨rfl, -⟩ := hs
          simp only [List.foldl_cons] at hval
          have := foldl_decStep_ge pre' (decStep acc c)
          omega
      · simp only [hov, if_false]
        rw [ih _ (by omega)]
        constructor
        · rintro ⟨pre, x, post, hs, hpre, hx, hval⟩
          refine ⟨c :: pre, x, post, by simp [hs], ?_, hx, ?_⟩
          · intro y hy
            rcases List.mem_cons.1 hy with rfl | hy
            · exact hc
            · exact hpre y hy
          · simpa only [List.foldl_cons] using hval
        · rintro ⟨pre, x, post, hs, hpre, hx, hval⟩
          cases pre with
          | nil =>
            simp only [List.nil_append, List.cons.injEq] at hs
            exact absurd (hs.1 ▸ hc) hx
          | cons p pre' =>
            simp only [List.cons_append, List.cons.injEq] at hs
            obtain ⟨rfl, rfl⟩ := hs
            refine ⟨pre', x, post, rfl, fun y hy => hpre y (List.mem_cons_of_mem _ hy), hx, ?_⟩
            simpa only [List.foldl_cons] using hval
    · simp only [parseDigits, digitVal_of_not_isDigit hc, true_iff]
      exact ⟨[], c, cs, rfl, by simp, hc, by simpa using hacc⟩

/-- `posOverflow`: exactly when some all-digit prefix already has a value outside `u32` -/
theorem parseDigits_posOverflow_iff (s : List Char) (acc : Nat) (hacc : acc ≤ u32Max) :
    parseDigits s acc = .error .posOverflow ↔
      ∃ pre post, s = pre ++ post ∧ (∀ x ∈ pre, IsDigit x) ∧ pre.foldl decStep acc > u32Max := by
  induction s generalizing acc with
  | nil =>
    simp only [parseDigits, reduceCtorEq, false_iff]
    rintro ⟨pre, post, hs, -, hval⟩
    have : pre = [] := by
      cases pre with
      | nil => rfl
      | cons _ _ => simp at hs
    subst this
    simp only [List.foldl_nil] at hval
    omega
  | cons c cs ih =>
    by_cases hc : IsDigit c
    · simp only [parseDigits, digitVal_of_isDigit hc, decStep_def]
      by_cases hov : decStep acc c > u32Max
      · simp only [hov, if_true, true_iff]
        exact ⟨[c], cs, rfl, by simpa using hc, by simpa [decStep] using hov⟩
      · simp only [hov, if_false]
        rw [ih _ (by omega)]
        constructor
        · rintro ⟨pre, post, hs, hpre, hval⟩
          refine ⟨c :: pre, post, by simp [hs], ?_, by simpa only [List.foldl_cons] using hval⟩
          intro y hy
          rcases List.mem_cons.1 hy with rfl | hy
          · exact hc
          · exact hpre y hy
        · rintro ⟨pre, post, hs, hpre, hval⟩
          cases pre with
          | nil => simp only [List.foldl_nil] at hval; omega
          | cons p pre' =>
            simp only [List.cons_append, List.cons.injEq] at hs
            obtain ⟨rfl, rfl⟩ := hs
            exact ⟨pre', post, rfl, fun y hy => hpre y (List.mem_cons_of_mem _ hy),
              by simpa only [List.foldl_cons] using hval⟩
    · simp only [parseDigits, digitVal_of_not_isDigit hc, Except.error.injEq, reduceCtorEq, false_iff]
      rintro ⟨pre, post, hs, hpre, hval⟩
      cases pre with
      | nil => simp only [List.foldl_nil] at hval; omega
      | cons p pre' =>
        simp only [List.cons_append, List.cons.injEq] at hs
        obtain ⟨rfl, -⟩ := hs
        exact hc (hpre _ (List.mem_cons_self ..))

/-! ### `parseU32` -/

theorem parseU32_nil : parseU32 [] = .error .empty := rfl
theorem parseU32_plus : parseU32 ['+'] = .error .invalidDigit := rfl
theorem parseU32_minus : parseU32 ['-'] = .error .invalidDigit := rfl

theorem parseU32_plus_cons (c : Char) (cs : List Char) :
    parseU32 ('+' :: c :: cs) = parseDigits (c :: cs) 0 := by
  unfold parseU32
  split <;> simp_all

theorem parseU32_of_head_ne_plus (c : Char) (cs : List Char) (h : c ≠ '+') :
    parseU32 (c :: cs) = parseDigits (c :: cs) 0 := by
  unfold parseU32
  split <;> simp_all [parseDigits, digitVal]

theorem stripPlus_nil : stripPlus [] = [] := rfl
theorem stripPlus_plus (r : List Char) : stripPlus ('+' :: r) = r := rfl
theorem stripPlus_of_head_ne_plus (c : Char) (cs : List Char) (h : c ≠ '+') :
    stripPlus (c :: cs) = c :: cs := by
  unfold stripPlus
  split <;> simp_all

theorem not_isDigit_plus : ¬ IsDigit '+' := by decide
theorem not_isDigit_minus : ¬ IsDigit '-' := by decide
theorem not_isDigit_dot : ¬ IsDigit '.' := by decide

/-- `parseU32` written with `stripPlus` -/
theorem parseU32_eq (s : List Char) :
    parseU32 s = if s = [] then .error .empty
      else if stripPlus s = [] then .error .invalidDigit
      else parseDigits (stripPlus s) 0 := by
  cases s with
  | nil => rfl
  | cons c cs =>
    by_cases hc : c = '+'
    · subst hc
      cases cs with
      | nil => rfl
      | cons d ds => rw [parseU32_plus_cons]; simp [stripPlus_plus]
    · rw [parseU32_of_head_ne_plus c cs hc, stripPlus_of_head_ne_plus c cs hc]; simp

theorem zero_le_u32Max : 0 ≤ u32Max := Nat.zero_le _

/-- `u32::from_str` succeeds with `n` iff, after removing one optional leading '+', the input is a
non-empty list of ASCII digits whose decimal value is `n ≤ u32::MAX` -/
theorem parseU32_ok_iff' (s : List Char) (n : Nat) :
    parseU32 s = .ok n ↔ digitsValue (stripPlus s) = some n ∧ n ≤ u32Max := by
  rw [parseU32_eq, digitsValue_eq_some_iff]
  by_cases h1 : s = []
  · subst h1; simp [stripPlus_nil]
  · by_cases h2 : stripPlus s = []
    · simp [h1, h2]
    · simp only [h1, h2, if_false, ne_eq, not_false_eq_true, true_and]
      rw [parseDigits_ok_iff _ _ _ zero_le_u32Max]
      simp only [decValue, and_assoc]

theorem digitsValue_stripPlus (s : List Char) (n : Nat) :
    digitsValue (stripPlus s) = some n ↔
      (digitsValue s = some n ∨ ∃ r, s = '+' :: r ∧ digitsValue r = some n) := by
  cases s with
  | nil => simp [stripPlus_nil]
  | cons c cs =>
    by_cases hc : c = '+'
    · subst hc
      have : digitsValue ('+' :: cs) ≠ some n := by
        rw [ne_eq, digitsValue_eq_some_iff]
        intro h
        exact not_isDigit_plus (h.2.1 _ (List.mem_cons_self ..))
      simp [stripPlus_plus, this]
    · rw [stripPlus_of_head_ne_plus c cs hc]
      simp [hc]

/-- C20, `u32::from_str` success: `s`, or `s` without one leading '+', is a non-empty list of ASCII
digits whose decimal value is `n`, and `n ≤ u32::MAX` -/
theorem parseU32_ok_iff (s : List Char) (n : Nat) :
    parseU32 s = .ok n ↔
      (digitsValue s = some n ∨ ∃ r, s = '+' :: r ∧ digitsValue r = some n) ∧ n ≤ u32Max := by
  rw [parseU32_ok_iff', digitsValue_stripPlus]

theorem parseU32_ok_le (s : List Char) (n : Nat) (h : parseU32 s = .ok n) : n ≤ u32Max :=
  ((parseU32_ok_iff s n).1 h).2

/-- `IntErrorKind::Empty` exactly on the empty string -/
theorem parseU32_empty_iff (s : List Char) : parseU32 s = .error .empty ↔ s = [] := by
  rw [parseU32_eq]
  by_cases h1 : s = []
  · simp [h1]
  · by_cases h2 : stripPlus s = []
    · simp [h1, h2]
    · simp only [h1, h2, if_false, iff_false]
      exact parseDigits_ne_empty _ _

/-- `IntErrorKind::InvalidDigit`: a lone sign, or (after one optional '+') a non-digit is reached
while the value of the digits before it still fits `u32` -/
theorem parseU32_invalidDigit_iff (s : List Char) :
    parseU32 s = .error .invalidDigit ↔
      s ≠ [] ∧ (stripPlus s = [] ∨
        ∃ pre c post, stripPlus s = pre ++ c :: post ∧ (∀ x ∈ pre, IsDigit x) ∧ ¬ IsDigit c ∧
          decValue pre ≤ u32Max) := by
  rw [parseU32_eq]
  by_cases h1 : s = []
  · simp [h1]
  · by_cases h2 : stripPlus s = []
    · simp [h1, h2]
    · simp only [h1, h2, if_false, ne_eq, not_false_eq_true, true_and, false_or]
      rw [parseDigits_invalidDigit_iff _ _ zero_le_u32Max]
      rfl

/-- `IntErrorKind::PosOverflow`: (after one optional '+') some all-digit prefix already exceeds
`u32::MAX` -/
theorem parseU32_posOverflow_iff (s : List Char) :
    parseU32 s = .error .posOverflow ↔
      ∃ pre post, stripPlus s = pre ++ post ∧ (∀ x ∈ pre, IsDigit x) ∧ decValue pre > u32Max := by
  rw [parseU32_eq]
  have hnil : ¬ ∃ pre post, ([] : List Char) = pre ++ post ∧ (∀ x ∈ pre, IsDigit x) ∧
      decValue pre > u32Max := by
    rintro ⟨pre, post, hs, -, hv⟩
    have : pre = [] := by
      cases pre with
      | nil => rfl
      | cons _ _ => simp at hs
    subst this
    simp [decValue] at hv
  by_cases h1 : s = []
  · subst h1; simpa [stripPlus_nil] using hnil
  · by_cases h2 : stripPlus s = []
    · rw [h2]; simpa [h1] using hnil
    · simp only [h1, h2, if_false]
      rw [parseDigits_posOverflow_iff _ _ zero_le_u32Max]
      rfl

/-- a non-digit before any overflow gives `invalidDigit` (no leading '+' stripped: `pre ≠ []` or
`c ≠ '+'`) -/
theorem parseU32_invalidDigit_of (pre : List Char) (c : Char) (post : List Char)
    (hpre : ∀ x ∈ pre, IsDigit x) (hc : ¬ IsDigit c) (hval : decValue pre ≤ u32Max)
    (hplus : pre = [] → c ≠ '+') :
    parseU32 (pre ++ c :: post) = .error .invalidDigit := by
  rw [parseU32_invalidDigit_iff]
  refine ⟨by simp, Or.inr ⟨pre, c, post, ?_, hpre, hc, hval⟩⟩
  cases pre with
  | nil => exact stripPlus_of_head_ne_plus _ _ (hplus rfl)
  | cons p ps =>
    refine stripPlus_of_head_ne_plus _ _ ?_
    rintro rfl
    exact not_isDigit_plus (hpre _ (List.mem_cons_self ..))

/-- the same after a leading '+' -/
theorem parseU32_plus_invalidDigit_of (pre : List Char) (c : Char) (post : List Char)
    (hpre : ∀ x ∈ pre, IsDigit x) (hc : ¬ IsDigit c) (hval : decValue pre ≤ u32Max) :
    parseU32 ('+' :: (pre ++ c :: post)) = .error .invalidDigit := by
  rw [parseU32_invalidDigit_iff]
  exact ⟨by simp, Or.inr ⟨pre, c, post, stripPlus_plus _, hpre, hc, hval⟩⟩

/-- every input gets exactly one of the four outcomes (`Except` is total; this lists them) -/
theorem parseU32_cases (s : List Char) :
    (∃ n, parseU32 s = .ok n) ∨ parseU32 s = .error .empty ∨
      parseU32 s = .error .invalidDigit ∨ parseU32 s = .error .posOverflow := by
  cases h : parseU32 s with
  | ok n => exact Or.inl ⟨n, rfl⟩
  | error e => cases e <;> simp

/-! ### decimal printing -/

theorem digitChar_isDigit : ∀ d, d < 10 → IsDigit (digitChar d) := by decide
theorem digitChar_toNat : ∀ d, d < 10 → (digitChar d).toNat - 48 = d := by decide

/-- specification of the printing loop: with enough fuel it prepends to `acc` a non-empty list of
digits whose decimal value is `n` -/
theorem digitsAux_spec (fuel n : Nat) (acc : List Char) (hf : n < fuel) :
    ∃ ds, digitsAux fuel n acc = ds ++ acc ∧ ds ≠ [] ∧ (∀ c ∈ ds, IsDigit c) ∧ decValue ds = n := by
  induction fuel generalizing n acc with
  | zero => omega
  | succ fuel ih =>
    unfold digitsAux
    by_cases hn : n < 10
    · simp only [hn, if_true]
      refine ⟨[digitChar n], rfl, by simp, ?_, ?_⟩
      · intro c hc
        rw [List.mem_singleton] at hc
        subst hc
        exact digitChar_isDigit n hn
      · simp [decValue, decStep, digitChar_toNat n hn]
    · simp only [hn, if_false]
      obtain ⟨ds, hds, hne, hdig, hval⟩ := ih (n / 10) (digitChar (n % 10) :: acc) (by omega)
      refine ⟨ds ++ [digitChar (n % 10)], ?_, by simp, ?_, ?_⟩
      · rw [hds]; simp
      · intro c hc
        rcases List.mem_append.1 hc with hc | hc
        · exact hdig c hc
        · rw [List.mem_singleton] at hc
          subst hc
          exact digitChar_isDigit _ (by omega)
      · unfold decValue at hval ⊢
        rw [List.foldl_append, hval]
        simp only [List.foldl_cons, List.foldl_nil, decStep, digitChar_toNat (n % 10) (by omega)]
        omega

/-- `showNat n` is a non-empty list of ASCII digits with decimal value `n` -/
theorem showNat_spec (n : Nat) :
    showNat n ≠ [] ∧ (∀ c ∈ showNat n, IsDigit c) ∧ decValue (showNat n) = n := by
  obtain ⟨ds, hds, hne, hdig, hval⟩ := digitsAux_spec (n + 1) n [] (by omega)
  unfold showNat
  rw [hds, List.append_nil]
  exact ⟨hne, hdig, hval⟩

theorem digitsValue_showNat (n : Nat) : digitsValue (showNat n) = some n :=
  (digitsValue_eq_some_iff _ _).2 (showNat_spec n)

/-- C20: printing a `u32` and parsing it back -/
theorem parseU32_showNat (n : Nat) (h : n ≤ u32Max) : parseU32 (showNat n) = .ok n :=
  (parseU32_ok_iff _ _).2 ⟨Or.inl (digitsValue_showNat n), h⟩

theorem showNat_no_dot (n : Nat) : '.' ∉ showNat n :=
  fun h => not_isDigit_dot ((showNat_spec n).2.1 _ h)

theorem showNat_no_plus (n : Nat) : '+' ∉ showNat n :=
  fun h => not_isDigit_plus ((showNat_spec n).2.1 _ h)

theorem showNat_no_minus (n : Nat) : '-' ∉ showNat n :=
  fun h => not_isDigit_minus ((showNat_spec n).2.1 _ h)

/-! ### `splitDots` -/

theorem splitDots_append_no_dot (a rest cur : List Char) (ha : '.' ∉ a) :
    splitDots (a ++ rest) cur = splitDots rest (a.reverse ++ cur) := by
  induction a generalizing cur with
  | nil => rfl
  | cons c cs ih =>
    have hc : c ≠ '.' := fun e => ha (e ▸ List.mem_cons_self ..)
    have hcs : '.' ∉ cs := fun e => ha (List.mem_cons_of_mem _ e)
    simp only [List.cons_append, splitDots, hc, if_false]
    rw [ih _ hcs]
    simp

theorem splitDots_dot (cs cur : List Char) :
    splitDots ('.' :: cs) cur = cur.reverse :: splitDots cs [] := by
  simp [splitDots]

/-- a dot-free part followed by a dot is split off -/
theorem splitDots_part_dot (a rest : List Char) (ha : '.' ∉ a) :
    splitDots (a ++ '.' :: rest) [] = a :: splitDots rest [] := by
  rw [splitDots_append_no_dot _ _ _ ha, splitDots_dot]; simp

theorem splitDots_last (a : List Char) (ha : '.' ∉ a) : splitDots a [] = [a] := by
  have := splitDots_append_no_dot a [] [] ha
  simp only [List.append_nil] at this
  rw [this]; simp [splitDots]

theorem splitDots_three (a b c : List Char) (ha : '.' ∉ a) (hb : '.' ∉ b) (hc : '.' ∉ c) :
    splitDots (a ++ ['.'] ++ b ++ ['.'] ++ c) [] = [a, b, c] := by
  have e : a ++ ['.'] ++ b ++ ['.'] ++ c = a ++ '.' :: (b ++ '.' :: c) := by simp
  rw [e, splitDots_part_dot _ _ ha, splitDots_part_dot _ _ hb, splitDots_last _ hc]

theorem splitDots_display (v : SemVer) :
    splitDots (display v) [] = [showNat v.major, showNat v.minor, showNat v.patch] :=
  splitDots_three _ _ _ (showNat_no_dot _) (showNat_no_dot _) (showNat_no_dot _)

/-- joining parts with '.' (the inverse of `split('.')`) -/
def joinDots : List (List Char) → List Char
  | [] => []
  | [p] => p
  | p :: q :: r => p ++ '.' :: joinDots (q :: r)

theorem splitDots_joinDots (parts : List (List Char)) (hne : parts ≠ [])
    (hfree : ∀ p ∈ parts, '.' ∉ p) : splitDots (joinDots parts) [] = parts := by
  induction parts with
  | nil => exact absurd rfl hne
  | cons p ps ih =>
    cases ps with
    | nil => exact splitDots_last p (hfree p (List.mem_cons_self ..))
    | cons q r =>
      simp only [joinDots]
      rw [splitDots_part_dot _ _ (hfree p (List.mem_cons_self ..)),
        ih (by simp) (fun x hx => hfree x (List.mem_cons_of_mem _ hx))]

theorem exists_joinDots (s : List Char) :
    ∃ parts, parts ≠ [] ∧ (∀ p ∈ parts, '.' ∉ p) ∧ s = joinDots parts := by
  induction s with
  | nil => exact ⟨[[]], by simp, by simp, rfl⟩
  | cons c cs ih =>
    obtain ⟨parts, hne, hfree, hs⟩ := ih
    cases parts with
    | nil => exact absurd rfl hne
    | cons p ps =>
      by_cases hc : c = '.'
      · subst hc
        refine ⟨[] :: p :: ps, by simp, ?_, by simp [joinDots, hs]⟩
        intro x hx
        rcases List.mem_cons.1 hx with rfl | hx
        · simp
        · exact hfree x hx
      · refine ⟨(c :: p) :: ps, by simp, ?_, ?_⟩
        · intro x hx
          rcases List.mem_cons.1 hx with rfl | hx
          · intro h
            rcases List.mem_cons.1 h with h | h
            · exact hc h.symm
            · exact hfree p (List.mem_cons_self ..) h
          · exact hfree x (List.mem_cons_of_mem _ hx)
        · cases ps with
          | nil => simp [joinDots, hs]
          | cons q r => simp [joinDots, hs]

/-- `split('.')` is characterised as THE decomposition of the input into dot-free parts -/
theorem splitDots_eq_iff (s : List Char) (parts : List (List Char)) :
    splitDots s [] = parts ↔ parts ≠ [] ∧ (∀ p ∈ parts, '.' ∉ p) ∧ s = joinDots parts := by
  constructor
  · intro h
    obtain ⟨ps, hne, hfree, hs⟩ := exists_joinDots s
    have := splitDots_joinDots ps hne hfree
    rw [← hs, h] at this
    subst this
    exact ⟨hne, hfree, hs⟩
  · rintro ⟨hne, hfree, rfl⟩
    exact splitDots_joinDots parts hne hfree

/-! ### `parse` (`impl FromStr`) -/

theorem parse_of_three {s a b c : List Char} (hs : splitDots s [] = [a, b, c]) :
    parse s =
      match parseU32 a with
      | .error e => .error (.parseIntError s a e)
      | .ok ma =>
        match parseU32 b with
        | .error e => .error (.parseIntError s b e)
        | .ok mi =>
          match parseU32 c with
          | .error e => .error (.parseIntError s c e)
          | .ok pa => .ok ⟨ma, mi, pa⟩ := by
  unfold parse
  rw [hs]
  rfl

theorem length_eq_three_iff {α : Type} (l : List α) : l.length = 3 ↔ ∃ a b c, l = [a, b, c] := by
  constructor
  · intro h
    match l, h with
    | [a, b, c], _ => exact ⟨a, b, c, rfl⟩
  · rintro ⟨a, b, c, rfl⟩; rfl

theorem parse_of_not_three {s : List Char} (hs : (splitDots s []).length ≠ 3) :
    parse s = .error (.notThreeParts s) := by
  unfold parse
  split
  · next a b c h => rw [h] at hs; exact absurd rfl hs
  · rfl

/-- C20: `FromStr` succeeds exactly when the string has three '.'-separated parts that each parse
as a `u32` (and then returns those three numbers) -/
theorem parse_ok_iff (s : List Char) (v : SemVer) :
    parse s = .ok v ↔
      ∃ a b c, splitDots s [] = [a, b, c] ∧ parseU32 a = .ok v.major ∧
        parseU32 b = .ok v.minor ∧ parseU32 c = .ok v.patch := by
  constructor
  · intro h
    by_cases h3 : (splitDots s []).length = 3
    · obtain ⟨a, b, c, hs⟩ := (length_eq_three_iff _).1 h3
      refine ⟨a, b, c, hs, ?_⟩
      rw [parse_of_three hs] at h
      cases ha : parseU32 a with
      | error e => simp [ha] at h
      | ok ma =>
        cases hb : parseU32 b with
        | error e => simp [ha, hb] at h
        | ok mi =>
          cases hc : parseU32 c with
          | error e => simp [ha, hb, hc] at h
          | ok pa =>
            simp only [ha, hb, hc, Except.ok.injEq] at h
            subst h
            exact ⟨rfl, rfl, rfl⟩
    · rw [parse_of_not_three h3] at h
      simp at h
  · rintro ⟨a, b, c, hs, ha, hb, hc⟩
    rw [parse_of_three hs, ha, hb, hc]

/-- the same with `split('.')` spelled out on the string: `s = a.b.c` with dot-free `a`, `b`, `c` -/
theorem parse_ok_iff_string (s : List Char) (v : SemVer) :
    parse s = .ok v ↔
      ∃ a b c, '.' ∉ a ∧ '.' ∉ b ∧ '.' ∉ c ∧ s = a ++ '.' :: (b ++ '.' :: c) ∧
        parseU32 a = .ok v.major ∧ parseU32 b = .ok v.minor ∧ parseU32 c = .ok v.patch := by
  rw [parse_ok_iff]
  constructor
  · rintro ⟨a, b, c, hs, h⟩
    obtain ⟨-, hfree, hj⟩ := (splitDots_eq_iff _ _).1 hs
    exact ⟨a, b, c, hfree a (by simp), hfree b (by simp), hfree c (by simp), hj, h⟩
  · rintro ⟨a, b, c, ha, hb, hc, hs, h⟩
    refine ⟨a, b, c, (splitDots_eq_iff _ _).2 ⟨by simp, ?_, hs⟩, h⟩
    intro p hp
    simp only [List.mem_cons, List.not_mem_nil, or_false] at hp
    rcases hp with rfl | rfl | rfl <;> assumption

/-- C20: `NotThreeParts` (carrying the full input) exactly when `split('.')` does not yield three parts -/
theorem parse_notThreeParts_iff (s : List Char) :
    parse s = .error (.notThreeParts s) ↔ (splitDots s []).length ≠ 3 := by
  constructor
  · intro h h3
    obtain ⟨a, b, c, hs⟩ := (length_eq_three_iff _).1 h3
    rw [parse_of_three hs] at h
    cases ha : parseU32 a with
    | error e => simp [ha] at h
    | ok ma =>
      cases hb : parseU32 b with
      | error e => simp [ha, hb] at h
      | ok mi =>
        cases hc : parseU32 c with
        | error e => simp [ha, hb, hc] at h
        | ok pa => simp [ha, hb, hc] at h
  · exact parse_of_not_three

/-- any `NotThreeParts` error carries the input itself -/
theorem parse_notThreeParts_full (s full : List Char) (h : parse s = .error (.notThreeParts full)) :
    full = s ∧ (splitDots s []).length ≠ 3 := by
  by_cases h3 : (splitDots s []).length = 3
  · obtain ⟨a, b, c, hs⟩ := (length_eq_three_iff _).1 h3
    rw [parse_of_three hs] at h
    cases ha : parseU32 a with
    | error e => simp [ha] at h
    | ok ma =>
      cases hb : parseU32 b with
      | error e => simp [ha, hb] at h
      | ok mi =>
        cases hc : parseU32 c with
        | error e => simp [ha, hb, hc] at h
        | ok pa => simp [ha, hb, hc] at h
  · rw [parse_of_not_three h3] at h
    simp only [Except.error.injEq, ParseError.notThreeParts.injEq] at h
    exact ⟨h.symm, h3⟩

/-- `part` is the first of `a`, `b`, `c` (in this order) that `u32::from_str` rejects, with error `e` -/
def FirstOffending (a b c part : List Char) (e : IntErr) : Prop :=
  (part = a ∧ parseU32 a = .error e) ∨
  (part = b ∧ (∃ x, parseU32 a = .ok x) ∧ parseU32 b = .error e) ∨
  (part = c ∧ (∃ x, parseU32 a = .ok x) ∧ (∃ y, parseU32 b = .ok y) ∧ parseU32 c = .error e)

/-- C20: with three parts, the error is `ParseIntError` naming the FIRST offending part (and its
`IntErrorKind`), together with the full input -/
theorem parse_error_first_part (s a b c part : List Char) (e : IntErr)
    (hs : splitDots s [] = [a, b, c]) (h : FirstOffending a b c part e) :
    parse s = .error (.parseIntError s part e) := by
  rw [parse_of_three hs]
  rcases h with ⟨rfl, ha⟩ | ⟨rfl, ⟨x, ha⟩, hb⟩ | ⟨rfl, ⟨x, ha⟩, ⟨y, hb⟩, hc⟩
  · rw [ha]
  · rw [ha, hb]
  · rw [ha, hb, hc]

theorem parse_error_major (s a b c : List Char) (e : IntErr) (hs : splitDots s [] = [a, b, c])
    (ha : parseU32 a = .error e) : parse s = .error (.parseIntError s a e) :=
  parse_error_first_part s a b c a e hs (Or.inl ⟨rfl, ha⟩)

theorem parse_error_minor (s a b c : List Char) (x : Nat) (e : IntErr)
    (hs : splitDots s [] = [a, b, c]) (ha : parseU32 a = .ok x) (hb : parseU32 b = .error e) :
    parse s = .error (.parseIntError s b e) :=
  parse_error_first_part s a b c b e hs (Or.inr (Or.inl ⟨rfl, ⟨x, ha⟩, hb⟩))

theorem parse_error_patch (s a b c : List Char) (x y : Nat) (e : IntErr)
    (hs : splitDots s [] = [a, b, c]) (ha : parseU32 a = .ok x) (hb : parseU32 b = .ok y)
    (hc : parseU32 c = .error e) : parse s = .error (.parseIntError s c e) :=
  parse_error_first_part s a b c c e hs (Or.inr (Or.inr ⟨rfl, ⟨x, ha⟩, ⟨y, hb⟩, hc⟩))

/-- converse: a `ParseIntError` only arises this way -/
theorem parse_parseIntError_iff (s full part : List Char) (e : IntErr) :
    parse s = .error (.parseIntError full part e) ↔
      full = s ∧ ∃ a b c, splitDots s [] = [a, b, c] ∧ FirstOffending a b c part e := by
  constructor
  · intro h
    by_cases h3 : (splitDots s []).length = 3
    · obtain ⟨a, b, c, hs⟩ := (length_eq_three_iff _).1 h3
      rw [parse_of_three hs] at h
      cases ha : parseU32 a with
      | error e' =>
        simp only [ha, Except.error.injEq, ParseError.parseIntError.injEq] at h
        obtain ⟨h1, h2, h3⟩ := h
        exact ⟨h1.symm, a, b, c, hs, Or.inl ⟨h2.symm, h3 ▸ ha⟩⟩
      | ok ma =>
        cases hb : parseU32 b with
        | error e' =>
          simp only [ha, hb, Except.error.injEq, ParseError.parseIntError.injEq] at h
          obtain ⟨h1, h2, h3⟩ := h
          exact ⟨h1.symm, a, b, c, hs, Or.inr (Or.inl ⟨h2.symm, ⟨ma, ha⟩, h3 ▸ hb⟩)⟩
        | ok mi =>
          cases hc : parseU32 c with
          | error e' =>
            simp only [ha, hb, hc, Except.error.injEq, ParseError.parseIntError.injEq] at h
            obtain ⟨h1, h2, h3⟩ := h
            exact ⟨h1.symm, a, b, c, hs, Or.inr (Or.inr ⟨h2.symm, ⟨ma, ha⟩, ⟨mi, hb⟩, h3 ▸ hc⟩)⟩
          | ok pa => simp [ha, hb, hc] at h
    · rw [parse_of_not_three h3] at h
      simp at h
  · rintro ⟨rfl, a, b, c, hs, h⟩
    exact parse_error_first_part _ a b c part e hs h

/-- every accepted component is a `u32` -/
theorem parse_valid (s : List Char) (v : SemVer) (h : parse s = .ok v) : v.Valid := by
  obtain ⟨a, b, c, -, ha, hb, hc⟩ := (parse_ok_iff s v).1 h
  exact ⟨parseU32_ok_le _ _ ha, parseU32_ok_le _ _ hb, parseU32_ok_le _ _ hc⟩

/-- C20: `Display` followed by `FromStr` returns the same version -/
theorem parse_display (v : SemVer) (hv : v.Valid) : parse (display v) = .ok v :=
  (parse_ok_iff _ _).2 ⟨_, _, _, splitDots_display v, parseU32_showNat _ hv.1,
    parseU32_showNat _ hv.2.1, parseU32_showNat _ hv.2.2⟩

/-- `Display` is injective on valid versions -/
theorem display_injective (v w : SemVer) (hv : v.Valid) (hw : w.Valid)
    (h : display v = display w) : v = w := by
  have h1 := parse_display v hv
  rw [h, parse_display w hw] at h1
  exact (Except.ok.inj h1).symm

example : parse "1.2.3".toList = .ok ⟨1, 2, 3⟩ := by rfl
example : parse "+1.02.4294967295".toList = .ok ⟨1, 2, 4294967295⟩ := by rfl
example : parse "1.2".toList = .error (.notThreeParts "1.2".toList) := by rfl
example : parse "1.2.3.".toList = .error (.notThreeParts "1.2.3.".toList) := by rfl
example : parse "1.abc.3".toList =
    .error (.parseIntError "1.abc.3".toList "abc".toList .invalidDigit) := by rfl
example : parse "1.2.-3".toList =
    .error (.parseIntError "1.2.-3".toList "-3".toList .invalidDigit) := by rfl
example : parse "1.2.9876543210".toList =
    .error (.parseIntError "1.2.9876543210".toList "9876543210".toList .posOverflow) := by rfl
example : parse "x..3".toList = .error (.parseIntError "x..3".toList "x".toList .invalidDigit) := by
  rfl
example : parse "1..3".toList = .error (.parseIntError "1..3".toList [] .empty) := by rfl
example : display ⟨10, 0, 4294967295⟩ = "10.0.4294967295".toList := by rfl
example : parse (display ⟨10, 0, 4294967295⟩) = .ok ⟨10, 0, 4294967295⟩ := by rfl

/-! ### ordering (derived `Ord`) -/

theorem cmp_eq_iff (a b : SemVer) : cmp a b = .eq ↔ a = b := by
  cases a with
  | mk a1 a2 a3 =>
  cases b with
  | mk b1 b2 b3 =>
  simp only [cmp, SemVer.mk.injEq]
  repeat' split
  all_goals simp only [reduceCtorEq, false_iff, true_iff]
  all_goals omega

theorem cmp_lt_iff (a b : SemVer) :
    cmp a b = .lt ↔ (a.major < b.major ∨ (a.major = b.major ∧
      (a.minor < b.minor ∨ (a.minor = b.minor ∧ a.patch < b.patch)))) := by
  simp only [cmp]
  repeat' split
  all_goals simp only [reduceCtorEq, false_iff, true_iff]
  all_goals omega

theorem cmp_gt_iff (a b : SemVer) :
    cmp a b = .gt ↔ (b.major < a.major ∨ (b.major = a.major ∧
      (b.minor < a.minor ∨ (b.minor = a.minor ∧ b.patch < a.patch)))) := by
  simp only [cmp]
  repeat' split
  all_goals simp only [reduceCtorEq, false_iff, true_iff]
  all_goals omega

theorem cmp_swap (a b : SemVer) : cmp b a = (cmp a b).swap := by
  simp only [cmp]
  repeat' split
  all_goals first | rfl | omega

theorem cmp_refl (a : SemVer) : cmp a a = .eq := (cmp_eq_iff a a).2 rfl

theorem cmp_lt_trans (a b c : SemVer) (h1 : cmp a b = .lt) (h2 : cmp b c = .lt) : cmp a c = .lt := by
  rw [cmp_lt_iff] at *
  omega

theorem cmp_lt_irrefl (a : SemVer) : cmp a a ≠ .lt := by
  rw [cmp_refl]; simp

/-- trichotomy: exactly the three lexicographic cases -/
theorem cmp_lt_or_eq_or_gt (a b : SemVer) : cmp a b = .lt ∨ a = b ∨ cmp b a = .lt := by
  cases h : cmp a b with
  | lt => exact Or.inl rfl
  | eq => exact Or.inr (Or.inl ((cmp_eq_iff a b).1 h))
  | gt => right; right; rw [cmp_swap, h]; rfl

/-! ### tuple conversions -/

theorem ofTuple_toTuple (v : SemVer) : ofTuple (toTuple v) = v := rfl
theorem toTuple_ofTuple (t : Nat × Nat × Nat) : toTuple (ofTuple t) = t := rfl

/-! ### bumps -/

theorem bumpPatch_spec (v : SemVer) (h : v.patch < u32Max) :
    ∃ w, bumpPatch v = some w ∧ cmp v w = .lt ∧ w.major = v.major ∧ w.minor = v.minor ∧
      w.patch = v.patch + 1 ∧ (v.Valid → w.Valid) := by
  refine ⟨⟨v.major, v.minor, v.patch + 1⟩, by simp [bumpPatch, h], ?_, rfl, rfl, rfl, ?_⟩
  · rw [cmp_lt_iff]; simp
  · rintro ⟨h1, h2, -⟩; exact ⟨h1, h2, h⟩

theorem bumpMinor_spec (v : SemVer) (h : v.minor < u32Max) :
    ∃ w, bumpMinor v = some w ∧ cmp v w = .lt ∧ w.major = v.major ∧ w.minor = v.minor + 1 ∧
      w.patch = 0 ∧ (v.Valid → w.Valid) := by
  refine ⟨⟨v.major, v.minor + 1, 0⟩, by simp [bumpMinor, h], ?_, rfl, rfl, rfl, ?_⟩
  · rw [cmp_lt_iff]; simp
  · rintro ⟨h1, -, -⟩; exact ⟨h1, h, Nat.zero_le _⟩

theorem bumpMajor_spec (v : SemVer) (h : v.major < u32Max) :
    ∃ w, bumpMajor v = some w ∧ cmp v w = .lt ∧ w.major = v.major + 1 ∧ w.minor = 0 ∧
      w.patch = 0 ∧ (v.Valid → w.Valid) := by
  refine ⟨⟨v.major + 1, 0, 0⟩, by simp [bumpMajor, h], ?_, rfl, rfl, rfl, ?_⟩
  · rw [cmp_lt_iff]; simp
  · intro _; exact ⟨h, Nat.zero_le _, Nat.zero_le _⟩

/-- the bumps are `none` exactly at `u32::MAX` (for valid versions), where the Rust overflows -/
theorem bumpPatch_eq_none_iff (v : SemVer) : bumpPatch v = none ↔ ¬ v.patch < u32Max := by
  unfold bumpPatch; split <;> simp_all
theorem bumpMinor_eq_none_iff (v : SemVer) : bumpMinor v = none ↔ ¬ v.minor < u32Max := by
  unfold bumpMinor; split <;> simp_all
theorem bumpMajor_eq_none_iff (v : SemVer) : bumpMajor v = none ↔ ¬ v.major < u32Max := by
  unfold bumpMajor; split <;> simp_all

example : bumpPatch ⟨1, 2, 3⟩ = some ⟨1, 2, 4⟩ := by rfl
example : bumpMinor ⟨1, 2, 3⟩ = some ⟨1, 3, 0⟩ := by rfl
example : bumpMajor ⟨1, 2, 3⟩ = some ⟨2, 0, 0⟩ := by rfl
example : bumpPatch ⟨1, 2, 4294967295⟩ = none := by rfl
example : cmp ⟨1, 2, 3⟩ ⟨1, 10, 0⟩ = .lt := by rfl
example : cmp ⟨2, 0, 0⟩ ⟨1, 10, 0⟩ = .gt := by rfl

end SemVer
end Pubgrub

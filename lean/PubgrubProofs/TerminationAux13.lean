/-
Helpers for `Termination.lean`, part 13: the run-level invariant — the new state-level invariants, the
bound `nextGlobalIndex + rank ≤ (B+1)^D`, enough fuel, no `outOfFuel` outcome, and a budget of remaining
provider calls that decreases with every answer (P1, P2 of the plan).
-/
import PubgrubProofs.TerminationAux12

set_option linter.unusedSectionVars false
set_option linter.unusedVariables false

namespace Pubgrub
open VersionSet

variable {P S V M Pr E : Type} [DecidableEq P] [VersionSet S V] [DecidableEq S] [DecidableEq V]
  [LE Pr] [DecidableLE Pr] [LawfulVersionSet S V]
variable {W : World P S V M} {root : P} {rv : V} (fw : FiniteWorld W root rv)

/-- the bound of the measure -/
def Cmax : Nat := (Bnd fw + 1) ^ Dim fw

/-- twice the bound of the number of provider calls in one cycle of the main loop -/
def Kc2 : Nat := 2 * fw.pkgs.length + 12

/-- the number of further answers after which the run has returned -/
def Budget (x : SolverState P S V M Pr × Request P S V M Pr E) (n : Nat) : Prop :=
  match x.1.phase with
  | .finished => True
  | .cancel => (TrigAt x.1.st x.1.next ∧ Kc2 fw * rank fw x.1.st.ps + 1 ≤ n) ∨
      Kc2 fw * rank fw x.1.st.ps + fw.pkgs.length + 6 ≤ n
  | .prioritizing _ rest _ => Kc2 fw * rank fw x.1.st.ps + rest.length + 5 ≤ n
  | .picking _ => Kc2 fw * rank fw x.1.st.ps + 4 ≤ n
  | .choosing _ _ => Kc2 fw * rank fw x.1.st.ps + 3 ≤ n
  | .fetching _ _ => Kc2 fw * rank fw x.1.st.ps + 2 ≤ n

/-- the run-level invariant of the termination proof -/
structure RInvM (x : SolverState P S V M Pr × Request P S V M Pr E) (n : Nat) : Prop where
  live : x.1.phase ≠ .finished → KInv fw x.1.st ∧ x.1.st.AccInv ∧
    x.1.st.ps.nextGlobalIndex + rank fw x.1.st.ps ≤ Cmax fw
  fetching : ∀ p v, x.1.phase = .fetching p v → v ∈ W.versions p
  fuel : 3 * Cmax fw + 3 ≤ x.1.fuel
  nofuel : x.2 ≠ .fault .outOfFuel
  budget : Budget fw x n

theorem kc2_mono {r' r : Nat} (h : r' ≤ r) : Kc2 fw * r' ≤ Kc2 fw * r := Nat.mul_le_mul_left _ h

theorem kc2_strict {r' r : Nat} (h : r' < r) : Kc2 fw * r' + Kc2 fw ≤ Kc2 fw * r := by
  have := Nat.mul_le_mul_left (Kc2 fw) (Nat.succ_le_of_lt h)
  rw [Nat.mul_succ] at this
  exact this

theorem rinvM_finish (s : SolverState P S V M Pr) (r : Request P S V M Pr E) (n : Nat)
    (hr : r ≠ .fault .outOfFuel) (hf : 3 * Cmax fw + 3 ≤ s.fuel) : RInvM fw (Solver.finish s r) n := by
  refine ⟨fun h => absurd rfl h, ?_, hf, hr, ?_⟩
  · intro p v h; simp [Solver.finish] at h
  · simp [Budget, Solver.finish]

theorem rinvM_loopAgain (s : SolverState P S V M Pr) (st : State P S V M Pr) (n : Nat)
    (hk : KInv fw st) (hacc : st.AccInv) (hidx : st.ps.nextGlobalIndex + rank fw st.ps ≤ Cmax fw)
    (hf : 3 * Cmax fw + 3 ≤ s.fuel)
    (hb : (TrigAt st s.next ∧ Kc2 fw * rank fw st.ps + 1 ≤ n) ∨
      Kc2 fw * rank fw st.ps + fw.pkgs.length + 6 ≤ n) :
    RInvM fw (Solver.loopAgain (E := E) s st) n := by
  refine ⟨fun _ => ⟨hk, hacc, hidx⟩, ?_, hf, ?_, ?_⟩
  · intro p v h; simp [Solver.loopAgain] at h
  · intro h; simp [Solver.loopAgain] at h
  · simp only [Budget, Solver.loopAgain]; exact hb

theorem fault_ne_of_nooof {α : Type} {x : R α} {f : Fault} (hx : NoOOF x) (he : x = .error f) :
    (Request.fault f : Request P S V M Pr E) ≠ .fault .outOfFuel := by
  intro h
  injection h with h
  subst h; subst he
  exact hx

/-- the number of packages `prioritize` is asked about is at most the number of packages -/
theorem toPrioritize_length {ps : PartialSolution P S V Pr} {L : List (P × S)}
    (h : ps.toPrioritize = .ok L) : L.length ≤ ps.assignments.length := by
  unfold PartialSolution.toPrioritize at h
  split at h
  · cases h
  · injection h with h
    subst h
    exact Nat.le_trans (List.length_filterMap_le _ _) (by rw [List.length_drop]; omega)

theorem assignments_length_le {st : State P S V M Pr} (hk : KInv fw st) (hw : st.ps.WF) :
    st.ps.assignments.length ≤ fw.pkgs.length := by
  have h2 : (st.ps.assignments.map Prod.fst).length ≤ fw.pkgs.length :=
    Tm.nodup_subset_length_le _ _ hw.keys (by
      intro x hx
      rw [List.mem_map] at hx
      obtain ⟨kv, hkv, rfl⟩ := hx
      exact (hk.ps kv hkv).1.1)
  rw [List.length_map] at h2
  exact h2

/-- the decision for the package in flight: the invariants and the measure -/
theorem decided_minv {st : State P S V M Pr} (hp : PInv st) (hk : KInv fw st) (hacc : st.AccInv)
    {p : P} {v : V} {t : Term S}
    {ps : PartialSolution P S V Pr} {debug : Bool} (hfl : st.ps.InFlightOK p)
    (hterm : st.ps.termIntersectionForPackage p = some t) (hcont : t.contains v = true)
    (hv : v ∈ W.versions p) (hps : st.ps.addDecision debug p v = .ok ps) :
    KInv fw ({ st with ps := ps } : State P S V M Pr) ∧
    State.AccInv ({ st with ps := ps } : State P S V M Pr) ∧
    rank fw ps < rank fw st.ps ∧ ps.nextGlobalIndex = st.ps.nextGlobalIndex + 1 := by
  obtain ⟨h1, _, _⟩ := decided_ok hp hfl hterm hcont hps
  obtain ⟨_, _, pa, set, hpa, hinter⟩ := hfl
  have hw := hp.wf.wf
  have hw' : ps.WF := h1.wf.wf
  have hstep := PartialSolution.addDecision_step hw hps hw' hpa hinter
  have hlvl := level_lt_Dim fw hw (fun kv hkv => (hk.ps kv hkv).1.1)
  refine ⟨hk.decide fw hw hps hw' hpa hinter hv rfl rfl, hacc.decide hw hps hw' hpa hinter rfl rfl,
    rank_addDecision fw hw hps hw' hpa hinter (by omega), hstep.next⟩

theorem rinvM_step (ce : CanonEmpty S V) (hW : W.SetsValid)
    (s : SolverState P S V M Pr) (req : Request P S V M Pr E) (a : Answer P S V M Pr E) (n : Nat)
    (h0 : RInv W root rv (s, req)) (h1 : RInv' (s, req)) (hT : RInvT root rv (s, req))
    (hN : RInvN (s, req)) (h : RInvM fw (s, req) (n + 1)) (ha : AnswerOK W req a) :
    RInvM fw (Solver.step s a) n := by
  have hs : SInv W root rv s.st := h0.sinv
  have hfuel := h.fuel
  simp only at hfuel
  have hbud := h.budget
  -- the bundle of invariants of a live state
  have hminv : s.phase ≠ .finished → MInv fw s.st ∧
      s.st.ps.nextGlobalIndex + rank fw s.st.ps ≤ Cmax fw := by
    intro hlive
    obtain ⟨hk, hacc, hidx⟩ := h.live hlive
    exact ⟨⟨hs, (h1.live hlive).1, hT.live hlive, hN hlive, hk, hacc⟩, hidx⟩
  unfold Solver.step
  split
  · -- finished
    rename_i hph
    refine ⟨fun hn => absurd hph hn, ?_, hfuel, ?_, ?_⟩
    · intro p v h'; simp only at h'; rw [hph] at h'; cases h'
    · intro h'; cases h'
    · simp only [Budget, hph]
  · exact rinvM_finish fw s _ n (by intro h'; cases h') hfuel
  · -- cancel, ok
    rename_i hph
    have hlive : s.phase ≠ .finished := by rw [hph]; intro e; cases e
    obtain ⟨hm, hidx⟩ := hminv hlive
    have hrb := rank_bound fw s.st.ps
    have hup := State.unitPropagation_term fw ce (Cmax fw) (fuel := s.fuel) s.next hm hidx (by
      unfold Cmax at hfuel ⊢; omega)
    simp only [Budget, hph] at hbud
    split
    · rename_i f hu
      exact rinvM_finish fw s _ n (fault_ne_of_nooof hup.nooof hu) hfuel
    · rename_i st terminal hu
      obtain ⟨hs1, hterm⟩ := State.unitPropagation_inv W root rv hu hs
      obtain ⟨inc, hinc, _⟩ := hterm terminal rfl
      obtain ⟨tree, htree⟩ := State.buildDerivationTree_ok st
        (TreeAux.causesBelow_of_storeInv W root rv st.store hs1.store) terminal
        (List.getElem?_eq_some_iff.1 hinc).1
      rw [htree]
      exact rinvM_finish fw _ _ n (by intro h'; cases h') hfuel
    · rename_i st hu
      obtain ⟨hm1, hr1, hidx1, htrig⟩ := hup.of_ok hu rfl
      simp only at hm1 hr1 hidx1 htrig
      have hlen := assignments_length_le fw hm1.k hm1.p.wf.wf
      have hkc : Kc2 fw = 2 * fw.pkgs.length + 12 := rfl
      -- the budget left after the propagation, for at most `|pkgs|` calls of `prioritize`
      have hb1 : ∀ k, k ≤ fw.pkgs.length → Kc2 fw * rank fw st.ps + k + 4 ≤ n := by
        intro k hk
        rcases hbud with ⟨htr, hb⟩ | hb
        · have := kc2_strict fw (htrig htr)
          omega
        · have := kc2_mono fw hr1
          omega
      split
      · rename_i f hL
        exact rinvM_finish fw _ _ n (fault_ne_of_nooof (PartialSolution.toPrioritize_nooof _) hL) hfuel
      · rename_i hL
        refine ⟨fun _ => ⟨hm1.k, hm1.acc, hidx1⟩, ?_, hfuel, ?_, ?_⟩
        · intro p v h'; simp at h'
        · intro h'; cases h'
        · simp only [Budget]
          have := hb1 0 (Nat.zero_le _)
          omega
      · rename_i cur rest hL
        refine ⟨fun _ => ⟨hm1.k, hm1.acc, hidx1⟩, ?_, hfuel, ?_, ?_⟩
        · intro p v h'; simp at h'
        · intro h'; cases h'
        · simp only [Budget]
          have h3 := toPrioritize_length hL
          simp only [List.length_cons] at h3
          have := hb1 (rest.length + 1) (by omega)
          omega
  · -- prioritizing
    rename_i cur rest acc pr hph
    have hlive : s.phase ≠ .finished := by rw [hph]; intro e; cases e
    obtain ⟨hm, hidx⟩ := hminv hlive
    simp only [Budget, hph] at hbud
    simp only
    split
    · refine ⟨fun _ => ⟨hm.k, hm.acc, hidx⟩, ?_, hfuel, ?_, ?_⟩
      · intro p v h'; simp at h'
      · intro h'; cases h'
      · simp only [Budget]
        simp only [List.length_nil] at hbud
        omega
    · rename_i nxt rest'
      refine ⟨fun _ => ⟨hm.k, hm.acc, hidx⟩, ?_, hfuel, ?_, ?_⟩
      · intro p v h'; simp at h'
      · intro h'; cases h'
      · simp only [Budget]
        simp only [List.length_cons] at hbud
        omega
  · -- picking
    rename_i acc o hph
    have hlive : s.phase ≠ .finished := by rw [hph]; intro e; cases e
    obtain ⟨hm, hidx⟩ := hminv hlive
    simp only [Budget, hph] at hbud
    simp only
    split
    · split
      · exact rinvM_finish fw s _ n (by intro h'; cases h') hfuel
      · split
        · rename_i f hb
          exact rinvM_finish fw _ _ n (fault_ne_of_nooof (PartialSolution.extractSolution_nooof _) hb) hfuel
        · exact rinvM_finish fw _ _ n (by intro h'; cases h') hfuel
    · rename_i p
      split
      · exact rinvM_finish fw s _ n (by intro h'; cases h') hfuel
      · split
        · exact rinvM_finish fw _ _ n (by intro h'; cases h') hfuel
        · rename_i t ht
          split
          · rename_i f hb
            exact rinvM_finish fw _ _ n (fault_ne_of_nooof (Incompat.unwrapPositive_nooof t) hb) hfuel
          · have hr : rank fw ({ s.st.ps.afterPrioritize acc with
                queue := SmallMap.remove (s.st.ps.afterPrioritize acc).queue p } : PartialSolution P S V Pr) =
                rank fw s.st.ps := rank_congr fw rfl rfl
            refine ⟨fun _ => ⟨hm.k.congr fw rfl rfl, hm.acc.storeExt rfl (fun _ _ h => h), ?_⟩, ?_, hfuel, ?_, ?_⟩
            · show s.st.ps.nextGlobalIndex + rank fw _ ≤ Cmax fw
              rw [hr]; exact hidx
            · intro p' v' h'; simp at h'
            · intro h'; cases h'
            · simp only [Budget]
              rw [hr]
              omega
  · -- choosing, error
    exact rinvM_finish fw s _ n (by intro h'; cases h') hfuel
  · -- choosing, none
    rename_i p t hph
    have hlive : s.phase ≠ .finished := by rw [hph]; intro e; cases e
    obtain ⟨hm, hidx⟩ := hminv hlive
    simp only [Budget, hph] at hbud
    obtain ⟨hnext, hterm, hall, hqn, hpos⟩ := h1.choosing p t hph
    obtain ⟨htv, set, hreq, hts⟩ := h0.choosing p t hph
    simp only at hnext hterm hall hqn hpos hreq
    subst hreq
    split
    · rename_i f hb
      exact rinvM_finish fw s _ n
        (fault_ne_of_nooof (Incompat.noVersions_nooof (V := V) (M := M) p t) hb) hfuel
    · rename_i inc hinc
      obtain ⟨hterms, hdep⟩ := Incompat.noVersions_ok hinc
      have g : inc.Good W root rv s.st.store s.st.store.length :=
        Incompat.noVersions_good W root rv _ _ p t htv set (by subst hts; rfl) ha inc hinc
      split
      · rename_i f hb
        exact rinvM_finish fw s _ n (fault_ne_of_nooof (State.addIncompatibility_nooof s.st inc) hb) hfuel
      · rename_i st hadd
        obtain ⟨e1, _, e3, _⟩ := State.addIncompatibility_single hterms hdep hadd
        have hk1 : KInv fw st := State.addIncompatibility_kinv fw hadd
          (storeInv_push W root rv s.st.store inc hs.store g) hm.k
          (oki_single fw hterms (hm.k.terms fw hterm))
        have hacc1 : st.AccInv := hm.acc.storeExt (by rw [e1]) (by
          intro i inc' hi
          rw [e3, List.getElem?_append_left (List.getElem?_eq_some_iff.1 hi).1]; exact hi)
        refine rinvM_loopAgain fw s st n hk1 hacc1 (by rw [e1]; exact hidx) hfuel (Or.inl ⟨?_, ?_⟩)
        · rw [hnext]
          refine State.trigAt_single W root rv hterms hdep hadd hm.p hpos hterm ?_
          rw [Term.relationWith_self t htv]; intro e; cases e
        · rw [e1]; omega
  · -- choosing, some v
    rename_i p t v hph
    have hlive : s.phase ≠ .finished := by rw [hph]; intro e; cases e
    obtain ⟨hm, hidx⟩ := hminv hlive
    simp only [Budget, hph] at hbud
    obtain ⟨hnext, hterm, hfl⟩ := h1.choosing p t hph
    obtain ⟨htv, set, hreq, hts⟩ := h0.choosing p t hph
    simp only at hnext hterm hfl hreq
    subst hreq
    have hv : v ∈ W.versions p := ha
    split
    · exact rinvM_finish fw s _ n (by intro h'; cases h') hfuel
    · rename_i hcont
      have hcont' : t.contains v = true := by
        cases hc : t.contains v with
        | true => rfl
        | false => rw [hc] at hcont; simp at hcont
      simp only
      split
      · refine ⟨fun _ => ⟨hm.k, hm.acc, hidx⟩, ?_, hfuel, ?_, ?_⟩
        · intro p' v' h'
          simp only [Phase.fetching.injEq] at h'
          obtain ⟨rfl, rfl⟩ := h'
          exact hv
        · intro h'; cases h'
        · simp only [Budget]
          omega
      · split
        · rename_i f hb
          exact rinvM_finish fw _ _ n
            (fault_ne_of_nooof (PartialSolution.addDecision_nooof s.st.debug s.st.ps p v) hb) hfuel
        · rename_i ps hps
          obtain ⟨hk1, hacc1, hrk, hngi⟩ := decided_minv fw hm.p hm.k hm.acc hfl hterm hcont' hv hps
          have hkc : Kc2 fw = 2 * fw.pkgs.length + 12 := rfl
          have := kc2_strict fw hrk
          refine rinvM_loopAgain fw _ _ n hk1 hacc1 ?_ hfuel (Or.inr ?_)
          · show ps.nextGlobalIndex + rank fw ps ≤ Cmax fw
            omega
          · show Kc2 fw * rank fw ps + fw.pkgs.length + 6 ≤ n
            omega
  · -- fetching, error
    exact rinvM_finish fw s _ n (by intro h'; cases h') hfuel
  · -- fetching, unavailable
    rename_i p v m hph
    have hlive : s.phase ≠ .finished := by rw [hph]; intro e; cases e
    obtain ⟨hm, hidx⟩ := hminv hlive
    simp only [Budget, hph] at hbud
    obtain ⟨hnext, ⟨hall, hqn, hpos⟩, t, hterm, hcont⟩ := h1.fetching p v hph
    simp only at hnext hterm hall hqn hpos
    have hreq := h0.fetching p v hph
    simp only at hreq
    subst hreq
    have hv := h.fetching p v hph
    split
    · rename_i f hb
      exact rinvM_finish fw s _ n
        (fault_ne_of_nooof (State.addIncompatibility_nooof s.st (Incompat.customVersion p v m)) hb) hfuel
    · rename_i st hadd
      have g := Incompat.customVersion_good W root rv s.st.store s.st.store.length p v m ha
      obtain ⟨e1, _, e3, _⟩ := State.addIncompatibility_single
        (inc := (Incompat.customVersion p v m : Incompat P S V M)) (tp := Term.pos (VersionSet.singleton v))
        rfl rfl hadd
      have hp' : p ∈ fw.pkgs := (hm.k.terms fw hterm).1
      have hk1 : KInv fw st := State.addIncompatibility_kinv fw hadd
        (storeInv_push W root rv s.st.store _ hs.store g) hm.k
        (oki_single fw (p := p) (t := Term.pos (VersionSet.singleton v)) rfl
          ⟨hp', GeneratedSet.version v hv⟩)
      have hacc1 : st.AccInv := hm.acc.storeExt (by rw [e1]) (by
        intro i inc' hi
        rw [e3, List.getElem?_append_left (List.getElem?_eq_some_iff.1 hi).1]; exact hi)
      refine rinvM_loopAgain fw s st n hk1 hacc1 (by rw [e1]; exact hidx) hfuel (Or.inl ⟨?_, ?_⟩)
      · rw [hnext]
        refine State.trigAt_single W root rv (tp := Term.pos (VersionSet.singleton v)) rfl rfl hadd hm.p hpos
          hterm ?_
        refine Term.relationWith_ne_contradicted_of_common _ _ v (LawfulVersionSet.valid_singleton v)
          (PartialSolution.termIntersection_valid hs.ps hterm) ?_ hcont
        simp [Term.contains, (LawfulVersionSet.contains_singleton (S := S) v v).2 rfl]
      · rw [e1]; omega
  · -- fetching, available
    rename_i p v deps hph
    have hlive : s.phase ≠ .finished := by rw [hph]; intro e; cases e
    obtain ⟨hm, hidx⟩ := hminv hlive
    simp only [Budget, hph] at hbud
    obtain ⟨hnext, hfl, t, hterm, hcont⟩ := h1.fetching p v hph
    simp only at hnext hterm hfl
    have hreq := h0.fetching p v hph
    simp only at hreq
    subst hreq
    have hv := h.fetching p v hph
    have hd : W.deps p v = .available deps := ha
    have hp' : p ∈ fw.pkgs := (hm.k.terms fw hterm).1
    split
    · rename_i f hb
      exact rinvM_finish fw s _ n
        (fault_ne_of_nooof (State.addIncompatibilityFromDependencies_nooof s.st p v deps) hb) hfuel
    · rename_i st start stop hadd
      obtain ⟨hp1, eps⟩ := State.addIncompatibilityFromDependencies_pinv hadd hm.p
      have hpre := State.addIncompatibilityFromDependencies_prefix hadd
      have hs1 := State.addIncompatibilityFromDependencies_inv W hW root rv hadd hs hd
      have hk1 : KInv fw st := State.addIncompatibilityFromDependencies_kinv fw hW hadd hs hm.k hd hv hp'
      have hacc1 : st.AccInv := hm.acc.storeExt (by rw [eps]) hpre
      simp only
      split
      · rename_i f hb
        exact rinvM_finish fw _ _ n (fault_ne_of_nooof (PartialSolution.addVersion_nooof st.debug st.ps p v
          ((st.store.drop start).take (stop - start))) hb) hfuel
      · rename_i ps hps
        have hfl1 : st.ps.InFlightOK p := eps ▸ hfl
        have hterm1 : st.ps.termIntersectionForPackage p = some t := eps ▸ hterm
        have hkc : Kc2 fw = 2 * fw.pkgs.length + 12 := rfl
        -- a decision
        have hdec : st.ps.addDecision st.debug p v = .ok ps →
            RInvM fw (Solver.loopAgain (E := E) s ({ st with ps := ps } : State P S V M Pr)) n := by
          intro hps'
          obtain ⟨hk2, hacc2, hrk, hngi⟩ := decided_minv fw hp1 hk1 hacc1 hfl1 hterm1 hcont hv hps'
          rw [eps] at hrk hngi
          have := kc2_strict fw hrk
          refine rinvM_loopAgain fw _ _ n hk2 hacc2 ?_ hfuel (Or.inr ?_)
          · show ps.nextGlobalIndex + rank fw ps ≤ Cmax fw
            omega
          · show Kc2 fw * rank fw ps + fw.pkgs.length + 6 ≤ n
            omega
        unfold PartialSolution.addVersion at hps
        split at hps
        · exact hdec hps
        · simp only at hps
          split at hps
          · exact hdec hps
          · rename_i hnall
            injection hps with hps; subst hps
            have hdecl : ∃ i ∈ (st.store.drop start).take (stop - start),
                i.relation (fun q => if q = p then some (Term.exact v) else st.ps.termIntersectionForPackage q) =
                  .satisfied := by
              rw [List.all_eq_true] at hnall
              simp only [not_forall] at hnall
              obtain ⟨i, hi, hni⟩ := hnall
              refine ⟨i, hi, ?_⟩
              simpa using hni
            have htr := State.trigAt_declined W hW root rv hs hm.p hadd ha hfl.2.2 hterm hcont hdecl
            refine rinvM_loopAgain fw _ _ n hk1 hacc1 (by rw [eps]; exact hidx) hfuel (Or.inl ⟨?_, ?_⟩)
            · show TrigAt st s.next
              rw [hnext]; exact htr
            · show Kc2 fw * rank fw st.ps + 1 ≤ n
              rw [eps]; omega
  · -- anything else
    exact rinvM_finish fw s _ n (by intro h'; cases h') hfuel

end Pubgrub

//! C17 (a): the provided methods of the `VersionSet` trait on a custom implementation.
use crate::cases::Case;
use crate::hset::BitSet8;
use crate::util::bit;
use pubgrub::VersionSet;

/// `bset2|a|b` : the provided methods on two 8-bit sets
pub fn eval_bset2(req: &str, a: u32, b: u32) -> Case {
    let (x, y) = (BitSet8(a as u8), BitSet8(b as u8));
    let full = BitSet8::full();
    let u = x.union(&y);
    let d = x.is_disjoint(&y);
    let s = x.subset_of(&y);
    let imp = format!("F={}|U={}|D={}|S={}", full.0, u.0, bit(d), bit(s));
    let mut fail = None;
    if full.0 != 0xff {
        fail = Some("full() is not the universe".to_string());
    }
    if u.0 != (a as u8 | b as u8) {
        fail = Some("union wrong".to_string());
    }
    if d != ((a as u8 & b as u8) == 0) {
        fail = Some("is_disjoint wrong".to_string());
    }
    if s != ((a as u8 & !(b as u8)) == 0) {
        fail = Some("subset_of wrong".to_string());
    }
    Case { req: req.to_string(), imp, nontrivial: a != b && a != 0 && b != 0, oracle_fail: fail, tags: vec!["bitset_pair"] }
}

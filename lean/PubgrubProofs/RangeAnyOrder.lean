/-
TARGET FILE: PubgrubProofs/RangeAnyOrder.lean
The solver theorems for `Range V` over ANY linear order `V` — in particular the discrete orders the
crate's users have (`u32`, `SemanticVersion`), for which `Range V` is NOT a `LawfulVersionSet`
(`1 < v < 2` is a canonical, member-free, non-`empty` set; `==` is finer than set equality).
Method: `Range.denseHom : VSetHom (Range V) V (Range (Dense V)) (Dense V)` (PubgrubProofs/RangeHom.lean)
embeds `Range V` into `Range (Dense V)`, which IS lawful (`Range.lawful`, PubgrubProofs/VSetInstances.lean)
with canonical emptiness (`Range.canonicalEmpty`, PubgrubProofs/CanonInstances.lean); the solver commutes
with the embedding (PubgrubProofs/HomSolver.lean: `reachable_mapH`, `reachableWB_mapH`, `trace_mapH`, …);
so each theorem proved for lawful version sets is applied to the image run and pulled back.
The pull-backs are small: `IsSolution` / `ReachableFrom` / term evaluation are transported along
`σ ↦ (σ ·).map ι` using `map_contains`, injectivity of `ι`, `Dense.back_ι`.
(All targets proved; helpers in RangeAnyOrderAux1.lean.)
-/
import PubgrubProofs.HomSolver
import PubgrubProofs.RangeHom
import PubgrubProofs.CanonInstances
import PubgrubProofs.OwnInvariant
import PubgrubProofs.ReachabilityC04
import PubgrubProofs.NoPanic
import PubgrubProofs.NonEmpty
import PubgrubProofs.TreeLink
import PubgrubProofs.RangeAnyOrderAux1

set_option linter.unusedSectionVars false

namespace Pubgrub
open VersionSet

variable {P V M Pr E : Type} [DecidableEq P] [LinearOrder V] [LE Pr] [DecidableLE Pr]

/-- every dependency set the provider hands out is a canonical segment list (what `Ranges`'
constructors and operations produce; `check_invariants` in range.rs) -/
def World.RangesWF (W : World P (Range V) V M) : Prop :=
  ∀ p v ds, W.deps p v = .available ds → ∀ d ∈ ds, Range.WF d.2


/-! ### the image run -/

/-- the image world of a world of canonical ranges has valid sets -/
theorem World.setsValid_mapH [Nonempty V] (W : World P (Range V) V M) (hW : W.RangesWF) :
    (World.mapH Range.denseHom Dense.back W).SetsValid := by
  intro p v' ds' hds' d hd
  simp only [World.mapH] at hds'
  split at hds'
  · rename_i v hv
    obtain ⟨ds, hds, rfl⟩ := DepsAnswer.mapH_available _ _ _ hds'
    obtain ⟨q, s'⟩ := d
    obtain ⟨s, hs, rfl⟩ := (mem_depsMapH _ ds q s').1 hd
    exact (Range.wf_mapR Dense.ι Dense.ι_strictMono s).2 (hW p v ds hds (q, s) hs)
  · simp only [DepsAnswer.available.injEq] at hds'
    subst hds'
    cases hd

theorem range_reachable_image (W : World P (Range V) V M) (debug : Bool) (fuel : Nat)
    (root : P) (rv : V) (s : SolverState P (Range V) V M Pr) (req : Request P (Range V) V M Pr E)
    (h : Reachable W debug fuel root rv (s, req)) :
    Reachable (World.mapH Range.denseHom Dense.back W) debug fuel root (Dense.ι rv)
      (SolverState.mapH Range.denseHom s, Request.mapH Range.denseHom req) :=
  reachable_mapH Range.denseHom Dense.back Dense.back_ι W debug fuel root rv (s, req) h

theorem range_reachableWB_image (W : World P (Range V) V M) (debug : Bool) (fuel : Nat)
    (root : P) (rv : V) (s : SolverState P (Range V) V M Pr) (req : Request P (Range V) V M Pr E)
    (h : ReachableWB W debug fuel root rv (s, req)) :
    ReachableWB (World.mapH Range.denseHom Dense.back W) debug fuel root (Dense.ι rv)
      (SolverState.mapH Range.denseHom s, Request.mapH Range.denseHom req) :=
  reachableWB_mapH Range.denseHom Dense.back Dense.back_ι W debug fuel root rv (s, req) h

/-- C01 for `Range` over any linear order -/
theorem range_solution_valid (W : World P (Range V) V M) (hW : W.RangesWF) (debug : Bool) (fuel : Nat)
    (root : P) (rv : V) (s : SolverState P (Range V) V M Pr) (sel : List (P × V))
    (h : ReachableWB (E := E) W debug fuel root rv (s, .solution sel)) :
    IsSolution W root rv (fun p => SmallMap.get sel p) ∧
      (∀ p v, SmallMap.get sel p = some v → (p, v) ∈ s.added) := by
  have : Nonempty V := ⟨rv⟩
  have hW' := World.setsValid_mapH W hW
  have h' := range_reachableWB_image W debug fuel root rv s _ h
  obtain ⟨hsol, hadd⟩ := solution_valid _ hW' debug fuel root _ _ _ h'
  have hfun : (fun p => SmallMap.get (sel.map fun kv => (kv.1, Range.denseHom.ι kv.2)) p) =
      fun p => (SmallMap.get sel p).map Range.denseHom.ι := by
    funext p; exact SmallMap.get_mapVals _ sel p
  constructor
  · rw [hfun] at hsol
    exact IsSolution.pull Range.denseHom Dense.back Dense.back_ι W root rv _ hsol
  · intro p v hp
    have := hadd p (Range.denseHom.ι v) (by rw [SmallMap.get_mapVals, hp]; rfl)
    exact mem_mapVals_inj _ Range.denseHom.ι_inj s.added p v this

/-- C04 for `Range` over any linear order -/
theorem range_solution_reachable (W : World P (Range V) V M) (hW : W.RangesWF) (debug : Bool) (fuel : Nat)
    (root : P) (rv : V) (s : SolverState P (Range V) V M Pr) (sel : List (P × V))
    (h : ReachableWB (E := E) W debug fuel root rv (s, .solution sel))
    (p : P) (v : V) (hp : SmallMap.get sel p = some v) :
    ReachableFrom W root (fun q => SmallMap.get sel q) p := by
  have : Nonempty V := ⟨rv⟩
  have hW' := World.setsValid_mapH W hW
  have h' := range_reachableWB_image W debug fuel root rv s _ h
  have hr := solution_reachable _ hW' debug fuel root _ _ _ h' p (Range.denseHom.ι v)
    (by rw [SmallMap.get_mapVals, hp]; rfl)
  have hfun : (fun p => SmallMap.get (sel.map fun kv => (kv.1, Range.denseHom.ι kv.2)) p) =
      fun p => (SmallMap.get sel p).map Range.denseHom.ι := by
    funext p; exact SmallMap.get_mapVals _ sel p
  rw [hfun] at hr
  exact ReachableFrom.pull Range.denseHom Dense.back Dense.back_ι W root _ p hr

/-- C02/C06 for `Range` over any linear order: `NoSolution` is only reported when there is no solution -/
theorem range_noSolution_sound (W : World P (Range V) V M) (hW : W.RangesWF) (debug : Bool) (fuel : Nat)
    (root : P) (rv : V) (s : SolverState P (Range V) V M Pr) (tree : DerivationTree P (Range V) V M)
    (h : Reachable (E := E) W debug fuel root rv (s, .noSolution tree)) :
    ¬ ∃ σ : P → Option V, IsSolution W root rv σ := by
  have : Nonempty V := ⟨rv⟩
  have hW' := World.setsValid_mapH W hW
  have h' := range_reachable_image W debug fuel root rv s _ h
  have hno := noSolution_sound _ hW' debug fuel root _ _ _ h'
  rintro ⟨σ, hσ⟩
  exact hno ⟨_, IsSolution.push Range.denseHom Dense.back Dense.back_ι W root rv σ hσ⟩

/-- C06 for `Range` over any linear order: every stored incompatibility is valid -/
theorem range_store_valid (W : World P (Range V) V M) (hW : W.RangesWF) (debug : Bool) (fuel : Nat)
    (root : P) (rv : V) (s : SolverState P (Range V) V M Pr) (req : Request P (Range V) V M Pr E)
    (h : Reachable W debug fuel root rv (s, req)) (id : Nat) (i : Incompat P (Range V) V M)
    (hi : s.st.store[id]? = some i) :
    ∀ σ : P → Option V, IsSolution W root rv σ → ¬ (∀ p t, (p, t) ∈ i.terms → t.eval (σ p) = true) := by
  have : Nonempty V := ⟨rv⟩
  have hW' := World.setsValid_mapH W hW
  have h' := range_reachable_image W debug fuel root rv s _ h
  have hst := reachable_storeInv _ hW' debug fuel root _ _ h'
  have hi' : (SolverState.mapH Range.denseHom s).st.store[id]? = some (Incompat.mapH Range.denseHom i) := by
    simp [SolverState.mapH, State.mapH, hi]
  have hv := (hst id _ hi').valid
  intro σ hσ hall
  apply hv _ (IsSolution.push Range.denseHom Dense.back Dense.back_ι W root rv σ hσ)
  intro p t' ht'
  obtain ⟨t, ht, rfl⟩ := (mem_termsMapH Range.denseHom i.terms p t').1 ht'
  rw [Term.eval_mapH]
  exact hall p t ht

/-- C05 for `Range` over any linear order: no panic, debug assertions included -/
theorem range_no_panic (W : World P (Range V) V M) (hW : W.RangesWF) (debug : Bool) (fuel : Nat)
    (root : P) (rv : V) (s : SolverState P (Range V) V M Pr) (site : String) :
    ¬ Reachable (E := E) W debug fuel root rv (s, .fault (.panic site)) := by
  have : Nonempty V := ⟨rv⟩
  have hW' := World.setsValid_mapH W hW
  intro h
  exact no_panic _ hW' debug fuel root _ _ site (range_reachable_image W debug fuel root rv s _ h)

/-- C05 for `Range` over any linear order: no `Failure` for a well-behaved provider -/
theorem range_no_failure (W : World P (Range V) V M) (hW : W.RangesWF) (debug : Bool) (fuel : Nat)
    (root : P) (rv : V) (s : SolverState P (Range V) V M Pr) (msg : String) :
    ¬ ReachableWB (E := E) W debug fuel root rv (s, .failure msg) := by
  have : Nonempty V := ⟨rv⟩
  have hW' := World.setsValid_mapH W hW
  intro h
  exact failure_only_out_of_set _ hW' debug fuel root _ _ msg
    (range_reachableWB_image W debug fuel root rv s _ h)

/-- C05 for `Range` over any linear order: the outcomes of a finished well-behaved run -/
theorem range_outcomes (W : World P (Range V) V M) (hW : W.RangesWF) (debug : Bool) (fuel : Nat)
    (root : P) (rv : V) (s : SolverState P (Range V) V M Pr) (req : Request P (Range V) V M Pr E)
    (h : ReachableWB W debug fuel root rv (s, req)) (hfin : req.isFinal = true) :
    (∃ sel, req = .solution sel) ∨ (∃ t, req = .noSolution t) ∨ req = .fault .outOfFuel ∨
      (∃ m, req = .protocolError m) := by
  have : Nonempty V := ⟨rv⟩
  have hW' := World.setsValid_mapH W hW
  have h' := range_reachableWB_image W debug fuel root rv s _ h
  have hfin' : (Request.mapH Range.denseHom req).isFinal = true := by rw [isFinal_mapH]; exact hfin
  rcases wellBehaved_outcomes _ hW' debug fuel root _ _ _ h' hfin' with ⟨sel', hs⟩ | ⟨t', ht⟩ | hf | ⟨m, hm⟩
  · exact Or.inl (Request.mapH_solution _ _ _ hs)
  · exact Or.inr (Or.inl (Request.mapH_noSolution _ _ _ ht))
  · exact Or.inr (Or.inr (Or.inl (Request.mapH_fault _ _ _ hf)))
  · exact Or.inr (Or.inr (Or.inr ⟨m, Request.mapH_protocolError _ _ _ hm⟩))

/-- C12 for `Range` over any linear order: `choose_version` is never asked about `Ranges::empty()`
(structurally: the set may still be member-free over a discrete order, e.g. `1 < v < 2`) -/
theorem range_choose_nonempty (W : World P (Range V) V M) (hW : W.RangesWF) (debug : Bool) (fuel : Nat)
    (root : P) (rv : V) (s : SolverState P (Range V) V M Pr) (p : P) (set : Range V)
    (h : Reachable (E := E) W debug fuel root rv (s, .chooseVersion p set)) :
    set ≠ Range.empty := by
  have : Nonempty V := ⟨rv⟩
  have hW' := World.setsValid_mapH W hW
  have h' := range_reachable_image W debug fuel root rv s _ h
  obtain ⟨v', hv'⟩ := choose_nonempty _ hW' debug fuel root _ _ p _ h'
  intro he
  subst he
  have hc : VersionSet.contains (Range.denseHom.f (VersionSet.empty : Range V)) v' = true := hv'
  rw [Range.denseHom.map_empty, LawfulVersionSet.contains_empty] at hc
  cases hc

/-- the sets the solver hands to the provider are canonical -/
theorem range_requests_wf (W : World P (Range V) V M) (hW : W.RangesWF) (debug : Bool) (fuel : Nat)
    (root : P) (rv : V) (s : SolverState P (Range V) V M Pr) (p : P) (set : Range V)
    (h : Reachable (E := E) W debug fuel root rv (s, .chooseVersion p set) ∨
         Reachable (E := E) W debug fuel root rv (s, .prioritize p set)) :
    Range.WF set := by
  have : Nonempty V := ⟨rv⟩
  have hW' := World.setsValid_mapH W hW
  have hv : LawfulVersionSet.Valid (Dense V) (Range.denseHom.f set) := by
    apply request_set_valid (E := E) _ hW' debug fuel root (Dense.ι rv) (SolverState.mapH Range.denseHom s) p
    rcases h with h | h
    · exact Or.inl (range_reachable_image W debug fuel root rv s _ h)
    · exact Or.inr (range_reachable_image W debug fuel root rv s _ h)
  exact (Range.wf_mapR Dense.ι Dense.ι_strictMono set).1 hv

end Pubgrub

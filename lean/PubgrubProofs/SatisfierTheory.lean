/-
TARGET FILE: PubgrubProofs/SatisfierTheory.lean
The satisfier search of conflict resolution is correct, hence: the cause of every derivation in the
partial solution was almost satisfied when the derivation was made (`State.CauseInv`), and the panic
sites of the satisfier search are unreachable (property C05, part).
Definitions: PubgrubProofs/SatDefs.lean, PubgrubProofs/PSDefs.lean.
Helpers: PubgrubProofs/SatisfierTheoryAux1 … SatisfierTheoryAux11.
-/
import PubgrubProofs.SatDefs
import PubgrubProofs.PSInvariant
import PubgrubProofs.SatisfierTheoryAux11

set_option linter.unusedSectionVars false
set_option linter.unusedVariables false

namespace Pubgrub
open VersionSet

variable {P S V M Pr E : Type} [DecidableEq P] [VersionSet S V] [DecidableEq S] [DecidableEq V]
  [LE Pr] [DecidableLE Pr] [LawfulVersionSet S V]

/-- the run-level invariant of the satisfier theory holds in every reachable state -/
theorem reachable_rinvT (W : World P S V M) (hW : W.SetsValid) (debug : Bool) (fuel : Nat)
    (root : P) (rv : V) (x : SolverState P S V M Pr × Request P S V M Pr E)
    (h : Reachable W debug fuel root rv x) : RInvT root rv x := by
  induction h with
  | start => exact rinvT_start debug fuel root rv
  | step hreach ha ih =>
    exact rinvT_step W hW root rv _ _ _ (reachable_rinv W hW debug fuel root rv _ hreach)
      (reachable_rinv' W hW debug fuel root rv _ hreach) ih ha

/-- LevelMono and CauseInv hold in every reachable, unfinished state -/
theorem reachable_causeInv (W : World P S V M) (hW : W.SetsValid) (debug : Bool) (fuel : Nat)
    (root : P) (rv : V) (x : SolverState P S V M Pr × Request P S V M Pr E)
    (h : Reachable W debug fuel root rv x) (hph : x.2.isFinal = false) :
    x.1.st.ps.LevelMono ∧ x.1.st.CauseInv := by
  have ht := (reachable_rinvT W hW debug fuel root rv x h).live
    (live_of_not_final (reachable_coherent W debug fuel root rv x h) hph)
  exact ⟨ht.gmono.levelMono, ht.cause⟩

/-- … and in the state a solution is returned from -/
theorem solution_causeInv (W : World P S V M) (hW : W.SetsValid) (debug : Bool) (fuel : Nat)
    (root : P) (rv : V) (s : SolverState P S V M Pr) (sel : List (P × V))
    (h : Reachable (E := E) W debug fuel root rv (s, .solution sel)) :
    s.st.ps.LevelMono ∧ s.st.CauseInv := by
  exact (reachable_rinvT W hW debug fuel root rv _ h).sol sel rfl

/-- C05 (part): the panic sites of the satisfier search, of conflict resolution and of the derivation
that follows it are unreachable: no run ends in one of these faults -/
theorem no_satisfier_panic (W : World P S V M) (hW : W.SetsValid) (debug : Bool) (fuel : Nat)
    (root : P) (rv : V) (s : SolverState P S V M Pr) (site : String)
    (h : Reachable (E := E) W debug fuel root rv (s, .fault (.panic site))) :
    site ≠ "find_satisfier: Must exist" ∧
    site ≠ "satisfier: unreachable, the last assignment should have been a decision" ∧
    site ≠ "must be a decision" ∧
    site ≠ "satisfier package not in incompat" ∧
    site ≠ "satisfier_search: max_by_key().unwrap()" ∧
    site ≠ "find_previous_satisfier: max_by_key().unwrap()" ∧
    site ≠ "satisfier_search: satisfier_cause.unwrap()" ∧
    site ≠ "find_previous_satisfier: get(satisfier_package).unwrap()" ∧
    site ≠ "find_previous_satisfier: satisfied_map.get().unwrap()" ∧
    site ≠ "find_previous_satisfier: store[cause].get().unwrap()" ∧
    site ≠ "prior_cause: split_one(package).unwrap()" ∧
    site ≠ "prior_cause: satisfier_cause_terms.get(package).unwrap()" ∧
    site ≠ "backtrack: dated_derivations.last().unwrap()" ∧
    site ≠ "add_derivation should not be called after a decision" ∧
    site ≠ "add_derivation: store[cause].get(package).unwrap()" := by
  have hn : ¬ Listed site := (reachable_rinvT W hW debug fuel root rv _ h).fault site rfl
  simp only [Listed, listedSites, List.mem_cons, List.not_mem_nil, or_false, not_or] at hn
  exact hn

end Pubgrub

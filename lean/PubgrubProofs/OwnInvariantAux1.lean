/-
Helpers for `OwnInvariant.lean`, part 1: the semantic notion "the clause is excluded by the partial
solution" (`Incompat.SContra`: some term of the clause is disjoint, as a set of choices, from the term
the partial solution holds for its package), its monotonicity, and the term a package had at a lower
decision level (`termAt` / `termsAt`) with its algebra under `addDerivation`, `addDecision`,
`backtrack`.

Why semantic: `Incompat.relation … = .contradicted _` is NOT monotone under shrinking of the partial
solution's terms (a term without members is a subset of everything, so `relation_with` answers
`Satisfied` before it looks at disjointness); see the counterexample in `OwnInvariant.lean`.
-/
import PubgrubProofs.OwnDefs
import PubgrubProofs.PSInvariantAux7

set_option linter.unusedSectionVars false
set_option linter.unusedVariables false

namespace Pubgrub
open VersionSet

section Sem
variable {P S V M Pr : Type} [DecidableEq P] [VersionSet S V] [DecidableEq S]

/-- the two terms exclude each other: no choice for the package makes both true -/
def Term.Disj (t o : Term S) : Prop := ∀ c : Option V, ¬ (t.eval c = true ∧ o.eval c = true)

/-- every choice allowed by `o'` is allowed by `o` -/
def Term.Sub (o' o : Term S) : Prop := ∀ c : Option V, o'.eval c = true → o.eval c = true

theorem Term.Sub.refl (o : Term S) : o.Sub o := fun _ h => h

theorem Term.Sub.trans {a b c : Term S} (h1 : a.Sub b) (h2 : b.Sub c) : a.Sub c :=
  fun x h => h2 x (h1 x h)

theorem Term.Disj.mono {t o o' : Term S} (h : t.Disj o) (hs : o'.Sub o) : t.Disj o' :=
  fun c hc => h c ⟨hc.1, hs c hc.2⟩

/-- semantic "contradicted": some term of the clause is disjoint from what the assignment `f` says
of its package -/
def Incompat.SContra (inc : Incompat P S V M) (f : P → Option (Term S)) : Prop :=
  ∃ q t o, (q, t) ∈ inc.terms ∧ f q = some o ∧ t.Disj o

/-- the assignment `f'` is pointwise at least as defined and at least as strict as `f` -/
def TermsLE (f' f : P → Option (Term S)) : Prop :=
  ∀ q o, f q = some o → ∃ o', f' q = some o' ∧ o'.Sub o

theorem TermsLE.refl (f : P → Option (Term S)) : TermsLE f f :=
  fun q o h => ⟨o, h, Term.Sub.refl o⟩

theorem TermsLE.of_eq {f' f : P → Option (Term S)} (h : f' = f) : TermsLE f' f := h ▸ TermsLE.refl f

/-- being excluded is monotone: it survives more packages and smaller terms -/
theorem Incompat.SContra.mono {inc : Incompat P S V M} {f f' : P → Option (Term S)}
    (h : inc.SContra f) (hle : TermsLE f' f) : inc.SContra f' := by
  obtain ⟨q, t, o, hm, hf, hd⟩ := h
  obtain ⟨o', hf', hs⟩ := hle q o hf
  exact ⟨q, t, o', hm, hf', hd.mono hs⟩

/-- a `Contradicted(q)` answer of the loop of `relation` comes from a term whose `relation_with` is
`Contradicted` -/
theorem Incompat.relationGo_contradicted (f : P → Option (Term S)) :
    ∀ (l : List (P × Term S)) (rel : Relation P) (q : P),
      Incompat.relationGo f rel l = .contradicted q → (∀ q', rel ≠ .contradicted q') →
      ∃ t o, (q, t) ∈ l ∧ f q = some o ∧ t.relationWith o = .contradicted := by
  intro l
  induction l with
  | nil =>
    intro rel q h hrel
    simp only [Incompat.relationGo] at h
    exact absurd h (hrel q)
  | cons x rest ih =>
    intro rel q h hrel
    obtain ⟨p, t⟩ := x
    unfold Incompat.relationGo at h
    cases hf : f p with
    | none =>
      simp only [hf, Option.map_none] at h
      split at h
      · obtain ⟨t', o, hm, hfo, hr⟩ := ih _ q h (by intro q' e; cases e)
        exact ⟨t', o, List.mem_cons_of_mem _ hm, hfo, hr⟩
      · cases h
    | some o =>
      simp only [hf, Option.map_some] at h
      cases hr : t.relationWith o with
      | satisfied =>
        simp only [hr] at h
        obtain ⟨t', o', hm, hfo, hr'⟩ := ih _ q h hrel
        exact ⟨t', o', List.mem_cons_of_mem _ hm, hfo, hr'⟩
      | contradicted =>
        simp only [hr] at h
        injection h with h; subst h
        exact ⟨t, o, List.mem_cons_self, hf, hr⟩
      | inconclusive =>
        simp only [hr] at h
        split at h
        · obtain ⟨t', o', hm, hfo, hr'⟩ := ih _ q h (by intro q' e; cases e)
          exact ⟨t', o', List.mem_cons_of_mem _ hm, hfo, hr'⟩
        · cases h

end Sem

section SemLawful
variable {P S V M Pr : Type} [DecidableEq P] [VersionSet S V] [DecidableEq S] [LawfulVersionSet S V]

theorem Term.disj_of_relationWith {t o : Term S} (ht : t.Valid) (ho : o.Valid)
    (h : t.relationWith o = .contradicted) : t.Disj o :=
  ((Term.relationWith_contradicted_iff t o ht ho).1 h).2

/-- `relation = Contradicted(_)` implies the semantic notion (valid terms) -/
theorem Incompat.sContra_of_relation {inc : Incompat P S V M} {f : P → Option (Term S)} {q : P}
    (hv : inc.SetsValid) (hf : ∀ p o, f p = some o → o.Valid)
    (h : inc.relation f = .contradicted q) : inc.SContra f := by
  obtain ⟨t, o, hm, hfo, hr⟩ := Incompat.relationGo_contradicted f inc.terms .satisfied q h
    (by intro q' e; cases e)
  exact ⟨q, t, o, hm, hfo, Term.disj_of_relationWith (hv q t hm) (hf q o hfo) hr⟩

theorem Term.sub_intersection_left (a b : Term S) (ha : a.Valid) (hb : b.Valid) :
    (a.intersection b).Sub a := by
  intro c hc
  rw [Term.eval_intersection a b ha hb] at hc
  cases h : a.eval c
  · rw [h] at hc; cases hc
  · rfl

theorem Term.sub_intersection_right (a b : Term S) (ha : a.Valid) (hb : b.Valid) :
    (a.intersection b).Sub b := by
  intro c hc
  rw [Term.eval_intersection a b ha hb] at hc
  cases h : b.eval c
  · rw [h, Bool.and_false] at hc; cases hc
  · rfl

theorem Term.disj_negate (t : Term S) : t.Disj t.negate := by
  intro c hc
  rw [Term.eval_negate] at hc
  cases h : t.eval c <;> simp [h] at hc

theorem Term.sub_exact_of_contains {t : Term S} {v : V} (h : t.contains v = true) :
    (Term.exact v : Term S).Sub t := by
  intro c hc
  rw [Term.eval_exact] at hc
  subst hc
  rw [← Term.contains_eq_eval]; exact h

end SemLawful

/-! ### `popWhileAbove` -/
section Pop
variable {S : Type}

theorem PartialSolution.popWhileAbove_eq (dl : Nat) (l : List (DatedDerivation S)) :
    PartialSolution.popWhileAbove dl l =
      (l.reverse.dropWhile fun dd => decide (dd.decisionLevel > dl)).reverse := by
  unfold PartialSolution.popWhileAbove
  split
  · rfl
  · rfl

theorem PartialSolution.pop_append_above (dl : Nat) (l : List (DatedDerivation S)) (dd : DatedDerivation S)
    (h : dd.decisionLevel > dl) :
    PartialSolution.popWhileAbove dl (l ++ [dd]) = PartialSolution.popWhileAbove dl l := by
  rw [popWhileAbove_eq, popWhileAbove_eq, List.reverse_append, List.reverse_singleton,
    List.singleton_append, List.dropWhile_cons_of_pos (by simpa using h)]

theorem PartialSolution.pop_of_last_le (dl : Nat) (l : List (DatedDerivation S)) (x : DatedDerivation S)
    (hx : l.getLast? = some x) (h : x.decisionLevel ≤ dl) :
    PartialSolution.popWhileAbove dl l = l := by
  obtain ⟨ys, rfl⟩ := List.getLast?_eq_some_iff.1 hx
  rw [popWhileAbove_eq, List.reverse_append, List.reverse_singleton, List.singleton_append,
    List.dropWhile_cons_of_neg (by simpa using h)]
  simp

theorem List.dropWhile_eq_nil_of_all {α : Type} (p : α → Bool) :
    ∀ l : List α, (∀ a ∈ l, p a = true) → l.dropWhile p = [] := by
  intro l
  induction l with
  | nil => intro _; rfl
  | cons a l ih =>
    intro h
    rw [List.dropWhile_cons_of_pos (h a List.mem_cons_self)]
    exact ih (fun b hb => h b (List.mem_cons_of_mem _ hb))

theorem PartialSolution.pop_all_above (dl : Nat) (l : List (DatedDerivation S))
    (h : ∀ dd ∈ l, dd.decisionLevel > dl) : PartialSolution.popWhileAbove dl l = [] := by
  rw [popWhileAbove_eq, List.reverse_eq_nil_iff]
  apply List.dropWhile_eq_nil_of_all
  intro dd hdd
  simpa using h dd (List.mem_reverse.1 hdd)

theorem List.dropWhile_dropWhile_of_imp {α : Type} (p q : α → Bool) (hpq : ∀ a, q a = true → p a = true) :
    ∀ l : List α, (l.dropWhile q).dropWhile p = l.dropWhile p := by
  intro l
  induction l with
  | nil => rfl
  | cons a l ih =>
    by_cases hq : q a = true
    · rw [List.dropWhile_cons_of_pos hq, List.dropWhile_cons_of_pos (hpq a hq)]; exact ih
    · rw [List.dropWhile_cons_of_neg hq]

theorem PartialSolution.pop_pop (dl dl' : Nat) (hle : dl ≤ dl') (l : List (DatedDerivation S)) :
    PartialSolution.popWhileAbove dl (PartialSolution.popWhileAbove dl' l) =
      PartialSolution.popWhileAbove dl l := by
  rw [popWhileAbove_eq dl, popWhileAbove_eq dl', popWhileAbove_eq dl, List.reverse_reverse,
    List.dropWhile_dropWhile_of_imp]
  intro a ha
  simp only [decide_eq_true_eq] at ha ⊢
  omega

end Pop

/-! ### the term of a package at a lower level -/
section TermAt
variable {P S V M Pr : Type} [DecidableEq P] [VersionSet S V] [DecidableEq S]

/-- the term the entry had when the decision level was `l` (what `backtrack l` leaves) -/
def PackageAssignments.termAt (pa : PackageAssignments S V) (l : Nat) : Option (Term S) :=
  if pa.highest ≤ l then some pa.inter.term
  else (PartialSolution.popWhileAbove l pa.dated).getLast?.map (·.accumulated)

/-- the terms of the partial solution restricted to the assignments of level ≤ `l` -/
def PartialSolution.termsAt (ps : PartialSolution P S V Pr) (l : Nat) (p : P) : Option (Term S) :=
  (ps.getPA p).bind (·.termAt l)

/-- the terms of the partial solution -/
def PartialSolution.terms (ps : PartialSolution P S V Pr) (p : P) : Option (Term S) :=
  ps.termIntersectionForPackage p

/-- Inv-Own, semantic form (compare `State.OwnInv`): for every decided package `p` (index `i`, decision
level `i+1`) and every level `l` from `i+1` up to the current one, every indexed incompatibility owned by
`p` is excluded (`Incompat.SContra`) by the partial solution restricted to level `l` -/
def State.OwnInvSem (st : State P S V M Pr) : Prop :=
  ∀ (i : Nat) (p : P) (pa : PackageAssignments S V), st.ps.assignments[i]? = some (p, pa) →
    i < st.ps.currentDecisionLevel →
    ∀ l, i + 1 ≤ l → l ≤ st.ps.currentDecisionLevel →
    ∀ psl, st.ps.backtrack l = .ok psl →
    ∀ id ∈ st.indexOf p, ∀ inc : Incompat P S V M, st.store[id]? = some inc → inc.OwnedBy p →
      inc.SContra psl.terms

/-- soundness of the `contradicted_incompatibilities` cache, semantic form (compare
`State.CacheSound`) -/
def State.CacheSoundSem (st : State P S V M Pr) : Prop :=
  ∀ (id l : Nat), (id, l) ∈ st.contradicted → l ≤ st.ps.currentDecisionLevel ∧ id < st.store.length ∧
    ∀ psl, st.ps.backtrack l = .ok psl → ∀ inc : Incompat P S V M, st.store[id]? = some inc →
      inc.SContra psl.terms

theorem PartialSolution.relation_eq (ps : PartialSolution P S V Pr) (i : Incompat P S V M) :
    ps.relation i = i.relation ps.terms := rfl

theorem PackageAssignments.termAt_of_le {pa : PackageAssignments S V} {l : Nat} (h : pa.highest ≤ l) :
    pa.termAt l = some pa.inter.term := by
  unfold termAt; rw [if_pos h]

end TermAt

section TermAtLawful
variable {P S V M Pr : Type} [DecidableEq P] [VersionSet S V] [DecidableEq S] [LawfulVersionSet S V]

namespace PartialSolution

/-- at (or above) the current level the restriction is the partial solution itself -/
theorem termsAt_top {ps : PartialSolution P S V Pr} (h : ps.WF) {l : Nat}
    (hl : ps.currentDecisionLevel ≤ l) : ps.termsAt l = ps.terms := by
  funext p
  unfold termsAt terms termIntersectionForPackage
  cases hpa : ps.getPA p with
  | none => rfl
  | some pa =>
    simp only [Option.bind_some, Option.map_some]
    exact PackageAssignments.termAt_of_le (Nat.le_trans (highest_le h hpa) hl)

/-- for an undecided entry, popping down to a level that is not below its highest level changes
nothing and the last derivation carries the current term -/
theorem termAt_undecided_eq {pa : PackageAssignments S V} {dl next i : Nat} (hw : pa.WFAt dl next i)
    {t : Term S} (ht : pa.inter = .derivations t) (hi : dl ≤ i) (l : Nat) :
    pa.termAt l = (popWhileAbove l pa.dated).getLast?.map (·.accumulated) := by
  unfold PackageAssignments.termAt
  split
  · rename_i hle
    obtain ⟨t', last, f, e1, e2, e3, e4, e5, e6, e7⟩ := hw.undecided hi
    rw [pop_of_last_le l pa.dated last e3 (by omega), e3, e1]
    simp [AssignInter.term, e5]
  · rfl

end PartialSolution
end TermAtLawful
end Pubgrub

#!/bin/sh
# Build the framework offline: Lean model + proofs + driver, Rust harness (release and debug).
set -e
cd "$(dirname "$0")"
(cd lean && lake build)
[ -f harness/Cargo.lock ] || cp /repo/Cargo.lock harness/Cargo.lock
(cd harness && CARGO_NET_OFFLINE=true cargo build --release --offline && CARGO_NET_OFFLINE=true cargo build --offline)
mkdir -p work replays evidence

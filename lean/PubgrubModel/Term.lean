/-
Model of `/repo/src/term.rs`.
-/
import PubgrubModel.VersionSet

namespace Pubgrub

/-- `enum Term<VS>` -/
inductive Term (S : Type) where
  | pos (s : S)
  | neg (s : S)
  deriving DecidableEq, Repr

/-- `term::Relation` -/
inductive TermRelation where
  | satisfied | contradicted | inconclusive
  deriving DecidableEq, Repr

namespace Term
variable {S V : Type} [VersionSet S V] [DecidableEq S]
open VersionSet

/-- `Term::any` -/
def any : Term S := neg (VersionSet.empty : S)
/-- `Term::empty` -/
def empty : Term S := pos (VersionSet.empty : S)
/-- `Term::exact` -/
def exact (v : V) : Term S := pos (VersionSet.singleton v)

/-- `is_positive` -/
def isPositive : Term S → Bool
  | pos _ => true
  | neg _ => false

/-- `negate` -/
def negate : Term S → Term S
  | pos s => neg s
  | neg s => pos s

/-- `contains` -/
def contains : Term S → V → Bool
  | pos s, v => VersionSet.contains s v
  | neg s, v => !VersionSet.contains s v

/-- `intersection` -/
def intersection : Term S → Term S → Term S
  | pos r1, pos r2 => pos (VersionSet.intersection r1 r2)
  | pos p, neg n => pos (VersionSet.intersection (VersionSet.complement n) p)
  | neg n, pos p => pos (VersionSet.intersection (VersionSet.complement n) p)
  | neg r1, neg r2 => neg (VersionSet.union r1 r2)

/-- `is_disjoint` (after the fix of finding F2: two negative terms are never disjoint) -/
def isDisjoint : Term S → Term S → Bool
  | pos r1, pos r2 => VersionSet.isDisjoint r1 r2
  | neg _, neg _ => false
  | pos p, neg n => VersionSet.subsetOf p n
  | neg n, pos p => VersionSet.subsetOf p n

/-- `is_disjoint` as it was on the pinned tree before the `fix:` commit (finding F2). -/
def Legacy.isDisjoint : Term S → Term S → Bool
  | pos r1, pos r2 => VersionSet.isDisjoint r1 r2
  | neg r1, neg r2 => r1 == (VersionSet.empty : S) && r2 == (VersionSet.empty : S)
  | pos p, neg n => VersionSet.subsetOf p n
  | neg n, pos p => VersionSet.subsetOf p n

/-- `union` -/
def union : Term S → Term S → Term S
  | pos r1, pos r2 => pos (VersionSet.union r1 r2)
  | pos p, neg n => neg (VersionSet.intersection (VersionSet.complement p) n)
  | neg n, pos p => neg (VersionSet.intersection (VersionSet.complement p) n)
  | neg r1, neg r2 => neg (VersionSet.intersection r1 r2)

/-- `subset_of` -/
def subsetOf : Term S → Term S → Bool
  | pos r1, pos r2 => VersionSet.subsetOf r1 r2
  | pos r1, neg r2 => VersionSet.isDisjoint r1 r2
  | neg _, pos _ => false
  | neg r1, neg r2 => VersionSet.subsetOf r2 r1

/-- `relation_with` -/
def relationWith (self other : Term S) : TermRelation :=
  if other.subsetOf self then .satisfied
  else if self.isDisjoint other then .contradicted
  else .inconclusive

/-- `impl Display for Term` -/
def display (showS : S → String) : Term S → String
  | pos s => showS s
  | neg s => "Not ( " ++ showS s ++ " )"

end Term
end Pubgrub

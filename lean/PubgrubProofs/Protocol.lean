/-
TARGET FILE: PubgrubProofs/Protocol.lean
The provider protocol of `resolve` (properties C12 structural clauses, C13), as theorems about the
coroutine `Solver.step` / `Solver.trace` (see PubgrubModel/Solver.lean and PubgrubProofs/SolverDefs.lean).
No world, no lawfulness: these hold for ARBITRARY answers (any provider).
Replace every `sorry`; add helpers (you will want an invariant relating the pending request to the phase
of the state, proved for every state `Solver.after (Solver.start …) answers`); keep the target statements.
-/
import PubgrubProofs.ProtocolAux
import PubgrubProofs.ProtocolAuxFirst

namespace Pubgrub
open VersionSet

variable {P S V M Pr E : Type} [DecidableEq P] [VersionSet S V] [DecidableEq S] [DecidableEq V]
  [LE Pr] [DecidableLE Pr]

namespace Solver

/-- `trace` and `after` agree: the last element of the trace is the pending request -/
theorem trace_length (debug : Bool) (fuel : Nat) (root : P) (rv : V) (as : List (Answer P S V M Pr E)) :
    (trace debug fuel root rv as).length = as.length + 1 := by
  rw [trace_eq, traceFrom_length]

/-- causality (C13 "up to that point the call trace equals that of the fault-free run"): the first
`k+1` requests only depend on the first `k` answers -/
theorem trace_prefix (debug : Bool) (fuel : Nat) (root : P) (rv : V) (as bs : List (Answer P S V M Pr E)) :
    (trace debug fuel root rv (as ++ bs)).take (as.length + 1) = trace debug fuel root rv as := by
  simp only [trace, runFrom_append]
  simp [runFrom_length]

/-- C13: an error answer ends the run with the matching variant carrying that same error (and, for
get_dependencies, the package and version queried); nothing else can follow -/
theorem error_aborts (debug : Bool) (fuel : Nat) (root : P) (rv : V) (as : List (Answer P S V M Pr E))
    (e : E) :
    let pending := (after (start debug fuel root rv) as).2
    let next := (after (start (E := E) debug fuel root rv) (as ++ [.error e])).2
    (pending = .shouldCancel → next = .errorInShouldCancel e) ∧
    (∀ p s, pending = .chooseVersion p s → next = .errorChoosingPackageVersion e) ∧
    (∀ p v, pending = .getDependencies p v → next = .errorRetrievingDependencies p v e) := by
  intro pending next
  have hco := coherent_run (E := E) (M := M) (Pr := Pr) (S := S) debug fuel root rv as
  have hnext : next = (step (after (start debug fuel root rv) as).1 (.error e)).2 := by
    show (after _ (as ++ _)).2 = _
    rw [after_snoc]
  have hp : pending = (after (start debug fuel root rv) as).2 := rfl
  clear_value pending next
  generalize after (start (E := E) (M := M) (Pr := Pr) (S := S) debug fuel root rv) as = x at *
  obtain ⟨s, r⟩ := x
  simp only at hp hnext
  simp only [Coherent] at hco
  refine ⟨?_, ?_, ?_⟩
  · intro h
    rw [hp] at h; subst h
    split at hco <;> simp_all [Request.isFinal, step_cancel_error, finish]
  · intro p t h
    rw [hp] at h; subst h
    split at hco <;> simp_all [Request.isFinal]
    rename_i p' t' hph
    simp [step_choosing_error _ _ _ _ hph, finish]
  · intro p v h
    rw [hp] at h; subst h
    split at hco <;> simp_all [Request.isFinal]
    rename_i p' v' hph
    simp [step_fetching_error _ _ _ _ hph, finish]

/-- C13: once `resolve` has returned, no provider call follows -/
theorem final_is_last (debug : Bool) (fuel : Nat) (root : P) (rv : V) (as : List (Answer P S V M Pr E))
    (a : Answer P S V M Pr E)
    (h : (after (start (E := E) debug fuel root rv) as).2.isFinal = true) :
    (after (start (E := E) debug fuel root rv) (as ++ [a])).2.isFinal = true := by
  have hco := coherent_run (E := E) (M := M) (Pr := Pr) (S := S) debug fuel root rv as
  rw [after_snoc]
  exact (done_step _ _ (coherent_final hco h)).2

/-- C13: a version outside the offered set yields `Failure`, never a solution -/
theorem out_of_set_fails (debug : Bool) (fuel : Nat) (root : P) (rv : V) (as : List (Answer P S V M Pr E))
    (p : P) (s : S) (v : V)
    (h : (after (start (E := E) debug fuel root rv) as).2 = .chooseVersion p s)
    (hv : contains s v = false) :
    (after (start (E := E) debug fuel root rv) (as ++ [.version (some v)])).2 =
      .failure "choose_package_version picked an incompatible version" := by
  have hco := coherent_run (E := E) (M := M) (Pr := Pr) (S := S) debug fuel root rv as
  rw [after_snoc]
  generalize after (start (E := E) (M := M) (Pr := Pr) (S := S) debug fuel root rv) as = x at *
  obtain ⟨st, r⟩ := x
  simp only at h; subst h
  simp only [Coherent] at hco
  split at hco <;> simp_all [Request.isFinal]
  rename_i p' t' hph
  obtain ⟨set, ⟨rfl, rfl⟩, rfl⟩ := hco
  rw [step_choosing_out _ _ _ _ hph (by simpa [Term.contains] using hv)]
  rfl

/-- C12: `get_dependencies(p, v)` is only called for the version that the immediately preceding
`choose_version(p, ·)` returned -/
theorem deps_after_choose (debug : Bool) (fuel : Nat) (root : P) (rv : V) (as : List (Answer P S V M Pr E))
    (k : Nat) (p : P) (v : V)
    (h : (trace debug fuel root rv as)[k + 1]? = some (.getDependencies p v)) :
    (∃ s, (trace debug fuel root rv as)[k]? = some (.chooseVersion p s)) ∧
      as[k]? = some (.version (some v)) := by
  rw [trace_eq, traceFrom_getElem?_eq_some] at h
  obtain ⟨hk, h⟩ := h
  have hk' : k < as.length := by omega
  rw [take_succ_snoc _ _ hk', after_snoc] at h
  obtain ⟨⟨t, hph⟩, ha, -, -⟩ := step_getDeps _ _ _ _ h
  have hco := coherent_run (E := E) (M := M) (Pr := Pr) (S := S) debug fuel root rv (as.take k)
  simp only [Coherent, hph] at hco
  obtain ⟨set, hreq, -⟩ := hco
  refine ⟨⟨set, ?_⟩, ?_⟩
  · rw [trace_eq, traceFrom_getElem?_eq_some]; exact ⟨by omega, hreq⟩
  · rw [List.getElem?_eq_getElem hk', ha]

/-- C12: at most one `get_dependencies` per (package, version) in a run -/
theorem deps_once (debug : Bool) (fuel : Nat) (root : P) (rv : V) (as : List (Answer P S V M Pr E))
    (i j : Nat) (hij : i < j) (p : P) (v : V)
    (hi : (trace debug fuel root rv as)[i]? = some (.getDependencies p v)) :
    (trace debug fuel root rv as)[j]? ≠ some (.getDependencies p v) := by
  intro hj
  rw [trace_eq, traceFrom_getElem?_eq_some] at hi hj
  obtain ⟨hik, hi⟩ := hi
  obtain ⟨hjk, hj⟩ := hj
  -- the request at `i` was issued by a step (it is not the first request)
  cases i with
  | zero => simp [after_nil, start] at hi
  | succ i =>
    obtain ⟨j, rfl⟩ : ∃ j', j = j' + 1 := ⟨j - 1, by omega⟩
    have hi' : i < as.length := by omega
    have hj' : j < as.length := by omega
    rw [take_succ_snoc _ _ hi', after_snoc] at hi
    rw [take_succ_snoc _ _ hj', after_snoc] at hj
    obtain ⟨-, -, -, hmem⟩ := step_getDeps _ _ _ _ hi
    obtain ⟨-, -, hnot, -⟩ := step_getDeps _ _ _ _ hj
    apply hnot
    -- `as.take j = as.take (i+1) ++ rest`
    have hsplit : as.take j = as.take (i + 1) ++ (as.take j).drop (i + 1) := by
      have : (as.take j).take (i + 1) = as.take (i + 1) := by
        rw [List.take_take]; congr 1; omega
      rw [← this, List.take_append_drop]
    rw [hsplit, after_append]
    apply added_mono_after
    rw [take_succ_snoc _ _ hi', after_snoc]
    exact hmem

/-- C12: `should_cancel` is polled first, and at least once between any two `choose_version` calls -/
theorem cancel_first (debug : Bool) (fuel : Nat) (root : P) (rv : V) (as : List (Answer P S V M Pr E)) :
    (trace debug fuel root rv as)[0]? = some .shouldCancel := by
  simp [trace, start]

theorem cancel_between_choose (debug : Bool) (fuel : Nat) (root : P) (rv : V)
    (as : List (Answer P S V M Pr E)) (i j : Nat) (hij : i < j) (p q : P) (s t : S)
    (hi : (trace debug fuel root rv as)[i]? = some (.chooseVersion p s))
    (hj : (trace debug fuel root rv as)[j]? = some (.chooseVersion q t)) :
    ∃ k, i < k ∧ k < j ∧ (trace debug fuel root rv as)[k]? = some .shouldCancel := by
  rw [trace_eq, traceFrom_getElem?_eq_some] at hi hj
  obtain ⟨hik, hi⟩ := hi
  obtain ⟨hjk, hj⟩ := hj
  have hco := coherent_run (E := E) (M := M) (Pr := Pr) (S := S) debug fuel root rv (as.take i)
  have hlate : Late (after (start (E := E) (M := M) (Pr := Pr) (S := S) debug fuel root rv) (as.take i)) := by
    left
    generalize after (start (E := E) (M := M) (Pr := Pr) (S := S) debug fuel root rv) (as.take i) = x at *
    obtain ⟨st, r⟩ := x
    simp only at hi; subst hi
    simp only [Coherent] at hco
    split at hco <;> simp_all [Request.isFinal]
  have hsplit : as.take j = as.take i ++ (as.take j).drop i := by
    have : (as.take j).take i = as.take i := by
      rw [List.take_take]; congr 1; omega
    rw [← this, List.take_append_drop]
  have hlen : ((as.take j).drop i).length = j - i := by simp; omega
  rw [hsplit, after_append] at hj
  obtain ⟨m, hm0, hm, hreq⟩ := late_run _ hlate _ (by
    intro h0; rw [h0] at hlen; simp at hlen; omega) _ _ hj
  refine ⟨i + m, by omega, by omega, ?_⟩
  rw [trace_eq, traceFrom_getElem?_eq_some]
  refine ⟨by omega, ?_⟩
  have : as.take (i + m) = as.take i ++ ((as.take j).drop i).take m := by
    rw [List.take_add, List.drop_take, List.take_take]
    congr 2
    omega
  rw [this, after_append]; exact hreq

/-- C12: the first version query is for the root with the singleton set of the requested version
(after `should_cancel` and `prioritize(root, {rv})`) -/
theorem first_query (debug : Bool) (fuel : Nat) (hf : 3 ≤ fuel) (root : P) (rv : V)
    (as : List (Answer P S V M Pr E)) (k : Nat) (p : P) (s : S)
    (hk : (trace debug fuel root rv as)[k]? = some (.chooseVersion p s))
    (hfirst : ∀ j < k, ∀ q t, (trace debug fuel root rv as)[j]? ≠ some (.chooseVersion q t)) :
    k = 3 ∧ p = root ∧ s = VersionSet.singleton rv ∧
      (trace debug fuel root rv as)[1]? = some (.prioritize root (VersionSet.singleton rv)) := by
  obtain ⟨n, rfl⟩ : ∃ n, fuel = n + 3 := ⟨fuel - 3, by omega⟩
  rw [trace_eq, traceFrom_getElem?_eq_some] at hk
  obtain ⟨hkl, hk⟩ := hk
  obtain ⟨bs, has⟩ : ∃ bs, as = as.take k ++ bs := ⟨as.drop k, (List.take_append_drop k as).symm⟩
  have hlen : (as.take k).length = k := by simp [hkl]
  generalize as.take k = l at *
  subst has
  match l with
  | [] => simp [after_nil, start] at hk
  | a0 :: l =>
    rw [after_cons] at hk
    have h1 : (trace debug (n + 3) root rv (a0 :: l ++ bs))[1]? =
        some (step (start (E := E) debug (n + 3) root rv).1 a0).2 := by
      simp [trace, runFrom_cons]
    rcases step_start (E := E) debug n root rv a0 with hd | he
    · have := (done_after _ hd l).2; rw [hk] at this; cases this
    · rw [he] at hk h1
      match l with
      | [] => simp [after_nil] at hk
      | a1 :: l =>
        rw [after_cons] at hk
        rcases step_s1 (E := E) debug (n + 3) root rv a1 with hd | ⟨pr, he1⟩
        · have := (done_after _ hd l).2; rw [hk] at this; cases this
        · simp only [he1] at hk
          match l with
          | [] => simp [after_nil] at hk
          | a2 :: l =>
            rw [after_cons] at hk
            rcases step_s2 (E := E) debug (n + 3) root rv pr a2 with hd | he2
            · have := (done_after _ hd l).2; rw [hk] at this; cases this
            · have h3 : (trace debug (n + 3) root rv (a0 :: a1 :: a2 :: l ++ bs))[3]? =
                  some (.chooseVersion root (singleton rv)) := by
                simp [trace, runFrom_cons, he, he1, he2]
              match l with
              | [] =>
                rw [after_nil, he2] at hk
                cases hk
                simp at hlen
                subst hlen
                exact ⟨rfl, rfl, rfl, h1⟩
              | a3 :: l =>
                exfalso
                exact hfirst 3 (by simp at hlen; omega) _ _ h3

end Solver
end Pubgrub

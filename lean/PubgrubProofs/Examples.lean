/-
Non-vacuity: concrete runs of the coroutine model that meet the hypotheses of the main solver theorems,
so that none of them is an implication nothing satisfies.

Everything is over the bit set `BitSet 3` with versions `Fin 3` (instances
`BitSet.instVersionSetBitSetFin`, `BitSet.lawful`, `BitSet.canonicalEmpty`), packages `Nat`, priorities
`Nat`, debug assertions ON, fuel `100`, root package `0` at version `0`.  A set is written `bs b0 b1 b2`
(bit `i` = version `i` is a member).

(A) `regA` HAS a solution, found after one backtrack:
      0@0 → 1 ∈ {0,1,2};   1 has versions 2, 1;   1@2 → 2 ∈ {0,1,2}, and 2 has NO version;
      1@1 → 3 ∈ {0,1};   3 has versions 2, 0, without dependencies.
    The run `answersA` (26 answers of a well-behaved provider) tries 1@2, learns `{1: {2}}` from the missing
    package 2, backtracks, is asked to choose 1 in `{0,1}`, takes 1@1, then 3@0 (3@2 is outside `{0,1}`),
    and returns `Ok [(0,0), (1,1), (3,0)]`.
      `example_A_run`, `example_A_solution_valid`, `example_A_solution_reachable`, …
(B) `regB` has NO solution:
      0@0 → 1 ∈ {0,1,2};   1 has versions 2, 1;   1@2 → 2 ∈ {0,1,2};   1@1 → 2 ∈ {0};
      2 has the version 0;   2@0 → 3 ∈ {0,1,2}, and 3 has NO version.
    The run `answersB` (33 answers) ends in `Err(NoSolution(treeB))`, `treeB` a derived tree with eight
    derived nodes, in which the node `{2: {0}}` (arena index 5) is used twice and carries `Some(5)`.
      `example_B_run`, `example_B_noSolution_sound`, `example_B_tree_checkable`, `example_B_top_forbids_root`,
      `example_B_shared_same`, `example_B_shared_twice`, `example_B_shared_iff`, `example_B_collapse_no_panic`
(C) the state of run (A) after its first 17 answers: `choose_version(1, {0,1})` is pending, just after the
    backtrack.   `example_C_reachable`, `example_C_choose_nonempty`, `example_C_psWF`, `example_C_qInv`
(D) `resolve_returns_typed` at `regA` and `regB` with explicit `FiniteWorld`s, sharpened by (A) and (B):
    on `regA` every long enough typed well-behaved run returns a solution, on `regB` `NoSolution`.
      `example_D_resolve_returns_typed`, `example_D_regA_returns_solution`, `example_D_regB_returns_noSolution`
-/
import PubgrubProofs.Typed
import PubgrubProofs.NoPanicCex
import PubgrubProofs.CollapseNoPanic
import PubgrubProofs.TreeSound
import PubgrubProofs.SharedIds
import PubgrubProofs.StoreInvariant
import PubgrubProofs.OwnInvariant
import PubgrubProofs.ReachabilityC04
import PubgrubProofs.PSInvariant
import PubgrubProofs.NonEmpty
import PubgrubProofs.Termination
import PubgrubProofs.CanonInstances

set_option linter.unusedSectionVars false
set_option linter.unusedVariables false

namespace Pubgrub.Examples
open Pubgrub VersionSet

attribute [local instance] BitSet.instVersionSetBitSetFin BitSet.lawful

/-! ### vocabulary -/

abbrev S3 := BitSet 3
abbrev V3 := Fin 3
abbrev Wd := World Nat S3 V3 Unit
abbrev St := SolverState Nat S3 V3 Unit Nat
abbrev Rq := Request Nat S3 V3 Unit Nat Unit
abbrev An := Answer Nat S3 V3 Unit Nat Unit
abbrev Tree := DerivationTree Nat S3 V3 Unit

/-- the set with the given three bits -/
def bs (b0 b1 b2 : Bool) : S3 := ⟨[b0, b1, b2]⟩
/-- `{0, 1, 2}` -/
def all3 : S3 := bs true true true

instance : CanonicalEmpty S3 V3 := BitSet.canonicalEmpty 3

deriving instance DecidableEq for DerivationTree

/-! ### checking a run against a registry by evaluation (the pattern of NoPanicCex.lean, for any
registry over the bit set) -/

/-- a decidable check that an answer is consistent with the registry `W` -/
def answerOKb (W : Wd) : Rq → An → Bool
  | .chooseVersion p s, .version none => (W.versions p).all fun v => !contains s v
  | .chooseVersion p _, .version (some v) => decide (v ∈ W.versions p)
  | .getDependencies _ _, .unavailable _ => false
  | .getDependencies p v, .available ds =>
    match W.deps p v with
    | .available ds' => decide (ds' = ds)
    | .unavailable _ => false
  | _, _ => true

theorem answerOKb_sound (W : Wd) (req : Rq) (a : An) (h : answerOKb W req a = true) : AnswerOK W req a := by
  cases req <;> cases a
  all_goals first | exact True.intro | skip
  case chooseVersion.version p s o =>
    cases o with
    | none =>
      intro v hv
      have := List.all_eq_true.1 h v hv
      simpa using this
    | some v =>
      have hv : v ∈ W.versions p := of_decide_eq_true h
      exact hv
  case getDependencies.unavailable p v m => cases h
  case getDependencies.available p v ds =>
    simp only [answerOKb] at h
    split at h
    · rename_i ds' hd
      simp only [AnswerOK]
      rw [hd, of_decide_eq_true h]
    · cases h

/-- a decidable check that an answer is one of a well-behaved provider -/
def wellBehavedb : Rq → An → Bool
  | _, .error _ => false
  | .chooseVersion _ s, .version (some v) => contains s v
  | _, _ => true

theorem wellBehavedb_sound (req : Rq) (a : An) (h : wellBehavedb req a = true) : AnswerWellBehaved req a := by
  cases req <;> cases a
  all_goals first | exact True.intro | cases h | skip
  all_goals (rename_i o; cases o <;> first | exact True.intro | exact h)

/-- the answers are consistent with `W` and well-behaved all along the run -/
def checkRunWB (W : Wd) : St × Rq → List An → Bool
  | _, [] => true
  | (s, req), a :: as => answerOKb W req a && wellBehavedb req a && checkRunWB W (Solver.step s a) as

theorem reachableWB_of_checkRun (W : Wd) (debug : Bool) (fuel : Nat) (root : Nat) (rv : V3) :
    ∀ (as : List An) (x : St × Rq), ReachableWB W debug fuel root rv x →
      checkRunWB W x as = true → ReachableWB W debug fuel root rv (Solver.after x as) := by
  intro as
  induction as with
  | nil => intro x hx _; exact hx
  | cons a as ih =>
    intro x hx hc
    obtain ⟨s, req⟩ := x
    simp only [checkRunWB, Bool.and_eq_true] at hc
    exact ih _ (ReachableWB.step hx (answerOKb_sound W req a hc.1.1) (wellBehavedb_sound req a hc.1.2)) hc.2

/-- what `resolve` returned, when it returned `Ok` -/
def solutionOf : Rq → Option (List (Nat × V3))
  | .solution sel => some sel
  | _ => none

theorem solutionOf_spec (r : Rq) (sel : List (Nat × V3)) (h : solutionOf r = some sel) : r = .solution sel := by
  cases r <;> simp only [solutionOf] at h <;> cases h
  rfl

/-- the tree `resolve` returned, when it returned `Err(NoSolution(tree))` -/
def treeOf : Rq → Option Tree
  | .noSolution t => some t
  | _ => none

theorem treeOf_spec (r : Rq) (t : Tree) (h : treeOf r = some t) : r = .noSolution t := by
  cases r <;> simp only [treeOf] at h <;> cases h
  rfl

/-- the pending `choose_version` call -/
def chooseOf : Rq → Option (Nat × S3)
  | .chooseVersion p s => some (p, s)
  | _ => none

theorem chooseOf_spec (r : Rq) (p : Nat) (s : S3) (h : chooseOf r = some (p, s)) : r = .chooseVersion p s := by
  cases r <;> simp only [chooseOf] at h <;> cases h
  rfl

/-- every dependency the registry declares is in the given list -/
def DepsIn (W : Wd) (l : List (Nat × S3)) : Prop :=
  ∀ p v ds, W.deps p v = .available ds → ∀ d ∈ ds, d ∈ l

theorem setsValid_of_depsIn (W : Wd) (l : List (Nat × S3)) (h : DepsIn W l)
    (hl : ∀ d ∈ l, d.2.bits.length = 3) : W.SetsValid :=
  fun p v ds hd d hdm => hl d (h p v ds hd d hdm)

/-- the start of every run below: debug assertions on, fuel `100`, root `0` at version `0` -/
def start : St × Rq := Solver.start true 100 0 0

/-! ### (A) a registry with a solution that needs a backtrack -/

/-- packages `0` (root), `1`, `2` (no version), `3` -/
def regA : Wd where
  versions p := if p = 0 then [0] else if p = 1 then [2, 1] else if p = 3 then [2, 0] else []
  deps p v :=
    if p = 0 then .available [(1, all3)]
    else if p = 1 then (if v = 2 then .available [(2, all3)] else .available [(3, bs true true false)])
    else .available []

theorem regA_depsIn : DepsIn regA [(1, all3), (2, all3), (3, bs true true false)] := by
  intro p v ds hd d hdm
  simp only [regA] at hd
  split_ifs at hd <;> cases hd <;> simp_all

theorem regA_setsValid : regA.SetsValid :=
  setsValid_of_depsIn regA _ regA_depsIn (by decide)

/-- the answers of a well-behaved provider for `regA` that prefers the highest version; the requests they
answer are listed at the end of the file -/
def answersA : List An := [
  .ok, .priority 10, .picked (some 0), .version (some 0), .available [(1, all3)],
  .ok, .priority 5, .picked (some 1), .version (some 2), .available [(2, all3)],
  .ok, .priority 3, .picked (some 2), .version none,
  -- conflict `{2: {0,1,2}}`, learned `{1: {2}}`, backtrack to the root decision
  .ok, .priority 5, .picked (some 1), .version (some 1), .available [(3, bs true true false)],
  .ok, .priority 2, .picked (some 3), .version (some 0), .available [],
  .ok, .picked none]

/-- the selection `resolve` returns on `regA` -/
def selA : List (Nat × V3) := [(0, 0), (1, 1), (3, 0)]

/-- state and request after the run -/
def finalA : St × Rq := Solver.after start answersA

theorem checkA : checkRunWB regA start answersA = true := by decide +kernel
theorem finalA_solution : solutionOf finalA.2 = some selA := by decide +kernel

/-- **(A)** the run is one of a well-behaved provider of `regA` and ends in `Ok [(0,0), (1,1), (3,0)]` -/
theorem example_A_run :
    ReachableWB (E := Unit) regA true 100 0 0 (finalA.1, .solution [(0, 0), (1, 1), (3, 0)]) := by
  have h := reachableWB_of_checkRun regA true 100 0 0 answersA _ ReachableWB.start checkA
  have h2 := solutionOf_spec _ _ finalA_solution
  rw [← show selA = [(0, 0), (1, 1), (3, 0)] from rfl, ← h2]
  exact h

/-- the run does backtrack: the decision level goes `0 1 2 … 2` and after answer 14 (`version none` for
package `2`) and the following `should_cancel` it is back at `1`; `1@2` was tried and dropped -/
theorem example_A_backtracks :
    (Solver.after start (answersA.take 14)).1.st.ps.currentDecisionLevel = 2 ∧
    (Solver.after start (answersA.take 15)).1.st.ps.currentDecisionLevel = 1 ∧
    (1, (2 : V3)) ∈ finalA.1.added ∧ SmallMap.get selA 1 = some 1 := by decide +kernel

/-- **`solution_valid` (C01) applied to run (A)**: `0 ↦ 0, 1 ↦ 1, 3 ↦ 0` (package `2` unselected) is a
solution of `regA`, made of versions the provider returned in this run -/
theorem example_A_solution_valid :
    IsSolution regA 0 0 (fun p => SmallMap.get [(0, (0 : V3)), (1, 1), (3, 0)] p) ∧
      (∀ p v, SmallMap.get [(0, (0 : V3)), (1, 1), (3, 0)] p = some v → (p, v) ∈ finalA.1.added) :=
  solution_valid regA regA_setsValid true 100 0 0 finalA.1 _ example_A_run

/-- **`solution_reachable` (C04) applied to run (A)**: every selected package is reachable from the root
through dependencies of the selected versions … -/
theorem example_A_solution_reachable (p : Nat) (v : V3)
    (hp : SmallMap.get [(0, (0 : V3)), (1, 1), (3, 0)] p = some v) :
    ReachableFrom regA 0 (fun q => SmallMap.get [(0, (0 : V3)), (1, 1), (3, 0)] q) p :=
  solution_reachable regA regA_setsValid true 100 0 0 finalA.1 _ example_A_run p v hp

/-- … e.g. package `3`, selected at `0` (through `0@0 → 1`, `1@1 → 3`) -/
theorem example_A_package3_reachable :
    ReachableFrom regA 0 (fun q => SmallMap.get [(0, (0 : V3)), (1, 1), (3, 0)] q) 3 :=
  example_A_solution_reachable 3 0 (by decide)

/-! ### (C) a pending `choose_version` after the backtrack of run (A) -/

/-- the first 17 answers of run (A): up to the pop of package `1` after the backtrack -/
def answersC : List An := answersA.take 17

/-- state and request after `answersC` -/
def stateC : St × Rq := Solver.after start answersC

theorem checkC : checkRunWB regA start answersC = true := by decide +kernel
theorem stateC_choose : chooseOf stateC.2 = some (1, bs true true false) := by decide +kernel

/-- **(C)** after the backtrack `choose_version(1, {0,1})` is pending: version `2` has been excluded -/
theorem example_C_reachable :
    Reachable (E := Unit) regA true 100 0 0 (stateC.1, .chooseVersion 1 (bs true true false)) := by
  have h := reachableWB_of_checkRun regA true 100 0 0 answersC _ ReachableWB.start checkC
  have h2 := chooseOf_spec _ _ _ stateC_choose
  rw [← h2]
  exact reachable_of_wb regA true 100 0 0 _ h

/-- the state is the one after a backtrack: decision level `1` (only the root is decided) while three
incompatibilities beyond the initial one have been learned or recorded (store of size 5, the last one
derived) -/
theorem example_C_after_backtrack :
    stateC.1.st.ps.currentDecisionLevel = 1 ∧ stateC.1.st.store.length = 5 ∧
      (stateC.1.st.store[4]?.bind fun i => i.causes) = some (3, 2) := by decide +kernel

/-- **`choose_nonempty` (C12) applied to (C)**: the set handed to `choose_version` has a member -/
theorem example_C_choose_nonempty : ∃ v : V3, VersionSet.contains (bs true true false) v = true :=
  choose_nonempty regA regA_setsValid true 100 0 0 stateC.1 1 (bs true true false) example_C_reachable

/-- **`reachable_psWF` (I-PS, C14) applied to (C)** -/
theorem example_C_psWF : stateC.1.st.ps.WF :=
  reachable_psWF regA regA_setsValid true 100 0 0 (stateC.1, .chooseVersion 1 (bs true true false))
    example_C_reachable rfl

/-- **`reachable_qInv` (I-Q) applied to (C)**: package `1` is in flight -/
theorem example_C_qInv : stateC.1.st.ps.QInv (some 1) :=
  reachable_qInv regA regA_setsValid true 100 0 0 (stateC.1, .chooseVersion 1 (bs true true false))
    example_C_reachable rfl

/-! ### (B) a registry without solution, with a derived tree -/

/-- packages `0` (root), `1`, `2`, `3` (no version) -/
def regB : Wd where
  versions p := if p = 0 then [0] else if p = 1 then [2, 1] else if p = 2 then [0] else []
  deps p v :=
    if p = 0 then .available [(1, all3)]
    else if p = 1 then (if v = 2 then .available [(2, all3)] else .available [(2, bs true false false)])
    else if p = 2 then .available [(3, all3)]
    else .available []

theorem regB_depsIn : DepsIn regB [(1, all3), (2, all3), (2, bs true false false), (3, all3)] := by
  intro p v ds hd d hdm
  simp only [regB] at hd
  split_ifs at hd <;> cases hd <;> simp_all

theorem regB_setsValid : regB.SetsValid :=
  setsValid_of_depsIn regB _ regB_depsIn (by decide)

def answersB : List An := [
  .ok, .priority 10, .picked (some 0), .version (some 0), .available [(1, all3)],
  .ok, .priority 5, .picked (some 1), .version (some 2), .available [(2, all3)],
  .ok, .priority 3, .picked (some 2), .version (some 0), .available [(3, all3)],
  .ok, .priority 1, .picked (some 3), .version none,
  -- conflict `{3: {0,1,2}}`, learned `{2: {0}}` (index 5), back to level 2
  .ok, .priority 3, .picked (some 2), .version none,
  -- conflict `{2: {1,2}}`, learned `{2: {0,1,2}}` then `{1: {2}}`, back to level 1
  .ok, .priority 5, .picked (some 1), .version (some 1), .available [(2, bs true false false)],
  -- `{2: {0}}` again: learned `{1: {1}}`
  .ok, .priority 5, .picked (some 1), .version none,
  -- conflict `{1: {0}}`, learned `{1: {0,1}}`, `{1: {0,1,2}}`, `{0: {0}}`: terminal
  .ok]

/-- the shared subtree: `{2: {0}}`, because `3` has no version and `2@0` depends on `3` -/
def sharedB : Tree :=
  .derived [(2, .pos (bs true false false))] (some 5)
    (.external (.noVersions 3 all3))
    (.external (.fromDependencyOf 2 (bs true false false) 3 all3))

/-- the tree of `Err(NoSolution(…))` -/
def treeB : Tree :=
  .derived [(0, .pos (bs true false false))] none
    (.derived [(1, .pos all3)] none
      (.derived [(1, .pos (bs true true false))] none
        (.external (.noVersions 1 (bs true false false)))
        (.derived [(1, .pos (bs false true false))] none
          sharedB
          (.external (.fromDependencyOf 1 (bs false true false) 2 (bs true false false)))))
      (.derived [(1, .pos (bs false false true))] none
        (.derived [(2, .pos all3)] none
          (.external (.noVersions 2 (bs false true true)))
          sharedB)
        (.external (.fromDependencyOf 1 (bs false false true) 2 all3))))
    (.external (.fromDependencyOf 0 (bs true false false) 1 all3))

def finalB : St × Rq := Solver.after start answersB

theorem checkB : checkRunWB regB start answersB = true := by decide +kernel
theorem finalB_tree : treeOf finalB.2 = some treeB := by decide +kernel

/-- **(B)** the run is one of a well-behaved provider of `regB` and ends in `Err(NoSolution(treeB))` -/
theorem example_B_runWB : ReachableWB (E := Unit) regB true 100 0 0 (finalB.1, .noSolution treeB) := by
  have h := reachableWB_of_checkRun regB true 100 0 0 answersB _ ReachableWB.start checkB
  have h2 := treeOf_spec _ _ finalB_tree
  rw [← h2]
  exact h

theorem example_B_run : Reachable (E := Unit) regB true 100 0 0 (finalB.1, .noSolution treeB) :=
  reachable_of_wb regB true 100 0 0 _ example_B_runWB

/-- the tree is derived: eight derived nodes in the unfolded tree, two of which are the node `sharedB`
carrying `Some(5)` -/
theorem example_B_tree_shape :
    (∃ c1 c2, treeB = .derived [(0, .pos (bs true false false))] none c1 c2) ∧
      treeB.derivedNodes.map Prod.fst = [none, none, none, none, some 5, none, none, some 5] :=
  ⟨⟨_, _, rfl⟩, by decide +kernel⟩

/-- **`noSolution_sound` (C02) applied to run (B)**: `regB` has no solution -/
theorem example_B_noSolution_sound : ¬ ∃ σ, IsSolution regB 0 0 σ :=
  noSolution_sound regB regB_setsValid true 100 0 0 finalB.1 treeB example_B_run

/-- **C03, first sentence, applied to run (B)** (`noSolution_tree_origin` + `buildDerivationTree_checkable`):
every leaf of `treeB` is true of `regB` and every derived node is entailed by its two causes -/
theorem example_B_tree_checkable : treeB.Checkable regB 0 0 := by
  obtain ⟨terminal, inc, hinc, _, hbuild, hinv, _, _⟩ :=
    noSolution_tree_origin regB regB_setsValid true 100 0 0 finalB.1 treeB example_B_run
  exact (buildDerivationTree_checkable regB 0 0 finalB.1.st hinv terminal inc hinc treeB hbuild).1

/-- **C03, top node, applied to run (B)**: the top clause `{0: {0}}` holds in every selection with the
root at the requested version -/
theorem example_B_top_forbids_root (σ : Nat → Option V3) (hσ : σ 0 = some 0) :
    TermsTrue σ [(0, Term.pos (bs true false false))] := by
  obtain ⟨terminal, inc, hinc, hterm, hbuild, hinv, _, _⟩ :=
    noSolution_tree_origin regB regB_setsValid true 100 0 0 finalB.1 treeB example_B_run
  have h := (buildDerivationTree_checkable regB 0 0 finalB.1.st hinv terminal inc hinc treeB hbuild).2
  have := terminal_forbids_root 0 0 inc hterm σ hσ
  rw [← h] at this
  exact this

theorem sharedB_mem : (some 5, sharedB) ∈ treeB.derivedNodes := by decide +kernel

/-- **C03, shared ids, applied to run (B)**: every node of `treeB` that carries `Some(5)` is `sharedB` -/
theorem example_B_shared_same (t : Tree) (ht : (some 5, t) ∈ treeB.derivedNodes) : t = sharedB := by
  obtain ⟨terminal, _, _, _, hbuild, hinv, _, _⟩ :=
    noSolution_tree_origin regB regB_setsValid true 100 0 0 finalB.1 treeB example_B_run
  exact buildDerivationTree_shared_same regB 0 0 finalB.1.st hinv terminal treeB hbuild 5 t sharedB ht
    sharedB_mem

/-- **C03, shared ids, applied to run (B)**: the node with `Some(5)` occurs at least twice, and `5` is
the arena index of `{2: {0}}` -/
theorem example_B_shared_twice :
    2 ≤ (treeB.derivedNodes.filter fun n => n.1 = some 5).length ∧
      ∃ inc, finalB.1.st.store[5]? = some inc ∧ inc.terms = [(2, Term.pos (bs true false false))] := by
  obtain ⟨terminal, _, _, _, hbuild, hinv, _, _⟩ :=
    noSolution_tree_origin regB regB_setsValid true 100 0 0 finalB.1 treeB example_B_run
  obtain ⟨h2, inc, hinc, hterms⟩ :=
    buildDerivationTree_shared_iff_partial regB 0 0 finalB.1.st hinv terminal treeB hbuild 5 sharedB sharedB_mem
  exact ⟨h2, inc, hinc, hterms.symm⟩

/-- **C03, shared ids in full, applied to run (B)** -/
theorem example_B_shared_iff :
    ∃ (terminal : Nat) (sh : Nat → Bool), IsTreeOf finalB.1.st.store sh terminal treeB ∧
      ∀ k, sh k = true ↔
        (∃ inc a b, finalB.1.st.store[k]? = some inc ∧ inc.causes = some (a, b)) ∧
          TwoEdgesTo finalB.1.st.store terminal k := by
  obtain ⟨terminal, _, _, _, hbuild, hinv, _, _⟩ :=
    noSolution_tree_origin regB regB_setsValid true 100 0 0 finalB.1 treeB example_B_run
  obtain ⟨sh, h1, h2⟩ := buildDerivationTree_shared_iff regB 0 0 finalB.1.st hinv terminal treeB hbuild
  exact ⟨terminal, sh, h1, h2⟩

/-- **`noSolution_collapse_no_panic` (C09) applied to run (B)**: `collapse_no_versions` does not panic on
`treeB` (which has three `NoVersions` leaves) -/
theorem example_B_collapse_no_panic : ∃ t', treeB.collapseNoVersions = .ok t' :=
  noSolution_collapse_no_panic regB regB_setsValid true 100 0 0 finalB.1 treeB example_B_run

/-! ### (D) `resolve_returns_typed` over explicit finite registries -/

/-- `regA` as a `FiniteWorld`: the packages `0 … 3`, all three versions as test versions -/
def finiteA : FiniteWorld regA 0 0 :=
  BitSet.finiteWorld regA 0 0 [0, 1, 2, 3] (by decide) (by
    intro p v ds _ hd d hdm
    have := regA_depsIn p v ds hd d hdm
    revert this
    generalize d = d
    simp only [List.mem_cons, List.not_mem_nil, or_false]
    rintro (rfl | rfl | rfl) <;> decide)

/-- `regB` as a `FiniteWorld` -/
def finiteB : FiniteWorld regB 0 0 :=
  BitSet.finiteWorld regB 0 0 [0, 1, 2, 3] (by decide) (by
    intro p v ds _ hd d hdm
    have := regB_depsIn p v ds hd d hdm
    revert this
    generalize d = d
    simp only [List.mem_cons, List.not_mem_nil, or_false]
    rintro (rfl | rfl | rfl | rfl) <;> decide)

/-- **`resolve_returns_typed` (C05 + C02) at `regA`** -/
theorem example_D_resolve_returns_typed (debug : Bool) :
    ∃ N fuel0 : Nat, ∀ fuel, fuel0 ≤ fuel → ∀ as : List An, N ≤ as.length →
      WellBehavedRun regA debug fuel 0 0 as → TypedRun debug fuel 0 0 as →
      ∃ k, k ≤ N ∧
        (Solver.after (Solver.start debug fuel 0 0) (as.take k)).2.isFinal = true ∧
        (∀ j, j < k → (Solver.after (Solver.start debug fuel 0 0) (as.take j)).2.isFinal = false) ∧
        Decided regA 0 0 (Solver.after (Solver.start debug fuel 0 0) (as.take k)).2 :=
  resolve_returns_typed regA regA_setsValid 0 0 finiteA debug

/-- with (A): `regA` has a solution, so every long enough typed run of a well-behaved provider of `regA` —
whatever its priorities and choices — returns `Ok(sel)` with `sel` a solution -/
theorem example_D_regA_returns_solution (debug : Bool) :
    ∃ N fuel0 : Nat, ∀ fuel, fuel0 ≤ fuel → ∀ as : List An, N ≤ as.length →
      WellBehavedRun regA debug fuel 0 0 as → TypedRun debug fuel 0 0 as →
      ∃ k sel, k ≤ N ∧ (Solver.after (Solver.start debug fuel 0 0) (as.take k)).2 = .solution sel ∧
        IsSolution regA 0 0 (fun p => SmallMap.get sel p) := by
  obtain ⟨N, fuel0, h⟩ := example_D_resolve_returns_typed debug
  refine ⟨N, fuel0, fun fuel hf as hl hwb hty => ?_⟩
  obtain ⟨k, hk, _, _, hdec⟩ := h fuel hf as hl hwb hty
  rcases hdec with ⟨sel, hsel, hsol⟩ | ⟨_, hno⟩
  · exact ⟨k, sel, hk, hsel, hsol⟩
  · exact absurd ⟨_, example_A_solution_valid.1⟩ hno

/-- with (B): `regB` has no solution, so every long enough typed run of a well-behaved provider of `regB`
returns `Err(NoSolution(…))` -/
theorem example_D_regB_returns_noSolution (debug : Bool) :
    ∃ N fuel0 : Nat, ∀ fuel, fuel0 ≤ fuel → ∀ as : List An, N ≤ as.length →
      WellBehavedRun regB debug fuel 0 0 as → TypedRun debug fuel 0 0 as →
      ∃ k t, k ≤ N ∧ (Solver.after (Solver.start debug fuel 0 0) (as.take k)).2 = .noSolution t := by
  obtain ⟨N, fuel0, h⟩ := resolve_returns_typed (Pr := Nat) (E := Unit) regB regB_setsValid 0 0 finiteB debug
  refine ⟨N, fuel0, fun fuel hf as hl hwb hty => ?_⟩
  obtain ⟨k, hk, _, _, hdec⟩ := h fuel hf as hl hwb hty
  rcases hdec with ⟨sel, _, hsol⟩ | ⟨⟨t, ht⟩, _⟩
  · exact absurd ⟨_, hsol⟩ example_B_noSolution_sound
  · exact ⟨k, t, hk, ht⟩

/-
The requests of the runs (`Solver.trace true 100 0 0 …`; sets as bit lists, `pick` with the queue shown):
(A) cancel, prio 0 [1,0,0], pick [(0,10)], choose 0 [1,0,0], deps 0@0,
    cancel, prio 1 [1,1,1], pick [(1,5)], choose 1 [1,1,1], deps 1@2,
    cancel, prio 2 [1,1,1], pick [(2,3)], choose 2 [1,1,1],
    cancel, prio 1 [1,1,0], pick [(1,5)], choose 1 [1,1,0]   <- (C), deps 1@1,
    cancel, prio 3 [1,1,0], pick [(3,2)], choose 3 [1,1,0], deps 3@0,
    cancel, pick [], solution [(0,0), (1,1), (3,0)]
(B) cancel, prio 0 [1,0,0], pick [(0,10)], choose 0 [1,0,0], deps 0@0,
    cancel, prio 1 [1,1,1], pick [(1,5)], choose 1 [1,1,1], deps 1@2,
    cancel, prio 2 [1,1,1], pick [(2,3)], choose 2 [1,1,1], deps 2@0,
    cancel, prio 3 [1,1,1], pick [(3,1)], choose 3 [1,1,1],
    cancel, prio 2 [0,1,1], pick [(2,3)], choose 2 [0,1,1],
    cancel, prio 1 [1,1,0], pick [(1,5)], choose 1 [1,1,0], deps 1@1,
    cancel, prio 1 [1,0,0], pick [(1,5)], choose 1 [1,0,0],
    cancel, nosolution treeB
-/

end Pubgrub.Examples
